/-
  Lemmas/Nesting.lean — the bracket nesting of the emitted module (`PyGram.maxNest` over its tokens) is
  the nesting of its expression trees (`Emit.modDepth`): CPython's 200-level limit becomes a
  condition on the trees (`depthOk`), no lexing needed.
-/
import TypedpyModel.Lemmas.TextClean
namespace Typedpy.Emit
open Typedpy.PyGram Typedpy.PyLex

/-! ### bracket nesting of the emitted module -/

theorem maxNest_open (d m : Nat) (c : Char) (h : c = '(' ∨ c = '[' ∨ c = '{') (ts : List Tok) :
    maxNest d m (.op c :: ts) = maxNest (d + 1) (max m (d + 1)) ts := by
  rcases h with rfl | rfl | rfl <;> simp [maxNest]
theorem maxNest_close (d m : Nat) (c : Char) (h : c = ')' ∨ c = ']' ∨ c = '}') (ts : List Tok) :
    maxNest (d + 1) m (.op c :: ts) = maxNest d m ts := by
  rcases h with rfl | rfl | rfl <;> simp [maxNest]
theorem maxNest_sep (d m : Nat) (c : Char) (h : c = ',' ∨ c = ':' ∨ c = '=' ∨ c = '-' ∨ c = '*') (ts : List Tok) :
    maxNest d m (.op c :: ts) = maxNest d m ts := by
  rcases h with rfl | rfl | rfl | rfl | rfl <;> simp [maxNest]

mutual
theorem maxNest_expr : ∀ (e : PyExpr) (d m : Nat) (rest : List Tok), d ≤ m →
    maxNest d m (toks e ++ rest) = maxNest d (max m (d + edepth e)) rest
  | .name n, d, m, rest, h => by simp [toks, maxNest, edepth, Nat.max_eq_left h]
  | .const w, d, m, rest, h => by simp [toks, maxNest, edepth, Nat.max_eq_left h]
  | .num t, d, m, rest, h => by simp [toks, maxNest, edepth, Nat.max_eq_left h]
  | .negNum t, d, m, rest, h => by simp [toks, maxNest, edepth, Nat.max_eq_left h]
  | .strLit cs, d, m, rest, h => by simp [toks, maxNest, edepth, Nat.max_eq_left h]
  | .bad, d, m, rest, h => by simp [toks, edepth, Nat.max_eq_left h]
  | .lam b, d, m, rest, h => by
    simp only [toks, List.cons_append, edepth]
    rw [show maxNest d m (.kw kwLambda :: .op ':' :: (toks b ++ rest)) = maxNest d m (toks b ++ rest) by
      simp [maxNest], maxNest_expr b d m rest h]
  | .call f kws, d, m, rest, h => by
    simp only [toks, List.cons_append, List.append_assoc, List.nil_append, edepth]
    rw [show maxNest d m (.name f :: .op '(' :: (toksKws true kws ++ .op ')' :: rest))
        = maxNest (d + 1) (max m (d + 1)) (toksKws true kws ++ (.op ')' :: rest)) by simp [maxNest],
      maxNest_kws kws true (d + 1) (max m (d + 1)) _ (by omega), maxNest_close _ _ ')' (Or.inl rfl)]
    congr 1; omega
  | .list xs, d, m, rest, h => by
    simp only [toks, List.cons_append, List.append_assoc, List.nil_append, edepth]
    rw [maxNest_open d m '[' (Or.inr (Or.inl rfl)),
      maxNest_list xs true (d + 1) (max m (d + 1)) _ (by omega), maxNest_close _ _ ']' (Or.inr (Or.inl rfl))]
    congr 1; omega
  | .dict kvs, d, m, rest, h => by
    simp only [toks, List.cons_append, List.append_assoc, List.nil_append, edepth]
    rw [maxNest_open d m '{' (Or.inr (Or.inr rfl)),
      maxNest_kvs kvs true (d + 1) (max m (d + 1)) _ (by omega), maxNest_close _ _ '}' (Or.inr (Or.inr rfl))]
    congr 1; omega
theorem maxNest_list : ∀ (xs : List PyExpr) (first : Bool) (d m : Nat) (rest : List Tok), d ≤ m →
    maxNest d m (toksL first xs ++ rest) = maxNest d (max m (d + listDepth xs)) rest
  | [], first, d, m, rest, h => by simp [toksL, listDepth, Nat.max_eq_left h]
  | x :: xs, first, d, m, rest, h => by
    have e1 := maxNest_expr x d m (toksL false xs ++ rest) h
    have e2 := maxNest_list xs false d (max m (d + edepth x)) rest (by omega)
    cases first
    · simp only [toksL, Bool.false_eq_true, if_false, List.cons_append, List.nil_append, List.append_assoc,
        listDepth]
      rw [maxNest_sep d m ',' (Or.inl rfl), e1, e2]
      congr 1; omega
    · simp only [toksL, if_true, List.nil_append, List.append_assoc, listDepth]
      rw [e1, e2]
      congr 1; omega
theorem maxNest_kws : ∀ (kws : List (List Char × PyExpr)) (first : Bool) (d m : Nat) (rest : List Tok), d ≤ m →
    maxNest d m (toksKws first kws ++ rest) = maxNest d (max m (d + kwsDepth kws)) rest
  | [], first, d, m, rest, h => by simp [toksKws, kwsDepth, Nat.max_eq_left h]
  | (k, v) :: r, first, d, m, rest, h => by
    have e1 := maxNest_expr v d m (toksKws false r ++ rest) h
    have e2 := maxNest_kws r false d (max m (d + edepth v)) rest (by omega)
    have key : maxNest d m (.name k :: .op '=' :: (toks v ++ (toksKws false r ++ rest)))
        = maxNest d (max m (d + max (edepth v) (kwsDepth r))) rest := by
      rw [show maxNest d m (.name k :: .op '=' :: (toks v ++ (toksKws false r ++ rest)))
          = maxNest d m (toks v ++ (toksKws false r ++ rest)) by simp [maxNest], e1, e2]
      congr 1; omega
    cases first
    · simp only [toksKws, Bool.false_eq_true, if_false, List.cons_append, List.nil_append, List.append_assoc,
        kwsDepth]
      rw [maxNest_sep d m ',' (Or.inl rfl), key]
    · simp only [toksKws, if_true, List.nil_append, List.append_assoc, List.cons_append, kwsDepth]
      rw [key]
theorem maxNest_kvs : ∀ (kvs : List (PyExpr × PyExpr)) (first : Bool) (d m : Nat) (rest : List Tok), d ≤ m →
    maxNest d m (toksKVs first kvs ++ rest) = maxNest d (max m (d + kvsDepth kvs)) rest
  | [], first, d, m, rest, h => by simp [toksKVs, kvsDepth, Nat.max_eq_left h]
  | (k, v) :: r, first, d, m, rest, h => by
    have e0 := maxNest_expr k d m (.op ':' :: (toks v ++ (toksKVs false r ++ rest))) h
    have e1 := maxNest_expr v d (max m (d + edepth k)) (toksKVs false r ++ rest) (by omega)
    have e2 := maxNest_kvs r false d (max (max m (d + edepth k)) (d + edepth v)) rest (by omega)
    have key : maxNest d m (toks k ++ .op ':' :: (toks v ++ (toksKVs false r ++ rest)))
        = maxNest d (max m (d + max (edepth k) (max (edepth v) (kvsDepth r)))) rest := by
      rw [e0, maxNest_sep _ _ ':' (Or.inr (Or.inl rfl)), e1, e2]
      congr 1; omega
    cases first
    · simp only [toksKVs, Bool.false_eq_true, if_false, List.cons_append, List.nil_append, List.append_assoc,
        kvsDepth]
      rw [maxNest_sep d m ',' (Or.inl rfl), key]
    · simp only [toksKVs, if_true, List.nil_append, List.append_assoc, List.cons_append, kvsDepth]
      rw [key]
end


theorem maxNest_item (it : Item) (m : Nat) (rest : List Tok) :
    maxNest 0 m (itemToks it ++ rest) = maxNest 0 (max m (itemDepth it)) rest := by
  cases it with
  | doc d => simp [itemToks, maxNest, itemDepth]
  | blank => simp [itemToks, itemDepth]
  | pass => simp [itemToks, maxNest, itemDepth]
  | ann n e =>
    simp only [itemToks, List.cons_append, List.append_assoc, List.nil_append, itemDepth]
    rw [show maxNest 0 m (.name n :: .op ':' :: (toks e ++ .newline :: rest))
        = maxNest 0 m (toks e ++ (.newline :: rest)) by simp [maxNest], maxNest_expr e 0 m _ (Nat.zero_le _)]
    simp [maxNest]
  | assign n e =>
    simp only [itemToks, List.cons_append, List.append_assoc, List.nil_append, itemDepth]
    rw [show maxNest 0 m (.name n :: .op '=' :: (toks e ++ .newline :: rest))
        = maxNest 0 m (toks e ++ (.newline :: rest)) by simp [maxNest], maxNest_expr e 0 m _ (Nat.zero_le _)]
    simp [maxNest]

theorem maxNest_items : ∀ (items : List Item) (opened : Bool) (m : Nat) (rest : List Tok),
    maxNest 0 m (itemsToks opened items ++ rest) = maxNest 0 (max m (itemsDepth items)) rest
  | [], _, m, rest => by simp [itemsToks, itemsDepth]
  | it :: r, opened, m, rest => by
    simp only [itemsToks, itemsDepth]
    cases hb : nonBlank it
    · have hd : itemDepth it = 0 := by cases it <;> simp_all [nonBlank, itemDepth]
      simp only [Bool.false_eq_true, if_false]
      rw [maxNest_items r opened m rest, hd]
      simp
    · simp only [if_true, List.append_assoc]
      have e1 := maxNest_item it m (itemsToks true r ++ rest)
      have e2 := maxNest_items r true (max m (itemDepth it)) rest
      cases opened
      · simp only [Bool.false_eq_true, if_false, List.cons_append, List.nil_append]
        rw [show maxNest 0 m (.indent :: (itemToks it ++ (itemsToks true r ++ rest)))
            = maxNest 0 m (itemToks it ++ (itemsToks true r ++ rest)) by simp [maxNest], e1, e2]
        congr 1; omega
      · simp only [if_true, List.nil_append]
        rw [e1, e2]
        congr 1; omega

theorem maxNest_class (opened : Bool) (name : List Char) (items : List Item) (m : Nat) (rest : List Tok) :
    maxNest 0 m (classToks opened name items ++ rest) = maxNest 0 (max m (max 1 (itemsDepth items))) rest := by
  have hdr : ∀ ts, maxNest 0 m (headerToks name ++ ts) = maxNest 0 (max m 1) ts := by
    intro ts; simp [headerToks, maxNest]
  cases opened
  · simp only [classToks, dedentToks, Bool.false_eq_true, if_false, List.nil_append, List.append_assoc]
    rw [hdr, maxNest_items]
    congr 1; omega
  · simp only [classToks, dedentToks, if_true, List.cons_append, List.nil_append, List.append_assoc]
    rw [show maxNest 0 m (.dedent :: (headerToks name ++ (itemsToks false items ++ rest)))
        = maxNest 0 m (headerToks name ++ (itemsToks false items ++ rest)) by simp [maxNest], hdr, maxNest_items]
    congr 1; omega

theorem maxNest_classes (O : EOra) : ∀ (cs : List ClassSrc) (opened : Bool) (m : Nat) (rest : List Tok),
    maxNest 0 m (classesToks O opened cs ++ rest) = maxNest 0 (max m (modDepth O cs)) rest
  | [], _, m, rest => by simp [classesToks, modDepth]
  | c :: r, opened, m, rest => by
    simp only [classesToks, modDepth, List.append_assoc]
    rw [maxNest_class, maxNest_classes O r true]
    congr 1
    simp only [classDepth]; omega

theorem maxNest_module (O : EOra) (defs : List ClassSrc) (main : ClassSrc) :
    maxNest 0 0 (modToks O defs main) = modDepth O (defs ++ [main]) := by
  simp only [modToks]
  rw [show maxNest 0 0 (importToks ++ (classesToks O false (defs ++ [main]) ++ [.dedent]))
      = maxNest 0 0 (classesToks O false (defs ++ [main]) ++ [.dedent]) by simp [importToks, maxNest],
    maxNest_classes]
  simp [maxNest]

theorem nestOk_of_depth (X : Ora) (O : EOra) (write : Bool) (defs : List ClassSrc) (main : ClassSrc)
    (hd : ∀ c ∈ defs, classOk X O c = true) (hm : classOk X O main = true)
    (hdep : depthOk O defs main = true) :
    nestOk X (moduleText O write defs main) = true := by
  have hclean := moduleText_clean X O write defs main hd hm
  simp only [textClean, Bool.and_eq_true, Bool.not_eq_true'] at hclean
  have hcr : ∀ c ∈ moduleText O write defs main, c ≠ cCR := by
    intro c hc e
    subst e
    have := hclean.2
    simp at this
    exact this hc
  have htok : tokens X (moduleText O write defs main) = .ok (modToks O defs main) := by
    rw [tokens, nnl_id _ hcr, lex_module X O write defs main hd hm]
  simp only [nestOk, htok, maxNest_module, decide_eq_true_eq]
  simpa [depthOk] using hdep

/-! ### the nesting of the printed trees is bounded by the nesting of the schema -/

theorem edepth_intExpr (i : Int) : edepth (intExpr i) = 0 := by unfold intExpr; split <;> rfl
theorem edepth_natExpr (n : Nat) : edepth (natExpr n) = 0 := rfl
theorem edepth_floatExpr (t : List Char) : edepth (floatExpr t) = 0 := by unfold floatExpr; split <;> rfl
theorem edepth_qExpr (O : EOra) (q : Q) : edepth (qExpr O q) = 0 := by
  unfold qExpr; split
  · exact edepth_intExpr _
  · exact edepth_floatExpr _
theorem edepth_boolExpr (b : Bool) : edepth (boolExpr b) = 0 := by cases b <;> rfl

mutual
theorem edepth_valExpr (O : EOra) : ∀ v : PyVal, edepth (valExpr O v) = vdepth v
  | .none => rfl
  | .bool b => by simp [valExpr, edepth_boolExpr, vdepth]
  | .int i => by simp [valExpr, edepth_intExpr, vdepth]
  | .float q => by simp [valExpr, edepth_floatExpr, vdepth]
  | .str s => rfl
  | .list xs => by simp [valExpr, edepth, vdepth, edepth_valExprL O xs]
  | .dict kvs => by simp [valExpr, edepth, vdepth, edepth_valExprKV O kvs]
  | .dec _ => rfl
  | .tuple _ => rfl
  | .set _ _ => rfl
  | .deque _ => rfl
  | .enumv _ _ => rfl
  | .inst _ _ => rfl
  | .opaque _ => rfl
theorem edepth_valExprL (O : EOra) : ∀ xs : List PyVal, listDepth (valExprL O xs) = vdepthL xs
  | [] => rfl
  | x :: xs => by simp [valExprL, listDepth, vdepthL, edepth_valExpr O x, edepth_valExprL O xs]
theorem edepth_valExprKV (O : EOra) : ∀ kvs : List (PyVal × PyVal), kvsDepth (valExprKV O kvs) = vdepthKV kvs
  | [] => rfl
  | (k, v) :: r => by
    simp [valExprKV, kvsDepth, vdepthKV, edepth_valExpr O k, edepth_valExpr O v, edepth_valExprKV O r]
end

theorem edepth_defaultExpr (O : EOra) (v : PyVal) : edepth (defaultExpr O v) = vdepth v := by
  have := edepth_valExpr O v
  cases v <;> simp_all [defaultExpr, edepth]

theorem kwsDepth_append : ∀ (a b : List (List Char × PyExpr)), kwsDepth (a ++ b) = max (kwsDepth a) (kwsDepth b)
  | [], b => by simp [kwsDepth]
  | (k, v) :: a, b => by simp [kwsDepth, kwsDepth_append a b, Nat.max_assoc]

theorem kwsDepth_optKw0 {α} (k : List Char) (f : α → PyExpr) (o : Option α) (hf : ∀ x, edepth (f x) = 0) :
    kwsDepth (optKw k f o) = 0 := by
  cases o <;> simp [optKw, kwsDepth, hf]

theorem kwsDepth_withDefault (O : EOra) (d : Option PyVal) (kws : List (List Char × PyExpr)) :
    kwsDepth (withDefault O d kws) = max (kwsDepth kws) (ddepth d) := by
  cases d <;> simp [withDefault, optKw, kwsDepth_append, kwsDepth, ddepth, edepth_defaultExpr]

theorem edepth_call_default (O : EOra) (f : List Char) (d : Option PyVal) (kws : List (List Char × PyExpr)) :
    edepth (callS f (withDefault O d kws)) = 1 + max (kwsDepth kws) (ddepth d) := by
  simp [callS, edepth, kwsDepth_withDefault]

theorem arrKws_depth (sz : SizeOpts) (addl : Bool) : kwsDepth (arrKws sz addl) = 0 := by
  simp only [arrKws, kwsDepth_append, kwsDepth_optKw0 _ _ _ edepth_natExpr]
  cases sz.uniq <;> cases addl <;> simp [kw, kwsDepth, edepth]

theorem strList_depth (xs : List String) : edepth (strList xs) ≤ 1 := by
  simp only [strList, edepth]
  have : listDepth (xs.map fun s => PyExpr.strLit s.toList) = 0 := by
    induction xs with
    | nil => rfl
    | cons x xs ih => simp [listDepth, edepth, ih]
  omega

mutual
theorem edepth_schemaExpr (O : EOra) : ∀ (s : Schema) (d : Option PyVal), edepth (schemaExpr O s d) ≤ sdepth s d
  | .ref n, d => by simp [schemaExpr, edepth, sdepth]
  | .num i mult mn mx ex, d => by
    simp only [schemaExpr, edepth_call_default, sdepth, kwsDepth_append,
      kwsDepth_optKw0 _ _ _ edepth_intExpr, kwsDepth_optKw0 _ _ _ (edepth_qExpr O)]
    cases ex <;> simp [kw, kwsDepth, edepth]
  | .str lo hi p, d => by
    simp only [schemaExpr, edepth_call_default, sdepth, kwsDepth_append,
      kwsDepth_optKw0 _ _ _ edepth_natExpr]
    rw [kwsDepth_optKw0 _ _ _ (fun _ => rfl)]
    simp
  | .bool, d => by simp [schemaExpr, edepth_call_default, sdepth, kwsDepth]
  | .enum vs, d => by
    simp [schemaExpr, edepth_call_default, sdepth, kw, kwsDepth, edepth, edepth_valExprL O vs]
  | .arrAny sz, d => by simp [schemaExpr, edepth_call_default, sdepth, arrKws_depth]
  | .arrOf s sz, d => by
    have ih := edepth_schemaExpr O s none
    simp only [schemaExpr, edepth_call_default, sdepth, kwsDepth_append, arrKws_depth, kw, kwsDepth]
    omega
  | .arrPos ss addl sz, d => by
    have ih := edepth_schemaExprL O ss
    simp only [schemaExpr, edepth_call_default, sdepth, kwsDepth_append, arrKws_depth, kw, kwsDepth, edepth]
    omega
  | .mapAny a mn mx, d => by
    simp only [schemaExpr, edepth_call_default, sdepth, kwsDepth_append, kwsDepth_optKw0 _ _ _ edepth_natExpr]
    simp
  | .mapOf v mn mx, d => by
    have ih := edepth_schemaExpr O v none
    simp only [schemaExpr, edepth_call_default, sdepth, kwsDepth_append, kwsDepth_optKw0 _ _ _ edepth_natExpr,
      kw, kwsDepth]
    have hS : edepth (callS chars!"String" []) = 1 := rfl
    simp only [edepth, listDepth, hS]
    omega
  | .obj props defaults req addl, d => by
    have ih := edepth_schemaKws O defaults props
    have hr : kwsDepth (optKw chars!"_required" strList req) ≤ 1 := by
      cases req with
      | none => simp [optKw, kwsDepth]
      | some r => have := strList_depth r; simp [optKw, kwsDepth]; omega
    have ha : kwsDepth (if addl then [] else kw chars!"_additional_properties" (.const cFalse)) = 0 := by
      cases addl <;> simp [kw, kwsDepth, edepth]
    simp only [schemaExpr, edepth_call_default, sdepth, kwsDepth_append, ha]
    omega
  | .allOf ss, d => by
    have ih := edepth_schemaExprL O ss
    simp only [schemaExpr, edepth_call_default, sdepth, kw, kwsDepth, edepth]
    omega
  | .anyOf ss, d => by
    have ih := edepth_schemaExprL O ss
    simp only [schemaExpr, edepth_call_default, sdepth, kw, kwsDepth, edepth]
    omega
  | .oneOf ss, d => by
    have ih := edepth_schemaExprL O ss
    simp only [schemaExpr, edepth_call_default, sdepth, kw, kwsDepth, edepth]
    omega
  | .notS ss, d => by
    have ih := edepth_schemaExprL O ss
    simp only [schemaExpr, edepth_call_default, sdepth, kw, kwsDepth, edepth]
    omega
  | .unsupported _, d => by simp [schemaExpr, edepth, sdepth]
theorem edepth_schemaExprL (O : EOra) : ∀ (ss : List Schema), listDepth (schemaExprL O ss) ≤ sdepthL ss
  | [] => by simp [schemaExprL, listDepth, sdepthL]
  | s :: ss => by
    have h1 := edepth_schemaExpr O s none
    have h2 := edepth_schemaExprL O ss
    simp only [schemaExprL, listDepth, sdepthL]
    omega
theorem edepth_schemaKws (O : EOra) (defaults : List (String × PyVal)) :
    ∀ (ps : List (String × Schema)), kwsDepth (schemaKws O defaults ps) ≤ sdepthP defaults ps
  | [] => by simp [schemaKws, kwsDepth, sdepthP]
  | (n, s) :: ps => by
    have h1 := edepth_schemaExpr O s (lookup n defaults)
    have h2 := edepth_schemaKws O defaults ps
    simp only [schemaKws, kwsDepth, sdepthP]
    omega
end


theorem itemsDepth_append : ∀ (a b : List Item), itemsDepth (a ++ b) = max (itemsDepth a) (itemsDepth b)
  | [], b => by simp [itemsDepth]
  | x :: a, b => by simp [itemsDepth, itemsDepth_append a b, Nat.max_assoc]

theorem propItems_depth (O : EOra) (defaults : List (String × PyVal)) :
    ∀ ps : List (String × Schema), itemsDepth (propItems O defaults ps) ≤ sdepthP defaults ps
  | [] => by simp [propItems, itemsDepth, sdepthP]
  | (n, s) :: ps => by
    have h1 := edepth_schemaExpr O s (lookup n defaults)
    have h2 := propItems_depth O defaults ps
    simp only [propItems, itemsDepth, itemDepth, sdepthP]
    omega

theorem reqItems_depth (r : Option (List String)) : itemsDepth (reqItems r) ≤ 1 := by
  cases r with
  | none => simp [reqItems, itemsDepth]
  | some r => have := strList_depth r; simp [reqItems, itemsDepth, itemDepth]; omega

theorem docItems_depth (d : Option String) : itemsDepth (docItems d) = 0 := by
  cases d <;> simp [docItems, itemsDepth, itemDepth]

theorem finish_depth (all : List Item) : itemsDepth (if all.isEmpty then [Item.pass] else all) = itemsDepth all := by
  cases all <;> simp [itemsDepth, itemDepth]

theorem classDepth_le (O : EOra) (c : ClassSrc) : classDepth O c ≤ classNest c := by
  obtain ⟨name, desc, s⟩ := c
  have wrapped : ∀ s : Schema, itemsDepth (Item.assign nWrapped (schemaExpr O s none)
      :: (if typedWrapped s then reqItems (some ["wrapped"]) else [])) ≤ max 1 (sdepth s none) := by
    intro s
    have h1 := edepth_schemaExpr O s none
    have h2 := reqItems_depth (some ["wrapped"])
    cases typedWrapped s <;> simp only [itemsDepth, itemDepth, if_true, if_false, Bool.false_eq_true] <;> omega
  simp only [classDepth, classNest, classItems, finish_depth, itemsDepth_append, docItems_depth]
  cases s with
  | obj props defaults req addl =>
    have h1 := propItems_depth O defaults props
    have h2 := reqItems_depth (emittedRequired (.obj props defaults req addl))
    have h3 : itemsDepth (if addl then [] else [Item.assign nAddl (.const cFalse)]) = 0 := by
      cases addl <;> simp [itemsDepth, itemDepth, edepth]
    simp only [itemsDepth_append, h3]
    omega
  | mapAny a mn mx =>
    simp only []
    split <;> simp [itemsDepth, itemDepth, edepth]
  | mapOf v mn mx => simp [itemsDepth]
  | num i m a b e => have := wrapped (.num i m a b e); simp only [] at this ⊢; omega
  | str a b p => have := wrapped (.str a b p); simp only [] at this ⊢; omega
  | bool => have := wrapped .bool; simp only [] at this ⊢; omega
  | enum vs => have := wrapped (.enum vs); simp only [] at this ⊢; omega
  | arrAny sz => have := wrapped (.arrAny sz); simp only [] at this ⊢; omega
  | arrOf s sz => have := wrapped (.arrOf s sz); simp only [] at this ⊢; omega
  | arrPos ss a sz => have := wrapped (.arrPos ss a sz); simp only [] at this ⊢; omega
  | ref n => have := wrapped (.ref n); simp only [] at this ⊢; omega
  | allOf ss => have := wrapped (.allOf ss); simp only [] at this ⊢; omega
  | anyOf ss => have := wrapped (.anyOf ss); simp only [] at this ⊢; omega
  | oneOf ss => have := wrapped (.oneOf ss); simp only [] at this ⊢; omega
  | notS ss => have := wrapped (.notS ss); simp only [] at this ⊢; omega
  | unsupported w => have := wrapped (.unsupported w); simp only [] at this ⊢; omega

theorem depthOk_of_schema (O : EOra) (defs : List ClassSrc) (main : ClassSrc)
    (h : schemaDepthOk defs main = true) : depthOk O defs main = true := by
  simp only [schemaDepthOk, List.all_eq_true, decide_eq_true_eq] at h
  simp only [depthOk, decide_eq_true_eq]
  have key : ∀ cs : List ClassSrc, (∀ c ∈ cs, classNest c ≤ maxLevel) → modDepth O cs ≤ maxLevel := by
    intro cs
    induction cs with
    | nil => intro _; simp [modDepth]
    | cons c r ih =>
      intro hc
      have h1 := classDepth_le O c
      have h2 := hc c (by simp)
      have h3 := ih (fun x hx => hc x (by simp [hx]))
      simp only [modDepth]
      omega
  exact key _ h

end Typedpy.Emit
