/-
  Lemmas/Nesting.lean — the bracket nesting of the emitted module (`PyGram.maxNest` over its tokens) is
  the nesting of its expression trees (`Emit.modDepth`): CPython's 200-level limit becomes a
  condition on the trees (`depthOk`), no lexing needed.
-/
import TypedpyModel.Lemmas.TextClean
namespace Typedpy.Emit
open Typedpy.PyGram Typedpy.PyLex

/-! ### bracket nesting of the emitted module -/

theorem maxNest_open (d m : Nat) (c : Char) (h : c = '(' ∨ c = '[' ∨ c = '{') (ts : List Tok) :
    maxNest d m (.op c :: ts) = maxNest (d + 1) (max m (d + 1)) ts := by
  rcases h with rfl | rfl | rfl <;> simp [maxNest]
theorem maxNest_close (d m : Nat) (c : Char) (h : c = ')' ∨ c = ']' ∨ c = '}') (ts : List Tok) :
    maxNest (d + 1) m (.op c :: ts) = maxNest d m ts := by
  rcases h with rfl | rfl | rfl <;> simp [maxNest]
theorem maxNest_sep (d m : Nat) (c : Char) (h : c = ',' ∨ c = ':' ∨ c = '=' ∨ c = '-' ∨ c = '*') (ts : List Tok) :
    maxNest d m (.op c :: ts) = maxNest d m ts := by
  rcases h with rfl | rfl | rfl | rfl | rfl <;> simp [maxNest]

mutual
theorem maxNest_expr : ∀ (e : PyExpr) (d m : Nat) (rest : List Tok), d ≤ m →
    maxNest d m (toks e ++ rest) = maxNest d (max m (d + edepth e)) rest
  | .name n, d, m, rest, h => by simp [toks, maxNest, edepth, Nat.max_eq_left h]
  | .const w, d, m, rest, h => by simp [toks, maxNest, edepth, Nat.max_eq_left h]
  | .num t, d, m, rest, h => by simp [toks, maxNest, edepth, Nat.max_eq_left h]
  | .negNum t, d, m, rest, h => by simp [toks, maxNest, edepth, Nat.max_eq_left h]
  | .strLit cs, d, m, rest, h => by simp [toks, maxNest, edepth, Nat.max_eq_left h]
  | .bad, d, m, rest, h => by simp [toks, edepth, Nat.max_eq_left h]
  | .lam b, d, m, rest, h => by
    simp only [toks, List.cons_append, edepth]
    rw [show maxNest d m (.kw kwLambda :: .op ':' :: (toks b ++ rest)) = maxNest d m (toks b ++ rest) by
      simp [maxNest], maxNest_expr b d m rest h]
  | .call f kws, d, m, rest, h => by
    simp only [toks, List.cons_append, List.append_assoc, List.nil_append, edepth]
    rw [show maxNest d m (.name f :: .op '(' :: (toksKws true kws ++ .op ')' :: rest))
        = maxNest (d + 1) (max m (d + 1)) (toksKws true kws ++ (.op ')' :: rest)) by simp [maxNest],
      maxNest_kws kws true (d + 1) (max m (d + 1)) _ (by omega), maxNest_close _ _ ')' (Or.inl rfl)]
    congr 1; omega
  | .list xs, d, m, rest, h => by
    simp only [toks, List.cons_append, List.append_assoc, List.nil_append, edepth]
    rw [maxNest_open d m '[' (Or.inr (Or.inl rfl)),
      maxNest_list xs true (d + 1) (max m (d + 1)) _ (by omega), maxNest_close _ _ ']' (Or.inr (Or.inl rfl))]
    congr 1; omega
  | .dict kvs, d, m, rest, h => by
    simp only [toks, List.cons_append, List.append_assoc, List.nil_append, edepth]
    rw [maxNest_open d m '{' (Or.inr (Or.inr rfl)),
      maxNest_kvs kvs true (d + 1) (max m (d + 1)) _ (by omega), maxNest_close _ _ '}' (Or.inr (Or.inr rfl))]
    congr 1; omega
theorem maxNest_list : ∀ (xs : List PyExpr) (first : Bool) (d m : Nat) (rest : List Tok), d ≤ m →
    maxNest d m (toksL first xs ++ rest) = maxNest d (max m (d + listDepth xs)) rest
  | [], first, d, m, rest, h => by simp [toksL, listDepth, Nat.max_eq_left h]
  | x :: xs, first, d, m, rest, h => by
    have e1 := maxNest_expr x d m (toksL false xs ++ rest) h
    have e2 := maxNest_list xs false d (max m (d + edepth x)) rest (by omega)
    cases first
    · simp only [toksL, Bool.false_eq_true, if_false, List.cons_append, List.nil_append, List.append_assoc,
        listDepth]
      rw [maxNest_sep d m ',' (Or.inl rfl), e1, e2]
      congr 1; omega
    · simp only [toksL, if_true, List.nil_append, List.append_assoc, listDepth]
      rw [e1, e2]
      congr 1; omega
theorem maxNest_kws : ∀ (kws : List (List Char × PyExpr)) (first : Bool) (d m : Nat) (rest : List Tok), d ≤ m →
    maxNest d m (toksKws first kws ++ rest) = maxNest d (max m (d + kwsDepth kws)) rest
  | [], first, d, m, rest, h => by simp [toksKws, kwsDepth, Nat.max_eq_left h]
  | (k, v) :: r, first, d, m, rest, h => by
    have e1 := maxNest_expr v d m (toksKws false r ++ rest) h
    have e2 := maxNest_kws r false d (max m (d + edepth v)) rest (by omega)
    have key : maxNest d m (.name k :: .op '=' :: (toks v ++ (toksKws false r ++ rest)))
        = maxNest d (max m (d + max (edepth v) (kwsDepth r))) rest := by
      rw [show maxNest d m (.name k :: .op '=' :: (toks v ++ (toksKws false r ++ rest)))
          = maxNest d m (toks v ++ (toksKws false r ++ rest)) by simp [maxNest], e1, e2]
      congr 1; omega
    cases first
    · simp only [toksKws, Bool.false_eq_true, if_false, List.cons_append, List.nil_append, List.append_assoc,
        kwsDepth]
      rw [maxNest_sep d m ',' (Or.inl rfl), key]
    · simp only [toksKws, if_true, List.nil_append, List.append_assoc, List.cons_append, kwsDepth]
      rw [key]
theorem maxNest_kvs : ∀ (kvs : List (PyExpr × PyExpr)) (first : Bool) (d m : Nat) (rest : List Tok), d ≤ m →
    maxNest d m (toksKVs first kvs ++ rest) = maxNest d (max m (d + kvsDepth kvs)) rest
  | [], first, d, m, rest, h => by simp [toksKVs, kvsDepth, Nat.max_eq_left h]
  | (k, v) :: r, first, d, m, rest, h => by
    have e0 := maxNest_expr k d m (.op ':' :: (toks v ++ (toksKVs false r ++ rest))) h
    have e1 := maxNest_expr v d (max m (d + edepth k)) (toksKVs false r ++ rest) (by omega)
    have e2 := maxNest_kvs r false d (max (max m (d + edepth k)) (d + edepth v)) rest (by omega)
    have key : maxNest d m (toks k ++ .op ':' :: (toks v ++ (toksKVs false r ++ rest)))
        = maxNest d (max m (d + max (edepth k) (max (edepth v) (kvsDepth r)))) rest := by
      rw [e0, maxNest_sep _ _ ':' (Or.inr (Or.inl rfl)), e1, e2]
      congr 1; omega
    cases first
    · simp only [toksKVs, Bool.false_eq_true, if_false, List.cons_append, List.nil_append, List.append_assoc,
        kvsDepth]
      rw [maxNest_sep d m ',' (Or.inl rfl), key]
    · simp only [toksKVs, if_true, List.nil_append, List.append_assoc, List.cons_append, kvsDepth]
      rw [key]
end


theorem maxNest_item (it : Item) (m : Nat) (rest : List Tok) :
    maxNest 0 m (itemToks it ++ rest) = maxNest 0 (max m (itemDepth it)) rest := by
  cases it with
  | doc d => simp [itemToks, maxNest, itemDepth]
  | blank => simp [itemToks, itemDepth]
  | pass => simp [itemToks, maxNest, itemDepth]
  | ann n e =>
    simp only [itemToks, List.cons_append, List.append_assoc, List.nil_append, itemDepth]
    rw [show maxNest 0 m (.name n :: .op ':' :: (toks e ++ .newline :: rest))
        = maxNest 0 m (toks e ++ (.newline :: rest)) by simp [maxNest], maxNest_expr e 0 m _ (Nat.zero_le _)]
    simp [maxNest]
  | assign n e =>
    simp only [itemToks, List.cons_append, List.append_assoc, List.nil_append, itemDepth]
    rw [show maxNest 0 m (.name n :: .op '=' :: (toks e ++ .newline :: rest))
        = maxNest 0 m (toks e ++ (.newline :: rest)) by simp [maxNest], maxNest_expr e 0 m _ (Nat.zero_le _)]
    simp [maxNest]

theorem maxNest_items : ∀ (items : List Item) (opened : Bool) (m : Nat) (rest : List Tok),
    maxNest 0 m (itemsToks opened items ++ rest) = maxNest 0 (max m (itemsDepth items)) rest
  | [], _, m, rest => by simp [itemsToks, itemsDepth]
  | it :: r, opened, m, rest => by
    simp only [itemsToks, itemsDepth]
    cases hb : nonBlank it
    · have hd : itemDepth it = 0 := by cases it <;> simp_all [nonBlank, itemDepth]
      simp only [Bool.false_eq_true, if_false]
      rw [maxNest_items r opened m rest, hd]
      simp
    · simp only [if_true, List.append_assoc]
      have e1 := maxNest_item it m (itemsToks true r ++ rest)
      have e2 := maxNest_items r true (max m (itemDepth it)) rest
      cases opened
      · simp only [Bool.false_eq_true, if_false, List.cons_append, List.nil_append]
        rw [show maxNest 0 m (.indent :: (itemToks it ++ (itemsToks true r ++ rest)))
            = maxNest 0 m (itemToks it ++ (itemsToks true r ++ rest)) by simp [maxNest], e1, e2]
        congr 1; omega
      · simp only [if_true, List.nil_append]
        rw [e1, e2]
        congr 1; omega

theorem maxNest_class (opened : Bool) (name : List Char) (items : List Item) (m : Nat) (rest : List Tok) :
    maxNest 0 m (classToks opened name items ++ rest) = maxNest 0 (max m (max 1 (itemsDepth items))) rest := by
  have hdr : ∀ ts, maxNest 0 m (headerToks name ++ ts) = maxNest 0 (max m 1) ts := by
    intro ts; simp [headerToks, maxNest]
  cases opened
  · simp only [classToks, dedentToks, Bool.false_eq_true, if_false, List.nil_append, List.append_assoc]
    rw [hdr, maxNest_items]
    congr 1; omega
  · simp only [classToks, dedentToks, if_true, List.cons_append, List.nil_append, List.append_assoc]
    rw [show maxNest 0 m (.dedent :: (headerToks name ++ (itemsToks false items ++ rest)))
        = maxNest 0 m (headerToks name ++ (itemsToks false items ++ rest)) by simp [maxNest], hdr, maxNest_items]
    congr 1; omega

theorem maxNest_classes (O : EOra) : ∀ (cs : List ClassSrc) (opened : Bool) (m : Nat) (rest : List Tok),
    maxNest 0 m (classesToks O opened cs ++ rest) = maxNest 0 (max m (modDepth O cs)) rest
  | [], _, m, rest => by simp [classesToks, modDepth]
  | c :: r, opened, m, rest => by
    simp only [classesToks, modDepth, List.append_assoc]
    rw [maxNest_class, maxNest_classes O r true]
    congr 1
    simp only [classDepth]; omega

theorem maxNest_module (O : EOra) (defs : List ClassSrc) (main : ClassSrc) :
    maxNest 0 0 (modToks O defs main) = modDepth O (defs ++ [main]) := by
  simp only [modToks]
  rw [show maxNest 0 0 (importToks ++ (classesToks O false (defs ++ [main]) ++ [.dedent]))
      = maxNest 0 0 (classesToks O false (defs ++ [main]) ++ [.dedent]) by simp [importToks, maxNest],
    maxNest_classes]
  simp [maxNest]

theorem nestOk_of_depth (X : Ora) (O : EOra) (write : Bool) (defs : List ClassSrc) (main : ClassSrc)
    (hd : ∀ c ∈ defs, classOk X O c = true) (hm : classOk X O main = true)
    (hdep : depthOk O defs main = true) :
    nestOk X (moduleText O write defs main) = true := by
  have hclean := moduleText_clean X O write defs main hd hm
  simp only [textClean, Bool.and_eq_true, Bool.not_eq_true'] at hclean
  have hcr : ∀ c ∈ moduleText O write defs main, c ≠ cCR := by
    intro c hc e
    subst e
    have := hclean.2
    simp at this
    exact this hc
  have htok : tokens X (moduleText O write defs main) = .ok (modToks O defs main) := by
    rw [tokens, nnl_id _ hcr, lex_module X O write defs main hd hm]
  simp only [nestOk, htok, maxNest_module, decide_eq_true_eq]
  simpa [depthOk] using hdep

end Typedpy.Emit
