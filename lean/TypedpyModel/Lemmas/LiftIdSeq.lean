import TypedpyModel.Lemmas.LiftStruct
namespace Typedpy
open PyVal (pyEq pyMem pyNodup)

theorem idScalar_deser (O : Oracles) (opts : DeserOpts) (f : FieldDecl) (x y : PyVal)
    (hid : idScalar f = true) (h : deser O opts false f x = .ok y) : y = x := by
  cases f <;> simp [idScalar] at hid
  all_goals
    simp only [deser, Bool.and_false, Bool.false_eq_true, if_false] at h
    unfold dValidated at h
    split at h <;> simp at h
    exact h.symm

theorem idScalar_lift (O : Oracles) (opts : DeserOpts) (f : FieldDecl) (x : PyVal)
    (hid : idScalar f = true) : lift O opts f x = some x := by
  cases f <;> simp [idScalar] at hid <;> simp [lift]

theorem idScalar_exact (f : FieldDecl) (hid : idScalar f = true) : exactDecl f = true := by
  cases f <;> simp [idScalar] at hid <;> simp [exactDecl]

theorem mapE_deser_id (O : Oracles) (opts : DeserOpts) (f : FieldDecl) (hid : idScalar f = true) :
    ∀ (xs ys : List PyVal), mapE (deser O opts false f) xs = .ok ys → ys = xs
  | [], ys, h => by simp [mapE] at h; exact h
  | x :: xs, ys, h => by
    simp only [mapE] at h
    rcases bindE_eq_ok h with ⟨y, hy, h2⟩
    rcases bindE_eq_ok h2 with ⟨ys', hys, h3⟩
    cases h3
    rw [idScalar_deser O opts f x y hid hy, mapE_deser_id O opts f hid xs ys' hys]

theorem mapO_lift_id (O : Oracles) (opts : DeserOpts) (f : FieldDecl) (hid : idScalar f = true) :
    ∀ (xs : List PyVal), mapO (lift O opts f) xs = some xs
  | [] => rfl
  | x :: xs => by simp [mapO, idScalar_lift O opts f x hid, mapO_lift_id O opts f hid xs]

/-- if every element validates, every element passes the deserializer's pre-check -/
theorem mapE_deser_of_validate (O : Oracles) (opts : DeserOpts) (f : FieldDecl) (hid : idScalar f = true) :
    ∀ (xs zs : List PyVal), (∀ x ∈ xs, OkEq (deserThen O opts f x) (liftThen O opts f x)) →
      mapE (validate O f) xs = .ok zs → mapE (deser O opts false f) xs = .ok xs
  | [], _, _, _ => rfl
  | x :: xs, zs, hel, h => by
    simp only [mapE] at h
    rcases bindE_eq_ok h with ⟨z, hz, h2⟩
    rcases bindE_eq_ok h2 with ⟨zs', hzs, _⟩
    have hl : liftThen O opts f x = .ok z := by simp [liftThen, idScalar_lift O opts f x hid, hz]
    have hd := ((hel x (by simp)) z).mpr hl
    unfold deserThen at hd
    rcases bindE_eq_ok hd with ⟨y, hy, _⟩
    have := idScalar_deser O opts f x y hid hy
    subst this
    simp [mapE, hy, mapE_deser_of_validate O opts f hid xs zs' (fun a ha => hel a (by simp [ha])) hzs]

theorem vSeq_ok_items (k : SeqKind) (sz : SizeOpts) (pre : List PyVal → Bool) (g : List PyVal → R (List PyVal))
    (xs : List PyVal) (r : PyVal) (h : vSeq k sz pre g (mkSeq k xs) = .ok r) : ∃ zs, g xs = .ok zs := by
  unfold vSeq at h
  rw [seqElems_mkSeq] at h
  simp only at h
  split at h
  · cases h
  · split at h
    · cases h
    · split at h
      · cases h
      · rcases bindE_eq_ok h with ⟨zs, hz, _⟩
        exact ⟨zs, hz⟩

/-- sequences of identity scalars, uniqueItems allowed: deserialization hands the list on
    unchanged, so both sides validate the very same value -/
theorem seq_id_okEq (O : Oracles) (opts : DeserOpts) (k : SeqKind) (sz : SizeOpts) (f : FieldDecl)
    (hid : idScalar f = true) (xs : List PyVal)
    (hel : ∀ x ∈ xs, OkEq (deserThen O opts f x) (liftThen O opts f x)) :
    OkEq (deserThen O opts (.seqOf k f sz) (.list xs)) (liftThen O opts (.seqOf k f sz) (.list xs)) := by
  have hL : liftThen O opts (.seqOf k f sz) (.list xs)
      = vSeq k sz (fun _ => true) (mapE (validate O f)) (mkSeq k xs) := by
    simp [liftThen, lift, listDoc, mapO_lift_id O opts f hid xs, validate]
  rw [hL]
  cases hd : mapE (deser O opts false f) xs with
  | ok ys =>
    have := mapE_deser_id O opts f hid xs ys hd
    subst this
    apply OkEq.of_eq
    simp [deserThen, deser, PyVal.isNone, dSeq, docSeq, hd, toValueErr, validate]
  | error e =>
    apply OkEq.errors
    · intro z hz
      simp [deserThen, deser, PyVal.isNone, dSeq, docSeq, hd, toValueErr, bindE] at hz
      cases e <;> simp at hz
    · intro z hz
      rcases vSeq_ok_items k sz _ _ xs z hz with ⟨zs, hzs⟩
      have := mapE_deser_of_validate O opts f hid xs zs hel hzs
      rw [this] at hd; cases hd

theorem vTuple_ok_items (uniq : Bool) (pre : List PyVal → Bool) (g : List PyVal → R (List PyVal))
    (xs : List PyVal) (r : PyVal) (h : vTuple uniq pre g (.tuple xs) = .ok r) : ∃ zs, g xs = .ok zs := by
  unfold vTuple at h
  simp only at h
  split at h
  · cases h
  · split at h
    · cases h
    · rcases bindE_eq_ok h with ⟨zs, hz, _⟩
      exact ⟨zs, hz⟩

theorem tuple_id_okEq (O : Oracles) (opts : DeserOpts) (u : Bool) (f : FieldDecl)
    (hid : idScalar f = true) (xs : List PyVal)
    (hel : ∀ x ∈ xs, OkEq (deserThen O opts f x) (liftThen O opts f x)) :
    OkEq (deserThen O opts (.tupleOf f u) (.list xs)) (liftThen O opts (.tupleOf f u) (.list xs)) := by
  have hL : liftThen O opts (.tupleOf f u) (.list xs)
      = vTuple u (fun _ => true) (mapE (validate O f)) (.tuple xs) := by
    simp [liftThen, lift, listDoc, mapO_lift_id O opts f hid xs, validate]
  rw [hL]
  cases hd : mapE (deser O opts false f) xs with
  | ok ys =>
    have := mapE_deser_id O opts f hid xs ys hd
    subst this
    apply OkEq.of_eq
    simp [deserThen, deser, PyVal.isNone, dSeq, docSeq, hd, toValueErr, validate]
  | error e =>
    apply OkEq.errors
    · intro z hz
      simp [deserThen, deser, PyVal.isNone, dSeq, docSeq, hd, toValueErr, bindE] at hz
      cases e <;> simp at hz
    · intro z hz
      rcases vTuple_ok_items u _ _ xs z hz with ⟨zs, hzs⟩
      have := mapE_deser_of_validate O opts f hid xs zs hel hzs
      rw [this] at hd; cases hd

end Typedpy
