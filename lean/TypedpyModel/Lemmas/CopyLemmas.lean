/-
  Lemmas/CopyLemmas.lean — a value rebuilt by copy.deepcopy / a pickle round trip (`rebuildV`) is
  `==` the original whenever rebuilt sets keep their elements (`MemPreserving`); it is identical
  when they also keep their iteration order (`rebuildV_id`).
-/
import TypedpyModel.Lemmas.EqLemmas
set_option linter.unusedVariables false
set_option linter.unusedSimpArgs false
namespace Typedpy
open PyVal (pyEq pyEqList subsetBy anyEqL dictSub)

theorem rebuildVs_eq_map (S : SetOrder) : ∀ xs : List PyVal,
    rebuildVs S xs = xs.map (rebuildV S)
  | [] => by simp [rebuildVs]
  | x :: xs => by simp [rebuildVs, rebuildVs_eq_map S xs]

theorem rebuildKvs_eq_map (S : SetOrder) : ∀ kvs : List (PyVal × PyVal),
    rebuildKvs S kvs = kvs.map (fun p => (rebuildV S p.1, rebuildV S p.2))
  | [] => by simp [rebuildKvs]
  | (k, v) :: rest => by simp [rebuildKvs, rebuildKvs_eq_map S rest]

theorem rebuildAttrs_eq_map (S : SetOrder) : ∀ kvs : List (String × PyVal),
    rebuildAttrs S kvs = kvs.map (fun p => (p.1, rebuildV S p.2))
  | [] => by simp [rebuildAttrs]
  | (k, v) :: rest => by simp [rebuildAttrs, rebuildAttrs_eq_map S rest]

/-- the rebuilt set has the elements it was built from (what is assumed of `SetOrder`) -/
def MemPreserving (S : SetOrder) : Prop := ∀ xs y, y ∈ S xs ↔ y ∈ xs

/-- a rebuilt value is `==` the original, for every iteration order of the rebuilt sets -/
theorem pyEq_rebuildV (S : SetOrder) (hS : MemPreserving S) :
    ∀ v : PyVal, pyEq v (rebuildV S v) = true := by
  intro v
  refine PyVal.induct (fun v => pyEq v (rebuildV S v) = true) ?_ ?_ ?_ ?_ ?_ ?_ ?_ v
  · intro v ha
    cases v <;> simp [PyVal.isAtom] at ha <;> simp only [rebuildV] <;> exact pyEq_refl _
  · intro a ih
    simp only [rebuildV, pyEq, rebuildVs_eq_map]
    exact pyEqList_map _ a ih
  · intro a ih
    simp only [rebuildV, pyEq, rebuildVs_eq_map]
    exact pyEqList_map _ a ih
  · intro a ih
    simp only [rebuildV, pyEq, rebuildVs_eq_map]
    exact pyEqList_map _ a ih
  · intro f a ih
    simp only [rebuildV, pyEq, rebuildVs_eq_map, Bool.and_eq_true, List.all_eq_true, subsetBy_iff,
      anyEqL_iff]
    refine ⟨fun x hx => ⟨rebuildV S x, (hS _ _).2 (List.mem_map.2 ⟨x, hx, rfl⟩), ih x hx⟩,
      fun y hy => ?_⟩
    obtain ⟨x, hx, rfl⟩ := List.mem_map.1 ((hS _ _).1 hy)
    exact ⟨x, hx, ih x hx⟩
  · intro a ih
    simp only [rebuildV, pyEq, rebuildKvs_eq_map, List.length_map, beq_self_eq_true, Bool.true_and,
      dictSub_iff]
    intro p hp
    exact ⟨_, List.mem_map.2 ⟨p, hp, rfl⟩, (ih p hp).1, (ih p hp).2⟩
  · intro c a ih
    simp only [rebuildV, rebuildAttrs_eq_map]
    refine (pyEq_inst_iff _ _ _ _).2 ⟨rfl, fun p hp => Or.inr ⟨_, List.mem_map.2 ⟨p, hp, rfl⟩, rfl, ih p hp⟩,
      fun q hq => ?_⟩
    obtain ⟨p, hp, rfl⟩ := List.mem_map.1 hq
    exact Or.inr ⟨p, hp, rfl, ih p hp⟩

theorem lookup_map_val {α β} (f : α → β) (k : String) : ∀ l : List (String × α),
    lookup k (l.map (fun p => (p.1, f p.2))) = (lookup k l).map f
  | [] => by simp [lookup]
  | (k', v) :: rest => by
    simp only [List.map, lookup]
    split
    · rfl
    · exact lookup_map_val f k rest

/-- a value whose sets are rebuilt in the same iteration order comes back identical -/
theorem rebuildV_id : ∀ v : PyVal, rebuildV id v = v := by
  intro v
  have hl : ∀ a : List PyVal, (∀ x ∈ a, rebuildV id x = x) → rebuildVs id a = a := by
    intro a h; rw [rebuildVs_eq_map]
    induction a with
    | nil => rfl
    | cons x t ih => simp only [List.map, h x (by simp), ih (fun y hy => h y (by simp [hy]))]
  refine PyVal.induct (fun v => rebuildV id v = v) ?_ ?_ ?_ ?_ ?_ ?_ ?_ v
  · intro v ha; cases v <;> simp [PyVal.isAtom] at ha <;> rfl
  · intro a ih; simp only [rebuildV, hl a ih]
  · intro a ih; simp only [rebuildV, hl a ih]
  · intro a ih; simp only [rebuildV, hl a ih]
  · intro f a ih; simp only [rebuildV, hl a ih, id]
  · intro a ih
    simp only [rebuildV, rebuildKvs_eq_map]
    congr 1
    induction a with
    | nil => rfl
    | cons p t iht =>
      simp only [List.map, (ih p (by simp)).1, (ih p (by simp)).2,
        iht (fun q hq => ih q (by simp [hq]))]
  · intro c a ih
    simp only [rebuildV, rebuildAttrs_eq_map]
    congr 1
    induction a with
    | nil => rfl
    | cons p t iht =>
      simp only [List.map, ih p (by simp), iht (fun q hq => ih q (by simp [hq]))]

theorem rebuildAttrs_id (a : List (String × PyVal)) : rebuildAttrs id a = a := by
  rw [rebuildAttrs_eq_map]
  induction a with
  | nil => rfl
  | cons p t iht => simp only [List.map, rebuildV_id p.2, iht]

end Typedpy
