/-
  Lemmas/CopyLemmas.lean — a value rebuilt by copy.deepcopy / a pickle round trip (`rebuildV`) is
  `==` the original whenever rebuilt sets keep their elements (`MemPreserving`); it is identical
  when they also keep their iteration order (`rebuildV_id`).
-/
import TypedpyModel.Lemmas.EqLemmas
set_option linter.unusedVariables false
set_option linter.unusedSimpArgs false
namespace Typedpy
open PyVal (pyEq pyEqList subsetBy anyEqL dictSub)

theorem rebuildVs_eq_map (S : SetOrder) : ∀ xs : List PyVal,
    rebuildVs S xs = xs.map (rebuildV S)
  | [] => by simp [rebuildVs]
  | x :: xs => by simp [rebuildVs, rebuildVs_eq_map S xs]

theorem rebuildKvs_eq_map (S : SetOrder) : ∀ kvs : List (PyVal × PyVal),
    rebuildKvs S kvs = kvs.map (fun p => (rebuildV S p.1, rebuildV S p.2))
  | [] => by simp [rebuildKvs]
  | (k, v) :: rest => by simp [rebuildKvs, rebuildKvs_eq_map S rest]

theorem rebuildAttrs_eq_map (S : SetOrder) : ∀ kvs : List (String × PyVal),
    rebuildAttrs S kvs = kvs.map (fun p => (p.1, rebuildV S p.2))
  | [] => by simp [rebuildAttrs]
  | (k, v) :: rest => by simp [rebuildAttrs, rebuildAttrs_eq_map S rest]

/-- the rebuilt set has the elements it was built from (what is assumed of `SetOrder`) -/
def MemPreserving (S : SetOrder) : Prop := ∀ xs y, y ∈ S xs ↔ y ∈ xs

/-- a rebuilt value is `==` the original, for every iteration order of the rebuilt sets -/
theorem pyEq_rebuildV (S : SetOrder) (hS : MemPreserving S) :
    ∀ v : PyVal, pyEq v (rebuildV S v) = true := by
  intro v
  refine PyVal.induct (fun v => pyEq v (rebuildV S v) = true) ?_ ?_ ?_ ?_ ?_ ?_ ?_ v
  · intro v ha
    cases v <;> simp [PyVal.isAtom] at ha <;> simp only [rebuildV] <;> exact pyEq_refl _
  · intro a ih
    simp only [rebuildV, pyEq, rebuildVs_eq_map]
    exact pyEqList_map _ a ih
  · intro a ih
    simp only [rebuildV, pyEq, rebuildVs_eq_map]
    exact pyEqList_map _ a ih
  · intro a ih
    simp only [rebuildV, pyEq, rebuildVs_eq_map]
    exact pyEqList_map _ a ih
  · intro f a ih
    simp only [rebuildV, pyEq, rebuildVs_eq_map, Bool.and_eq_true, List.all_eq_true, subsetBy_iff,
      anyEqL_iff]
    refine ⟨fun x hx => ⟨rebuildV S x, (hS _ _).2 (List.mem_map.2 ⟨x, hx, rfl⟩), ih x hx⟩,
      fun y hy => ?_⟩
    obtain ⟨x, hx, rfl⟩ := List.mem_map.1 ((hS _ _).1 hy)
    exact ⟨x, hx, ih x hx⟩
  · intro a ih
    simp only [rebuildV, pyEq, rebuildKvs_eq_map, List.length_map, beq_self_eq_true, Bool.true_and,
      dictSub_iff]
    intro p hp
    exact ⟨_, List.mem_map.2 ⟨p, hp, rfl⟩, (ih p hp).1, (ih p hp).2⟩
  · intro c a ih
    simp only [rebuildV, rebuildAttrs_eq_map]
    refine (pyEq_inst_iff _ _ _ _).2 ⟨rfl, fun p hp => Or.inr ⟨_, List.mem_map.2 ⟨p, hp, rfl⟩, rfl, ih p hp⟩,
      fun q hq => ?_⟩
    obtain ⟨p, hp, rfl⟩ := List.mem_map.1 hq
    exact Or.inr ⟨p, hp, rfl, ih p hp⟩

theorem lookup_map_val {α β} (f : α → β) (k : String) : ∀ l : List (String × α),
    lookup k (l.map (fun p => (p.1, f p.2))) = (lookup k l).map f
  | [] => by simp [lookup]
  | (k', v) :: rest => by
    simp only [List.map, lookup]
    split
    · rfl
    · exact lookup_map_val f k rest

/-- a value whose sets are rebuilt in the same iteration order comes back identical -/
theorem rebuildV_id : ∀ v : PyVal, rebuildV id v = v := by
  intro v
  have hl : ∀ a : List PyVal, (∀ x ∈ a, rebuildV id x = x) → rebuildVs id a = a := by
    intro a h; rw [rebuildVs_eq_map]
    induction a with
    | nil => rfl
    | cons x t ih => simp only [List.map, h x (by simp), ih (fun y hy => h y (by simp [hy]))]
  refine PyVal.induct (fun v => rebuildV id v = v) ?_ ?_ ?_ ?_ ?_ ?_ ?_ v
  · intro v ha; cases v <;> simp [PyVal.isAtom] at ha <;> rfl
  · intro a ih; simp only [rebuildV, hl a ih]
  · intro a ih; simp only [rebuildV, hl a ih]
  · intro a ih; simp only [rebuildV, hl a ih]
  · intro f a ih; simp only [rebuildV, hl a ih, id]
  · intro a ih
    simp only [rebuildV, rebuildKvs_eq_map]
    congr 1
    induction a with
    | nil => rfl
    | cons p t iht =>
      simp only [List.map, (ih p (by simp)).1, (ih p (by simp)).2,
        iht (fun q hq => ih q (by simp [hq]))]
  · intro c a ih
    simp only [rebuildV, rebuildAttrs_eq_map]
    congr 1
    induction a with
    | nil => rfl
    | cons p t iht =>
      simp only [List.map, ih p (by simp), iht (fun q hq => ih q (by simp [hq]))]

theorem rebuildAttrs_id (a : List (String × PyVal)) : rebuildAttrs id a = a := by
  rw [rebuildAttrs_eq_map]
  induction a with
  | nil => rfl
  | cons p t iht => simp only [List.map, rebuildV_id p.2, iht]

/-! ### the order of the unpickled `__dict__` does not change what any name reads -/

theorem c11_lookup_append {α} (k : String) : ∀ (a b : List (String × α)),
    lookup k (a ++ b) = match lookup k a with | some v => some v | none => lookup k b
  | [], b => by simp [lookup]
  | (k', v) :: rest, b => by
    simp only [List.cons_append, lookup]
    split
    · rfl
    · exact c11_lookup_append k rest b

theorem c11_lookup_filter_keep {α} (p : String → Bool) (k : String) (hk : p k = true) :
    ∀ l : List (String × α), lookup k (l.filter (fun kv => p kv.1)) = lookup k l
  | [] => rfl
  | (k', v) :: rest => by
    simp only [List.filter]
    by_cases e : (k == k') = true
    · have : k = k' := by simpa using e
      subst this
      simp only [hk, lookup, e, if_true]
    · cases hp : p k' with
      | true => simp only [lookup, e, if_false]; exact c11_lookup_filter_keep p k hk rest
      | false => simp only [lookup, e, if_false]; exact c11_lookup_filter_keep p k hk rest

theorem c11_lookup_filter_drop {α} (p : String → Bool) (k : String) (hk : p k = false) :
    ∀ l : List (String × α), lookup k (l.filter (fun kv => p kv.1)) = none
  | [] => rfl
  | (k', v) :: rest => by
    simp only [List.filter]
    cases hp : p k' with
    | true =>
      have e : (k == k') = false := by
        cases h : (k == k') with
        | false => rfl
        | true => have : k = k' := by simpa using h
                  subst this; rw [hk] at hp; cases hp
      simp only [lookup, e, Bool.false_eq_true, if_false]
      exact c11_lookup_filter_drop p k hk rest
    | false => exact c11_lookup_filter_drop p k hk rest

theorem c11_lookup_fieldsPart (attrs : Attrs) (k : String) : ∀ fs : List String,
    lookup k (fs.filterMap (fun f => (lookup f attrs).map (fun v => (f, v))))
      = if fs.contains k then lookup k attrs else none
  | [] => by simp [lookup]
  | f :: fs => by
    have ih := c11_lookup_fieldsPart attrs k fs
    cases hl : lookup f attrs with
    | none =>
      rw [List.filterMap_cons_none (by rw [hl]; rfl), ih]
      by_cases e : (k == f) = true
      · have : k = f := by simpa using e
        subst this
        simp [hl]
      · have e' : (k == f) = false := by simpa using e
        simp only [List.contains_cons, e', Bool.false_or]
    | some v =>
      rw [List.filterMap_cons_some (b := (f, v)) (by rw [hl]; rfl)]
      by_cases e : (k == f) = true
      · have : k = f := by simpa using e
        subst this
        simp [lookup, hl]
      · have e' : (k == f) = false := by simpa using e
        simp only [lookup, e', Bool.false_eq_true, if_false, ih, List.contains_cons, Bool.false_or]

/-- reordering does not change what any name reads -/
theorem lookup_stateOrder (fields : List String) (attrs : Attrs) (k : String) :
    lookup k (stateOrder fields attrs) = lookup k attrs := by
  unfold stateOrder
  rw [c11_lookup_append, c11_lookup_fieldsPart]
  cases hc : fields.contains k with
  | true =>
    simp only [if_true]
    cases hl : lookup k attrs with
    | some v => rfl
    | none => exact c11_lookup_filter_drop (fun n => !fields.contains n) k (by simp only [hc, Bool.not_true]) attrs
  | false =>
    simp only [Bool.false_eq_true, if_false]
    rw [c11_lookup_filter_keep (fun n => !fields.contains n) k (by simp only [hc, Bool.not_false]) attrs]

theorem getA_pickleOrd (d : EqCtx) (fields : List String) (S : SetOrder) (x : Inst) (k : String) :
    getA d (pickleOrdI fields S x) k = getA d (pickleI S x) k := by
  unfold getA
  have h1 : (pickleOrdI fields S x).attrs = stateOrder fields (pickleI S x).attrs := rfl
  have h2 : (pickleOrdI fields S x).undef = (pickleI S x).undef := rfl
  have h3 : (pickleOrdI fields S x).nones = (pickleI S x).nones := rfl
  rw [h1, h2, h3, lookup_stateOrder]

end Typedpy
