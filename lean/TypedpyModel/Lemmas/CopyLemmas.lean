/-
  Lemmas/CopyLemmas.lean — a value rebuilt by copy.deepcopy / a pickle round trip (`pickleV`) is
  `==` the original whenever nothing is dropped (`keptV`) and rebuilt sets keep their elements
  (`MemPreserving`); it is identical when they also keep their iteration order (`pickleV_id`).
-/
import TypedpyModel.Lemmas.EqLemmas
set_option linter.unusedVariables false
set_option linter.unusedSimpArgs false
namespace Typedpy
open PyVal (pyEq pyEqList subsetBy anyEqL dictSub attrsSub)

/-! ### a rebuilt value (`copy.deepcopy`, pickle round trip) is `==` the original -/

mutual
/-- every attribute of every Structure inside the value is a declared field of its class
    (nothing for `__getstate__` to drop) -/
def keptV (T : ClassTbl) : PyVal → Bool
  | .list xs => keptVs T xs
  | .tuple xs => keptVs T xs
  | .deque xs => keptVs T xs
  | .set _ xs => keptVs T xs
  | .dict kvs => keptKvs T kvs
  | .inst c attrs => keptAttrs T (lookup c T) attrs
  | .none => true
  | .bool _ => true
  | .int _ => true
  | .float _ => true
  | .dec _ => true
  | .str _ => true
  | .enumv _ _ => true
  | .opaque _ => true
termination_by structural v => v
def keptVs (T : ClassTbl) : List PyVal → Bool
  | [] => true
  | x :: xs => keptV T x && keptVs T xs
termination_by structural xs => xs
def keptKvs (T : ClassTbl) : List (PyVal × PyVal) → Bool
  | [] => true
  | (k, v) :: rest => keptV T k && keptV T v && keptKvs T rest
termination_by structural kvs => kvs
def keptAttrs (T : ClassTbl) (names : Option (List String)) : List (String × PyVal) → Bool
  | [] => true
  | (k, v) :: rest => keepAttr names k && keptV T v && keptAttrs T names rest
termination_by structural kvs => kvs
end

theorem keptVs_iff (T : ClassTbl) (xs : List PyVal) :
    keptVs T xs = true ↔ ∀ x ∈ xs, keptV T x = true := by
  induction xs with
  | nil => simp [keptVs]
  | cons h t ih => simp [keptVs, ih]

theorem keptKvs_iff (T : ClassTbl) (kvs : List (PyVal × PyVal)) :
    keptKvs T kvs = true ↔ ∀ p ∈ kvs, keptV T p.1 = true ∧ keptV T p.2 = true := by
  induction kvs with
  | nil => simp [keptKvs]
  | cons h t ih => obtain ⟨k, v⟩ := h; simp [keptKvs, ih, and_assoc]

theorem keptAttrs_iff (T : ClassTbl) (names : Option (List String)) (kvs : List (String × PyVal)) :
    keptAttrs T names kvs = true ↔ ∀ p ∈ kvs, keepAttr names p.1 = true ∧ keptV T p.2 = true := by
  induction kvs with
  | nil => simp [keptAttrs]
  | cons h t ih => obtain ⟨k, v⟩ := h; simp [keptAttrs, ih, and_assoc]

theorem pickleVs_eq_map (T : ClassTbl) (S : SetOrder) : ∀ xs : List PyVal,
    pickleVs T S xs = xs.map (pickleV T S)
  | [] => by simp [pickleVs]
  | x :: xs => by simp [pickleVs, pickleVs_eq_map T S xs]

theorem pickleKvs_eq_map (T : ClassTbl) (S : SetOrder) : ∀ kvs : List (PyVal × PyVal),
    pickleKvs T S kvs = kvs.map (fun p => (pickleV T S p.1, pickleV T S p.2))
  | [] => by simp [pickleKvs]
  | (k, v) :: rest => by simp [pickleKvs, pickleKvs_eq_map T S rest]

theorem pickleAttrs_eq_map (T : ClassTbl) (S : SetOrder) (names : Option (List String)) :
    ∀ kvs : List (String × PyVal), (∀ p ∈ kvs, keepAttr names p.1 = true) →
    pickleAttrs T S names kvs = kvs.map (fun p => (p.1, pickleV T S p.2))
  | [], _ => by simp [pickleAttrs]
  | (k, v) :: rest, h => by
    simp only [pickleAttrs, h (k, v) (by simp), if_true, List.map,
      pickleAttrs_eq_map T S names rest (fun p hp => h p (by simp [hp]))]

/-- the rebuilt set has the elements it was built from (what is assumed of `SetOrder`) -/
def MemPreserving (S : SetOrder) : Prop := ∀ xs y, y ∈ S xs ↔ y ∈ xs

theorem pyEq_pickleV (T : ClassTbl) (S : SetOrder) (hS : MemPreserving S) :
    ∀ v : PyVal, keptV T v = true → pyEq v (pickleV T S v) = true := by
  intro v
  refine PyVal.induct (fun v => keptV T v = true → pyEq v (pickleV T S v) = true)
    ?_ ?_ ?_ ?_ ?_ ?_ ?_ v
  · intro v ha _
    cases v <;> simp [PyVal.isAtom] at ha <;> simp only [pickleV] <;> exact pyEq_refl _
  · intro a ih hk
    simp only [keptV, keptVs_iff] at hk
    simp only [pickleV, pyEq, pickleVs_eq_map]
    exact pyEqList_map _ a (fun x hx => ih x hx (hk x hx))
  · intro a ih hk
    simp only [keptV, keptVs_iff] at hk
    simp only [pickleV, pyEq, pickleVs_eq_map]
    exact pyEqList_map _ a (fun x hx => ih x hx (hk x hx))
  · intro a ih hk
    simp only [keptV, keptVs_iff] at hk
    simp only [pickleV, pyEq, pickleVs_eq_map]
    exact pyEqList_map _ a (fun x hx => ih x hx (hk x hx))
  · intro f a ih hk
    simp only [keptV, keptVs_iff] at hk
    simp only [pickleV, pyEq, pickleVs_eq_map, Bool.and_eq_true, List.all_eq_true, subsetBy_iff,
      anyEqL_iff]
    refine ⟨fun x hx => ⟨pickleV T S x, (hS _ _).2 (List.mem_map.2 ⟨x, hx, rfl⟩), ih x hx (hk x hx)⟩,
      fun y hy => ?_⟩
    obtain ⟨x, hx, rfl⟩ := List.mem_map.1 ((hS _ _).1 hy)
    exact ⟨x, hx, ih x hx (hk x hx)⟩
  · intro a ih hk
    simp only [keptV, keptKvs_iff] at hk
    simp only [pickleV, pyEq, pickleKvs_eq_map, List.length_map, beq_self_eq_true, Bool.true_and,
      dictSub_iff]
    intro p hp
    exact ⟨_, List.mem_map.2 ⟨p, hp, rfl⟩, (ih p hp).1 (hk p hp).1, (ih p hp).2 (hk p hp).2⟩
  · intro c a ih hk
    simp only [keptV, keptAttrs_iff] at hk
    simp only [pickleV, pyEq, pickleAttrs_eq_map T S _ a (fun p hp => (hk p hp).1), List.length_map,
      beq_self_eq_true, Bool.true_and, attrsSub_iff]
    intro p hp
    exact ⟨_, List.mem_map.2 ⟨p, hp, rfl⟩, rfl, ih p hp (hk p hp).2⟩

/-- with no class table nothing is ever dropped (`copy.deepcopy`) -/
theorem keptV_nil : ∀ v : PyVal, keptV [] v = true := by
  intro v
  refine PyVal.induct (fun v => keptV [] v = true) ?_ ?_ ?_ ?_ ?_ ?_ ?_ v
  · intro v ha; cases v <;> simp [PyVal.isAtom] at ha <;> rfl
  · intro a ih; simp only [keptV, keptVs_iff]; exact ih
  · intro a ih; simp only [keptV, keptVs_iff]; exact ih
  · intro a ih; simp only [keptV, keptVs_iff]; exact ih
  · intro f a ih; simp only [keptV, keptVs_iff]; exact ih
  · intro a ih; simp only [keptV, keptKvs_iff]; exact ih
  · intro c a ih
    simp only [keptV, keptAttrs_iff, lookup, keepAttr]
    exact fun p hp => ⟨trivial, ih p hp⟩

theorem lookup_map_val {α β} (f : α → β) (k : String) : ∀ l : List (String × α),
    lookup k (l.map (fun p => (p.1, f p.2))) = (lookup k l).map f
  | [] => by simp [lookup]
  | (k', v) :: rest => by
    simp only [List.map, lookup]
    split
    · rfl
    · exact lookup_map_val f k rest

/-- a value whose sets are rebuilt in the same iteration order and whose Structures carry only
    declared fields comes back identical -/
theorem pickleV_id (T : ClassTbl) : ∀ v : PyVal, keptV T v = true → pickleV T id v = v := by
  intro v
  have hl : ∀ a : List PyVal, (∀ x ∈ a, pickleV T id x = x) → pickleVs T id a = a := by
    intro a h; rw [pickleVs_eq_map]
    induction a with
    | nil => rfl
    | cons x t ih => simp only [List.map, h x (by simp), ih (fun y hy => h y (by simp [hy]))]
  refine PyVal.induct (fun v => keptV T v = true → pickleV T id v = v) ?_ ?_ ?_ ?_ ?_ ?_ ?_ v
  · intro v ha _; cases v <;> simp [PyVal.isAtom] at ha <;> rfl
  · intro a ih hk
    simp only [keptV, keptVs_iff] at hk
    simp only [pickleV, hl a (fun x hx => ih x hx (hk x hx))]
  · intro a ih hk
    simp only [keptV, keptVs_iff] at hk
    simp only [pickleV, hl a (fun x hx => ih x hx (hk x hx))]
  · intro a ih hk
    simp only [keptV, keptVs_iff] at hk
    simp only [pickleV, hl a (fun x hx => ih x hx (hk x hx))]
  · intro f a ih hk
    simp only [keptV, keptVs_iff] at hk
    simp only [pickleV, hl a (fun x hx => ih x hx (hk x hx)), id]
  · intro a ih hk
    simp only [keptV, keptKvs_iff] at hk
    simp only [pickleV, pickleKvs_eq_map]
    congr 1
    induction a with
    | nil => rfl
    | cons p t iht =>
      simp only [List.map, (ih p (by simp)).1 (hk p (by simp)).1, (ih p (by simp)).2 (hk p (by simp)).2,
        iht (fun q hq => ih q (by simp [hq])) (fun q hq => hk q (by simp [hq]))]
  · intro c a ih hk
    simp only [keptV, keptAttrs_iff] at hk
    simp only [pickleV]
    rw [pickleAttrs_eq_map T id _ a (fun p hp => (hk p hp).1)]
    congr 1
    induction a with
    | nil => rfl
    | cons p t iht =>
      simp only [List.map, ih p (by simp) (hk p (by simp)).2,
        iht (fun q hq => ih q (by simp [hq])) (fun q hq => hk q (by simp [hq]))]

theorem pickleAttrs_id (T : ClassTbl) (names : Option (List String)) (a : List (String × PyVal))
    (hk : keptAttrs T names a = true) : pickleAttrs T id names a = a := by
  rw [keptAttrs_iff] at hk
  rw [pickleAttrs_eq_map T id names a (fun p hp => (hk p hp).1)]
  induction a with
  | nil => rfl
  | cons p t iht =>
    simp only [List.map, pickleV_id T p.2 (hk p (by simp)).2, iht (fun q hq => hk q (by simp [hq]))]

end Typedpy
