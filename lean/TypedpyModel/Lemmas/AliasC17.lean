/-
  Lemmas/AliasC17.lean — frame / freshness / separation theorems for the heap-level model of
  `_convert` / `convert_dict` (Sem/AliasC17.lean), C17 ("convert_dict leaves its input intact").

  Hypotheses: the three copy sites copy (`Sites.AllCopy`; regenerated table `Generated/AliasingC17.lean`,
  NOT imported here) and every `FunctionCall` of the (nested) mappings obeys the capability discipline `FnOk`
  (`mapFnsOk`).  For ALL mappings (any nesting), heaps, documents, fuel:
    T1  `hConvertDict_frame`           every pre-existing cell is unchanged, also when the call raises midway
    T2  `hConvertDict_fresh`, `hConvertDict_disjoint`   the result lives in cells allocated by the call;
                                       nothing reachable from it is reachable from a pre-existing root
    T3  `hConvertDict_result_script`, `hConvertDict_input_observe`, `hConvertDict_result_observe`
                                       caller scripts from the result / from old roots cannot affect the other side
    T4  `hConvert_*`                   the same for a single `_convert` (site S1 plays no role)
        `IntactFor`, `hConvertDict_intact`, `hConvert_intact`   the statement in one piece
    weak `hConvertDict_intact_weak`, `hConvertDict_{frame,fresh,disjoint}_weak`: for `convert_dict` only S1 and S3 are
        needed, S2 may be ANY mode (`hConvert_rel`: `_convert` relative to a region containing its input)
    T5  `example_all_deep`, `step_alias_*`, `doc_*`, `const_alias_*`, `global_fn_shares`   kernel-checked examples
  Proof architecture: one combined specification `Spec n0 h c Q` (nothing below `n0` is written; on return the
  region `[n0, next)` is closed and `Q` holds) with a bind rule; every piece of the model gets one small lemma.
-/
import TypedpyModel.Sem.AliasC17
import TypedpyModel.Lemmas.Alias
namespace Typedpy.AliasC17
open Typedpy.Alias

/-! ## frame relative to a base address, and the combined specification -/

/-- `h'` extends `h` and every cell below `n0` is untouched (cells at or above `n0` may have been written) -/
def FrameAt (n0 : Nat) (h h' : Heap) : Prop := h.next ≤ h'.next ∧ ∀ a, a < n0 → h'.cells a = h.cells a

theorem FrameAt.rfl' (n0 : Nat) (h : Heap) : FrameAt n0 h h := ⟨Nat.le_refl _, fun _ _ => rfl⟩

theorem FrameAt.trans {n0 : Nat} {h1 h2 h3 : Heap} (a : FrameAt n0 h1 h2) (b : FrameAt n0 h2 h3) :
    FrameAt n0 h1 h3 :=
  ⟨Nat.le_trans a.1 b.1, fun x hx => by rw [b.2 x hx, a.2 x hx]⟩

theorem FrameAt.of_frame {n0 : Nat} {h h' : Heap} (le : n0 ≤ h.next) (f : Frame h h') : FrameAt n0 h h' :=
  ⟨f.1, fun a ha => f.2 a (Nat.lt_of_lt_of_le ha le)⟩

/-- what every piece of `_convert` satisfies when started inside a region based at `n0`: it writes nothing
    below `n0`, and when it returns, the region is still closed under references and the result satisfies `Q` -/
def Spec {α : Type} (n0 : Nat) (h : Heap) (c : R α) (Q : Heap → α → Prop) : Prop :=
  FrameAt n0 h c.1 ∧ ∀ a, c.2 = some a → NewClosed n0 c.1 ∧ Q c.1 a

theorem spec_pure {α : Type} {n0 : Nat} {h : Heap} {a : α} {Q : Heap → α → Prop} (nc : NewClosed n0 h)
    (q : Q h a) : Spec n0 h (h, some a) Q :=
  ⟨FrameAt.rfl' _ _, fun b e => by simp only [Option.some.injEq] at e; subst e; exact ⟨nc, q⟩⟩

theorem spec_fail {α : Type} {n0 : Nat} {h : Heap} {Q : Heap → α → Prop} : Spec n0 h ((h, none) : R α) Q :=
  ⟨FrameAt.rfl' _ _, fun _ e => nomatch e⟩

theorem spec_bind {α β : Type} {n0 : Nat} {h : Heap} {c : R α} {k : Heap → α → R β} {Q : Heap → α → Prop}
    {Q' : Heap → β → Prop} (le : n0 ≤ h.next) (hc : Spec n0 h c Q)
    (hk : ∀ h1 a, n0 ≤ h1.next → h.next ≤ h1.next → NewClosed n0 h1 → Q h1 a → Spec n0 h1 (k h1 a) Q') :
    Spec n0 h (bindR c k) Q' := by
  obtain ⟨h1, o⟩ := c
  cases o with
  | none => exact ⟨hc.1, fun _ e => nomatch e⟩
  | some a =>
    have q := hc.2 a rfl
    have s := hk h1 a (Nat.le_trans le hc.1.1) hc.1.1 q.1 q.2
    exact ⟨hc.1.trans s.1, s.2⟩

theorem spec_of_frame_fresh {n0 : Nat} {h : Heap} {c : R Item} (le : n0 ≤ h.next) (fr : Frame h c.1)
    (fs : ∀ h' i', c = (h', some i') → NewClosed n0 h' ∧ ItemIn n0 h' i') : Spec n0 h c (ItemIn n0) := by
  obtain ⟨h', o⟩ := c
  refine ⟨FrameAt.of_frame le fr, fun a e => ?_⟩
  simp only at e
  subst e
  exact fs _ _ rfl

/-! ## primitives -/

theorem mem_kids_of {c : Cell} {key : String} {k : Nat} (hm : (key, Item.ref k) ∈ c.items) : k ∈ c.kids := by
  simp only [Cell.kids, List.mem_filterMap]
  exact ⟨_, hm, rfl⟩

theorem items_of_closed {n0 : Nat} {h : Heap} (nc : NewClosed n0 h) {a : Nat} (h1 : n0 ≤ a) (h2 : a < h.next) :
    ItemsIn n0 h (h.cells a).items := by
  intro p hp b e
  obtain ⟨key, it⟩ := p
  simp only at e
  subst e
  exact nc a h1 h2 b (mem_kids_of hp)

theorem closed_write {n0 : Nat} {h : Heap} (nc : NewClosed n0 h) (a : Nat) {c : Cell}
    (hc : ItemsIn n0 h c.items) : NewClosed n0 (h.write a c) := by
  intro x hx hlt k hk
  simp only [Heap.write] at hlt hk ⊢
  by_cases e : x = a
  · rw [if_pos e] at hk
    obtain ⟨key, hm⟩ := mem_kids hk
    exact hc _ hm k rfl
  · rw [if_neg e] at hk
    exact nc x hx hlt k hk

theorem frameAt_write {n0 : Nat} {h : Heap} {a : Nat} (c : Cell) (ha : n0 ≤ a) : FrameAt n0 h (h.write a c) := by
  refine ⟨Nat.le_refl _, fun x hx => ?_⟩
  simp only [Heap.write]
  rw [if_neg (by omega)]

theorem mem_setItem {name : String} {v : Item} :
    ∀ (its : List (String × Item)) (p : String × Item), p ∈ setItem name v its → p ∈ its ∨ p.2 = v := by
  intro its
  induction its with
  | nil =>
    intro p hp
    simp only [setItem, List.mem_singleton] at hp
    subst hp; exact Or.inr rfl
  | cons q rest ih =>
    intro p hp
    obtain ⟨k, x⟩ := q
    simp only [setItem] at hp
    by_cases e : k = name
    · rw [if_pos e] at hp
      cases hp with
      | head => exact Or.inr rfl
      | tail _ h' => exact Or.inl (List.mem_cons_of_mem _ h')
    · rw [if_neg e] at hp
      cases hp with
      | head => exact Or.inl (List.mem_cons_self)
      | tail _ h' =>
        cases ih p h' with
        | inl m => exact Or.inl (List.mem_cons_of_mem _ m)
        | inr m => exact Or.inr m

theorem lookupItem_mem {name : String} :
    ∀ (its : List (String × Item)) (x : Item), lookupItem name its = some x → ∃ k, (k, x) ∈ its := by
  intro its
  induction its with
  | nil => intro x e; simp [lookupItem] at e
  | cons q rest ih =>
    intro x e
    obtain ⟨k, y⟩ := q
    simp only [lookupItem] at e
    by_cases c : k = name
    · rw [if_pos c] at e
      simp only [Option.some.injEq] at e
      subst e
      exact ⟨k, List.mem_cons_self⟩
    · rw [if_neg c] at e
      obtain ⟨k', hk'⟩ := ih x e
      exact ⟨k', List.mem_cons_of_mem _ hk'⟩

theorem getD_in {n0 : Nat} {h : Heap} {its : List (String × Item)} (hi : ItemsIn n0 h its) (k : String) (v : Int) :
    ItemIn n0 h ((lookupItem k its).getD (.atom v)) := by
  cases e : lookupItem k its with
  | none => exact itemIn_atom _ _ _
  | some x =>
    obtain ⟨k', hk'⟩ := lookupItem_mem its x e
    exact hi _ hk'

theorem dictItems_eq {h : Heap} {d : Item} {its : List (String × Item)} (e : dictItems h d = some its) :
    ∃ a, d = .ref a ∧ (h.cells a).tag = "dict" ∧ its = (h.cells a).items := by
  cases d with
  | atom v => simp [dictItems] at e
  | ref a =>
    simp only [dictItems] at e
    by_cases c : (h.cells a).tag = "dict"
    · rw [if_pos c] at e
      simp only [Option.some.injEq] at e
      exact ⟨a, rfl, c, e.symm⟩
    · rw [if_neg c] at e
      exact nomatch e

theorem dictItems_in {n0 : Nat} {h : Heap} {d : Item} {its : List (String × Item)} (nc : NewClosed n0 h)
    (hd : ItemIn n0 h d) (e : dictItems h d = some its) : ItemsIn n0 h its := by
  obtain ⟨a, ea, _, ei⟩ := dictItems_eq e
  subst ea ei
  exact items_of_closed nc (hd a rfl).1 (hd a rfl).2

theorem spec_hSet {n0 : Nat} {h : Heap} {out : Item} {k : String} {x : Item} (nc : NewClosed n0 h)
    (ho : ItemIn n0 h out) (hx : ItemIn n0 h x) : Spec n0 h (hSet h out k x) (fun _ _ => True) := by
  cases out with
  | atom v => exact spec_fail
  | ref a =>
    simp only [hSet]
    have ra := ho a rfl
    by_cases c : (h.cells a).tag = "dict"
    · rw [if_pos c]
      refine ⟨frameAt_write _ ra.1, fun _ _ => ⟨closed_write nc a ?_, trivial⟩⟩
      intro p hp
      cases mem_setItem _ p hp with
      | inl m => exact items_of_closed nc ra.1 ra.2 p m
      | inr m => rw [m]; exact hx
    · rw [if_neg c]; exact spec_fail

theorem spec_hDel {n0 : Nat} {h : Heap} {out : Item} {k : String} (A : Atoms) (nc : NewClosed n0 h)
    (ho : ItemIn n0 h out) : Spec n0 h (hDel A h out k) (fun _ _ => True) := by
  cases out with
  | atom v =>
    simp only [hDel]
    cases A.delRaises k h (.atom v)
    · exact spec_pure nc trivial
    · exact spec_fail
  | ref a =>
    simp only [hDel]
    have ra := ho a rfl
    by_cases c : (h.cells a).tag = "dict"
    · rw [if_pos c]
      refine ⟨frameAt_write _ ra.1, fun _ _ => ⟨closed_write nc a ?_, trivial⟩⟩
      intro p hp
      exact items_of_closed nc ra.1 ra.2 p (List.mem_filter.mp hp).1
    · rw [if_neg c]
      cases A.delRaises k h (.ref a)
      · exact spec_pure nc trivial
      · exact spec_fail

theorem spec_copyAt {n0 : Nat} {h : Heap} {m : Mode} (hm : m.copies = true) (fuel : Nat) (i : Item)
    (le : n0 ≤ h.next) (nc : NewClosed n0 h) : Spec n0 h (copyAt m fuel h i) (ItemIn n0) :=
  spec_of_frame_fresh le (leafAny_frame m fuel h i _ _ rfl)
    (fun h' i' e => leafAny_fresh n0 m hm fuel h i h' i' le nc e)

theorem spec_alloc {n0 : Nat} {h : Heap} (tag : String) {its : List (String × Item)} (le : n0 ≤ h.next)
    (nc : NewClosed n0 h) (hi : ItemsIn n0 h its) : Spec n0 h (allocLike h tag its) (ItemIn n0) :=
  spec_of_frame_fresh le (allocLike_frame h tag its _ _ rfl) (fun _ _ e => allocLike_fresh le nc tag hi e)

theorem mapItems_cons_eq (f : Heap → Item → R Item) (h : Heap) (k : String) (i : Item)
    (rest : List (String × Item)) :
    mapItems f h ((k, i) :: rest) =
      bindR (f h i) fun h1 i' => bindR (mapItems f h1 rest) fun h2 r => (h2, some ((k, i') :: r)) := by
  simp only [mapItems]
  cases f h i with
  | mk h1 o =>
    cases o with
    | none => rfl
    | some i' =>
      simp only [bindR_some]
      cases mapItems f h1 rest with
      | mk h2 o2 => cases o2 <;> rfl

/-- threading a transformer over items, with a precondition `P` on the items that survives allocation -/
theorem spec_mapItems {n0 : Nat} {f : Heap → Item → R Item} {P : Heap → Item → Prop}
    (mono : ∀ h h' i, h.next ≤ h'.next → P h i → P h' i)
    (hf : ∀ h i, n0 ≤ h.next → NewClosed n0 h → P h i → Spec n0 h (f h i) (ItemIn n0)) :
    ∀ (its : List (String × Item)) (h : Heap), n0 ≤ h.next → NewClosed n0 h → (∀ p, p ∈ its → P h p.2) →
      Spec n0 h (mapItems f h its) (ItemsIn n0) := by
  intro its
  induction its with
  | nil => intro h _ nc _; exact spec_pure nc (fun p hp => nomatch hp)
  | cons q rest ih =>
    intro h le nc hp
    obtain ⟨k, i⟩ := q
    rw [mapItems_cons_eq]
    refine spec_bind le (hf h i le nc (hp _ List.mem_cons_self)) ?_
    intro h1 i' le1 m1 nc1 q1
    refine spec_bind le1 (ih h1 le1 nc1 (fun p hm => mono _ _ _ m1 (hp p (List.mem_cons_of_mem _ hm)))) ?_
    intro h2 r _ m2 nc2 q2
    refine spec_pure nc2 ?_
    intro p hm
    cases hm with
    | head => exact q1.mono m2
    | tail _ hm' => exact q2 p hm'

/-! ## `deep_get` -/

theorem mem_reindexFrom : ∀ (its : List (String × Item)) (n : Nat) (p : String × Item),
    p ∈ reindexFrom n its → ∃ q, q ∈ its ∧ q.2 = p.2 := by
  intro its
  induction its with
  | nil => intro n p hp; simp [reindexFrom] at hp
  | cons q rest ih =>
    intro n p hp
    obtain ⟨k, i⟩ := q
    simp only [reindexFrom] at hp
    cases hp with
    | head => exact ⟨(k, i), List.mem_cons_self, rfl⟩
    | tail _ hm =>
      obtain ⟨q', hq', e⟩ := ih _ p hm
      exact ⟨q', List.mem_cons_of_mem _ hq', e⟩

theorem itemIn_mono' (n0 : Nat) : ∀ (h h' : Heap) (i : Item), h.next ≤ h'.next → ItemIn n0 h i → ItemIn n0 h' i :=
  fun _ _ _ le x => x.mono le

theorem spec_getNextShape (A : Atoms) {n0 : Nat} {rec : Option (Heap → Item → R Item)}
    (hrec : ∀ f, rec = some f → ∀ h d, n0 ≤ h.next → NewClosed n0 h → ItemIn n0 h d → Spec n0 h (f h d) (ItemIn n0))
    (key : String) (h : Heap) (d : Item) (le : n0 ≤ h.next) (nc : NewClosed n0 h) (hd : ItemIn n0 h d) :
    Spec n0 h (getNextShape A rec key h d) (ItemIn n0) := by
  simp only [getNextShape]
  cases e : dictItems h d with
  | some its => exact spec_pure nc (getD_in (dictItems_in nc hd e) _ _)
  | none =>
    cases d with
    | atom v => exact spec_pure nc (itemIn_atom _ _ _)
    | ref a =>
      simp only
      cases isSeqItem h (.ref a) with
      | false => exact spec_pure nc (itemIn_atom _ _ _)
      | true =>
        simp only [if_true]
        cases rec with
        | none => exact spec_fail
        | some f =>
          simp only
          have ra := hd a rfl
          refine spec_bind le (spec_mapItems (itemIn_mono' n0) (hrec f rfl) _ h le nc ?_) ?_
          · intro p hp
            exact items_of_closed nc ra.1 ra.2 p (List.mem_filter.mp hp).1
          · intro h1 its le1 _ nc1 q1
            refine spec_alloc _ le1 nc1 ?_
            intro p hp
            obtain ⟨q, hq, e⟩ := mem_reindexFrom its 0 p hp
            rw [← e]; exact q1 q hq

theorem spec_getNext (A : Atoms) {n0 : Nat} : ∀ (fuel : Nat) (key : String) (h : Heap) (d : Item),
    n0 ≤ h.next → NewClosed n0 h → ItemIn n0 h d → Spec n0 h (getNext A fuel key h d) (ItemIn n0) := by
  intro fuel
  induction fuel with
  | zero =>
    intro key h d le nc hd
    simp only [getNext]
    exact spec_getNextShape A (by intro f e; cases e) key h d le nc hd
  | succ n ih =>
    intro key h d le nc hd
    simp only [getNext]
    refine spec_getNextShape A ?_ key h d le nc hd
    intro f e
    simp only [Option.some.injEq] at e
    subst e
    exact ih key

theorem spec_hDeepGet (A : Atoms) {n0 : Nat} (fuel : Nat) : ∀ (path : List String) (h : Heap) (d : Item),
    n0 ≤ h.next → NewClosed n0 h → ItemIn n0 h d → Spec n0 h (hDeepGet A fuel path h d) (ItemIn n0) := by
  intro path
  induction path with
  | nil => intro h d _ nc hd; exact spec_pure nc hd
  | cons key rest ih =>
    intro h d le nc hd
    simp only [hDeepGet]
    refine spec_bind le ?_ (fun h1 d1 le1 _ nc1 q1 => ih h1 d1 le1 nc1 q1)
    cases truthy A h d with
    | true => simp only [if_true]; exact spec_getNext A fuel key h d le nc hd
    | false => exact spec_pure nc (itemIn_atom _ _ _)

/-! ## the capability discipline for user functions, and well-behaved nested converters -/

/-- **Assumption on the functions of `FunctionCall` entries (capability discipline).**  A user function is
    handed references into `out_dict` (the working copy).  It is assumed to be *pure in the heap sense*:
    (1) it only allocates — it writes no cell that existed when it was called (so it mutates neither its
    arguments nor any global object), also when it raises; and (2) what it returns is an atom, something it
    built, or something reachable from its arguments — formally: for every region base `n0` such that the
    region `[n0, next)` is closed under references and contains all arguments, the region is still closed
    afterwards and contains the result.  A function that returns a global (pre-existing) object, stores its
    argument somewhere global, or mutates its arguments is OUTSIDE the statement of the theorems below. -/
def FnOk (f : Heap → List Item → R Item) : Prop :=
  ∀ h args h' r, f h args = (h', r) →
    Frame h h' ∧
    ∀ n0, n0 ≤ h.next → NewClosed n0 h → (∀ a, a ∈ args → ItemIn n0 h a) →
      ∀ i, r = some i → NewClosed n0 h' ∧ ItemIn n0 h' i

/-- what a (nested) converter satisfies: from ANY input item, in ANY region -/
def ConvOk (f : Heap → Item → R Item) : Prop :=
  ∀ n0 h i, n0 ≤ h.next → NewClosed n0 h → Spec n0 h (f h i) (ItemIn n0)

def HCEntry.Ok : HCEntry → Prop
  | .sub f => ConvOk f
  | .fn f _ => FnOk f
  | _ => True

def COk (m : HCMapping) : Prop := ∀ p, p ∈ m → p.2.Ok

theorem newClosed_init (h : Heap) : NewClosed h.next h :=
  fun _ ha hlt => absurd (Nat.lt_of_lt_of_le hlt ha) (Nat.lt_irrefl _)

theorem ConvOk.frameSpec {f : Heap → Item → R Item} (hf : ConvOk f) : FrameSpec f := by
  intro h i h' r e
  have := (hf h.next h i (Nat.le_refl _) (newClosed_init h)).1
  rw [e] at this
  exact this

theorem ConvOk.freshSpec {f : Heap → Item → R Item} (hf : ConvOk f) (n0 : Nat) : FreshSpec n0 f := by
  intro h i h' i' le nc e
  have := (hf n0 h i le nc).2 i' (by rw [e])
  rw [e] at this
  exact this

theorem spec_fn {n0 : Nat} {f : Heap → List Item → R Item} (hf : FnOk f) (h : Heap) (args : List Item)
    (le : n0 ≤ h.next) (nc : NewClosed n0 h) (ha : ∀ a, a ∈ args → ItemIn n0 h a) :
    Spec n0 h (f h args) (ItemIn n0) := by
  have := hf h args _ _ rfl
  exact spec_of_frame_fresh le this.1 (fun h' i' e => by
    have := (hf h args h' (some i') e).2 n0 le nc ha i' rfl
    exact this)

/-! ## the steps of `_convert` -/

theorem spec_hSub (A : Atoms) {n0 : Nat} {f : Heap → Item → R Item} (hf : ConvOk f) (k : String) (out : Item)
    (h : Heap) (content : Item) (le : n0 ≤ h.next) (nc : NewClosed n0 h) (ho : ItemIn n0 h out) :
    Spec n0 h (hSub A f k out h content) (fun _ _ => True) := by
  simp only [hSub]
  cases isNoneItem A content with
  | true => exact spec_pure nc trivial
  | false =>
    simp only [Bool.false_eq_true, if_false]
    cases isListItem h content with
    | true =>
      simp only [if_true]
      cases content with
      | atom v => exact spec_pure nc trivial
      | ref a =>
        simp only
        refine spec_bind le (spec_mapItems (P := fun _ _ => True) (fun _ _ _ _ _ => trivial)
          (fun h i le nc _ => hf n0 h i le nc) _ h le nc (fun _ _ => trivial)) ?_
        intro h1 its le1 m1 nc1 q1
        refine spec_bind le1 (spec_alloc _ le1 nc1 q1) ?_
        intro h2 l _ m2 nc2 q2
        exact spec_hSet nc2 (ho.mono (Nat.le_trans m1 m2)) q2
    | false =>
      simp only [Bool.false_eq_true, if_false]
      refine spec_bind le (hf n0 h content le nc) ?_
      intro h1 x _ m1 nc1 q1
      exact spec_hSet nc1 (ho.mono m1) q1

theorem spec_hStep1 (A : Atoms) {S : Sites} (hc : S.const.copies = true) (fuel : Nat) {n0 : Nat} (inp out : Item)
    (k : String) (e : HCEntry) (he : e.Ok) (h : Heap) (le : n0 ≤ h.next) (nc : NewClosed n0 h)
    (ho : ItemIn n0 h out) : Spec n0 h (hStep1 A S fuel inp out k e h) (fun _ _ => True) := by
  cases e with
  | const c =>
    simp only [hStep1]
    refine spec_bind le (spec_copyAt hc fuel c le nc) ?_
    intro h1 x _ m1 nc1 q1
    exact spec_hSet nc1 (ho.mono m1) q1
  | deleted => exact spec_pure nc trivial
  | move p => exact spec_pure nc trivial
  | sub f =>
    simp only [hStep1]
    cases dictItems h inp with
    | none => exact spec_fail
    | some its =>
      simp only
      cases lookupItem k its with
      | none => exact spec_pure nc trivial
      | some content => exact spec_hSub A he k out h content le nc ho
  | fn f args =>
    simp only [hStep1, hArgs]
    cases ed : dictItems h out with
    | none => exact spec_fail
    | some its =>
      simp only [bindR_some]
      have hi := dictItems_in nc ho ed
      refine spec_bind le (spec_fn he h _ le nc ?_) ?_
      · intro a ha
        obtain ⟨x, _, ex⟩ := List.mem_map.mp ha
        rw [← ex]; exact getD_in hi _ _
      · intro h1 r _ m1 nc1 q1
        exact spec_hSet nc1 (ho.mono m1) q1

theorem spec_hStep2 (A : Atoms) (fuel : Nat) {n0 : Nat} (out : Item) (k : String) (e : HCEntry) (h : Heap)
    (le : n0 ≤ h.next) (nc : NewClosed n0 h) (ho : ItemIn n0 h out) :
    Spec n0 h (hStep2 A fuel out k e h) (fun _ _ => True) := by
  cases e with
  | move p =>
    simp only [hStep2]
    refine spec_bind le (spec_hDeepGet A fuel p h out le nc ho) ?_
    intro h1 x _ m1 nc1 q1
    exact spec_hSet nc1 (ho.mono m1) q1
  | _ => exact spec_pure nc trivial

theorem spec_hStep3 (A : Atoms) {n0 : Nat} (out : Item) (k : String) (e : HCEntry) (h : Heap)
    (nc : NewClosed n0 h) (ho : ItemIn n0 h out) : Spec n0 h (hStep3 A out k e h) (fun _ _ => True) := by
  cases e with
  | deleted => exact spec_hDel A nc ho
  | _ => exact spec_pure nc trivial

theorem spec_hLoop {n0 : Nat} {out : Item} {step : String → HCEntry → Heap → R Unit} :
    ∀ (m : HCMapping),
      (∀ p, p ∈ m → ∀ h, n0 ≤ h.next → NewClosed n0 h → ItemIn n0 h out →
        Spec n0 h (step p.1 p.2 h) (fun _ _ => True)) →
      ∀ h, n0 ≤ h.next → NewClosed n0 h → ItemIn n0 h out → Spec n0 h (hLoop step m h) (fun _ _ => True) := by
  intro m
  induction m with
  | nil => intro _ h _ nc _; exact spec_pure nc trivial
  | cons p rest ih =>
    intro hs h le nc ho
    obtain ⟨k, e⟩ := p
    simp only [hLoop]
    refine spec_bind le (hs (k, e) List.mem_cons_self h le nc ho) ?_
    intro h1 _ le1 m1 nc1 _
    exact ih (fun p hp => hs p (List.mem_cons_of_mem _ hp)) h1 le1 nc1 (ho.mono m1)

/-- `_convert` with resolved nested converters: started anywhere, on anything -/
theorem hConvShape_ok (A : Atoms) {S : Sites} (hst : S.step.copies = true) (hc : S.const.copies = true)
    (fuel : Nat) {m : HCMapping} (hm : COk m) : ConvOk (hConvShape A S fuel m) := by
  intro n0 h inp le nc
  simp only [hConvShape]
  refine spec_bind le (spec_copyAt hst fuel inp le nc) ?_
  intro h1 out le1 _ nc1 ho1
  refine spec_bind le1 (spec_hLoop m (fun p hp h le nc ho => spec_hStep1 A hc fuel inp out p.1 p.2 (hm p hp) h le nc ho)
    h1 le1 nc1 ho1) ?_
  intro h2 _ le2 m2 nc2 _
  have ho2 := ho1.mono m2
  refine spec_bind le2 (spec_hLoop m (fun p _ h le nc ho => spec_hStep2 A fuel out p.1 p.2 h le nc ho)
    h2 le2 nc2 ho2) ?_
  intro h3 _ le3 m3 nc3 _
  have ho3 := ho2.mono m3
  refine spec_bind le3 (spec_hLoop m (fun p _ h _ nc ho => spec_hStep3 A out p.1 p.2 h nc ho)
    h3 le3 nc3 ho3) ?_
  intro h4 _ _ m4 nc4 _
  exact spec_pure nc4 (ho3.mono m4)

/-! ## source-level mappings -/

mutual
/-- every `FunctionCall` of the mapping, at any nesting depth, obeys the capability discipline `FnOk` -/
def HEntry.FnsOk : HEntry → Prop
  | .const _ => True
  | .deleted => True
  | .move _ => True
  | .fn f _ => FnOk f
  | .sub m => mapFnsOk m
termination_by structural x => x
def mapFnsOk : List (String × HEntry) → Prop
  | [] => True
  | (_, e) :: r => e.FnsOk ∧ mapFnsOk r
termination_by structural x => x
end

mutual
theorem compile_ok (A : Atoms) {S : Sites} (hst : S.step.copies = true) (hc : S.const.copies = true) (fuel : Nat) :
    (e : HEntry) → e.FnsOk → (e.compile A S fuel).Ok
  | .const _, _ => by simp only [HEntry.compile, HCEntry.Ok]
  | .deleted, _ => by simp only [HEntry.compile, HCEntry.Ok]
  | .move _, _ => by simp only [HEntry.compile, HCEntry.Ok]
  | .fn f _, h => by
    simp only [HEntry.FnsOk] at h
    simp only [HEntry.compile, HCEntry.Ok]; exact h
  | .sub m, h => by
    simp only [HEntry.FnsOk] at h
    simp only [HEntry.compile, HCEntry.Ok]
    exact hConvShape_ok A hst hc fuel (compileMap_ok A hst hc fuel m h)
theorem compileMap_ok (A : Atoms) {S : Sites} (hst : S.step.copies = true) (hc : S.const.copies = true) (fuel : Nat) :
    (m : List (String × HEntry)) → mapFnsOk m → COk (compileMap A S fuel m)
  | [], _ => by intro p hp; simp only [compileMap] at hp; exact nomatch hp
  | (k, e) :: r, h => by
    simp only [mapFnsOk] at h
    intro p hp
    simp only [compileMap] at hp
    cases hp with
    | head => exact compile_ok A hst hc fuel e h.1
    | tail _ hp' => exact compileMap_ok A hst hc fuel r h.2 p hp'
end

/-- `_convert`, any mapping (any nesting): the combined specification -/
theorem hConvert_ok (A : Atoms) {S : Sites} (hst : S.step.copies = true) (hc : S.const.copies = true)
    (fuel : Nat) (m : HMapping) (hm : mapFnsOk m) : ConvOk (hConvert A S fuel m) :=
  hConvShape_ok A hst hc fuel (compileMap_ok A hst hc fuel m hm)

theorem spec_hRunSteps (A : Atoms) {S : Sites} (hst : S.step.copies = true) (hc : S.const.copies = true)
    (fuel : Nat) (ver : Nat → Int) {n0 : Nat} :
    ∀ (ms : List HMapping), (∀ m, m ∈ ms → mapFnsOk m) → ∀ (i : Nat) (h : Heap) (d : Item),
      n0 ≤ h.next → NewClosed n0 h → ItemIn n0 h d →
      Spec n0 h (hRunSteps A S fuel ver ms i h d) (ItemIn n0) := by
  intro ms
  induction ms with
  | nil => intro _ i h d _ nc hd; exact spec_pure nc hd
  | cons m rest ih =>
    intro hm i h d le nc _
    simp only [hRunSteps]
    refine spec_bind le (hConvert_ok A hst hc fuel m (hm m List.mem_cons_self) n0 h d le nc) ?_
    intro h1 d1 le1 _ nc1 q1
    refine spec_bind le1 (spec_hSet nc1 q1 (itemIn_atom _ _ _)) ?_
    intro h2 _ le2 m2 nc2 _
    exact ih (fun m' hm' => hm m' (List.mem_cons_of_mem _ hm')) (i + 1) h2 d1 le2 nc2 (q1.mono m2)

theorem spec_hConvertDict (A : Atoms) {S : Sites} (hd : S.doc.copies = true) (hst : S.step.copies = true)
    (hc : S.const.copies = true) (fuel : Nat) (ver : Nat → Int) (ms : List HMapping)
    (hm : ∀ m, m ∈ ms → mapFnsOk m) {n0 : Nat} (h : Heap) (doc : Item) (le : n0 ≤ h.next) (nc : NewClosed n0 h) :
    Spec n0 h (hConvertDict A S fuel ver ms h doc) (ItemIn n0) := by
  simp only [hConvertDict]
  cases dictItems h doc with
  | none => exact spec_fail
  | some its =>
    simp only
    refine spec_bind le (spec_copyAt hd fuel doc le nc) ?_
    intro h1 d le1 _ nc1 q1
    exact spec_hRunSteps A hst hc fuel ver ms hm 0 h1 d le1 nc1 q1

/-! ## separation from frame + freshness (shared by `_convert` and `convert_dict`) -/

/-- everything reachable from a result that lies in a closed new region was allocated by the call -/
theorem sep_result_region {h h' : Heap} {res : Item} (nc : NewClosed h.next h') (hi : ItemIn h.next h' res) :
    ∀ b, Held h' (roots res) b → h.next ≤ b ∧ b < h'.next := by
  intro b hb
  obtain ⟨r, hr, rb⟩ := hb
  cases res with
  | atom v => simp [roots] at hr
  | ref a =>
    simp only [roots, List.mem_singleton] at hr
    subst hr
    exact reach_new nc (hi r rfl) rb

/-- … hence no cell reachable from the result is reachable from a pre-existing root -/
theorem sep_disjoint {h h' : Heap} {res : Item} (fr : Frame h h') (nc : NewClosed h.next h')
    (hi : ItemIn h.next h' res) (cb : ClosedBelow h.next h) (K : List Nat) (hK : ∀ r, r ∈ K → r < h.next) :
    ∀ b, Held h' (roots res) b → ¬ Held h' K b := by
  intro b hb hk
  obtain ⟨r, hr, rb⟩ := hk
  have lt := reach_below (closedBelow_frame cb fr) (hK r hr) rb
  exact absurd lt (Nat.not_lt.mpr (sep_result_region nc hi b hb).1)

/-- a script working from the result changes no pre-existing cell -/
theorem sep_script_from_result {h h' : Heap} {res : Item} (fr : Frame h h') (nc : NewClosed h.next h')
    (hi : ItemIn h.next h' res) (acts : List Act) (adm : AdmissibleAll h' (roots res) acts) :
    ∀ a, a < h.next → (runScript h' (roots res) acts).1.cells a = h.cells a := by
  have sp := script_protects (fun a => a < h.next) acts h' (roots res)
    (fun a ha hlt => absurd hlt (Nat.not_lt.mpr (sep_result_region nc hi a ha).1))
    (fun a ha => Nat.lt_of_lt_of_le ha fr.1) adm
  intro a ha
  rw [sp.1 a ha, fr.2 a ha]

/-- … hence no observation (to any depth) of anything that existed before changes -/
theorem sep_old_observe {h h' : Heap} {res : Item} (fr : Frame h h') (nc : NewClosed h.next h')
    (hi : ItemIn h.next h' res) (acts : List Act) (adm : AdmissibleAll h' (roots res) acts)
    (cb : ClosedBelow h.next h) (x : Item) (hx : ItemIn 0 h x) (n : Nat) :
    observeN n (runScript h' (roots res) acts).1 x = observeN n h x := by
  apply observe_agree (fun a => a < h.next) (sep_script_from_result fr nc hi acts adm)
    (fun a ha k hk => cb a ha k hk) n
  intro a ea
  exact (hx a ea).2

/-- a script working from pre-existing roots changes no observation of the result -/
theorem sep_result_observe {h h' : Heap} {res : Item} (fr : Frame h h') (nc : NewClosed h.next h')
    (hi : ItemIn h.next h' res) (cb : ClosedBelow h.next h) (K : List Nat) (hK : ∀ r, r ∈ K → r < h.next)
    (acts : List Act) (adm : AdmissibleAll h' K acts) (n : Nat) :
    observeN n (runScript h' K acts).1 res = observeN n h' res := by
  have cb' := closedBelow_frame cb fr
  have sp := script_protects (fun a => h.next ≤ a ∧ a < h'.next) acts h' K
    (by
      intro a ha hp
      obtain ⟨r, hr, rb⟩ := ha
      exact absurd (reach_below cb' (hK r hr) rb) (Nat.not_lt.mpr hp.1))
    (fun a ha => ha.2) adm
  apply observe_agree (fun a => h.next ≤ a ∧ a < h'.next) (fun a ha => sp.1 a ha)
    (fun a ha k hk => nc a ha.1 ha.2 k hk) n
  intro a ea
  exact hi a ea

/-! ## T1 – T3: `convert_dict` -/

/-- the three copy sites copy -/
def Sites.AllCopy (S : Sites) : Prop := S.doc.copies = true ∧ S.step.copies = true ∧ S.const.copies = true

instance (S : Sites) : Decidable S.AllCopy := by unfold Sites.AllCopy; exact inferInstance

theorem Sites.AllCopy.of_bool {S : Sites} (h : S.allCopy = true) : S.AllCopy := by
  simp only [Sites.allCopy] at h
  have h1 := and_true_split h
  have h2 := and_true_split h1.1
  exact ⟨h2.1, h2.2, h1.2⟩

/-- **T1**: every cell that existed before the call (the caller's document, the mapping objects, the
    `Constant` values) is unchanged — also when the operation raises midway (`r = none`) -/
theorem hConvertDict_frame (A : Atoms) {S : Sites} (hS : S.AllCopy) (fuel : Nat) (ver : Nat → Int)
    (ms : List HMapping) (hm : ∀ m, m ∈ ms → mapFnsOk m) (h : Heap) (doc : Item) (h' : Heap) (r : Option Item)
    (e : hConvertDict A S fuel ver ms h doc = (h', r)) : Frame h h' := by
  have := (spec_hConvertDict A hS.1 hS.2.1 hS.2.2 fuel ver ms hm h doc (Nat.le_refl _) (newClosed_init h)).1
  rw [e] at this
  exact this

/-- **T2**: the result lives entirely in cells allocated by the call, and that region is closed -/
theorem hConvertDict_fresh (A : Atoms) {S : Sites} (hS : S.AllCopy) (fuel : Nat) (ver : Nat → Int)
    (ms : List HMapping) (hm : ∀ m, m ∈ ms → mapFnsOk m) (h : Heap) (doc : Item) (h' : Heap) (res : Item)
    (e : hConvertDict A S fuel ver ms h doc = (h', some res)) : ItemIn h.next h' res ∧ NewClosed h.next h' := by
  have := (spec_hConvertDict A hS.1 hS.2.1 hS.2.2 fuel ver ms hm h doc (Nat.le_refl _) (newClosed_init h)).2
    res (by rw [e])
  rw [e] at this
  exact ⟨this.2, this.1⟩

/-- the same in a region that was opened earlier (composition with other operations) -/
theorem hConvertDict_fresh_at (A : Atoms) {S : Sites} (hS : S.AllCopy) (fuel : Nat) (ver : Nat → Int)
    (ms : List HMapping) (hm : ∀ m, m ∈ ms → mapFnsOk m) (n0 : Nat) : FreshSpec n0 (hConvertDict A S fuel ver ms) := by
  intro h doc h' res le nc e
  have := (spec_hConvertDict A hS.1 hS.2.1 hS.2.2 fuel ver ms hm h doc le nc).2 res (by rw [e])
  rw [e] at this
  exact this

/-- **T2, corollary**: no cell reachable from the result is reachable from a pre-existing root
    (the input document, the mappings, the `Constant` values …) -/
theorem hConvertDict_disjoint (A : Atoms) {S : Sites} (hS : S.AllCopy) (fuel : Nat) (ver : Nat → Int)
    (ms : List HMapping) (hm : ∀ m, m ∈ ms → mapFnsOk m) (h : Heap) (doc : Item) (h' : Heap) (res : Item)
    (e : hConvertDict A S fuel ver ms h doc = (h', some res)) (cb : ClosedBelow h.next h)
    (K : List Nat) (hK : ∀ r, r ∈ K → r < h.next) :
    ∀ b, Held h' (roots res) b → (h.next ≤ b ∧ b < h'.next) ∧ ¬ Held h' K b := by
  have fr := hConvertDict_frame A hS fuel ver ms hm h doc h' _ e
  have fs := hConvertDict_fresh A hS fuel ver ms hm h doc h' res e
  intro b hb
  exact ⟨sep_result_region fs.2 fs.1 b hb, sep_disjoint fr fs.2 fs.1 cb K hK b hb⟩

/-- **T3a**: whatever the caller does with the result afterwards (any admissible script of native mutations
    working from the result), no pre-existing cell changes … -/
theorem hConvertDict_result_script (A : Atoms) {S : Sites} (hS : S.AllCopy) (fuel : Nat) (ver : Nat → Int)
    (ms : List HMapping) (hm : ∀ m, m ∈ ms → mapFnsOk m) (h : Heap) (doc : Item) (h' : Heap) (res : Item)
    (e : hConvertDict A S fuel ver ms h doc = (h', some res))
    (acts : List Act) (adm : AdmissibleAll h' (roots res) acts) :
    ∀ a, a < h.next → (runScript h' (roots res) acts).1.cells a = h.cells a := by
  have fr := hConvertDict_frame A hS fuel ver ms hm h doc h' _ e
  have fs := hConvertDict_fresh A hS fuel ver ms hm h doc h' res e
  exact sep_script_from_result fr fs.2 fs.1 acts adm

/-- … hence every observation of the input document, and of anything else that existed (`x`), is what it
    was before the call -/
theorem hConvertDict_input_observe (A : Atoms) {S : Sites} (hS : S.AllCopy) (fuel : Nat) (ver : Nat → Int)
    (ms : List HMapping) (hm : ∀ m, m ∈ ms → mapFnsOk m) (h : Heap) (doc : Item) (h' : Heap) (res : Item)
    (e : hConvertDict A S fuel ver ms h doc = (h', some res))
    (acts : List Act) (adm : AdmissibleAll h' (roots res) acts) (cb : ClosedBelow h.next h)
    (hdoc : ItemIn 0 h doc) (n : Nat) :
    observeN n (runScript h' (roots res) acts).1 doc = observeN n h doc ∧
    ∀ x, ItemIn 0 h x → observeN n (runScript h' (roots res) acts).1 x = observeN n h x := by
  have fr := hConvertDict_frame A hS fuel ver ms hm h doc h' _ e
  have fs := hConvertDict_fresh A hS fuel ver ms hm h doc h' res e
  exact ⟨sep_old_observe fr fs.2 fs.1 acts adm cb doc hdoc n,
    fun x hx => sep_old_observe fr fs.2 fs.1 acts adm cb x hx n⟩

/-- **T3b**: whatever the caller does afterwards with what it held before (the input document, the mappings,
    the `Constant` values: roots `K`), no observation of the result changes -/
theorem hConvertDict_result_observe (A : Atoms) {S : Sites} (hS : S.AllCopy) (fuel : Nat) (ver : Nat → Int)
    (ms : List HMapping) (hm : ∀ m, m ∈ ms → mapFnsOk m) (h : Heap) (doc : Item) (h' : Heap) (res : Item)
    (e : hConvertDict A S fuel ver ms h doc = (h', some res)) (cb : ClosedBelow h.next h)
    (K : List Nat) (hK : ∀ r, r ∈ K → r < h.next) (acts : List Act) (adm : AdmissibleAll h' K acts) (n : Nat) :
    observeN n (runScript h' K acts).1 res = observeN n h' res := by
  have fr := hConvertDict_frame A hS fuel ver ms hm h doc h' _ e
  have fs := hConvertDict_fresh A hS fuel ver ms hm h doc h' res e
  exact sep_result_observe fr fs.2 fs.1 cb K hK acts adm n

/-! ## T4: a single `_convert` (nested conversion included; site S1 plays no role) -/

theorem hConvert_frame (A : Atoms) {S : Sites} (hst : S.step.copies = true) (hc : S.const.copies = true)
    (fuel : Nat) (m : HMapping) (hm : mapFnsOk m) (h : Heap) (inp : Item) (h' : Heap) (r : Option Item)
    (e : hConvert A S fuel m h inp = (h', r)) : Frame h h' :=
  (hConvert_ok A hst hc fuel m hm).frameSpec h inp h' r e

theorem hConvert_fresh (A : Atoms) {S : Sites} (hst : S.step.copies = true) (hc : S.const.copies = true)
    (fuel : Nat) (m : HMapping) (hm : mapFnsOk m) (h : Heap) (inp : Item) (h' : Heap) (res : Item)
    (e : hConvert A S fuel m h inp = (h', some res)) : ItemIn h.next h' res ∧ NewClosed h.next h' := by
  have := (hConvert_ok A hst hc fuel m hm).freshSpec h.next h inp h' res (Nat.le_refl _) (newClosed_init h) e
  exact ⟨this.2, this.1⟩

theorem hConvert_disjoint (A : Atoms) {S : Sites} (hst : S.step.copies = true) (hc : S.const.copies = true)
    (fuel : Nat) (m : HMapping) (hm : mapFnsOk m) (h : Heap) (inp : Item) (h' : Heap) (res : Item)
    (e : hConvert A S fuel m h inp = (h', some res)) (cb : ClosedBelow h.next h)
    (K : List Nat) (hK : ∀ r, r ∈ K → r < h.next) :
    ∀ b, Held h' (roots res) b → (h.next ≤ b ∧ b < h'.next) ∧ ¬ Held h' K b := by
  have fr := hConvert_frame A hst hc fuel m hm h inp h' _ e
  have fs := hConvert_fresh A hst hc fuel m hm h inp h' res e
  intro b hb
  exact ⟨sep_result_region fs.2 fs.1 b hb, sep_disjoint fr fs.2 fs.1 cb K hK b hb⟩

theorem hConvert_result_script (A : Atoms) {S : Sites} (hst : S.step.copies = true) (hc : S.const.copies = true)
    (fuel : Nat) (m : HMapping) (hm : mapFnsOk m) (h : Heap) (inp : Item) (h' : Heap) (res : Item)
    (e : hConvert A S fuel m h inp = (h', some res))
    (acts : List Act) (adm : AdmissibleAll h' (roots res) acts) :
    ∀ a, a < h.next → (runScript h' (roots res) acts).1.cells a = h.cells a := by
  have fr := hConvert_frame A hst hc fuel m hm h inp h' _ e
  have fs := hConvert_fresh A hst hc fuel m hm h inp h' res e
  exact sep_script_from_result fr fs.2 fs.1 acts adm

theorem hConvert_input_observe (A : Atoms) {S : Sites} (hst : S.step.copies = true) (hc : S.const.copies = true)
    (fuel : Nat) (m : HMapping) (hm : mapFnsOk m) (h : Heap) (inp : Item) (h' : Heap) (res : Item)
    (e : hConvert A S fuel m h inp = (h', some res))
    (acts : List Act) (adm : AdmissibleAll h' (roots res) acts) (cb : ClosedBelow h.next h)
    (hinp : ItemIn 0 h inp) (n : Nat) :
    observeN n (runScript h' (roots res) acts).1 inp = observeN n h inp ∧
    ∀ x, ItemIn 0 h x → observeN n (runScript h' (roots res) acts).1 x = observeN n h x := by
  have fr := hConvert_frame A hst hc fuel m hm h inp h' _ e
  have fs := hConvert_fresh A hst hc fuel m hm h inp h' res e
  exact ⟨sep_old_observe fr fs.2 fs.1 acts adm cb inp hinp n,
    fun x hx => sep_old_observe fr fs.2 fs.1 acts adm cb x hx n⟩

theorem hConvert_result_observe (A : Atoms) {S : Sites} (hst : S.step.copies = true) (hc : S.const.copies = true)
    (fuel : Nat) (m : HMapping) (hm : mapFnsOk m) (h : Heap) (inp : Item) (h' : Heap) (res : Item)
    (e : hConvert A S fuel m h inp = (h', some res)) (cb : ClosedBelow h.next h)
    (K : List Nat) (hK : ∀ r, r ∈ K → r < h.next) (acts : List Act) (adm : AdmissibleAll h' K acts) (n : Nat) :
    observeN n (runScript h' K acts).1 res = observeN n h' res := by
  have fr := hConvert_frame A hst hc fuel m hm h inp h' _ e
  have fs := hConvert_fresh A hst hc fuel m hm h inp h' res e
  exact sep_result_observe fr fs.2 fs.1 cb K hK acts adm n

/-! ## the statement in one piece -/

/-- **what C17 says about one operation at heap level**: whatever heap it starts from, whatever it is given,
    whether or not it succeeds, (1) every pre-existing cell is unchanged; and if it returns `res`,
    (2) `res` lives entirely in cells allocated by the call (a region closed under references),
    (3) no script of native mutations working from `res` changes a pre-existing cell, and
    (4) (on a well-formed heap) nothing reachable from `res` is reachable from pre-existing roots `K`, and no
        script working from such roots changes any observation of `res`. -/
def IntactFor (op : Heap → Item → R Item) : Prop :=
  ∀ (h : Heap) (inp : Item) (h' : Heap) (r : Option Item), op h inp = (h', r) →
    Frame h h' ∧
    ∀ res, r = some res →
      (ItemIn h.next h' res ∧ NewClosed h.next h') ∧
      (∀ acts, AdmissibleAll h' (roots res) acts →
        ∀ a, a < h.next → (runScript h' (roots res) acts).1.cells a = h.cells a) ∧
      (ClosedBelow h.next h → ∀ K, (∀ x, x ∈ K → x < h.next) →
        (∀ b, Held h' (roots res) b → ¬ Held h' K b) ∧
        ∀ acts, AdmissibleAll h' K acts → ∀ n, observeN n (runScript h' K acts).1 res = observeN n h' res)

theorem ConvOk.intact {f : Heap → Item → R Item} (hf : ConvOk f) : IntactFor f := by
  intro h inp h' r e
  have fr := hf.frameSpec h inp h' r e
  refine ⟨fr, ?_⟩
  intro res er
  subst er
  have fs := hf.freshSpec h.next h inp h' res (Nat.le_refl _) (newClosed_init h) e
  refine ⟨⟨fs.2, fs.1⟩, fun acts adm => sep_script_from_result fr fs.1 fs.2 acts adm, ?_⟩
  intro cb K hK
  exact ⟨sep_disjoint fr fs.1 fs.2 cb K hK, fun acts adm n => sep_result_observe fr fs.1 fs.2 cb K hK acts adm n⟩

theorem hConvertDict_ok (A : Atoms) {S : Sites} (hS : S.AllCopy) (fuel : Nat) (ver : Nat → Int)
    (ms : List HMapping) (hm : ∀ m, m ∈ ms → mapFnsOk m) : ConvOk (hConvertDict A S fuel ver ms) :=
  fun _ h doc le nc => spec_hConvertDict A hS.1 hS.2.1 hS.2.2 fuel ver ms hm h doc le nc

/-- **C17 at heap level, `convert_dict`**: all mappings (any nesting), all heaps, all documents, all fuel -/
theorem hConvertDict_intact (A : Atoms) {S : Sites} (hS : S.AllCopy) (fuel : Nat) (ver : Nat → Int)
    (ms : List HMapping) (hm : ∀ m, m ∈ ms → mapFnsOk m) : IntactFor (hConvertDict A S fuel ver ms) :=
  (hConvertDict_ok A hS fuel ver ms hm).intact

/-- **C17 at heap level, a single `_convert`** (nested conversion included) -/
theorem hConvert_intact (A : Atoms) {S : Sites} (hst : S.step.copies = true) (hc : S.const.copies = true)
    (fuel : Nat) (m : HMapping) (hm : mapFnsOk m) : IntactFor (hConvert A S fuel m) :=
  (hConvert_ok A hst hc fuel m hm).intact

/-! ## weak hypotheses for `convert_dict`: site S2 may do anything

  For `convert_dict` only S1 (`doc`) and S3 (`const`) matter: whatever `_convert` does at S2 (deep copy, shallow
  copy, no copy at all, …), it works on S1's private copy.  The `_convert`-level specification is therefore made
  RELATIVE: started on an input that lies in the region `[n0, next)`, it writes nothing below `n0`, keeps the
  region closed and returns an item of the region. -/

theorem spec_copyAt_rel {n0 : Nat} {h : Heap} (m : Mode) (fuel : Nat) {i : Item} (le : n0 ≤ h.next)
    (nc : NewClosed n0 h) (hi : ItemIn n0 h i) : Spec n0 h (copyAt m fuel h i) (ItemIn n0) := by
  cases m
  case alias => exact spec_pure nc hi
  case error => exact spec_fail
  case shallow =>
    cases i with
    | atom v => exact spec_pure nc (itemIn_atom _ _ _)
    | ref a =>
      have ra := hi a rfl
      exact spec_alloc _ le nc (items_of_closed nc ra.1 ra.2)
  case deep => exact spec_copyAt rfl fuel i le nc
  case rebuild => exact spec_copyAt rfl fuel i le nc

/-- what a (nested) converter satisfies on an input of the region, whatever it does at S2 -/
def ConvRel (f : Heap → Item → R Item) : Prop :=
  ∀ n0 h i, n0 ≤ h.next → NewClosed n0 h → ItemIn n0 h i → Spec n0 h (f h i) (ItemIn n0)

theorem ConvOk.rel {f : Heap → Item → R Item} (hf : ConvOk f) : ConvRel f :=
  fun n0 h i le nc _ => hf n0 h i le nc

def HCEntry.OkRel : HCEntry → Prop
  | .sub f => ConvRel f
  | .fn f _ => FnOk f
  | _ => True

def COkRel (m : HCMapping) : Prop := ∀ p, p ∈ m → p.2.OkRel

theorem spec_hSub_rel (A : Atoms) {n0 : Nat} {f : Heap → Item → R Item} (hf : ConvRel f) (k : String) (out : Item)
    (h : Heap) (content : Item) (le : n0 ≤ h.next) (nc : NewClosed n0 h) (ho : ItemIn n0 h out)
    (hct : ItemIn n0 h content) : Spec n0 h (hSub A f k out h content) (fun _ _ => True) := by
  simp only [hSub]
  cases isNoneItem A content with
  | true => exact spec_pure nc trivial
  | false =>
    simp only [Bool.false_eq_true, if_false]
    cases isListItem h content with
    | true =>
      simp only [if_true]
      cases content with
      | atom v => exact spec_pure nc trivial
      | ref a =>
        simp only
        have ra := hct a rfl
        refine spec_bind le (spec_mapItems (itemIn_mono' n0) (fun h i le nc hi => hf n0 h i le nc hi) _ h le nc
          (items_of_closed nc ra.1 ra.2)) ?_
        intro h1 its le1 m1 nc1 q1
        refine spec_bind le1 (spec_alloc _ le1 nc1 q1) ?_
        intro h2 l _ m2 nc2 q2
        exact spec_hSet nc2 (ho.mono (Nat.le_trans m1 m2)) q2
    | false =>
      simp only [Bool.false_eq_true, if_false]
      refine spec_bind le (hf n0 h content le nc hct) ?_
      intro h1 x _ m1 nc1 q1
      exact spec_hSet nc1 (ho.mono m1) q1

theorem spec_hStep1_rel (A : Atoms) {S : Sites} (hc : S.const.copies = true) (fuel : Nat) {n0 : Nat}
    (inp out : Item) (k : String) (e : HCEntry) (he : e.OkRel) (h : Heap) (le : n0 ≤ h.next) (nc : NewClosed n0 h)
    (ho : ItemIn n0 h out) (hi : ItemIn n0 h inp) :
    Spec n0 h (hStep1 A S fuel inp out k e h) (fun _ _ => True) := by
  cases e with
  | const c => exact spec_hStep1 A hc fuel inp out k (.const c) trivial h le nc ho
  | deleted => exact spec_pure nc trivial
  | move p => exact spec_pure nc trivial
  | fn f args => exact spec_hStep1 A hc fuel inp out k (.fn f args) he h le nc ho
  | sub f =>
    simp only [hStep1]
    cases ed : dictItems h inp with
    | none => exact spec_fail
    | some its =>
      simp only
      have hI := dictItems_in nc hi ed
      cases el : lookupItem k its with
      | none => exact spec_pure nc trivial
      | some content =>
        obtain ⟨k', hk'⟩ := lookupItem_mem its content el
        exact spec_hSub_rel A he k out h content le nc ho (hI _ hk')

theorem spec_hLoop_inv {n0 : Nat} {I : Heap → Prop} (mono : ∀ h h', h.next ≤ h'.next → I h → I h')
    {step : String → HCEntry → Heap → R Unit} :
    ∀ (m : HCMapping),
      (∀ p, p ∈ m → ∀ h, n0 ≤ h.next → NewClosed n0 h → I h → Spec n0 h (step p.1 p.2 h) (fun _ _ => True)) →
      ∀ h, n0 ≤ h.next → NewClosed n0 h → I h → Spec n0 h (hLoop step m h) (fun _ _ => True) := by
  intro m
  induction m with
  | nil => intro _ h _ nc _; exact spec_pure nc trivial
  | cons p rest ih =>
    intro hs h le nc hI
    obtain ⟨k, e⟩ := p
    simp only [hLoop]
    refine spec_bind le (hs (k, e) List.mem_cons_self h le nc hI) ?_
    intro h1 _ le1 m1 nc1 _
    exact ih (fun p hp => hs p (List.mem_cons_of_mem _ hp)) h1 le1 nc1 (mono _ _ m1 hI)

/-- `_convert` with resolved nested converters, ANY mode at S2, on an input of the region -/
theorem hConvShape_rel (A : Atoms) (S : Sites) (hc : S.const.copies = true) (fuel : Nat) {m : HCMapping}
    (hm : COkRel m) : ConvRel (hConvShape A S fuel m) := by
  intro n0 h inp le nc hi
  simp only [hConvShape]
  refine spec_bind le (spec_copyAt_rel S.step fuel le nc hi) ?_
  intro h1 out le1 m1 nc1 ho1
  have hi1 := hi.mono m1
  refine spec_bind le1 (spec_hLoop_inv (I := fun h => ItemIn n0 h out ∧ ItemIn n0 h inp)
    (fun _ _ le x => ⟨x.1.mono le, x.2.mono le⟩) m
    (fun p hp h le nc x => spec_hStep1_rel A hc fuel inp out p.1 p.2 (hm p hp) h le nc x.1 x.2)
    h1 le1 nc1 ⟨ho1, hi1⟩) ?_
  intro h2 _ le2 m2 nc2 _
  have ho2 := ho1.mono m2
  refine spec_bind le2 (spec_hLoop m (fun p _ h le nc ho => spec_hStep2 A fuel out p.1 p.2 h le nc ho)
    h2 le2 nc2 ho2) ?_
  intro h3 _ le3 m3 nc3 _
  have ho3 := ho2.mono m3
  refine spec_bind le3 (spec_hLoop m (fun p _ h _ nc ho => spec_hStep3 A out p.1 p.2 h nc ho)
    h3 le3 nc3 ho3) ?_
  intro h4 _ _ m4 nc4 _
  exact spec_pure nc4 (ho3.mono m4)

mutual
theorem compile_rel (A : Atoms) (S : Sites) (hc : S.const.copies = true) (fuel : Nat) :
    (e : HEntry) → e.FnsOk → (e.compile A S fuel).OkRel
  | .const _, _ => by simp only [HEntry.compile, HCEntry.OkRel]
  | .deleted, _ => by simp only [HEntry.compile, HCEntry.OkRel]
  | .move _, _ => by simp only [HEntry.compile, HCEntry.OkRel]
  | .fn f _, h => by
    simp only [HEntry.FnsOk] at h
    simp only [HEntry.compile, HCEntry.OkRel]; exact h
  | .sub m, h => by
    simp only [HEntry.FnsOk] at h
    simp only [HEntry.compile, HCEntry.OkRel]
    exact hConvShape_rel A S hc fuel (compileMap_rel A S hc fuel m h)
theorem compileMap_rel (A : Atoms) (S : Sites) (hc : S.const.copies = true) (fuel : Nat) :
    (m : List (String × HEntry)) → mapFnsOk m → COkRel (compileMap A S fuel m)
  | [], _ => by intro p hp; simp only [compileMap] at hp; exact nomatch hp
  | (k, e) :: r, h => by
    simp only [mapFnsOk] at h
    intro p hp
    simp only [compileMap] at hp
    cases hp with
    | head => exact compile_rel A S hc fuel e h.1
    | tail _ hp' => exact compileMap_rel A S hc fuel r h.2 p hp'
end

/-- `_convert`, any mapping (any nesting), ANY mode at S2: on an input that lies in the region `[n0, next)` it
    writes nothing below `n0`, keeps the region closed and returns an item of the region -/
theorem hConvert_rel (A : Atoms) (S : Sites) (hc : S.const.copies = true) (fuel : Nat) (m : HMapping)
    (hm : mapFnsOk m) : ConvRel (hConvert A S fuel m) :=
  hConvShape_rel A S hc fuel (compileMap_rel A S hc fuel m hm)

theorem spec_hRunSteps_rel (A : Atoms) (S : Sites) (hc : S.const.copies = true) (fuel : Nat) (ver : Nat → Int)
    {n0 : Nat} :
    ∀ (ms : List HMapping), (∀ m, m ∈ ms → mapFnsOk m) → ∀ (i : Nat) (h : Heap) (d : Item),
      n0 ≤ h.next → NewClosed n0 h → ItemIn n0 h d →
      Spec n0 h (hRunSteps A S fuel ver ms i h d) (ItemIn n0) := by
  intro ms
  induction ms with
  | nil => intro _ i h d _ nc hd; exact spec_pure nc hd
  | cons m rest ih =>
    intro hm i h d le nc hd
    simp only [hRunSteps]
    refine spec_bind le (hConvert_rel A S hc fuel m (hm m List.mem_cons_self) n0 h d le nc hd) ?_
    intro h1 d1 le1 _ nc1 q1
    refine spec_bind le1 (spec_hSet nc1 q1 (itemIn_atom _ _ _)) ?_
    intro h2 _ le2 m2 nc2 _
    exact ih (fun m' hm' => hm m' (List.mem_cons_of_mem _ hm')) (i + 1) h2 d1 le2 nc2 (q1.mono m2)

/-- `convert_dict` under the weak hypotheses (S1 and S3 copy; S2 arbitrary): the combined specification -/
theorem hConvertDict_ok_weak (A : Atoms) {S : Sites} (hd : S.doc.copies = true) (hc : S.const.copies = true)
    (fuel : Nat) (ver : Nat → Int) (ms : List HMapping) (hm : ∀ m, m ∈ ms → mapFnsOk m) :
    ConvOk (hConvertDict A S fuel ver ms) := by
  intro n0 h doc le nc
  simp only [hConvertDict]
  cases dictItems h doc with
  | none => exact spec_fail
  | some its =>
    simp only
    refine spec_bind le (spec_copyAt hd fuel doc le nc) ?_
    intro h1 d le1 _ nc1 q1
    exact spec_hRunSteps_rel A S hc fuel ver ms hm 0 h1 d le1 nc1 q1

/-- **C17 at heap level, `convert_dict`, weak hypotheses**: only `convert_dict`'s own deep copy (S1) and the
    copy of `Constant` values (S3) are needed — for EVERY mode at S2 (`deep`, `shallow`, `alias`, …) -/
theorem hConvertDict_intact_weak (A : Atoms) {S : Sites} (hd : S.doc.copies = true) (hc : S.const.copies = true)
    (fuel : Nat) (ver : Nat → Int) (ms : List HMapping) (hm : ∀ m, m ∈ ms → mapFnsOk m) :
    IntactFor (hConvertDict A S fuel ver ms) :=
  (hConvertDict_ok_weak A hd hc fuel ver ms hm).intact

theorem hConvertDict_frame_weak (A : Atoms) {S : Sites} (hd : S.doc.copies = true) (hc : S.const.copies = true)
    (fuel : Nat) (ver : Nat → Int) (ms : List HMapping) (hm : ∀ m, m ∈ ms → mapFnsOk m) (h : Heap) (doc : Item)
    (h' : Heap) (r : Option Item) (e : hConvertDict A S fuel ver ms h doc = (h', r)) : Frame h h' :=
  (hConvertDict_ok_weak A hd hc fuel ver ms hm).frameSpec h doc h' r e

theorem hConvertDict_fresh_weak (A : Atoms) {S : Sites} (hd : S.doc.copies = true) (hc : S.const.copies = true)
    (fuel : Nat) (ver : Nat → Int) (ms : List HMapping) (hm : ∀ m, m ∈ ms → mapFnsOk m) (h : Heap) (doc : Item)
    (h' : Heap) (res : Item) (e : hConvertDict A S fuel ver ms h doc = (h', some res)) :
    ItemIn h.next h' res ∧ NewClosed h.next h' := by
  have := (hConvertDict_ok_weak A hd hc fuel ver ms hm).freshSpec h.next h doc h' res (Nat.le_refl _)
    (newClosed_init h) e
  exact ⟨this.2, this.1⟩

theorem hConvertDict_disjoint_weak (A : Atoms) {S : Sites} (hd : S.doc.copies = true) (hc : S.const.copies = true)
    (fuel : Nat) (ver : Nat → Int) (ms : List HMapping) (hm : ∀ m, m ∈ ms → mapFnsOk m) (h : Heap) (doc : Item)
    (h' : Heap) (res : Item) (e : hConvertDict A S fuel ver ms h doc = (h', some res))
    (cb : ClosedBelow h.next h) (K : List Nat) (hK : ∀ r, r ∈ K → r < h.next) :
    ∀ b, Held h' (roots res) b → (h.next ≤ b ∧ b < h'.next) ∧ ¬ Held h' K b := by
  have fr := hConvertDict_frame_weak A hd hc fuel ver ms hm h doc h' _ e
  have fs := hConvertDict_fresh_weak A hd hc fuel ver ms hm h doc h' res e
  intro b hb
  exact ⟨sep_result_region fs.2 fs.1 b hb, sep_disjoint fr fs.2 fs.1 cb K hK b hb⟩

/-! ## `FnOk` is satisfiable by functions that really use their arguments -/

theorem fnIdent_ok (A : Atoms) : FnOk (fnIdent A) := by
  intro h args h' r e
  simp only [fnIdent, Prod.mk.injEq] at e
  obtain ⟨e1, e2⟩ := e
  subst e1 e2
  refine ⟨Frame.rfl' _, ?_⟩
  intro n0 _ nc ha i ei
  simp only [Option.some.injEq] at ei
  subst ei
  refine ⟨nc, ?_⟩
  cases args with
  | nil => exact itemIn_atom _ _ _
  | cons a _ => exact ha a List.mem_cons_self

theorem fnWrap_ok : FnOk fnWrap := by
  intro h args h' r e
  refine ⟨allocLike_frame _ _ _ _ _ e, ?_⟩
  intro n0 le nc ha i ei
  subst ei
  refine allocLike_fresh le nc "list" ?_ e
  intro p hp
  obtain ⟨q, hq, eq⟩ := mem_reindexFrom _ 0 p hp
  obtain ⟨a, hm, ea⟩ := List.mem_map.mp hq
  rw [← eq, ← ea]
  exact ha a hm

/-! ## T5: kernel-checked examples — the hypotheses are needed, and the theorems are not vacuous -/

theorem sameBelow_of_frame {h h' : Heap} (fr : Frame h h') : sameBelow h.next h h' = true := by
  simp only [sameBelow, List.all_eq_true, List.mem_range, beq_iff_eq]
  intro a ha
  exact (fr.2 a ha).symm

def exAtoms : Atoms :=
  { none := 0, isNone := fun v => v == 0, truthyA := fun v => v != 0, delRaises := fun _ _ _ => true }

def allDeep : Sites := { doc := .deep, step := .deep, const := .deep }

/-- cell 0: the caller's document `{"version": 1, "subs": [{"x": 4}, {"x": 5}], "name": 3}` (cells 1–3);
    cell 4: the list `[9, {"z": 1}]` held by a `Constant` of the mapping (cell 5 its inner dict) -/
def exHeap : Heap := Heap.ofList [
  ⟨"dict", [("version", .atom 1), ("subs", .ref 1), ("name", .atom 3)]⟩,
  ⟨"list", [("0", .ref 2), ("1", .ref 3)]⟩,
  ⟨"dict", [("x", .atom 4)]⟩,
  ⟨"dict", [("x", .atom 5)]⟩,
  ⟨"list", [("0", .atom 9), ("1", .ref 5)]⟩,
  ⟨"dict", [("z", .atom 1)]⟩]

def exOld : List Nat := [0, 1, 2, 3, 4, 5]

/-- `{"subs._mapper": {"y": "x", "x": Deleted, "c": Constant(<cell 5>)}, "title": "name",
      "tags": Constant(<cell 4>), "w": FunctionCall(wrap, ["subs", "name"]), "n": FunctionCall(ident, ["subs"]),
      "name": Deleted, "ys": "subs.y"}` — a nested mapper over a list of sub-documents, moves (one of them
    crossing a list), Constants holding containers, functions receiving references into the working copy -/
def exMapping : HMapping :=
  [("subs", .sub [("y", .move ["x"]), ("x", .deleted), ("c", .const (.ref 5))]),
   ("title", .move ["name"]),
   ("tags", .const (.ref 4)),
   ("w", .fn fnWrap ["subs", "name"]),
   ("n", .fn (fnIdent exAtoms) ["subs"]),
   ("name", .deleted),
   ("ys", .move ["subs", "y"])]

theorem exMapping_fnsOk : mapFnsOk exMapping := by
  simp only [exMapping, mapFnsOk, HEntry.FnsOk, and_true, true_and]
  exact ⟨fnWrap_ok, fnIdent_ok _⟩

def exRun (S : Sites) : R Item := hConvertDict exAtoms S 9 (fun i => 2 + i) [exMapping] exHeap (.ref 0)

def resOf (r : R Item) : Item := r.2.getD (.atom 0)

/-- **positive, non-vacuous**: all three sites deep — the call succeeds, builds 17 new cells, every old cell
    (document, Constant values) is unchanged and the result shares no cell with any old address -/
theorem example_all_deep :
    (exRun allDeep).2.isSome = true ∧ (exRun allDeep).1.next = 23 ∧
    sameBelow exHeap.next exHeap (exRun allDeep).1 = true ∧
    sharedPaths 8 (exRun allDeep).1 exOld [] (resOf (exRun allDeep)) = [] ∧
    (reachList 8 (exRun allDeep).1 (resOf (exRun allDeep))).all (fun a => decide (6 ≤ a)) = true ∧
    (observeN 3 (exRun allDeep).1 (resOf (exRun allDeep))).beq
      (.node "dict" [("version", .atom 2),
        ("subs", .node "list" [("0", .node "dict" [("c", .cut), ("y", .atom 4)]),
                               ("1", .node "dict" [("c", .cut), ("y", .atom 5)])]),
        ("tags", .node "list" [("0", .atom 9), ("1", .node "dict" [("z", .atom 1)])]),
        ("w", .node "list" [("0", .node "list" [("0", .cut), ("1", .cut)]), ("1", .atom 3)]),
        ("n", .node "list" [("0", .node "dict" [("c", .cut), ("y", .atom 4)]),
                            ("1", .node "dict" [("c", .cut), ("y", .atom 5)])]),
        ("title", .atom 3),
        ("ys", .node "list" [("0", .atom 4), ("1", .atom 5)])]) = true := by
  decide +kernel

/-- **S2 is needed**: without the `copy.deepcopy` in `_convert`, a `Constant` / `Deleted` mapping writes into
    the caller's document cell (cell 0) -/
theorem step_alias_writes_input :
    sameBelow exHeap.next exHeap
      (hConvert exAtoms { allDeep with step := .alias } 9 [("k", .const (.atom 7)), ("name", .deleted)]
        exHeap (.ref 0)).1 = false := by
  decide +kernel

theorem step_alias_breaks_frame :
    ¬ Frame exHeap (hConvert exAtoms { allDeep with step := .alias } 9
        [("k", .const (.atom 7)), ("name", .deleted)] exHeap (.ref 0)).1 := by
  intro fr
  have := sameBelow_of_frame fr
  rw [step_alias_writes_input] at this
  exact absurd this (by decide)

/-- … and so does `convert_dict` when neither it nor `_convert` copies -/
theorem doc_step_alias_writes_input :
    sameBelow exHeap.next exHeap (exRun { allDeep with doc := .alias, step := .alias }).1 = false := by
  decide +kernel

/-- **S1 is needed**: without the `copy.deepcopy` in `convert_dict`, a document that is already at the latest
    version (no mapping left to apply) is handed back as is -/
theorem doc_alias_returns_input :
    hConvertDict exAtoms { allDeep with doc := .alias } 9 (fun i => 2 + i) [] exHeap (.ref 0) =
      (exHeap, some (.ref 0)) := rfl

/-- **S3 is needed**: without the `copy.deepcopy` around `v()`, the result holds the `Constant`'s own list
    (cell 4) and dict (cell 5) -/
theorem const_alias_shares_constant :
    sharedPaths 8 (exRun { allDeep with const := .alias }).1 exOld [] (resOf (exRun { allDeep with const := .alias }))
      = [["subs", "0", "c"], ["subs", "1", "c"], ["tags"], ["tags", "1"],
         ["w", "0", "0", "c"], ["w", "0", "1", "c"], ["n", "0", "c"], ["n", "1", "c"]] ∧
    sameBelow exHeap.next exHeap (exRun { allDeep with const := .alias }).1 = true := by
  decide +kernel

theorem const_alias_result_reaches_constant :
    ∃ res, (exRun { allDeep with const := .alias }).2 = some res ∧
      Held (exRun { allDeep with const := .alias }).1 (roots res) 4 ∧ 4 < exHeap.next := by
  refine ⟨.ref 13, by decide +kernel, ⟨13, by simp [roots], Reach.step (Reach.refl 13) ?_⟩, by decide⟩
  decide +kernel

/-- a later `_convert` step un-shares again (its `deepcopy` copies the aliased Constant too): the sharing
    through S3 is visible only in the LAST step's constants -/
theorem const_alias_then_another_step :
    sharedPaths 8 (hConvertDict exAtoms { allDeep with const := .alias } 9 (fun i => 2 + i) [exMapping, []]
        exHeap (.ref 0)).1 exOld []
      (resOf (hConvertDict exAtoms { allDeep with const := .alias } 9 (fun i => 2 + i) [exMapping, []]
        exHeap (.ref 0))) = [] := by
  decide +kernel

/-- **`FnOk` is needed**: a function that returns a global object puts that object into the result -/
theorem global_fn_shares :
    sharedPaths 8 (hConvertDict exAtoms allDeep 9 (fun i => 2 + i) [[("g", .fn (fnGlobal 4) [])]] exHeap (.ref 0)).1
      exOld []
      (resOf (hConvertDict exAtoms allDeep 9 (fun i => 2 + i) [[("g", .fn (fnGlobal 4) [])]] exHeap (.ref 0)))
      = [["g"], ["g", "1"]] := by
  decide +kernel

/-- the general theorems apply to the example (all hypotheses are dischargeable) -/
theorem example_all_deep_by_theorem :
    Frame exHeap (exRun allDeep).1 ∧
    ∀ res, (exRun allDeep).2 = some res → ItemIn exHeap.next (exRun allDeep).1 res ∧ NewClosed exHeap.next (exRun allDeep).1 := by
  have hS : allDeep.AllCopy := ⟨rfl, rfl, rfl⟩
  have hm : ∀ m, m ∈ [exMapping] → mapFnsOk m := by
    intro m hmem
    simp only [List.mem_singleton] at hmem
    subst hmem
    exact exMapping_fnsOk
  refine ⟨hConvertDict_frame exAtoms hS 9 (fun i => 2 + i) [exMapping] hm exHeap (.ref 0) (exRun allDeep).1
    (exRun allDeep).2 rfl, ?_⟩
  intro res e
  exact hConvertDict_fresh exAtoms hS 9 (fun i => 2 + i) [exMapping] hm exHeap (.ref 0) (exRun allDeep).1 res
    (by rw [← e]; rfl)

/-- **S2 is NOT needed for `convert_dict`**: with no copy at all / a shallow copy in `_convert` (S1 and S3
    deep) the run on the example still succeeds, leaves every old cell unchanged and shares nothing old -/
theorem step_alias_or_shallow_still_intact :
    (exRun { allDeep with step := .alias }).2.isSome = true ∧
    sameBelow exHeap.next exHeap (exRun { allDeep with step := .alias }).1 = true ∧
    sharedPaths 8 (exRun { allDeep with step := .alias }).1 exOld [] (resOf (exRun { allDeep with step := .alias })) = [] ∧
    (exRun { allDeep with step := .shallow }).2.isSome = true ∧
    sameBelow exHeap.next exHeap (exRun { allDeep with step := .shallow }).1 = true ∧
    sharedPaths 8 (exRun { allDeep with step := .shallow }).1 exOld [] (resOf (exRun { allDeep with step := .shallow })) = [] ∧
    (observeN 6 (exRun { allDeep with step := .alias }).1 (resOf (exRun { allDeep with step := .alias }))).beq
      (observeN 6 (exRun allDeep).1 (resOf (exRun allDeep))) = true ∧
    (observeN 6 (exRun { allDeep with step := .shallow }).1 (resOf (exRun { allDeep with step := .shallow }))).beq
      (observeN 6 (exRun allDeep).1 (resOf (exRun allDeep))) = true := by
  decide +kernel

theorem example_step_alias_by_theorem : IntactFor (hConvertDict exAtoms { allDeep with step := .alias } 9
    (fun i => 2 + i) [exMapping]) :=
  hConvertDict_intact_weak exAtoms rfl rfl 9 _ [exMapping]
    (by intro m hmem; simp only [List.mem_singleton] at hmem; subst hmem; exact exMapping_fnsOk)

end Typedpy.AliasC17
