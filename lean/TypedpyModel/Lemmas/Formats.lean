/-
  Lemmas/Formats.lean — the executable format functions of Core/Formats.lean accept exactly the declaratively
  stated languages: a string is accepted iff it IS the dot-join of components each of which is an octet (IPV4) /
  an RFC 1123 label (HostName, with the bounds on the whole name).
-/
import TypedpyModel.Core.Formats
namespace Typedpy

/-! ### splitting and joining at dots are inverse to each other -/

theorem c02_splitDots_ne_nil (s : List Char) : splitDots s ≠ [] := by
  cases s with
  | nil => simp [splitDots]
  | cons c cs =>
    simp only [splitDots]
    split
    · simp
    · cases splitDots cs <;> simp [consHead]

theorem c02_joinDots_cons_head (c : Char) (q : List Char) (qs : List (List Char)) :
    joinDots ((c :: q) :: qs) = c :: joinDots (q :: qs) := by
  cases qs <;> simp [joinDots]

theorem c02_joinDots_splitDots (s : List Char) : joinDots (splitDots s) = s := by
  induction s with
  | nil => simp [splitDots, joinDots]
  | cons c cs ih =>
    simp only [splitDots]
    cases h : splitDots cs with
    | nil => exact absurd h (c02_splitDots_ne_nil cs)
    | cons q qs =>
      rw [h] at ih
      split
      · next hc => simp [joinDots, ih, hc]
      · simp [consHead, c02_joinDots_cons_head, ih]

theorem c02_splitDots_nodot (p : List Char) (h : '.' ∉ p) : splitDots p = [p] := by
  induction p with
  | nil => simp [splitDots]
  | cons c p ih =>
    have hc : c ≠ '.' := fun e => h (by simp [e])
    have hp : '.' ∉ p := fun e => h (by simp [e])
    simp [splitDots, hc, ih hp, consHead]

theorem c02_splitDots_append (p r : List Char) (h : '.' ∉ p) :
    splitDots (p ++ '.' :: r) = p :: splitDots r := by
  induction p with
  | nil => simp [splitDots]
  | cons c p ih =>
    have hc : c ≠ '.' := fun e => h (by simp [e])
    have hp : '.' ∉ p := fun e => h (by simp [e])
    simp [splitDots, hc, ih hp, consHead]

theorem c02_splitDots_joinDots : ∀ (ps : List (List Char)), ps ≠ [] → (∀ p ∈ ps, '.' ∉ p) →
    splitDots (joinDots ps) = ps
  | [], h, _ => absurd rfl h
  | [p], _, h => by simpa [joinDots] using c02_splitDots_nodot p (h p (by simp))
  | p :: q :: ps, _, h => by
    simp only [joinDots]
    rw [c02_splitDots_append p _ (h p (by simp))]
    rw [c02_splitDots_joinDots (q :: ps) (by simp) (fun x hx => h x (by simp [hx]))]

/-! ### IPV4 -/

/-- one component of a dotted quad: 1..3 ASCII decimal digits denoting a number 0..255 -/
def Octet (p : List Char) : Prop :=
  1 ≤ p.length ∧ p.length ≤ 3 ∧ (∀ c ∈ p, isAsciiDigit c = true) ∧ decVal p ≤ 255

/-- the documented language of IPV4: four octets joined by single dots, nothing else -/
def IsIPv4 (s : String) : Prop :=
  ∃ a b c d, s.toList = joinDots [a, b, c, d] ∧ Octet a ∧ Octet b ∧ Octet c ∧ Octet d

theorem c02_octetOk_iff (p : List Char) : octetOk p = true ↔ Octet p := by
  simp [octetOk, Octet, List.all_eq_true, and_assoc]

theorem c02_octet_nodot (p : List Char) (h : Octet p) : '.' ∉ p := by
  intro hm
  have := h.2.2.1 '.' hm
  revert this; decide

theorem ipv4Ok_iff (s : String) : ipv4Ok s = true ↔ IsIPv4 s := by
  constructor
  · intro h
    unfold ipv4Ok ipv4OkL at h
    split at h
    · next a b c d heq =>
      simp only [Bool.and_eq_true, c02_octetOk_iff] at h
      refine ⟨a, b, c, d, ?_, h.1.1.1, h.1.1.2, h.1.2, h.2⟩
      rw [← heq, c02_joinDots_splitDots]
    · cases h
  · rintro ⟨a, b, c, d, hs, ha, hb, hc, hd⟩
    unfold ipv4Ok ipv4OkL
    rw [hs, c02_splitDots_joinDots _ (by simp)]
    · simp [(c02_octetOk_iff a).2 ha, (c02_octetOk_iff b).2 hb, (c02_octetOk_iff c).2 hc,
        (c02_octetOk_iff d).2 hd]
    · intro p hp
      simp only [List.mem_cons, List.not_mem_nil, or_false] at hp
      rcases hp with rfl | rfl | rfl | rfl
      · exact c02_octet_nodot _ ha
      · exact c02_octet_nodot _ hb
      · exact c02_octet_nodot _ hc
      · exact c02_octet_nodot _ hd

/-! ### HostName -/

/-- RFC 1123 label: 1..63 ASCII letters / digits / hyphens, no hyphen at either end -/
def Label (p : List Char) : Prop :=
  1 ≤ p.length ∧ p.length ≤ 63 ∧ (∀ c ∈ p, isAsciiAlnum c = true ∨ c = '-')
    ∧ p.head? ≠ some '-' ∧ p.getLast? ≠ some '-'

/-- the documented language of HostName: labels joined by single dots, 2..253 characters in all -/
def IsHostName (s : String) : Prop :=
  2 ≤ s.toList.length ∧ s.toList.length ≤ 253
    ∧ ∃ labels, labels ≠ [] ∧ s.toList = joinDots labels ∧ ∀ p ∈ labels, Label p

theorem c02_labelOk_iff (p : List Char) : labelOk p = true ↔ Label p := by
  simp [labelOk, Label, List.all_eq_true, and_assoc]

theorem c02_label_nodot (p : List Char) (h : Label p) : '.' ∉ p := by
  intro hm
  rcases h.2.2.1 '.' hm with h1 | h1
  · revert h1; decide
  · revert h1; decide

theorem hostNameOk_iff (s : String) : hostNameOk s = true ↔ IsHostName s := by
  unfold hostNameOk hostNameOkL IsHostName
  simp only [Bool.and_eq_true, decide_eq_true_eq, List.all_eq_true, c02_labelOk_iff, and_assoc]
  constructor
  · rintro ⟨h1, h2, h3⟩
    exact ⟨h1, h2, splitDots s.toList, c02_splitDots_ne_nil _, (c02_joinDots_splitDots _).symm, h3⟩
  · rintro ⟨h1, h2, labels, hne, hs, hl⟩
    refine ⟨h1, h2, ?_⟩
    rw [hs, c02_splitDots_joinDots labels hne (fun p hp => c02_label_nodot p (hl p hp))]
    exact hl

/-! ### what the languages exclude -/

/-- every character of a documented IPv4 address is an ASCII digit or a dot - in particular no newline, no other digit -/
theorem IsIPv4.chars (s : String) (h : IsIPv4 s) : ∀ c ∈ s.toList, isAsciiDigit c = true ∨ c = '.' := by
  rcases h with ⟨a, b, c, d, hs, ha, hb, hc, hd⟩
  intro x hx
  rw [hs] at hx
  simp only [joinDots, List.mem_append, List.mem_cons] at hx
  rcases hx with h1 | rfl | h1 | rfl | h1 | rfl | h1
  · exact Or.inl (ha.2.2.1 x h1)
  · exact Or.inr rfl
  · exact Or.inl (hb.2.2.1 x h1)
  · exact Or.inr rfl
  · exact Or.inl (hc.2.2.1 x h1)
  · exact Or.inr rfl
  · exact Or.inl (hd.2.2.1 x h1)

/-- … and it has 7..15 characters -/
theorem IsIPv4.length (s : String) (h : IsIPv4 s) : 7 ≤ s.toList.length ∧ s.toList.length ≤ 15 := by
  rcases h with ⟨a, b, c, d, hs, ha, hb, hc, hd⟩
  rw [hs]
  simp only [joinDots, List.length_append, List.length_cons]
  have := ha.1; have := ha.2.1; have := hb.1; have := hb.2.1; have := hc.1; have := hc.2.1; have := hd.1; have := hd.2.1
  omega

theorem c02_mem_joinDots : ∀ (ps : List (List Char)) (x : Char), x ∈ joinDots ps → x = '.' ∨ ∃ p ∈ ps, x ∈ p
  | [], x, h => by simp [joinDots] at h
  | [p], x, h => Or.inr ⟨p, by simp, by simpa [joinDots] using h⟩
  | p :: q :: ps, x, h => by
    simp only [joinDots, List.mem_append, List.mem_cons] at h
    rcases h with h1 | rfl | h1
    · exact Or.inr ⟨p, by simp, h1⟩
    · exact Or.inl rfl
    · rcases c02_mem_joinDots (q :: ps) x h1 with h2 | ⟨r, hr, hx⟩
      · exact Or.inl h2
      · exact Or.inr ⟨r, by simp [List.mem_cons] at hr ⊢; exact Or.inr hr, hx⟩

/-- every character of a documented host name is an ASCII letter, an ASCII digit, a hyphen or a dot -/
theorem IsHostName.chars (s : String) (h : IsHostName s) :
    ∀ c ∈ s.toList, isAsciiAlnum c = true ∨ c = '-' ∨ c = '.' := by
  rcases h with ⟨_, _, labels, _, hs, hl⟩
  intro x hx
  rw [hs] at hx
  rcases c02_mem_joinDots labels x hx with rfl | ⟨p, hp, hxp⟩
  · exact Or.inr (Or.inr rfl)
  · rcases (hl p hp).2.2.1 x hxp with h1 | h1
    · exact Or.inl h1
    · exact Or.inr (Or.inl h1)

end Typedpy
