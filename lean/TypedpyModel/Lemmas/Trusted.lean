/-
  Lemmas/Trusted.lean — the induction behind C10's `trusted_equiv_partial`: on the proved region
  (`tsafeCls`, `plainDoc`) the trusted branch builds, field by field, the instance the regular
  path builds (up to attributes holding None and set vs frozenset), and both serialize alike.
-/
import TypedpyModel.Spec.TrustedSafe
import TypedpyModel.Lemmas.Sound
import TypedpyModel.Lemmas.EqLemmas
namespace Typedpy
open PyVal (pyEq pyMem pyNodup)

/-! ### building a set twice -/

theorem pyNodup_filter (p : PyVal → Bool) : ∀ l : List PyVal, pyNodup l = true → pyNodup (l.filter p) = true
  | [], _ => rfl
  | x :: l, h => by
    simp only [pyNodup, and_true_iff, Bool.not_eq_true', pyMem] at h
    simp only [List.filter]
    cases hp : p x
    · exact pyNodup_filter p l h.2
    · simp only [pyNodup, and_true_iff, Bool.not_eq_true', pyMem]
      refine ⟨?_, pyNodup_filter p l h.2⟩
      have := h.1
      simp only [List.any_eq_false, List.mem_filter] at this ⊢
      intro y hy; exact this y hy.1

theorem pyNodup_dedup : ∀ xs : List PyVal, pyNodup (dedup xs) = true
  | [] => rfl
  | x :: xs => by
    simp only [dedup, pyNodup, and_true_iff, Bool.not_eq_true', pyMem]
    refine ⟨?_, pyNodup_filter _ _ (pyNodup_dedup xs)⟩
    simp only [List.any_eq_false, List.mem_filter]
    intro y hy
    have := hy.2
    simpa using this

theorem dedup_of_nodup : ∀ l : List PyVal, pyNodup l = true → dedup l = l
  | [], _ => rfl
  | x :: l, h => by
    simp only [pyNodup, and_true_iff, Bool.not_eq_true', pyMem] at h
    simp only [dedup, dedup_of_nodup l h.2]
    congr 1
    apply List.filter_eq_self.mpr
    intro y hy
    have := h.1
    simp only [List.any_eq_false] at this
    simp [this y hy]

theorem dedup_idem (xs : List PyVal) : dedup (dedup xs) = dedup xs :=
  dedup_of_nodup _ (pyNodup_dedup xs)

theorem mem_of_mem_dedup : ∀ (xs : List PyVal) (y : PyVal), y ∈ dedup xs → y ∈ xs
  | [], _, h => by simp [dedup] at h
  | x :: xs, y, h => by
    simp only [dedup, List.mem_cons, List.mem_filter] at h
    rcases h with h | h
    · simp [h]
    · exact List.mem_cons_of_mem _ (mem_of_mem_dedup xs y h.1)

/-! ### mapE helpers -/

theorem mapE_id_of {g : PyVal → R PyVal} : ∀ (xs ys : List PyVal),
    (∀ x ∈ xs, ∀ y, g x = .ok y → y = x) → mapE g xs = .ok ys → ys = xs
  | [], ys, _, h => by simp only [mapE] at h; cases h; rfl
  | x :: xs, ys, hg, h => by
    simp only [mapE] at h
    rcases bindE_eq_ok h with ⟨y, h1, h2⟩
    rcases bindE_eq_ok h2 with ⟨ys', h3, h4⟩
    cases h4
    rw [hg x (by simp) y h1, mapE_id_of xs ys' (fun z hz => hg z (by simp [hz])) h3]

theorem mapE_congr {α β} {g g' : α → R β} : ∀ xs : List α, (∀ x ∈ xs, g x = g' x) → mapE g xs = mapE g' xs
  | [], _ => rfl
  | x :: xs, h => by
    simp only [mapE, h x (by simp), mapE_congr xs (fun y hy => h y (by simp [hy]))]

theorem toValueErr_eq_ok {α} {r : R α} {x : α} (h : toValueErr r = .ok x) : r = .ok x := by
  unfold toValueErr at h
  split at h <;> first | exact h | cases h

/-! ### scalars are stored as they are by both paths -/

theorem ite_ok_id {c : Prop} [Decidable c] {e : ErrCls} {x u : PyVal}
    (h : (if c then (Except.ok x : R PyVal) else .error e) = .ok u) : u = x := by
  split at h <;> first | (cases h; rfl) | cases h

theorem vInteger_ok_id (o : NumOpts) (x u : PyVal) (h : vInteger o x = .ok u) : u = x := by
  cases x <;> simp only [vInteger] at h <;> first | exact ite_ok_id h | cases h

theorem vNumber_ok_id (o : NumOpts) (x u : PyVal) (h : vNumber o x = .ok u) : u = x := by
  unfold vNumber at h
  split at h
  · cases h
  · exact ite_ok_id h

theorem isArrScalar_not_ref (f : FieldDecl) (h : isArrScalar f = true) :
    isClassRef f = false ∧ isEnumDecl f = false := by
  cases f <;> simp [isArrScalar] at h <;> exact ⟨rfl, rfl⟩

theorem deser_scalar_id (O : Oracles) (opts : DeserOpts) (ign : Bool) (f : FieldDecl) (x w : PyVal)
    (hf : isArrScalar f = true ∨ isRawScalar f = true) (h : deser O opts ign f x = .ok w) : w = x := by
  have aux : ∀ (chk : R PyVal), (if x.isNone && ign then Except.ok x else dValidated chk x) = .ok w → w = x := by
    intro chk h
    split at h
    · cases h; rfl
    · unfold dValidated at h; split at h <;> first | (cases h; rfl) | cases h
  cases f <;> simp [isArrScalar, isRawScalar] at hf <;> simp only [deser] at h
  all_goals first
    | exact aux _ h
    | (split at h <;> first | (cases h; rfl) | cases h)

theorem validate_scalar_id (O : Oracles) (opts : DeserOpts) (f : FieldDecl) (x u : PyVal)
    (hf : isArrScalar f = true ∨ isRawScalar f = true) (hp : plainV opts f x = true)
    (h : validate O f x = .ok u) : u = x := by
  cases f <;> simp [isArrScalar, isRawScalar] at hf <;> simp only [validate] at h
  · exact vNumber_ok_id _ _ _ h
  · exact vInteger_ok_id _ _ _ h
  · -- float
    simp only [plainV] at hp
    unfold vFloat at h
    split at h
    · simp [isIntV] at hp
    · split at h <;> first | (cases h; rfl) | cases h
    · cases h
  · -- string
    unfold vString at h
    split at h
    · split at h
      · cases h
      · split at h
        · cases h
        · unfold vPattern at h
          split at h
          · cases h; rfl
          · split at h <;> first | (cases h; rfl) | cases h
    · cases h
  · -- boolean
    simp only [plainV] at hp
    unfold vBoolean at h
    split at h
    · cases h; rfl
    · simp [isStrV] at hp
    · cases h
  · -- enumLit
    unfold vEnumLit at h
    split at h <;> first | (cases h; rfl) | cases h
  · -- noneF
    unfold vNone at h
    split at h <;> first | (cases h; rfl) | cases h

theorem tnorm_isNone (v : PyVal) : (tnorm v).isNone = v.isNone := by
  cases v <;> simp [tnorm, PyVal.isNone]

theorem isNone_of_tnorm_eq {a b : PyVal} (h : tnorm a = tnorm b) : a.isNone = b.isNone := by
  rw [← tnorm_isNone a, ← tnorm_isNone b, h]

/-! ### `construct_fields_map` read back by field name -/

theorem deserFields_spec (O : Oracles) (opts : DeserOpts) (c : ClassOpts) (doc : List (String × PyVal)) :
    ∀ (fields : List (String × FieldDecl)) (args : List (String × PyVal)),
      deserFields O opts c doc fields false = .ok args →
      (∀ a ∈ args, (fields.map (·.1)).contains a.1 = true)
      ∧ (∀ n, (∀ v, lookup n doc = some v → v.isNone = true) → lookup n args = none)
      ∧ (∀ n f v, lookup n fields = some f → lookup n doc = some v → v.isNone = false →
            ∃ y, deser O opts c.ignoreNone f v = .ok y ∧ lookup n args = some y)
  | [], args, h => by
    simp [deserFields] at h
    subst h
    exact ⟨by simp, fun _ _ => rfl, fun n f v hl => by simp [lookup] at hl⟩
  | (name, g) :: rest, args, h => by
    simp only [deserFields] at h
    cases hd : lookup name doc with
    | none =>
      simp only [hd] at h
      rcases deserFields_spec O opts c doc rest args h with ⟨h1, h2, h3⟩
      refine ⟨fun a ha => ?_, h2, fun n f v hl hdv hnn => ?_⟩
      · have := h1 a ha
        simp only [List.map_cons, List.contains_cons, Bool.or_eq_true]
        exact Or.inr this
      · simp only [lookup] at hl
        by_cases hk : (n == name) = true
        · have : n = name := by simpa using hk
          subst this; rw [hd] at hdv; cases hdv
        · simp only [hk, Bool.false_eq_true, if_false] at hl
          exact h3 n f v hl hdv hnn
    | some v0 =>
      simp only [hd] at h
      by_cases hn0 : v0.isNone = true
      · simp only [hn0, if_true] at h
        rcases deserFields_spec O opts c doc rest args h with ⟨h1, h2, h3⟩
        refine ⟨fun a ha => ?_, h2, fun n f v hl hdv hnn => ?_⟩
        · have := h1 a ha
          simp only [List.map_cons, List.contains_cons, Bool.or_eq_true]
          exact Or.inr this
        · simp only [lookup] at hl
          by_cases hk : (n == name) = true
          · have : n = name := by simpa using hk
            subst this; rw [hd] at hdv; cases hdv; rw [hn0] at hnn; cases hnn
          · simp only [hk, Bool.false_eq_true, if_false] at hl
            exact h3 n f v hl hdv hnn
      · have hn0' : v0.isNone = false := by simpa using hn0
        simp only [hn0', Bool.false_eq_true, if_false] at h
        cases hy : deser O opts c.ignoreNone g v0 with
        | error e => simp [hy] at h
        | ok y =>
          simp only [hy] at h
          rcases bindE_eq_ok h with ⟨ys, hr, hc⟩
          cases hc
          rcases deserFields_spec O opts c doc rest ys hr with ⟨h1, h2, h3⟩
          refine ⟨fun a ha => ?_, fun n hnone => ?_, fun n f v hl hdv hnn => ?_⟩
          · simp only [List.mem_cons] at ha
            simp only [List.map_cons, List.contains_cons, Bool.or_eq_true]
            rcases ha with ha | ha
            · left; subst ha; simp
            · exact Or.inr (h1 a ha)
          · simp only [lookup]
            by_cases hk : (n == name) = true
            · have : n = name := by simpa using hk
              subst this
              have := hnone v0 hd
              rw [hn0'] at this; cases this
            · simp only [hk, Bool.false_eq_true, if_false]
              exact h2 n hnone
          · simp only [lookup] at hl ⊢
            by_cases hk : (n == name) = true
            · have : n = name := by simpa using hk
              subst this
              simp only [hk, if_true, Option.some.injEq] at hl ⊢
              subst hl
              rw [hd] at hdv; cases hdv
              exact ⟨y, hy, rfl⟩
            · simp only [hk, Bool.false_eq_true, if_false] at hl ⊢
              exact h3 n f v hl hdv hnn


/-! ### one step of the field loop -/

section
variable (O : Oracles) (opts : DeserOpts)


/-- serializer of one attribute, as `ser` of a class applies it -/
abbrev serAttr (fields : List (String × FieldDecl)) : String × PyVal → R (PyVal × PyVal) :=
  fun a => bindE (serField O fields a.1 a.2) fun j => .ok (PyVal.str a.1, j)

def nonNoneAttrs (attrs : List (String × PyVal)) : List (String × PyVal) :=
  attrs.filter (fun a => !a.2.isNone)

theorem serField_lookup' (k : String) (v : PyVal) (f : FieldDecl) :
    ∀ fields : List (String × FieldDecl), lookup k fields = some f → serField O fields k v = ser O f v
  | [], h => by simp [lookup] at h
  | (n, g) :: rest, h => by
    simp only [lookup] at h
    simp only [serField]
    by_cases hk : (k == n) = true
    · simp only [hk, if_true, Option.some.injEq] at h
      simp only [hk, if_true, h]
    · simp only [hk, Bool.false_eq_true, if_false] at h ⊢
      exact serField_lookup' k v f rest h

theorem argFor_none_of (c : ClassOpts) (defaults args : List (String × PyVal)) (n : String)
    (h1 : lookup n args = none) (h2 : noDefault defaults n = true) : argFor c defaults args n = none := by
  unfold argFor
  rw [h1]
  unfold noDefault at h2
  cases hd : lookup n defaults with
  | none => rfl
  | some d => simp only [hd] at h2; simp [h2]

theorem argFor_some_of (c : ClassOpts) (defaults args : List (String × PyVal)) (n : String) (y : PyVal)
    (h1 : lookup n args = some y) (h2 : y.isNone = false) : argFor c defaults args n = some y := by
  unfold argFor
  rw [h1]
  simp [h2]

/-- one step of the field loop, given the field-level equivalence for the head and the
    induction hypothesis for the tail -/
theorem tfields_cons (c : ClassOpts) (fields : List (String × FieldDecl))
    (defaults doc args : List (String × PyVal)) (raw : Bool)
    (n : String) (f : FieldDecl) (rest : List (String × FieldDecl)) (attrs : List (String × PyVal))
    (hplain : (match lookup n doc with
                | none => noDefault defaults n
                | some v => if v.isNone then noDefault defaults n else plainV opts f v) = true)
    (hlk : lookup n fields = some f)
    (hA1 : ∀ n, (∀ v, lookup n doc = some v → v.isNone = true) → lookup n args = none)
    (hA2 : ∀ n f v, lookup n fields = some f → lookup n doc = some v → v.isNone = false →
            ∃ y, deser O opts c.ignoreNone f v = .ok y ∧ lookup n args = some y)
    (hraw : raw = true → ∀ v, tVal noMappers true f v = .ok v)
    (hnn : ∀ v y, plainV opts f v = true → v.isNone = false →
            deser O opts c.ignoreNone f v = .ok y → y.isNone = false)
    (hfield : ∀ v y u, plainV opts f v = true → v.isNone = false →
            deser O opts c.ignoreNone f v = .ok y → validate O f y = .ok u →
            u.isNone = false ∧ ∃ v' u', enumPre f v = .ok v' ∧ tVal noMappers true f v' = .ok u'
              ∧ tnorm u' = tnorm u ∧ ser O f u' = ser O f u)
    (hIH : ∀ attrs_r, validateFields O c defaults args rest = .ok attrs_r →
            ∃ attrs_r', tFields noMappers raw c.ignoreNone doc rest = .ok attrs_r'
              ∧ tnormAttrs attrs_r' = tnormAttrs attrs_r
              ∧ mapE (serAttr O fields) (nonNoneAttrs attrs_r') = mapE (serAttr O fields) (nonNoneAttrs attrs_r))
    (hv : validateFields O c defaults args ((n, f) :: rest) = .ok attrs) :
    ∃ attrs', tFields noMappers raw c.ignoreNone doc ((n, f) :: rest) = .ok attrs'
      ∧ tnormAttrs attrs' = tnormAttrs attrs
      ∧ mapE (serAttr O fields) (nonNoneAttrs attrs') = mapE (serAttr O fields) (nonNoneAttrs attrs) := by
  simp only [validateFields] at hv
  simp only [tFields]
  cases hd : lookup n doc with
  | none =>
    simp only [hd] at hplain
    have hnone : lookup n args = none := hA1 n (fun v hv' => by rw [hd] at hv'; cases hv')
    rw [argFor_none_of c defaults args n hnone hplain] at hv
    exact hIH attrs hv
  | some v =>
    simp only [hd] at hplain
    by_cases hvn : v.isNone = true
    · simp only [hvn, if_true] at hplain ⊢
      have hnone : lookup n args = none :=
        hA1 n (fun v' hv' => by rw [hd] at hv'; cases hv'; exact hvn)
      rw [argFor_none_of c defaults args n hnone hplain] at hv
      rcases hIH attrs hv with ⟨ar', g1, g2, g3⟩
      by_cases hsk : (!raw && c.ignoreNone) = true
      · simp only [hsk, if_true]; exact ⟨ar', g1, g2, g3⟩
      · simp only [hsk, Bool.false_eq_true, if_false, g1, bindE_ok]
        refine ⟨(n, PyVal.none) :: ar', rfl, ?_, ?_⟩
        · simp [tnormAttrs, PyVal.isNone, g2]
        · simp [nonNoneAttrs, PyVal.isNone] at g3 ⊢; exact g3
    · have hvn' : v.isNone = false := by simpa using hvn
      simp only [hvn', Bool.false_eq_true, if_false] at hplain ⊢
      rcases hA2 n f v hlk hd hvn' with ⟨y, hy, hay⟩
      have hyn := hnn v y hplain hvn' hy
      rw [argFor_some_of c defaults args n y hay hyn] at hv
      rcases bindE_eq_ok hv with ⟨u, hu, hv2⟩
      rcases bindE_eq_ok hv2 with ⟨ar, har, hc⟩
      cases hc
      rcases hfield v y u hplain hvn' hy hu with ⟨hun, v', u', e1, e2, e3, e4⟩
      rcases hIH ar har with ⟨ar', g1, g2, g3⟩
      have hu'n : u'.isNone = false := by rw [isNone_of_tnorm_eq e3]; exact hun
      have hval : (if raw = true then (Except.ok v' : R PyVal) else tVal noMappers true f v') = .ok u' := by
        by_cases hr : raw = true
        · simp only [hr, if_true]
          have := hraw hr v'
          rw [this] at e2; exact e2
        · simp only [hr, if_false]; exact e2
      simp only [e1, bindE_ok, hval, g1]
      refine ⟨(n, u') :: ar', rfl, ?_, ?_⟩
      · simp [tnormAttrs, hu'n, hun, e3, g2]
      · simp only [nonNoneAttrs, List.filter, hu'n, hun, Bool.not_false] at g3 ⊢
        simp only [mapE, serAttr, serField_lookup' O n u' f fields hlk, serField_lookup' O n u f fields hlk, e4]
        rw [g3]

end


/-! ### the field-level lemmas and the mutual induction -/

section
variable (O : Oracles) (opts : DeserOpts)


/-- what the induction establishes for the value `v` of a field `f`, regular result `u` -/
def FEq (b : Bool) (f : FieldDecl) (v u : PyVal) : Prop :=
  ∃ v' u', enumPre f v = .ok v' ∧ tVal noMappers b f v' = .ok u' ∧ tnorm u' = tnorm u
    ∧ ser O f u' = ser O f u ∧ (isSetDecl f = false → shallowOk O f u' = shallowOk O f u)
    ∧ u.isNone = false

theorem feq_scalar (b ign : Bool) (f : FieldDecl) (v w u : PyVal)
    (hf : isArrScalar f = true ∨ isRawScalar f = true) (hp : plainV opts f v = true)
    (hn : v.isNone = false) (hd : deser O opts ign f v = .ok w) (hv : validate O f w = .ok u) :
    FEq O b f v u := by
  have hw := deser_scalar_id O opts ign f v w hf hd
  subst hw
  have hu := validate_scalar_id O opts f w u hf hp hv
  subst hu
  refine ⟨u, u, ?_, ?_, rfl, rfl, fun _ => rfl, hn⟩
  · cases f <;> simp [isArrScalar, isRawScalar] at hf <;> rfl
  · cases f <;> simp [isArrScalar, isRawScalar] at hf <;> simp [tVal]

theorem feq_enumCls (b ign : Bool) (cls : String) (names : List String) (v w u : PyVal)
    (hs : names.contains "" = false) (hp : isStrV v = true)
    (hd : deser O opts ign (.enumCls cls names) v = .ok w)
    (hv : validate O (.enumCls cls names) w = .ok u) : FEq O b (.enumCls cls names) v u := by
  cases v <;> simp [isStrV] at hp
  rename_i n
  simp only [deser, PyVal.isNone, Bool.false_and, Bool.false_eq_true, if_false, dEnumCls] at hd
  split at hd
  · rename_i hc
    cases hd
    simp only [validate, vEnumCls] at hv
    have hu := ite_ok_id hv
    subst hu
    have hne : n.isEmpty = false := by
      cases he : n.isEmpty with
      | false => rfl
      | true =>
        have := String.isEmpty_iff.mp he
        subst this
        rw [hc] at hs; cases hs
    refine ⟨.enumv cls n, .enumv cls n, ?_, ?_, rfl, rfl, fun _ => rfl, rfl⟩
    · simp only [enumPre, enumPreD, truthy, hne, Bool.not_false, if_true, enumByName, hc]
    · simp [tVal]
  · cases hd

theorem list_equiv (item : FieldDecl) : ∀ (xs ws us : List PyVal),
    (∀ x ∈ xs, ∀ w u, deser O opts false item x = .ok w → validate O item w = .ok u →
        ∃ u', tVal noMappers false item x = .ok u' ∧ tnorm u' = tnorm u ∧ ser O item u' = ser O item u) →
    mapE (deser O opts false item) xs = .ok ws → mapE (validate O item) ws = .ok us →
    ∃ us', mapE (tVal noMappers false item) xs = .ok us' ∧ tnormList us' = tnormList us
      ∧ mapE (ser O item) us' = mapE (ser O item) us
  | [], ws, us, _, h1, h2 => by
    simp only [mapE] at h1; cases h1
    simp only [mapE] at h2; cases h2
    exact ⟨[], rfl, rfl, rfl⟩
  | x :: xs, ws, us, H, h1, h2 => by
    simp only [mapE] at h1
    rcases bindE_eq_ok h1 with ⟨w, hw, h1'⟩
    rcases bindE_eq_ok h1' with ⟨ws', hws, hc⟩
    cases hc
    simp only [mapE] at h2
    rcases bindE_eq_ok h2 with ⟨u, hu, h2'⟩
    rcases bindE_eq_ok h2' with ⟨us', hus, hc⟩
    cases hc
    rcases H x (by simp) w u hw hu with ⟨u', e1, e2, e3⟩
    rcases list_equiv item xs ws' us' (fun y hy => H y (by simp [hy])) hws hus with ⟨r, g1, g2, g3⟩
    refine ⟨u' :: r, ?_, ?_, ?_⟩
    · simp [mapE, e1, g1]
    · simp [tnormList, e2, g2]
    · simp [mapE, e3, g3]

theorem feq_arr_scalar (b ign : Bool) (item : FieldDecl) (sz : SizeOpts) (v w u : PyVal)
    (hi : isArrScalar item = true) (hp : plainV opts (.seqOf .list item sz) v = true)
    (hd : deser O opts ign (.seqOf .list item sz) v = .ok w)
    (hv : validate O (.seqOf .list item sz) w = .ok u) : FEq O b (.seqOf .list item sz) v u := by
  simp only [plainV] at hp
  cases v <;> simp at hp
  rename_i xs
  simp only [deser, PyVal.isNone, Bool.false_and, Bool.false_eq_true, if_false, dSeq, docSeq] at hd
  rcases bindE_eq_ok hd with ⟨ws, h1, h2⟩
  have h1' := toValueErr_eq_ok h1
  have hws : ws = xs := mapE_id_of xs ws
    (fun x _ y hy => deser_scalar_id O opts false item x y (Or.inl hi) hy) h1'
  subst hws
  simp only [mkSeq] at h2
  cases h2
  simp only [validate, vSeq, seqElems] at hv
  split at hv
  · cases hv
  · split at hv
    · cases hv
    · split at hv
      · cases hv
      · rcases bindE_eq_ok hv with ⟨ys, h3, h4⟩
        have hys : ys = ws := mapE_id_of ws ys
          (fun x hx y hy => validate_scalar_id O opts item x y (Or.inl hi) (hp x hx) hy) h3
        subst hys
        have hu : u = mkSeq .list ys := by
          split at h4
          · cases h4
          · cases h4; rfl
        subst hu
        refine ⟨.list ys, .list ys, rfl, ?_, rfl, rfl, fun _ => rfl, rfl⟩
        simp [tVal, (isArrScalar_not_ref item hi).1, (isArrScalar_not_ref item hi).2]

theorem isSetScalarOk_props (f : FieldDecl) (h : isSetScalarOk f = true) :
    isArrScalar f = true ∧ isEnumDecl f = false ∧ isClassRef f = false := by
  cases f <;> simp [isSetScalarOk] at h <;> exact ⟨rfl, rfl, rfl⟩

theorem feq_set_scalar (b ign imm : Bool) (item : FieldDecl) (sz : SizeOpts) (v w u : PyVal)
    (hi : isSetScalarOk item = true) (hp : plainV opts (.setOf imm item sz) v = true)
    (hd : deser O opts ign (.setOf imm item sz) v = .ok w)
    (hv : validate O (.setOf imm item sz) w = .ok u) : FEq O b (.setOf imm item sz) v u := by
  have ha := (isSetScalarOk_props item hi).1
  have hne := (isSetScalarOk_props item hi).2.1
  have hnc := (isSetScalarOk_props item hi).2.2
  simp only [plainV] at hp
  cases v <;> simp at hp
  rename_i xs
  simp only [deser, PyVal.isNone, Bool.false_and, Bool.false_eq_true, if_false, dSeq, docSeq] at hd
  rcases bindE_eq_ok hd with ⟨ws, h1, h2⟩
  have h1' := toValueErr_eq_ok h1
  have hws : ws = xs := mapE_id_of xs ws
    (fun x _ y hy => deser_scalar_id O opts false item x y (Or.inl ha) hy) h1'
  subst hws
  unfold mkSet at h2
  split at h2
  · cases h2
  · rename_i hany
    cases h2
    simp only [validate, vSet] at hv
    split at hv
    · cases hv
    · rcases bindE_eq_ok hv with ⟨ys, h3, h4⟩
      have hys : ys = dedup ws := mapE_id_of (dedup ws) ys
        (fun x hx y hy => validate_scalar_id O opts item x y (Or.inl ha)
          (hp x (mem_of_mem_dedup ws x hx)) hy) h3
      subst hys
      have hu : u = .set (false || imm) (dedup (dedup ws)) := by
        split at h4
        · cases h4
        · cases h4; rfl
      subst hu
      rw [dedup_idem]
      refine ⟨.list ws, .set false (dedup ws), rfl, ?_, ?_, ?_, fun h => by simp only [isSetDecl] at h; subst h; rfl, rfl⟩
      · simp only [tVal, hne, hnc, Bool.false_eq_true, if_false, pySet, bindE_ok]
        simp only [hany, Bool.false_eq_true, if_false]
      · simp [tnorm]
      · simp [ser, sSeq, seqLike]

theorem feq_arr_class (b ign : Bool) (item : FieldDecl) (sz : SizeOpts) (v w u : PyVal)
    (hc : isClassRef item = true) (hp : plainV opts (.seqOf .list item sz) v = true)
    (hd : deser O opts ign (.seqOf .list item sz) v = .ok w)
    (hv : validate O (.seqOf .list item sz) w = .ok u)
    (H : ∀ x, plainV opts item x = true → ∀ w u, deser O opts false item x = .ok w → validate O item w = .ok u →
        ∃ u', tVal noMappers false item x = .ok u' ∧ tnorm u' = tnorm u ∧ ser O item u' = ser O item u) :
    FEq O b (.seqOf .list item sz) v u := by
  simp only [plainV] at hp
  cases v <;> simp at hp
  rename_i xs
  simp only [deser, PyVal.isNone, Bool.false_and, Bool.false_eq_true, if_false, dSeq, docSeq] at hd
  rcases bindE_eq_ok hd with ⟨ws, h1, h2⟩
  have h1' := toValueErr_eq_ok h1
  simp only [mkSeq] at h2
  cases h2
  simp only [validate, vSeq, seqElems] at hv
  split at hv
  · cases hv
  · split at hv
    · cases hv
    · split at hv
      · cases hv
      · rcases bindE_eq_ok hv with ⟨us, h3, h4⟩
        have hu : u = mkSeq .list us := by
          split at h4
          · cases h4
          · cases h4; rfl
        subst hu
        rcases list_equiv O opts item xs ws us (fun x hx => H x (hp x hx)) h1' h3 with ⟨us', g1, g2, g3⟩
        refine ⟨.list xs, .list us', rfl, ?_, ?_, ?_, fun _ => ?_, rfl⟩
        · simp [tVal, hc, pyList, g1]
        · simp [tnorm, mkSeq, g2]
        · simp [ser, sSeq, seqLike, mkSeq, g3]
        · simp [shallowOk, seqElems, mkSeq]

/-- the stored value of an Enum element: a member for an enum class -/
def enumResOk (item : FieldDecl) (y : PyVal) : Bool :=
  match item with
  | .enumCls _ _ => !isStrV y
  | _ => true

theorem enum_deser_eq (item : FieldDecl) (x : PyVal) (hE : isEnumDecl item = true) :
    enumDeser item x = deser O opts false item x := by
  cases item <;> simp [isEnumDecl] at hE <;> simp [enumDeser, deser]

theorem enum_deser_res (item : FieldDecl) (x w : PyVal) (hE : isEnumDecl item = true)
    (hp : plainV opts item x = true) (hd : deser O opts false item x = .ok w) : enumResOk item w = true := by
  cases item <;> simp [isEnumDecl] at hE
  · rfl
  · simp only [plainV] at hp
    cases x <;> simp [isStrV] at hp
    simp only [deser, PyVal.isNone, Bool.false_and, Bool.false_eq_true, if_false, dEnumCls] at hd
    split at hd
    · cases hd; rfl
    · cases hd

theorem enum_validate_id (item : FieldDecl) (y u : PyVal) (hE : isEnumDecl item = true)
    (hy : enumResOk item y = true) (hv : validate O item y = .ok u) : u = y := by
  cases item <;> simp [isEnumDecl] at hE
  · exact validate_scalar_id O {} _ y u (Or.inr rfl) rfl hv
  · simp only [enumResOk, Bool.not_eq_true'] at hy
    simp only [validate] at hv
    unfold vEnumCls at hv
    split at hv
    · simp [isStrV] at hy
    · exact ite_ok_id hv
    · cases hv

theorem feq_arr_enum (b ign : Bool) (item : FieldDecl) (sz : SizeOpts) (v w u : PyVal)
    (hE : isEnumDecl item = true) (hp : plainV opts (.seqOf .list item sz) v = true)
    (hd : deser O opts ign (.seqOf .list item sz) v = .ok w)
    (hv : validate O (.seqOf .list item sz) w = .ok u) : FEq O b (.seqOf .list item sz) v u := by
  have hnc : isClassRef item = false := by cases item <;> simp [isEnumDecl] at hE <;> rfl
  simp only [plainV] at hp
  cases v <;> simp at hp
  rename_i xs
  simp only [deser, PyVal.isNone, Bool.false_and, Bool.false_eq_true, if_false, dSeq, docSeq] at hd
  rcases bindE_eq_ok hd with ⟨ws, h1, h2⟩
  have h1' := toValueErr_eq_ok h1
  simp only [mkSeq] at h2
  cases h2
  have hres : ws.all (enumResOk item) = true := mapE_all _ _ xs ws
    (fun x hx y hy => enum_deser_res O opts item x y hE (hp x hx) hy) h1'
  simp only [validate, vSeq, seqElems] at hv
  split at hv
  · cases hv
  · split at hv
    · cases hv
    · split at hv
      · cases hv
      · rcases bindE_eq_ok hv with ⟨ys, h3, h4⟩
        have hys : ys = ws := mapE_id_of ws ys
          (fun x hx y hy => enum_validate_id O item x y hE ((List.all_eq_true.mp hres) x hx) hy) h3
        subst hys
        have hu : u = mkSeq .list ys := by
          split at h4
          · cases h4
          · cases h4; rfl
        subst hu
        have htr : mapE (enumDeser item) xs = .ok ys := by
          rw [mapE_congr xs (fun x _ => enum_deser_eq O opts item x hE)]; exact h1'
        refine ⟨.list xs, .list ys, rfl, ?_, rfl, rfl, fun _ => rfl, rfl⟩
        simp [tVal, hnc, hE, pyList, htr]

theorem feq_set_enum (b ign imm : Bool) (item : FieldDecl) (sz : SizeOpts) (v w u : PyVal)
    (hE : isEnumDecl item = true) (hp : plainV opts (.setOf imm item sz) v = true)
    (hd : deser O opts ign (.setOf imm item sz) v = .ok w)
    (hv : validate O (.setOf imm item sz) w = .ok u) : FEq O b (.setOf imm item sz) v u := by
  simp only [plainV] at hp
  cases v <;> simp at hp
  rename_i xs
  simp only [deser, PyVal.isNone, Bool.false_and, Bool.false_eq_true, if_false, dSeq, docSeq] at hd
  rcases bindE_eq_ok hd with ⟨ws, h1, h2⟩
  have h1' := toValueErr_eq_ok h1
  have hres : ws.all (enumResOk item) = true := mapE_all _ _ xs ws
    (fun x hx y hy => enum_deser_res O opts item x y hE (hp x hx) hy) h1'
  unfold mkSet at h2
  split at h2
  · cases h2
  · rename_i hany
    cases h2
    simp only [validate, vSet] at hv
    split at hv
    · cases hv
    · rcases bindE_eq_ok hv with ⟨ys, h3, h4⟩
      have hys : ys = dedup ws := mapE_id_of (dedup ws) ys
        (fun x hx y hy => enum_validate_id O item x y hE
          ((List.all_eq_true.mp hres) x (mem_of_mem_dedup ws x hx)) hy) h3
      subst hys
      have hu : u = .set (false || imm) (dedup (dedup ws)) := by
        split at h4
        · cases h4
        · cases h4; rfl
      subst hu
      rw [dedup_idem]
      have htr : mapE (enumDeser item) xs = .ok ws := by
        rw [mapE_congr xs (fun x _ => enum_deser_eq O opts item x hE)]; exact h1'
      refine ⟨.list xs, .set false (dedup ws), rfl, ?_, ?_, ?_, fun h => by simp only [isSetDecl] at h; subst h; rfl, rfl⟩
      · simp only [tVal, hE, if_true, pySet, htr, bindE_ok]
        simp only [hany, Bool.false_eq_true, if_false]
      · simp [tnorm]
      · simp [ser, sSeq, seqLike]

theorem extrasOf_nil (c : ClassOpts) (names : List String) (args : List (String × PyVal))
    (h : ∀ a ∈ args, names.contains a.1 = true) : extrasOf c names args = [] := by
  unfold extrasOf
  apply List.filter_eq_nil_iff.mpr
  intro a ha
  rw [h a ha]; simp

theorem vClassRef_ok_id (c : ClassOpts) (w u : PyVal) (h : vClassRef c w = .ok u) : u = w := by
  unfold vClassRef at h
  split at h
  · exact ite_ok_id h
  · cases h

/-- the class level: regular `deserialize_structure_internal` + constructor vs the trusted
    branch (`raw` = the class is `not_nested`), given the field loop's equivalence `HF` -/
theorem class_equiv (ign raw : Bool) (c : ClassOpts) (fields : List (String × FieldDecl))
    (defaults : List (String × PyVal)) (v w : PyVal)
    (hinl : c.inline = false)
    (hp : plainV opts (.struct c fields defaults) v = true)
    (hd : deser O opts ign (.struct c fields defaults) v = .ok w)
    (HF : ∀ doc args attrs, plainFields opts defaults doc fields = true →
        (∀ n, (∀ v, lookup n doc = some v → v.isNone = true) → lookup n args = none) →
        (∀ n f v, lookup n fields = some f → lookup n doc = some v → v.isNone = false →
            ∃ y, deser O opts c.ignoreNone f v = .ok y ∧ lookup n args = some y) →
        validateFields O c defaults args fields = .ok attrs →
        ∃ attrs', tFields noMappers raw c.ignoreNone doc fields = .ok attrs'
          ∧ tnormAttrs attrs' = tnormAttrs attrs
          ∧ mapE (serAttr O fields) (nonNoneAttrs attrs') = mapE (serAttr O fields) (nonNoneAttrs attrs)) :
    ∃ u', tInst (noMappers c.name) c.name (fields.map (·.1)) v
            (fun doc => tFields noMappers raw c.ignoreNone doc fields) = .ok u'
      ∧ tnorm u' = tnorm w ∧ ser O (.struct c fields defaults) u' = ser O (.struct c fields defaults) w
      ∧ shallowOk O (.struct c fields defaults) u' = shallowOk O (.struct c fields defaults) w
      ∧ w.isNone = false ∧ (∀ u, vClassRef c w = .ok u → u = w) := by
  simp only [plainV] at hp
  cases v <;> simp at hp
  rename_i kvs
  cases hkw : kwOfDict kvs with
  | none => simp [hkw] at hp
  | some doc =>
    simp only [hkw, and_true_iff] at hp
    simp only [deser, PyVal.isNone, Bool.false_and, Bool.false_eq_true, if_false, hinl, dClassRef, hkw] at hd
    rcases bindE_eq_ok hd with ⟨args, h1, h2⟩
    rcases bindE_eq_ok h1 with ⟨args0, h3, h4⟩
    have hex : deserExtras opts c (fields.map (·.1)) doc = [] := List.isEmpty_iff.mp hp.1
    rw [hex] at h4
    simp only [List.nil_append] at h4
    cases h4
    rcases deserFields_spec O opts c doc fields args h3 with ⟨s1, s2, s3⟩
    unfold vConstruct at h2
    split at h2
    · cases h2
    · rcases bindE_eq_ok h2 with ⟨attrs, hvf, hw⟩
      rw [extrasOf_nil c _ args s1] at hw
      simp only [List.nil_append] at hw
      cases hw
      rcases HF doc args attrs hp.2 s2 s3 hvf with ⟨attrs', g1, g2, g3⟩
      refine ⟨.inst c.name attrs', ?_, ?_, ?_, ?_, rfl, fun u hu => vClassRef_ok_id c _ u hu⟩
      · simp only [tInst, hkw, Bool.false_eq_true, if_false, noMappers, remapDoc, TMapper.isNone,
          TMapper.isList, if_true, g1, bindE_ok]
      · simp [tnorm, g2]
      · simp only [ser, sInst, beq_self_eq_true, Bool.true_or, Bool.not_true, Bool.false_eq_true, if_false]
        have : mapE (fun (a : String × PyVal) => bindE (serField O fields a.1 a.2) fun j => .ok (PyVal.str a.1, j))
            (attrs'.filter fun a => !a.2.isNone)
          = mapE (fun (a : String × PyVal) => bindE (serField O fields a.1 a.2) fun j => .ok (PyVal.str a.1, j))
            (attrs.filter fun a => !a.2.isNone) := g3
        rw [this]
      · simp only [shallowOk, hinl, Bool.false_eq_true, if_false, vClassRef]
        split <;> rfl

/-- an option of a non-optional `AnyOf` in the proved region -/
def rawOrNone (g : FieldDecl) : Bool := isRawScalar g || isNoneF g

/-- the condition `tsafeFields` puts on one field -/
def tsafeTop (f : FieldDecl) : Bool :=
  match f with
  | .anyOf fs => if isOptAnyOf fs then tsafeOpt fs else fs.all rawOrNone
  | g => tsafeD g

theorem tsafeFields_cons (n : String) (f : FieldDecl) (rest : List (String × FieldDecl)) :
    tsafeFields ((n, f) :: rest) = (tsafeTop f && tsafeFields rest) := by
  cases f <;> rfl

theorem tsafeTop_of_D (f : FieldDecl) (h : tsafeD f = true) : tsafeTop f = true := by
  cases f <;> first | exact h | simp [tsafeD] at h

theorem tsafeD_not_anyOf (f : FieldDecl) (h : tsafeD f = true) : ∀ fs, f ≠ .anyOf fs := by
  intro fs hf; subst hf; simp [tsafeD] at h

theorem lookup_of_mem_nodup {α} : ∀ (l : List (String × α)), strNodup (l.map (·.1)) = true →
    ∀ p ∈ l, lookup p.1 l = some p.2
  | [], _, p, hp => by simp at hp
  | (k, a) :: rest, h, p, hp => by
    simp only [List.map_cons, strNodup, and_true_iff, Bool.not_eq_true'] at h
    simp only [List.mem_cons] at hp
    simp only [lookup]
    rcases hp with hp | hp
    · subst hp; simp
    · have hne : (p.1 == k) = false := by
        cases hk : (p.1 == k) with
        | false => rfl
        | true =>
          have : p.1 = k := by simpa using hk
          have hm : (rest.map (·.1)).contains k = true := by
            rw [← this]
            simp only [List.contains_eq_mem, List.mem_map, decide_eq_true_eq]
            exact ⟨p, hp, rfl⟩
          rw [h.1] at hm; cases hm
      simp only [hne, Bool.false_eq_true, if_false]
      exact lookup_of_mem_nodup rest h.2 p hp

/-- a successful regular deserialization of a non-null value is not None -/
theorem deser_nonNone_D (ign : Bool) (f : FieldDecl) (v w : PyVal) (hs : tsafeD f = true)
    (hp : plainV opts f v = true) (hn : v.isNone = false) (hd : deser O opts ign f v = .ok w) :
    w.isNone = false := by
  have sc : ∀ g : FieldDecl, (isArrScalar g = true ∨ isRawScalar g = true) → deser O opts ign g v = .ok w → w.isNone = false :=
    fun g hg hd => by rw [deser_scalar_id O opts ign g v w hg hd]; exact hn
  cases f <;> try (simp [tsafeD] at hs)
  case number o => exact sc _ (Or.inl rfl) hd
  case integer o => exact sc _ (Or.inl rfl) hd
  case float o => exact sc _ (Or.inl rfl) hd
  case string a b c => exact sc _ (Or.inl rfl) hd
  case boolean => exact sc _ (Or.inl rfl) hd
  case noneF => exact sc _ (Or.inl rfl) hd
  case enumLit vals => exact sc _ (Or.inr rfl) hd
  case enumCls cls names =>
    simp only [plainV] at hp
    cases v <;> simp [isStrV] at hp
    simp only [deser, PyVal.isNone, Bool.false_and, Bool.false_eq_true, if_false, dEnumCls] at hd
    split at hd
    · cases hd; rfl
    · cases hd
  case seqOf k item sz =>
    simp only [plainV] at hp
    cases v <;> simp at hp
    simp only [deser, PyVal.isNone, Bool.false_and, Bool.false_eq_true, if_false, dSeq, docSeq] at hd
    rcases bindE_eq_ok hd with ⟨ws, _, h2⟩
    cases k <;> simp only [mkSeq] at h2 <;> cases h2 <;> rfl
  case setOf imm item sz =>
    simp only [plainV] at hp
    cases v <;> simp at hp
    simp only [deser, PyVal.isNone, Bool.false_and, Bool.false_eq_true, if_false, dSeq, docSeq] at hd
    rcases bindE_eq_ok hd with ⟨ws, _, h2⟩
    unfold mkSet at h2
    split at h2
    · cases h2
    · cases h2; rfl
  case struct c fields defaults =>
    simp only [plainV] at hp
    cases v <;> simp at hp
    rename_i kvs
    cases hkw : kwOfDict kvs with
    | none => simp [hkw] at hp
    | some doc =>
      simp only [deser, PyVal.isNone, Bool.false_and, Bool.false_eq_true, if_false, hs.1.1, dClassRef, hkw] at hd
      rcases bindE_eq_ok hd with ⟨args, _, h2⟩
      unfold vConstruct at h2
      split at h2
      · cases h2
      · rcases bindE_eq_ok h2 with ⟨attrs, _, hw⟩
        cases hw; rfl

theorem tsafeOpt_cases (fs : List FieldDecl) (h : tsafeOpt fs = true) :
    ∃ x y, fs = [x, y] ∧ ((isNoneF y = true ∧ tsafeD x = true ∧ isSetDecl x = false)
        ∨ (isNoneF x = true ∧ isNoneF y = false ∧ tsafeD y = true ∧ isSetDecl y = false)) := by
  match fs, h with
  | [x, y], h =>
    refine ⟨x, y, rfl, ?_⟩
    simp only [tsafeOpt, tsafeOptTail, Bool.or_eq_true, and_true_iff, Bool.not_eq_true'] at h
    rcases h with h | h
    · exact Or.inl ⟨h.1.1, h.1.2, h.2⟩
    · exact Or.inr ⟨h.1.1, h.1.2, h.2.1, h.2.2⟩
  | [], h => simp [tsafeOpt] at h
  | [_], h => simp [tsafeOpt] at h
  | _ :: _ :: _ :: _, h => simp [tsafeOpt] at h

theorem tsafeOpt_isOpt (fs : List FieldDecl) (h : tsafeOpt fs = true) : isOptAnyOf fs = true := by
  rcases tsafeOpt_cases fs h with ⟨x, y, rfl, hc⟩
  rcases hc with ⟨hy, _, _⟩ | ⟨hx, _, _, _⟩
  · simp [isOptAnyOf, hy]
  · simp [isOptAnyOf, hx]

theorem isNoneF_eq (f : FieldDecl) (h : isNoneF f = true) : f = .noneF := by
  cases f <;> simp [isNoneF] at h; rfl

theorem deser_noneF_err (ign : Bool) (v : PyVal) (hn : v.isNone = false) :
    deser O opts ign .noneF v = .error .valueErr := by
  simp [deser, hn]

theorem rawOrNone_scalar (g : FieldDecl) (h : rawOrNone g = true) :
    isArrScalar g = true ∨ isRawScalar g = true := by
  simp only [rawOrNone, Bool.or_eq_true] at h
  rcases h with h | h
  · exact Or.inr h
  · rw [isNoneF_eq g h]; exact Or.inl rfl

/-- a non-optional `AnyOf` over scalars that are stored unchanged: both paths keep the value -/
theorem deserAny_raw_id : ∀ (fs : List FieldDecl) (v w : PyVal), fs.all rawOrNone = true →
    deserAny O opts fs v = .ok w → w = v
  | [], _, _, _, h => by simp [deserAny] at h
  | f :: fs, v, w, hs, h => by
    simp only [List.all_cons, and_true_iff] at hs
    simp only [deserAny] at h
    cases hd : deser O opts false f v with
    | ok y =>
      simp only [hd] at h; cases h
      exact deser_scalar_id O opts false f v w (rawOrNone_scalar f hs.1) hd
    | error e => simp only [hd] at h; exact deserAny_raw_id fs v w hs.2 h

theorem validateAny_raw_id : ∀ (fs : List FieldDecl) (v u : PyVal), fs.all rawOrNone = true →
    plainAll opts fs v = true → validateAny O fs v = .ok u → u = v
  | [], _, _, _, _, h => by simp [validateAny] at h
  | f :: fs, v, u, hs, hp, h => by
    simp only [List.all_cons, and_true_iff] at hs
    simp only [plainAll, and_true_iff] at hp
    simp only [validateAny] at h
    cases hd : validate O f v with
    | ok y =>
      simp only [hd] at h; cases h
      exact validate_scalar_id O opts f v u (rawOrNone_scalar f hs.1) hp.1 hd
    | error e => simp only [hd] at h; exact validateAny_raw_id fs v u hs.2 hp.2 h

theorem feq_anyof_raw (b ign : Bool) (fs : List FieldDecl) (v w u : PyVal)
    (hopt : isOptAnyOf fs = false) (hs : fs.all rawOrNone = true)
    (hp : plainAll opts fs v = true) (hn : v.isNone = false)
    (hd : deser O opts ign (.anyOf fs) v = .ok w) (hv : validate O (.anyOf fs) w = .ok u) :
    FEq O b (.anyOf fs) v u := by
  simp only [deser, hn, Bool.false_and, Bool.false_eq_true, if_false] at hd
  have hw := deserAny_raw_id O opts fs v w hs hd
  subst hw
  simp only [validate] at hv
  have hu := validateAny_raw_id O opts fs w u hs hp hv
  subst hu
  refine ⟨u, u, ?_, ?_, rfl, rfl, fun _ => rfl, hn⟩
  · simp [enumPre, hopt]
  · simp [tVal, hopt]

theorem deser_nonNone_top (ign : Bool) (f : FieldDecl) (v w : PyVal) (hs : tsafeTop f = true)
    (hp : plainV opts f v = true) (hn : v.isNone = false) (hd : deser O opts ign f v = .ok w) :
    w.isNone = false := by
  by_cases ha : ∃ fs, f = .anyOf fs
  · rcases ha with ⟨fs, rfl⟩
    simp only [tsafeTop] at hs
    by_cases hopt : isOptAnyOf fs = true
    · simp only [hopt, if_true] at hs
      rcases tsafeOpt_cases fs hs with ⟨x, y, rfl, hc⟩
      simp only [plainV, plainAll, and_true_iff] at hp
      simp only [deser, hn, Bool.false_and, Bool.false_eq_true, if_false, deserAny] at hd
      rcases hc with ⟨hy, hx, _⟩ | ⟨hx, _, hy, _⟩
      · rw [isNoneF_eq y hy] at hd
        cases hdx : deser O opts false x v with
        | ok w' =>
          simp only [hdx] at hd; cases hd
          exact deser_nonNone_D O opts false x v w hx hp.1 hn hdx
        | error e => simp [hdx, deser_noneF_err O opts false v hn] at hd
      · rw [isNoneF_eq x hx] at hd
        simp only [deser_noneF_err O opts false v hn] at hd
        cases hdy : deser O opts false y v with
        | ok w' =>
          simp only [hdy] at hd; cases hd
          exact deser_nonNone_D O opts false y v w hy hp.2.1 hn hdy
        | error e => simp [hdy] at hd
    · have hopt' : isOptAnyOf fs = false := by simpa using hopt
      simp only [hopt', Bool.false_eq_true, if_false] at hs
      simp only [deser, hn, Bool.false_and, Bool.false_eq_true, if_false] at hd
      rw [deserAny_raw_id O opts fs v w hs hd]; exact hn
  · have hd' : tsafeD f = true := by
      cases f <;> first | exact hs | exact absurd ⟨_, rfl⟩ ha
    exact deser_nonNone_D O opts ign f v w hd' hp hn hd

theorem enumPre_D (x : FieldDecl) (v : PyVal) (hx : tsafeD x = true) : enumPre x v = enumPreD x v := by
  cases x <;> first | rfl | simp [tsafeD] at hx

theorem isNoneF_noneF' : isNoneF .noneF = true := rfl

theorem enumPre_optA (x : FieldDecl) (v : PyVal) :
    enumPre (.anyOf [x, .noneF]) v = enumPreD x v := by
  have h1 : isOptAnyOf [x, .noneF] = true := by simp [isOptAnyOf, isNoneF_noneF']
  have h2 : optPick [x, .noneF] = x := by simp only [optPick, isNoneF_noneF', if_true]
  simp only [enumPre, h1, if_true, h2]

theorem enumPre_optB (y : FieldDecl) (v : PyVal) (hy : isNoneF y = false) :
    enumPre (.anyOf [.noneF, y]) v = enumPreD y v := by
  have h1 : isOptAnyOf [.noneF, y] = true := by simp [isOptAnyOf, isNoneF_noneF']
  have h2 : optPick [.noneF, y] = y := by simp only [optPick, hy, Bool.false_eq_true, if_false]
  simp only [enumPre, h1, if_true, h2]

theorem tHead_A (x : FieldDecl) (v : PyVal) : tHead noMappers [x, .noneF] v = tVal noMappers false x v := by
  simp only [tHead, isNoneF_noneF', if_true]

theorem tHead_B (y : FieldDecl) (v : PyVal) (hy : isNoneF y = false) :
    tHead noMappers [.noneF, y] v = tVal noMappers false y v := by
  simp only [tHead, hy, Bool.false_eq_true, if_false]

theorem isOpt_A (x : FieldDecl) : isOptAnyOf [x, .noneF] = true := by simp [isOptAnyOf, isNoneF_noneF']
theorem isOpt_B (y : FieldDecl) : isOptAnyOf [.noneF, y] = true := by simp [isOptAnyOf, isNoneF_noneF']

theorem serFirst_skip_noneF (rest : List FieldDecl) (z : PyVal) (h : z.isNone = false) :
    serFirst O (.noneF :: rest) z = serFirst O rest z := by
  simp [serFirst, shallowOk, h]

theorem plain_classref_nonNone (item : FieldDecl) (x : PyVal) (hc : isClassRef item = true)
    (hp : plainV opts item x = true) : x.isNone = false := by
  cases item <;> simp [isClassRef] at hc
  simp only [plainV] at hp
  cases x <;> simp at hp
  rfl

theorem enumPre_classref (item : FieldDecl) (x : PyVal) (hc : isClassRef item = true) :
    enumPre item x = .ok x := by
  cases item <;> simp [isClassRef] at hc
  rfl

theorem serFirst_cons_congr (x : FieldDecl) (rest : List FieldDecl) (u u' : PyVal)
    (h1 : ser O x u' = ser O x u) (h2 : shallowOk O x u' = shallowOk O x u)
    (h3 : serFirst O rest u' = serFirst O rest u) :
    serFirst O (x :: rest) u' = serFirst O (x :: rest) u := by
  simp only [serFirst, h1, h2, h3]

theorem serFirst_noneF (z : PyVal) (h : z.isNone = false) : serFirst O [.noneF] z = .error .valueErr := by
  simp [serFirst, shallowOk, h]

mutual
/-- **field level**: the value the trusted branch stores for a document value equals (up to
    `tnorm`) the value the regular path stores, and both serialize alike -/
theorem tval_equiv : ∀ (f : FieldDecl) (b ign : Bool) (v w u : PyVal),
    tsafeTop f = true → (∀ fs, f = .anyOf fs → b = true) → plainV opts f v = true → v.isNone = false →
    deser O opts ign f v = .ok w → validate O f w = .ok u → FEq O b f v u
  | .number _, b, ign, v, w, u, _, _, hp, hn, hd, hv => feq_scalar O opts b ign _ v w u (Or.inl rfl) hp hn hd hv
  | .integer _, b, ign, v, w, u, _, _, hp, hn, hd, hv => feq_scalar O opts b ign _ v w u (Or.inl rfl) hp hn hd hv
  | .float _, b, ign, v, w, u, _, _, hp, hn, hd, hv => feq_scalar O opts b ign _ v w u (Or.inl rfl) hp hn hd hv
  | .string _ _ _, b, ign, v, w, u, _, _, hp, hn, hd, hv => feq_scalar O opts b ign _ v w u (Or.inl rfl) hp hn hd hv
  | .boolean, b, ign, v, w, u, _, _, hp, hn, hd, hv => feq_scalar O opts b ign _ v w u (Or.inl rfl) hp hn hd hv
  | .noneF, b, ign, v, w, u, _, _, hp, hn, hd, hv => feq_scalar O opts b ign _ v w u (Or.inl rfl) hp hn hd hv
  | .enumLit _, b, ign, v, w, u, _, _, hp, hn, hd, hv => feq_scalar O opts b ign _ v w u (Or.inr rfl) hp hn hd hv
  | .enumCls cls names, b, ign, v, w, u, hs, _, hp, _, hd, hv => by
    simp only [tsafeTop, tsafeD, Bool.not_eq_true'] at hs
    simp only [plainV] at hp
    exact feq_enumCls O opts b ign cls names v w u hs hp hd hv
  | .seqOf .list item sz, b, ign, v, w, u, hs, _, hp, _, hd, hv => by
    simp only [tsafeTop, tsafeD, Bool.or_eq_true, and_true_iff] at hs
    rcases hs with (hi | ⟨hE, _⟩) | ⟨hc, hi⟩
    · exact feq_arr_scalar O opts b ign item sz v w u hi hp hd hv
    · exact feq_arr_enum O opts b ign item sz v w u hE hp hd hv
    · refine feq_arr_class O opts b ign item sz v w u hc hp hd hv (fun x hpx w' u' hdx hvx => ?_)
      have hxn := plain_classref_nonNone opts item x hc hpx
      rcases tval_equiv item false false x w' u' (tsafeTop_of_D item hi)
        (fun fs h => absurd h (tsafeD_not_anyOf item hi fs)) hpx hxn hdx hvx with ⟨v', u'', e1, e2, e3, e4, _, _⟩
      rw [enumPre_classref item x hc] at e1
      cases e1
      exact ⟨u'', e2, e3, e4⟩
  | .setOf imm item sz, b, ign, v, w, u, hs, _, hp, _, hd, hv => by
    simp only [tsafeTop, tsafeD, Bool.or_eq_true, and_true_iff] at hs
    rcases hs with hs | ⟨hE, _⟩
    · exact feq_set_scalar O opts b ign imm item sz v w u hs hp hd hv
    · exact feq_set_enum O opts b ign imm item sz v w u hE hp hd hv
  | .struct c fields defaults, b, ign, v, w, u, hs, _, hp, _, hd, hv => by
    simp only [tsafeTop, tsafeD, and_true_iff, Bool.not_eq_true'] at hs
    rcases class_equiv O opts ign false c fields defaults v w hs.1.1 hp hd
      (fun doc args attrs hpf a1 a2 hvf =>
        tfields_equiv fields c fields defaults doc args false attrs hs.2 hpf
          (lookup_of_mem_nodup fields hs.1.2) a1 a2 (fun h => by cases h) hvf) with ⟨u', g1, g2, g3, g4, g5, g6⟩
    simp only [validate, hs.1.1, Bool.false_eq_true, if_false] at hv
    have hu := g6 u hv
    subst hu
    refine ⟨v, u', rfl, ?_, g2, g3, fun _ => g4, g5⟩
    simp only [tVal, hs.1.1, Bool.false_eq_true, if_false]
    exact g1
  | .anyOf fs, b, ign, v, w, u, hs, hb, hp, hn, hd, hv => by
    have hb' := hb fs rfl
    subst hb'
    simp only [tsafeTop] at hs
    simp only [plainV] at hp
    by_cases hopt : isOptAnyOf fs = true
    · simp only [hopt, if_true] at hs
      exact topt_equiv fs ign v w u hs hp hn hd hv
    · have hopt' : isOptAnyOf fs = false := by simpa using hopt
      simp only [hopt', Bool.false_eq_true, if_false] at hs
      exact feq_anyof_raw O opts true ign fs v w u hopt' hs hp hn hd hv
  | .seqOf .deque _ _, _, _, _, _, _, hs, _, _, _, _, _ => by simp [tsafeTop, tsafeD] at hs
  | .seqAny _ _, _, _, _, _, _, hs, _, _, _, _, _ => by simp [tsafeTop, tsafeD] at hs
  | .seqPos _ _ _ _, _, _, _, _, _, hs, _, _, _, _, _ => by simp [tsafeTop, tsafeD] at hs
  | .setAny _ _, _, _, _, _, _, hs, _, _, _, _, _ => by simp [tsafeTop, tsafeD] at hs
  | .tupleOf _ _, _, _, _, _, _, hs, _, _, _, _, _ => by simp [tsafeTop, tsafeD] at hs
  | .tuplePos _ _, _, _, _, _, _, hs, _, _, _, _, _ => by simp [tsafeTop, tsafeD] at hs
  | .mapAny _, _, _, _, _, _, hs, _, _, _, _, _ => by simp [tsafeTop, tsafeD] at hs
  | .mapOf _ _ _, _, _, _, _, _, hs, _, _, _, _, _ => by simp [tsafeTop, tsafeD] at hs
  | .oneOf _, _, _, _, _, _, hs, _, _, _, _, _ => by simp [tsafeTop, tsafeD] at hs
  | .allOf _, _, _, _, _, _, hs, _, _, _, _, _ => by simp [tsafeTop, tsafeD] at hs
  | .notF _, _, _, _, _, _, hs, _, _, _, _, _ => by simp [tsafeTop, tsafeD] at hs
  | .anything, _, _, _, _, _, hs, _, _, _, _, _ => by simp [tsafeTop, tsafeD] at hs

/-- **Optional fields**: `AnyOf[X, NoneField]` goes through `X` on both paths, `AnyOf[NoneField, X]`
    keeps the raw value on the trusted path — the same value when `X` is a plain scalar -/
theorem topt_equiv : ∀ (fs : List FieldDecl) (ign : Bool) (v w u : PyVal),
    tsafeOpt fs = true → plainAll opts fs v = true → v.isNone = false →
    deser O opts ign (.anyOf fs) v = .ok w → validate O (.anyOf fs) w = .ok u →
    FEq O true (.anyOf fs) v u
  | [], _, _, _, _, hs, _, _, _, _ => by simp [tsafeOpt] at hs
  | [_], _, _, _, _, hs, _, _, _, _ => by simp [tsafeOpt] at hs
  | _ :: _ :: _ :: _, _, _, _, _, hs, _, _, _, _ => by simp [tsafeOpt] at hs
  | [x, y], ign, v, w, u, hs, hp, hn, hd, hv => by
    rcases tsafeOpt_cases [x, y] hs with ⟨x', y', hxy, hc⟩
    cases hxy
    simp only [plainAll, and_true_iff] at hp
    simp only [deser, hn, Bool.false_and, Bool.false_eq_true, if_false, deserAny] at hd
    simp only [validate, validateAny] at hv
    rcases hc with ⟨hy, hx, hset⟩ | ⟨hx, hyn, hy, hset⟩
    · have hyN := isNoneF_eq y hy
      subst hyN
      cases hdx : deser O opts false x v with
      | error e => simp [hdx, deser_noneF_err O opts false v hn] at hd
      | ok w' =>
        simp only [hdx] at hd
        cases hd
        have hwn := deser_nonNone_D O opts false x v w hx hp.1 hn hdx
        cases hvx : validate O x w with
        | error e => simp [hvx, validate, vNone, hwn] at hv
        | ok u0 =>
          simp only [hvx] at hv
          cases hv
          rcases tval_equiv x false false v w u (tsafeTop_of_D x hx)
            (fun fs h => absurd h (tsafeD_not_anyOf x hx fs)) hp.1 hn hdx hvx with ⟨v', u', e1, e2, e3, e4, e5, e6⟩
          have hu'n : u'.isNone = false := by rw [isNone_of_tnorm_eq e3]; exact e6
          refine ⟨v', u', ?_, ?_, e3, ?_, fun _ => rfl, e6⟩
          · rw [enumPre_optA x v, ← enumPre_D x v hx]; exact e1
          · simp only [tVal, isOpt_A, Bool.and_self, if_true, tHead_A]; exact e2
          · simp only [ser]
            exact serFirst_cons_congr O x [.noneF] u u' e4 (e5 hset)
              (by rw [serFirst_noneF O u' hu'n, serFirst_noneF O u e6])
    · have hxN := isNoneF_eq x hx
      subst hxN
      simp only [deser_noneF_err O opts false v hn] at hd
      cases hdy : deser O opts false y v with
      | error e => simp [hdy] at hd
      | ok w' =>
        simp only [hdy] at hd
        cases hd
        have hwn := deser_nonNone_D O opts false y v w hy hp.2.1 hn hdy
        have hvn : validate O .noneF w = .error .typeErr := by simp [validate, vNone, hwn]
        simp only [hvn] at hv
        cases hvy : validate O y w with
        | error e => simp [hvy] at hv
        | ok u0 =>
          simp only [hvy] at hv
          cases hv
          rcases tval_equiv y false false v w u (tsafeTop_of_D y hy)
            (fun fs h => absurd h (tsafeD_not_anyOf y hy fs)) hp.2.1 hn hdy hvy with ⟨v', u', e1, e2, e3, e4, e5, e6⟩
          have hu'n : u'.isNone = false := by rw [isNone_of_tnorm_eq e3]; exact e6
          refine ⟨v', u', ?_, ?_, e3, ?_, fun _ => rfl, e6⟩
          · rw [enumPre_optB y v hyn, ← enumPre_D y v hy]; exact e1
          · simp only [tVal, isOpt_B, Bool.and_self, if_true, tHead_B y v' hyn]; exact e2
          · simp only [ser]
            rw [serFirst_skip_noneF O [y] u' hu'n, serFirst_skip_noneF O [y] u e6]
            exact serFirst_cons_congr O y [] u u' e4 (e5 hset) rfl

/-- **field loop**: the attributes the trusted branch builds for the (remaining) fields vs the
    attributes the constructor stores for the arguments the regular path hands it -/
theorem tfields_equiv : ∀ (rest : List (String × FieldDecl)) (c : ClassOpts)
    (fields : List (String × FieldDecl)) (defaults doc args : List (String × PyVal)) (raw : Bool)
    (attrs : List (String × PyVal)),
    tsafeFields rest = true → plainFields opts defaults doc rest = true →
    (∀ p ∈ rest, lookup p.1 fields = some p.2) →
    (∀ n, (∀ v, lookup n doc = some v → v.isNone = true) → lookup n args = none) →
    (∀ n f v, lookup n fields = some f → lookup n doc = some v → v.isNone = false →
        ∃ y, deser O opts c.ignoreNone f v = .ok y ∧ lookup n args = some y) →
    (raw = true → ∀ p ∈ rest, ∀ v, tVal noMappers true p.2 v = .ok v) →
    validateFields O c defaults args rest = .ok attrs →
    ∃ attrs', tFields noMappers raw c.ignoreNone doc rest = .ok attrs'
      ∧ tnormAttrs attrs' = tnormAttrs attrs
      ∧ mapE (serAttr O fields) (nonNoneAttrs attrs') = mapE (serAttr O fields) (nonNoneAttrs attrs)
  | [], _, _, _, _, _, _, attrs, _, _, _, _, _, _, hv => by
    simp only [validateFields] at hv
    cases hv
    exact ⟨[], by simp [tFields], rfl, rfl⟩
  | (n, f) :: rest, c, fields, defaults, doc, args, raw, attrs, hs, hp, hl, a1, a2, hraw, hv => by
    rw [tsafeFields_cons] at hs
    simp only [and_true_iff] at hs
    simp only [plainFields, and_true_iff] at hp
    exact tfields_cons O opts c fields defaults doc args raw n f rest attrs hp.1 (hl (n, f) (by simp)) a1 a2
      (fun hr v => hraw hr (n, f) (by simp) v)
      (fun v y hpv hnv hdv => deser_nonNone_top O opts c.ignoreNone f v y hs.1 hpv hnv hdv)
      (fun v y u hpv hnv hdv hvv => by
        rcases tval_equiv f true c.ignoreNone v y u hs.1 (fun _ _ => rfl) hpv hnv hdv hvv with
          ⟨v', u', e1, e2, e3, e4, _, e6⟩
        exact ⟨e6, v', u', e1, e2, e3, e4⟩)
      (fun ar har => tfields_equiv rest c fields defaults doc args raw ar hs.2 hp.2
        (fun p hp' => hl p (by simp [hp'])) a1 a2 (fun hr p hp' => hraw hr p (by simp [hp'])) har)
      hv
end

end


/-! ### the class at top level -/

section
variable (O : Oracles) (opts : DeserOpts)


theorem fieldsV_nested_ne_flat (Mp : MapEnv) : ∀ fs : List (String × FieldDecl),
    fieldsV Mp fs .nested ≠ .lvl .flat
  | [] => by simp [fieldsV]
  | (_, f) :: rest => by
    simp only [fieldsV]
    cases effOf Mp true f <;> simp <;> exact fieldsV_nested_ne_flat Mp rest

theorem refEff_ne_keep (v : Verdict) : refEff v ≠ .keep := by cases v <;> simp [refEff]
theorem optEff_ne_keep (e : FEff) : optEff e ≠ .keep := by cases e <;> simp [optEff]

theorem isSetScalarOk_valid (f : FieldDecl) (h : isSetScalarOk f = true) : isValidCls f = true := by
  cases f <;> simp [isSetScalarOk] at h <;> rfl

theorem isEnumDecl_valid (f : FieldDecl) (h : isEnumDecl f = true) : isValidCls f = true := by
  cases f <;> simp [isEnumDecl] at h <;> rfl

theorem classref_effOf_ne_keep (Mp : MapEnv) (b : Bool) (f : FieldDecl) (h : isClassRef f = true) :
    effOf Mp b f ≠ .keep := by
  cases f <;> simp [isClassRef] at h
  simp only [effOf, h, Bool.false_eq_true, if_false]
  exact refEff_ne_keep _

theorem classref_not_valid (f : FieldDecl) (h : isClassRef f = true) :
    isValidCls f = false ∧ isEnumDecl f = false := by
  cases f <;> simp [isClassRef] at h; exact ⟨rfl, rfl⟩

/-- a field that leaves the classifier at `not_nested` is stored as it is by `_remap_input` -/
theorem keep_raw (f : FieldDecl) (v : PyVal) (hs : tsafeTop f = true)
    (hk : effOf noMappers true f = .keep) : tVal noMappers true f v = .ok v := by
  cases f <;> try (simp [tsafeTop, tsafeD] at hs)
  case number => simp [tVal]
  case integer => simp [tVal]
  case float => simp [tVal]
  case string => simp [tVal]
  case boolean => simp [tVal]
  case noneF => simp [tVal]
  case enumLit => simp [effOf] at hk
  case enumCls => simp [effOf] at hk
  case seqOf k item sz =>
    cases k
    · simp only [tsafeD, Bool.or_eq_true, and_true_iff] at hs
      rcases hs with (hi | ⟨hE, _⟩) | ⟨hc, _⟩
      · simp [tVal, (isArrScalar_not_ref item hi).1, (isArrScalar_not_ref item hi).2]
      · simp [effOf, hE] at hk
      · simp only [effOf, (classref_not_valid item hc).1, (classref_not_valid item hc).2, hc,
          Bool.false_eq_true, if_false, if_true] at hk
        exact absurd hk (classref_effOf_ne_keep noMappers false item hc)
    · simp [tsafeD] at hs
  case setOf imm item sz =>
    have hval : isValidCls item = true := by
      rcases hs with h | ⟨h, _⟩
      · exact isSetScalarOk_valid item h
      · exact isEnumDecl_valid item h
    simp [effOf, hval] at hk
  case struct c fields defaults =>
    simp only [effOf] at hk
    split at hk
    · cases hk
    · exact absurd hk (refEff_ne_keep _)
  case anyOf fs =>
    by_cases hopt : isOptAnyOf fs = true
    · simp only [effOf, hopt, Bool.and_self, if_true] at hk
      exact absurd hk (optEff_ne_keep _)
    · have hopt' : isOptAnyOf fs = false := by simpa using hopt
      simp [tVal, hopt']

theorem flat_fields_raw : ∀ fields : List (String × FieldDecl),
    fieldsV noMappers fields .flat = .lvl .flat → tsafeFields fields = true →
    ∀ p ∈ fields, ∀ v, tVal noMappers true p.2 v = .ok v
  | [], _, _, p, hp, _ => by simp at hp
  | (n, f) :: rest, hv, hs, p, hp, v => by
    rw [tsafeFields_cons] at hs
    simp only [and_true_iff] at hs
    simp only [fieldsV] at hv
    cases he : effOf noMappers true f with
    | raises => simp [he] at hv
    | reject => simp [he] at hv
    | nested => simp only [he] at hv; exact absurd hv (fieldsV_nested_ne_flat noMappers rest)
    | keep =>
      simp only [he] at hv
      simp only [List.mem_cons] at hp
      rcases hp with hp | hp
      · subst hp; exact keep_raw f v hs.1 he
      · exact flat_fields_raw rest hv hs.2 p hp v

theorem deserialize_eq_deser (c : ClassOpts) (fields : List (String × FieldDecl))
    (defaults : List (String × PyVal)) (kvs : List (PyVal × PyVal)) (hinl : c.inline = false) :
    deserialize O opts (.struct c fields defaults) (.dict kvs)
      = deser O opts false (.struct c fields defaults) (.dict kvs) := by
  simp only [deserialize, deser, PyVal.isNone, Bool.false_and, Bool.false_eq_true, if_false, hinl, dClassRef]

/-- **C10, trusted deserialization** on the proved region -/
theorem trusted_equiv_core (cls : FieldDecl) (d x : PyVal)
    (he : eligible noMappers cls = true) (hs : tsafeCls cls = true) (hp : plainDoc opts cls d = true)
    (hr : deserialize O opts cls d = .ok x) :
    ∃ y, deserializeTrusted noMappers O opts cls d = .ok y ∧ tnorm y = tnorm x
      ∧ serialize O cls y = serialize O cls x := by
  cases cls <;> try (simp [tsafeCls] at hs)
  rename_i c fields defaults
  simp only [tsafeD, and_true_iff, Bool.not_eq_true'] at hs
  have hpd : plainV opts (.struct c fields defaults) d = true := hp
  have hdict : ∃ kvs, d = .dict kvs := by
    simp only [plainV] at hpd
    cases d <;> simp at hpd
    exact ⟨_, rfl⟩
  rcases hdict with ⟨kvs, rfl⟩
  rw [deserialize_eq_deser O opts c fields defaults kvs hs.1.1] at hr
  unfold eligible at he
  cases hvd : verdictOf noMappers (.struct c fields defaults) with
  | raises => simp [hvd] at he
  | no => simp [hvd] at he
  | lvl l =>
    have hraw : (l == Lvl.flat) = true → ∀ p ∈ fields, ∀ v, tVal noMappers true p.2 v = .ok v := by
      intro hl
      have : l = .flat := by cases l <;> simp at hl ⊢
      subst this
      simp only [verdictOf, noMappers, TMapper.isComplex, Bool.false_eq_true, if_false] at hvd
      exact flat_fields_raw fields hvd hs.2
    rcases class_equiv O opts false (l == Lvl.flat) c fields defaults (.dict kvs) x hs.1.1 hpd hr
      (fun doc args attrs hpf a1 a2 hvf =>
        tfields_equiv O opts fields c fields defaults doc args (l == Lvl.flat) attrs hs.2 hpf
          (lookup_of_mem_nodup fields hs.1.2) a1 a2 hraw hvf) with ⟨u', g1, g2, g3, _, _, _⟩
    refine ⟨u', ?_, g2, g3⟩
    simp only [deserializeTrusted, hvd]
    exact g1

end

end Typedpy
