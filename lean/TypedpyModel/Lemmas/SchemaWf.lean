/-
  Lemmas/SchemaWf.lean — `schema_wellformed`: on the fragment `wfFragF` the emitted schema (with the
  two draft-4 spellings) satisfies the draft-4 meta-schema keyword by keyword (`wfDraft4`) and every
  `$ref` resolves in the pointer table; by mutual structural induction, unbounded nesting.
-/
import TypedpyModel.Lemmas.SchemaAdmits
namespace Typedpy.Sch
open Typedpy

theorem wfKws_append (D : Defs) (ctx a b : List (PyVal × PyVal)) :
    wfKws D ctx (a ++ b) = (wfKws D ctx a && wfKws D ctx b) := by
  induction a with
  | nil => simp [wfKws]
  | cons x xs ih =>
    obtain ⟨k, v⟩ := x
    simp only [List.cons_append, wfKws, ih, Bool.and_assoc]

theorem wfKws_optKw (D : Defs) (ctx : List (PyVal × PyVal)) (k : String) (ov : Option PyVal) :
    wfKws D ctx (optKw k ov) = (match ov with | none => true | some v => wfKws D ctx [kw k v]) := by
  cases ov <;> simp [optKw, wfKws]

theorem isNatJ_natJ (n : Nat) : isNatJ (natJ n) = true := by simp [isNatJ, natOf_natJ]

theorem jsNum_numJ_isSome (q : Q) : (jsNum (numJ q)).isSome = true := by
  obtain ⟨q', h, _, _⟩ := jsNum_numJ q
  simp [h]

theorem jsonMem_str_of (n : String) : ∀ names : List String,
    jsonMem (.str n) (names.map PyVal.str) = true → names.contains n = true
  | [], h => by simp [jsonMem] at h
  | m :: names, h => by
    simp only [jsonMem, List.map_cons, List.any_cons, Bool.or_eq_true] at h
    simp only [List.contains_cons, Bool.or_eq_true]
    rcases h with h | h
    · left; simpa [jsonEq] using h
    · right; exact jsonMem_str_of n names h

theorem jsonNodup_map_str : ∀ names : List String, nodupS names = true →
    jsonNodup (names.map PyVal.str) = true
  | [], _ => rfl
  | n :: names, h => by
    simp only [nodupS, and_true_iff'] at h
    simp only [List.map_cons, jsonNodup, and_true_iff']
    refine ⟨?_, jsonNodup_map_str names h.2⟩
    cases hm : jsonMem (.str n) (names.map PyVal.str) with
    | false => rfl
    | true =>
      have hc := jsonMem_str_of n names hm
      rw [hc] at h
      simp at h

/-! ### keyword groups -/

theorem wf_numKws (D : Defs) (ty : String) (hty : ty = "number" ∨ ty = "integer") (isInt : Bool)
    (o : NumOpts) (ho : numOptsOk o = true) : wfDraft4 D (.dict (numKws true ty isInt o)) = true := by
  simp only [wfDraft4]
  have hmax : exclEff o = true → (getKw "maximum" (numKws true ty isInt o)).isSome = true := by
    intro he
    simp only [exclEff, and_true_iff'] at he
    cases hmm : o.max with
    | none => simp [hmm] at he
    | some m =>
      cases o.mult <;>
        cases hmin : effMin isInt o <;>
          simp [numKws, getKw_append, getKw_optKw, getKw, kw, keyIs, multKey, effMax, hmm]
  revert hmax
  suffices hh : ∀ ctx, (exclEff o = true → (getKw "maximum" ctx).isSome = true) →
      wfKws D ctx (numKws true ty isInt o) = true from fun hmax => hh _ hmax
  intro ctx hmax
  simp only [numKws, wfKws_append, wfKws_optKw, and_true_iff']
  refine ⟨⟨⟨⟨?_, ?_⟩, ?_⟩, ?_⟩, ?_⟩
  · rcases hty with rfl | rfl <;> simp [wfKws, kw, wfNode, kwOf, kwOfStr, wfLeaf, simpleType]
  · cases hm : o.mult with
    | none => rfl
    | some m =>
      simp only [numOptsOk, hm] at ho
      have hne : m ≠ 0 := by simpa using ho
      have hji : jsNum (absJ m) = some (Q.ofInt (Int.ofNat m.natAbs)) := rfl
      simp [Option.map, multKey, wfKws, kw, wfNode, kwOf, kwOfStr, wfLeaf, hji, Q.lt, Q.ofInt]
      omega
  · cases hm : effMin isInt o with
    | none => rfl
    | some m => simp [Option.map, wfKws, kw, wfNode, kwOf, kwOfStr, wfLeaf, jsNum_numJ_isSome]
  · cases hm : effMax isInt o with
    | none => rfl
    | some m => simp [Option.map, wfKws, kw, wfNode, kwOf, kwOfStr, wfLeaf, jsNum_numJ_isSome]
  · cases he : exclEff o with
    | false => rfl
    | true =>
      simp [wfKws, kw, wfNode, kwOf, kwOfStr, keyIs, isBoolJ]
      simpa using hmax he

theorem wf_strKws (D : Defs) (lo hi : Option Nat) (pat : Option String) :
    wfDraft4 D (.dict (strKws lo hi pat)) = true := by
  simp only [wfDraft4]
  suffices hh : ∀ ctx, wfKws D ctx (strKws lo hi pat) = true from hh _
  intro ctx
  simp only [strKws, wfKws_append, wfKws_optKw, and_true_iff']
  refine ⟨⟨⟨?_, ?_⟩, ?_⟩, ?_⟩
  · simp [wfKws, kw, wfNode, kwOf, kwOfStr, wfLeaf, simpleType]
  · cases lo <;> simp [Option.map, wfKws, kw, wfNode, kwOf, kwOfStr, wfLeaf, isNatJ_natJ]
  · cases hi <;> simp [Option.map, wfKws, kw, wfNode, kwOf, kwOfStr, wfLeaf, isNatJ_natJ]
  · cases pat <;> simp [Option.map, wfKws, kw, wfNode, kwOf, kwOfStr, wfLeaf, isStrJ]

theorem wf_sizeKws (D : Defs) (ctx : List (PyVal × PyVal)) (sz : SizeOpts) :
    wfKws D ctx (optKw "maxItems" (sz.max.map natJ)) = true
    ∧ wfKws D ctx (optKw "minItems" (sz.min.map natJ)) = true := by
  constructor
  · cases sz.max <;> simp [Option.map, optKw, wfKws, kw, wfNode, kwOf, kwOfStr, wfLeaf, isNatJ_natJ]
  · cases sz.min <;> simp [Option.map, optKw, wfKws, kw, wfNode, kwOf, kwOfStr, wfLeaf, isNatJ_natJ]

theorem wf_sizeKws_obj (D : Defs) (ctx : List (PyVal × PyVal)) (sz : SizeOpts) :
    wfKws D ctx (optKw "maxProperties" (sz.max.map natJ)) = true
    ∧ wfKws D ctx (optKw "minProperties" (sz.min.map natJ)) = true := by
  constructor
  · cases sz.max <;> simp [Option.map, optKw, wfKws, kw, wfNode, kwOf, kwOfStr, wfLeaf, isNatJ_natJ]
  · cases sz.min <;> simp [Option.map, optKw, wfKws, kw, wfNode, kwOf, kwOfStr, wfLeaf, isNatJ_natJ]

theorem wf_uniqKw (D : Defs) (ctx : List (PyVal × PyVal)) (u : Bool) :
    wfKws D ctx (optKw "uniqueItems" (if u then some (.bool true) else none)) = true := by
  cases u <;> simp [optKw, wfKws, kw, wfNode, kwOf, kwOfStr, wfLeaf, isBoolJ]

theorem wf_typeKw (D : Defs) (ctx : List (PyVal × PyVal)) (t : String)
    (ht : t = "array" ∨ t = "object" ∨ t = "boolean") : wfKws D ctx [kw "type" (.str t)] = true := by
  rcases ht with rfl | rfl | rfl <;> simp [wfKws, kw, wfNode, kwOf, kwOfStr, wfLeaf, simpleType]

theorem wf_itemsSingle (D : Defs) (ctx : List (PyVal × PyVal)) (s : PyVal)
    (hs : wfDraft4 D s = true) : wfKws D ctx [kw "items" s] = true := by
  cases s <;> simp [wfDraft4] at hs
  simp [wfKws, kw, wfNode, kwOf, kwOfStr, wfDraft4, hs]

theorem wf_itemsList (D : Defs) (ctx : List (PyVal × PyVal)) (ss : List PyVal)
    (hne : ss.isEmpty = false) (hs : wfList D ss = true) : wfKws D ctx [kw "items" (.list ss)] = true := by
  simp [wfKws, kw, wfNode, kwOf, kwOfStr, wfListV, hs, hne]

theorem wf_arrKws (D : Defs) (sz : SizeOpts) (addl : Bool) (items : Option PyVal)
    (hitems : ∀ ctx, wfKws D ctx (optKw "items" items) = true) :
    wfDraft4 D (.dict (arrKws sz (if addl then none else some (.bool false)) items)) = true := by
  simp only [wfDraft4]
  suffices hh : ∀ ctx, wfKws D ctx (arrKws sz (if addl then none else some (.bool false)) items) = true
    from hh _
  intro ctx
  simp only [arrKws, wfKws_append, and_true_iff']
  have h2 := wf_sizeKws D ctx sz
  refine ⟨⟨⟨⟨⟨wf_typeKw D ctx "array" (Or.inl rfl), wf_uniqKw D ctx sz.uniq⟩, ?_⟩, h2.1⟩, h2.2⟩, hitems ctx⟩
  cases addl <;> simp [optKw, wfKws, kw, wfNode, kwOf, kwOfStr]

theorem wf_setKws (D : Defs) (sz : SizeOpts) (items : Option PyVal)
    (hitems : ∀ ctx, wfKws D ctx (optKw "items" items) = true) :
    wfDraft4 D (.dict (setKws sz items)) = true := by
  simp only [wfDraft4]
  suffices hh : ∀ ctx, wfKws D ctx (setKws sz items) = true from hh _
  intro ctx
  simp only [setKws, wfKws_append, and_true_iff']
  have h2 := wf_sizeKws D ctx sz
  refine ⟨⟨⟨?_, h2.1⟩, h2.2⟩, hitems ctx⟩
  simp [wfKws, kw, wfNode, kwOf, kwOfStr, wfLeaf, simpleType, isBoolJ]

theorem wf_tupKws (D : Defs) (u : Bool) (ss : List PyVal) (hne : ss.isEmpty = false)
    (hs : wfList D ss = true) : wfDraft4 D (.dict (tupKws u ss)) = true := by
  simp only [wfDraft4]
  suffices hh : ∀ ctx, wfKws D ctx (tupKws u ss) = true from hh _
  intro ctx
  simp only [tupKws, wfKws_append, and_true_iff']
  refine ⟨⟨wf_typeKw D ctx "array" (Or.inl rfl), wf_uniqKw D ctx u⟩, ?_⟩
  simp [wfKws, kw, wfNode, kwOf, kwOfStr, wfListV, hs, hne]

theorem wf_mapKws (D : Defs) (key : Option FieldDecl) (vs : Option PyVal) (sz : SizeOpts)
    (hv : ∀ s, vs = some s → wfDraft4 D s = true) :
    wfDraft4 D (.dict (mapKws key vs sz)) = true := by
  simp only [wfDraft4]
  suffices hh : ∀ ctx, wfKws D ctx (mapKws key vs sz) = true from hh _
  intro ctx
  simp only [mapKws, wfKws_append, and_true_iff']
  have h2 := wf_sizeKws_obj D ctx sz
  refine ⟨⟨⟨wf_typeKw D ctx "object" (Or.inr (Or.inl rfl)), ?_⟩, h2.1⟩, h2.2⟩
  cases key with
  | none => rfl
  | some k =>
    cases vs with
    | none => rfl
    | some s =>
      have hs := hv s rfl
      cases hk : (mapKeyPattern k != "") with
      | true =>
        simp only [hk, if_true]
        simp [wfKws, kw, wfNode, kwOf, kwOfStr, wfPropsV, wfProps, isStrJ, hs]
      | false =>
        simp only [hk, Bool.false_eq_true, if_false]
        cases s <;> simp [wfDraft4] at hs
        simp [wfKws, kw, wfNode, kwOf, kwOfStr, wfDraft4, hs]

theorem wf_listKw (D : Defs) (k : String) (hk : k = "anyOf" ∨ k = "oneOf" ∨ k = "allOf")
    (ss : List PyVal) (hne : ss.isEmpty = false) (hs : wfList D ss = true) :
    wfDraft4 D (.dict [kw k (.list ss)]) = true := by
  rcases hk with rfl | rfl | rfl <;>
    simp [wfDraft4, wfKws, kw, wfNode, kwOf, kwOfStr, wfListV, hs, hne]

/-! ### `default` -/

/-- `wfNode` looks at the enclosing object only through `maximum` / `minimum` -/
theorem c08_wfNode_ctx (D : Defs) (ctx ctx' : List (PyVal × PyVal)) (k v : PyVal) (one lst props : Unit → Bool)
    (hmax : getKw "maximum" ctx' = getKw "maximum" ctx) (hmin : getKw "minimum" ctx' = getKw "minimum" ctx) :
    wfNode D ctx' k v one lst props = wfNode D ctx k v one lst props := by
  unfold wfNode
  rw [hmax, hmin]

theorem c08_wfKws_ctx (D : Defs) (ctx ctx' : List (PyVal × PyVal))
    (hmax : getKw "maximum" ctx' = getKw "maximum" ctx) (hmin : getKw "minimum" ctx' = getKw "minimum" ctx) :
    ∀ kws : List (PyVal × PyVal), wfKws D ctx' kws = wfKws D ctx kws
  | [] => by simp [wfKws]
  | (k, v) :: rest => by
    simp only [wfKws, c08_wfNode_ctx D ctx ctx' k v _ _ _ hmax hmin, c08_wfKws_ctx D ctx ctx' hmax hmin rest]

theorem c08_wfNode_default (D : Defs) (ctx : List (PyVal × PyVal)) (k v : PyVal) (one lst props : Unit → Bool)
    (hk : keyIs "default" k = true) (hv : jsonOnly v = true) : wfNode D ctx k v one lst props = true := by
  cases k <;> simp [keyIs] at hk
  subst hk
  simp [wfNode, kwOf, kwOfStr, keyIs, hv]

theorem c08_wfKws_setKw_default (D : Defs) (ctx : List (PyVal × PyVal)) (v : PyVal) (hv : jsonOnly v = true) :
    ∀ kws : List (PyVal × PyVal), wfKws D ctx kws = true → wfKws D ctx (setKw "default" v kws) = true
  | [], _ => by
    simp only [setKw, wfKws, Bool.and_true]
    exact c08_wfNode_default D ctx _ v _ _ _ (by simp [kw, keyIs]) hv
  | (k, w) :: rest, h => by
    simp only [wfKws, and_true_iff'] at h
    simp only [setKw]
    split
    · rename_i hk
      simp only [wfKws, and_true_iff']
      exact ⟨c08_wfNode_default D ctx k v _ _ _ hk hv, h.2⟩
    · simp only [wfKws, and_true_iff']
      exact ⟨h.1, c08_wfKws_setKw_default D ctx v hv rest h.2⟩

/-- writing a JSON `default` into a well-formed schema keeps it well-formed -/
theorem c08_wf_addDefault (D : Defs) (s : PyVal) (d : Option PyVal) (hs : wfDraft4 D s = true)
    (hd : ∀ v, d = some v → jsonOnly (defaultJ v) = true) : wfDraft4 D (addDefault s d) = true := by
  cases d with
  | none => exact hs
  | some v =>
    cases s <;> simp [wfDraft4] at hs
    rename_i kvs
    simp only [addDefault, wfDraft4]
    rw [c08_wfKws_ctx D kvs _ (c08_getKw_setKw_ne "maximum" "default" _ (by decide) kvs)
      (c08_getKw_setKw_ne "minimum" "default" _ (by decide) kvs)]
    exact c08_wfKws_setKw_default D kvs _ (hd v rfl) kvs hs

theorem c08_lookup_mem {α} (n : String) (v : α) : ∀ xs : List (String × α), lookup n xs = some v →
    ∃ k, (k, v) ∈ xs
  | [], h => by simp [lookup] at h
  | (k, w) :: rest, h => by
    simp only [lookup] at h
    split at h
    · cases h; exact ⟨k, by simp⟩
    · obtain ⟨k', hk'⟩ := c08_lookup_mem n v rest h
      exact ⟨k', by simp [hk']⟩

theorem c08_wf_propsOf (D : Defs) (defaults : List (String × PyVal)) (hd : defaultsJson defaults = true) :
    ∀ fields : List (String × PyVal),
    (∀ n s, (n, s) ∈ fields → wfDraft4 D s = true) → wfProps D (propsOf defaults fields) = true
  | [], _ => rfl
  | (n, s) :: rest, h => by
    simp only [propsOf, wfProps, kw, isStrJ, Bool.true_and, and_true_iff']
    refine ⟨c08_wf_addDefault D s _ (h n s (by simp)) ?_,
      c08_wf_propsOf D defaults hd rest (fun n' s' hm => h n' s' (by simp [hm]))⟩
    intro v hv
    obtain ⟨k, hk⟩ := c08_lookup_mem n v defaults hv
    simp only [defaultsJson, List.all_eq_true] at hd
    exact hd (k, v) hk

theorem c08_wf_classObj (D : Defs) (c : ClassOpts) (defaults : List (String × PyVal))
    (fields : List (String × PyVal))
    (hreq : (schemaRequired c defaults).isEmpty = false) (hnd : nodupS (schemaRequired c defaults) = true)
    (hd : defaultsJson defaults = true)
    (hf : ∀ n s, (n, s) ∈ fields → wfDraft4 D s = true) :
    wfDraft4 D (classObj c defaults fields) = true := by
  unfold classObj
  simp only [wfDraft4, wfKws, and_true_iff', Bool.and_true]
  refine ⟨?_, ?_, ?_, ?_⟩
  · simp [kw, wfNode, kwOf, kwOfStr, wfLeaf, simpleType]
  · simp [kw, wfNode, kwOf, kwOfStr, wfPropsV, c08_wf_propsOf D defaults hd fields hf]
  · simp only [kw, wfNode, kwOf, kwOfStr, wfLeaf]
    simp [jsonNodup_map_str _ hnd, isStrJ]
    cases hc : schemaRequired c defaults with
    | nil => simp [hc] at hreq
    | cons a as => simp
  · simp [kw, wfNode, kwOf, kwOfStr]

theorem wf_refTo (D : Defs) (name : String) (h : (lookup ("#/definitions/" ++ name) D).isSome = true) :
    wfDraft4 D (refTo name) = true := by
  simp [refTo, wfDraft4, wfKws, kw, wfNode, kwOf, kwOfStr, keyIs, h]

/-- the element-position wrapper `{"anyOf": [s, {"type": "null"}]}` of a well-formed schema is well-formed -/
theorem c08_wf_elemWrap (D : Defs) (f : FieldDecl) (s : PyVal) (h : wfDraft4 D s = true) :
    wfDraft4 D (elemWrap f s) = true := by
  unfold elemWrap
  split
  · cases s with
    | dict kvs =>
      simp only []
      have hn : wfDraft4 D nullSchema = true := by
        simp [nullSchema, wfDraft4, wfKws, kw, wfNode, kwOf, kwOfStr, wfLeaf, simpleType]
      refine wf_listKw D "anyOf" (Or.inl rfl) _ (by simp) ?_
      simp [wfList, h, hn]
    | _ => exact h
  · exact h

/-! ### the induction -/

theorem wfList_of (D : Defs) : ∀ ss : List PyVal, (∀ s ∈ ss, wfDraft4 D s = true) → wfList D ss = true
  | [], _ => rfl
  | s :: ss, h => by
    simp only [wfList, and_true_iff']
    exact ⟨h s (by simp), wfList_of D ss (fun t ht => h t (by simp [ht]))⟩

theorem emitLW_isEmpty (fx : Bool) (fs : List FieldDecl) : (emitLW fx fs).isEmpty = fs.isEmpty := by
  cases fs <;> simp [emitLW]

theorem emitL_isEmpty (fx : Bool) (fs : List FieldDecl) : (emitL fx fs).isEmpty = fs.isEmpty := by
  cases fs <;> simp [emitL]

mutual
theorem wf_field (D : Defs) : ∀ f : FieldDecl, wfFragF f = true → RefsResolve D f →
    wfDraft4 D (emit true f) = true
  | .number o, hf, _ => by
    simp only [wfFragF] at hf; simp only [emit]; exact wf_numKws D "number" (Or.inl rfl) false o hf
  | .integer o, hf, _ => by
    simp only [wfFragF] at hf; simp only [emit]; exact wf_numKws D "integer" (Or.inr rfl) true o hf
  | .float o, hf, _ => by
    simp only [wfFragF] at hf; simp only [emit]; exact wf_numKws D "number" (Or.inl rfl) false o hf
  | .string lo hi pat, _, _ => by simp only [emit]; exact wf_strKws D lo hi pat
  | .boolean, _, _ => by
    simp [emit, wfDraft4, wfKws, kw, wfNode, kwOf, kwOfStr, wfLeaf, simpleType]
  | .enumLit vs, hf, _ => by
    simp only [wfFragF, and_true_iff'] at hf
    have hne : vs.isEmpty = false := by simpa using hf.1.1
    simp [emit, wfDraft4, wfKws, kw, wfNode, kwOf, kwOfStr, wfLeaf, hf.2, hne]
  | .enumCls _ names, hf, _ => by
    simp only [wfFragF, and_true_iff'] at hf
    have hne : names.isEmpty = false := by simpa using hf.1
    simp only [emit, wfDraft4, wfKws, kw, wfNode, kwOf, kwOfStr, wfLeaf, Bool.and_true]
    simp [jsonNodup_map_str names hf.2]
    cases names with
    | nil => simp at hne
    | cons a as => simp
  | .seqAny _ sz, _, _ => by
    simp only [emit]
    exact wf_arrKws D sz true none (fun _ => rfl)
  | .seqOf _ f sz, hf, hrf => by
    simp only [wfFragF, and_true_iff'] at hf
    simp only [RefsResolve] at hrf
    simp only [emit]
    exact wf_arrKws D sz true (some (elemWrap f (emit true f)))
      (fun ctx => wf_itemsSingle D ctx _ (c08_wf_elemWrap D f _ (wf_field D f hf.2 hrf)))
  | .seqPos _ fs addl sz, hf, hrf => by
    simp only [wfFragF, and_true_iff'] at hf
    simp only [RefsResolve] at hrf
    simp only [emit]
    refine wf_arrKws D sz addl (some (.list (emitLW true fs))) (fun ctx => wf_itemsList D ctx _ ?_ ?_)
    · rw [emitLW_isEmpty]; simpa using hf.1.2
    · exact wfList_of D _ (wf_listW D fs hf.2 hrf)
  | .setAny _ sz, _, _ => by
    simp only [emit]; exact wf_setKws D sz none (fun _ => rfl)
  | .setOf _ f sz, hf, hrf => by
    simp only [wfFragF] at hf
    simp only [RefsResolve] at hrf
    simp only [emit]
    exact wf_setKws D sz (some (elemWrap f (emit true f)))
      (fun ctx => wf_itemsSingle D ctx _ (c08_wf_elemWrap D f _ (wf_field D f hf hrf)))
  | .tupleOf f u, hf, hrf => by
    simp only [wfFragF] at hf
    simp only [RefsResolve] at hrf
    simp only [emit]
    exact wf_arrKws D { uniq := u } true (some (elemWrap f (emit true f)))
      (fun ctx => wf_itemsSingle D ctx _ (c08_wf_elemWrap D f _ (wf_field D f hf hrf)))
  | .tuplePos fs u, hf, hrf => by
    simp only [wfFragF, and_true_iff'] at hf
    simp only [RefsResolve] at hrf
    simp only [emit]
    refine wf_tupKws D u (emitLW true fs) ?_ (wfList_of D _ (wf_listW D fs hf.2 hrf))
    rw [emitLW_isEmpty]; simpa using hf.1
  | .mapAny sz, _, _ => by
    simp only [emit]
    exact wf_mapKws D none none sz (fun _ h => by cases h)
  | .mapOf k v sz, hf, hrf => by
    simp only [wfFragF, and_true_iff'] at hf
    simp only [RefsResolve] at hrf
    simp only [emit]
    refine wf_mapKws D (some k) (some (elemWrap v (emit true v))) sz ?_
    intro s hs; cases hs; exact c08_wf_elemWrap D v _ (wf_field D v hf.2 hrf)
  | .struct c fields defaults, hf, hrf => by
    simp only [wfFragF, and_true_iff'] at hf
    obtain ⟨⟨⟨hreq, hnd⟩, hdef⟩, hfp⟩ := hf
    simp only [RefsResolve] at hrf
    simp only [emit]
    cases hin : c.inline with
    | false =>
      simp only [Bool.false_eq_true, if_false]
      apply wf_refTo
      rcases hrf.1 with h | h
      · simp [hin] at h
      · exact h
    | true =>
      simp only [if_true]
      rw [retype_classObj]
      refine c08_wf_classObj D c defaults _ (by simpa using hreq) hnd hdef ?_
      intro n s hm
      obtain ⟨f, hmf, rfl⟩ := emitP_mem true n s fields hm
      exact wf_fields D fields hfp hrf.2 n f hmf
  | .anyOf fs, hf, hrf => by
    simp only [RefsResolve] at hrf
    simp only [emit]
    cases hos : optShape fs with
    | true =>
      simp only [wfFragF, hos, if_true] at hf
      obtain ⟨f, rfl, hnf⟩ := optShape_inv fs hos
      have hemit : anyOfShape [f, FieldDecl.noneF] (emitL true [f, FieldDecl.noneF]) = emit true f := by
        simp [anyOfShape, emitL]
      rw [hemit]
      exact wf_opt D [f, .noneF] hf hrf f (by simp) hnf
    | false =>
      simp only [wfFragF, hos, Bool.false_eq_true, if_false, and_true_iff'] at hf
      have hshape : anyOfShape fs (emitL true fs) = .dict [kw "anyOf" (.list (emitL true fs))] := by
        unfold anyOfShape
        split
        · simp [wfFragL, wfFragF] at hf
        · rfl
      rw [hshape]
      refine wf_listKw D "anyOf" (Or.inl rfl) _ ?_ (wfList_of D _ (wf_list D fs hf.2 hrf))
      rw [emitL_isEmpty]; simpa using hf.1
  | .oneOf fs, hf, hrf => by
    simp only [wfFragF, and_true_iff'] at hf
    simp only [RefsResolve] at hrf
    simp only [emit]
    refine wf_listKw D "oneOf" (Or.inr (Or.inl rfl)) _ ?_ (wfList_of D _ (wf_list D fs hf.2 hrf))
    rw [emitL_isEmpty]; simpa using hf.1
  | .allOf fs, hf, hrf => by
    simp only [wfFragF, and_true_iff'] at hf
    simp only [RefsResolve] at hrf
    simp only [emit]
    refine wf_listKw D "allOf" (Or.inr (Or.inr rfl)) _ ?_ (wfList_of D _ (wf_list D fs hf.2 hrf))
    rw [emitL_isEmpty]; simpa using hf.1
  | .notF fs, hf, hrf => by
    simp only [wfFragF, and_true_iff'] at hf
    simp only [RefsResolve] at hrf
    have hne : (emitL true fs).isEmpty = false := by rw [emitL_isEmpty]; simpa using hf.1
    have hl : wfList D (emitL true fs) = true := wfList_of D _ (wf_list D fs hf.2 hrf)
    simp only [emit, notVal, if_true]
    simp [wfDraft4, wfKws, kw, wfNode, kwOf, kwOfStr, wfListV, hl, hne]
  | .noneF, hf, _ => by simp [wfFragF] at hf
  | .anything, hf, _ => by simp [wfFragF] at hf

theorem wf_list (D : Defs) : ∀ fs : List FieldDecl, wfFragL fs = true → RefsResolveL D fs →
    ∀ s ∈ emitL true fs, wfDraft4 D s = true
  | [], _, _, s, h => by simp [emitL] at h
  | f :: fs, hf, hrf, s, h => by
    simp only [wfFragL, and_true_iff'] at hf
    simp only [RefsResolveL] at hrf
    simp only [emitL] at h
    rcases List.mem_cons.mp h with rfl | h'
    · exact wf_field D f hf.1 hrf.1
    · exact wf_list D fs hf.2 hrf.2 s h'

theorem wf_listW (D : Defs) : ∀ fs : List FieldDecl, wfFragL fs = true → RefsResolveL D fs →
    ∀ s ∈ emitLW true fs, wfDraft4 D s = true
  | [], _, _, s, h => by simp [emitLW] at h
  | f :: fs, hf, hrf, s, h => by
    simp only [wfFragL, and_true_iff'] at hf
    simp only [RefsResolveL] at hrf
    simp only [emitLW] at h
    rcases List.mem_cons.mp h with rfl | h'
    · exact c08_wf_elemWrap D f _ (wf_field D f hf.1 hrf.1)
    · exact wf_listW D fs hf.2 hrf.2 s h'

theorem wf_opt (D : Defs) : ∀ fs : List FieldDecl, wfFragOpt fs = true → RefsResolveL D fs →
    ∀ f ∈ fs, isNoneF f = false → wfDraft4 D (emit true f) = true
  | [], _, _, _, h, _ => by simp at h
  | g :: fs, hf, hrf, f, hm, hnf => by
    simp only [wfFragOpt, and_true_iff'] at hf
    simp only [RefsResolveL] at hrf
    rcases List.mem_cons.mp hm with heq | hm'
    · have heq' := heq.symm
      subst heq'
      exact wf_field D g (by simpa [hnf] using hf.1) hrf.1
    · exact wf_opt D fs hf.2 hrf.2 f hm' hnf

theorem wf_fields (D : Defs) : ∀ fields : List (String × FieldDecl), wfFragP fields = true →
    RefsResolveP D fields → ∀ n f, (n, f) ∈ fields → wfDraft4 D (emit true f) = true
  | [], _, _, _, _, h => by simp at h
  | (k, g) :: fields, hf, hrf, n, f, hm => by
    simp only [wfFragP, and_true_iff'] at hf
    simp only [RefsResolveP] at hrf
    rcases List.mem_cons.mp hm with heq | hm'
    · have heq' : g = f := (Prod.mk.inj heq).2.symm
      subst heq'
      exact wf_field D g hf.1 hrf.1
    · exact wf_fields D fields hf.2 hrf.2 n f hm'
end

/-- `schema_wellformed` for the schema of a top-level class (every `$ref` in it resolves) -/
theorem wf_class (D : Defs) (cls : FieldDecl) (hfrag : inWfFragment cls = true)
    (hrefs : ClassRefsResolve D cls) : wfDraft4 D (classSchema true cls) = true := by
  cases cls with
  | struct c fields defaults =>
    simp only [inWfFragment, and_true_iff'] at hfrag
    obtain ⟨hni, hrest⟩ := hfrag
    simp only [ClassRefsResolve] at hrefs
    simp only [classSchema]
    cases hcol : collapses c (fields.map (·.1)) with
    | true =>
      simp only [hcol, if_true] at hrest
      have hfp := hrest
      unfold structShape
      rw [emitP_names]
      simp only [hcol, if_true]
      cases hfs : fields with
      | nil => simp [hfs, collapses] at hcol
      | cons p ps =>
        obtain ⟨n, f⟩ := p
        simp only [emitP]
        exact wf_fields D fields (by rw [hfs] at hfp; rw [hfs]; exact hfp) (by rw [hfs] at hrefs; rw [hfs]; exact hrefs)
          n f (by rw [hfs]; simp)
    | false =>
      simp only [hcol, Bool.false_eq_true, if_false, wfFragF, and_true_iff'] at hrest
      obtain ⟨⟨⟨hreq, hnd⟩, hdef⟩, hfp⟩ := hrest
      have hs : structShape c defaults (emitP true fields) = classObj c defaults (emitP true fields) := by
        unfold structShape; rw [emitP_names]; simp [hcol]
      rw [hs]
      refine c08_wf_classObj D c defaults _ (by simpa using hreq) hnd hdef ?_
      intro n s hm
      obtain ⟨f, hmf, rfl⟩ := emitP_mem true n s fields hm
      exact wf_fields D fields hfp hrefs n f hmf
  | _ => simp [inWfFragment] at hfrag

end Typedpy.Sch
