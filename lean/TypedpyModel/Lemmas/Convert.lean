/-
  Lemmas/Convert.lean — frame lemmas for `_convert`, version bookkeeping of the `convert_dict` loop,
  list-slicing facts.  Used by Props/C17.lean.
-/
import TypedpyModel.Spec.ConvertSpec
namespace Typedpy.Convert

theorem bindE_eq_ok {α β} {r : R α} {k : α → R β} {z : β} (h : bindE r k = .ok z) :
    ∃ y, r = .ok y ∧ k y = .ok z := by
  cases r with
  | error e => simp at h
  | ok y => exact ⟨y, rfl, by simpa using h⟩

theorem bindE_eq_error {α β} {r : R α} {k : α → R β} {e : Err} (h : bindE r k = .error e) :
    r = .error e ∨ ∃ y, r = .ok y ∧ k y = .error e := by
  cases r with
  | error e' => left; simpa using h
  | ok y => right; exact ⟨y, rfl, by simpa using h⟩

/-! ### association-list facts -/

theorem get_set_same (k : String) (v : Json) : ∀ o : Obj, get k (set k v o) = some v
  | [] => by simp [set, get]
  | (k', v') :: r => by
    by_cases h : k' = k
    · simp [set, get, h]
    · simp [set, get, h, get_set_same k v r]

theorem get_set_other {k q : String} (v : Json) (h : k ≠ q) : ∀ o : Obj, get q (set k v o) = get q o
  | [] => by simp [set, get, h]
  | (k', v') :: r => by
    by_cases hk : k' = k
    · subst hk; simp [set, get, h]
    · by_cases hq : k' = q
      · subst hq; simp [set, get, hk]
      · simp [set, get, hk, hq, get_set_other v h r]

theorem get_erase_same (k : String) : ∀ o : Obj, get k (erase k o) = none
  | [] => by simp [erase, get]
  | (k', v') :: r => by
    have ih := get_erase_same k r
    simp only [erase] at ih
    by_cases hk : k' = k
    · subst hk; simp [erase, ih]
    · simp [erase, hk, get, ih]

theorem get_erase_other {k q : String} (h : k ≠ q) : ∀ o : Obj, get q (erase k o) = get q o
  | [] => by simp [erase, get]
  | (k', v') :: r => by
    have ih := get_erase_other h r
    simp only [erase] at ih
    by_cases hk : k' = k
    · subst hk; simp [erase, get, h, ih]
    · by_cases hq : k' = q
      · subst hq; simp [erase, hk, get]
      · simp [erase, hk, get, hq, ih]

theorem get_erase_none {k q : String} (o : Obj) (h : get q o = none) : get q (erase k o) = none := by
  by_cases hk : k = q
  · subst hk; exact get_erase_same k o
  · rw [get_erase_other hk]; exact h

/-! ### frame: `_convert` leaves every key alone that the mapping has no entry for -/

def cWrites (q : String) (m : CMapping) : Bool := m.any fun p => p.1 == q

theorem cWrites_cons {q k : String} {e : CEntry} {r : CMapping} (h : cWrites q ((k, e) :: r) = false) :
    k ≠ q ∧ cWrites q r = false := by
  simp only [cWrites, List.any_cons, Bool.or_eq_false_iff] at h
  exact ⟨by simpa using h.1, h.2⟩

theorem step1_frame {k q : String} (e : CEntry) (inp out out' : Obj) (hk : k ≠ q)
    (h : step1 k e inp out = .ok out') : get q out' = get q out := by
  cases e with
  | const v => simp only [step1] at h; cases h; exact get_set_other v hk out
  | deleted => simp only [step1] at h; cases h; rfl
  | move p => simp only [step1] at h; cases h; rfl
  | fn g args =>
    simp only [step1] at h
    rcases bindE_eq_ok h with ⟨r, _, h2⟩
    cases h2; exact get_set_other r hk out
  | sub f =>
    simp only [step1] at h
    split at h
    · cases h; rfl
    · cases h; rfl
    · rcases bindE_eq_ok h with ⟨ys, _, h2⟩
      cases h2; exact get_set_other _ hk out
    · rcases bindE_eq_ok h with ⟨c', _, h2⟩
      cases h2; exact get_set_other _ hk out

theorem loop1_frame {q : String} : ∀ (m : CMapping) (inp out out' : Obj), cWrites q m = false →
    loop1 m inp out = .ok out' → get q out' = get q out
  | [], _, out, out', _, h => by simp only [loop1] at h; cases h; rfl
  | (k, e) :: r, inp, out, out', hw, h => by
    simp only [loop1] at h
    rcases bindE_eq_ok h with ⟨o1, h1, h2⟩
    have hc := cWrites_cons hw
    rw [loop1_frame r inp o1 out' hc.2 h2, step1_frame e inp out o1 hc.1 h1]

theorem loop2_frame {q : String} : ∀ (m : CMapping) (out : Obj), cWrites q m = false →
    get q (loop2 m out) = get q out
  | [], out, _ => by simp [loop2]
  | (k, e) :: r, out, hw => by
    have hc := cWrites_cons hw
    cases e with
    | move p => simp only [loop2]; rw [loop2_frame r _ hc.2, get_set_other _ hc.1]
    | const v => simp only [loop2]; exact loop2_frame r out hc.2
    | deleted => simp only [loop2]; exact loop2_frame r out hc.2
    | sub f => simp only [loop2]; exact loop2_frame r out hc.2
    | fn g a => simp only [loop2]; exact loop2_frame r out hc.2

theorem loop3_frame {q : String} : ∀ (m : CMapping) (out : Obj), cWrites q m = false →
    get q (loop3 m out) = get q out
  | [], out, _ => by simp [loop3]
  | (k, e) :: r, out, hw => by
    have hc := cWrites_cons hw
    cases e with
    | deleted => simp only [loop3]; rw [loop3_frame r _ hc.2, get_erase_other hc.1]
    | const v => simp only [loop3]; exact loop3_frame r out hc.2
    | move p => simp only [loop3]; exact loop3_frame r out hc.2
    | sub f => simp only [loop3]; exact loop3_frame r out hc.2
    | fn g a => simp only [loop3]; exact loop3_frame r out hc.2

theorem convShape_obj_frame {q : String} (m : CMapping) (kvs : Obj) (r : Json)
    (hw : cWrites q m = false) (h : convShape m (.obj kvs) = .ok r) :
    ∃ kvs', r = .obj kvs' ∧ get q kvs' = get q kvs := by
  simp only [convShape] at h
  rcases bindE_eq_ok h with ⟨o1, h1, h2⟩
  cases h2
  exact ⟨_, rfl, by rw [loop3_frame m _ hw, loop2_frame m _ hw, loop1_frame m kvs kvs o1 hw h1]⟩

theorem cWrites_compileMap (q : String) : ∀ m : Mapping, cWrites q (compileMap m) = writesKey q m
  | [] => by simp [compileMap, cWrites, writesKey]
  | (k, e) :: r => by
    have ih := cWrites_compileMap q r
    simp only [cWrites, writesKey] at ih
    simp only [compileMap, cWrites, writesKey, List.any_cons, ih]

/-- **frame property of `_convert`**: a top-level key the mapping has no entry for keeps its value (or stays
    absent), and a dict is converted to a dict -/
theorem convert_frame {q : String} (m : Mapping) (kvs : Obj) (r : Json)
    (hw : writesKey q m = false) (h : convert m (.obj kvs) = .ok r) :
    ∃ kvs', r = .obj kvs' ∧ get q kvs' = get q kvs :=
  convShape_obj_frame (compileMap m) kvs r (by rw [cWrites_compileMap]; exact hw) h

/-- `_convert` with the empty mapping is the (deep-copied) identity -/
theorem convert_nil (d : Json) : convert [] d = .ok d := by
  cases d <;> simp [convert, compileMap, convShape, loop1, loop2, loop3, nonObj1, nonObj2, nonObj3]

/-! ### the `deleted` and `constant` clauses of the single-step contract -/

theorem loop3_deleted {k : String} : ∀ (m : CMapping) (out : Obj),
    ((k, CEntry.deleted) ∈ m ∨ get k out = none) → get k (loop3 m out) = none
  | [], out, h => by
    rcases h with h | h
    · cases h
    · simpa [loop3] using h
  | (k', e) :: r, out, h => by
    cases e with
    | deleted =>
      simp only [loop3]
      apply loop3_deleted r
      rcases h with h | h
      · rcases List.mem_cons.mp h with h | h
        · cases h; right; exact get_erase_same k out
        · left; exact h
      · right; exact get_erase_none out h
    | const v =>
      simp only [loop3]; apply loop3_deleted r
      rcases h with h | h
      · rcases List.mem_cons.mp h with h | h
        · cases h
        · left; exact h
      · right; exact h
    | move p =>
      simp only [loop3]; apply loop3_deleted r
      rcases h with h | h
      · rcases List.mem_cons.mp h with h | h
        · cases h
        · left; exact h
      · right; exact h
    | sub f =>
      simp only [loop3]; apply loop3_deleted r
      rcases h with h | h
      · rcases List.mem_cons.mp h with h | h
        · cases h
        · left; exact h
      · right; exact h
    | fn g a =>
      simp only [loop3]; apply loop3_deleted r
      rcases h with h | h
      · rcases List.mem_cons.mp h with h | h
        · cases h
        · left; exact h
      · right; exact h

theorem mem_compileMap {k : String} {e : Entry} : ∀ m : Mapping, (k, e) ∈ m → (k, e.compile) ∈ compileMap m
  | [], h => by cases h
  | (k', e') :: r, h => by
    simp only [compileMap]
    rcases List.mem_cons.mp h with h | h
    · cases h; exact List.mem_cons_self
    · exact List.mem_cons_of_mem _ (mem_compileMap r h)

theorem mem_compileMap_inv {k : String} {ce : CEntry} : ∀ m : Mapping, (k, ce) ∈ compileMap m →
    ∃ e, (k, e) ∈ m ∧ ce = e.compile
  | [], h => by simp [compileMap] at h
  | (k', e') :: r, h => by
    simp only [compileMap] at h
    rcases List.mem_cons.mp h with h | h
    · cases h; exact ⟨e', List.mem_cons_self, rfl⟩
    · rcases mem_compileMap_inv r h with ⟨e, he, hc⟩
      exact ⟨e, List.mem_cons_of_mem _ he, hc⟩

/-- loop 1 establishes / keeps a constant whose key has no other entry -/
theorem loop1_const {k : String} {v : Json} : ∀ (m : CMapping) (inp out out' : Obj),
    (∀ e, (k, e) ∈ m → e = CEntry.const v) → loop1 m inp out = .ok out' →
    ((k, CEntry.const v) ∈ m ∨ get k out = some v) → get k out' = some v
  | [], _, out, out', _, h, hm => by
    simp only [loop1] at h; cases h
    rcases hm with hm | hm
    · cases hm
    · exact hm
  | (k', e) :: r, inp, out, out', hu, h, hm => by
    simp only [loop1] at h
    rcases bindE_eq_ok h with ⟨o1, h1, h2⟩
    apply loop1_const r inp o1 out' (fun e he => hu e (List.mem_cons_of_mem _ he)) h2
    by_cases hk : k' = k
    · subst hk
      have := hu e List.mem_cons_self
      subst this
      simp only [step1] at h1; cases h1
      right; exact get_set_same _ _ _
    · rcases hm with hm | hm
      · rcases List.mem_cons.mp hm with hm | hm
        · cases hm; exact absurd rfl hk
        · left; exact hm
      · right; rw [step1_frame e inp out o1 hk h1]; exact hm

theorem loop2_const {k : String} {v : Json} : ∀ (m : CMapping) (out : Obj),
    (∀ e, (k, e) ∈ m → e = CEntry.const v) → get k (loop2 m out) = get k out
  | [], out, _ => by simp [loop2]
  | (k', e) :: r, out, hu => by
    have hr : ∀ e, (k, e) ∈ r → e = CEntry.const v := fun e he => hu e (List.mem_cons_of_mem _ he)
    cases e with
    | move p =>
      have hk : k' ≠ k := by
        intro hk; subst hk
        have := hu _ List.mem_cons_self
        cases this
      simp only [loop2]; rw [loop2_const r _ hr, get_set_other _ hk]
    | const v' => simp only [loop2]; exact loop2_const r out hr
    | deleted => simp only [loop2]; exact loop2_const r out hr
    | sub f => simp only [loop2]; exact loop2_const r out hr
    | fn g a => simp only [loop2]; exact loop2_const r out hr

theorem loop3_const {k : String} {v : Json} : ∀ (m : CMapping) (out : Obj),
    (∀ e, (k, e) ∈ m → e = CEntry.const v) → get k (loop3 m out) = get k out
  | [], out, _ => by simp [loop3]
  | (k', e) :: r, out, hu => by
    have hr : ∀ e, (k, e) ∈ r → e = CEntry.const v := fun e he => hu e (List.mem_cons_of_mem _ he)
    cases e with
    | deleted =>
      have hk : k' ≠ k := by
        intro hk; subst hk
        have := hu _ List.mem_cons_self
        cases this
      simp only [loop3]; rw [loop3_const r _ hr, get_erase_other hk]
    | const v' => simp only [loop3]; exact loop3_const r out hr
    | move p => simp only [loop3]; exact loop3_const r out hr
    | sub f => simp only [loop3]; exact loop3_const r out hr
    | fn g a => simp only [loop3]; exact loop3_const r out hr

/-! ### version bookkeeping of the loop -/

theorem docVersion_obj {d : Json} {v : Int} (h : docVersion d = some v) :
    ∃ kvs, d = .obj kvs ∧ get "version" kvs = some (.int v) := by
  cases d with
  | obj kvs =>
    refine ⟨kvs, rfl, ?_⟩
    simp only [docVersion] at h
    split at h
    · rename_i i hi; cases h; exact hi
    · cases h
  | _ => simp [docVersion] at h

theorem docVersion_of_get {kvs : Obj} {v : Int} (h : get "version" kvs = some (.int v)) :
    docVersion (.obj kvs) = some v := by
  simp [docVersion, h]

theorem effectiveVersion_obj {d : Json} {v : Int} (h : effectiveVersion d = some v) :
    ∃ kvs, d = .obj kvs ∧ startVersion kvs = .ok v := by
  cases d with
  | obj kvs =>
    refine ⟨kvs, rfl, ?_⟩
    simp only [effectiveVersion] at h
    simp only [startVersion]
    split at h
    · rename_i hn; cases h; simp [hn]
    · rename_i i hi; cases h; simp [hi, versionInt]
    · rename_i hi; cases h; simp [hi, versionInt]
    · cases h
  | _ => simp [effectiveVersion] at h

theorem effectiveVersion_of_docVersion {d : Json} {v : Int} (h : docVersion d = some v) :
    effectiveVersion d = some v := by
  rcases docVersion_obj h with ⟨kvs, rfl, hg⟩
  simp [effectiveVersion, hg]

/-- `_convert` maps a dict to a dict -/
theorem convert_obj (m : Mapping) (kvs : Obj) (r : Json) (h : convert m (.obj kvs) = .ok r) :
    ∃ kvs', r = .obj kvs' := by
  simp only [convert, convShape] at h
  rcases bindE_eq_ok h with ⟨o1, _, h2⟩
  cases h2
  exact ⟨_, rfl⟩

/-- one iteration of the loop on a dict yields a dict whose version is the counter, whatever the mapping did -/
theorem step_version {m : Mapping} {kvs : Obj} {d' d'' : Json} {v : Int}
    (h1 : convert m (.obj kvs) = .ok d') (h2 : setVersion v d' = .ok d'') : docVersion d'' = some v := by
  rcases convert_obj m kvs d' h1 with ⟨kvs', rfl⟩
  simp only [setVersion] at h2
  cases h2
  exact docVersion_of_get (get_set_same _ _ _)

/-- the loop over `steps`, started with counter `v` on a document carrying version `v`, ends at `v + steps.length` -/
theorem runSteps_version : ∀ (steps : List Mapping) (d r : Json) (v : Int),
    docVersion d = some v → runSteps steps v d = .ok r → docVersion r = some (v + steps.length)
  | [], d, r, v, hv, h => by simp only [runSteps] at h; cases h; simpa using hv
  | m :: ms, d, r, v, hv, h => by
    simp only [runSteps] at h
    rcases bindE_eq_ok h with ⟨d', h1, h'⟩
    rcases bindE_eq_ok h' with ⟨d'', h2, h3⟩
    rcases docVersion_obj hv with ⟨kvs, rfl, _⟩
    have := runSteps_version ms d'' r (v + 1) (step_version h1 h2) h3
    rw [this]; simp only [List.length_cons]; congr 1; omega

/-- after at least one step the version is the counter, whatever version key the start document had -/
theorem runSteps_version_cons (m : Mapping) (ms : List Mapping) (kvs : Obj) (r : Json) (v : Int)
    (h : runSteps (m :: ms) v (.obj kvs) = .ok r) : docVersion r = some (v + (m :: ms).length) := by
  simp only [runSteps] at h
  rcases bindE_eq_ok h with ⟨d', h1, h'⟩
  rcases bindE_eq_ok h' with ⟨d'', h2, h3⟩
  have := runSteps_version ms d'' r (v + 1) (step_version h1 h2) h3
  rw [this]; simp only [List.length_cons]; congr 1; omega

/-- the same for the effective version (a document without `version` key is at version 1) -/
theorem runSteps_effVersion (steps : List Mapping) (d r : Json) (v : Int)
    (hv : effectiveVersion d = some v) (h : runSteps steps v d = .ok r) :
    effectiveVersion r = some (v + steps.length) := by
  cases steps with
  | nil => simp only [runSteps] at h; cases h; simpa using hv
  | cons m ms =>
    rcases effectiveVersion_obj hv with ⟨kvs, rfl, _⟩
    exact effectiveVersion_of_docVersion (runSteps_version_cons m ms kvs r v h)

/-- the loop over a concatenation is the loop over the first part followed by the loop over the second, the
    counter advanced by the length of the first -/
theorem runSteps_append : ∀ (a b : List Mapping) (v : Int) (d : Json),
    runSteps (a ++ b) v d = bindE (runSteps a v d) fun d' => runSteps b (v + a.length) d'
  | [], b, v, d => by simp [runSteps]
  | m :: a, b, v, d => by
    simp only [List.cons_append, runSteps]
    cases convert m d with
    | error e => simp
    | ok d' =>
      simp only [bindE_ok]
      cases setVersion (v + 1) d' with
      | error e => simp
      | ok d'' =>
        simp only [bindE_ok]
        rw [runSteps_append a b (v + 1) d'']
        congr 1
        funext x
        congr 1
        simp only [List.length_cons]; omega

/-! ### `convert_dict` on a document with an (effective) integer version -/

theorem pySliceFrom_nonneg {α} {i : Int} (h : 0 ≤ i) (l : List α) : pySliceFrom i l = l.drop i.toNat := by
  simp [pySliceFrom, h]

/-- for an effective start version `v ≥ 1` the slice `ms[v-1:]` is `drop (v-1)` and the counter starts at `v` -/
theorem convertDict_drop {d : Json} {v : Int} (ms : List Mapping) (hv : effectiveVersion d = some v)
    (h1 : 1 ≤ v) : convertDict d ms = runSteps (ms.drop (v - 1).toNat) v d := by
  rcases effectiveVersion_obj hv with ⟨kvs, rfl, hs⟩
  simp only [convertDict, hs, bindE_ok, show ¬ v < 1 by omega, if_false]
  rw [pySliceFrom_nonneg (by omega)]

theorem nonPositiveVersion_int {v : Int} (h : 1 ≤ v) : nonPositiveVersion (.int v) = false := by
  simp only [nonPositiveVersion, versionInt, decide_eq_false_iff_not]
  omega

/-- whatever the `Versioned` prologue returns is the remainder applied to some document -/
theorem deserVersioned_ok {α} {rest : Json → α} {ms : Option (List Mapping)} {d : Json} {y : α}
    (h : deserVersioned rest ms d = .ok y) : ∃ d', y = rest d' := by
  simp only [deserVersioned] at h
  split at h
  · split at h
    · cases h
    · split at h
      · cases h
      · split at h
        · cases h; exact ⟨_, rfl⟩
        · cases h; exact ⟨_, rfl⟩
        · rcases bindE_eq_ok h with ⟨d', _, h2⟩
          cases h2; exact ⟨_, rfl⟩
  · cases h

/-! ### the Bool equality used by the executable laws is sound -/

mutual
theorem Json.beq_sound : ∀ (a b : Json), Json.beq a b = true → a = b
  | .null, b, h => by cases b <;> simp [Json.beq] at h ⊢
  | .bool x, b, h => by cases b <;> simp [Json.beq] at h ⊢; exact h
  | .int x, b, h => by cases b <;> simp [Json.beq] at h ⊢; exact h
  | .str x, b, h => by cases b <;> simp [Json.beq] at h ⊢; exact h
  | .float n d, b, h => by cases b <;> simp [Json.beq] at h ⊢; exact h
  | .list xs, b, h => by
    cases b with
    | list ys => simp only [Json.beq] at h; rw [Json.beqList_sound xs ys h]
    | _ => simp [Json.beq] at h
  | .obj xs, b, h => by
    cases b with
    | obj ys => simp only [Json.beq] at h; rw [Json.beqObj_sound xs ys h]
    | _ => simp [Json.beq] at h
theorem Json.beqList_sound : ∀ (a b : List Json), Json.beqList a b = true → a = b
  | [], b, h => by cases b <;> simp [Json.beqList] at h ⊢
  | x :: xs, b, h => by
    cases b with
    | nil => simp [Json.beqList] at h
    | cons y ys =>
      simp only [Json.beqList, Bool.and_eq_true] at h
      rw [Json.beq_sound x y h.1, Json.beqList_sound xs ys h.2]
theorem Json.beqObj_sound : ∀ (a b : List (String × Json)), Json.beqObj a b = true → a = b
  | [], b, h => by cases b <;> simp [Json.beqObj] at h ⊢
  | (k, x) :: xs, b, h => by
    cases b with
    | nil => simp [Json.beqObj] at h
    | cons p ys =>
      obtain ⟨k', y⟩ := p
      simp only [Json.beqObj, Bool.and_eq_true, beq_iff_eq] at h
      rw [h.1.1, Json.beq_sound x y h.1.2, Json.beqObj_sound xs ys h.2]
end

theorem sameResult_sound {a b : R Json} (h : sameResult a b = true) : a = b := by
  cases a <;> cases b <;> simp only [sameResult] at h
  · rw [eq_of_beq h]
  · cases h
  · cases h
  · rw [Json.beq_sound _ _ h]
end Typedpy.Convert
