/-
  Lemmas/CodeExact.lean — on the exact scalar sub-fragment the schema exported for the generated field
  (C08's `Sch.emit`) is the source schema itself, and the generated field is in C08's exact fragment.
-/
import TypedpyModel.Spec.CodeExact
import TypedpyModel.Lemmas.SchemaExact
namespace Typedpy.CodeExact
open Typedpy Typedpy.Sch

theorem emit_scalar (fx : Bool) (ρ : String → FieldDecl) (s : Schema) (h : exactSchema s = true) :
    emit fx (schemaToDecl ρ s) = scalarDoc fx s := by
  cases s with
  | num i mult mn mx ex =>
    simp only [exactSchema, Bool.and_eq_true, Bool.or_eq_true, Bool.not_eq_true'] at h
    obtain ⟨⟨hm, _⟩, hex⟩ := h
    have habs : mult.map absJ = mult.map PyVal.int := by
      cases mult with
      | none => rfl
      | some m =>
        simp only [multOk, decide_eq_true_eq] at hm
        simp only [Option.map_some, absJ]
        congr 2
        have := Int.natAbs_of_nonneg (Int.le_of_lt hm)
        simpa using this
    have hexc : (ex && mx.isSome) = ex := by
      cases ex
      · rfl
      · rcases hex with h | h
        · cases h
        · simp [h]
    cases i <;> cases mn <;> cases mx <;> cases ex <;> simp_all [schemaToDecl, numDecl, emit, numKws, scalarDoc, effMin, effMax, exclEff]
  | str lo hi p => simp [schemaToDecl, emit, scalarDoc]
  | bool => simp [schemaToDecl, emit, scalarDoc]
  | enum vs => simp [schemaToDecl, emit, scalarDoc]
  | _ => simp [exactSchema] at h

theorem exactScalar_of (ρ : String → FieldDecl) (s : Schema) (h : exactSchema s = true) :
    exactScalar (schemaToDecl ρ s) = true := by
  cases s with
  | num i mult mn mx ex =>
    simp only [exactSchema, Bool.and_eq_true, Bool.or_eq_true, Bool.not_eq_true'] at h
    obtain ⟨⟨hm, hi⟩, _⟩ := h
    have hok : ∀ sg, numOptsOk { mult := mult, min := mn, max := mx, exclMax := ex, sign := sg } = true := by
      intro sg
      cases mult with
      | none => rfl
      | some m =>
        simp only [multOk, decide_eq_true_eq] at hm
        simp only [numOptsOk, bne_iff_ne, ne_eq]
        omega
    cases i
    · rcases hi with hi | hi
      · cases hi
      · simp [schemaToDecl, numDecl, exactScalar, hok, hi]
    · simp [schemaToDecl, numDecl, exactScalar, hok]
  | str lo hi p => cases p <;> simpa [schemaToDecl, exactScalar, exactSchema] using h
  | bool => rfl
  | enum vs => simpa [schemaToDecl, exactScalar, exactSchema] using h
  | _ => simp [exactSchema] at h


end Typedpy.CodeExact
