/-
  Lemmas/DeriveTotal.lean — totality of the derivation operators: on a class of a reachable world
  (field names acceptable to the metaclass, Constants of a supported type: `ClassGood`, an invariant
  of every history) every operator passes every check of the class statement it ends in.
-/
import TypedpyModel.Lemmas.Derive
namespace Typedpy

/-- what every class the metaclass ever accepted satisfies: no field name starts with `_` or is
    `kwargs`, every Constant holds a value of a supported type -/
def GoodMember (p : String × Member) : Prop :=
  badFieldName p.1 = false ∧ ∀ v, p.2 = .const v → constSupported v = true

def ClassGood (c : ClassDef) : Prop := ∀ p ∈ c.allFields, GoodMember p

def WorldGood (w : World) : Prop := ∀ n c, w.find n = some c → ClassGood c

theorem runChecks_ok_of_all : ∀ {cs : List (R Unit)}, (∀ c ∈ cs, c = .ok ()) → runChecks cs = .ok ()
  | [], _ => rfl
  | c :: cs, h => by
    simp only [runChecks]
    rw [h c List.mem_cons_self, bindE_ok]
    exact runChecks_ok_of_all fun x hx => h x (List.mem_cons_of_mem _ hx)

theorem c12_derivedFields_sub (c : ClassDef) (op : DeriveOp) :
    ∀ p ∈ derivedFields c op, p ∈ c.allFields := by
  intro p hp
  cases op with
  | partialOf => exact hp
  | allRequired => exact hp
  | extend => exact hp
  | «omit» names => exact (List.mem_filter.mp hp).1
  | pick names =>
    have : ∀ (ns : List String), p ∈ pickFields c.allFields ns → p ∈ c.allFields := by
      intro ns
      induction ns with
      | nil => intro h; simp [pickFields] at h
      | cons n rest ih =>
        intro h
        simp only [pickFields] at h
        cases hl : lookup n c.allFields with
        | none => rw [hl] at h; exact ih h
        | some m =>
          rw [hl] at h
          rcases List.mem_cons.mp h with h1 | h1
          · rw [h1]; exact lookup_mem hl
          · exact ih (List.mem_filter.mp h1).1
    exact this names hp

theorem c12_mem_objEntries {fields : List (String × Member)} {p : String × SrcEntry}
    (h : p ∈ objEntries fields) : ∃ q ∈ fields, p = (q.1, .obj q.2) := by
  simp only [objEntries, List.mem_map] at h
  rcases h with ⟨q, hq, rfl⟩
  exact ⟨q, hq, rfl⟩

/-- every check of the class statement passes for the dict an operator assembles from good fields -/
theorem c12_checks_derived_ok (O : Oracles) {w : World} (hS : HasStructure w) (c : ClassDef) (nm : String)
    (fields : List (String × Member)) (req : List String) (hg : ∀ p ∈ fields, GoodMember p) :
    runChecks (checks O w (derivedSrc c nm fields req)) = .ok () := by
  have hS' : w.find "Structure" = some (World.builtin "Structure" [] false) := hS
  have hbd : baseDefs w (derivedSrc c nm fields req) = [World.builtin "Structure" [] false] := by
    simp [baseDefs, derivedSrc, hS']
  have hseq : mroSeqs w (derivedSrc c nm fields req) = [["Structure"], ["Structure"]] := by
    rw [mroSeqs, hbd]; rfl
  have htail : mroTail w (derivedSrc c nm fields req) = ["Structure"] := by
    simp [mroTail, hseq, c3_structure]
  have hsb : structBases w (derivedSrc c nm fields req) = [] := by
    simp [structBases, hbd, World.builtin]
  have hbp : basesParams w (derivedSrc c nm fields req) = [] := by
    simp [basesParams, hsb, allSigParams, dedupKeys]
  have hbr : basesRequired w (derivedSrc c nm fields req) = [] := by
    simp [basesRequired, hbp]
  have hent : (derivedSrc c nm fields req).entries = ("_fields", .attr .list) :: objEntries fields := rfl
  have hown : ownMembers (derivedSrc c nm fields req).entries = fields := ownMembers_derived c fields
  have hall : allFieldsOf w (derivedSrc c nm fields req) = updateAll [] fields := (build_derived hS c nm fields req).1
  apply runChecks_ok_of_all
  intro chk hchk
  simp only [checks, List.mem_append, List.mem_map, List.mem_cons, List.not_mem_nil, or_false] at hchk
  -- entries are `_fields` (a list attribute) or Field / Constant objects
  have entry_cases : ∀ p ∈ (derivedSrc c nm fields req).entries,
      p = ("_fields", .attr .list) ∨ ∃ q ∈ fields, p = (q.1, .obj q.2) := by
    intro p hp
    rw [hent] at hp
    rcases List.mem_cons.mp hp with h1 | h1
    · exact Or.inl h1
    · exact Or.inr (c12_mem_objEntries h1)
  rcases hchk with ((((((((⟨p, hp, rfl⟩ | rfl) | ⟨p, hp, rfl⟩) | ⟨p, hp, rfl⟩) | ⟨p, hp, rfl⟩) | (rfl | rfl))
      | ⟨p, hp, rfl⟩) | rfl) | ⟨p, hp, rfl⟩) | (rfl | rfl)
  · -- kwDefaultCheck
    rcases entry_cases p hp with rfl | ⟨q, _, rfl⟩ <;> rfl
  · -- unknownBaseCheck
    simp only [unknownBaseCheck, hbd]
    simp [derivedSrc, hS', World.builtin, okU]
  · -- nameCheck
    rcases entry_cases p hp with rfl | ⟨q, hq, rfl⟩
    · rfl
    · simp [nameCheck, entryMember, (hg q hq).1, okU]
  · -- nonTypedpyCheck
    rcases entry_cases p hp with rfl | ⟨q, _, rfl⟩
    · simp [nonTypedpyCheck, isBareType, okU]
    · rfl
  · -- eqDefaultCheck
    rcases entry_cases p hp with rfl | ⟨q, _, rfl⟩ <;> rfl
  · -- mroCheck
    have h1 : (mroOf w (derivedSrc c nm fields req)).isSome = true := by
      simp [mroOf, hseq, c3_structure]
    have h2 : distinctStr (derivedSrc c nm fields req).bases = true := rfl
    simp only [mroCheck, h1, h2, Bool.and_self, if_true, okU]
  · -- finalCheck
    simp [finalCheck, htail, sealedCls, hS', World.builtin, okU]
  · -- constCheck on the members by name
    have hq : p ∈ updateAll [] fields := by
      have : p ∈ allFieldsOf w (derivedSrc c nm fields req) := hp
      rwa [hall] at this
    have hq' : p ∈ fields := by
      rcases c12_mem_updateAll hq with h | h
      · cases h
      · exact h
    simp only [constCheck]
    cases hm : p.2 with
    | field d dflt => rfl
    | const v =>
      have := (hg _ hq').2 v hm
      simp [this, okU]
  · -- optionalCheck
    simp [optionalCheck, derivedSrc, okU]
  · -- blockConstCheck
    rcases entry_cases p hp with rfl | ⟨q, _, rfl⟩
    · have : knownAttrs.contains "_fields" = true := by decide
      simp only [blockConstCheck, this, Bool.not_true, Bool.and_false, Bool.false_and, Bool.false_eq_true,
        if_false, okU]
    · rfl
  · -- sigCheck: no struct bases, so a name is required or optional by `_required` alone
    have hno : (sigOf w (derivedSrc c nm fields req)).req.any
        (fun n => (sigOf w (derivedSrc c nm fields req)).opt.contains n) = false := by
      apply List.any_eq_false.mpr
      intro n hn
      simp only [sigOf, hbp, hbr, List.map_nil, List.filter_nil, List.nil_append, List.append_nil,
        mem_dedupStr, List.mem_filter, Bool.and_eq_true, Bool.not_eq_true'] at hn
      have hreqd := hn.2.2
      cases ho : (sigOf w (derivedSrc c nm fields req)).opt.contains n with
      | false => simp
      | true =>
        exfalso
        have hopt : n ∈ (sigOf w (derivedSrc c nm fields req)).opt := by simpa using ho
        simp only [sigOf, hbp, hbr, List.map_nil, List.filter_nil, List.nil_append,
          mem_dedupStr, List.mem_filter, Bool.and_eq_true, Bool.not_eq_true'] at hopt
        rw [hreqd] at hopt
        exact absurd hopt.2.1 (by simp)
    simp only [sigCheck, hno, Bool.false_eq_true, if_false, okU]
  · -- keysOfCheck
    simp [keysOfCheck, derivedSrc, okU]

/-- the names an operator is given -/
def opNames : DeriveOp → List String
  | .omit ns => ns
  | .pick ns => ns
  | _ => []

theorem c12_deriveSrc_total (c : ClassDef) (nm : String) (op : DeriveOp)
    (hn : ∀ k ∈ opNames op, k ∈ c.fieldNames) :
    deriveSrc c nm op = .ok (derivedSrc c nm (derivedFields c op) (derivedRequired c op)) := by
  cases op with
  | partialOf => rfl
  | allRequired => rfl
  | extend => rfl
  | «omit» names =>
    have : names.all (fun k => c.fieldNames.contains k) = true :=
      List.all_eq_true.mpr fun k hk => by simpa using hn k hk
    simp only [deriveSrc, this, if_true]; rfl
  | pick names =>
    have : names.all (fun k => c.fieldNames.contains k) = true :=
      List.all_eq_true.mpr fun k hk => by simpa using hn k hk
    simp only [deriveSrc, this, if_true]; rfl

/-- C12 totality core: on a good class in a world that has `Structure`, an operator naming only
    existing fields returns a class -/
theorem c12_derive_total (O : Oracles) {w : World} (hS : HasStructure w) {c : ClassDef} (hg : ClassGood c)
    (nm : String) (op : DeriveOp) (hn : ∀ k ∈ opNames op, k ∈ c.fieldNames) :
    deriveClass O w c nm op
      = .ok (build w (derivedSrc c nm (derivedFields c op) (derivedRequired c op))) := by
  unfold deriveClass
  rw [c12_deriveSrc_total c nm op hn, bindE_ok]
  unfold defineClass
  rw [c12_checks_derived_ok O hS c nm _ _ (fun p hp => hg p (c12_derivedFields_sub c op p hp)), bindE_ok]

/-! ### `ClassGood` is an invariant of every history -/

theorem c12_lookup_of_mem {α} : ∀ {l : List (String × α)}, KeysNodup l → ∀ {p : String × α}, p ∈ l →
    lookup p.1 l = some p.2
  | [], _, _, h => by cases h
  | (k, v) :: rest, hk, p, hp => by
    have hnd : k ∉ rest.map (·.1) ∧ (rest.map (·.1)).Nodup := List.nodup_cons.mp hk
    rcases List.mem_cons.mp hp with h1 | h1
    · subst h1; simp [lookup]
    · have hne : p.1 ≠ k := fun he => hnd.1 (he ▸ List.mem_map_of_mem h1)
      have hb : (p.1 == k) = false := by simpa using hne
      simp only [lookup, hb, Bool.false_eq_true, if_false]
      exact c12_lookup_of_mem hnd.2 h1

theorem c12_mem_ownMembers {n : String} {m : Member} : ∀ {es : List (String × SrcEntry)},
    (n, m) ∈ ownMembers es → ∃ e, (n, e) ∈ es ∧ entryMember e = some m
  | [], h => by simp [ownMembers] at h
  | (k, e) :: rest, h => by
    simp only [ownMembers] at h
    cases he : entryMember e with
    | none =>
      rw [he] at h
      rcases c12_mem_ownMembers h with ⟨e', h1, h2⟩
      exact ⟨e', List.mem_cons_of_mem _ h1, h2⟩
    | some m' =>
      rw [he] at h
      rcases List.mem_cons.mp h with h1 | h1
      · cases h1; exact ⟨e, List.mem_cons_self, he⟩
      · rcases c12_mem_ownMembers h1 with ⟨e', h2, h3⟩
        exact ⟨e', List.mem_cons_of_mem _ h2, h3⟩

theorem c12_build_good {O : Oracles} {w : World} {src : ClassSrc} (hw : WorldOk w) (hg : WorldGood w)
    (hc : runChecks (checks O w src) = .ok ()) (hfresh : w.find src.name = none) :
    ClassGood (build w src) := by
  have hf := defFacts hc
  have hok := build_ok hw hf hfresh
  intro p hp
  have hl := c12_lookup_of_mem (classOk_keysNodup hok) hp
  rw [lookup_allFields hok] at hl
  have hmro : (build w src).mro = src.name :: mroTail w src := rfl
  have hself : (w.add (build w src)).find src.name = some (build w src) :=
    find_add_fresh (d := build w src) hfresh
  have hownrev : ownRev (w.add (build w src)) src.name = (ownMembers src.entries).reverse := by
    simp only [ownRev, ownOf, hself]; rfl
  rw [hmro] at hl
  simp only [firstOwner] at hl
  by_cases hown : (lookup p.1 (ownRev (w.add (build w src)) src.name)).isSome = true
  · rw [if_pos hown] at hl
    simp only at hl
    rw [hownrev] at hl
    have hmem : (p.1, p.2) ∈ ownMembers src.entries := by
      have := lookup_mem hl
      simpa using this
    rcases c12_mem_ownMembers hmem with ⟨e, he, hem⟩
    refine ⟨?_, ?_⟩
    · have hnc := runChecks_ok_mem hc _ (mem_checks_name (O := O) (w := w) he)
      simp only [nameCheck, hem, Option.isSome_some, Bool.true_and] at hnc
      cases hb : badFieldName p.1 with
      | false => rfl
      | true => rw [hb] at hnc; simp at hnc
    · intro v hv
      have hin : (p.1, p.2) ∈ resolvedFields w src := hp
      have hcc := runChecks_ok_mem hc _ (mem_checks_const (O := O) hin)
      simp only [constCheck, hv] at hcc
      cases hs : constSupported v with
      | true => rfl
      | false => rw [hs] at hcc; simp at hcc
  · rw [if_neg hown] at hl
    cases hk : firstOwner (ownRev (w.add (build w src))) p.1 (mroTail w src) with
    | none => rw [hk] at hl; cases hl
    | some k =>
      rw [hk] at hl
      simp only at hl
      rcases firstOwner_some hk with ⟨hkt, _⟩
      rcases tail_closed hw hf k hkt with ⟨kd, hkd, _⟩
      have hrev : ownRev (w.add (build w src)) k = ownRev w k := by
        have := ownOf_add (w := w) (d := build w src) (k := k) (by rw [hkd]; rfl)
        simp only [ownRev, this]
      rw [hrev] at hl
      have hkok := hw k kd hkd
      have hkn : kd.name = k := findCls_name hkd
      rcases hkok.head with ⟨t, ht⟩
      have hfo : firstOwner (ownRev w) p.1 kd.mro = some k := by
        rw [ht, hkn]
        simp only [firstOwner]
        rw [if_pos (by rw [hl]; rfl)]
      have hla : lookup p.1 kd.allFields = some p.2 := by
        rw [lookup_allFields hkok, hfo]; exact hl
      exact hg k kd hkd (p.1, p.2) (lookup_mem hla)

theorem c12_findCls_mem {n : String} {c : ClassDef} : ∀ {l : List ClassDef}, findCls n l = some c → c ∈ l
  | [], h => by simp [findCls] at h
  | d :: ds, h => by
    simp only [findCls] at h
    split at h
    · cases h; exact List.mem_cons_self
    · exact List.mem_cons_of_mem _ (c12_findCls_mem h)

theorem c12_worldGood_init (bc bn : Bool) : WorldGood (initWorld bc bn) := by
  intro n c hc
  have hm : c ∈ (initWorld bc bn).classes := c12_findCls_mem hc
  have hall : c.allFields = [] := by
    simp only [initWorld, World.init, List.mem_cons, List.not_mem_nil, or_false] at hm
    rcases hm with rfl | rfl | rfl | rfl <;> rfl
  intro p hp
  rw [hall] at hp
  cases hp

theorem c12_worldGood_add {w : World} {d : ClassDef} (hg : WorldGood w) (hd : ClassGood d) :
    WorldGood (w.add d) := by
  intro n c hc
  rcases find_add_inv hc with h | ⟨_, rfl, _⟩
  · exact hg n c h
  · exact hd

theorem c12_worldGood_step {O : Oracles} {w : World} {s : Step} {c : ClassDef} (hw : WorldOk w)
    (hg : WorldGood w) (h : stepClass O w s = .ok c) (hfresh : w.find c.name = none) :
    WorldGood (w.add c) := by
  apply c12_worldGood_add hg
  cases s with
  | define src =>
    simp only [stepClass] at h
    rcases defineClass_ok h with ⟨hc, rfl⟩
    exact c12_build_good hw hg hc hfresh
  | mixin n =>
    simp only [stepClass] at h
    cases h
    intro p hp
    cases hp
  | derive op source newName =>
    simp only [stepClass] at h
    split at h
    · simp only [deriveClass] at h
      rcases bindE_eq_ok h with ⟨src, _, hd⟩
      rcases defineClass_ok hd with ⟨hc, rfl⟩
      exact c12_build_good hw hg hc hfresh
    · cases h

/-- every class of every world reachable by class statements is good -/
theorem reachable_good {O : Oracles} {w : World} (h : Reachable O w) : WorldGood w := by
  induction h with
  | init bc bn => exact c12_worldGood_init bc bn
  | step hr hs hf ih => exact c12_worldGood_step (reachable_ok hr) ih hs hf

/-- `Structure` is in every reachable world (class names are fresh, so nothing shadows it) -/
theorem reachable_hasStructure {O : Oracles} {w : World} (h : Reachable O w) : HasStructure w := by
  induction h with
  | init bc bn => rfl
  | step _ _ _ ih => exact find_add_of_some ih

end Typedpy
