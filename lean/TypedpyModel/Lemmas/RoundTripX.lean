/-
  Lemmas/RoundTripX.lean — serialize / deserialize / re-validate round trip of the extension kinds
  (Sem/SerdeX.lean) on the fragment `xFrag` (Spec/FragX.lean), by mutual structural induction over
  `XDecl`; the core declarations embedded through `XDecl.base` re-use `round_trip`, the collection
  cases re-use the parametric shape lemmas `rt_seq` / `rt_tuple` of Lemmas/RoundTrip.lean.
-/
import TypedpyModel.Spec.FragX
import TypedpyModel.Lemmas.RoundTrip
import TypedpyModel.Lemmas.DeserErr
namespace Typedpy
open PyVal (pyEq pyMem pyNodup)

/-- the round-trip facts for one stored value of an extension declaration -/
def RTX (XO : XOracles) (opts : DeserOpts) (x : XDecl) (v : PyVal) : Prop :=
  ∃ j, serX XO x v = .ok j ∧ isJson j = true ∧ j.isNone = v.isNone
    ∧ deserX XO opts false x j = .ok v ∧ validateX XO x v = .ok v

theorem c05_xOutside_type : xOutside .typeErr = false := rfl
theorem c05_xOutside_value : xOutside .valueErr = false := rfl

theorem c05_lookup_contains {α} (n : String) : ∀ (ms : List (String × α)) (val : α),
    lookup n ms = some val → (ms.map (·.1)).contains n = true
  | [], _, h => by simp [lookup] at h
  | (k, w) :: rest, val, h => by
    simp only [lookup] at h
    by_cases hk : (n == k) = true
    · simp [hk]
    · simp only [hk, Bool.false_eq_true, if_false] at h
      have := c05_lookup_contains n rest val h
      simp only [List.map_cons, List.contains_cons, this, Bool.or_true]

theorem c05_scalar_json (v : PyVal) (h : xScalarJson v = true) :
    isJson v = true ∧ v.isNone = false ∧ unhashable v = false := by
  cases v <;> simp [xScalarJson] at h <;> simp [isJson, PyVal.isNone, unhashable]

theorem rtx_decimal (XO : XOracles) (opts : DeserOpts) (o : NumOpts) (v : PyVal)
    (h : xFrag XO (.decimal o) v = true) : RTX XO opts (.decimal o) v := by
  cases v <;> simp [xFrag] at h
  rename_i q
  obtain ⟨hn, hq⟩ := h
  refine ⟨.float q, ?_, rfl, rfl, ?_, ?_⟩
  · simp [serX, sDecimal, hq]
  · simp [deserX, PyVal.isNone, dDecimal, xConvDecimal, PyVal.asNum]
  · simp [validateX, sxDecimal, xConvDecimal, PyVal.asNum, hn]

theorem rtx_enumVal (XO : XOracles) (opts : DeserOpts) (cls : String) (ms : List (String × PyVal))
    (mx : Bool) (v : PyVal) (h : xFrag XO (.enumVal cls ms mx) v = true) :
    RTX XO opts (.enumVal cls ms mx) v := by
  cases v <;> simp [xFrag] at h
  rename_i c n
  obtain ⟨hc, hm⟩ := h
  subst hc
  unfold xMemberOk at hm
  cases hl : lookup n ms with
  | none => simp [hl] at hm
  | some val =>
    simp only [hl, and_true_iff] at hm
    obtain ⟨hs, hfind⟩ := hm
    have hfind' : xFindByValue ms val = some n := by simpa using hfind
    obtain ⟨hj, hnn, hh⟩ := c05_scalar_json val hs
    refine ⟨val, ?_, hj, ?_, ?_, ?_⟩
    · simp [serX, sEnumVal, hl, hs]
    · rw [hnn]; rfl
    · simp [deserX, hnn, dEnumVal, hh, hfind']
    · have hcont := c05_lookup_contains n ms val hl
      simp only [validateX, vEnumVal, hcont, beq_self_eq_true, Bool.and_self, if_true]

theorem rtx_temporal (XO : XOracles) (opts : DeserOpts) (ty fmt : String) (ints : Bool) (v : PyVal)
    (h : xFrag XO (.temporal ty fmt ints) v = true) : RTX XO opts (.temporal ty fmt ints) v := by
  cases v <;> simp [xFrag] at h
  rename_i t
  obtain ⟨hk, hp⟩ := h
  refine ⟨.str (XO.format ty fmt t), ?_, rfl, rfl, ?_, ?_⟩
  · simp [serX, sTemporal]
  · simp [deserX, PyVal.isNone, dTemporal, hp]
  · simp [validateX, vTemporal, hk]

theorem rtx_enumName (XO : XOracles) (opts : DeserOpts) (cls : String) (ms : List (String × PyVal))
    (mx : Bool) (v : PyVal) (h : xFrag XO (.enumName cls ms mx) v = true) :
    RTX XO opts (.enumName cls ms mx) v := by
  cases v <;> simp [xFrag] at h
  rename_i c n
  obtain ⟨hc, hm⟩ := h
  subst hc
  have hcont : (ms.map (·.1)).contains n = true := by simpa using hm
  refine ⟨.str n, ?_, rfl, rfl, ?_, ?_⟩
  · simp [serX, sEnumName]
  · simp only [deserX, PyVal.isNone, Bool.false_and, Bool.false_eq_true, if_false, dEnumName, hcont, if_true]
  · simp only [validateX, vEnumVal, hcont, beq_self_eq_true, Bool.and_self, if_true]

theorem rtx_fmtStr (XO : XOracles) (opts : DeserOpts) (kind : String) (strict : Bool) (v : PyVal)
    (h : xFrag XO (.fmtStr kind strict) v = true) : RTX XO opts (.fmtStr kind strict) v := by
  cases v <;> simp [xFrag] at h
  rename_i s
  refine ⟨.str s, ?_, rfl, rfl, ?_, ?_⟩
  · simp [serX, sScalar]
  · simp [deserX, PyVal.isNone, dFmtStr]
  · simp [validateX, vFmtStr, h]

/-! ### a declaration that refuses None -/

theorem c05_noNone_deser (XO : XOracles) (opts : DeserOpts) (x : XDecl) (h : xNoNone x = true) :
    ∃ e, deserX XO opts false x .none = .error e ∧ xOutside e = false := by
  cases x with
  | base f =>
    cases f <;> simp [xNoNone, xPlainBase] at h
    · exact ⟨.typeErr, by simp [deserX, deser, PyVal.isNone, dValidated, vNumber, PyVal.asNum], rfl⟩
    · exact ⟨.typeErr, by simp [deserX, deser, PyVal.isNone, dValidated, vInteger], rfl⟩
    · exact ⟨.typeErr, by simp [deserX, deser, PyVal.isNone, dValidated, vFloat], rfl⟩
    · exact ⟨.typeErr, by simp [deserX, deser, PyVal.isNone, dValidated, vString], rfl⟩
    · exact ⟨.typeErr, by simp [deserX, deser, PyVal.isNone, dValidated, vBoolean], rfl⟩
    · exact ⟨.valueErr, by simp [deserX, deser, PyVal.isNone, dEnumCls, dValidated, vEnumCls], rfl⟩
  | decimal o => exact ⟨.typeErr, by simp [deserX, PyVal.isNone, dDecimal, xConvDecimal, PyVal.asNum], rfl⟩
  | enumVal cls ms mx =>
    simp only [xNoNone, Bool.not_eq_true'] at h
    refine ⟨.valueErr, ?_, rfl⟩
    have hf : ms.find? (fun m => pyEq PyVal.none m.2) = none := by
      apply List.find?_eq_none.mpr
      intro m hm
      have := (List.any_eq_false.mp h) m hm
      simpa using this
    simp [deserX, PyVal.isNone, dEnumVal, unhashable, xFindByValue, hf]
  | temporal ty fmt ints => exact ⟨.typeErr, by simp [deserX, PyVal.isNone, dTemporal], rfl⟩
  | enumName cls ms mx =>
    simp only [xNoNone, Bool.not_eq_true'] at h
    exact ⟨.valueErr, by simp [deserX, PyVal.isNone, dEnumName, dValidated, vEnumVal, h], rfl⟩
  | fmtStr kind strict => exact ⟨.typeErr, by simp [deserX, PyVal.isNone, dFmtStr], rfl⟩
  | opt x => simp [xNoNone] at h
  | anyOf xs => simp [xNoNone] at h
  | seqOf k x => exact ⟨.valueErr, by simp [deserX, PyVal.isNone, dSeq, docSeq], rfl⟩
  | setOf x => exact ⟨.valueErr, by simp [deserX, PyVal.isNone, dSeq, docSeq], rfl⟩
  | mapStr x => exact ⟨.typeErr, by simp [deserX, PyVal.isNone, dMap], rfl⟩
  | tuplePos xs => exact ⟨.valueErr, by simp [deserX, PyVal.isNone, dSeq, docSeq], rfl⟩
  | struct c fields => exact ⟨.typeErr, by simp [deserX, PyVal.isNone, dClassRef], rfl⟩
  | structU c fields => exact ⟨.typeErr, by simp [deserX, PyVal.isNone, dClassRef], rfl⟩

theorem c05_noNone_validate (XO : XOracles) (x : XDecl) (h : xNoNone x = true) :
    ∃ e, validateX XO x .none = .error e ∧ xOutside e = false := by
  cases x with
  | base f =>
    cases f <;> simp [xNoNone, xPlainBase] at h
    · exact ⟨.typeErr, by simp [validateX, validate, vNumber, PyVal.asNum], rfl⟩
    · exact ⟨.typeErr, by simp [validateX, validate, vInteger], rfl⟩
    · exact ⟨.typeErr, by simp [validateX, validate, vFloat], rfl⟩
    · exact ⟨.typeErr, by simp [validateX, validate, vString], rfl⟩
    · exact ⟨.typeErr, by simp [validateX, validate, vBoolean], rfl⟩
    · exact ⟨.valueErr, by simp [validateX, validate, vEnumCls], rfl⟩
  | decimal o => exact ⟨.typeErr, by simp [validateX, sxDecimal, xConvDecimal, PyVal.asNum], rfl⟩
  | enumVal cls ms mx =>
    simp only [xNoNone, Bool.not_eq_true'] at h
    exact ⟨.valueErr, by simp [validateX, vEnumVal, h], rfl⟩
  | temporal ty fmt ints => exact ⟨.typeErr, by simp [validateX, vTemporal, dTemporal], rfl⟩
  | enumName cls ms mx =>
    simp only [xNoNone, Bool.not_eq_true'] at h
    exact ⟨.valueErr, by simp [validateX, vEnumVal, h], rfl⟩
  | fmtStr kind strict => exact ⟨.typeErr, by simp [validateX, vFmtStr], rfl⟩
  | opt x => simp [xNoNone] at h
  | anyOf xs => simp [xNoNone] at h
  | seqOf k x => exact ⟨.typeErr, by cases k <;> simp [validateX, vSeq, seqElems], rfl⟩
  | setOf x => exact ⟨.typeErr, by simp [validateX, vSet], rfl⟩
  | mapStr x => exact ⟨.typeErr, by simp [validateX, vMap], rfl⟩
  | tuplePos xs => exact ⟨.typeErr, by simp [validateX, vTuple], rfl⟩
  | struct c fields => exact ⟨.typeErr, by simp [validateX, vClassRef], rfl⟩
  | structU c fields => exact ⟨.typeErr, by simp [validateX, vClassRef], rfl⟩

theorem rtx_opt_none (XO : XOracles) (opts : DeserOpts) (x : XDecl) (h : xNoNone x = true) :
    RTX XO opts (.opt x) .none := by
  rcases c05_noNone_deser XO opts x h with ⟨e1, h1, o1⟩
  rcases c05_noNone_validate XO x h with ⟨e2, h2, o2⟩
  refine ⟨.none, by simp [serX, PyVal.isNone], rfl, rfl, ?_, ?_⟩
  · simp [deserX, PyVal.isNone, h1, xOptOf, o1]
  · simp [validateX, h2, xOptOf, o2, PyVal.isNone]

theorem rtx_opt_some (XO : XOracles) (opts : DeserOpts) (x : XDecl) (v : PyVal)
    (hn : v.isNone = false) (h : RTX XO opts x v) : RTX XO opts (.opt x) v := by
  rcases h with ⟨j, h1, h2, h3, h4, h5⟩
  have hjn : j.isNone = false := by rw [h3]; exact hn
  refine ⟨j, ?_, h2, h3, ?_, ?_⟩
  · simp [serX, hn, h1]
  · simp [deserX, hjn, h4, xOptOf]
  · simp [validateX, h5, xOptOf]

theorem RTX_list (XO : XOracles) (opts : DeserOpts) (x : XDecl) :
    ∀ xs : List PyVal, (∀ y ∈ xs, RTX XO opts x y) →
      ∃ js, mapE (serX XO x) xs = .ok js ∧ isJsonList js = true
        ∧ mapE (deserX XO opts false x) js = .ok xs ∧ mapE (validateX XO x) xs = .ok xs
  | [], _ => ⟨[], rfl, rfl, rfl, rfl⟩
  | y :: ys, h => by
    rcases h y (by simp) with ⟨j, h1, h2, _, h4, h5⟩
    rcases RTX_list XO opts x ys (fun z hz => h z (by simp [hz])) with ⟨js, g1, g2, g3, g4⟩
    refine ⟨j :: js, ?_, ?_, ?_, ?_⟩
    · simp [mapE, h1, g1]
    · simp [isJsonList, h2, g2]
    · simp [mapE, h4, g3]
    · simp [mapE, h5, g4]

/-! ### Map with String keys -/

theorem c05_strKeys_str : ∀ (kvs : List (PyVal × PyVal)), strKeysDistinct kvs = true →
    ∀ kv ∈ kvs, ∃ k, kv.1 = .str k
  | [], _, kv, hkv => by simp at hkv
  | (key, v) :: rest, h, kv, hkv => by
    cases key <;> simp [strKeysDistinct] at h
    rename_i k
    rcases List.mem_cons.mp hkv with rfl | hr
    · exact ⟨k, rfl⟩
    · exact c05_strKeys_str rest h.2 kv hr

theorem c05_vString_free (O : Oracles) (k : String) : vString O none none none (.str k) = .ok (.str k) := by
  simp [vString, leLen, geLen, vPattern]

theorem RTX_pairs (XO : XOracles) (opts : DeserOpts) (x : XDecl) :
    ∀ kvs : List (PyVal × PyVal),
      (∀ kv ∈ kvs, (∃ k, kv.1 = .str k) ∧ RTX XO opts x kv.2) →
      ∃ r, mapE (fun (kv : PyVal × PyVal) =>
              bindE (sScalar kv.1) fun k' => bindE (serX XO x kv.2) fun v' => .ok (k', v')) kvs = .ok r
        ∧ isJsonPairs r = true ∧ r.map (·.1) = kvs.map (·.1)
        ∧ mapE (fun (kv : PyVal × PyVal) =>
              bindE (deserX XO opts false x kv.2) fun v' =>
              bindE (dValidated (vString XO.base none none none kv.1) kv.1) fun k' => .ok (k', v')) r = .ok kvs
        ∧ mapE (fun (kv : PyVal × PyVal) =>
              bindE (vString XO.base none none none kv.1) fun k' =>
              bindE (validateX XO x kv.2) fun v' => .ok (k', v')) kvs = .ok kvs
  | [], _ => ⟨[], rfl, rfl, rfl, rfl, rfl⟩
  | (key, v) :: rest, h => by
    rcases h (key, v) (by simp) with ⟨⟨k, hk⟩, j, h1, h2, _, h4, h5⟩
    simp only at hk; subst hk
    rcases RTX_pairs XO opts x rest (fun kv hkv => h kv (by simp [hkv])) with ⟨r, g1, g2, g3, g4, g5⟩
    refine ⟨(.str k, j) :: r, ?_, ?_, ?_, ?_, ?_⟩
    · simp only [mapE, g1]
      simp [sScalar, h1]
    · simp [isJsonPairs, isJsonKey, h2, g2]
    · simp [g3]
    · simp only [mapE, g4]
      simp [h4, c05_vString_free, dValidated]
    · simp only [mapE, g5]
      simp [c05_vString_free, h5]

/-! ### nested classes -/

theorem deserX_nonNone (XO : XOracles) (opts : DeserOpts) (ign : Bool) (x : XDecl) (v : PyVal)
    (h : v.isNone = false) : deserX XO opts ign x v = deserX XO opts false x v := by
  cases x with
  | base f => simp only [deserX]; exact deser_nonNone XO.base opts ign f v h
  | _ => simp [deserX, h]

theorem deserFieldsX_congr (XO : XOracles) (opts : DeserOpts) (c : ClassOpts)
    (kw kw' : List (String × PyVal)) :
    ∀ (fs : List (String × XDecl)),
      (∀ m ∈ fs.map (·.1), lookup m kw = lookup m kw') →
      deserFieldsX XO opts c kw fs = deserFieldsX XO opts c kw' fs
  | [], _ => by simp [deserFieldsX]
  | (n, f) :: rest, h => by
    have hn := h n (by simp)
    have ih := deserFieldsX_congr XO opts c kw kw' rest (fun m hm => h m (by simp [hm]))
    simp only [deserFieldsX, hn, ih]

theorem validateFieldsX_congr (XO : XOracles) (c : ClassOpts) (kw kw' : List (String × PyVal)) :
    ∀ (fs : List (String × XDecl)),
      (∀ m ∈ fs.map (·.1), lookup m kw = lookup m kw') →
      validateFieldsX XO c kw fs = validateFieldsX XO c kw' fs
  | [], _ => by simp [validateFieldsX]
  | (n, f) :: rest, h => by
    have hn := h n (by simp)
    have ih := validateFieldsX_congr XO c kw kw' rest (fun m hm => h m (by simp [hm]))
    simp only [validateFieldsX, argFor, hn, ih]

theorem xCanonAttrs_names (XO : XOracles) (c : ClassOpts) :
    ∀ (fs : List (String × XDecl)) (attrs : List (String × PyVal)),
      xCanonAttrs XO c fs attrs = true → ∀ a ∈ attrs, a.1 ∈ fs.map (·.1)
  | [], attrs, h, a, ha => by
    simp only [xCanonAttrs, List.isEmpty_iff] at h
    subst h; simp at ha
  | (n, f) :: rest, [], _, a, ha => by simp at ha
  | (n, f) :: rest, (m, v) :: as, h, a, ha => by
    simp only [xCanonAttrs] at h
    by_cases hm : (m == n) = true
    · simp only [hm, if_true, and_true_iff] at h
      have hmn : m = n := by simpa using hm
      rcases List.mem_cons.mp ha with rfl | ha'
      · simp [hmn]
      · have := xCanonAttrs_names XO c rest as h.2 a ha'
        simp [this]
    · simp only [hm, Bool.false_eq_true, if_false, and_true_iff] at h
      have := xCanonAttrs_names XO c rest ((m, v) :: as) h.2 a ha
      simp [this]

theorem xCanonAttrs_nonNone (XO : XOracles) (c : ClassOpts) :
    ∀ (fs : List (String × XDecl)) (attrs : List (String × PyVal)),
      xCanonAttrs XO c fs attrs = true → ∀ a ∈ attrs, a.2.isNone = false
  | [], attrs, h, a, ha => by
    simp only [xCanonAttrs, List.isEmpty_iff] at h
    subst h; simp at ha
  | (n, f) :: rest, [], _, a, ha => by simp at ha
  | (n, f) :: rest, (m, v) :: as, h, a, ha => by
    simp only [xCanonAttrs] at h
    by_cases hm : (m == n) = true
    · simp only [hm, if_true, and_true_iff] at h
      rcases List.mem_cons.mp ha with rfl | ha'
      · simpa using h.1.1
      · exact xCanonAttrs_nonNone XO c rest as h.2 a ha'
    · simp only [hm, Bool.false_eq_true, if_false, and_true_iff] at h
      exact xCanonAttrs_nonNone XO c rest ((m, v) :: as) h.2 a ha

theorem rtx_struct (XO : XOracles) (opts : DeserOpts) (c : ClassOpts) (fields : List (String × XDecl))
    (attrs kw : List (String × PyVal))
    (hacc : c.accepts.contains c.name = true)
    (hreq : c.required.all (fun r => (lookup r attrs).isSome) = true)
    (hnames : ∀ a ∈ attrs, a.1 ∈ fields.map (·.1))
    (hnn : ∀ a ∈ attrs, a.2.isNone = false)
    (g1 : mapE (fun (a : String × PyVal) =>
            bindE (serFieldX XO fields a.1 a.2) fun j => .ok (PyVal.str a.1, j)) attrs = .ok (kw.map rt_toPair))
    (g2 : isJsonPairs (kw.map rt_toPair) = true)
    (g3 : kw.map (·.1) = attrs.map (·.1))
    (g4 : deserFieldsX XO opts c kw fields = .ok attrs)
    (g5 : validateFieldsX XO c attrs fields = .ok attrs) :
    RTX XO opts (.struct c fields) (.inst c.name attrs) := by
  have hfil : attrs.filter (fun a => !a.2.isNone) = attrs :=
    List.filter_eq_self.mpr (fun a ha => by simp [hnn a ha])
  have hkwnames : ∀ a ∈ kw, a.1 ∈ fields.map (·.1) := by
    intro a ha
    have : a.1 ∈ kw.map (·.1) := List.mem_map_of_mem ha
    rw [g3] at this
    rcases List.mem_map.mp this with ⟨b, hb, hab⟩
    rw [← hab]; exact hnames b hb
  have hex : deserExtras opts c (fields.map (·.1)) kw = [] := by
    unfold deserExtras
    have := rt_filter_names_nil (fun _ => opts.keepUndefined && (c.addl || !opts.ignoreInvalidAddl))
      (fields.map (·.1)) kw hkwnames
    simpa [Bool.and_assoc] using this
  have hex2 : extrasOf c (fields.map (·.1)) attrs = [] := by
    unfold extrasOf
    exact rt_filter_names_nil (fun a => !(a.2.isNone && c.ignoreNone)) (fields.map (·.1)) attrs hnames
  have hbind : bindOk c (fields.map (·.1)) attrs = true := by
    unfold bindOk
    simp only [and_true_iff, Bool.not_eq_true', List.any_eq_false, Bool.and_eq_false_iff]
    constructor
    · intro r hr
      have := (List.all_eq_true.mp hreq) r hr
      cases h : lookup r attrs <;> simp [h] at this ⊢
    · by_cases ha : c.addl = true
      · left; simp [ha]
      · right
        intro a ha'
        simp [hnames a ha']
  refine ⟨.dict (kw.map rt_toPair), ?_, ?_, rfl, ?_, ?_⟩
  · simp [serX, sInst, hfil, g1]
  · simp [isJson, g2]
  · simp [deserX, PyVal.isNone, dClassRef, rt_kwOfDict_map, g4, hex, vConstruct, hbind, g5, hex2]
  · have hacc' : c.name ∈ c.accepts := by simpa using hacc
    simp [validateX, vClassRef, hacc']

/-! ### AnyOf over extension kinds: an option that cannot take the document -/

theorem c05_errcls_not_outside (e : ErrCls) (h : e = .typeErr ∨ e = .valueErr ∨ e = .both) : xOutside e = false := by
  rcases h with rfl | rfl | rfl <;> rfl

theorem c05_deserX_rejects_kind (XO : XOracles) (opts : DeserOpts) (x : XDecl) (j : PyVal)
    (h : acceptsDocX x (docKind j) = false) :
    ∃ e, deserX XO opts false x j = .error e ∧ xOutside e = false := by
  cases x with
  | base f =>
    have hk : acceptsDoc f (docKind j) = false := by
      cases hj : docKind j <;> simp [acceptsDocX, hj] at h ⊢ <;> exact h
    cases hd : deser XO.base opts false f j with
    | ok y => rw [c05_deser_ok_kind XO.base opts f j y hd] at hk; cases hk
    | error e =>
      exact ⟨e, by simp [deserX, hd], c05_errcls_not_outside e (deser_err XO.base opts f false j e hd)⟩
  | decimal o =>
    cases j <;> simp [acceptsDocX, docKind] at h
    · exact ⟨.typeErr, by simp [deserX, PyVal.isNone, dDecimal, xConvDecimal, PyVal.asNum], rfl⟩
    · exact ⟨.typeErr, by simp [deserX, PyVal.isNone, dDecimal, xConvDecimal, PyVal.asNum], rfl⟩
  | enumVal cls ms mx =>
    cases j <;> simp [acceptsDocX, docKind] at h
    · exact ⟨.typeErr, by simp [deserX, PyVal.isNone, dEnumVal, unhashable], rfl⟩
    · exact ⟨.typeErr, by simp [deserX, PyVal.isNone, dEnumVal, unhashable], rfl⟩
  | temporal ty fmt ints =>
    cases j <;> simp [acceptsDocX, docKind] at h
    all_goals (refine ⟨.typeErr, ?_, rfl⟩; simp_all [deserX, PyVal.isNone, dTemporal])
  | enumName cls ms mx => cases j <;> simp [acceptsDocX, docKind] at h
  | fmtStr kind strict =>
    cases j <;> simp [acceptsDocX, docKind] at h
    all_goals (refine ⟨.typeErr, ?_, rfl⟩; simp_all [deserX, PyVal.isNone, dFmtStr])
  | opt x => cases j <;> simp [acceptsDocX, docKind] at h
  | anyOf xs => cases j <;> simp [acceptsDocX, docKind] at h
  | seqOf k x =>
    cases j <;> simp [acceptsDocX, docKind] at h
    all_goals exact ⟨.valueErr, by simp [deserX, PyVal.isNone, dSeq, docSeq], rfl⟩
  | setOf x =>
    cases j <;> simp [acceptsDocX, docKind] at h
    all_goals exact ⟨.valueErr, by simp [deserX, PyVal.isNone, dSeq, docSeq], rfl⟩
  | tuplePos xs =>
    cases j <;> simp [acceptsDocX, docKind] at h
    all_goals exact ⟨.valueErr, by simp [deserX, PyVal.isNone, dSeq, docSeq], rfl⟩
  | mapStr x =>
    cases j <;> simp [acceptsDocX, docKind] at h
    all_goals exact ⟨.typeErr, by simp [deserX, PyVal.isNone, dMap], rfl⟩
  | struct c fields =>
    cases j <;> simp [acceptsDocX, docKind] at h
    all_goals exact ⟨.typeErr, by simp [deserX, PyVal.isNone, dClassRef], rfl⟩
  | structU c fields =>
    cases j <;> simp [acceptsDocX, docKind] at h
    all_goals exact ⟨.typeErr, by simp [deserX, PyVal.isNone, dClassRef], rfl⟩

/-! ### the round trip -/

mutual
theorem xround_trip (XO : XOracles) (opts : DeserOpts) : ∀ (x : XDecl) (v : PyVal),
    xFrag XO x v = true → RTX XO opts x v
  | .base f, v, h => by
    simp only [xFrag, and_true_iff] at h
    rcases round_trip XO.base opts f v h.1 h.2 with ⟨j, h1, h2, h3, h4, h5⟩
    exact ⟨j, by simpa [serX] using h1, h2, h3, by simpa [deserX] using h4, by simpa [validateX] using h5⟩
  | .decimal o, v, h => rtx_decimal XO opts o v h
  | .enumVal cls ms mx, v, h => rtx_enumVal XO opts cls ms mx v h
  | .temporal ty fmt ints, v, h => rtx_temporal XO opts ty fmt ints v h
  | .enumName cls ms mx, v, h => rtx_enumName XO opts cls ms mx v h
  | .fmtStr kind strict, v, h => rtx_fmtStr XO opts kind strict v h
  | .opt x, v, h => by
    simp only [xFrag] at h
    by_cases hn : v.isNone = true
    · simp only [hn, if_true] at h
      have hv : v = .none := by cases v <;> simp [PyVal.isNone] at hn; rfl
      subst hv
      exact rtx_opt_none XO opts x h
    · have hn' : v.isNone = false := by simpa using hn
      simp only [hn', Bool.false_eq_true, if_false] at h
      exact rtx_opt_some XO opts x v hn' (xround_trip XO opts x v h)
  | .anyOf xs, v, h => by
    simp only [xFrag] at h
    rcases xround_trip_any XO opts xs v h with ⟨j, h1, h2, h3, h4, h5⟩
    exact ⟨j, by simpa [serX] using h1, h2, h3, by simp [deserX, h4], by simpa [validateX] using h5⟩
  | .seqOf k x, v, h => by
    simp only [xFrag] at h
    cases hs : seqElems k v with
    | none => simp [hs] at h
    | some xs =>
      obtain ⟨rfl, _⟩ := seqLike_of_seqElems k v xs hs
      simp only [hs] at h
      have hall : ∀ y ∈ xs, RTX XO opts x y := fun y hy =>
        xround_trip XO opts x y ((List.all_eq_true.mp h) y hy)
      rcases RTX_list XO opts x xs hall with ⟨js, g1, g2, g3, g4⟩
      have := rt_seq k {} (fun _ => true) (mapE (serX XO x)) (mapE (deserX XO opts false x))
        (mapE (validateX XO x)) xs js (by simp [uniqOk]) (by simp [sizeOk, geLen, leLen]) rfl g1 g2 g3 g4
      refine ⟨.list js, ?_, this.2.1, ?_, ?_, ?_⟩
      · simp only [serX]; exact this.1
      · cases k <;> rfl
      · simp only [deserX, PyVal.isNone, Bool.false_and, Bool.false_eq_true, if_false]; exact this.2.2.1
      · simp only [validateX]; exact this.2.2.2
  | .setOf x, v, h => by
    simp only [xFrag] at h
    cases v with
    | set fr xs =>
      simp only [and_true_iff] at h
      obtain ⟨⟨⟨hfr, hnd⟩, hh⟩, hall⟩ := h
      have hfr' : fr = false := by simpa using hfr
      subst hfr'
      have hh' : xs.any unhashable = false := by simpa using hh
      have hpt : ∀ y ∈ xs, RTX XO opts x y := fun y hy =>
        xround_trip XO opts x y ((List.all_eq_true.mp hall) y hy)
      rcases RTX_list XO opts x xs hpt with ⟨js, g1, g2, g3, g4⟩
      have hdd := rt_dedup_of_nodup xs hnd
      refine ⟨.list js, ?_, by simp [isJson, g2], rfl, ?_, ?_⟩
      · simp [serX, sSeq, seqLike, g1]
      · simp [deserX, PyVal.isNone, dSeq, docSeq, g3, toValueErr, mkSet, hh', hdd]
      · simp [validateX, vSet, sizeOk, geLen, leLen, g4, hdd]
    | _ => simp at h
  | .mapStr x, v, h => by
    simp only [xFrag] at h
    cases v with
    | dict kvs =>
      simp only [and_true_iff] at h
      obtain ⟨hdist, hall⟩ := h
      have hpt : ∀ kv ∈ kvs, (∃ k, kv.1 = .str k) ∧ RTX XO opts x kv.2 := by
        intro kv hkv
        exact ⟨c05_strKeys_str kvs hdist kv hkv,
          xround_trip XO opts x kv.2 ((List.all_eq_true.mp hall) kv hkv)⟩
      rcases RTX_pairs XO opts x kvs hpt with ⟨r, g1, g2, g3, g4, g5⟩
      have hrd : strKeysDistinct r = true := by rw [strKeysDistinct_keys r kvs g3]; exact hdist
      refine ⟨.dict r, ?_, by simp [isJson, g2], rfl, ?_, ?_⟩
      · simp only [serX, sMap, g1]
        simp [bindE, strKeys_hashable r hrd, dictOfPairs_distinct r hrd]
      · simp only [deserX, dMap, g4]
        simp [bindE, PyVal.isNone, strKeys_hashable kvs hdist, dictOfPairs_distinct kvs hdist]
      · simp only [validateX, vMap, g5]
        simp [bindE, dictOfPairs_distinct kvs hdist, sizeOk, geLen, leLen]
    | _ => simp at h
  | .tuplePos xs, v, h => by
    simp only [xFrag] at h
    cases v with
    | tuple ys =>
      simp only [and_true_iff] at h
      have hlen : ys.length = xs.length := by simpa using h.1
      rcases xround_trip_zip XO opts xs ys hlen h.2 with ⟨js, g1, g2, g3, g4⟩
      have hpre : (fun zs : List PyVal => xs.length == zs.length) ys = true := by simp [hlen]
      have := rt_tuple false (fun zs : List PyVal => xs.length == zs.length) (serZipX XO xs)
        (deserZipX XO opts xs) (validateZipX XO xs) ys js (by simp [uniqOk]) hpre g1 g2 g3 g4
      refine ⟨.list js, ?_, this.2.1, rfl, ?_, ?_⟩
      · simp only [serX]; exact this.1
      · simp only [deserX, PyVal.isNone, Bool.false_and, Bool.false_eq_true, if_false]; exact this.2.2.1
      · simp only [validateX]; exact this.2.2.2
    | _ => simp at h
  | .structU _ _, _, h => by simp [xFrag] at h
  | .struct c fields, v, h => by
    simp only [xFrag, and_true_iff] at h
    obtain ⟨⟨hacc, hnd⟩, hv⟩ := h
    cases v with
    | inst n attrs =>
      simp only [and_true_iff] at hv
      obtain ⟨⟨hn, hreq⟩, hcan⟩ := hv
      have hn' : n = c.name := by simpa using hn
      subst hn'
      have hnd' : (fields.map (·.1)).Nodup := by simpa using hnd
      rcases rtx_fields XO opts c fields attrs hnd' hcan with ⟨kw, g1, g2, g3, g4, g5⟩
      exact rtx_struct XO opts c fields attrs kw hacc hreq
        (xCanonAttrs_names XO c fields attrs hcan)
        (xCanonAttrs_nonNone XO c fields attrs hcan) g1 g2 g3 g4 g5
    | _ => simp at hv

theorem xround_trip_any (XO : XOracles) (opts : DeserOpts) : ∀ (xs : List XDecl) (v : PyVal),
    xFragAny XO xs v = true →
    ∃ j, serAnyX XO xs v = .ok j ∧ isJson j = true ∧ j.isNone = v.isNone
      ∧ deserAnyX XO opts xs j = .ok v ∧ validateAnyX XO xs v = .ok v
  | [], _, h => by simp [xFragAny] at h
  | x :: xs, v, h => by
    simp only [xFragAny] at h
    rcases (Bool.or_eq_true _ _).mp h with hc | hs
    · simp only [and_true_iff] at hc
      rcases xround_trip XO opts x v hc.2 with ⟨j, h1, h2, h3, h4, h5⟩
      exact ⟨j, by simp [serAnyX, hc.1, h1, xFirst], h2, h3, by simp [deserAnyX, h4, xFirst],
        by simp [validateAnyX, h5, xFirst]⟩
    · simp only [and_true_iff] at hs
      obtain ⟨⟨⟨hser, hval⟩, hdoc⟩, hrest⟩ := hs
      rcases xround_trip_any XO opts xs v hrest with ⟨j, g1, g2, g3, g4, g5⟩
      simp only [g1, Bool.not_eq_true'] at hdoc
      rcases c05_deserX_rejects_kind XO opts x j hdoc with ⟨e1, hd, ho1⟩
      have hv : ∃ e, validateX XO x v = .error e ∧ xOutside e = false := by
        cases hvv : validateX XO x v with
        | error e => simp [hvv] at hval; exact ⟨e, rfl, hval⟩
        | ok y => simp [hvv] at hval
      rcases hv with ⟨e2, hv, ho2⟩
      have hS : serAnyX XO (x :: xs) v = .ok j := by
        simp only [serAnyX]
        cases hsh : shallowOkX XO x v with
        | false => simp [g1]
        | true =>
          simp only [hsh, Bool.not_true, Bool.false_or] at hser
          cases hsx : serX XO x v with
          | ok y => simp [hsx] at hser
          | error e =>
            simp only [hsx, Bool.not_eq_true'] at hser
            simp [xFirst, hser, g1]
      exact ⟨j, hS, g2, g3, by simp [deserAnyX, hd, xFirst, ho1, g4], by simp [validateAnyX, hv, xFirst, ho2, g5]⟩

theorem xround_trip_zip (XO : XOracles) (opts : DeserOpts) : ∀ (xs : List XDecl) (ys : List PyVal),
    ys.length = xs.length → xFragZip XO xs ys = true →
    ∃ js, serZipX XO xs ys = .ok js ∧ isJsonList js = true
      ∧ deserZipX XO opts xs js = .ok ys ∧ validateZipX XO xs ys = .ok ys
  | [], [], _, _ => ⟨[], by simp [serZipX, serAnyList], rfl, by simp [deserZipX], by simp [validateZipX]⟩
  | [], _ :: _, hl, _ => by simp at hl
  | _ :: _, [], hl, _ => by simp at hl
  | x :: xs, y :: ys, hl, hf => by
    simp only [xFragZip, and_true_iff] at hf
    rcases xround_trip XO opts x y hf.1 with ⟨j, h1, h2, _, h4, h5⟩
    rcases xround_trip_zip XO opts xs ys (by simpa using hl) hf.2 with ⟨js, g1, g2, g3, g4⟩
    refine ⟨j :: js, ?_, ?_, ?_, ?_⟩
    · simp [serZipX, h1, g1]
    · simp [isJsonList, h2, g2]
    · simp [deserZipX, h4, g3]
    · simp [validateZipX, h5, g4]

theorem rtx_fields (XO : XOracles) (opts : DeserOpts) (c : ClassOpts) :
    ∀ (fs : List (String × XDecl)) (attrs : List (String × PyVal)),
    (fs.map (·.1)).Nodup → xCanonAttrs XO c fs attrs = true →
    ∃ kw : List (String × PyVal),
      mapE (fun (a : String × PyVal) =>
          bindE (serFieldX XO fs a.1 a.2) fun j => .ok (PyVal.str a.1, j)) attrs = .ok (kw.map rt_toPair)
      ∧ isJsonPairs (kw.map rt_toPair) = true
      ∧ kw.map (·.1) = attrs.map (·.1)
      ∧ deserFieldsX XO opts c kw fs = .ok attrs
      ∧ validateFieldsX XO c attrs fs = .ok attrs
  | [], attrs, _, hc => by
    simp only [xCanonAttrs, List.isEmpty_iff] at hc
    subst hc
    exact ⟨[], rfl, rfl, rfl, by simp [deserFieldsX], by simp [validateFieldsX]⟩
  | (n, f) :: rest, [], hnd, hc => by
    simp only [xCanonAttrs, and_true_iff] at hc
    have hnd' : (rest.map (·.1)).Nodup := (List.nodup_cons.mp (by simpa using hnd)).2
    rcases rtx_fields XO opts c rest [] hnd' hc.2 with ⟨kw, _, _, g3, g4, g5⟩
    have hkw : kw = [] := by simpa using g3
    subst hkw
    refine ⟨[], rfl, rfl, rfl, ?_, ?_⟩
    · simp only [deserFieldsX, lookup]; exact g4
    · have := absent_argFor c [] [] n hc.1 rfl
      simp only [validateFieldsX, this]; exact g5
  | (n, f) :: rest, (m, v) :: as, hnd, hc => by
    have hnd0 := List.nodup_cons.mp (show (n :: rest.map (·.1)).Nodup by simpa using hnd)
    simp only [xCanonAttrs] at hc
    by_cases hm : (m == n) = true
    · have hmn : m = n := by simpa using hm
      subst hmn
      simp only [hm, if_true, and_true_iff] at hc
      obtain ⟨⟨hvn, hff⟩, hrest⟩ := hc
      have hvn' : v.isNone = false := by simpa using hvn
      rcases xround_trip XO opts f v hff with ⟨j, h1, h2, h3, h4, h5⟩
      rcases rtx_fields XO opts c rest as hnd0.2 hrest with ⟨kw, g1, g2, g3, g4, g5⟩
      have hjn : j.isNone = false := by rw [h3]; exact hvn'
      have hasn : ∀ a ∈ as, a.1 ≠ m := fun a ha hEq =>
        hnd0.1 (hEq ▸ xCanonAttrs_names XO c rest as hrest a ha)
      have hrn : ∀ k ∈ rest.map (·.1), k ≠ m := fun k hk hEq => hnd0.1 (hEq ▸ hk)
      refine ⟨(m, j) :: kw, ?_, ?_, ?_, ?_, ?_⟩
      · have htail : mapE (fun (a : String × PyVal) =>
            bindE (serFieldX XO ((m, f) :: rest) a.1 a.2) fun j => .ok (PyVal.str a.1, j)) as
            = mapE (fun (a : String × PyVal) =>
            bindE (serFieldX XO rest a.1 a.2) fun j => .ok (PyVal.str a.1, j)) as :=
          rt_mapE_congr _ _ as (fun a ha => by
            have : (a.1 == m) = false := by simpa using hasn a ha
            simp only [serFieldX, this, Bool.false_eq_true, if_false])
        simp only [mapE]
        rw [htail, g1]
        simp [serFieldX, h1, rt_toPair]
      · simp [isJsonPairs, isJsonKey, rt_toPair, h2]; simpa [rt_toPair] using g2
      · simp [g3]
      · have hcong := deserFieldsX_congr XO opts c ((m, j) :: kw) kw rest
          (fun k hk => rt_lookup_cons_ne k m j kw (hrn k hk))
        simp [deserFieldsX, lookup, hjn, deserX_nonNone XO opts c.ignoreNone f j hjn, h4, hcong, g4]
      · have hcong := validateFieldsX_congr XO c ((m, v) :: as) as rest
          (fun k hk => rt_lookup_cons_ne k m v as (hrn k hk))
        simp [validateFieldsX, argFor, lookup, hvn', h5, hcong, g5]
    · simp only [hm, Bool.false_eq_true, if_false, and_true_iff] at hc
      rcases rtx_fields XO opts c rest ((m, v) :: as) hnd0.2 hc.2 with ⟨kw, g1, g2, g3, g4, g5⟩
      have hnames := xCanonAttrs_names XO c rest ((m, v) :: as) hc.2
      have hattn : ∀ a ∈ ((m, v) :: as), a.1 ≠ n := fun a ha hEq => hnd0.1 (hEq ▸ hnames a ha)
      have hn_attrs : n ∉ ((m, v) :: as).map (·.1) := by
        intro hmem
        rcases List.mem_map.mp hmem with ⟨a, ha, hEq⟩
        exact hattn a ha hEq
      have hn_kw : n ∉ kw.map (·.1) := by rw [g3]; exact hn_attrs
      refine ⟨kw, ?_, g2, g3, ?_, ?_⟩
      · rw [← g1]
        exact rt_mapE_congr _ _ _ (fun a ha => by
          have : (a.1 == n) = false := by simpa using hattn a ha
          simp only [serFieldX, this, Bool.false_eq_true, if_false])
      · simp only [deserFieldsX, rt_lookup_none_of_not_mem n kw hn_kw]; exact g4
      · have := absent_argFor c [] ((m, v) :: as) n hc.1 (rt_lookup_none_of_not_mem n _ hn_attrs)
        simp only [validateFieldsX, this]; exact g5
end

end Typedpy
