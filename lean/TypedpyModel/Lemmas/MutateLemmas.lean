/-
  Lemmas/MutateLemmas.lean — association-list and well-formedness lemmas for the mutation machine.
-/
import TypedpyModel.Lemmas.Sound
import TypedpyModel.Sem.Mutate
namespace Typedpy

theorem lookup_assocSet_same {α} (f : String) (v : α) :
    ∀ s : List (String × α), lookup f (assocSet f v s) = some v
  | [] => by simp [assocSet, lookup]
  | (k, w) :: rest => by
    simp only [assocSet]
    by_cases h : (f == k) = true
    · have hk : f = k := by simpa using h
      subst hk
      simp [lookup]
    · simp only [h, Bool.false_eq_true, if_false, lookup]
      exact lookup_assocSet_same f v rest

theorem lookup_assocSet_ne {α} (f g : String) (v : α) (hne : (g == f) = false) :
    ∀ s : List (String × α), lookup g (assocSet f v s) = lookup g s
  | [] => by simp [assocSet, lookup, hne]
  | (k, w) :: rest => by
    simp only [assocSet]
    by_cases h : (f == k) = true
    · have hk : f = k := by simpa using h
      subst hk
      simp [lookup, hne]
    · simp only [h, Bool.false_eq_true, if_false, lookup]
      split
      · rfl
      · exact lookup_assocSet_ne f g v hne rest

theorem lookup_assocSet_isSome {α} (f g : String) (v : α) (s : List (String × α))
    (h : (lookup g s).isSome = true) : (lookup g (assocSet f v s)).isSome = true := by
  cases hgf : (g == f)
  · rw [lookup_assocSet_ne f g v hgf]; exact h
  · have : g = f := by simpa using hgf
    subst this
    rw [lookup_assocSet_same]; rfl

theorem assocSet_keys {α} (P : String → Bool) (f : String) (v : α) (hf : P f = true) :
    ∀ s : List (String × α), s.all (fun a => P a.1) = true → (assocSet f v s).all (fun a => P a.1) = true
  | [], _ => by simp [assocSet, hf]
  | (k, w) :: rest, h => by
    simp only [List.all_cons, and_true_iff] at h
    simp only [assocSet]
    split
    · simp only [List.all_cons, and_true_iff]; exact ⟨h.1, h.2⟩
    · simp only [List.all_cons, and_true_iff]; exact ⟨h.1, assocSet_keys P f v hf rest h.2⟩

theorem lookup_assocDel_ne {α} (f g : String) (hne : (g == f) = false) :
    ∀ s : List (String × α), lookup g (assocDel f s) = lookup g s
  | [] => rfl
  | (k, w) :: rest => by
    simp only [assocDel]
    by_cases h : (f == k) = true
    · have hk : f = k := by simpa using h
      subst hk
      simp only [beq_self_eq_true, if_true, lookup, hne, Bool.false_eq_true, if_false]
      exact lookup_assocDel_ne f g hne rest
    · simp only [h, Bool.false_eq_true, if_false, lookup]
      split
      · rfl
      · exact lookup_assocDel_ne f g hne rest

theorem lookup_assocDel_same {α} (f : String) :
    ∀ s : List (String × α), lookup f (assocDel f s) = none
  | [] => rfl
  | (k, w) :: rest => by
    simp only [assocDel]
    by_cases h : (f == k) = true
    · simp only [h, if_true]; exact lookup_assocDel_same f rest
    · simp only [h, Bool.false_eq_true, if_false, lookup]; exact lookup_assocDel_same f rest

theorem assocDel_keys {α} (P : String → Bool) (f : String) :
    ∀ s : List (String × α), s.all (fun a => P a.1) = true → (assocDel f s).all (fun a => P a.1) = true
  | [], _ => rfl
  | (k, w) :: rest, h => by
    simp only [List.all_cons, and_true_iff] at h
    simp only [assocDel]
    split
    · exact assocDel_keys P f rest h.2
    · simp only [List.all_cons, and_true_iff]; exact ⟨h.1, assocDel_keys P f rest h.2⟩

/-- lookups that a conformance check makes are answered the same or with a conforming value -/
theorem fieldsConform_update (O : Oracles) (s s' : Attrs) :
    ∀ fs : List (String × FieldDecl),
      (∀ name fd, (name, fd) ∈ fs → ∀ v, lookup name s' = some v →
        lookup name s = some v ∨ conforms O fd v = true) →
      fieldsConform O s fs = true → fieldsConform O s' fs = true
  | [], _, _ => rfl
  | (name, fd) :: rest, h, hc => by
    simp only [fieldsConform, and_true_iff] at hc ⊢
    constructor
    · cases hl : lookup name s' with
      | none => rfl
      | some v =>
        rcases h name fd (by simp) v hl with h1 | h1
        · have := hc.1; rw [h1] at this; exact this
        · exact h1
    · exact fieldsConform_update O s s' rest (fun n g hm => h n g (by simp [hm])) hc.2

theorem lookup_mem_unique {α} (f : String) (fd : α) :
    ∀ fields : List (String × α), strNodup (fields.map (·.1)) = true → lookup f fields = some fd →
      ∀ fd', (f, fd') ∈ fields → fd' = fd
  | [], _, h, _, _ => by simp [lookup] at h
  | (k, w) :: rest, hnd, h, fd', hm => by
    rw [List.map_cons, strNodup, and_true_iff] at hnd
    simp only [lookup] at h
    simp only [List.mem_cons] at hm
    by_cases hk : (f == k) = true
    · simp only [hk, if_true, Option.some.injEq] at h
      have hfk : f = k := by simpa using hk
      subst hfk
      rcases hm with hm | hm
      · rw [← h]; exact (Prod.mk.inj hm).2
      · have : (rest.map (·.1)).contains f = true := mem_names_of_mem f fd' rest hm
        rw [this] at hnd; exact absurd hnd.1 (by simp)
    · simp only [hk, Bool.false_eq_true, if_false] at h
      rcases hm with hm | hm
      · have : f = k := (Prod.mk.inj hm).1
        subst this
        simp at hk
      · exact lookup_mem_unique f fd rest hnd.2 h fd' hm

theorem lookup_some_contains {α} (f : String) (fd : α) :
    ∀ fields : List (String × α), lookup f fields = some fd → (fields.map (·.1)).contains f = true
  | [], h => by simp [lookup] at h
  | (k, w) :: rest, h => by
    simp only [lookup] at h
    simp only [List.map_cons, List.contains_cons, Bool.or_eq_true]
    by_cases hk : (f == k) = true
    · exact Or.inl hk
    · simp only [hk, Bool.false_eq_true, if_false] at h
      exact Or.inr (lookup_some_contains f fd rest h)

end Typedpy
