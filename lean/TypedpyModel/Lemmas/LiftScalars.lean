import TypedpyModel.Spec.Lift
import TypedpyModel.Lemmas.RoundTrip
namespace Typedpy
open PyVal (pyEq pyMem pyNodup)

/-- two computations succeed on the same inputs with the same result (the error class of a
    rejection may differ: the deserializer finds a bad element before the constructor would) -/
def OkEq {α} (r1 r2 : R α) : Prop := ∀ z, r1 = .ok z ↔ r2 = .ok z

theorem OkEq.refl {α} (r : R α) : OkEq r r := fun _ => Iff.rfl
theorem OkEq.of_eq {α} {r1 r2 : R α} (h : r1 = r2) : OkEq r1 r2 := h ▸ OkEq.refl _
theorem OkEq.symm {α} {r1 r2 : R α} (h : OkEq r1 r2) : OkEq r2 r1 := fun z => (h z).symm
theorem OkEq.trans {α} {r1 r2 r3 : R α} (h1 : OkEq r1 r2) (h2 : OkEq r2 r3) : OkEq r1 r3 :=
  fun z => (h1 z).trans (h2 z)
theorem OkEq.errors {α} {r1 r2 : R α} (h1 : ∀ z, r1 ≠ .ok z) (h2 : ∀ z, r2 ≠ .ok z) : OkEq r1 r2 :=
  fun z => ⟨fun h => absurd h (h1 z), fun h => absurd h (h2 z)⟩

/-- deserialize one field value, then let the constructor's field validation run on it -/
def deserThen (O : Oracles) (opts : DeserOpts) (f : FieldDecl) (d : PyVal) : R PyVal :=
  bindE (deser O opts false f d) (validate O f)

/-- read the documented JSON form backwards, then validate -/
def liftThen (O : Oracles) (opts : DeserOpts) (f : FieldDecl) (d : PyVal) : R PyVal :=
  match lift O opts f d with
  | some w => validate O f w
  | none => .error .valueErr

/-- the pre-check `field._validate(v)` with the field's own validator changes nothing -/
theorem dValidated_same (g : PyVal → R PyVal) (d : PyVal) : bindE (dValidated (g d) d) g = g d := by
  unfold dValidated
  cases h : g d <;> simp [h]

/-- the pre-check without the sign mixin rejects only what the full validator rejects too -/
theorem dValidated_weaker (g g' : PyVal → R PyVal) (d : PyVal)
    (h : ∀ e, g' d = .error e → ∃ e', g d = .error e') : OkEq (bindE (dValidated (g' d) d) g) (g d) := by
  unfold dValidated
  cases h' : g' d with
  | ok y => simp; exact OkEq.refl _
  | error e =>
    rcases h e h' with ⟨e', he'⟩
    simp only [bindE]
    exact OkEq.errors (fun z hz => by cases hz) (fun z hz => by rw [he'] at hz; cases hz)

theorem numOk_noSign_false (o : NumOpts) (q : Q) (h : numOk (noSign o) q = false) : numOk o q = false := by
  cases h' : numOk o q
  · rfl
  · rw [geMin_noSign o q h'] at h; cases h

theorem okEq_number (O : Oracles) (opts : DeserOpts) (o : NumOpts) (d : PyVal) :
    OkEq (deserThen O opts (.number o) d) (liftThen O opts (.number o) d) := by
  simp only [deserThen, liftThen, deser, lift, validate, PyVal.isNone, Bool.and_false, Bool.false_eq_true, if_false]
  apply dValidated_weaker (vNumber o) (vNumber (noSign o))
  intro e he
  unfold vNumber at he ⊢
  cases hq : d.asNum with
  | none => exact ⟨_, rfl⟩
  | some q =>
    simp only [hq] at he ⊢
    by_cases hn : numOk (noSign o) q = true
    · simp [hn] at he
    · have := numOk_noSign_false o q (by simpa using hn)
      exact ⟨.valueErr, by simp [this]⟩

theorem okEq_integer (O : Oracles) (opts : DeserOpts) (o : NumOpts) (d : PyVal) :
    OkEq (deserThen O opts (.integer o) d) (liftThen O opts (.integer o) d) := by
  simp only [deserThen, liftThen, deser, lift, validate, PyVal.isNone, Bool.and_false, Bool.false_eq_true, if_false]
  apply dValidated_weaker (vInteger o) (vInteger (noSign o))
  intro e he
  unfold vInteger at he ⊢
  cases d <;> simp only at he ⊢ <;> try exact ⟨_, rfl⟩
  all_goals
    rename_i x
    first
    | (by_cases hn : numOk (noSign o) (Q.ofInt x) = true
       · simp [hn] at he
       · have := numOk_noSign_false o _ (by simpa using hn)
         exact ⟨.valueErr, by simp [this]⟩)
    | (by_cases hn : numOk (noSign o) (Q.ofInt (if x = true then 1 else 0)) = true
       · simp [hn] at he
       · have := numOk_noSign_false o _ (by simpa using hn)
         exact ⟨.valueErr, by simp [this]⟩)

theorem okEq_float (O : Oracles) (opts : DeserOpts) (o : NumOpts) (d : PyVal) :
    OkEq (deserThen O opts (.float o) d) (liftThen O opts (.float o) d) := by
  simp only [deserThen, liftThen, deser, lift, validate, PyVal.isNone, Bool.and_false, Bool.false_eq_true, if_false]
  apply dValidated_weaker (vFloat o) (vFloat (noSign o))
  intro e he
  unfold vFloat at he ⊢
  cases d <;> simp only at he ⊢ <;> try exact ⟨_, rfl⟩
  all_goals
    rename_i x
    first
    | (by_cases hn : numOk (noSign o) (Q.ofInt x) = true
       · simp [hn] at he
       · have := numOk_noSign_false o _ (by simpa using hn)
         exact ⟨.valueErr, by simp [this]⟩)
    | (by_cases hn : numOk (noSign o) x = true
       · simp [hn] at he
       · have := numOk_noSign_false o _ (by simpa using hn)
         exact ⟨.valueErr, by simp [this]⟩)

theorem okEq_string (O : Oracles) (opts : DeserOpts) (lo hi : Option Nat) (pat : Option String) (d : PyVal) :
    OkEq (deserThen O opts (.string lo hi pat) d) (liftThen O opts (.string lo hi pat) d) := by
  simp only [deserThen, liftThen, deser, lift, validate, PyVal.isNone, Bool.and_false, Bool.false_eq_true, if_false]
  exact OkEq.of_eq (dValidated_same (vString O lo hi pat) d)

theorem okEq_boolean (O : Oracles) (opts : DeserOpts) (d : PyVal) :
    OkEq (deserThen O opts .boolean d) (liftThen O opts .boolean d) := by
  simp only [deserThen, liftThen, deser, lift, validate, PyVal.isNone, Bool.and_false, Bool.false_eq_true, if_false]
  exact OkEq.of_eq (dValidated_same vBoolean d)

theorem okEq_enumLit (O : Oracles) (opts : DeserOpts) (vals : List PyVal) (d : PyVal) :
    OkEq (deserThen O opts (.enumLit vals) d) (liftThen O opts (.enumLit vals) d) := by
  simp only [deserThen, liftThen, deser, lift, validate, PyVal.isNone, Bool.and_false, Bool.false_eq_true, if_false]
  exact OkEq.of_eq (dValidated_same (vEnumLit vals) d)

theorem okEq_enumCls (O : Oracles) (opts : DeserOpts) (cls : String) (names : List String) (d : PyVal) :
    OkEq (deserThen O opts (.enumCls cls names) d) (liftThen O opts (.enumCls cls names) d) := by
  simp only [deserThen, liftThen, deser, lift, validate, PyVal.isNone, Bool.and_false, Bool.false_eq_true, if_false]
  cases d with
  | str n =>
    by_cases hc : names.contains n = true
    · have hm : n ∈ names := by simpa using hc
      have : OkEq (bindE (dEnumCls cls names (.str n)) (vEnumCls cls names)) (vEnumCls cls names (.str n)) := by
        simp [dEnumCls, vEnumCls, hm, bindE]
        exact OkEq.refl _
      exact this
    · have hc' : names.contains n = false := by simpa using hc
      have hm : ¬ n ∈ names := by simpa using hc'
      have : OkEq (bindE (dEnumCls cls names (.str n)) (vEnumCls cls names)) (vEnumCls cls names (.str n)) := by
        simp [dEnumCls, vEnumCls, hm, bindE]
        exact OkEq.refl _
      exact this
  | _ =>
    simp only [dEnumCls]
    exact OkEq.of_eq (dValidated_same (vEnumCls cls names) _)

end Typedpy
