/-
  Lemmas/Errors.lean — helper lemmas about the regex matchers, the helper's control flow and the
  construction model of Sem/Errors.lean (used by Props/C18.lean).
-/
import TypedpyModel.Sem.Errors
namespace Typedpy.Err
open Typedpy

/-! ### matchers -/

theorem dropPre_append (p r : Text) : dropPre p (p ++ r) = some r := by
  induction p with
  | nil => cases r <;> rfl
  | cons a p ih => simp [dropPre, ih]

theorem isFieldChar_colon (W : Word) (hW : W.Sound) : isFieldChar W ':' = false := by
  simp [isFieldChar, hW.2]

theorem spanField_append (W : Word) (hW : W.Sound) (f r : Text)
    (hf : f.all (isFieldChar W) = true) :
    spanField W (f ++ ':' :: r) = (f, ':' :: r) := by
  induction f with
  | nil => simp [spanField, isFieldChar_colon W hW]
  | cons a f ih =>
    simp only [List.all_cons, Bool.and_eq_true] at hf
    simp [spanField, hf.1, ih hf.2]

theorem spanNoSemi_append (v r : Text) (hv : noSemi v = true) :
    spanNoSemi (v ++ ';' :: r) = (v, ';' :: r) := by
  induction v with
  | nil => simp [spanNoSemi]
  | cons a v ih =>
    simp only [noSemi, List.all_cons, Bool.and_eq_true] at hv
    have ha : (a == ';') = false := by
      have := hv.1; simpa [bne] using this
    simp [spanNoSemi, ha, ih (by simpa [noSemi] using hv.2)]

/-- `[^;]*` stops at the first `;`: what remains is at least what follows any given `;` -/
theorem spanNoSemi_snd_length (v r : Text) :
    (';' :: r).length ≤ (spanNoSemi (v ++ ';' :: r)).2.length := by
  induction v with
  | nil => simp [spanNoSemi]
  | cons a v ih =>
    simp only [List.cons_append, spanNoSemi]
    split
    · simp; omega
    · exact ih

theorem dropPre_eq : ∀ (p s r : Text), dropPre p s = some r → s = p ++ r := by
  intro p
  induction p with
  | nil => intro s r h; cases s <;> simp [dropPre] at h <;> simp [h]
  | cons x p ihp =>
    intro s r h
    cases s with
    | nil => simp [dropPre] at h
    | cons y s =>
      simp only [dropPre] at h
      split at h
      · rename_i hxy
        have := ihp s r h
        simp at hxy; simp [hxy, this]
      · simp at h

theorem splitLast_eq (pat : Text) : ∀ (line a b : Text), splitLast pat line = some (a, b) →
    line = a ++ pat ++ b := by
  intro line
  induction line with
  | nil => intro a b h; simp [splitLast] at h
  | cons c cs ih =>
    intro a b h
    simp only [splitLast] at h
    cases hs : splitLast pat cs with
    | some ab =>
      simp only [hs, Option.some.injEq, Prod.mk.injEq] at h
      have := ih ab.1 ab.2 (by simp [hs])
      rw [← h.1, ← h.2, this]; simp
    | none =>
      simp only [hs, Option.map_eq_some_iff, Prod.mk.injEq] at h
      obtain ⟨r, hr, ha, hb⟩ := h
      subst ha; subst hb
      have : ∀ (p s r : Text), dropPre p s = some r → s = p ++ r := by
        intro p
        induction p with
        | nil => intro s r h; cases s <;> simp [dropPre] at h <;> simp [h]
        | cons x p ihp =>
          intro s r h
          cases s with
          | nil => simp [dropPre] at h
          | cons y s =>
            simp only [dropPre] at h
            split at h
            · rename_i hxy
              have := ihp s r h
              simp at hxy; simp [hxy, this]
            · simp at h
      simpa using this pat (c :: cs) r hr

/-- greedy first group: the split is at or after any given occurrence of the pattern -/
theorem splitLast_append (pat : Text) (hpat : pat ≠ []) (p v : Text) :
    ∃ a b, splitLast pat (p ++ (pat ++ v)) = some (a, b) ∧ p.length ≤ a.length := by
  induction p with
  | nil =>
    cases hpv : pat ++ v with
    | nil => cases pat with
      | nil => exact absurd rfl hpat
      | cons x xs => simp at hpv
    | cons c cs =>
      simp only [List.nil_append, splitLast]
      cases hs : splitLast pat cs with
      | some ab => exact ⟨c :: ab.1, ab.2, rfl, Nat.zero_le _⟩
      | none =>
        refine ⟨[], v, ?_, Nat.le_refl _⟩
        rw [← hpv, dropPre_append]; rfl
  | cons c p ih =>
    obtain ⟨a, b, h, hl⟩ := ih
    refine ⟨c :: a, b, ?_, ?_⟩
    · simp only [List.cons_append, splitLast, h]
    · simp; exact hl

theorem transform_nonempty (p : Text) (hp : p ≠ []) : transform p ≠ [] := by
  unfold transform
  split
  · exact hp
  · split
    · simp [sExpected]
    · exact hp

/-! ### the regex cascade on `<field>: <rest>` -/

theorem identOk_iff (W : Word) (f : Text) :
    identOk W f = true ↔ f ≠ [] ∧ f.all (isFieldChar W) = true := by
  cases f <;> simp [identOk]

theorem parseMsg_header (W : Word) (hW : W.Sound) (f rest : Text) (hf : identOk W f = true) :
    parseMsg W (f ++ ':' :: ' ' :: rest) =
      match parseTail ' ' rest with
      | some vp => ⟨some f, vp.1, transform vp.2⟩
      | none => ⟨none, none, f ++ ':' :: ' ' :: rest⟩ := by
  obtain ⟨hne, hall⟩ := (identOk_iff W f).1 hf
  cases f with
  | nil => exact absurd rfl hne
  | cons a as =>
    unfold parseMsg
    rw [spanField_append W hW _ _ hall]
    simp only [dropPre, beq_self_eq_true, if_true]
    cases parseTail ' ' rest <;> rfl

theorem parseTail_space (rest : Text) :
    parseTail ' ' rest = match m1tail rest with
      | some vp => some (some vp.1, vp.2)
      | none => some (m23tail rest) := by
  unfold parseTail
  have : isPySpace ' ' = true := by decide
  cases m1tail rest <;> simp [this]

/-- with DOTALL regex 3 always matches: the cascade never fails after a well-formed header -/
theorem parseTail_isSome (rest : Text) : (parseTail ' ' rest).isSome = true := by
  rw [parseTail_space]
  cases m1tail rest <;> rfl

/-- field group of the cascade on `<field>: <rest>` -/
theorem parse_field (W : Word) (hW : W.Sound) (f rest : Text) (hf : identOk W f = true) :
    (parseMsg W (f ++ ':' :: ' ' :: rest)).field = some f := by
  rw [parseMsg_header W hW f rest hf]
  have := parseTail_isSome rest
  cases h : parseTail ' ' rest with
  | none => simp [h] at this
  | some vp => rfl

theorem m1tail_gotFirst (v p : Text) (hv : noSemi v = true) :
    m1tail (body .gotFirst v p) = some (v, p) := by
  unfold m1tail body
  rw [dropPre_append]
  simp only [Option.bind_some, sSemiSp, List.cons_append, List.nil_append]
  rw [spanNoSemi_append v _ hv]
  simp [dropPre]

/-- regex 1 on `Got <x>; <y>` with ANY `x`: the problem group contains at least `y` -/
theorem m1tail_problem_length (x y : Text) (vp : Text × Text)
    (h : m1tail (sGot ++ (x ++ (sSemiSp ++ y))) = some vp) : y.length ≤ vp.2.length := by
  unfold m1tail at h
  rw [dropPre_append] at h
  simp only [Option.bind_some, Option.map_eq_some_iff] at h
  obtain ⟨r3, hr3, hvp⟩ := h
  have hlen := spanNoSemi_snd_length x (' ' :: y)
  have heq := dropPre_eq _ _ _ hr3
  simp only [sSemiSp, List.cons_append, List.nil_append] at heq hlen
  rw [heq] at hlen
  rw [← hvp]
  simp at hlen ⊢
  omega

theorem m1tail_none_of_head (rest : Text) (h : rest.head? ≠ some 'G') : m1tail rest = none := by
  unfold m1tail sGot
  cases rest with
  | nil => simp [dropPre]
  | cons c cs =>
    have : ('G' == c) = false := by
      simp at h; simp; exact fun hc => h hc.symm
    simp [dropPre, this]

/-- regexes 2 / 3 when regex 1 cannot match -/
theorem parseTail_line (rest : Text) (hG : rest.head? ≠ some 'G') :
    parseTail ' ' rest = some (m23tail rest) := by
  rw [parseTail_space, m1tail_none_of_head rest hG]

/-! ### the helper -/

theorem internal_field (ff : Bool) (J : Codec) (fuel : Nat) (s : Text) :
    (internal ff J fuel s).field = (parseMsg J.word s).field := by
  cases fuel with
  | zero => rfl
  | succ n =>
    simp only [internal]
    split
    · rfl
    · split
      · rename_i h _; simp [Info.field, h]
      · rfl

theorem internal_failFast (J : Codec) (fuel : Nat) (s : Text) :
    internal true J fuel s =
      .leaf (parseMsg J.word s).field (parseMsg J.word s).value (parseMsg J.word s).problem := by
  cases fuel <;> simp [internal]

theorem readable_collected (J : Codec) (hJ : J.RoundTrip) (ts : List Text) :
    readable false J (J.dumps ts) =
      .ok (.many (ts.map (internal false J (J.dumps ts).length))) := by
  simp [readable, hJ ts]

/-! ### text facts used for paths -/

theorem isFieldChar_ascii (W : Word) (hW : W.Sound) (c : Char) (h : c.isAlphanum = true) :
    isFieldChar W c = true := by
  simp [isFieldChar, hW.1 c h]

theorem isFieldChar_digit (W : Word) (hW : W.Sound) (d : Nat) :
    isFieldChar W (digitChar d) = true := by
  apply isFieldChar_ascii W hW
  unfold digitChar
  split <;> decide

theorem natText_all (W : Word) (hW : W.Sound) (fuel n : Nat) :
    (natText fuel n).all (isFieldChar W) = true := by
  induction fuel generalizing n with
  | zero => simp [natText, isFieldChar_digit W hW]
  | succ k ih =>
    simp only [natText]
    split
    · simp [isFieldChar_digit W hW]
    · simp [List.all_append, ih, isFieldChar_digit W hW]

theorem suffix_all (W : Word) (hW : W.Sound) (s : Suffix) :
    s.text.all (isFieldChar W) = true := by
  have hu : isFieldChar W '_' = true := by simp [isFieldChar]
  have ha : ∀ c : Char, c.isAlphanum = true → isFieldChar W c = true := isFieldChar_ascii W hW
  cases s with
  | none => rfl
  | idx i => simp only [Suffix.text, List.all_cons, natText_all W hW, hu, Bool.and_true]
  | key =>
    simp only [Suffix.text, List.all_cons, List.all_nil, hu, ha 'k' (by decide), ha 'e' (by decide),
      ha 'y' (by decide), Bool.and_true]
  | val =>
    simp only [Suffix.text, List.all_cons, List.all_nil, hu, ha 'v' (by decide), ha 'a' (by decide),
      ha 'l' (by decide), ha 'u' (by decide), ha 'e' (by decide), Bool.and_true]

theorem sufPath_all (W : Word) (hW : W.Sound) (p : SufPath) :
    p.text.all (isFieldChar W) = true := by
  induction p with
  | nil => rfl
  | cons s rest ih => simp only [SufPath.text, List.all_append, suffix_all W hW s, ih, Bool.and_true]

theorem identOk_path (W : Word) (hW : W.Sound) (c top : Text) (s : SufPath)
    (hc : identOk W c = true) (ht : identOk W top = true) :
    identOk W (withClass (some c) (top ++ s.text)) = true := by
  obtain ⟨hcn, hca⟩ := (identOk_iff W c).1 hc
  obtain ⟨_, hta⟩ := (identOk_iff W top).1 ht
  rw [identOk_iff]
  refine ⟨by cases c <;> simp_all [withClass], ?_⟩
  have hd : isFieldChar W '.' = true := by simp [isFieldChar]
  simp only [withClass, List.all_append, List.all_cons, hca, hta, sufPath_all W hW, hd, Bool.and_true]

/-! ### construction model -/

theorem sites_tops (O : Oracles) (c : ClassOpts) (kw : List (String × PyVal))
    (fields : List (String × FieldDecl)) :
    (sites O c kw fields).map (·.top) = invalidFields O c kw fields := by
  induction fields with
  | nil => rfl
  | cons nf rest ih =>
    obtain ⟨name, f⟩ := nf
    unfold invalidFields at ih
    simp only [sites, invalidFields, List.filterMap_cons]
    cases ha : argFor c [] kw name with
    | none => simpa using ih
    | some v =>
      cases hv : validate O f v with
      | ok y =>
        have h1 : isOk (validate O f v) = true := by rw [hv]; rfl
        simp only [h1]; rw [hv]; simpa using ih
      | error e =>
        have h1 : isOk (validate O f v) = false := by rw [hv]; rfl
        simp only [h1]; rw [hv]; simp [← ih]

theorem sites_mem_field (O : Oracles) (c : ClassOpts) (kw : List (String × PyVal))
    (fields : List (String × FieldDecl)) (s : Site) (hs : s ∈ sites O c kw fields) :
    ∃ nf ∈ fields, s.top = nf.1 := by
  induction fields with
  | nil => simp [sites] at hs
  | cons nf rest ih =>
    obtain ⟨name, f⟩ := nf
    simp only [sites] at hs
    cases ha : argFor c [] kw name with
    | none =>
      rw [ha] at hs
      obtain ⟨x, hx, h⟩ := ih hs
      exact ⟨x, List.mem_cons_of_mem _ hx, h⟩
    | some v =>
      rw [ha] at hs
      dsimp only at hs
      cases hv : validate O f v with
      | ok y =>
        rw [hv] at hs
        obtain ⟨x, hx, h⟩ := ih hs
        exact ⟨x, List.mem_cons_of_mem _ hx, h⟩
      | error e =>
        rw [hv] at hs
        cases hs with
        | head => exact ⟨(name, f), List.mem_cons_self, rfl⟩
        | tail _ h' =>
          obtain ⟨x, hx, h⟩ := ih h'
          exact ⟨x, List.mem_cons_of_mem _ hx, h⟩

/-- two lists are related position by position (same length) -/
def Aligned {α β} (R : α → β → Prop) : List α → List β → Prop
  | [], [] => True
  | a :: as, b :: bs => R a b ∧ Aligned R as bs
  | _, _ => False

theorem aligned_map {α β γ} (R : β → γ → Prop) (f : α → β) (g : α → γ) (l : List α)
    (h : ∀ x ∈ l, R (f x) (g x)) : Aligned R (l.map f) (l.map g) := by
  induction l with
  | nil => trivial
  | cons a l ih =>
    exact ⟨h a List.mem_cons_self, ih fun x hx => h x (List.mem_cons_of_mem _ hx)⟩

theorem aligned_length {α β} (R : α → β → Prop) : ∀ (as : List α) (bs : List β),
    Aligned R as bs → as.length = bs.length
  | [], [], _ => rfl
  | _ :: as, _ :: bs, h => by simp [aligned_length R as bs h.2]
  | [], _ :: _, h => h.elim
  | _ :: _, [], h => h.elim

theorem withClass_append (c : Option Text) (a b : Text) : withClass c (a ++ b) = withClass c a ++ b := by
  cases c <;> simp [withClass]

end Typedpy.Err
