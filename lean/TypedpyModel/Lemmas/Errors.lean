/-
  Lemmas/Errors.lean — helper lemmas about the regex matchers, the helper's control flow and the
  construction model of Sem/Errors.lean (used by Props/C18.lean).
-/
import TypedpyModel.Sem.Errors
namespace Typedpy.Err
open Typedpy

/-! ### matchers -/

theorem dropPre_append (p r : Text) : dropPre p (p ++ r) = some r := by
  induction p with
  | nil => cases r <;> rfl
  | cons a p ih => simp [dropPre, ih]

theorem spanField_append (f r : Text) (hf : f.all isFieldChar = true) :
    spanField (f ++ ':' :: r) = (f, ':' :: r) := by
  induction f with
  | nil => simp [spanField, isFieldChar]
  | cons a f ih =>
    simp only [List.all_cons, Bool.and_eq_true] at hf
    simp [spanField, hf.1, ih hf.2]

theorem spanNoSemi_append (v r : Text) (hv : noSemi v = true) :
    spanNoSemi (v ++ ';' :: r) = (v, ';' :: r) := by
  induction v with
  | nil => simp [spanNoSemi]
  | cons a v ih =>
    simp only [noSemi, List.all_cons, Bool.and_eq_true] at hv
    have ha : (a == ';') = false := by
      have := hv.1; simpa [bne] using this
    simp [spanNoSemi, ha, ih (by simpa [noSemi] using hv.2)]

theorem dotEnd_noNL (p : Text) (hp : noNL p = true) : dotEnd p = some p := by
  induction p with
  | nil => rfl
  | cons a p ih =>
    simp only [noNL, List.all_cons, Bool.and_eq_true] at hp
    have ha : (a == '\n') = false := by
      have := hp.1; simpa [bne] using this
    simp [dotEnd, ha, ih (by simpa [noNL] using hp.2)]

theorem noNL_append (a b : Text) : noNL (a ++ b) = (noNL a && noNL b) := by
  simp [noNL, List.all_append]

/-- a text with an inner newline defeats `(.*)$` -/
theorem dotEnd_none_of_inner_newline (a b : Text) (hb : b ≠ []) :
    dotEnd (a ++ '\n' :: b) = none := by
  induction a with
  | nil => cases b with
    | nil => exact absurd rfl hb
    | cons c cs => simp [dotEnd]
  | cons c a ih =>
    simp only [List.cons_append, dotEnd, ih, Option.map_none]
    have : (a ++ '\n' :: b).isEmpty = false := by cases a <;> rfl
    simp [this]

theorem splitLast_eq (pat : Text) : ∀ (line a b : Text), splitLast pat line = some (a, b) →
    line = a ++ pat ++ b := by
  intro line
  induction line with
  | nil => intro a b h; simp [splitLast] at h
  | cons c cs ih =>
    intro a b h
    simp only [splitLast] at h
    cases hs : splitLast pat cs with
    | some ab =>
      simp only [hs, Option.some.injEq, Prod.mk.injEq] at h
      have := ih ab.1 ab.2 (by simp [hs])
      rw [← h.1, ← h.2, this]; simp
    | none =>
      simp only [hs, Option.map_eq_some_iff, Prod.mk.injEq] at h
      obtain ⟨r, hr, ha, hb⟩ := h
      subst ha; subst hb
      have : ∀ (p s r : Text), dropPre p s = some r → s = p ++ r := by
        intro p
        induction p with
        | nil => intro s r h; cases s <;> simp [dropPre] at h <;> simp [h]
        | cons x p ihp =>
          intro s r h
          cases s with
          | nil => simp [dropPre] at h
          | cons y s =>
            simp only [dropPre] at h
            split at h
            · rename_i hxy
              have := ihp s r h
              simp at hxy; simp [hxy, this]
            · simp at h
      simpa using this pat (c :: cs) r hr

/-- greedy first group: the split is at or after any given occurrence of the pattern -/
theorem splitLast_append (pat : Text) (hpat : pat ≠ []) (p v : Text) :
    ∃ a b, splitLast pat (p ++ (pat ++ v)) = some (a, b) ∧ p.length ≤ a.length := by
  induction p with
  | nil =>
    cases hpv : pat ++ v with
    | nil => cases pat with
      | nil => exact absurd rfl hpat
      | cons x xs => simp at hpv
    | cons c cs =>
      simp only [List.nil_append, splitLast]
      cases hs : splitLast pat cs with
      | some ab => exact ⟨c :: ab.1, ab.2, rfl, Nat.zero_le _⟩
      | none =>
        refine ⟨[], v, ?_, Nat.le_refl _⟩
        rw [← hpv, dropPre_append]; rfl
  | cons c p ih =>
    obtain ⟨a, b, h, hl⟩ := ih
    refine ⟨c :: a, b, ?_, ?_⟩
    · simp only [List.cons_append, splitLast, h]
    · simp; exact hl

theorem transform_nonempty (p : Text) (hp : p ≠ []) : (transform p).1 ≠ [] := by
  unfold transform
  split
  · exact hp
  · split
    · simp [sExpected]
    · exact hp

/-! ### the regex cascade on `<field>: <rest>` -/

theorem identOk_iff (f : Text) : identOk f = true ↔ f ≠ [] ∧ f.all isFieldChar = true := by
  cases f <;> simp [identOk]

theorem parseMsg_header (f rest : Text) (hf : identOk f = true) :
    parseMsg (f ++ ':' :: ' ' :: rest) =
      match parseTail ' ' rest with
      | some vp => ⟨some f, vp.1, (transform vp.2).1, (transform vp.2).2⟩
      | none => ⟨none, none, f ++ ':' :: ' ' :: rest, false⟩ := by
  obtain ⟨hne, hall⟩ := (identOk_iff f).1 hf
  cases f with
  | nil => exact absurd rfl hne
  | cons a as =>
    unfold parseMsg
    rw [spanField_append _ _ hall]
    simp only [dropPre, beq_self_eq_true, if_true]
    cases parseTail ' ' rest <;> rfl

theorem parseTail_space (rest : Text) :
    parseTail ' ' rest = match m1tail rest with
      | some vp => some (some vp.1, vp.2)
      | none => m23tail rest := by
  unfold parseTail
  have : isPySpace ' ' = true := by decide
  cases m1tail rest <;> simp [this]

theorem parseTail_isSome (rest : Text) : (parseTail ' ' rest).isSome = recoverable rest := by
  rw [parseTail_space]
  unfold recoverable m23tail
  cases m1tail rest <;> cases dotEnd rest <;> simp

/-- field group of the cascade on `<field>: <rest>` -/
theorem parse_field (f rest : Text) (hf : identOk f = true) :
    (parseMsg (f ++ ':' :: ' ' :: rest)).field = if recoverable rest then some f else none := by
  rw [parseMsg_header f rest hf, ← parseTail_isSome]
  cases parseTail ' ' rest <;> simp

theorem m1tail_gotFirst (v p : Text) (hv : noSemi v = true) (hp : noNL p = true) :
    m1tail (body .gotFirst v p) = some (v, p) := by
  unfold m1tail body
  rw [dropPre_append]
  simp only [Option.bind_some, sSemiSp, List.cons_append, List.nil_append]
  rw [spanNoSemi_append v _ hv]
  simp [dropPre, dotEnd_noNL p hp]

theorem m1tail_none_of_head (rest : Text) (h : rest.head? ≠ some 'G') : m1tail rest = none := by
  unfold m1tail sGot
  cases rest with
  | nil => simp [dropPre]
  | cons c cs =>
    have : ('G' == c) = false := by
      simp at h; simp; exact fun hc => h hc.symm
    simp [dropPre, this]

/-- regexes 2 / 3 on a one-line rest -/
theorem parseTail_line (rest : Text) (hG : rest.head? ≠ some 'G') (hl : noNL rest = true) :
    parseTail ' ' rest = some (match splitLast sSemiGot rest with
      | some pv => (some pv.2, pv.1)
      | none => (none, rest)) := by
  rw [parseTail_space, m1tail_none_of_head rest hG]
  simp only [m23tail, dotEnd_noNL rest hl, Option.map_some]
  cases splitLast sSemiGot rest <;> rfl

/-! ### recoverability of rendered bodies -/

theorem recoverable_of_noNL (sh : Shape) (v p : Text) (hv : noNL v = true) (hp : noNL p = true) :
    recoverable (body sh v p) = true := by
  have h1 : noNL sGot = true := by decide
  have h2 : noNL sSemiSp = true := by decide
  have h3 : noNL sSemiGot = true := by decide
  have : noNL (body sh v p) = true := by
    cases sh <;> simp only [body, noNL_append, hv, hp, h1, h2, h3, Bool.and_self]
  simp [recoverable, dotEnd_noNL _ this]

theorem recoverable_gotFirst (v p : Text) (hv : noSemi v = true) (hp : noNL p = true) :
    recoverable (body .gotFirst v p) = true := by
  simp [recoverable, m1tail_gotFirst v p hv hp]

/-! ### the helper -/

theorem internal_field (ff : Bool) (J : Codec) (fuel : Nat) (s : Text) :
    (internal ff J fuel s).field = (parseMsg s).field := by
  cases fuel with
  | zero => rfl
  | succ n =>
    simp only [internal]
    split
    · rfl
    · split
      · rename_i h _; simp [Info.field, h]
      · rfl

theorem internal_failFast (J : Codec) (fuel : Nat) (s : Text) :
    internal true J fuel s =
      .leaf (parseMsg s).field (parseMsg s).value (parseMsg s).problem (parseMsg s).opaqueMatch := by
  cases fuel <;> simp [internal]

theorem readable_collected (J : Codec) (hJ : J.RoundTrip) (ts : List Text) :
    readable false J (J.dumps ts) =
      .ok (.many (ts.map (internal false J (J.dumps ts).length))) := by
  simp [readable, hJ ts]

/-! ### text facts used for paths -/

theorem isFieldChar_digit (d : Nat) : isFieldChar (digitChar d) = true := by
  unfold digitChar
  split <;> decide

theorem natText_all (fuel n : Nat) : (natText fuel n).all isFieldChar = true := by
  induction fuel generalizing n with
  | zero => simp [natText, isFieldChar_digit]
  | succ k ih =>
    simp only [natText]
    split
    · simp [isFieldChar_digit]
    · simp [List.all_append, ih, isFieldChar_digit]

theorem suffix_all (s : Suffix) : s.text.all isFieldChar = true := by
  cases s with
  | none => rfl
  | idx i =>
    simp only [Suffix.text, List.all_cons, natText_all, Bool.and_true]; decide
  | key => decide
  | val => decide

theorem identOk_path (c top : Text) (s : Suffix) (hc : identOk c = true) (ht : identOk top = true) :
    identOk (withClass (some c) (top ++ s.text)) = true := by
  obtain ⟨hcn, hca⟩ := (identOk_iff c).1 hc
  obtain ⟨_, hta⟩ := (identOk_iff top).1 ht
  rw [identOk_iff]
  refine ⟨by cases c <;> simp_all [withClass], ?_⟩
  simp only [withClass, List.all_append, List.all_cons, hca, hta, suffix_all, Bool.and_true,
    Bool.true_and]
  decide

/-! ### construction model -/

theorem sites_tops (O : Oracles) (c : ClassOpts) (kw : List (String × PyVal))
    (fields : List (String × FieldDecl)) :
    (sites O c kw fields).map (·.top) = invalidFields O c kw fields := by
  induction fields with
  | nil => rfl
  | cons nf rest ih =>
    obtain ⟨name, f⟩ := nf
    unfold invalidFields at ih
    simp only [sites, invalidFields, List.filterMap_cons]
    cases ha : argFor c [] kw name with
    | none => simpa using ih
    | some v =>
      cases hv : validate O f v with
      | ok y =>
        have h1 : isOk (validate O f v) = true := by rw [hv]; rfl
        simp only [h1]; rw [hv]; simpa using ih
      | error e =>
        have h1 : isOk (validate O f v) = false := by rw [hv]; rfl
        simp only [h1]; rw [hv]; simp [← ih]

theorem sites_mem_field (O : Oracles) (c : ClassOpts) (kw : List (String × PyVal))
    (fields : List (String × FieldDecl)) (s : Site) (hs : s ∈ sites O c kw fields) :
    ∃ nf ∈ fields, s.top = nf.1 := by
  induction fields with
  | nil => simp [sites] at hs
  | cons nf rest ih =>
    obtain ⟨name, f⟩ := nf
    simp only [sites] at hs
    cases ha : argFor c [] kw name with
    | none =>
      rw [ha] at hs
      obtain ⟨x, hx, h⟩ := ih hs
      exact ⟨x, List.mem_cons_of_mem _ hx, h⟩
    | some v =>
      rw [ha] at hs
      dsimp only at hs
      cases hv : validate O f v with
      | ok y =>
        rw [hv] at hs
        obtain ⟨x, hx, h⟩ := ih hs
        exact ⟨x, List.mem_cons_of_mem _ hx, h⟩
      | error e =>
        rw [hv] at hs
        cases hs with
        | head => exact ⟨(name, f), List.mem_cons_self, rfl⟩
        | tail _ h' =>
          obtain ⟨x, hx, h⟩ := ih h'
          exact ⟨x, List.mem_cons_of_mem _ hx, h⟩

/-- two lists are related position by position (same length) -/
def Aligned {α β} (R : α → β → Prop) : List α → List β → Prop
  | [], [] => True
  | a :: as, b :: bs => R a b ∧ Aligned R as bs
  | _, _ => False

theorem aligned_map {α β γ} (R : β → γ → Prop) (f : α → β) (g : α → γ) (l : List α)
    (h : ∀ x ∈ l, R (f x) (g x)) : Aligned R (l.map f) (l.map g) := by
  induction l with
  | nil => trivial
  | cons a l ih =>
    exact ⟨h a List.mem_cons_self, ih fun x hx => h x (List.mem_cons_of_mem _ hx)⟩

theorem aligned_length {α β} (R : α → β → Prop) : ∀ (as : List α) (bs : List β),
    Aligned R as bs → as.length = bs.length
  | [], [], _ => rfl
  | _ :: as, _ :: bs, h => by simp [aligned_length R as bs h.2]
  | [], _ :: _, h => h.elim
  | _ :: _, [], h => h.elim

theorem withClass_append (c : Option Text) (a b : Text) : withClass c (a ++ b) = withClass c a ++ b := by
  cases c <;> simp [withClass]

end Typedpy.Err
