/-
  Lemmas/DefOrder.lean — the depth-first emission order of the definitions (`topoOrder`,
  `_definitions_in_dependency_order` of the proposed repair C09-topo-order-definitions) puts every
  definition after the definitions it refers to, whenever the references have no cycle.
-/
import TypedpyModel.Sem.SchemaToCode
namespace Typedpy

theorem visit_unknown (defs : Defs) (fuel : Nat) (r : String) (st : List String × List String)
    (h : knownDef defs r = false) : visitDef defs fuel r st = st := by
  cases fuel with
  | zero => rfl
  | succ f =>
    simp only [knownDef, Option.isSome_eq_false_iff, Option.isNone_iff_eq_none] at h
    simp only [visitDef, h]
    split <;> rfl

structure VisitPost (defs : Defs) (S O : List String) (st : List String × List String) : Prop where
  good : definedBeforeUse defs st.2.reverse
  sub : ∀ x ∈ st.2, x ∈ st.1
  monoS : ∀ x ∈ S, x ∈ st.1
  monoO : ∀ x ∈ O, x ∈ st.2
  gray : ∀ g ∈ st.1, g ∉ st.2 → g ∈ S ∧ g ∉ O

theorem visitRefs_ok (defs : Defs) (rk : String → Nat) (fuel : Nat)
    (IH : ∀ n S O, rk n < fuel → definedBeforeUse defs O.reverse → (∀ x ∈ O, x ∈ S) →
      (∀ g ∈ S, g ∉ O → rk n < rk g) →
      VisitPost defs S O (visitDef defs fuel n (S, O)) ∧ (knownDef defs n = true → n ∈ (visitDef defs fuel n (S, O)).2))
    (bound : Nat) (hb : bound ≤ fuel) :
    ∀ (rs : List String) (S1 O1 : List String), (∀ r ∈ rs, knownDef defs r = true → rk r < bound) →
      definedBeforeUse defs O1.reverse → (∀ x ∈ O1, x ∈ S1) → (∀ g ∈ S1, g ∉ O1 → bound ≤ rk g) →
      VisitPost defs S1 O1 (rs.foldl (fun acc r => visitDef defs fuel r acc) (S1, O1))
        ∧ ∀ r ∈ rs, knownDef defs r = true → r ∈ (rs.foldl (fun acc r => visitDef defs fuel r acc) (S1, O1)).2
  | [], S1, O1, _, hg, hs, _ => by
    exact ⟨⟨hg, hs, fun x h => h, fun x h => h, fun g h1 h2 => ⟨h1, h2⟩⟩, by simp⟩
  | r :: rs, S1, O1, hr, hg, hs, hgray => by
    simp only [List.foldl_cons]
    cases hk : knownDef defs r with
    | false =>
      rw [visit_unknown defs fuel r _ hk]
      obtain ⟨p, q⟩ := visitRefs_ok defs rk fuel IH bound hb rs S1 O1 (fun x hx => hr x (by simp [hx])) hg hs hgray
      refine ⟨p, ?_⟩
      intro x hx hkx
      simp only [List.mem_cons] at hx
      rcases hx with rfl | hx
      · rw [hk] at hkx; cases hkx
      · exact q x hx hkx
    | true =>
      have hrk : rk r < bound := hr r (by simp) hk
      obtain ⟨p1, q1⟩ := IH r S1 O1 (by omega) hg hs (fun g h1 h2 => by have := hgray g h1 h2; omega)
      generalize hst : visitDef defs fuel r (S1, O1) = st at p1 q1
      obtain ⟨S2, O2⟩ := st
      obtain ⟨p2, q2⟩ := visitRefs_ok defs rk fuel IH bound hb rs S2 O2 (fun x hx => hr x (by simp [hx]))
        p1.good p1.sub (fun g h1 h2 => by
          obtain ⟨a, b⟩ := p1.gray g h1 h2
          exact hgray g a b)
      refine ⟨⟨p2.good, p2.sub, fun x h => p2.monoS x (p1.monoS x h), fun x h => p2.monoO x (p1.monoO x h), ?_⟩, ?_⟩
      · intro g h1 h2
        obtain ⟨a, b⟩ := p2.gray g h1 h2
        exact p1.gray g a b
      · intro x hx hkx
        simp only [List.mem_cons] at hx
        rcases hx with rfl | hx
        · exact p2.monoO x (q1 hkx)
        · exact q2 x hx hkx

theorem visit_ok (defs : Defs) (rk : String → Nat)
    (hrk : ∀ n s, lookup n defs = some s → ∀ r ∈ refsOf s, knownDef defs r = true → rk r < rk n) :
    ∀ (fuel : Nat) (n : String) (S O : List String), rk n < fuel → definedBeforeUse defs O.reverse →
      (∀ x ∈ O, x ∈ S) → (∀ g ∈ S, g ∉ O → rk n < rk g) →
      VisitPost defs S O (visitDef defs fuel n (S, O)) ∧ (knownDef defs n = true → n ∈ (visitDef defs fuel n (S, O)).2)
  | 0, n, S, O, h, _, _, _ => by omega
  | fuel + 1, n, S, O, hf, hg, hs, hgray => by
    have trivialPost : VisitPost defs S O (S, O) := ⟨hg, hs, fun x h => h, fun x h => h, fun g h1 h2 => ⟨h1, h2⟩⟩
    simp only [visitDef]
    by_cases hc : S.contains n = true
    · simp only [hc, if_true]
      refine ⟨trivialPost, fun _ => ?_⟩
      have hn : n ∈ S := by simpa using hc
      apply Classical.byContradiction
      intro hno
      have := hgray n hn hno
      omega
    · simp only [hc, if_false, Bool.false_eq_true]
      cases hl : lookup n defs with
      | none =>
        refine ⟨trivialPost, fun hk => ?_⟩
        simp [knownDef, hl] at hk
      | some s =>
        simp only []
        have hnS : n ∉ S := by simpa using hc
        obtain ⟨p, q⟩ := visitRefs_ok defs rk fuel (visit_ok defs rk hrk fuel) (rk n) (by omega) (refsOf s) (n :: S) O
          (fun r hr hk => hrk n s hl r hr hk) hg (fun x hx => by simp [hs x hx])
          (fun g h1 h2 => by
            simp only [List.mem_cons] at h1
            rcases h1 with rfl | h1
            · exact Nat.le_refl _
            · exact Nat.le_of_lt (hgray g h1 h2))
        generalize (refsOf s).foldl (fun acc r => visitDef defs fuel r acc) (n :: S, O) = st at p q
        obtain ⟨S2, O2⟩ := st
        have hnS2 : n ∈ S2 := p.monoS n (by simp)
        refine ⟨⟨?_, ?_, fun x h => p.monoS x (by simp [h]), fun x h => by simp [p.monoO x h], ?_⟩, fun _ => by simp⟩
        · simp only [List.reverse_append, List.reverse_cons, List.reverse_nil, List.nil_append, List.singleton_append,
            definedBeforeUse]
          refine ⟨?_, p.good⟩
          intro s' hs' r hr hk
          rw [hl] at hs'
          cases hs'
          simpa using q r hr hk
        · intro x hx
          simp only [List.mem_append, List.mem_singleton] at hx
          rcases hx with hx | rfl
          · exact p.sub x hx
          · exact hnS2
        · intro g h1 h2
          simp only [List.mem_append, List.mem_singleton, not_or] at h2
          obtain ⟨a, b⟩ := p.gray g h1 h2.1
          simp only [List.mem_cons] at a
          rcases a with rfl | a
          · exact absurd rfl h2.2
          · exact ⟨a, b⟩


theorem lookup_mem_isSome {α} : ∀ (l : List (String × α)) (a : String) (b : α), (a, b) ∈ l →
    (lookup a l).isSome = true
  | [], _, _, h => by cases h
  | (k, v) :: xs, a, b, h => by
    simp only [lookup]
    by_cases hk : a = k
    · simp [hk]
    · have hb : (a == k) = false := by simpa using hk
      simp only [hb, Bool.false_eq_true, if_false]
      rcases List.mem_cons.1 h with h | h
      · cases h; exact absurd rfl hk
      · exact lookup_mem_isSome xs a b h

/-- with the depth-first order, when the references between the definitions have no cycle, every
    definition is emitted after all the definitions it refers to, and every definition is emitted -/
theorem topoOrder_ok (defs : Defs) (hac : Acyclic defs) :
    definedBeforeUse defs (topoOrder defs).reverse ∧ ∀ n ∈ defs.map (·.1), n ∈ topoOrder defs := by
  obtain ⟨rk, hbound, hrk⟩ := hac
  have key : ∀ (roots : List String) (S O : List String), definedBeforeUse defs O.reverse →
      (∀ x ∈ O, x ∈ S) → (∀ g ∈ S, g ∈ O) → (∀ n ∈ roots, knownDef defs n = true) →
      let st := roots.foldl (fun acc n => visitDef defs (defs.length + 1) n acc) (S, O)
      definedBeforeUse defs st.2.reverse ∧ (∀ x ∈ O, x ∈ st.2) ∧ ∀ n ∈ roots, n ∈ st.2 := by
    intro roots
    induction roots with
    | nil => intro S O hg _ _ _; exact ⟨hg, fun x h => h, by simp⟩
    | cons n rest ih =>
      intro S O hg hs hfin hkn
      simp only [List.foldl_cons]
      obtain ⟨p, q⟩ := visit_ok defs rk hrk (defs.length + 1) n S O (by have := hbound n; omega) hg hs
        (fun g h1 h2 => absurd (hfin g h1) h2)
      generalize visitDef defs (defs.length + 1) n (S, O) = st at p q
      obtain ⟨S2, O2⟩ := st
      obtain ⟨a, b, c⟩ := ih S2 O2 p.good p.sub (fun g h1 => by
        apply Classical.byContradiction
        intro h2
        obtain ⟨x, y⟩ := p.gray g h1 h2
        exact y (hfin g x)) (fun m hm => hkn m (by simp [hm]))
      refine ⟨a, fun x h => b x (p.monoO x h), ?_⟩
      intro m hm
      simp only [List.mem_cons] at hm
      rcases hm with rfl | hm
      · exact b m (q (hkn m (by simp)))
      · exact c m hm
  have hknown : ∀ n ∈ defs.map (·.1), knownDef defs n = true := by
    intro n hn
    simp only [List.mem_map] at hn
    obtain ⟨⟨a, b⟩, hmem, rfl⟩ := hn
    exact lookup_mem_isSome defs a b hmem
  obtain ⟨a, _, c⟩ := key (defs.map (·.1)) [] [] trivial (by simp) (by simp) hknown
  exact ⟨a, c⟩

/-- the emission in dict order is not always executable: `A` refers to the later `B` -/
theorem dict_order_counterexample :
    refsOrdered [] [("A", .obj [("x", .ref "B")] [] (some ["x"]) true),
                    ("B", .obj [("y", .num true none none none false)] [] (some ["y"]) true)] = false ∧
    topoOrder [("A", .obj [("x", .ref "B")] [] (some ["x"]) true),
               ("B", .obj [("y", .num true none none none false)] [] (some ["y"]) true)] = ["B", "A"] := by
  decide

end Typedpy
