/-
  Lemmas/SchemaExactField.lean — exactness at field level beyond scalars: homogeneous `Array[X]` and
  `Tuple[X]` (no uniqueItems) over the exact fragment, at any nesting depth: what the field's schema
  admits is accepted by `deserialize_single_field` and then by the field's validation.
-/
import TypedpyModel.Lemmas.SchemaExact
namespace Typedpy.Sch
open Typedpy

/-- no exact scalar schema admits `null` -/
theorem c08_exact_not_null (R S) (f : FieldDecl) (hf : exactScalar f = true) :
    jsV R S (emit true f) .none = false := by
  cases hv : jsV R S (emit true f) .none with
  | false => rfl
  | true =>
    exfalso
    cases f with
    | integer o =>
      simp only [emit] at hv
      have := (jsV_numKws_inv R S "integer" true o .none hv).1
      simp [typeIs] at this
    | number o =>
      simp only [emit] at hv
      have := (jsV_numKws_inv R S "number" false o .none hv).1
      simp [typeIs] at this
    | float o =>
      simp only [emit] at hv
      have := (jsV_numKws_inv R S "number" false o .none hv).1
      simp [typeIs] at this
    | string lo hi pat =>
      simp only [emit] at hv
      obtain ⟨s, hs, _⟩ := jsV_strKws_inv R S lo hi pat .none hv
      cases hs
    | boolean =>
      simp only [emit] at hv
      have hty : typeIs "boolean" .none = true := by
        simpa [jsV, getKw, kw, keyIs, jsKws, kwOf, kwOfStr, kwNode, kwLeaf, typeOk] using hv
      simp [typeIs] at hty
    | enumLit vs =>
      simp only [exactScalar, and_true_iff'] at hf
      simp only [emit] at hv
      rw [jsV_enum] at hv
      have hm := jsonMem_pyMem .none vs hf.2 hv
      rw [pyMem_none_false vs hf.2] at hm
      simp at hm
    | enumCls cls names =>
      simp only [emit] at hv
      rw [jsV_enum] at hv
      obtain ⟨n, hn, _⟩ := jsonMem_str_inv .none names hv
      cases hn
    | _ => simp [exactScalar] at hf


/-! ### inverting the array keywords -/

theorem c08_sizeKws_inv (R S) (ctx : List (PyVal × PyVal)) (sz : SizeOpts) (ys : List PyVal)
    (h1 : jsKws R S ctx (optKw "maxItems" (sz.max.map natJ)) (.list ys) = true)
    (h2 : jsKws R S ctx (optKw "minItems" (sz.min.map natJ)) (.list ys) = true) :
    sizeOk sz ys.length = true := by
  simp only [sizeOk, and_true_iff']
  constructor
  · cases h : sz.min with
    | none => rfl
    | some n =>
      simp only [h, Option.map, optKw] at h2
      simp [jsKws, kw, kwOf, kwOfStr, kwNode, kwLeaf, natOf_natJ] at h2
      simpa [geLen] using h2
  · cases h : sz.max with
    | none => rfl
    | some n =>
      simp only [h, Option.map, optKw] at h1
      simp [jsKws, kw, kwOf, kwOfStr, kwNode, kwLeaf, natOf_natJ] at h1
      simpa [leLen] using h1

/-- `Array[X]` / `Tuple[X]`: what the schema admits is an array within the size bounds whose elements
    the item schema admits -/
theorem c08_jsV_arrOf_inv (R S) (sz : SizeOpts) (s : PyVal) (hs : dictOrNone s = true) (v : PyVal)
    (h : jsV R S (.dict (arrKws sz none (some s))) v = true) :
    ∃ xs, v = .list xs ∧ sizeOk sz xs.length = true ∧ xs.all (jsV R S s) = true := by
  rw [jsV_dict _ _ _ _ (getKw_ref_arrKws sz none (some s))] at h
  revert h
  suffices hh : ∀ ctx, jsKws R S ctx (arrKws sz none (some s)) v = true →
      ∃ xs, v = .list xs ∧ sizeOk sz xs.length = true ∧ xs.all (jsV R S s) = true from hh _
  intro ctx h
  simp only [arrKws, jsKws_append, and_true_iff'] at h
  obtain ⟨⟨⟨⟨⟨hty, _⟩, _⟩, hmax⟩, hmin⟩, hitems⟩ := h
  have hty' : typeIs "array" v = true := by
    simpa [jsKws, kw, kwOf, kwOfStr, kwNode, kwLeaf, typeOk] using hty
  cases v with
  | list xs =>
    refine ⟨xs, rfl, c08_sizeKws_inv R S ctx sz xs hmax hmin, ?_⟩
    cases s <;> simp [dictOrNone] at hs <;>
      simpa [optKw, jsKws, kw, kwOf, kwOfStr, kwNode] using hitems
  | _ => simp [typeIs] at hty'

/-! ### elements -/

theorem c08_exact_items (O : Oracles) (opts : DeserOpts) (f : FieldDecl) (P : PyVal → Prop)
    (hacc : ∀ x, P x → Accepted O opts false f x) :
    ∀ xs : List PyVal, (∀ x ∈ xs, P x) →
      ∃ ys ys', mapE (deser O opts false f) xs = .ok ys ∧ mapE (validate O f) ys = .ok ys'
        ∧ ys.length = xs.length
  | [], _ => ⟨[], [], rfl, rfl, rfl⟩
  | x :: xs, h => by
    obtain ⟨y, y', hd, hv⟩ := hacc x (h x (by simp))
    obtain ⟨ys, ys', hds, hvs, hl⟩ := c08_exact_items O opts f P hacc xs (fun z hz => h z (by simp [hz]))
    exact ⟨y :: ys, y' :: ys', by simp [mapE, hd, hds], by simp [mapE, hv, hvs], by simp [hl]⟩


/-! ### the exact field fragment -/

/-- **exactness at field level, any nesting of Array[X] / Tuple[X]**: whatever the schema of the field
    admits is accepted by `deserialize_single_field` and by the validation the constructor then runs -/
theorem c08_exact_field (O : Oracles) (R : String → PyVal → Bool) (S : String → String → Bool)
    (hS : ∀ p s, startAnchored p = true → S p s = true → O.reMatch p s = true) (opts : DeserOpts) :
    ∀ (f : FieldDecl) (ign : Bool) (v : PyVal), exactF f = true → jsV R S (emit true f) v = true →
      Accepted O opts ign f v
  | .seqOf k f sz, ign, v, hf, h => by
    simp only [exactF, and_true_iff'] at hf
    have hk : k = .list := by simpa using hf.1.1
    subst hk
    have hu : sz.uniq = false := by simpa using hf.1.2
    simp only [emit] at h
    obtain ⟨xs, rfl, hsz, hall⟩ := c08_jsV_arrOf_inv R S sz (emit true f) (emit_shape true f) v h
    obtain ⟨ys, ys', hd, hv, hl⟩ := c08_exact_items O opts f (fun x => jsV R S (emit true f) x = true)
      (fun x hx => c08_exact_field O R S hS opts f false x hf.2 hx) xs
      (fun x hx => List.all_eq_true.mp hall x hx)
    refine ⟨.list ys, .list ys', ?_, ?_⟩
    · simp [deser, PyVal.isNone, dSeq, docSeq, hd, toValueErr, mkSeq]
    · have hl' : ys.length = xs.length := hl
      simp [validate, vSeq, seqElems, uniqOk, hu, hl', hsz, hv, mkSeq]
  | .tupleOf f u, ign, v, hf, h => by
    simp only [exactF, and_true_iff'] at hf
    have hu : u = false := by simpa using hf.1
    subst hu
    simp only [emit] at h
    obtain ⟨xs, rfl, _, hall⟩ := c08_jsV_arrOf_inv R S { uniq := false } (emit true f) (emit_shape true f) v h
    obtain ⟨ys, ys', hd, hv, _⟩ := c08_exact_items O opts f (fun x => jsV R S (emit true f) x = true)
      (fun x hx => c08_exact_field O R S hS opts f false x hf.2 hx) xs
      (fun x hx => List.all_eq_true.mp hall x hx)
    refine ⟨.tuple ys, .tuple ys', ?_, ?_⟩
    · simp [deser, PyVal.isNone, dSeq, docSeq, hd, toValueErr]
    · simp [validate, vTuple, uniqOk, hv]
  | .number o, ign, v, hf, h => exact_scalar O R S hS opts ign _ v (by simpa [exactF] using hf) h
  | .integer o, ign, v, hf, h => exact_scalar O R S hS opts ign _ v (by simpa [exactF] using hf) h
  | .float o, ign, v, hf, h => exact_scalar O R S hS opts ign _ v (by simpa [exactF] using hf) h
  | .string lo hi pat, ign, v, hf, h => exact_scalar O R S hS opts ign _ v (by simpa [exactF] using hf) h
  | .boolean, ign, v, _, h => exact_scalar O R S hS opts ign _ v rfl h
  | .enumLit vs, ign, v, hf, h => exact_scalar O R S hS opts ign _ v (by simpa [exactF] using hf) h
  | .enumCls c names, ign, v, hf, h => exact_scalar O R S hS opts ign _ v (by simpa [exactF] using hf) h
  | .seqAny _ _, _, _, hf, _ => by simp [exactF] at hf
  | .seqPos _ _ _ _, _, _, hf, _ => by simp [exactF] at hf
  | .setAny _ _, _, _, hf, _ => by simp [exactF] at hf
  | .setOf _ _ _, _, _, hf, _ => by simp [exactF] at hf
  | .tuplePos _ _, _, _, hf, _ => by simp [exactF] at hf
  | .mapAny _, _, _, hf, _ => by simp [exactF] at hf
  | .mapOf _ _ _, _, _, hf, _ => by simp [exactF] at hf
  | .struct _ _ _, _, _, hf, _ => by simp [exactF] at hf
  | .anyOf _, _, _, hf, _ => by simp [exactF] at hf
  | .oneOf _, _, _, hf, _ => by simp [exactF] at hf
  | .allOf _, _, _, hf, _ => by simp [exactF] at hf
  | .notF _, _, _, hf, _ => by simp [exactF] at hf
  | .noneF, _, _, hf, _ => by simp [exactF] at hf
  | .anything, _, _, hf, _ => by simp [exactF] at hf

/-- no schema of the exact field fragment admits `null` -/
theorem c08_exactF_not_null (R S) (f : FieldDecl) (hf : exactF f = true) :
    jsV R S (emit true f) .none = false := by
  cases hv : jsV R S (emit true f) .none with
  | false => rfl
  | true =>
    exfalso
    cases f with
    | seqOf k g sz =>
      simp only [emit] at hv
      obtain ⟨xs, hx, _⟩ := c08_jsV_arrOf_inv R S sz (emit true g) (emit_shape true g) .none hv
      cases hx
    | tupleOf g u =>
      simp only [emit] at hv
      obtain ⟨xs, hx, _⟩ := c08_jsV_arrOf_inv R S { uniq := u } (emit true g) (emit_shape true g) .none hv
      cases hx
    | number o => rw [c08_exact_not_null R S _ (by simpa [exactF] using hf)] at hv; cases hv
    | integer o => rw [c08_exact_not_null R S _ (by simpa [exactF] using hf)] at hv; cases hv
    | float o => rw [c08_exact_not_null R S _ (by simpa [exactF] using hf)] at hv; cases hv
    | string lo hi pat => rw [c08_exact_not_null R S _ (by simpa [exactF] using hf)] at hv; cases hv
    | boolean => rw [c08_exact_not_null R S _ rfl] at hv; cases hv
    | enumLit vs => rw [c08_exact_not_null R S _ (by simpa [exactF] using hf)] at hv; cases hv
    | enumCls c names => rw [c08_exact_not_null R S _ (by simpa [exactF] using hf)] at hv; cases hv
    | _ => simp [exactF] at hf

end Typedpy.Sch
