/-
  Lemmas/SchemaExactField.lean — building blocks of exactness beyond scalars: no exact scalar schema admits null; inverting
  the array keywords; lifting acceptance from elements to `Array[X]` / `Tuple[X]`.  The theorem itself is in
  Lemmas/SchemaExactClass.lean (mutual with nested classes).
-/
import TypedpyModel.Lemmas.SchemaExact
namespace Typedpy.Sch
open Typedpy

/-- no exact scalar schema admits `null` -/
theorem c08_exact_not_null (R S) (f : FieldDecl) (hf : exactScalar f = true) :
    jsV R S (emit true f) .none = false := by
  cases hv : jsV R S (emit true f) .none with
  | false => rfl
  | true =>
    exfalso
    cases f with
    | integer o =>
      simp only [emit] at hv
      have := (jsV_numKws_inv R S "integer" true o .none hv).1
      simp [typeIs] at this
    | number o =>
      simp only [emit] at hv
      have := (jsV_numKws_inv R S "number" false o .none hv).1
      simp [typeIs] at this
    | float o =>
      simp only [emit] at hv
      have := (jsV_numKws_inv R S "number" false o .none hv).1
      simp [typeIs] at this
    | string lo hi pat =>
      simp only [emit] at hv
      obtain ⟨s, hs, _⟩ := jsV_strKws_inv R S lo hi pat .none hv
      cases hs
    | boolean =>
      simp only [emit] at hv
      have hty : typeIs "boolean" .none = true := by
        simpa [jsV, getKw, kw, keyIs, jsKws, kwOf, kwOfStr, kwNode, kwLeaf, typeOk] using hv
      simp [typeIs] at hty
    | enumLit vs =>
      simp only [exactScalar, and_true_iff'] at hf
      simp only [emit] at hv
      rw [jsV_enum] at hv
      have hm := jsonMem_pyMem .none vs hf.2 hv
      rw [pyMem_none_false vs hf.2] at hm
      simp at hm
    | enumCls cls names =>
      simp only [emit] at hv
      rw [jsV_enum] at hv
      obtain ⟨n, hn, _⟩ := jsonMem_str_inv .none names hv
      cases hn
    | _ => simp [exactScalar] at hf


/-! ### inverting the array keywords -/

theorem c08_sizeKws_inv (R S) (ctx : List (PyVal × PyVal)) (sz : SizeOpts) (ys : List PyVal)
    (h1 : jsKws R S ctx (optKw "maxItems" (sz.max.map natJ)) (.list ys) = true)
    (h2 : jsKws R S ctx (optKw "minItems" (sz.min.map natJ)) (.list ys) = true) :
    sizeOk sz ys.length = true := by
  simp only [sizeOk, and_true_iff']
  constructor
  · cases h : sz.min with
    | none => rfl
    | some n =>
      simp only [h, Option.map, optKw] at h2
      simp [jsKws, kw, kwOf, kwOfStr, kwNode, kwLeaf, natOf_natJ] at h2
      simpa [geLen] using h2
  · cases h : sz.max with
    | none => rfl
    | some n =>
      simp only [h, Option.map, optKw] at h1
      simp [jsKws, kw, kwOf, kwOfStr, kwNode, kwLeaf, natOf_natJ] at h1
      simpa [leLen] using h1

/-- `Array[X]` / `Tuple[X]`: what the schema admits is an array within the size bounds whose elements
    the item schema admits -/
theorem c08_jsV_arrOf_inv (R S) (sz : SizeOpts) (s : PyVal) (hs : dictOrNone s = true) (v : PyVal)
    (h : jsV R S (.dict (arrKws sz none (some s))) v = true) :
    ∃ xs, v = .list xs ∧ sizeOk sz xs.length = true ∧ xs.all (jsV R S s) = true := by
  rw [jsV_dict _ _ _ _ (getKw_ref_arrKws sz none (some s))] at h
  revert h
  suffices hh : ∀ ctx, jsKws R S ctx (arrKws sz none (some s)) v = true →
      ∃ xs, v = .list xs ∧ sizeOk sz xs.length = true ∧ xs.all (jsV R S s) = true from hh _
  intro ctx h
  simp only [arrKws, jsKws_append, and_true_iff'] at h
  obtain ⟨⟨⟨⟨⟨hty, _⟩, _⟩, hmax⟩, hmin⟩, hitems⟩ := h
  have hty' : typeIs "array" v = true := by
    simpa [jsKws, kw, kwOf, kwOfStr, kwNode, kwLeaf, typeOk] using hty
  cases v with
  | list xs =>
    refine ⟨xs, rfl, c08_sizeKws_inv R S ctx sz xs hmax hmin, ?_⟩
    cases s <;> simp [dictOrNone] at hs <;>
      simpa [optKw, jsKws, kw, kwOf, kwOfStr, kwNode] using hitems
  | _ => simp [typeIs] at hty'

/-! ### inverting the map keywords -/

/-- `Map[String, X]` (unconstrained key, no size bounds): what the schema admits is an object all of
    whose member values the value schema admits -/
theorem c08_jsV_mapOf_inv (R S) (k : FieldDecl) (s : PyVal) (hs : dictOrNone s = true)
    (hk : mapKeyPattern k = "") (v : PyVal)
    (h : jsV R S (.dict (mapKws (some k) (some s) {})) v = true) :
    ∃ kvs, v = .dict kvs ∧ kvs.all (fun kv => jsV R S s kv.2) = true := by
  have href : getKw "$ref" (mapKws (some k) (some s) {}) = none := by
    simp [mapKws, hk, getKw_append, getKw_optKw, getKw, kw, keyIs]
  rw [jsV_dict _ _ _ _ href] at h
  have hctx1 : memberNames "properties" (mapKws (some k) (some s) {}) = [] := by
    simp [memberNames, mapKws, hk, getKw_append, getKw_optKw, getKw, kw, keyIs]
  have hctx2 : memberNames "patternProperties" (mapKws (some k) (some s) {}) = [] := by
    simp [memberNames, mapKws, hk, getKw_append, getKw_optKw, getKw, kw, keyIs]
  revert h
  suffices hh : ∀ ctx, memberNames "properties" ctx = [] → memberNames "patternProperties" ctx = [] →
      jsKws R S ctx (mapKws (some k) (some s) {}) v = true →
      ∃ kvs, v = .dict kvs ∧ kvs.all (fun kv => jsV R S s kv.2) = true from hh _ hctx1 hctx2
  intro ctx hctx1 hctx2 h
  simp only [mapKws, hk, jsKws_append, and_true_iff'] at h
  obtain ⟨⟨⟨hty, haddl⟩, _⟩, _⟩ := h
  have hty' : typeIs "object" v = true := by
    simpa [jsKws, kw, kwOf, kwOfStr, kwNode, kwLeaf, typeOk] using hty
  cases v with
  | dict kvs =>
    refine ⟨kvs, rfl, ?_⟩
    have hx : extraMembers S ctx kvs = kvs := by
      unfold extraMembers
      rw [hctx1, hctx2]
      apply List.filter_eq_self.mpr
      intro kv _
      cases docKey kv.1 <;> simp
    have : (extraMembers S ctx kvs).all (fun kv => jsV R S s kv.2) = true := by
      cases s <;> simp [dictOrNone] at hs <;>
        simpa [jsKws, kw, kwOf, kwOfStr, kwNode] using haddl
    rw [hx] at this
    exact this
  | _ => simp [typeIs] at hty'

/-! ### elements -/

theorem c08_exact_items (O : Oracles) (opts : DeserOpts) (f : FieldDecl) (P : PyVal → Prop)
    (hacc : ∀ x, P x → Accepted O opts false f x) :
    ∀ xs : List PyVal, (∀ x ∈ xs, P x) →
      ∃ ys ys', mapE (deser O opts false f) xs = .ok ys ∧ mapE (validate O f) ys = .ok ys'
        ∧ ys.length = xs.length
  | [], _ => ⟨[], [], rfl, rfl, rfl⟩
  | x :: xs, h => by
    obtain ⟨y, y', hd, hv⟩ := hacc x (h x (by simp))
    obtain ⟨ys, ys', hds, hvs, hl⟩ := c08_exact_items O opts f P hacc xs (fun z hz => h z (by simp [hz]))
    exact ⟨y :: ys, y' :: ys', by simp [mapE, hd, hds], by simp [mapE, hv, hvs], by simp [hl]⟩


end Typedpy.Sch
