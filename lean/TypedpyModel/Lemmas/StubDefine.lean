/-
  Lemmas/StubDefine.lean — the stub generator over Define's class objects (Sem/StubDefine.lean): one-step facts that
  hold for EVERY world and EVERY class source (any hierarchy shape).  Lemma names carry the prefix `c16_`.
-/
import TypedpyModel.Sem.StubDefine
import TypedpyModel.Lemmas.Stub
import TypedpyModel.Lemmas.DefineWorld
namespace Typedpy.StubD
open Typedpy.Stub (Param orderedArgs mandatoryFirst mem_orderedArgs param_eq)

theorem c16_br_sub_bp (w : World) (src : ClassSrc) (n : String) (h : n ∈ basesRequired w src) :
    n ∈ (basesParams w src).map (·.1) := by
  unfold basesRequired at h
  obtain ⟨p, hp, rfl⟩ := List.mem_map.mp h
  exact List.mem_map_of_mem (List.mem_filter.mp hp).1

theorem c16_irc_sub_const (w : World) (src : ClassSrc) (n : String) (h : n ∈ inheritedRequiredConsts w src) :
    n ∈ constNamesD w src := by
  unfold inheritedRequiredConsts at h
  exact (List.mem_filter.mp h).1

/-- membership in the required part of Define's `make_signature` -/
theorem c16_mem_sig_req (w : World) (src : ClassSrc) (n : String) :
    n ∈ (sigOf w src).req ↔
      (n ∉ constNamesD w src ∧ covered w src n = true ∧ n ∈ requiredOf w src) := by
  have hb := c16_br_sub_bp w src n
  have hi := c16_irc_sub_const w src n
  unfold sigOf requiredOf covered
  unfold constNamesD at hi ⊢
  simp only [mem_dedupStr, List.mem_append, List.mem_filter, List.mem_map, Bool.and_eq_true, Bool.or_eq_true,
    Bool.not_eq_true', List.contains_eq_mem, decide_eq_true_eq, decide_eq_false_iff_not] at hb hi ⊢
  generalize (∃ a, a ∈ basesParams w src ∧ a.1 = n) = B at hb ⊢
  generalize (∃ a, a ∈ ownMembers src.entries ∧ a.1 = n) = A
  generalize (n ∈ requiredEff w src) = R
  generalize (n ∈ basesRequired w src) = Q at hb ⊢
  generalize (n ∈ inheritedRequiredConsts w src) = I at hi ⊢
  generalize (∃ a, a ∈ constantsOf (resolvedFields w src) ∧ a.1 = n) = C at hi ⊢
  by_cases hA : A <;> by_cases hB : B <;> by_cases hR : R <;> by_cases hQ : Q <;> by_cases hC : C <;>
    by_cases hI : I <;> simp_all

/-- membership in the `= None` part of Define's `make_signature`, for a class whose definition passes `sigCheck`
    (no name in both parts) it is the complement of `req` among the covered non-constant names -/
theorem c16_mem_sig_opt (w : World) (src : ClassSrc) (n : String) :
    n ∈ (sigOf w src).opt ↔
      (n ∉ constNamesD w src ∧ n ∉ requiredEff w src ∧
        ((n ∈ (basesParams w src).map (·.1) ∧ n ∉ basesRequired w src) ∨ n ∈ (ownMembers src.entries).map (·.1))) := by
  unfold sigOf constNamesD
  simp only [mem_dedupStr, List.mem_append, List.mem_filter, List.mem_map, Bool.and_eq_true,
    Bool.not_eq_true', List.contains_eq_mem, decide_eq_false_iff_not]
  generalize (∃ a, a ∈ basesParams w src ∧ a.1 = n) = B
  generalize (∃ a, a ∈ ownMembers src.entries ∧ a.1 = n) = A
  generalize (n ∈ requiredEff w src) = R
  generalize (n ∈ basesRequired w src) = Q
  generalize (∃ a, a ∈ constantsOf (resolvedFields w src) ∧ a.1 = n) = C
  by_cases hA : A <;> by_cases hB : B <;> by_cases hR : R <;> by_cases hQ : Q <;> by_cases hC : C <;> simp_all

/-- a stub parameter and its default flag, read off the class object -/
theorem c16_mem_stubArgsD (c : ClassDef) (p : Param) :
    p ∈ stubArgsD c ↔
      (p.name ∈ c.allFields.map (·.1) ∧ (lookup p.name c.constants).isNone = true ∧
        p.hasDefault = !c.required.contains p.name) := by
  unfold stubArgsD typeInfoD
  rw [mem_orderedArgs]
  simp only [List.mem_map, List.mem_filter]
  constructor
  · rintro ⟨q, ⟨hq, hc⟩, rfl⟩
    exact ⟨⟨q, hq, rfl⟩, hc, rfl⟩
  · rintro ⟨⟨q, hq, hn⟩, hc, hd⟩
    refine ⟨q, ⟨hq, by rw [hn]; exact hc⟩, ?_⟩
    exact param_eq hn (by rw [hd, hn])

theorem c16_const_isNone (w : World) (src : ClassSrc) (n : String) :
    (lookup n (build w src).constants).isNone = true ↔ n ∉ constNamesD w src := by
  have h := lookup_isSome_iff n (constantsOf (resolvedFields w src))
  unfold constNamesD
  show (lookup n (constantsOf (resolvedFields w src))).isNone = true ↔ _
  rw [← h]
  cases lookup n (constantsOf (resolvedFields w src)) <;> simp

/-- the keyword names of the stub are the non-constant names of `_field_by_name` -/
theorem c16_stubD_names (w : World) (src : ClassSrc) (n : String) :
    n ∈ (stubArgsD (build w src)).map (·.name) ↔
      (n ∈ (allFieldsOf w src).map (·.1) ∧ n ∉ constNamesD w src) := by
  constructor
  · intro h
    obtain ⟨p, hp, rfl⟩ := List.mem_map.mp h
    have := (c16_mem_stubArgsD _ p).mp hp
    exact ⟨this.1, (c16_const_isNone w src p.name).mp this.2.1⟩
  · rintro ⟨h1, h2⟩
    exact List.mem_map.mpr ⟨⟨n, !(build w src).required.contains n⟩,
      (c16_mem_stubArgsD _ _).mpr ⟨h1, (c16_const_isNone w src n).mpr h2, rfl⟩, rfl⟩

/-- the names `make_signature` accepts are the covered non-constant names -/
theorem c16_sigD_names (w : World) (src : ClassSrc) (n : String) :
    n ∈ (sigParamsD (sigOf w src)).map (·.name) ↔ (covered w src n = true ∧ n ∉ constNamesD w src) := by
  have hreq := c16_mem_sig_req w src n
  have hopt := c16_mem_sig_opt w src n
  have hb := c16_br_sub_bp w src n
  have hmem : n ∈ (sigParamsD (sigOf w src)).map (·.name) ↔ (n ∈ (sigOf w src).req ∨ n ∈ (sigOf w src).opt) := by
    simp [sigParamsD, List.map_append, List.map_map, Function.comp_def]
  have hi := c16_irc_sub_const w src n
  rw [hmem, hreq, hopt]
  unfold covered requiredOf
  simp only [mem_dedupStr, List.mem_append, Bool.or_eq_true, List.contains_eq_mem, decide_eq_true_eq]
  generalize (n ∈ (basesParams w src).map (·.1)) = B at hb ⊢
  generalize (n ∈ (ownMembers src.entries).map (·.1)) = A
  generalize (n ∈ requiredEff w src) = R
  generalize (n ∈ basesRequired w src) = Q at hb ⊢
  generalize (n ∈ inheritedRequiredConsts w src) = I at hi ⊢
  generalize (n ∈ constNamesD w src) = C at hi ⊢
  by_cases hA : A <;> by_cases hB : B <;> by_cases hR : R <;> by_cases hQ : Q <;> by_cases hC : C <;>
    by_cases hI : I <;> simp_all

theorem c16_const_sub_keys (w : World) (src : ClassSrc) (n : String) (h : n ∈ constNamesD w src) :
    n ∈ (allFieldsOf w src).map (·.1) := by
  unfold constNamesD constantsOf at h
  simp only [List.mem_map, List.mem_filterMap] at h
  obtain ⟨⟨k, v⟩, ⟨⟨k', m⟩, hm, hsome⟩, rfl⟩ := h
  unfold resolvedFields at hm
  cases m with
  | field d df => simp at hsome
  | const v' =>
    simp only [Option.some.injEq, Prod.mk.injEq] at hsome
    rw [← hsome.1]
    exact List.mem_map_of_mem (f := (·.1)) hm

/-- exact characterisation: stub keywords = signature names  ⇔  `namesCovered` -/
theorem c16_names_agree_iff (w : World) (src : ClassSrc) :
    (∀ n, n ∈ (stubArgsD (build w src)).map (·.name) ↔ n ∈ (sigParamsD (sigOf w src)).map (·.name)) ↔
      namesCovered w src = true := by
  have hcovdef : ∀ n, covered w src n = true ↔
      (n ∈ (ownMembers src.entries).map (·.1) ∨ n ∈ (basesParams w src).map (·.1)) := by
    intro n
    unfold covered
    simp
  unfold namesCovered
  simp only [Bool.and_eq_true, List.all_eq_true, Bool.or_eq_true, List.contains_eq_mem, decide_eq_true_eq,
    List.mem_append]
  constructor
  · intro h
    constructor
    · intro n hk
      by_cases hnc : n ∈ constNamesD w src
      · exact Or.inl hnc
      · have := (h n).mp ((c16_stubD_names w src n).mpr ⟨hk, hnc⟩)
        exact Or.inr ((c16_sigD_names w src n).mp this).1
    · intro n hn
      have hcov : covered w src n = true := (hcovdef n).mpr hn
      by_cases hnc : n ∈ constNamesD w src
      · exact c16_const_sub_keys w src n hnc
      · have := (h n).mpr ((c16_sigD_names w src n).mpr ⟨hcov, hnc⟩)
        exact ((c16_stubD_names w src n).mp this).1
  · rintro ⟨h1, h2⟩ n
    rw [c16_stubD_names, c16_sigD_names]
    constructor
    · rintro ⟨hk, hnc⟩
      exact ⟨(h1 n hk).resolve_left hnc, hnc⟩
    · rintro ⟨hcov, hnc⟩
      exact ⟨h2 n ((hcovdef n).mp hcov), hnc⟩

/-- default ⇔ not required, on the names both sides know -/
theorem c16_stubD_required (w : World) (src : ClassSrc) (n : String) (hcov : covered w src n = true)
    (hk : n ∈ (allFieldsOf w src).map (·.1)) :
    (⟨n, false⟩ : Param) ∈ stubArgsD (build w src) ↔ n ∈ (sigOf w src).req := by
  rw [c16_mem_stubArgsD, c16_mem_sig_req, c16_const_isNone]
  show (n ∈ (allFieldsOf w src).map (·.1) ∧ n ∉ constNamesD w src ∧ false = !(requiredOf w src).contains n) ↔ _
  constructor
  · rintro ⟨_, hnc, hr⟩
    refine ⟨hnc, hcov, ?_⟩
    have : (requiredOf w src).contains n = true := by
      cases hc : (requiredOf w src).contains n <;> simp_all
    simpa using this
  · rintro ⟨hnc, _, hr⟩
    refine ⟨hk, hnc, ?_⟩
    have : (requiredOf w src).contains n = true := by simpa using hr
    rw [this]
    rfl

/-- the `**` clause over Define's worlds: stub, `__signature__` and constructor are one and the same -/
theorem c16_stubD_kw_iff (dflt : Bool) (w : World) (src : ClassSrc) :
    stubKwD dflt w src = admitsD dflt w src := by
  unfold stubKwD admitsD sigKwD
  cases (addlAttr w src).getD dflt <;> rfl

theorem c16_stubD_sigkw (dflt : Bool) (w : World) (src : ClassSrc) :
    stubKwD dflt w src = sigKwD dflt w src := rfl

end Typedpy.StubD
