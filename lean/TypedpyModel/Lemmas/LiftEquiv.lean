import TypedpyModel.Lemmas.LiftStruct
import TypedpyModel.Lemmas.LiftIdSeq
import TypedpyModel.Lemmas.LiftSetMap
namespace Typedpy
open PyVal (pyEq pyMem pyNodup)

theorem deserZip_length (O : Oracles) (opts : DeserOpts) : ∀ (fs : List FieldDecl) (xs ys : List PyVal),
    deserZip O opts fs xs = .ok ys → ys.length = xs.length
  | [], xs, ys, h => by simp [deserZip] at h; subst h; rfl
  | _ :: _, [], ys, h => by simp [deserZip] at h
  | f :: fs, x :: xs, ys, h => by
    simp only [deserZip] at h
    rcases bindE_eq_ok h with ⟨y, _, h2⟩
    rcases bindE_eq_ok h2 with ⟨ys', hys, h3⟩
    cases h3
    simp [deserZip_length O opts fs xs ys' hys]

theorem liftZip_length (O : Oracles) (opts : DeserOpts) : ∀ (fs : List FieldDecl) (xs ws : List PyVal),
    liftZip O opts fs xs = some ws → ws.length = xs.length
  | [], xs, ws, h => by simp [liftZip] at h; subst h; rfl
  | _ :: _, [], ws, h => by simp [liftZip] at h
  | f :: fs, x :: xs, ws, h => by
    simp only [liftZip] at h
    cases hw : lift O opts f x with
    | none => simp [hw] at h
    | some w =>
      cases hr : liftZip O opts fs xs with
      | none => simp [hw, hr] at h
      | some ws' =>
        simp [hw, hr] at h; subst h
        simp [liftZip_length O opts fs xs ws' hr]

/-- unfolded form of `OkEq (deserThen …) (liftThen …)` -/
theorem okEq_unfold (O : Oracles) (opts : DeserOpts) (f : FieldDecl) (x : PyVal)
    (h : OkEq (deserThen O opts f x) (liftThen O opts f x)) (z : PyVal) :
    (∃ y, deser O opts false f x = .ok y ∧ validate O f y = .ok z)
      ↔ (∃ w, lift O opts f x = some w ∧ validate O f w = .ok z) := by
  constructor
  · rintro ⟨y, hy, hz⟩
    have hd : deserThen O opts f x = .ok z := by simp [deserThen, hy, hz]
    have hl := (h z).mp hd
    unfold liftThen at hl
    cases hw : lift O opts f x with
    | none => rw [hw] at hl; cases hl
    | some w => rw [hw] at hl; exact ⟨w, rfl, hl⟩
  · rintro ⟨w, hw, hz⟩
    have hl : liftThen O opts f x = .ok z := by simp [liftThen, hw, hz]
    have hd := (h z).mpr hl
    unfold deserThen at hd
    rcases bindE_eq_ok hd with ⟨y, hy, hvy⟩
    exact ⟨y, hy, hvy⟩

theorem strictJsonPairs_mem : ∀ (kvs : List (PyVal × PyVal)), strictJsonPairs kvs = true →
    ∀ kv ∈ kvs, strictJson kv.2 = true
  | [], _, kv, hkv => by simp at hkv
  | (k, v) :: rest, h, kv, hkv => by
    simp only [strictJsonPairs, Bool.and_eq_true] at h
    rcases List.mem_cons.mp hkv with rfl | hkv'
    · exact h.1.2
    · exact strictJsonPairs_mem rest h.2 kv hkv'

theorem lookup_mem' {α} (n : String) (v : α) : ∀ (l : List (String × α)), lookup n l = some v → (n, v) ∈ l
  | [], h => by simp [lookup] at h
  | (k, u) :: rest, h => by
    simp only [lookup] at h
    by_cases hk : (n == k) = true
    · simp only [hk, if_true, Option.some.injEq] at h
      have : n = k := by simpa using hk
      subst this; subst h; simp
    · simp only [hk, Bool.false_eq_true, if_false] at h
      exact List.mem_cons_of_mem _ (lookup_mem' n v rest h)

/-- what `validateFields` does around its recursive call for a field that gets no argument: the
    default (if any) is validated and stored -/
def wrapDefault (O : Oracles) (defaults : List (String × PyVal)) (n : String) (f : FieldDecl)
    (r : R (List (String × PyVal))) : R (List (String × PyVal)) :=
  match (match lookup n defaults with | some d => if d.isNone then none else some d | none => none) with
  | none => r
  | some dv => bindE (validate O f dv) fun y => bindE r fun ys => .ok ((n, y) :: ys)

theorem vF_absent (O : Oracles) (c : ClassOpts) (defaults kw : List (String × PyVal)) (n : String)
    (f : FieldDecl) (rest : List (String × FieldDecl)) (h : lookup n kw = none) :
    validateFields O c defaults kw ((n, f) :: rest)
      = wrapDefault O defaults n f (validateFields O c defaults kw rest) := by
  simp only [validateFields, argFor, h, wrapDefault]
  cases lookup n defaults with
  | none => rfl
  | some d => by_cases hd : d.isNone = true <;> simp [hd]

theorem vF_present (O : Oracles) (c : ClassOpts) (defaults P ys : List (String × PyVal)) (n : String)
    (f : FieldDecl) (rest : List (String × FieldDecl)) (y : PyVal)
    (hnP : n ∉ P.map (·.1)) (hy : y.isNone = false) :
    validateFields O c defaults (P ++ (n, y) :: ys) ((n, f) :: rest)
      = bindE (validate O f y) fun z =>
          bindE (validateFields O c defaults ((P ++ [(n, y)]) ++ ys) rest) fun zs => .ok ((n, z) :: zs) := by
  have hl : lookup n (P ++ (n, y) :: ys) = some y := by
    rw [lookup_append, rt_lookup_none_of_not_mem n P hnP]
    simp [lookup]
  simp only [validateFields, argFor, hl, hy, Bool.false_and, Bool.false_eq_true, if_false]
  simp

/-- a successful `wrapDefault` comes from a successful inner computation -/
theorem wrapDefault_ok_iff (O : Oracles) (defaults : List (String × PyVal)) (n : String) (f : FieldDecl)
    (r : R (List (String × PyVal))) (attrs : List (String × PyVal)) :
    wrapDefault O defaults n f r = .ok attrs
      ↔ ∃ a, r = .ok a ∧ wrapDefault O defaults n f (.ok a) = .ok attrs := by
  unfold wrapDefault
  split
  · constructor
    · intro h; exact ⟨attrs, h, rfl⟩
    · rintro ⟨a, h1, h2⟩; rw [h1]; exact h2
  · rename_i dv _
    cases hv : validate O f dv with
    | error e => simp [bindE]
    | ok y =>
      cases hr : r with
      | error e => simp [bindE]
      | ok a => simp [bindE]

mutual
/-- **field level**: for every declaration of the exact fragment and every JSON document,
    deserializing and then validating succeeds exactly when validating the documented lifting of
    the document does, with the same stored value -/
theorem okEq_field (O : Oracles) (opts : DeserOpts) : ∀ (f : FieldDecl) (d : PyVal),
    exactDecl f = true → strictJson d = true → OkEq (deserThen O opts f d) (liftThen O opts f d)
  | .number o, d, _, _ => okEq_number O opts o d
  | .integer o, d, _, _ => okEq_integer O opts o d
  | .float o, d, _, _ => okEq_float O opts o d
  | .string lo hi pat, d, _, _ => okEq_string O opts lo hi pat d
  | .boolean, d, _, _ => okEq_boolean O opts d
  | .enumLit vals, d, _, _ => okEq_enumLit O opts vals d
  | .enumCls cls names, d, _, _ => okEq_enumCls O opts cls names d
  | .seqOf k f sz, d, hex, hj => by
    simp only [exactDecl, and_true_iff] at hex
    cases d with
    | list xs =>
      have hj' : strictJsonList xs = true := by simpa [strictJson] using hj
      have hpt : ∀ x ∈ xs, OkEq (deserThen O opts f x) (liftThen O opts f x) := fun x hx =>
        okEq_field O opts f x hex.2 (strictJsonList_mem xs hj' x hx)
      by_cases hu : sz.uniq = false
      · have := seq_assemble k sz (fun _ => true) (mapE (deser O opts false f)) (mapE (validate O f))
          (mapO (lift O opts f)) hu (mapE_length _) (mapO_length _) xs (lf_list_equiv O opts f xs hpt)
        simp only [deserThen, liftThen, deser, lift, validate, listDoc, PyVal.isNone, Bool.false_and,
          Bool.false_eq_true, if_false, Option.bind_some]
        exact this
      · have hid : idScalar f = true := by
          have := hex.1
          simp only [Bool.or_eq_true, Bool.not_eq_true'] at this
          rcases this with h | h
          · exact absurd h hu
          · exact h
        exact seq_id_okEq O opts k sz f hid xs hpt
    | _ =>
      first
      | (simp [strictJson] at hj; done)
      | (apply OkEq.errors <;> intro z hz <;>
          simp [deserThen, liftThen, deser, lift, dSeq, docSeq, listDoc, bindE, PyVal.isNone] at hz)
  | .seqPos k fs addl sz, d, hex, hj => by
    simp only [exactDecl, and_true_iff] at hex
    have hu : sz.uniq = false := by simpa using hex.1
    cases d with
    | list xs =>
      have hj' : strictJsonList xs = true := by simpa [strictJson] using hj
      have := seq_assemble k sz (fun n => decide (fs.length ≤ n) && (addl || decide (n ≤ fs.length)))
        (deserZip O opts fs) (validateZip O fs) (liftZip O opts fs) hu
        (deserZip_length O opts fs) (liftZip_length O opts fs) xs (zip_equiv O opts fs xs hex.2 hj')
      simp only [deserThen, liftThen, deser, lift, validate, listDoc, PyVal.isNone, Bool.false_and,
        Bool.false_eq_true, if_false, Option.bind_some]
      exact this
    | _ =>
      first
      | (simp [strictJson] at hj; done)
      | (apply OkEq.errors <;> intro z hz <;>
          simp [deserThen, liftThen, deser, lift, dSeq, docSeq, listDoc, bindE, PyVal.isNone] at hz)
  | .tupleOf f u, d, hex, hj => by
    simp only [exactDecl, and_true_iff] at hex
    cases d with
    | list xs =>
      have hj' : strictJsonList xs = true := by simpa [strictJson] using hj
      have hpt : ∀ x ∈ xs, OkEq (deserThen O opts f x) (liftThen O opts f x) := fun x hx =>
        okEq_field O opts f x hex.2 (strictJsonList_mem xs hj' x hx)
      by_cases hu : u = false
      · have := tuple_assemble u (fun _ => true) (mapE (deser O opts false f)) (mapE (validate O f))
          (mapO (lift O opts f)) hu (mapE_length _) (mapO_length _) xs (lf_list_equiv O opts f xs hpt)
        simp only [deserThen, liftThen, deser, lift, validate, listDoc, PyVal.isNone, Bool.false_and,
          Bool.false_eq_true, if_false, Option.bind_some]
        exact this
      · have hid : idScalar f = true := by
          have := hex.1
          simp only [Bool.or_eq_true, Bool.not_eq_true'] at this
          rcases this with h | h
          · exact absurd h hu
          · exact h
        exact tuple_id_okEq O opts u f hid xs hpt
    | _ =>
      first
      | (simp [strictJson] at hj; done)
      | (apply OkEq.errors <;> intro z hz <;>
          simp [deserThen, liftThen, deser, lift, dSeq, docSeq, listDoc, bindE, PyVal.isNone] at hz)
  | .tuplePos fs u, d, hex, hj => by
    simp only [exactDecl, and_true_iff] at hex
    have hu : u = false := by simpa using hex.1
    cases d with
    | list xs =>
      have hj' : strictJsonList xs = true := by simpa [strictJson] using hj
      have := tuple_assemble u (fun n => fs.length == n)
        (deserZip O opts fs) (validateZip O fs) (liftZip O opts fs) hu
        (deserZip_length O opts fs) (liftZip_length O opts fs) xs (zip_equiv O opts fs xs hex.2 hj')
      simp only [deserThen, liftThen, deser, lift, validate, listDoc, PyVal.isNone, Bool.false_and,
        Bool.false_eq_true, if_false, Option.bind_some]
      exact this
    | _ =>
      first
      | (simp [strictJson] at hj; done)
      | (apply OkEq.errors <;> intro z hz <;>
          simp [deserThen, liftThen, deser, lift, dSeq, docSeq, listDoc, bindE, PyVal.isNone] at hz)
  | .struct c fields defaults, d, hex, hj => by
    simp only [exactDecl, and_true_iff] at hex
    obtain ⟨⟨hia, hnd⟩, hef⟩ := hex
    have hnd' : (fields.map (·.1)).Nodup := by simpa using hnd
    by_cases hinlT : c.inline = true
    · -- StructureReference
      cases d with
      | dict kvs =>
        have hj' : strictJsonPairs kvs = true := by
          have := hj; simp only [strictJson, Bool.and_eq_true] at this; exact this.2
        rcases strict_kwOfDict kvs hj' with ⟨doc, hdoc, hall⟩
        have hE : ∀ a ∈ deserExtras opts c (fields.map (·.1)) doc, a.1 ∉ fields.map (·.1) := by
          intro a ha
          have := (List.mem_filter.mp ha).2
          simp only [Bool.and_eq_true, Bool.not_eq_true'] at this
          intro hm
          have hc : (fields.map (·.1)).contains a.1 = true := by simpa using hm
          rw [hc] at this; exact absurd this.1.1 (by simp)
        have H := fields_equiv O opts c defaults doc hall fields hef hnd'
          (deserExtras opts c (fields.map (·.1)) doc) (deserExtras opts c (fields.map (·.1)) doc) hE hE
        exact inline_okEq O opts c fields defaults kvs doc hdoc hinlT (struct_core O opts c fields defaults doc H)
      | _ =>
        first
        | (simp [strictJson] at hj; done)
        | (apply OkEq.errors <;> intro z hz <;>
            simp [deserThen, liftThen, deser, lift, dInline, bindE, PyVal.isNone, hinlT] at hz)
    have hinl' : c.inline = false := by simpa using hinlT
    have hacc : c.accepts.contains c.name = true := by simpa [hinl'] using hia
    have hacc' : c.name ∈ c.accepts := by simpa using hacc
    cases d with
    | dict kvs =>
      have hj' : strictJsonPairs kvs = true := by
        have := hj; simp only [strictJson, Bool.and_eq_true] at this; exact this.2
      rcases strict_kwOfDict kvs hj' with ⟨doc, hdoc, hall⟩
      have H := fields_equiv O opts c defaults doc hall fields hef hnd'
        (deserExtras opts c (fields.map (·.1)) doc) (deserExtras opts c (fields.map (·.1)) doc)
        (fun a ha => by
          have := (List.mem_filter.mp ha).2
          simp only [Bool.and_eq_true, Bool.not_eq_true'] at this
          intro hm
          have hc : (fields.map (·.1)).contains a.1 = true := by simpa using hm
          rw [hc] at this; exact absurd this.1.1 (by simp))
        (fun a ha => by
          have := (List.mem_filter.mp ha).2
          simp only [Bool.and_eq_true, Bool.not_eq_true'] at this
          intro hm
          have hc : (fields.map (·.1)).contains a.1 = true := by simpa using hm
          rw [hc] at this; exact absurd this.1.1 (by simp))
      have core := struct_core O opts c fields defaults doc H
      -- both sides finish with `isinstance(x, cls)` on an instance of exactly this class
      intro r
      have hvc : ∀ (x : PyVal) (kw : List (String × PyVal)) (g : R (List (String × PyVal))),
          vConstruct c (fields.map (·.1)) kw g = .ok x → vClassRef c x = .ok x := by
        intro x kw g hx
        rcases vConstruct_ok_inst _ _ _ _ x hx with ⟨attrs, rfl⟩
        simp [vClassRef, hacc']
      constructor
      · intro h
        unfold deserThen at h
        rcases bindE_eq_ok h with ⟨x, hx, hv⟩
        simp only [deser, PyVal.isNone, Bool.false_and, Bool.false_eq_true, if_false, hinl', dClassRef, hdoc] at hx
        have hx' := (core x).mp hx
        simp only [validate, hinl', Bool.false_eq_true, if_false] at hv
        cases hl : liftFields O opts c doc fields with
        | none => simp [hl] at hx'
        | some args =>
          simp only [hl] at hx'
          have hcr := hvc x _ _ hx'
          rw [hcr] at hv; cases hv
          simp [liftThen, lift, hdoc, hl, hx', hinl', validate, hcr]
      · intro h
        unfold liftThen at h
        simp only [lift, hdoc, Option.bind_some] at h
        cases hl : liftFields O opts c doc fields with
        | none => simp [hl] at h
        | some args =>
          simp only [hl, Option.bind_some] at h
          cases hvc' : vConstruct c (fields.map (·.1)) (deserExtras opts c (fields.map (·.1)) doc ++ args)
              (validateFields O c defaults (deserExtras opts c (fields.map (·.1)) doc ++ args) fields) with
          | error e => simp [hvc'] at h
          | ok x =>
            simp only [hvc', hinl', Bool.false_eq_true, if_false] at h
            have hcr := hvc x _ _ hvc'
            simp only [validate, hinl', Bool.false_eq_true, if_false, hcr] at h
            cases h
            have hx : _ = Except.ok r := (core r).mpr (by simp only [hl]; exact hvc')
            simp [deserThen, deser, PyVal.isNone, hinl', dClassRef, hdoc, hx, validate, hcr]
    | _ =>
      first
      | (simp [strictJson] at hj; done)
      | (apply OkEq.errors <;> intro z hz <;>
          simp [deserThen, liftThen, deser, lift, dClassRef, bindE, PyVal.isNone, hinl'] at hz)
  | .seqAny _ _, _, hex, _ => by simp [exactDecl] at hex
  | .setAny _ _, _, hex, _ => by simp [exactDecl] at hex
  | .setOf imm f sz, d, hex, hj => by
    simp only [exactDecl] at hex
    cases d with
    | list xs => exact set_str_okEq O opts imm sz f hex xs
    | _ =>
      first
      | (simp [strictJson] at hj; done)
      | (apply OkEq.errors <;> intro z hz <;>
          simp [deserThen, liftThen, deser, lift, dSeq, docSeq, listDoc, bindE, PyVal.isNone] at hz)
  | .mapAny _, _, hex, _ => by simp [exactDecl] at hex
  | .mapOf kf vf sz, d, hex, hj => by
    simp only [exactDecl, Bool.and_eq_true] at hex
    cases d with
    | dict kvs =>
      have hj2 := hj
      simp only [strictJson, Bool.and_eq_true] at hj2
      exact map_str_okEq O opts kf vf sz hex.1 kvs hj2.1 (fun kv hkv =>
        okEq_field O opts vf kv.2 hex.2 (strictJsonPairs_mem kvs hj2.2 kv hkv))
    | _ =>
      first
      | (simp [strictJson] at hj; done)
      | (apply OkEq.errors <;> intro z hz <;>
          simp [deserThen, liftThen, deser, lift, dMap, bindE, PyVal.isNone] at hz)
  | .anyOf fs, d, hex, hj => by
    simp only [exactDecl] at hex
    match fs, hex with
    | [a, b], hex =>
      simp only [exactOpt, Bool.or_eq_true, Bool.and_eq_true] at hex
      rcases hex with h | h
      · have := isNoneDecl_eq a h.1.1; subst this
        by_cases hn : d.isNone = true
        · have : d = .none := by cases d <;> simp [PyVal.isNone] at hn <;> rfl
          subst this
          exact opt_okEq_none O opts _ b (Or.inl rfl) h.1.2 h.2
        · exact opt_okEq_nonNone O opts _ b d (Or.inl rfl) h.1.2 h.2 (by simpa using hn)
            (okEq_field O opts b d h.2 hj)
      · have := isNoneDecl_eq b h.1.1; subst this
        by_cases hn : d.isNone = true
        · have : d = .none := by cases d <;> simp [PyVal.isNone] at hn <;> rfl
          subst this
          exact opt_okEq_none O opts _ a (Or.inr rfl) h.1.2 h.2
        · exact opt_okEq_nonNone O opts _ a d (Or.inr rfl) h.1.2 h.2 (by simpa using hn)
            (okEq_field O opts a d h.2 hj)
  | .oneOf _, _, hex, _ => by simp [exactDecl] at hex
  | .allOf _, _, hex, _ => by simp [exactDecl] at hex
  | .notF _, _, hex, _ => by simp [exactDecl] at hex
  | .noneF, d, _, _ => by
    by_cases hn : d.isNone = true
    · apply OkEq.of_eq
      simp [deserThen, liftThen, deser, lift, validate, hn, vNone]
    · have hn' : d.isNone = false := by simpa using hn
      apply OkEq.errors <;> intro z hz <;>
        simp [deserThen, liftThen, deser, lift, validate, hn', vNone] at hz
  | .anything, _, hex, _ => by simp [exactDecl] at hex

theorem zip_equiv (O : Oracles) (opts : DeserOpts) : ∀ (fs : List FieldDecl) (xs : List PyVal),
    exactAll fs = true → strictJsonList xs = true →
    ∀ zs, (∃ ys, deserZip O opts fs xs = .ok ys ∧ validateZip O fs ys = .ok zs)
        ↔ (∃ ws, liftZip O opts fs xs = some ws ∧ validateZip O fs ws = .ok zs)
  | [], xs, _, _, zs => by simp [deserZip, liftZip]
  | _ :: _, [], _, _, zs => by simp [deserZip, liftZip]
  | f :: fs, x :: xs, hex, hj, zs => by
    simp only [exactAll, strictJsonList, and_true_iff] at hex hj
    have hx := okEq_unfold O opts f x (okEq_field O opts f x hex.1 hj.1)
    have ih := zip_equiv O opts fs xs hex.2 hj.2
    constructor
    · rintro ⟨ys, h1, h2⟩
      simp only [deserZip] at h1
      rcases bindE_eq_ok h1 with ⟨y, hy, h1'⟩
      rcases bindE_eq_ok h1' with ⟨ys', hys, h1''⟩
      cases h1''
      simp only [validateZip] at h2
      rcases bindE_eq_ok h2 with ⟨z, hz, h2'⟩
      rcases bindE_eq_ok h2' with ⟨zs', hzs, h2''⟩
      cases h2''
      rcases (hx z).mp ⟨y, hy, hz⟩ with ⟨w, hw, hwz⟩
      rcases (ih zs').mp ⟨ys', hys, hzs⟩ with ⟨ws, g1, g2⟩
      exact ⟨w :: ws, by simp [liftZip, hw, g1], by simp [validateZip, hwz, g2]⟩
    · rintro ⟨ws, h1, h2⟩
      simp only [liftZip] at h1
      cases hw : lift O opts f x with
      | none => simp [hw] at h1
      | some w =>
        cases hr : liftZip O opts fs xs with
        | none => simp [hw, hr] at h1
        | some ws' =>
          simp [hw, hr] at h1; subst h1
          simp only [validateZip] at h2
          rcases bindE_eq_ok h2 with ⟨z, hz, h2'⟩
          rcases bindE_eq_ok h2' with ⟨zs', hzs, h2''⟩
          cases h2''
          rcases (hx z).mpr ⟨w, hw, hz⟩ with ⟨y, hy, hyz⟩
          rcases (ih zs').mpr ⟨ws', hr, hzs⟩ with ⟨ys, g1, g2⟩
          exact ⟨y :: ys, by simp [deserZip, hy, g1], by simp [validateZip, hyz, g2]⟩

theorem fields_equiv (O : Oracles) (opts : DeserOpts) (c : ClassOpts) (defaults doc : List (String × PyVal))
    (hall : ∀ a ∈ doc, strictJson a.2 = true) :
    ∀ (fs : List (String × FieldDecl)), exactFields fs = true → (fs.map (·.1)).Nodup →
    ∀ (P P' : List (String × PyVal)), (∀ a ∈ P, a.1 ∉ fs.map (·.1)) → (∀ a ∈ P', a.1 ∉ fs.map (·.1)) →
    ∀ attrs,
      (∃ args, deserFields O opts c doc fs false = .ok args
          ∧ validateFields O c defaults (P ++ args) fs = .ok attrs)
      ↔ (∃ args', liftFields O opts c doc fs = some args'
          ∧ validateFields O c defaults (P' ++ args') fs = .ok attrs)
  | [], _, _, P, P', _, _, attrs => by simp [deserFields, liftFields, validateFields]
  | (n, f) :: rest, hex, hnd, P, P', hP, hP', attrs => by
    simp only [exactFields, and_true_iff] at hex
    have hnd0 := List.nodup_cons.mp (show (n :: rest.map (·.1)).Nodup by simpa using hnd)
    have hPr : ∀ a ∈ P, a.1 ∉ rest.map (·.1) := fun a ha hm => hP a ha (by simp [hm])
    have hPr' : ∀ a ∈ P', a.1 ∉ rest.map (·.1) := fun a ha hm => hP' a ha (by simp [hm])
    have hnP : n ∉ P.map (·.1) := by
      intro hm; rcases List.mem_map.mp hm with ⟨a, ha, hEq⟩; exact hP a ha (by simp [hEq])
    have hnP' : n ∉ P'.map (·.1) := by
      intro hm; rcases List.mem_map.mp hm with ⟨a, ha, hEq⟩; exact hP' a ha (by simp [hEq])
    -- a field without a (non-null) document value: nothing is deserialized, the default applies
    have absent : (∀ args, deserFields O opts c doc ((n, f) :: rest) false = .ok args ↔
          deserFields O opts c doc rest false = .ok args) →
        (∀ args, liftFields O opts c doc ((n, f) :: rest) = some args ↔
          liftFields O opts c doc rest = some args) →
        ((∃ args, deserFields O opts c doc ((n, f) :: rest) false = .ok args
            ∧ validateFields O c defaults (P ++ args) ((n, f) :: rest) = .ok attrs)
          ↔ (∃ args', liftFields O opts c doc ((n, f) :: rest) = some args'
            ∧ validateFields O c defaults (P' ++ args') ((n, f) :: rest) = .ok attrs)) := by
      intro hD hL
      have look : ∀ (Q args : List (String × PyVal)), n ∉ Q.map (·.1) →
          args.map (·.1) = presentNames doc rest → lookup n (Q ++ args) = none := by
        intro Q args hQ hn
        apply rt_lookup_none_of_not_mem
        simp only [List.map_append, List.mem_append, not_or]
        refine ⟨hQ, ?_⟩
        rw [hn]; intro hm; exact hnd0.1 (presentNames_subset doc rest n hm)
      constructor
      · rintro ⟨args, h1, h2⟩
        have h1' := (hD args).mp h1
        have hn := deserFields_names O opts c doc rest false args h1'
        rw [vF_absent O c defaults _ n f rest (look P args hnP hn)] at h2
        rcases (wrapDefault_ok_iff O defaults n f _ attrs).mp h2 with ⟨a, ha, hw⟩
        rcases (fields_equiv O opts c defaults doc hall rest hex.2 hnd0.2 P P' hPr hPr' a).mp ⟨args, h1', ha⟩
          with ⟨args', g1, g2⟩
        have hn' := liftFields_names O opts c doc rest args' g1
        refine ⟨args', (hL args').mpr g1, ?_⟩
        rw [vF_absent O c defaults _ n f rest (look P' args' hnP' hn')]
        exact (wrapDefault_ok_iff O defaults n f _ attrs).mpr ⟨a, g2, hw⟩
      · rintro ⟨args', h1, h2⟩
        have h1' := (hL args').mp h1
        have hn' := liftFields_names O opts c doc rest args' h1'
        rw [vF_absent O c defaults _ n f rest (look P' args' hnP' hn')] at h2
        rcases (wrapDefault_ok_iff O defaults n f _ attrs).mp h2 with ⟨a, ha, hw⟩
        rcases (fields_equiv O opts c defaults doc hall rest hex.2 hnd0.2 P P' hPr hPr' a).mpr ⟨args', h1', ha⟩
          with ⟨args, g1, g2⟩
        have hn := deserFields_names O opts c doc rest false args g1
        refine ⟨args, (hD args).mpr g1, ?_⟩
        rw [vF_absent O c defaults _ n f rest (look P args hnP hn)]
        exact (wrapDefault_ok_iff O defaults n f _ attrs).mpr ⟨a, g2, hw⟩
    cases hl : lookup n doc with
    | none =>
      exact absent (fun args => by simp only [deserFields, hl]) (fun args => by simp only [liftFields, hl])
    | some v =>
      by_cases hvn : v.isNone = true
      · exact absent (fun args => by simp only [deserFields, hl, hvn, if_true])
          (fun args => by simp only [liftFields, hl, hvn, if_true])
      · have hvn' : v.isNone = false := by simpa using hvn
        have hjv : strictJson v = true := hall (n, v) (lookup_mem' n v doc hl)
        have hfield := okEq_unfold O opts f v (okEq_field O opts f v hex.1 hjv)
        have hPn : ∀ (Q : List (String × PyVal)) (u : PyVal), (∀ a ∈ Q, a.1 ∉ rest.map (·.1)) →
            ∀ a ∈ Q ++ [(n, u)], a.1 ∉ rest.map (·.1) := by
          intro Q u hQ a ha
          rcases List.mem_append.mp ha with h | h
          · exact hQ a h
          · simp at h; subst h; exact hnd0.1
        constructor
        · rintro ⟨args, h1, h2⟩
          simp only [deserFields, hl, hvn', Bool.false_eq_true, if_false,
            deser_nonNone O opts c.ignoreNone f v hvn'] at h1
          cases hd : deser O opts false f v with
          | error e => simp [hd] at h1
          | ok y =>
            simp only [hd] at h1
            rcases bindE_eq_ok h1 with ⟨ys, hys, h3⟩
            cases h3
            have hyn := deser_ok_nonNone O opts f v y hex.1 hvn' hd
            rw [vF_present O c defaults P ys n f rest y hnP hyn] at h2
            rcases bindE_eq_ok h2 with ⟨z, hz, h4⟩
            rcases bindE_eq_ok h4 with ⟨zs, hzs, h5⟩
            cases h5
            rcases (hfield z).mp ⟨y, hd, hz⟩ with ⟨w, hw, hwz⟩
            have hwn := lift_some_nonNone O opts f v w hex.1 hvn' hw
            rcases (fields_equiv O opts c defaults doc hall rest hex.2 hnd0.2 (P ++ [(n, y)]) (P' ++ [(n, w)])
              (hPn P y hPr) (hPn P' w hPr') zs).mp ⟨ys, hys, hzs⟩ with ⟨ws, g1, g2⟩
            refine ⟨(n, w) :: ws, by simp [liftFields, hl, hvn', hw, g1], ?_⟩
            rw [vF_present O c defaults P' ws n f rest w hnP' hwn]
            have g2' : validateFields O c defaults (P' ++ (n, w) :: ws) rest = .ok zs := by simpa using g2
            simp [hwz, g2']
        · rintro ⟨args', h1, h2⟩
          simp only [liftFields, hl, hvn', Bool.false_eq_true, if_false] at h1
          cases hw : lift O opts f v with
          | none => simp [hw] at h1
          | some w =>
            cases hr : liftFields O opts c doc rest with
            | none => simp [hw, hr] at h1
            | some ws =>
              simp [hw, hr] at h1; subst h1
              have hwn := lift_some_nonNone O opts f v w hex.1 hvn' hw
              rw [vF_present O c defaults P' ws n f rest w hnP' hwn] at h2
              rcases bindE_eq_ok h2 with ⟨z, hz, h4⟩
              rcases bindE_eq_ok h4 with ⟨zs, hzs, h5⟩
              cases h5
              rcases (hfield z).mpr ⟨w, hw, hz⟩ with ⟨y, hd, hyz⟩
              have hyn := deser_ok_nonNone O opts f v y hex.1 hvn' hd
              rcases (fields_equiv O opts c defaults doc hall rest hex.2 hnd0.2 (P ++ [(n, y)]) (P' ++ [(n, w)])
                (hPn P y hPr) (hPn P' w hPr') zs).mpr ⟨ws, hr, hzs⟩ with ⟨ys, g1, g2⟩
              refine ⟨(n, y) :: ys, ?_, ?_⟩
              · simp [deserFields, hl, hvn', deser_nonNone O opts c.ignoreNone f v hvn', hd, g1]
              · rw [vF_present O c defaults P ys n f rest y hnP hyn]
                have g2' : validateFields O c defaults (P ++ (n, y) :: ys) rest = .ok zs := by simpa using g2
                simp [hyz, g2']
end

end Typedpy
