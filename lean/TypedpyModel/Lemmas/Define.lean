/-
  Lemmas/Define.lean — helper lemmas about the class-definition model (Sem/Define.lean):
  check lists, association-list merging, C3 linearisation.
-/
import TypedpyModel.Sem.Derive
import TypedpyModel.Spec.Faults
import TypedpyModel.Lemmas.Basic
namespace Typedpy

/-! ### check lists -/

theorem runChecks_error_of_mem {cs : List (R Unit)} {c : R Unit} {e : ErrCls}
    (hm : c ∈ cs) (hc : c = .error e) : ∃ e', runChecks cs = .error e' := by
  induction cs with
  | nil => cases hm
  | cons x xs ih =>
    simp only [runChecks]
    cases x with
    | error e0 => exact ⟨e0, rfl⟩
    | ok u =>
      simp only [bindE_ok]
      rcases List.mem_cons.mp hm with h | h
      · subst h; cases hc
      · exact ih h

theorem runChecks_ok_mem {cs : List (R Unit)} (h : runChecks cs = .ok ()) :
    ∀ c ∈ cs, c = .ok () := by
  induction cs with
  | nil => intro c hc; cases hc
  | cons x xs ih =>
    intro c hc
    simp only [runChecks] at h
    cases x with
    | error e0 => simp at h
    | ok u =>
      simp only [bindE_ok] at h
      rcases List.mem_cons.mp hc with h1 | h1
      · subst h1; rfl
      · exact ih h c h1

theorem defineClass_ok {O : Oracles} {w : World} {src : ClassSrc} {cd : ClassDef}
    (h : defineClass O w src = .ok cd) :
    runChecks (checks O w src) = .ok () ∧ cd = build w src := by
  unfold defineClass at h
  cases hr : runChecks (checks O w src) with
  | error e => simp [hr] at h
  | ok u => simp [hr] at h; exact ⟨rfl, h.symm⟩

theorem defineClass_error_of_check {O : Oracles} {w : World} {src : ClassSrc} {c : R Unit}
    {e : ErrCls} (hm : c ∈ checks O w src) (hc : c = .error e) :
    ∃ e', defineClass O w src = .error e' := by
  rcases runChecks_error_of_mem hm hc with ⟨e', he⟩
  exact ⟨e', by simp [defineClass, he]⟩

/-! ### C3 linearisation -/

theorem allEmpty_nil_of_mem {seqs : List (List String)} (h : allEmpty seqs = true) :
    ∀ s ∈ seqs, s = [] := by
  intro s hs
  have := (List.all_eq_true.mp h) s hs
  cases s with
  | nil => rfl
  | cons x t => simp at this

theorem pickHead_some {all : List (List String)} :
    ∀ {l : List (List String)} {h : String}, pickHead all l = some h →
      notInTails h all = true ∧ ∃ t, (h :: t) ∈ l
  | [], h, hp => by simp [pickHead] at hp
  | [] :: rest, h, hp => by
    simp only [pickHead] at hp
    rcases pickHead_some hp with ⟨h1, t, ht⟩
    exact ⟨h1, t, List.mem_cons_of_mem _ ht⟩
  | (x :: t) :: rest, h, hp => by
    simp only [pickHead] at hp
    split at hp
    · rename_i hn
      cases hp
      exact ⟨hn, t, List.mem_cons_self⟩
    · rcases pickHead_some hp with ⟨h1, t', ht⟩
      exact ⟨h1, t', List.mem_cons_of_mem _ ht⟩

theorem c3merge_step {fuel : Nat} {seqs : List (List String)} {out : List String}
    (h : c3merge (fuel + 1) seqs = some out) :
    (allEmpty seqs = true ∧ out = []) ∨
    (∃ hd out', pickHead seqs seqs = some hd ∧ c3merge fuel (seqs.map (dropHead hd)) = some out'
        ∧ out = hd :: out') := by
  simp only [c3merge] at h
  split at h
  · rename_i he
    left; exact ⟨he, by cases h; rfl⟩
  · right
    cases hp : pickHead seqs seqs with
    | none => simp [hp] at h
    | some hd =>
      simp only [hp] at h
      cases hr : c3merge fuel (seqs.map (dropHead hd)) with
      | none => simp [hr] at h
      | some out' =>
        simp [hr] at h
        exact ⟨hd, out', rfl, hr, h.symm⟩

theorem c3merge_zero {seqs : List (List String)} {out : List String}
    (h : c3merge 0 seqs = some out) : allEmpty seqs = true ∧ out = [] := by
  simp only [c3merge] at h
  split at h
  · rename_i he; exact ⟨he, by cases h; rfl⟩
  · cases h

/-- every input sequence is a subsequence of the linearisation (order is preserved) -/
theorem c3merge_sublist : ∀ (fuel : Nat) (seqs : List (List String)) (out : List String),
    c3merge fuel seqs = some out → ∀ s ∈ seqs, s.Sublist out
  | 0, seqs, out, h, s, hs => by
    rcases c3merge_zero h with ⟨he, ho⟩
    rw [allEmpty_nil_of_mem he s hs]; exact List.nil_sublist _
  | fuel + 1, seqs, out, h, s, hs => by
    rcases c3merge_step h with ⟨he, _⟩ | ⟨hd, out', _, hr, ho⟩
    · rw [allEmpty_nil_of_mem he s hs]; exact List.nil_sublist _
    · subst ho
      have ih := c3merge_sublist fuel _ out' hr (dropHead hd s) (List.mem_map_of_mem hs)
      cases s with
      | nil => exact List.nil_sublist _
      | cons x t =>
        simp only [dropHead] at ih
        split at ih
        · rename_i hx
          have : x = hd := by simpa using hx
          subst this
          exact List.Sublist.cons_cons _ ih
        · exact List.Sublist.cons _ ih

theorem mem_of_mem_dropHead {h x : String} : ∀ {s : List String}, x ∈ dropHead h s → x ∈ s
  | [], hx => by simp [dropHead] at hx
  | y :: t, hx => by
    simp only [dropHead] at hx
    split at hx
    · exact List.mem_cons_of_mem _ hx
    · exact hx

/-- the linearisation contains nothing but elements of the input sequences -/
theorem c3merge_origin : ∀ (fuel : Nat) (seqs : List (List String)) (out : List String),
    c3merge fuel seqs = some out → ∀ x ∈ out, ∃ s ∈ seqs, x ∈ s
  | 0, seqs, out, h, x, hx => by
    rcases c3merge_zero h with ⟨_, ho⟩
    subst ho; cases hx
  | fuel + 1, seqs, out, h, x, hx => by
    rcases c3merge_step h with ⟨_, ho⟩ | ⟨hd, out', hp, hr, ho⟩
    · subst ho; cases hx
    · subst ho
      rcases List.mem_cons.mp hx with hx | hx
      · subst hx
        rcases pickHead_some hp with ⟨_, t, ht⟩
        exact ⟨_, ht, List.mem_cons_self⟩
      · rcases c3merge_origin fuel _ out' hr x hx with ⟨s', hs', hxs⟩
        rcases List.mem_map.mp hs' with ⟨s, hs, rfl⟩
        exact ⟨s, hs, mem_of_mem_dropHead hxs⟩

theorem dropHead_nodup {h : String} : ∀ {s : List String}, s.Nodup → (dropHead h s).Nodup
  | [], _ => by simp [dropHead]
  | y :: t, hn => by
    simp only [dropHead]
    split
    · exact (List.nodup_cons.mp hn).2
    · exact hn

theorem not_mem_dropHead {all : List (List String)} {h : String} (hn : notInTails h all = true) :
    ∀ {s : List String}, s ∈ all → s.Nodup → h ∉ dropHead h s := by
  intro s hs hnd
  have ht : ¬ (s.tail.contains h = true) := by
    have := (List.all_eq_true.mp hn) s hs
    simpa using this
  cases s with
  | nil => simp [dropHead]
  | cons y t =>
    simp only [dropHead]
    split
    · rename_i hy
      have : y = h := by simpa using hy
      subst this
      exact (List.nodup_cons.mp hnd).1
    · rename_i hy
      intro hm
      rcases List.mem_cons.mp hm with h1 | h1
      · exact hy (by simp [h1])
      · exact ht (by simpa using h1)

/-- no class occurs twice in a linearisation -/
theorem c3merge_nodup : ∀ (fuel : Nat) (seqs : List (List String)) (out : List String),
    c3merge fuel seqs = some out → (∀ s ∈ seqs, s.Nodup) → out.Nodup
  | 0, seqs, out, h, _ => by
    rcases c3merge_zero h with ⟨_, ho⟩
    subst ho; exact List.nodup_nil
  | fuel + 1, seqs, out, h, hnd => by
    rcases c3merge_step h with ⟨_, ho⟩ | ⟨hd, out', hp, hr, ho⟩
    · subst ho; exact List.nodup_nil
    · subst ho
      rcases pickHead_some hp with ⟨hn, _⟩
      have hnd' : ∀ s ∈ seqs.map (dropHead hd), s.Nodup := by
        intro s' hs'
        rcases List.mem_map.mp hs' with ⟨s, hs, rfl⟩
        exact dropHead_nodup (hnd s hs)
      refine List.nodup_cons.mpr ⟨?_, c3merge_nodup fuel _ out' hr hnd'⟩
      intro hm
      rcases c3merge_origin fuel _ out' hr hd hm with ⟨s', hs', hxs⟩
      rcases List.mem_map.mp hs' with ⟨s, hs, rfl⟩
      exact not_mem_dropHead hn hs (hnd s hs) hxs


/-! ### association lists: `dict.update`, lookups, first owner along a linearisation -/

section
variable {α : Type}

theorem lookup_assocSet (n k : String) (v : α) :
    ∀ l : List (String × α), lookup n (assocSet k v l) = if n == k then some v else lookup n l
  | [] => by simp [assocSet, lookup]
  | (k', v') :: rest => by
    simp only [assocSet]
    by_cases hk : k = k'
    · subst hk
      simp only [beq_self_eq_true, if_true, lookup]
      by_cases hn : n = k
      · simp [hn]
      · simp [hn]
    · have : (k == k') = false := by simpa using hk
      simp only [this, Bool.false_eq_true, if_false, lookup]
      rw [lookup_assocSet n k v rest]
      by_cases hn : n = k'
      · subst hn
        have : (n == k) = false := by simpa using fun h => hk h.symm
        simp [this]
      · have : (n == k') = false := by simpa using hn
        simp [this]

theorem lookup_append_orElse (n : String) :
    ∀ l1 l2 : List (String × α), lookup n (l1 ++ l2) = (lookup n l1).orElse fun _ => lookup n l2
  | [], l2 => by simp [lookup]
  | (k, v) :: rest, l2 => by
    simp only [List.cons_append, lookup]
    split
    · simp
    · exact lookup_append_orElse n rest l2

theorem lookup_updateAll (n : String) :
    ∀ (l acc : List (String × α)),
      lookup n (updateAll acc l) = (lookup n l.reverse).orElse fun _ => lookup n acc
  | [], acc => by simp [updateAll, lookup]
  | p :: ps, acc => by
    simp only [updateAll, List.reverse_cons]
    rw [lookup_updateAll n ps, lookup_append_orElse, lookup_assocSet]
    cases lookup n ps.reverse with
    | some v => simp
    | none =>
      simp only [Option.orElse_none, lookup]
      split <;> simp

theorem updateAll_append : ∀ (l1 l2 acc : List (String × α)),
    updateAll acc (l1 ++ l2) = updateAll (updateAll acc l1) l2
  | [], l2, acc => by simp [updateAll]
  | p :: ps, l2, acc => by simp only [List.cons_append, updateAll]; exact updateAll_append ps l2 _

theorem mergeAll_eq : ∀ (ls : List (List (String × α))) (acc : List (String × α)),
    mergeAll acc ls = updateAll acc ls.flatten
  | [], acc => by simp [mergeAll, updateAll]
  | l :: ls, acc => by
    simp only [mergeAll, List.flatten_cons, updateAll_append]
    exact mergeAll_eq ls _

theorem lookup_isSome_iff (n : String) :
    ∀ l : List (String × α), (lookup n l).isSome = true ↔ n ∈ l.map (·.1)
  | [] => by simp [lookup]
  | (k, v) :: rest => by
    have ih := lookup_isSome_iff n rest
    simp only [lookup, List.map_cons, List.mem_cons]
    by_cases hn : n = k
    · simp [hn]
    · have : (n == k) = false := by simpa using hn
      simp only [this, Bool.false_eq_true, if_false, ih]
      simp [hn]

theorem lookup_mem {n : String} {v : α} : ∀ {l : List (String × α)}, lookup n l = some v → (n, v) ∈ l
  | [], h => by simp [lookup] at h
  | (k, v') :: rest, h => by
    simp only [lookup] at h
    split at h
    · rename_i hk
      have : n = k := by simpa using hk
      cases h; subst this; exact List.mem_cons_self
    · exact List.mem_cons_of_mem _ (lookup_mem h)

/-- the first class of a linearisation whose own fields include `n` -/
def firstOwner (g : String → List (String × α)) (n : String) : List String → Option String
  | [] => none
  | k :: ks => if (lookup n (g k)).isSome then some k else firstOwner g n ks

theorem lookup_flatten_map (g : String → List (String × α)) (n : String) :
    ∀ l : List String, lookup n ((l.map g).flatten) =
      match firstOwner g n l with
      | some k => lookup n (g k)
      | none => none
  | [] => by simp [firstOwner, lookup]
  | k :: ks => by
    simp only [List.map_cons, List.flatten_cons, lookup_append_orElse, firstOwner]
    cases hk : lookup n (g k) with
    | some v => simp [hk]
    | none => simp [lookup_flatten_map g n ks]

theorem firstOwner_some {g : String → List (String × α)} {n k : String} :
    ∀ {l : List String}, firstOwner g n l = some k → k ∈ l ∧ (lookup n (g k)).isSome = true
  | [], h => by simp [firstOwner] at h
  | x :: xs, h => by
    simp only [firstOwner] at h
    split at h
    · rename_i hx; cases h; exact ⟨List.mem_cons_self, hx⟩
    · rcases firstOwner_some h with ⟨h1, h2⟩
      exact ⟨List.mem_cons_of_mem _ h1, h2⟩

/-- along a duplicate-free linearisation, a sub-linearisation that contains the first owner of a
    name has the same first owner -/
theorem firstOwner_sublist {g : String → List (String × α)} {n k : String} :
    ∀ {l1 l2 : List String}, l1.Sublist l2 → l2.Nodup → firstOwner g n l2 = some k → k ∈ l1 →
      firstOwner g n l1 = some k := by
  intro l1 l2 hs
  induction hs with
  | slnil => intro _ h; simp [firstOwner] at h
  | cons x hs ih =>
    rename_i a b
    intro hnd h hk
    simp only [firstOwner] at h
    have hx := List.nodup_cons.mp hnd
    split at h
    · cases h
      exact absurd (hs.subset hk) hx.1
    · exact ih hx.2 h hk
  | cons_cons x hs ih =>
    rename_i a b
    intro hnd h hk
    have hx := List.nodup_cons.mp hnd
    simp only [firstOwner] at h ⊢
    split
    · rename_i hox; simp [hox] at h; exact congrArg some h
    · rename_i hox
      simp only [hox] at h
      have hk' : k ∈ a := by
        rcases List.mem_cons.mp hk with h1 | h1
        · subst h1
          exact absurd (firstOwner_some h).2 (by simpa using hox)
        · exact h1
      exact ih hx.2 (by simpa using h) hk'


end

end Typedpy
