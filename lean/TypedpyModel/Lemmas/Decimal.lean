/-
  Lemmas/Decimal.lean — error classes of the Decimal conversion layer (Sem/Decimal.lean): whatever fails while the
  keyword arguments of a class with DecimalNumber fields are converted is a TypeError or a ValueError.
-/
import TypedpyModel.Sem.Decimal
import TypedpyModel.Lemmas.Basic
namespace Typedpy

theorem c02_mapE_err {α β} (g : α → R β) (P : ErrCls → Prop) (hg : ∀ a e, g a = .error e → P e) :
    ∀ (xs : List α) (e : ErrCls), mapE g xs = .error e → P e
  | [], e, h => by simp [mapE] at h
  | x :: xs, e, h => by
    simp only [mapE] at h
    cases hx : g x with
    | error e' => rw [hx] at h; simp at h; subst h; exact hg x e' hx
    | ok y =>
      rw [hx] at h; simp only [bindE_ok] at h
      cases hr : mapE g xs with
      | error e' => rw [hr] at h; simp at h; subst h; exact c02_mapE_err g P hg xs e' hr
      | ok ys => rw [hr] at h; simp at h

theorem c02_toDecimal_err (parse : String → Option Q) (v : PyVal) (e : ErrCls)
    (h : toDecimal parse v = .error e) : e = .typeErr ∨ e = .valueErr := by
  unfold toDecimal at h
  cases hd : decValue parse v <;> rw [hd] at h <;> simp at h
  subst h
  cases v <;> simp [decErr]

theorem c02_convertArg_err (parse : String → Option Q) (pos : DecPos) (v : PyVal) (e : ErrCls)
    (h : convertArg parse pos v = .error e) : e = .typeErr ∨ e = .valueErr := by
  unfold convertArg at h
  split at h
  · exact c02_toDecimal_err parse _ e h
  · rename_i xs
    cases hm : mapE (toDecimal parse) xs with
    | error e' =>
      rw [hm] at h; simp at h; subst h
      exact c02_mapE_err _ (fun e => e = .typeErr ∨ e = .valueErr) (fun a e he => c02_toDecimal_err parse a e he) xs e' hm
    | ok ys => rw [hm] at h; simp at h
  · rename_i xs
    cases hm : mapE (toDecimal parse) xs with
    | error e' =>
      rw [hm] at h; simp at h; subst h
      exact c02_mapE_err _ (fun e => e = .typeErr ∨ e = .valueErr) (fun a e he => c02_toDecimal_err parse a e he) xs e' hm
    | ok ys => rw [hm] at h; simp at h
  · split at h <;> cases h
  · rename_i kvs
    cases hm : mapE (fun (kv : PyVal × PyVal) => bindE (toDecimal parse kv.2) fun y => .ok (kv.1, y)) kvs with
    | error e' =>
      rw [hm] at h; simp at h; subst h
      refine c02_mapE_err _ (fun e => e = .typeErr ∨ e = .valueErr) (fun a e he => ?_) kvs e' hm
      cases ht : toDecimal parse a.2 with
      | error e'' => rw [ht] at he; simp at he; subst he; exact c02_toDecimal_err parse _ _ ht
      | ok y => rw [ht] at he; simp at he
    | ok r => rw [hm] at h; simp at h
  · cases h

theorem c02_convertKw_err (parse : String → Option Q) (decs : List (String × DecPos)) :
    ∀ (kw : List (String × PyVal)) (e : ErrCls), convertKw parse decs kw = .error e → e = .typeErr ∨ e = .valueErr
  | [], e, h => by simp [convertKw] at h
  | (name, v) :: rest, e, h => by
    simp only [convertKw] at h
    cases hc : convertAt parse decs name v with
    | error e' =>
      rw [hc] at h; simp at h; subst h
      unfold convertAt at hc
      split at hc
      · split at hc
        · cases hc
        · exact c02_convertArg_err parse _ v e' hc
      · cases hc
    | ok y =>
      rw [hc] at h
      simp only [bindE_ok] at h
      cases hr : convertKw parse decs rest with
      | error e' => rw [hr] at h; simp at h; subst h; exact c02_convertKw_err parse decs rest e' hr
      | ok ys => rw [hr] at h; simp at h

end Typedpy
