import TypedpyModel.Lemmas.LiftScalars
namespace Typedpy
open PyVal (pyEq pyMem pyNodup)

/-! ### lists -/

theorem mapO_length {α β} (g : α → Option β) : ∀ (xs : List α) (ys : List β), mapO g xs = some ys → ys.length = xs.length
  | [], ys, h => by simp [mapO] at h; subst h; rfl
  | x :: xs, ys, h => by
    simp only [mapO] at h
    cases hx : g x with
    | none => simp [hx] at h
    | some y =>
      cases hr : mapO g xs with
      | none => simp [hx, hr] at h
      | some ys' =>
        simp [hx, hr] at h; subst h
        simp [mapO_length g xs ys' hr]

theorem isJsonList_mem : ∀ (xs : List PyVal), isJsonList xs = true → ∀ x ∈ xs, isJson x = true
  | [], _, x, hx => by simp at hx
  | y :: ys, h, x, hx => by
    simp only [isJsonList, and_true_iff] at h
    rcases List.mem_cons.mp hx with rfl | hx'
    · exact h.1
    · exact isJsonList_mem ys h.2 x hx'

/-- element-wise: (deserialize, then validate) and (lift, then validate) produce the same validated
    list, given that they agree on every element -/
theorem lf_list_equiv (O : Oracles) (opts : DeserOpts) (f : FieldDecl) :
    ∀ (xs : List PyVal), (∀ x ∈ xs, OkEq (deserThen O opts f x) (liftThen O opts f x)) →
    ∀ zs, (∃ ys, mapE (deser O opts false f) xs = .ok ys ∧ mapE (validate O f) ys = .ok zs)
        ↔ (∃ ws, mapO (lift O opts f) xs = some ws ∧ mapE (validate O f) ws = .ok zs)
  | [], _, zs => by simp [mapE, mapO]
  | x :: xs, h, zs => by
    have hx := h x (by simp)
    have ih := lf_list_equiv O opts f xs (fun y hy => h y (by simp [hy]))
    constructor
    · rintro ⟨ys, h1, h2⟩
      simp only [mapE] at h1
      rcases bindE_eq_ok h1 with ⟨y, hy, h1'⟩
      rcases bindE_eq_ok h1' with ⟨ys', hys, h1''⟩
      cases h1''
      simp only [mapE] at h2
      rcases bindE_eq_ok h2 with ⟨z, hz, h2'⟩
      rcases bindE_eq_ok h2' with ⟨zs', hzs, h2''⟩
      cases h2''
      have hd : deserThen O opts f x = .ok z := by simp [deserThen, hy, hz]
      have hl := (hx z).mp hd
      unfold liftThen at hl
      cases hw : lift O opts f x with
      | none => rw [hw] at hl; cases hl
      | some w =>
        rw [hw] at hl
        rcases (ih zs').mp ⟨ys', hys, hzs⟩ with ⟨ws, g1, g2⟩
        exact ⟨w :: ws, by simp [mapO, hw, g1], by simp [mapE, hl, g2]⟩
    · rintro ⟨ws, h1, h2⟩
      simp only [mapO] at h1
      cases hw : lift O opts f x with
      | none => simp [hw] at h1
      | some w =>
        cases hr : mapO (lift O opts f) xs with
        | none => simp [hw, hr] at h1
        | some ws' =>
          simp [hw, hr] at h1; subst h1
          simp only [mapE] at h2
          rcases bindE_eq_ok h2 with ⟨z, hz, h2'⟩
          rcases bindE_eq_ok h2' with ⟨zs', hzs, h2''⟩
          cases h2''
          have hl : liftThen O opts f x = .ok z := by simp [liftThen, hw, hz]
          have hd := (hx z).mpr hl
          unfold deserThen at hd
          rcases bindE_eq_ok hd with ⟨y, hy, hvy⟩
          rcases (ih zs').mpr ⟨ws', hr, hzs⟩ with ⟨ys, g1, g2⟩
          exact ⟨y :: ys, by simp [mapE, hy, g1], by simp [mapE, hvy, g2]⟩

/-- `vSeq` on an already-built sequence when uniqueItems is off and the positional rule only
    looks at the length -/
theorem vSeq_mkSeq_ok (k : SeqKind) (sz : SizeOpts) (p : Nat → Bool) (g : List PyVal → R (List PyVal))
    (ys : List PyVal) (hu : sz.uniq = false) (r : PyVal) :
    vSeq k sz (fun xs => p xs.length) g (mkSeq k ys) = .ok r
      ↔ sizeOk sz ys.length = true ∧ p ys.length = true ∧ ∃ zs, g ys = .ok zs ∧ r = mkSeq k zs := by
  unfold vSeq
  rw [seqElems_mkSeq]
  simp only [hu, uniqOk]
  constructor
  · intro h
    by_cases h1 : sizeOk sz ys.length = true
    · by_cases h2 : p ys.length = true
      · simp [h1, h2] at h
        rcases bindE_eq_ok h with ⟨zs, hz, h3⟩
        cases h3
        exact ⟨h1, h2, zs, hz, rfl⟩
      · simp [h1, h2] at h
    · simp [h1] at h
  · rintro ⟨h1, h2, zs, hz, rfl⟩
    simp [h1, h2, hz]

end Typedpy
