/-
  Lemmas/SchemaExact.lean — the converse direction on the exact scalar fragment: a document value
  that the (dialect-fixed) schema of a scalar field admits is accepted by
  `deserialize_single_field` and then by the field's own validation (what the constructor runs).
-/
import TypedpyModel.Lemmas.SchemaAdmits
namespace Typedpy.Sch
open Typedpy

/-- the field accepts the document value: deserialization succeeds and the constructor's
    validation accepts what it produced -/
def Accepted (O : Oracles) (opts : DeserOpts) (ign : Bool) (f : FieldDecl) (v : PyVal) : Prop :=
  ∃ y y', deser O opts ign f v = .ok y ∧ validate O f y = .ok y'

/-! ### inverting the keyword groups -/

theorem jsKws_numKws_inv (R S) (ctx : List (PyVal × PyVal)) (ty : String) (isInt : Bool) (o : NumOpts)
    (d : PyVal)
    (hex : boolKw "exclusiveMaximum" ctx = exclEff o) (hem : boolKw "exclusiveMinimum" ctx = false)
    (h : jsKws R S ctx (numKws true ty isInt o) d = true) :
    typeIs ty d = true ∧
    (∀ q, jsNum d = some q →
      multOk o.mult q = true ∧ geMin (effMin isInt o) q = true ∧
      (match effMax isInt o with
       | none => true
       | some hi => if exclEff o then Q.lt q hi else Q.le q hi) = true) := by
  simp only [numKws, jsKws_append, jsKws_optKw, and_true_iff'] at h
  obtain ⟨⟨⟨⟨h1, h2⟩, h3⟩, h4⟩, _⟩ := h
  constructor
  · simpa [jsKws, kw, kwOf, kwOfStr, kwNode, kwLeaf, typeOk] using h1
  · intro q hq
    refine ⟨?_, ?_, ?_⟩
    · cases hm : o.mult with
      | none => simp [multOk]
      | some m =>
        simp only [hm, Option.map, multKey, if_true] at h2
        have hji : jsNum (absJ m) = some (Q.ofInt (Int.ofNat m.natAbs)) := rfl
        simp [jsKws, kw, kwOf, kwOfStr, kwNode, kwLeaf, hq, hji, isMult, Q.ofInt] at h2
        simp [multOk, Q.isMultipleOf]
        have := emod_natAbs_mul q.num m q.den
        simp only [Int.ofNat_eq_natCast] at this
        rw [← this]; exact h2
    · cases hm : effMin isInt o with
      | none => simp [geMin]
      | some m =>
        obtain ⟨m', hm1, hm2, hm3⟩ := jsNum_numJ m
        simp only [hm, Option.map] at h3
        simp [jsKws, kw, kwOf, kwOfStr, kwNode, kwLeaf, hq, hm1, hem] at h3
        rw [Q_le_congr m m' q hm2 hm3] at h3
        simpa [geMin] using h3
    · cases hm : effMax isInt o with
      | none => rfl
      | some m =>
        obtain ⟨m', hm1, hm2, hm3⟩ := jsNum_numJ m
        simp only [hm, Option.map] at h4
        simp [jsKws, kw, kwOf, kwOfStr, kwNode, kwLeaf, hq, hm1, hex] at h4
        cases he : exclEff o with
        | false => simp [he] at h4 ⊢; rw [Q_le_congr_right q m m' hm2 hm3] at h4; exact h4
        | true => simp [he] at h4 ⊢; rw [Q_lt_congr_right q m m' hm2 hm3] at h4; exact h4

theorem jsV_numKws_inv (R S) (ty : String) (isInt : Bool) (o : NumOpts) (d : PyVal)
    (h : jsV R S (.dict (numKws true ty isInt o)) d = true) :
    typeIs ty d = true ∧
    (∀ q, jsNum d = some q →
      multOk o.mult q = true ∧ geMin (effMin isInt o) q = true ∧
      (match effMax isInt o with
       | none => true
       | some hi => if exclEff o then Q.lt q hi else Q.le q hi) = true) := by
  rw [jsV_dict _ _ _ _ (getKw_ref_numKws ty isInt o)] at h
  exact jsKws_numKws_inv R S _ ty isInt o d (boolKw_exclMax_numKws ty isInt o)
    (boolKw_exclMin_numKws ty isInt o) h

theorem jsV_strKws_inv (R S) (lo hi : Option Nat) (pat : Option String) (d : PyVal)
    (h : jsV R S (.dict (strKws lo hi pat)) d = true) :
    ∃ s, d = .str s ∧ geLen lo s.length = true ∧ leLen hi s.length = true
      ∧ (match pat with | none => true | some p => S p s) = true := by
  have href : getKw "$ref" (strKws lo hi pat) = none := by
    simp [strKws, getKw_append, getKw_optKw, getKw, kw, keyIs]
  rw [jsV_dict _ _ _ _ href] at h
  revert h
  suffices hh : ∀ ctx, jsKws R S ctx (strKws lo hi pat) d = true → _ from hh _
  intro ctx h
  simp only [strKws, jsKws_append, jsKws_optKw, and_true_iff'] at h
  obtain ⟨⟨⟨h1, h2⟩, h3⟩, h4⟩ := h
  have hty : typeIs "string" d = true := by
    simpa [jsKws, kw, kwOf, kwOfStr, kwNode, kwLeaf, typeOk] using h1
  cases d with
  | str s =>
    refine ⟨s, rfl, ?_, ?_, ?_⟩
    · cases lo with
      | none => rfl
      | some n =>
        simp only [Option.map] at h2
        simp [jsKws, kw, kwOf, kwOfStr, kwNode, kwLeaf, natOf_natJ] at h2
        simpa [geLen] using h2
    · cases hi with
      | none => rfl
      | some n =>
        simp only [Option.map] at h3
        simp [jsKws, kw, kwOf, kwOfStr, kwNode, kwLeaf, natOf_natJ] at h3
        simpa [leLen] using h3
    · cases pat with
      | none => rfl
      | some p =>
        simp only [Option.map] at h4
        simp [jsKws, kw, kwOf, kwOfStr, kwNode, kwLeaf] at h4
        simpa using h4
  | _ => simp [typeIs] at hty

/-! ### sign classes -/

/-- on integers the bound substituted for a sign class is exactly the sign condition -/
theorem signOk_of_eff_int (o : NumOpts) (i : Int)
    (hsign : (match o.sign with
      | .any => true
      | .pos | .nonneg => o.min.isNone
      | .neg | .nonpos => o.max.isNone) = true)
    (hmin : geMin (effMin true o) (Q.ofInt i) = true)
    (hmax : (match effMax true o with
       | none => true
       | some hi => if exclEff o then Q.lt (Q.ofInt i) hi else Q.le (Q.ofInt i) hi) = true) :
    signOk o.sign (Q.ofInt i) = true ∧ geMin o.min (Q.ofInt i) = true
      ∧ leMax o.max o.exclMax (Q.ofInt i) = true := by
  cases hs : o.sign <;> simp only [hs] at hsign
  · -- any
    refine ⟨rfl, ?_, ?_⟩
    · cases hm : o.min with
      | none => rfl
      | some m => simpa [effMin, hm] using hmin
    · cases hm : o.max with
      | none => rfl
      | some m => simpa [effMax, hm, leMax, exclEff] using hmax
  · -- pos
    have hm0 : o.min = none := by simpa using hsign
    refine ⟨?_, by simp [hm0, geMin], ?_⟩
    · simp [effMin, hm0, hs, geMin, Q.le, Q.ofInt] at hmin
      simp [signOk, Q.lt, Q.ofInt]; omega
    · cases hm : o.max with
      | none => rfl
      | some m => simpa [effMax, hm, leMax, exclEff] using hmax
  · -- neg
    have hm0 : o.max = none := by simpa using hsign
    refine ⟨?_, ?_, by simp [hm0, leMax]⟩
    · simp [effMax, hm0, hs, exclEff, Q.le, Q.ofInt] at hmax
      simp [signOk, Q.lt, Q.ofInt]; omega
    · cases hm : o.min with
      | none => rfl
      | some m => simpa [effMin, hm] using hmin
  · -- nonpos
    have hm0 : o.max = none := by simpa using hsign
    refine ⟨?_, ?_, by simp [hm0, leMax]⟩
    · simp [effMax, hm0, hs, exclEff] at hmax
      simpa [signOk] using hmax
    · cases hm : o.min with
      | none => rfl
      | some m => simpa [effMin, hm] using hmin
  · -- nonneg
    have hm0 : o.min = none := by simpa using hsign
    refine ⟨?_, by simp [hm0, geMin], ?_⟩
    · simp [effMin, hm0, hs, geMin] at hmin
      simpa [signOk] using hmin
    · cases hm : o.max with
      | none => rfl
      | some m => simpa [effMax, hm, leMax, exclEff] using hmax

/-! ### JSON equality refines Python equality on scalars -/

theorem jsonEq_pyEq_scalar (v w : PyVal) (hw : enumScalar w = true) (h : jsonEq v w = true) :
    PyVal.pyEq v w = true := by
  cases v <;> cases w <;> simp [enumScalar] at hw <;> simp [jsonEq, jsNum] at h <;>
    simp [PyVal.pyEq, PyVal.asNum, h] <;> first | exact h | (subst h; simp [Q.eq]) | skip
  all_goals first
    | exact h
    | (rename_i a b; cases a <;> cases b <;> simp_all [Q.eq, Q.ofInt])

theorem jsonMem_pyMem (v : PyVal) : ∀ vs : List PyVal, vs.all enumScalar = true → jsonMem v vs = true →
    PyVal.pyMem v vs = true
  | [], _, h => by simp [jsonMem] at h
  | w :: vs, hv, h => by
    simp only [List.all_cons, and_true_iff'] at hv
    simp only [jsonMem, List.any_cons, Bool.or_eq_true] at h
    simp only [PyVal.pyMem, List.any_cons, Bool.or_eq_true]
    rcases h with h | h
    · left; exact jsonEq_pyEq_scalar v w hv.1 h
    · right; exact jsonMem_pyMem v vs hv.2 h

theorem jsonMem_str_inv (v : PyVal) : ∀ names : List String, jsonMem v (names.map PyVal.str) = true →
    ∃ n, v = .str n ∧ names.contains n = true
  | [], h => by simp [jsonMem] at h
  | m :: names, h => by
    simp only [jsonMem, List.map_cons, List.any_cons, Bool.or_eq_true] at h
    rcases h with h | h
    · cases v <;> simp [jsonEq, jsNum] at h
      rename_i s
      exact ⟨s, rfl, by simp [h]⟩
    · obtain ⟨n, hn1, hn2⟩ := jsonMem_str_inv v names h
      have hn2' : n ∈ names := by simpa using hn2
      exact ⟨n, hn1, by simp [hn2']⟩

/-! ### the exact scalar fragment -/

theorem numOk_noSign (o : NumOpts) (q : Q) (hm : multOk o.mult q = true) (hmin : geMin o.min q = true)
    (hmax : leMax o.max o.exclMax q = true) : numOk (noSign o) q = true := by
  simp [numOk, noSign, signOk, hm, hmin, hmax]

theorem numOk_full (o : NumOpts) (q : Q) (hm : multOk o.mult q = true) (hmin : geMin o.min q = true)
    (hmax : leMax o.max o.exclMax q = true) (hs : signOk o.sign q = true) : numOk o q = true := by
  simp [numOk, hs, hm, hmin, hmax]

/-- bounds of a declaration without a sign class, read off the effective bounds -/
theorem bounds_of_eff_any (isInt : Bool) (o : NumOpts) (q : Q) (hs : o.sign = .any)
    (hmin : geMin (effMin isInt o) q = true)
    (hmax : (match effMax isInt o with
       | none => true
       | some hi => if exclEff o then Q.lt q hi else Q.le q hi) = true) :
    geMin o.min q = true ∧ leMax o.max o.exclMax q = true := by
  constructor
  · cases hm : o.min with
    | none => rfl
    | some m => simpa [effMin, hm] using hmin
  · cases hm : o.max with
    | none => rfl
    | some m => simpa [effMax, hm, leMax, exclEff] using hmax

theorem exact_integer (O : Oracles) (R S) (opts : DeserOpts) (ign : Bool) (o : NumOpts) (v : PyVal)
    (hf : exactScalar (.integer o) = true) (h : jsV R S (emit true (.integer o)) v = true) :
    Accepted O opts ign (.integer o) v := by
  simp only [exactScalar, and_true_iff'] at hf
  simp only [emit] at h
  obtain ⟨hty, hb⟩ := jsV_numKws_inv R S "integer" true o v h
  cases v with
  | int i =>
    obtain ⟨hm, hmin, hmax⟩ := hb (Q.ofInt i) rfl
    obtain ⟨hs, hmin', hmax'⟩ := signOk_of_eff_int o i hf.2 hmin hmax
    refine ⟨.int i, .int i, ?_, ?_⟩
    · simp [deser, PyVal.isNone, dValidated, vInteger, numOk_noSign o _ hm hmin' hmax']
    · simp [validate, vInteger, numOk_full o _ hm hmin' hmax' hs]
  | _ => simp [typeIs] at hty

theorem exact_number (O : Oracles) (R S) (opts : DeserOpts) (ign : Bool) (o : NumOpts) (v : PyVal)
    (hf : exactScalar (.number o) = true) (h : jsV R S (emit true (.number o)) v = true) :
    Accepted O opts ign (.number o) v := by
  simp only [exactScalar, and_true_iff'] at hf
  have hs : o.sign = .any := by simpa using hf.1.2
  simp only [emit] at h
  obtain ⟨hty, hb⟩ := jsV_numKws_inv R S "number" false o v h
  have key : ∀ q, v.asNum = some q → jsNum v = some q → Accepted O opts ign (.number o) v := by
    intro q hq hj
    obtain ⟨hm, hmin, hmax⟩ := hb q hj
    obtain ⟨hmin', hmax'⟩ := bounds_of_eff_any false o q hs hmin hmax
    have hso : signOk o.sign q = true := by simp [hs, signOk]
    refine ⟨v, v, ?_, ?_⟩
    · cases v <;> simp [jsNum] at hj <;>
        simp [deser, PyVal.isNone, dValidated, vNumber, hq, numOk_noSign o _ hm hmin' hmax']
    · simp [validate, vNumber, hq, numOk_full o _ hm hmin' hmax' hso]
  cases v with
  | int i => exact key (Q.ofInt i) rfl rfl
  | float q => exact key q rfl rfl
  | _ => simp [typeIs] at hty

theorem exact_float (O : Oracles) (R S) (opts : DeserOpts) (ign : Bool) (o : NumOpts) (v : PyVal)
    (hf : exactScalar (.float o) = true) (h : jsV R S (emit true (.float o)) v = true) :
    Accepted O opts ign (.float o) v := by
  simp only [exactScalar, and_true_iff'] at hf
  have hs : o.sign = .any := by simpa using hf.1.2
  simp only [emit] at h
  obtain ⟨hty, hb⟩ := jsV_numKws_inv R S "number" false o v h
  cases v with
  | int i =>
    obtain ⟨hm, hmin, hmax⟩ := hb (Q.ofInt i) rfl
    obtain ⟨hmin', hmax'⟩ := bounds_of_eff_any false o _ hs hmin hmax
    have hso : signOk o.sign (Q.ofInt i) = true := by simp [hs, signOk]
    refine ⟨.int i, .float (Q.ofInt i), ?_, ?_⟩
    · simp [deser, PyVal.isNone, dValidated, vFloat, numOk_noSign o _ hm hmin' hmax']
    · simp [validate, vFloat, numOk_full o _ hm hmin' hmax' hso]
  | float q =>
    obtain ⟨hm, hmin, hmax⟩ := hb q rfl
    obtain ⟨hmin', hmax'⟩ := bounds_of_eff_any false o _ hs hmin hmax
    have hso : signOk o.sign q = true := by simp [hs, signOk]
    refine ⟨.float q, .float q, ?_, ?_⟩
    · simp [deser, PyVal.isNone, dValidated, vFloat, numOk_noSign o _ hm hmin' hmax']
    · simp [validate, vFloat, numOk_full o _ hm hmin' hmax' hso]
  | _ => simp [typeIs] at hty

theorem exact_string (O : Oracles) (R S) (opts : DeserOpts) (ign : Bool)
    (hS : ∀ p s, startAnchored p = true → S p s = true → O.reMatch p s = true)
    (lo hi : Option Nat) (pat : Option String) (v : PyVal)
    (hf : exactScalar (.string lo hi pat) = true) (h : jsV R S (emit true (.string lo hi pat)) v = true) :
    Accepted O opts ign (.string lo hi pat) v := by
  simp only [emit] at h
  obtain ⟨s, rfl, hlo, hhi, hp⟩ := jsV_strKws_inv R S lo hi pat v h
  have hvs : vString O lo hi pat (.str s) = .ok (.str s) := by
    simp only [vString, hhi, hlo, Bool.not_true, Bool.false_eq_true, if_false]
    cases pat with
    | none => rfl
    | some p =>
      simp only [exactScalar] at hf
      simp [vPattern, hS p s hf (by simpa using hp)]
  exact ⟨.str s, .str s, by simp [deser, PyVal.isNone, dValidated, hvs], by simp [validate, hvs]⟩

theorem exact_boolean (O : Oracles) (R S) (opts : DeserOpts) (ign : Bool) (v : PyVal)
    (h : jsV R S (emit true .boolean) v = true) : Accepted O opts ign .boolean v := by
  simp only [emit] at h
  have hty : typeIs "boolean" v = true := by
    simpa [jsV, getKw, kw, keyIs, jsKws, kwOf, kwOfStr, kwNode, kwLeaf, typeOk] using h
  cases v with
  | bool b => exact ⟨.bool b, .bool b, by simp [deser, PyVal.isNone, dValidated, vBoolean], by simp [validate, vBoolean]⟩
  | _ => simp [typeIs] at hty

theorem pyMem_none_false : ∀ vs : List PyVal, vs.all enumScalar = true → PyVal.pyMem .none vs = false
  | [], _ => rfl
  | w :: ws, h => by
    simp only [List.all_cons, and_true_iff'] at h
    simp only [PyVal.pyMem, List.any_cons, Bool.or_eq_false_iff]
    refine ⟨?_, pyMem_none_false ws h.2⟩
    cases w <;> simp [enumScalar] at h <;> simp [PyVal.pyEq]

theorem exact_enumLit (O : Oracles) (R S) (opts : DeserOpts) (ign : Bool) (vs : List PyVal) (v : PyVal)
    (hf : exactScalar (.enumLit vs) = true) (h : jsV R S (emit true (.enumLit vs)) v = true) :
    Accepted O opts ign (.enumLit vs) v := by
  simp only [exactScalar, and_true_iff'] at hf
  simp only [emit] at h
  rw [jsV_enum] at h
  have hm : PyVal.pyMem v vs = true := jsonMem_pyMem v vs hf.2 h
  have hnn : v.isNone = false := by
    cases v <;> simp [PyVal.isNone]
    rw [pyMem_none_false vs hf.2] at hm
    simp at hm
  refine ⟨v, v, ?_, ?_⟩
  · simp [deser, hnn, dValidated, vEnumLit, hm]
  · simp [validate, vEnumLit, hm]

theorem exact_enumCls (O : Oracles) (R S) (opts : DeserOpts) (ign : Bool) (cls : String)
    (names : List String) (v : PyVal) (h : jsV R S (emit true (.enumCls cls names)) v = true) :
    Accepted O opts ign (.enumCls cls names) v := by
  simp only [emit] at h
  rw [jsV_enum] at h
  obtain ⟨n, rfl, hn⟩ := jsonMem_str_inv v names h
  have hn' : n ∈ names := by simpa using hn
  exact ⟨.enumv cls n, .enumv cls n, by simp [deser, PyVal.isNone, dEnumCls, hn'],
    by simp [validate, vEnumCls, hn']⟩

/-- **exactness on the scalar sub-fragment**: whatever the schema of the field admits is accepted
    by deserialization and by the constructor's validation -/
theorem exact_scalar (O : Oracles) (R : String → PyVal → Bool) (S : String → String → Bool)
    (hS : ∀ p s, startAnchored p = true → S p s = true → O.reMatch p s = true)
    (opts : DeserOpts) (ign : Bool) (f : FieldDecl) (v : PyVal)
    (hf : exactScalar f = true) (h : jsV R S (emit true f) v = true) : Accepted O opts ign f v := by
  cases f with
  | integer o => exact exact_integer O R S opts ign o v hf h
  | number o => exact exact_number O R S opts ign o v hf h
  | float o => exact exact_float O R S opts ign o v hf h
  | string lo hi pat => exact exact_string O R S opts ign hS lo hi pat v hf h
  | boolean => exact exact_boolean O R S opts ign v h
  | enumLit vs => exact exact_enumLit O R S opts ign vs v hf h
  | enumCls cls names => exact exact_enumCls O R S opts ign cls names v h
  | _ => simp [exactScalar] at hf

end Typedpy.Sch
