/-
  Lemmas/Sound.lean — the documented normal form of an admitted input conforms to the
  declaration (`admits f v → conforms f (norm f v)`): the induction behind C01.
-/
import TypedpyModel.Lemmas.Complete
import TypedpyModel.Spec.WfDecl
namespace Typedpy
open PyVal (pyEq pyMem pyNodup)

theorem seqElems_mkSeq (k : SeqKind) (xs : List PyVal) : seqElems k (mkSeq k xs) = some xs := by
  cases k <;> rfl

theorem and_true_iff {a b : Bool} : (a && b) = true ↔ a = true ∧ b = true := by
  cases a <;> cases b <;> simp

theorem cSeq_of_aSeq (k : SeqKind) (sz : SizeOpts) (pre a c : List PyVal → Bool)
    (n : List PyVal → List PyVal) (v : PyVal)
    (hpre : ∀ xs ys : List PyVal, xs.length = ys.length → pre xs = pre ys)
    (hlen : ∀ xs, a xs = true → (n xs).length = xs.length)
    (hc : ∀ xs, a xs = true → c (n xs) = true)
    (h : aSeq k sz pre a n v = true) : cSeq k sz pre c (nSeq k n v) = true := by
  unfold aSeq at h
  unfold cSeq nSeq
  cases hs : seqElems k v with
  | none => simp [hs] at h
  | some xs =>
    simp only [hs, and_true_iff] at h
    obtain ⟨⟨⟨⟨_, h2⟩, h3⟩, h4⟩, h5⟩ := h
    simp only [seqElems_mkSeq, and_true_iff]
    refine ⟨⟨⟨h5, ?_⟩, ?_⟩, hc xs h4⟩
    · rw [hlen xs h4]; exact h2
    · rw [hpre (n xs) xs (hlen xs h4)]; exact h3

theorem dedup_all (P : PyVal → Bool) : ∀ xs : List PyVal, xs.all P = true → (dedup xs).all P = true
  | [], _ => rfl
  | x :: xs, h => by
    simp only [List.all_cons, and_true_iff] at h
    simp only [dedup, List.all_cons, and_true_iff]
    refine ⟨h.1, ?_⟩
    have ih := dedup_all P xs h.2
    rw [List.all_eq_true] at ih ⊢
    intro y hy
    exact ih y (List.mem_filter.mp hy).1

theorem cSet_of_aSet (imm : Bool) (sz : SizeOpts) (a c : List PyVal → Bool)
    (n : List PyVal → List PyVal) (v : PyVal)
    (hc : ∀ xs, a xs = true → c (dedup (n xs)) = true)
    (h : aSet sz a n v = true) : cSet imm sz c (nSet imm n v) = true := by
  unfold aSet at h
  unfold cSet nSet
  cases v <;> simp at h
  rename_i fr xs
  obtain ⟨⟨_, h2⟩, h3⟩ := h
  simp only [and_true_iff]
  refine ⟨⟨?_, h3⟩, hc xs h2⟩
  cases imm <;> cases fr <;> rfl

theorem cTuple_of_aTuple (uniq : Bool) (pre a c : List PyVal → Bool)
    (n : List PyVal → List PyVal) (v : PyVal)
    (hpre : ∀ xs ys : List PyVal, xs.length = ys.length → pre xs = pre ys)
    (hlen : ∀ xs, a xs = true → (n xs).length = xs.length)
    (hc : ∀ xs, a xs = true → c (n xs) = true)
    (h : aTuple uniq pre a n v = true) : cTuple uniq pre c (nTuple n v) = true := by
  unfold aTuple at h
  unfold cTuple nTuple
  cases v <;> simp at h
  rename_i xs
  obtain ⟨⟨⟨_, h3⟩, h4⟩, h5⟩ := h
  simp only [and_true_iff]
  refine ⟨⟨h5, ?_⟩, hc xs h4⟩
  rw [hpre (n xs) xs (hlen xs h4)]; exact h3

theorem dictSet_all (P : PyVal × PyVal → Bool) (PK PV : PyVal → Bool)
    (hP : ∀ kv, P kv = (PK kv.1 && PV kv.2)) (k v : PyVal) (hk : PK k = true) (hv : PV v = true) :
    ∀ acc : List (PyVal × PyVal), acc.all P = true → (dictSet k v acc).all P = true
  | [], _ => by simp [dictSet, hP, hk, hv]
  | (k', v') :: rest, h => by
    simp only [List.all_cons, and_true_iff] at h
    simp only [dictSet]
    split
    · simp only [List.all_cons, and_true_iff]
      refine ⟨?_, h.2⟩
      have := h.1
      rw [hP] at this ⊢
      simp only [and_true_iff] at this ⊢
      exact ⟨this.1, hv⟩
    · simp only [List.all_cons, and_true_iff]
      exact ⟨h.1, dictSet_all P PK PV hP k v hk hv rest h.2⟩

theorem dictOfPairs_all (P : PyVal × PyVal → Bool) (PK PV : PyVal → Bool)
    (hP : ∀ kv, P kv = (PK kv.1 && PV kv.2)) (kvs : List (PyVal × PyVal))
    (h : kvs.all P = true) : (dictOfPairs kvs).all P = true := by
  unfold dictOfPairs
  suffices ∀ (l acc : List (PyVal × PyVal)), l.all P = true → acc.all P = true →
      (l.foldl (fun acc kv => dictSet kv.1 kv.2 acc) acc).all P = true from this kvs [] h rfl
  intro l
  induction l with
  | nil => intro acc _ ha; exact ha
  | cons kv rest ih =>
    intro acc hl ha
    simp only [List.all_cons, and_true_iff] at hl
    simp only [List.foldl_cons]
    have hkv := hl.1
    rw [hP] at hkv
    simp only [and_true_iff] at hkv
    exact ih _ hl.2 (dictSet_all P PK PV hP kv.1 kv.2 hkv.1 hkv.2 acc ha)

theorem cMap_of_aMap (sz : SizeOpts) (a c : List (PyVal × PyVal) → Bool)
    (n : List (PyVal × PyVal) → List (PyVal × PyVal)) (v : PyVal)
    (hc : ∀ kvs, a kvs = true → c (dictOfPairs (n kvs)) = true)
    (h : aMap sz a n v = true) : cMap sz c (nMap n v) = true := by
  unfold aMap at h
  unfold cMap nMap
  cases v <;> simp at h
  rename_i kvs
  obtain ⟨⟨_, h2⟩, h3⟩ := h
  simp only [and_true_iff]
  exact ⟨h3, hc kvs h2⟩

theorem all_map_of_all {α} (P Q : α → Bool) (g : α → α) (h : ∀ x, P x = true → Q (g x) = true) :
    ∀ xs : List α, xs.all P = true → (xs.map g).all Q = true
  | [], _ => rfl
  | x :: xs, hx => by
    simp only [List.all_cons, and_true_iff] at hx
    simp only [List.map_cons, List.all_cons, and_true_iff]
    exact ⟨h x hx.1, all_map_of_all P Q g h xs hx.2⟩

/-! ### keyword construction -/

theorem lookup_append {α} (k : String) (l1 l2 : List (String × α)) :
    lookup k (l1 ++ l2) = (lookup k l1).or (lookup k l2) := by
  induction l1 with
  | nil => simp [lookup]
  | cons kv rest ih =>
    obtain ⟨k', v⟩ := kv
    simp only [List.cons_append, lookup]
    split
    · simp
    · exact ih

theorem lookup_none_of_not_contains {α} (k : String) :
    ∀ l : List (String × α), (l.map (·.1)).contains k = false → lookup k l = none
  | [], _ => rfl
  | (k', v) :: rest, h => by
    simp only [List.map_cons, List.contains_cons, Bool.or_eq_false_iff] at h
    simp only [lookup, h.1]
    exact lookup_none_of_not_contains k rest h.2

theorem lookup_extras_none (c : ClassOpts) (names : List String) (kw : List (String × PyVal))
    (k : String) (hk : names.contains k = true) : lookup k (extrasOf c names kw) = none := by
  unfold extrasOf
  induction kw with
  | nil => rfl
  | cons kv rest ih =>
    simp only [List.filter_cons]
    split
    · rename_i hf
      simp only [lookup]
      have : (k == kv.1) = false := by
        cases hkk : (k == kv.1)
        · rfl
        · have hkeq : k = kv.1 := by simpa using hkk
          rw [hkeq] at hk
          simp only [Bool.and_eq_true, Bool.not_eq_true', hk] at hf
          exact absurd hf.1 (by simp)
      simp only [this]
      exact ih
    · exact ih

theorem normFields_names (O : Oracles) (c : ClassOpts) (defaults kw : List (String × PyVal)) :
    ∀ (fields : List (String × FieldDecl)) (k : String),
      ((normFields O c defaults kw fields).map (·.1)).contains k = true →
      (fields.map (·.1)).contains k = true
  | [], k, h => by simp [normFields] at h
  | (name, f) :: rest, k, h => by
    simp only [normFields] at h
    simp only [List.map_cons, List.contains_cons, Bool.or_eq_true]
    cases ha : argFor c defaults kw name with
    | none =>
      simp only [ha] at h
      exact Or.inr (normFields_names O c defaults kw rest k h)
    | some v =>
      simp only [ha, List.map_cons, List.contains_cons, Bool.or_eq_true] at h
      rcases h with h | h
      · exact Or.inl h
      · exact Or.inr (normFields_names O c defaults kw rest k h)

theorem lookup_normFields (O : Oracles) (c : ClassOpts) (defaults kw : List (String × PyVal)) :
    ∀ (fields : List (String × FieldDecl)), strNodup (fields.map (·.1)) = true →
      ∀ name f, (name, f) ∈ fields →
        lookup name (normFields O c defaults kw fields) = (argFor c defaults kw name).map (norm O f)
  | [], _, _, _, hm => by simp at hm
  | (n0, f0) :: rest, hnd, name, f, hm => by
    rw [List.map_cons, strNodup, and_true_iff] at hnd
    simp only [List.mem_cons] at hm
    simp only [normFields]
    rcases hm with hm | hm
    · have h1 : name = n0 := (Prod.mk.inj hm).1
      have h2 : f = f0 := (Prod.mk.inj hm).2
      subst h1 h2
      have hnot : (rest.map (·.1)).contains name = false := by
        cases h : (rest.map (·.1)).contains name
        · rfl
        · rw [h] at hnd; exact absurd hnd.1 (by simp)
      cases ha : argFor c defaults kw name with
      | none =>
        simp only [Option.map_none]
        apply lookup_none_of_not_contains
        cases h : ((normFields O c defaults kw rest).map (·.1)).contains name
        · rfl
        · have := normFields_names O c defaults kw rest name h
          rw [hnot] at this; cases this
      | some v => simp [lookup]
    · have hne : (name == n0) = false := by
        cases h : (name == n0)
        · rfl
        · have : name = n0 := by simpa using h
          subst this
          have : (rest.map (·.1)).contains name = true := by
            rw [List.contains_iff_mem]
            exact List.mem_map.mpr ⟨(name, f), hm, rfl⟩
          rw [this] at hnd; exact absurd hnd.1 (by simp)
      have ih := lookup_normFields O c defaults kw rest hnd.2 name f hm
      cases ha : argFor c defaults kw n0 with
      | none => exact ih
      | some v => simp only [lookup, hne]; exact ih

theorem mem_names_of_mem {α} (name : String) (f : α) (fields : List (String × α))
    (h : (name, f) ∈ fields) : (fields.map (·.1)).contains name = true := by
  rw [List.contains_iff_mem]
  exact List.mem_map.mpr ⟨(name, f), h, rfl⟩



theorem argFor_required (c : ClassOpts) (defaults kw : List (String × PyVal)) (r : String)
    (v : PyVal) (hr : c.required.contains r = true) (hk : lookup r kw = some v) :
    argFor c defaults kw r = some v := by
  unfold argFor
  rw [hk]
  simp only [hr, Bool.not_true, Bool.and_false, Bool.false_eq_true, if_false]

theorem fieldsConform_of (O : Oracles) (attrs : List (String × PyVal)) :
    ∀ fs : List (String × FieldDecl),
      (∀ name f, (name, f) ∈ fs → ∀ v, lookup name attrs = some v → conforms O f v = true) →
      fieldsConform O attrs fs = true
  | [], _ => rfl
  | (name, f) :: rest, h => by
    simp only [fieldsConform, and_true_iff]
    constructor
    · cases hl : lookup name attrs with
      | none => rfl
      | some v => exact h name f (by simp) v hl
    · exact fieldsConform_of O attrs rest (fun n g hm => h n g (by simp [hm]))

/-- the instance the documentation promises for accepted keyword arguments is well-formed -/
theorem wfAttrs_norm (O : Oracles) (c : ClassOpts) (fields : List (String × FieldDecl))
    (defaults kw : List (String × PyVal))
    (hnd : strNodup (fields.map (·.1)) = true)
    (hreq : c.required.all (fun r => (fields.map (·.1)).contains r) = true)
    (hshape : kwShapeOk c (fields.map (·.1)) kw = true)
    (hfields : ∀ name f v, (name, f) ∈ fields → argFor c defaults kw name = some v →
      conforms O f (norm O f v) = true) :
    wfAttrs c (fields.map (·.1))
      (extrasOf c (fields.map (·.1)) kw ++ normFields O c defaults kw fields)
      (fieldsConform O (extrasOf c (fields.map (·.1)) kw ++ normFields O c defaults kw fields)
        fields) = true := by
  have hlook : ∀ name f, (name, f) ∈ fields →
      lookup name (extrasOf c (fields.map (·.1)) kw ++ normFields O c defaults kw fields)
        = (argFor c defaults kw name).map (norm O f) := by
    intro name f hm
    rw [lookup_append, lookup_extras_none c _ kw name (mem_names_of_mem name f fields hm),
      lookup_normFields O c defaults kw fields hnd name f hm]
    rfl
  unfold kwShapeOk at hshape
  rw [and_true_iff] at hshape
  unfold wfAttrs
  simp only [and_true_iff]
  refine ⟨⟨?_, ?_⟩, ?_⟩
  · -- required present
    rw [List.all_eq_true]
    intro r hr
    have hrn : (fields.map (·.1)).contains r = true := (List.all_eq_true.mp hreq) r hr
    rw [List.contains_iff_mem] at hrn
    obtain ⟨⟨name, f⟩, hm, rfl⟩ := List.mem_map.mp hrn
    have hk := (List.all_eq_true.mp hshape.1) name hr
    cases hl : lookup name kw with
    | none => simp [hl] at hk
    | some v =>
      rw [hlook name f hm, argFor_required c defaults kw name v (by simpa using hr) hl]
      rfl
  · -- set fields conform
    apply fieldsConform_of
    intro name f hm v hv
    rw [hlook name f hm] at hv
    cases ha : argFor c defaults kw name with
    | none => simp [ha] at hv
    | some w =>
      simp only [ha, Option.map_some, Option.some.injEq] at hv
      subst hv
      exact hfields name f w hm ha
  · -- no undeclared attribute unless allowed
    cases hadd : c.addl
    · simp only [Bool.false_or]
      simp only [hadd, Bool.false_or] at hshape
      rw [List.all_append, and_true_iff]
      constructor
      · rw [List.all_eq_true]
        intro a ha
        unfold extrasOf at ha
        exact (List.all_eq_true.mp hshape.2) a (List.mem_filter.mp ha).1
      · rw [List.all_eq_true]
        intro a ha
        apply normFields_names O c defaults kw fields a.1
        rw [List.contains_iff_mem]
        exact List.mem_map.mpr ⟨a, ha, rfl⟩
    · rfl

theorem normZip_length (O : Oracles) : ∀ (fs : List FieldDecl) (xs : List PyVal),
    (normZip O fs xs).length = xs.length
  | [], xs => by simp [normZip]
  | _ :: _, [] => by simp [normZip]
  | f :: fs, x :: xs => by simp [normZip, normZip_length O fs xs]

theorem cFloat_nFloat (o v) (h : aFloat o v = true) : cFloat o (nFloat v) = true := by
  unfold aFloat at h; unfold cFloat nFloat
  cases v <;> simp_all

theorem cBoolean_nBoolean (v) (h : aBoolean v = true) : cBoolean (nBoolean v) = true := by
  unfold aBoolean at h; unfold cBoolean nBoolean
  cases v <;> simp_all
  rename_i s
  rcases h with h | h <;> simp [h]

theorem cEnumCls_nEnumCls (cls names v) (h : aEnumCls cls names v = true) :
    cEnumCls cls names (nEnumCls cls v) = true := by
  unfold aEnumCls at h; unfold cEnumCls nEnumCls
  cases v <;> simp_all

theorem admitsFields_mem (O : Oracles) (c : ClassOpts) (defaults kw : List (String × PyVal)) :
    ∀ fields, admitsFields O c defaults kw fields = true →
      ∀ name f v, (name, f) ∈ fields → argFor c defaults kw name = some v → admits O f v = true
  | [], _, _, _, _, hm, _ => by simp at hm
  | (n0, f0) :: rest, h, name, f, v, hm, ha => by
    simp only [admitsFields, and_true_iff] at h
    simp only [List.mem_cons] at hm
    rcases hm with hm | hm
    · have h1 : name = n0 := (Prod.mk.inj hm).1
      have h2 : f = f0 := (Prod.mk.inj hm).2
      subst h1 h2
      have := h.1
      rw [ha] at this
      exact this
    · exact admitsFields_mem O c defaults kw rest h.2 name f v hm ha

mutual
theorem norm_conforms (O : Oracles) : ∀ (f : FieldDecl) (v : PyVal),
    wfDecl f = true → admits O f v = true → conforms O f (norm O f v) = true
  | .number o, v, _, h => by simp only [admits, norm, conforms] at *; exact h
  | .integer o, v, _, h => by simp only [admits, norm, conforms] at *; exact h
  | .float o, v, _, h => by simp only [admits, norm, conforms] at *; exact cFloat_nFloat o v h
  | .string lo hi pat, v, _, h => by simp only [admits, norm, conforms] at *; exact h
  | .boolean, v, _, h => by simp only [admits, norm, conforms] at *; exact cBoolean_nBoolean v h
  | .enumLit vals, v, _, h => by simp only [admits, norm, conforms] at *; exact h
  | .enumCls cls names, v, _, h => by
    simp only [admits, norm, conforms] at *; exact cEnumCls_nEnumCls cls names v h
  | .seqAny k sz, v, _, h => by
    simp only [admits, norm, conforms] at *
    exact cSeq_of_aSeq k sz _ _ _ _ v (fun _ _ _ => rfl) (fun _ _ => rfl) (fun _ _ => rfl) h
  | .seqOf k f sz, v, hw, h => by
    simp only [admits, norm, conforms, wfDecl] at *
    exact cSeq_of_aSeq k sz _ _ _ _ v (fun _ _ _ => rfl) (fun xs _ => List.length_map _)
      (fun xs hx => all_map_of_all _ _ _ (fun x hx => norm_conforms O f x hw hx) xs hx) h
  | .seqPos k fs addl sz, v, hw, h => by
    simp only [admits, norm, conforms, wfDecl] at *
    exact cSeq_of_aSeq k sz _ _ _ _ v (fun xs ys he => by simp only [he])
      (fun xs _ => normZip_length O fs xs)
      (fun xs hx => normZip_conforms O fs xs hw hx) h
  | .setAny imm sz, v, _, h => by
    simp only [admits, norm, conforms] at *
    exact cSet_of_aSet imm sz _ _ _ v (fun _ _ => rfl) h
  | .setOf imm f sz, v, hw, h => by
    simp only [admits, norm, conforms, wfDecl] at *
    exact cSet_of_aSet imm sz _ _ _ v
      (fun xs hx => dedup_all _ _ (all_map_of_all _ _ _ (fun x hx => norm_conforms O f x hw hx) xs hx)) h
  | .tupleOf f uniq, v, hw, h => by
    simp only [admits, norm, conforms, wfDecl] at *
    exact cTuple_of_aTuple uniq _ _ _ _ v (fun _ _ _ => rfl) (fun xs _ => List.length_map _)
      (fun xs hx => all_map_of_all _ _ _ (fun x hx => norm_conforms O f x hw hx) xs hx) h
  | .tuplePos fs uniq, v, hw, h => by
    simp only [admits, norm, conforms, wfDecl] at *
    exact cTuple_of_aTuple uniq _ _ _ _ v (fun xs ys he => by simp only [he])
      (fun xs _ => normZip_length O fs xs)
      (fun xs hx => normZip_conforms O fs xs hw hx) h
  | .mapAny sz, v, _, h => by
    simp only [admits, norm, conforms] at *
    exact cMap_of_aMap sz _ _ _ v (fun _ _ => rfl) h
  | .mapOf kf vf sz, v, hw, h => by
    simp only [admits, norm, conforms, wfDecl, and_true_iff] at *
    refine cMap_of_aMap sz _ _ _ v (fun kvs hx => ?_) h
    refine dictOfPairs_all _ (conforms O kf) (conforms O vf) (fun _ => rfl) _ ?_
    refine all_map_of_all (fun kv => admits O kf kv.1 && admits O vf kv.2) _ _ (fun kv hkv => ?_) kvs hx
    simp only [and_true_iff] at hkv ⊢
    exact ⟨norm_conforms O kf kv.1 hw.1 hkv.1, norm_conforms O vf kv.2 hw.2 hkv.2⟩
  | .struct c fields defaults, v, hw, h => by
    simp only [admits, norm, conforms, wfDecl, and_true_iff] at *
    cases hin : c.inline
    · simp only [hin, Bool.false_eq_true, if_false] at h ⊢; exact h
    · simp only [hin, if_true] at h ⊢
      have key : ∀ kw, (kwShapeOk c (fields.map (·.1)) kw && admitsFields O c defaults kw fields) = true →
          cInline c (.inst c.name (extrasOf c (fields.map (·.1)) kw ++ normFields O c defaults kw fields))
            (fun attrs => wfAttrs c (fields.map (·.1)) attrs (fieldsConform O attrs fields)) = true := by
        intro kw hk
        rw [and_true_iff] at hk
        simp only [cInline, beq_self_eq_true, Bool.true_and]
        exact wfAttrs_norm O c fields defaults kw hw.1.1 hw.1.2 hk.1
          (fun name f w hm ha => fields_conform O c defaults kw fields hw.2 name f w hm
            (admitsFields_mem O c defaults kw fields hk.2 name f w hm ha))
      unfold aInline at h
      unfold nInline
      cases v <;> simp at h
      · rename_i kvs
        cases hk : kwOfDict kvs with
        | none => simp [hk] at h
        | some kw =>
          simp only [hk]
          apply key
          simp only [hk] at h
          exact h
      · apply key
        first | exact h | (simp only [and_true_iff]; exact h)
  | .anyOf fs, v, hw, h => by
    simp only [admits, norm, conforms, wfDecl] at *
    exact normAny_conforms O fs v hw h
  | .oneOf fs, v, _, h => by simp only [admits, norm, conforms] at *; exact h
  | .allOf fs, v, _, h => by simp only [admits, norm, conforms] at *; exact h
  | .notF fs, v, _, h => by simp only [admits, norm, conforms] at *; exact h
  | .noneF, v, _, h => by simp only [admits, norm, conforms] at *; exact h
  | .anything, v, _, _ => by simp only [conforms]

theorem normZip_conforms (O : Oracles) : ∀ (fs : List FieldDecl) (xs : List PyVal),
    wfDecls fs = true → admitsZip O fs xs = true → conformsZip O fs (normZip O fs xs) = true
  | [], xs, _, _ => by simp only [conformsZip]
  | _ :: _, [], _, _ => by simp only [normZip, conformsZip]
  | f :: fs, x :: xs, hw, h => by
    simp only [wfDecls, admitsZip, and_true_iff] at hw h
    simp only [normZip, conformsZip, and_true_iff]
    exact ⟨norm_conforms O f x hw.1 h.1, normZip_conforms O fs xs hw.2 h.2⟩

theorem normAny_conforms (O : Oracles) : ∀ (fs : List FieldDecl) (v : PyVal),
    wfDecls fs = true → admitsAny O fs v = true → conformsAny O fs (normAny O fs v) = true
  | [], v, _, h => by simp [admitsAny] at h
  | f :: fs, v, hw, h => by
    simp only [wfDecls, and_true_iff] at hw
    simp only [admitsAny, Bool.or_eq_true] at h
    simp only [normAny, conformsAny, Bool.or_eq_true]
    cases ha : admits O f v
    · simp only [Bool.false_eq_true, if_false]
      rcases h with h | h
      · rw [ha] at h; cases h
      · exact Or.inr (normAny_conforms O fs v hw.2 h)
    · simp only [if_true]
      exact Or.inl (norm_conforms O f v hw.1 ha)

theorem fields_conform (O : Oracles) (c : ClassOpts) (defaults kw : List (String × PyVal)) :
    ∀ (fields : List (String × FieldDecl)), wfFields fields = true →
      ∀ name f v, (name, f) ∈ fields → admits O f v = true → conforms O f (norm O f v) = true
  | [], _, _, _, _, hm, _ => by simp at hm
  | (n0, f0) :: rest, hw, name, f, v, hm, ha => by
    simp only [wfFields, and_true_iff] at hw
    simp only [List.mem_cons] at hm
    rcases hm with hm | hm
    · have h2 : f = f0 := (Prod.mk.inj hm).2
      subst h2
      exact norm_conforms O f v hw.1 ha
    · exact fields_conform O c defaults kw rest hw.2 name f v hm ha
end

end Typedpy
