/-
  Lemmas/TextClean.lean — the emitted module contains no NUL and no carriage return whenever its
  classes are well-formed (names are identifiers, numbers are decimal literals, `repr` escapes
  control characters, the docstring escaping rewrites CR and the description has no NUL).
-/
import TypedpyModel.Lemmas.SchemaEmit
namespace Typedpy.Emit
open Typedpy.PyGram Typedpy.PyLex

/-! ### the emitted text contains no NUL and no carriage return -/

def cleanC (c : Char) : Prop := c ≠ cNUL ∧ c ≠ cCR
def Clean (l : List Char) : Prop := ∀ c ∈ l, cleanC c
instance : DecidablePred cleanC := fun c => by unfold cleanC; infer_instance

theorem clean_nil : Clean [] := fun _ h => by cases h
theorem clean_append {a b : List Char} (ha : Clean a) (hb : Clean b) : Clean (a ++ b) := by
  intro c hc
  rcases List.mem_append.1 hc with h | h
  · exact ha c h
  · exact hb c h
theorem clean_cons {c : Char} {l : List Char} (hc : cleanC c) (hl : Clean l) : Clean (c :: l) := by
  intro d hd
  rcases List.mem_cons.1 hd with rfl | h
  · exact hc
  · exact hl d h

theorem cleanC_of_ge {c : Char} (h : 32 ≤ c.toNat) : cleanC c := by
  constructor <;> (rintro rfl; revert h; decide)

theorem idContA_clean {c : Char} (h : idContA c = true) : cleanC c := by
  constructor <;> (rintro rfl; revert h; decide)

theorem idCont_clean (X : Ora) {c : Char} (h : idCont X c = true) : cleanC c := by
  by_cases hc : c.toNat < 128
  · rw [idCont_ascii X c hc] at h; exact idContA_clean h
  · constructor <;> (rintro rfl; exact hc (by decide))

theorem idStart_clean (X : Ora) {c : Char} (h : idStart X c = true) : cleanC c := by
  by_cases hc : c.toNat < 128
  · rw [idStart_ascii X c hc] at h; exact idContA_clean (by simp [idContA, h])
  · constructor <;> (rintro rfl; exact hc (by decide))

theorem wordX_clean (X : Ora) {w : List Char} (h : isWordX X w = true) : Clean w := by
  match w, h with
  | c :: r, h =>
    simp only [isWordX, Bool.and_eq_true, List.all_eq_true] at h
    intro d hd
    rcases List.mem_cons.1 hd with rfl | hd
    · exact idStart_clean X h.1
    · exact idCont_clean X (h.2 d hd)

theorem word_clean {w : List Char} (h : isWord w = true) : Clean w :=
  wordX_clean Ora.ascii (isWordX_of_ascii Ora.ascii h)

theorem numNext_clean {p p' : NumPhase} {c : Char} (h : numNext p c = .cont p') : cleanC c := by
  constructor <;> (rintro rfl; cases p <;> cases p' <;> revert h <;> decide)

theorem numScan_clean : ∀ (t : List Char) (p : NumPhase), numScan p t = true → Clean t
  | [], _, _ => clean_nil
  | c :: t, p, h => by
    simp only [numScan] at h
    cases hn : numNext p c with
    | cont p' =>
      simp only [hn] at h
      exact clean_cons (numNext_clean hn) (numScan_clean t p' h)
    | fin => simp [hn] at h
    | bad => simp [hn] at h

theorem num_clean {t : List Char} (h : isNumText t = true) : Clean t := by
  match t, h with
  | c :: r, h =>
    simp only [isNumText, Bool.and_eq_true] at h
    refine clean_cons ?_ (numScan_clean r _ h.2)
    constructor <;> (rintro rfl; exact absurd h.1 (by decide))

theorem repr_clean (pr : Char → Bool) (cs : List Char) : Clean (pyReprL pr cs) := by
  have hq : reprQuote cs = cSQ ∨ reprQuote cs = cDQ := by
    unfold reprQuote; split <;> simp
  have hqc : cleanC (reprQuote cs) := by rcases hq with h | h <;> rw [h] <;> exact ⟨by decide, by decide⟩
  simp only [pyReprL]
  refine clean_cons hqc (clean_append ?_ (clean_cons hqc clean_nil))
  intro c hc
  exact cleanC_of_ge (reprBody_ge pr _ hq cs c hc)

theorem doc_clean (d : List Char) : Clean (docWrapL d) := by
  have hA : Clean ([cDQ, cDQ, cDQ, cLF] ++ indent4) := by unfold Clean; decide
  have hB : Clean ([cLF] ++ indent4 ++ [cDQ, cDQ, cDQ]) := by unfold Clean; decide
  have hE : Clean (docEsc 0 d) := by
    intro c hc
    obtain ⟨h1, h2⟩ := docEsc_clean d 0 c hc
    exact ⟨h2, h1⟩
  have e : docWrapL d = ([cDQ, cDQ, cDQ, cLF] ++ indent4) ++ (docEsc 0 d ++ ([cLF] ++ indent4 ++ [cDQ, cDQ, cDQ])) := by
    simp [docWrapL, List.append_assoc]
  rw [e]
  exact clean_append hA (clean_append hE hB)

theorem clean_lit {l : List Char} (h : l.all (fun c => decide (cleanC c)) = true) : Clean l := by
  intro c hc
  have := List.all_eq_true.1 h c hc
  simpa using this

theorem asciiIdent_clean (X : Ora) {n : List Char} (h : identOk X n = true) : Clean n :=
  wordX_clean X (identOk_word X h).1

mutual
theorem render_clean (X : Ora) (pr : Char → Bool) : ∀ (e : PyExpr), wf X e = true → Clean (render pr e)
  | .name n, h => by
    simp only [wf] at h
    simp only [render]
    exact asciiIdent_clean X h
  | .const w, h => by
    simp only [wf, Bool.and_eq_true] at h
    simp only [render]
    exact word_clean (constKw_word h.1 h.2).1
  | .num t, h => by
    simp only [wf] at h
    simp only [render]
    exact num_clean h
  | .negNum t, h => by
    simp only [wf] at h
    simp only [render]
    exact clean_cons ⟨by decide, by decide⟩ (num_clean h)
  | .strLit cs, _ => by
    simp only [render]
    exact repr_clean pr cs
  | .call f kws, h => by
    simp only [wf, Bool.and_eq_true] at h
    simp only [render]
    exact clean_append (asciiIdent_clean X h.1.1) (clean_cons ⟨by decide, by decide⟩
      (clean_append (renderKws_clean X pr kws h.2 true) (clean_lit (by decide))))
  | .list xs, h => by
    simp only [wf] at h
    simp only [render]
    exact clean_cons ⟨by decide, by decide⟩ (clean_append (renderL_clean X pr xs h true) (clean_lit (by decide)))
  | .dict kvs, h => by
    simp only [wf] at h
    simp only [render]
    exact clean_cons ⟨by decide, by decide⟩ (clean_append (renderKVs_clean X pr kvs h true) (clean_lit (by decide)))
  | .lam b, h => by
    simp only [wf] at h
    simp only [render]
    exact clean_append (clean_lit (by decide)) (clean_cons ⟨by decide, by decide⟩
      (clean_cons ⟨by decide, by decide⟩ (render_clean X pr b h)))
  | .bad, h => by simp [wf] at h
theorem renderL_clean (X : Ora) (pr : Char → Bool) : ∀ (xs : List PyExpr), wfL X xs = true → ∀ first, Clean (renderL pr first xs)
  | [], _, _ => clean_nil
  | x :: xs, h, first => by
    simp only [wfL, Bool.and_eq_true] at h
    simp only [renderL]
    refine clean_append ?_ (clean_append (render_clean X pr x h.1) (renderL_clean X pr xs h.2 false))
    cases first
    · exact clean_lit (by decide)
    · exact clean_nil
theorem renderKws_clean (X : Ora) (pr : Char → Bool) : ∀ (kws : List (List Char × PyExpr)), wfKws X kws = true →
    ∀ first, Clean (renderKws pr first kws)
  | [], _, _ => clean_nil
  | (k, v) :: r, h, first => by
    simp only [wfKws, Bool.and_eq_true] at h
    simp only [renderKws]
    refine clean_append ?_ (clean_append (wordX_clean X (targetName_word X h.1.1).1)
      (clean_cons ⟨by decide, by decide⟩ (clean_append (render_clean X pr v h.1.2) (renderKws_clean X pr r h.2 false))))
    cases first
    · exact clean_lit (by decide)
    · exact clean_nil
theorem renderKVs_clean (X : Ora) (pr : Char → Bool) : ∀ (kvs : List (PyExpr × PyExpr)), wfKVs X kvs = true →
    ∀ first, Clean (renderKVs pr first kvs)
  | [], _, _ => clean_nil
  | (k, v) :: r, h, first => by
    simp only [wfKVs, Bool.and_eq_true] at h
    simp only [renderKVs]
    refine clean_append ?_ (clean_append (render_clean X pr k h.1.1) (clean_cons ⟨by decide, by decide⟩
      (clean_cons ⟨by decide, by decide⟩ (clean_append (render_clean X pr v h.1.2) (renderKVs_clean X pr r h.2 false)))))
    cases first
    · exact clean_lit (by decide)
    · exact clean_nil
end

theorem renderItem_clean (X : Ora) (pr : Char → Bool) (it : Item) (h : wfItem X it = true) : Clean (renderItem pr it) := by
  have hi : Clean indent4 := clean_lit (by decide)
  cases it with
  | blank => exact clean_nil
  | pass => exact clean_append hi (clean_lit (by decide))
  | doc d =>
    exact clean_append hi (clean_append (doc_clean d) (clean_lit (by decide)))
  | ann n e =>
    simp only [wfItem, Bool.and_eq_true] at h
    exact clean_append hi (clean_append (wordX_clean X (targetName_word X h.1).1)
      (clean_cons ⟨by decide, by decide⟩ (clean_cons ⟨by decide, by decide⟩ (render_clean X pr e h.2))))
  | assign n e =>
    simp only [wfItem, Bool.and_eq_true] at h
    exact clean_append hi (clean_append (wordX_clean X (targetName_word X h.1).1)
      (clean_cons ⟨by decide, by decide⟩ (clean_cons ⟨by decide, by decide⟩ (clean_cons ⟨by decide, by decide⟩
        (render_clean X pr e h.2)))))

theorem renderItems_clean (X : Ora) (pr : Char → Bool) : ∀ (items : List Item), items.all (wfItem X) = true →
    Clean (renderItems pr items)
  | [], _ => clean_nil
  | it :: r, h => by
    simp only [List.all_cons, Bool.and_eq_true] at h
    exact clean_cons ⟨by decide, by decide⟩ (clean_append (renderItem_clean X pr it h.1) (renderItems_clean X pr r h.2))

theorem classText_clean (X : Ora) (O : EOra) (c : ClassSrc) (h : classOk X O c = true) :
    Clean (classText O c.name c.desc c.schema) := by
  simp only [classOk, Bool.and_eq_true] at h
  simp only [classText, classRender, headerText]
  exact clean_append (clean_append (clean_lit (by decide)) (clean_cons ⟨by decide, by decide⟩
    (clean_append (asciiIdent_clean X h.1.1) (clean_lit (by decide))))) (renderItems_clean X O.pr _ h.1.2)

theorem joinClasses_clean (X : Ora) (O : EOra) : ∀ (defs : List ClassSrc), (∀ c ∈ defs, classOk X O c = true) →
    Clean (joinClasses O defs)
  | [], _ => clean_nil
  | [c], h => by simpa [joinClasses] using classText_clean X O c (h c (by simp))
  | c :: c' :: r, h => by
    simp only [joinClasses]
    exact clean_append (classText_clean X O c (h c (by simp))) (clean_append (clean_lit (by decide))
      (joinClasses_clean X O (c' :: r) (fun x hx => h x (by simp [hx]))))

theorem moduleText_clean (X : Ora) (O : EOra) (write : Bool) (defs : List ClassSrc) (main : ClassSrc)
    (hd : ∀ c ∈ defs, classOk X O c = true) (hm : classOk X O main = true) :
    textClean (moduleText O write defs main) = true := by
  have hc : Clean (moduleText O write defs main) := by
    simp only [moduleText]
    refine clean_append (clean_lit (by decide)) (clean_append (clean_lit (by decide)) (clean_append ?_
      (clean_append (classText_clean X O main hm) (clean_lit (by decide)))))
    split
    · exact clean_nil
    · refine clean_append (joinClasses_clean X O defs hd) ?_
      cases write <;> exact clean_lit (by decide)
  simp only [textClean, Bool.and_eq_true, Bool.not_eq_true', List.contains_eq_mem, decide_eq_false_iff_not]
  exact ⟨fun h => (hc _ h).1 rfl, fun h => (hc _ h).2 rfl⟩

end Typedpy.Emit
