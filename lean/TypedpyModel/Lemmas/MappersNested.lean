/-
  Lemmas/MappersNested.lean — C07, nested levels of the *serializer's* aggregate: the dict-of-dicts
  algorithm (`add` with `for_serialization=True`, incl. the "latest mapper already maps to this value"
  branch on nested entries) agrees at every depth with the pointwise specification over mapper lists
  (`AgreesFs`), hence `Sem.ser = Spec.specSer` at every level.
-/
import TypedpyModel.Lemmas.Mappers
namespace Typedpy.Mappers

/-! ### small facts -/

theorem c07_keyOf_append (S : StrFns) (L : List Mapper) (m : Mapper) (f : String) :
    keyOf S (L ++ [m]) f = stepKey S m f (keyOf S L f) := by
  simp [keyOf, List.foldl_append]

theorem c07_nestedList_append (own : List Mapper) (n : String) (L : List Mapper) (m : Mapper) :
    nestedList own n (L ++ [m]) = nestedList own n L ++ (through n m).toList := by
  simp [nestedList, List.filterMap_append, List.filterMap_cons]
  cases through n m <;> simp

theorem c07_addKey_ser (S : StrFns) (m : Mapper) (k : MKey) (v : MV) : addKey S true m k v = k := by
  unfold addKey
  cases k with
  | fld n => rfl
  | nest n =>
    cases v with
    | key s => rfl
    | dns => rfl
    | sub p => simp [newNest]

/-- with `for_serialization=True` nested entries keep their key -/
theorem c07_lookupR_add_ser (S : StrFns) (m : Mapper) (k : MKey) :
    ∀ d : MDict, lookupR k (add S true m d) = (lookupR k d).map (addVal S true m k)
  | [] => by simp [add, lookupR]
  | (k', v) :: r => by
    simp only [add, lookupR_cons, c07_lookupR_add_ser S m k r, c07_addKey_ser]
    cases lookupR k r with
    | some x => rfl
    | none =>
      simp only [Option.map_none]
      by_cases hk : k' = k
      · subst hk; simp
      · simp [hk]

theorem c07_subOf_ser (m : Mapper) (n : String) : subOf m n n = through n m := by
  cases m with
  | lower => rfl
  | camel => rfl
  | dict d =>
    simp only [subOf, through]
    cases lookupR (MKey.nest n) d with
    | none => rfl
    | some v => cases v <;> rfl

theorem c07_addVal_nest_ser (S : StrFns) (m : Mapper) (n : String) (p : MDict) :
    addVal S true m (.nest n) (.sub p) =
      if hit m (.nest n) (.sub p) then .sub p
      else match through n m with
        | some m' => .sub (norm (add S true m' p))
        | none => .sub p := by
  simp only [addVal, newNest, if_true, c07_subOf_ser, subResult]
  split
  · rfl
  · cases through n m <;> rfl

/-! ### Python dict equality gives equal lookups -/

theorem c07_dSub_mem : ∀ (a b : MDict), dSub a b = true → ∀ k v, (k, v) ∈ a →
    ∃ w, lookupR k b = some w ∧ mvEq v w = true
  | [], _, _, _, _, h => by cases h
  | (k', v') :: r, b, hd, k, v, h => by
    simp only [dSub, and_true_iff'] at hd
    rcases List.mem_cons.mp h with h | h
    · rcases Prod.mk.inj h with ⟨h1, h2⟩
      subst h1; subst h2
      cases hl : lookupR k b with
      | none => rw [hl] at hd; simp at hd
      | some w => rw [hl] at hd; exact ⟨w, rfl, hd.1⟩
    · exact c07_dSub_mem r b hd.2 k v h

theorem c07_mvEq_sub {p : MDict} {w : MV} (h : mvEq (.sub p) w = true) :
    ∃ x, w = .sub x ∧ dSub p x = true := by
  cases w with
  | key s => simp [mvEq] at h
  | dns => simp [mvEq] at h
  | sub x =>
    simp only [mvEq, and_true_iff'] at h
    exact ⟨x, rfl, h.2⟩

theorem c07_mvEq_key {s : String} {w : MV} (h : mvEq (.key s) w = true) : w = .key s := by
  cases w with
  | key t => simp [mvEq] at h; rw [h]
  | dns => simp [mvEq] at h
  | sub x => simp [mvEq] at h

theorem c07_mvEq_dns {w : MV} (h : mvEq .dns w = true) : w = .dns := by
  cases w with
  | key t => simp [mvEq] at h
  | dns => rfl
  | sub x => simp [mvEq] at h

theorem c07_hit_nest {m : Mapper} {n : String} {p : MDict} (h : hit m (.nest n) (.sub p) = true) :
    ∃ x, through n m = some (.dict x) ∧ dSub p x = true := by
  cases m with
  | lower => simp [hit] at h
  | camel => simp [hit] at h
  | dict d =>
    simp only [hit] at h
    cases hl : lookupR (MKey.nest n) d with
    | none => rw [hl] at h; simp at h
    | some w =>
      rw [hl] at h
      obtain ⟨x, hw, hx⟩ := c07_mvEq_sub h
      subst hw
      exact ⟨x, by simp [through, hl], hx⟩

/-- a dict mapper that *equals* (as a Python dict) the current entry of a field leaves the entry as it is -/
theorem c07_stepKey_self (S : StrFns) (p x : MDict) (hx : dSub p x = true) (a : String) (v : MV)
    (hv : lookupR (.fld a) p = some v) : stepKey S (.dict x) a v = v := by
  cases v with
  | dns => rfl
  | sub q => rfl
  | key s =>
    obtain ⟨w, hw, he⟩ := c07_dSub_mem p x hx _ _ (mem_of_lookupR _ _ p hv)
    have := c07_mvEq_key he
    subst this
    simp [stepKey, mapsTo, hw]

/-! ### `AgreesFs` helpers -/

theorem c07_agreesFs_of_forall (S : StrFns) (d : MDict) (L : List Mapper) :
    ∀ fs : List Fld, (∀ f ∈ fs, AgreesF S d L f) → AgreesFs S d L fs
  | [], _ => by simp [AgreesFs]
  | f :: fs, h => by
    simp only [AgreesFs]
    exact ⟨h f (List.mem_cons_self ..), c07_agreesFs_of_forall S d L fs
      (fun g hg => h g (List.mem_cons_of_mem _ hg))⟩

theorem c07_agreesF_of_mem (S : StrFns) (d : MDict) (L : List Mapper) :
    ∀ fs : List Fld, AgreesFs S d L fs → ∀ f ∈ fs, AgreesF S d L f
  | [], _, _, h => by cases h
  | g :: fs, ha, f, h => by
    simp only [AgreesFs] at ha
    rcases List.mem_cons.mp h with h | h
    · subst h; exact ha.1
    · exact c07_agreesF_of_mem S d L fs ha.2 f h

/-! ### applying a dict equal to the current aggregate changes nothing, at any depth -/

mutual
theorem c07_agrees_self_fs (S : StrFns) :
    ∀ (fs : List Fld) (p x : MDict) (L : List Mapper), dSub p x = true →
      AgreesFs S p L fs → AgreesFs S p (L ++ [.dict x]) fs
  | [], _, _, _, _, _ => by simp [AgreesFs]
  | f :: fs, p, x, L, hx, h => by
    simp only [AgreesFs] at h ⊢
    exact ⟨c07_agrees_self_f S f p x L hx h.1, c07_agrees_self_fs S fs p x L hx h.2⟩
theorem c07_agrees_self_f (S : StrFns) :
    ∀ (f : Fld) (p x : MDict) (L : List Mapper), dSub p x = true →
      AgreesF S p L f → AgreesF S p (L ++ [.dict x]) f
  | .scalar n o, p, x, L, hx, h => by
    simp only [AgreesF] at h ⊢
    rw [c07_keyOf_append, c07_stepKey_self S p x hx n _ h]; exact h
  | .mapped n o ci fs, p, x, L, hx, h => by
    simp only [AgreesF] at h ⊢
    rw [c07_keyOf_append, c07_stepKey_self S p x hx n _ h]; exact h
  | .nested n o sh own fs, p, x, L, hx, h => by
    simp only [AgreesF] at h ⊢
    obtain ⟨h1, q, hq, hrec⟩ := h
    refine ⟨by rw [c07_keyOf_append, c07_stepKey_self S p x hx n _ h1]; exact h1, q, hq, ?_⟩
    obtain ⟨w, hw, he⟩ := c07_dSub_mem p x hx _ _ (mem_of_lookupR _ _ p hq)
    obtain ⟨y, hy, hxy⟩ := c07_mvEq_sub he
    subst hy
    have ht : through n (.dict x) = some (.dict y) := by simp [through, hw]
    rw [c07_nestedList_append, ht]
    exact c07_agrees_self_fs S fs q y _ hxy hrec
end

/-! ### one aggregation round, serializer side -/

mutual
theorem c07_agrees_step_fs (S : StrFns) :
    ∀ (fs : List Fld) (m : Mapper) (d : MDict) (L : List Mapper),
      AgreesFs S d L fs → AgreesFs S (norm (add S true m d)) (L ++ [m]) fs
  | [], _, _, _, _ => by simp [AgreesFs]
  | f :: fs, m, d, L, h => by
    simp only [AgreesFs] at h ⊢
    exact ⟨c07_agrees_step_f S f m d L h.1, c07_agrees_step_fs S fs m d L h.2⟩
theorem c07_agrees_step_f (S : StrFns) :
    ∀ (f : Fld) (m : Mapper) (d : MDict) (L : List Mapper),
      AgreesF S d L f → AgreesF S (norm (add S true m d)) (L ++ [m]) f
  | .scalar n o, m, d, L, h => by
    simp only [AgreesF] at h ⊢
    rw [lookupR_norm, lookupR_add_fld, h, c07_keyOf_append]; rfl
  | .mapped n o ci fs, m, d, L, h => by
    simp only [AgreesF] at h ⊢
    rw [lookupR_norm, lookupR_add_fld, h, c07_keyOf_append]; rfl
  | .nested n o sh own fs, m, d, L, h => by
    simp only [AgreesF] at h ⊢
    obtain ⟨h1, p, hp, hrec⟩ := h
    refine ⟨by rw [lookupR_norm, lookupR_add_fld, h1, c07_keyOf_append]; rfl, ?_⟩
    rw [lookupR_norm, c07_lookupR_add_ser, hp]
    simp only [Option.map_some, c07_addVal_nest_ser]
    by_cases hh : hit m (.nest n) (.sub p) = true
    · rw [if_pos hh]
      obtain ⟨x, hx, hpx⟩ := c07_hit_nest hh
      refine ⟨p, rfl, ?_⟩
      rw [c07_nestedList_append, hx]
      exact c07_agrees_self_fs S fs p x _ hpx hrec
    · rw [if_neg hh]
      cases ht : through n m with
      | none =>
        refine ⟨p, rfl, ?_⟩
        rw [c07_nestedList_append, ht]
        simpa using hrec
      | some m' =>
        refine ⟨_, rfl, ?_⟩
        rw [c07_nestedList_append, ht]
        exact c07_agrees_step_fs S fs m' p _ hrec
end

theorem c07_agrees_foldAdd (S : StrFns) (fs : List Fld) :
    ∀ (Ms : List Mapper) (d : MDict) (L : List Mapper),
      AgreesFs S d L fs → AgreesFs S (foldAdd S true Ms d) (L ++ Ms) fs
  | [], d, L, h => by simpa [foldAdd] using h
  | m :: Ms, d, L, h => by
    have := c07_agrees_foldAdd S fs Ms (norm (add S true m d)) (L ++ [m]) (c07_agrees_step_fs S fs m d L h)
    simpa [foldAdd, List.append_assoc] using this

/-! ### the base mapper -/

theorem c07_lookupR_nest_baseFld_ne (S : StrFns) (b : Bool) (n : String) (fl : Fld) (h : fl.name ≠ n) :
    lookupR (.nest n) (baseFld S b fl) = none := by
  cases fl with
  | scalar m o => simp [baseFld, lookupR]
  | mapped m o ci fs => simp [baseFld, lookupR]
  | nested m o sh own fs =>
    simp only [Fld.name] at h
    simp [baseFld, lookupR, h]

theorem c07_lookupR_nest_baseFields_none (S : StrFns) (b : Bool) (n : String) :
    ∀ fs : List Fld, n ∉ fs.map Fld.name → lookupR (.nest n) (baseFields S b fs) = none
  | [], _ => by simp [baseFields, lookupR]
  | fl :: rest, h => by
    simp only [List.map_cons, List.mem_cons, not_or] at h
    simp only [baseFields, lookupR_append, c07_lookupR_nest_baseFields_none S b n rest h.2]
    exact c07_lookupR_nest_baseFld_ne S b n fl (fun e => h.1 e.symm)

/-- the `"<n>._mapper"` entry of the base mapper is the own aggregate of the class nested under `n` -/
theorem c07_lookupR_nest_baseFields (S : StrFns) (b : Bool) (n : String) (o : Bool) (sh : Shape)
    (own : CInfo) (fs' : List Fld) :
    ∀ fs : List Fld, nodupB (fs.map Fld.name) = true → Fld.nested n o sh own fs' ∈ fs →
      lookupR (.nest n) (baseFields S b fs) = some (.sub (foldAdd S b (own.lst b) (baseFields S b fs')))
  | [], _, h => by cases h
  | fl :: rest, hn, h => by
    simp only [List.map_cons] at hn
    rw [nodupB_cons] at hn
    simp only [baseFields, lookupR_append]
    rcases List.mem_cons.mp h with h | h
    · subst h
      simp only [Fld.name] at hn
      rw [c07_lookupR_nest_baseFields_none S b n rest hn.1]
      simp [baseFld, lookupR]
    · rw [c07_lookupR_nest_baseFields S b n o sh own fs' rest hn.2 h]

mutual
theorem c07_base_agrees_fs (S : StrFns) :
    ∀ (sub full : List Fld), (∀ f ∈ sub, f ∈ full) → nodupB (full.map Fld.name) = true →
      subsOK sub = true → AgreesFs S (baseFields S true full) [] sub
  | [], _, _, _, _ => by simp [AgreesFs]
  | f :: sub, full, hs, hn, hw => by
    simp only [subsOK, and_true_iff'] at hw
    simp only [AgreesFs]
    exact ⟨c07_base_agrees_f S f full (hs f (List.mem_cons_self ..)) hn hw.1,
      c07_base_agrees_fs S sub full (fun g hg => hs g (List.mem_cons_of_mem _ hg)) hn hw.2⟩
theorem c07_base_agrees_f (S : StrFns) :
    ∀ (f : Fld) (full : List Fld), f ∈ full → nodupB (full.map Fld.name) = true →
      subOK f = true → AgreesF S (baseFields S true full) [] f
  | .scalar n o, full, hm, _, _ => by
    simp only [AgreesF, lookupR_baseFields, keyOf, List.foldl_nil]
    have : full.any (fun fl => fl.name == n) = true :=
      List.any_eq_true.mpr ⟨_, hm, by simp [Fld.name]⟩
    simp [this]
  | .mapped n o ci fs, full, hm, _, _ => by
    simp only [AgreesF, lookupR_baseFields, keyOf, List.foldl_nil]
    have : full.any (fun fl => fl.name == n) = true :=
      List.any_eq_true.mpr ⟨_, hm, by simp [Fld.name]⟩
    simp [this]
  | .nested n o sh own fs, full, hm, hn, hw => by
    simp only [subOK, and_true_iff'] at hw
    simp only [AgreesF, lookupR_baseFields, keyOf, List.foldl_nil]
    have : full.any (fun fl => fl.name == n) = true :=
      List.any_eq_true.mpr ⟨_, hm, by simp [Fld.name]⟩
    refine ⟨by simp [this], _, c07_lookupR_nest_baseFields S true n o sh own fs full hn hm, ?_⟩
    have hb := c07_base_agrees_fs S fs fs (fun g hg => hg) hw.1 hw.2
    have := c07_agrees_foldAdd S fs own.ser _ [] hb
    simpa [nestedList, CInfo.lst] using this
end

/-- **The serializer's aggregate is the pointwise specification at every depth**: for every class tree
    with distinct field names per level, every mapper list, override and flag -/
theorem c07_aggregate_agrees (S : StrFns) (own : List Mapper) (fs : List Fld) (ov : Option MDict)
    (camel : Bool) (hw : wfFields fs = true) :
    AgreesFs S (aggregate S true own fs ov camel) (effList own ov camel) fs := by
  simp only [wfFields, and_true_iff'] at hw
  have hb := c07_base_agrees_fs S fs fs (fun g hg => hg) hw.1 hw.2
  have := c07_agrees_foldAdd S fs (effList own ov camel) _ [] hb
  simpa [aggregate] using this

/-! ### `ser = specSer` -/

theorem c07_findFld_mem {fs : List Fld} {f : String} {fl : Fld} (h : findFld fs f = some fl) :
    fl ∈ fs ∧ fl.name = f := by
  unfold findFld at h
  have h1 := List.mem_of_find?_eq_some h
  have h2 := List.find?_some h
  exact ⟨h1, by simpa using h2⟩

theorem c07_ser_scalar (S : StrFns) (camel : Bool) (m : MDict) (v : J) (h : isScalarJ v = true) :
    ser S camel m v = v := by
  cases v <;> simp_all [ser, isScalarJ]

mutual
theorem c07_ser_eq_spec (S : StrFns) (camel : Bool) :
    ∀ (x : J) (ms : MDict) (L : List Mapper) (fs : List Fld), AgreesFs S ms L fs → conf fs x = true →
      ser S camel ms x = specSer S L fs x
  | .null, _, _, _, _, h => by simp [conf] at h
  | .int _, _, _, _, _, h => by simp [conf] at h
  | .str _, _, _, _, _, h => by simp [conf] at h
  | .arr xs, ms, L, fs, ha, h => by
    simp only [conf] at h
    simp only [ser, specSer]
    rw [c07_serList_eq_spec S camel xs ms L fs ha h]
  | .obj kvs, ms, L, fs, ha, h => by
    simp only [conf] at h
    simp only [ser, specSer]
    rw [c07_serFields_eq_spec S camel kvs ms L fs ha h]
theorem c07_serFields_eq_spec (S : StrFns) (camel : Bool) :
    ∀ (kvs : List (String × J)) (ms : MDict) (L : List Mapper) (fs : List Fld), AgreesFs S ms L fs →
      confKvs fs kvs = true → serFields S camel ms kvs = specFields S L fs kvs
  | [], _, _, _, _, _ => by simp [serFields, specFields]
  | (f, v) :: rest, ms, L, fs, ha, h => by
    simp only [confKvs, and_true_iff'] at h
    have ih := c07_serFields_eq_spec S camel rest ms L fs ha h.2
    simp only [serFields, specFields, ih]
    cases hv : v.isNull
    · simp only [Bool.false_eq_true, if_false]
      cases hf : findFld fs f with
      | none => rw [hf] at h; simp at h
      | some fl =>
        obtain ⟨hmem, hname⟩ := c07_findFld_mem hf
        have hag := c07_agreesF_of_mem S ms L fs ha fl hmem
        rw [hf] at h
        cases fl with
        | mapped n o ci fs' => simp at h
        | scalar n o =>
          simp only [Fld.name] at hname; subst hname
          simp only [AgreesF] at hag
          simp only [serKey, hag]
          cases hk : keyOf S L n with
          | key k => simp [c07_ser_scalar S camel _ v h.1]
          | dns => rfl
          | sub q => rfl
        | nested n o sh own fs' =>
          simp only [Fld.name] at hname; subst hname
          simp only [AgreesF] at hag
          obtain ⟨h1, p, hp, hrec⟩ := hag
          simp only [serKey, h1]
          cases hk : keyOf S L n with
          | key k =>
            have hc : conf fs' v = true := by
              have := h.1; simp only [hv, Bool.false_or] at this; exact this
            have hsub : subSer ms n = p := by simp [subSer, hp]
            simp only [hsub]
            rw [c07_ser_eq_spec S camel v p _ fs' hrec hc]
          | dns => rfl
          | sub q => rfl
    · simp
theorem c07_serList_eq_spec (S : StrFns) (camel : Bool) :
    ∀ (xs : List J) (ms : MDict) (L : List Mapper) (fs : List Fld), AgreesFs S ms L fs →
      confList fs xs = true → serList S camel ms xs = specList S L fs xs
  | [], _, _, _, _, _ => by simp [serList, specList]
  | x :: xs, ms, L, fs, ha, h => by
    simp only [confList, and_true_iff'] at h
    simp only [serList, specList]
    rw [c07_ser_eq_spec S camel x ms L fs ha h.1, c07_serList_eq_spec S camel xs ms L fs ha h.2]
end

/-! ### the class-directed serializer is `ser` wherever there is no Map-valued field -/

mutual
theorem c07_serC_eq_ser (S : StrFns) (camel : Bool) :
    ∀ (x : J) (m : MDict) (fs : List Fld), conf fs x = true → serC S camel m fs x = ser S camel m x
  | .null, _, _, h => by simp [conf] at h
  | .int _, _, _, h => by simp [conf] at h
  | .str _, _, _, h => by simp [conf] at h
  | .arr xs, m, fs, h => by
    simp only [conf] at h
    simp only [serC, ser, c07_serCList_eq S camel xs m fs h]
  | .obj kvs, m, fs, h => by
    simp only [conf] at h
    simp only [serC, ser, c07_serCFields_eq S camel kvs m fs h]
theorem c07_serCFields_eq (S : StrFns) (camel : Bool) :
    ∀ (kvs : List (String × J)) (m : MDict) (fs : List Fld), confKvs fs kvs = true →
      serCFields S camel m fs kvs = serFields S camel m kvs
  | [], _, _, _ => by simp [serCFields, serFields]
  | (f, v) :: rest, m, fs, h => by
    simp only [confKvs, and_true_iff'] at h
    have ih := c07_serCFields_eq S camel rest m fs h.2
    by_cases hv : v.isNull = true
    · simp only [serCFields, serFields, hv, if_true]; exact ih
    · have hv' : v.isNull = false := by simpa using hv
      simp only [serCFields, serFields, hv', Bool.false_eq_true, if_false]
      cases hk : serKey S camel m f with
      | none => simpa using ih
      | some k =>
        cases hf : findFld fs f with
        | none => rw [hf] at h; simp at h
        | some fl =>
          rw [hf] at h
          cases fl with
          | mapped n o ci fs' => simp at h
          | scalar n o => simp [ih, c07_ser_scalar S camel _ v h.1]
          | nested n o sh ci fs' =>
            have hc : conf fs' v = true := by
              have := h.1; simp only [hv', Bool.false_or] at this; exact this
            simp [ih, c07_serC_eq_ser S camel v _ fs' hc]
theorem c07_serCList_eq (S : StrFns) (camel : Bool) :
    ∀ (xs : List J) (m : MDict) (fs : List Fld), confList fs xs = true →
      serCList S camel m fs xs = serList S camel m xs
  | [], _, _, _ => by simp [serCList, serList]
  | x :: xs, m, fs, h => by
    simp only [confList, and_true_iff'] at h
    simp only [serCList, serList, c07_serC_eq_ser S camel x m fs h.1, c07_serCList_eq S camel xs m fs h.2]
end

end Typedpy.Mappers
