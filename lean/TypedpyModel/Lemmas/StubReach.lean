/-
  Lemmas/StubReach.lean — completeness of the constructor signature in every reachable world: every non-Constant
  name of `_field_by_name` is a parameter of `__signature__` (`SigFull`, an invariant of every history of class
  statements; the converse inclusion is C14's `SigOk`, Lemmas/DefineSig.lean).  Consequence (Props/C16.lean): the
  keyword names of the generated stub `__init__` ARE the names of the runtime signature, for every class any history
  can define — any hierarchy shape, C3 linearisation included.  Lemma names carry the prefix `c16_`.
-/
import TypedpyModel.Lemmas.StubDefine
import TypedpyModel.Lemmas.DefineSig
namespace Typedpy.StubD
open Typedpy

/-- every non-Constant field name is a signature parameter; only Structure classes other than `Structure` itself
    have parameters -/
structure SigFull (c : ClassDef) : Prop where
  full : ∀ n, n ∈ c.fieldNames → (lookup n c.constants).isNone = true → n ∈ c.sig.req ∨ n ∈ c.sig.opt
  struct : ∀ n, n ∈ c.sig.req ∨ n ∈ c.sig.opt → c.isStruct = true ∧ c.name ≠ "Structure"

structure WorldSigFull (w : World) : Prop where
  root : (w.find "Structure").isSome = true
  all : ∀ n c, w.find n = some c → SigFull c

theorem c16_sigFull_simple {c : ClassDef} (hs : c.sig = {}) (ha : c.allFields = []) : SigFull c where
  full := by
    intro n hn
    simp [ClassDef.fieldNames, ha] at hn
  struct := by
    intro n hn
    rw [hs] at hn
    rcases hn with h | h <;> cases h

theorem c16_mem_allSigParams {bd : ClassDef} {p : String × Bool} : ∀ {l : List ClassDef}, bd ∈ l →
    p ∈ sigParams bd.sig → p ∈ allSigParams l
  | [], h, _ => by cases h
  | b :: bs, h, hp => by
    simp only [allSigParams, List.mem_append]
    rcases List.mem_cons.mp h with rfl | h
    · exact Or.inl hp
    · exact Or.inr (c16_mem_allSigParams h hp)

theorem c16_mem_basesParams_names (w : World) (src : ClassSrc) (n : String)
    (h : n ∈ (allSigParams (structBases w src)).map (·.1)) : n ∈ (basesParams w src).map (·.1) := by
  unfold basesParams
  simp only [List.map_map, Function.comp_def]
  rw [← lookup_isSome_iff] at h
  rw [← lookup_dedupKeys] at h
  rw [lookup_isSome_iff] at h
  simpa using h

theorem c16_lookup_rev_isSome {α : Type} (n : String) (l : List (String × α)) :
    (lookup n l.reverse).isSome = true ↔ n ∈ l.map (·.1) := by
  rw [lookup_isSome_iff]
  simp

/-- the step: a class statement that passes the checks, in a world where the invariants hold -/
theorem c16_build_sigFull {O : Oracles} {w : World} {src : ClassSrc} (hw : WorldOk w) (hs : WorldSigOk w)
    (hf : WorldSigFull w) (hc : runChecks (checks O w src) = .ok ()) (hfresh : w.find src.name = none) :
    SigFull (build w src) where
  struct := by
    intro n _
    refine ⟨rfl, ?_⟩
    intro e
    have hr := hf.root
    have : (build w src).name = src.name := rfl
    rw [this] at e
    rw [← e, hfresh] at hr
    cases hr
  full := by
    intro n hn hconst
    have hd : defineClass O w src = .ok (build w src) := by simp [defineClass, hc]
    have hw' := worldOk_add_define hw hd hfresh
    have hself : (w.add (build w src)).find (build w src).name = some (build w src) :=
      find_add_fresh (d := build w src) hfresh
    have hcok := hw' _ _ hself
    have hfacts := defFacts hc
    -- it suffices that the name is one `make_signature` draws from
    suffices hcov : covered w src n = true by
      have hnc : n ∉ constNamesD w src := (c16_const_isNone w src n).mp hconst
      have := (c16_sigD_names w src n).mpr ⟨hcov, hnc⟩
      have h2 : n ∈ (sigOf w src).req ∨ n ∈ (sigOf w src).opt := by
        simpa [sigParamsD, List.map_append, List.map_map, Function.comp_def] using this
      exact h2
    rw [fieldName_iff_owner hcok] at hn
    cases hk : firstOwner (ownRev (w.add (build w src))) n (build w src).mro with
    | none => simp [hk] at hn
    | some k =>
      rcases firstOwner_some hk with ⟨hkm, hko⟩
      have hmro : (build w src).mro = src.name :: mroTail w src := rfl
      rw [hmro] at hkm
      rcases List.mem_cons.mp hkm with rfl | hkt
      · -- the class's own field
        have hown : ownOf (w.add (build w src)) src.name = ownMembers src.entries := by
          have hfind : (w.add (build w src)).find src.name = some (build w src) := hself
          unfold ownOf
          rw [hfind]
          rfl
        have : n ∈ (ownMembers src.entries).map (·.1) := by
          have h1 : (lookup n (ownOf (w.add (build w src)) src.name).reverse).isSome = true := hko
          rw [hown] at h1
          exact (c16_lookup_rev_isSome n _).mp h1
        unfold covered
        simp [this]
      · -- inherited: the first owner lies in the MRO of a direct base
        have hbase : ∃ b bd, b ∈ src.bases ∧ w.find b = some bd ∧ k ∈ bd.mro := by
          rcases c3merge_origin _ _ _ hfacts.c3ok k hkt with ⟨s, hs', hks⟩
          simp only [mroSeqs, List.mem_append, List.mem_map, List.mem_singleton] at hs'
          rcases hs' with ⟨bd, hbd, rfl⟩ | rfl
          · rcases mem_baseDefs.mp hbd with ⟨b, hb, hfb⟩
            exact ⟨b, bd, hb, hfb, hks⟩
          · have hfound := hfacts.basesFound k hks
            cases hfk : w.find k with
            | none => simp [hfk] at hfound
            | some kd =>
              rcases (hw k kd hfk).head with ⟨t, ht⟩
              have hname : kd.name = k := findCls_name hfk
              exact ⟨k, kd, hks, hfk, by rw [ht, hname]; exact List.mem_cons_self⟩
        rcases hbase with ⟨b, bd, hb, hfb, hkbd⟩
        have hbn : bd.name = b := findCls_name hfb
        have hbd2 : (w.add (build w src)).find bd.name = some bd := by rw [hbn]; exact find_add_of_some hfb
        have haok := hw' bd.name bd hbd2
        have hsub : src.bases.Sublist (mroTail w src) :=
          c3merge_sublist _ _ _ hfacts.c3ok _ (by simp [mroSeqs])
        have hmem : bd.name ∈ (build w src).mro := by
          rw [hbn]; exact List.mem_cons_of_mem _ (hsub.subset hb)
        rcases hcok.closed bd.name hmem with ⟨ad, had, hsl⟩
        rw [hbd2] at had
        cases had
        -- the same first owner along the base's own MRO
        have hkb : firstOwner (ownRev (w.add (build w src))) n bd.mro = some k :=
          firstOwner_sublist hsl hcok.nodup hk hkbd
        have hnb : n ∈ bd.fieldNames := by
          rw [fieldName_iff_owner haok, hkb]; rfl
        -- the same member, hence not a Constant of the base either
        have hl1 := lookup_allFields hcok n
        have hl2 := lookup_allFields haok n
        rw [hk] at hl1
        rw [hkb] at hl2
        have hsame : lookup n bd.allFields = lookup n (build w src).allFields := by rw [hl1, hl2]
        have hconstB : (lookup n bd.constants).isNone = true := by
          have hc1 : (build w src).constants = constantsOf (build w src).allFields := rfl
          rw [hc1, c14_lookup_constantsOf (classOk_keysNodup hcok)] at hconst
          rw [(hs b bd hfb).consts, c14_lookup_constantsOf (classOk_keysNodup haok), hsame]
          exact hconst
        have hsigB := (hf.all b bd hfb).full n hnb hconstB
        have hstruct := (hf.all b bd hfb).struct n hsigB
        have hsb : bd ∈ structBases w src := by
          unfold structBases
          refine List.mem_filter.mpr ⟨mem_baseDefs.mpr ⟨b, hb, hfb⟩, ?_⟩
          simp [hstruct.1, hstruct.2]
        have hp : ∃ r, (n, r) ∈ sigParams bd.sig := by
          rcases hsigB with h | h
          · exact ⟨true, by simp [sigParams, h]⟩
          · exact ⟨false, by simp [sigParams, h]⟩
        rcases hp with ⟨r, hp⟩
        have hall : n ∈ (allSigParams (structBases w src)).map (·.1) :=
          List.mem_map.mpr ⟨(n, r), c16_mem_allSigParams hsb hp, rfl⟩
        have := c16_mem_basesParams_names w src n hall
        unfold covered
        simp [this]

theorem c16_worldSigFull_init (bc bn : Bool) : WorldSigFull (initWorld bc bn) where
  root := by simp [initWorld, World.init, World.find, findCls, World.builtin]
  all := by
    intro n c hc
    have hm : c ∈ (initWorld bc bn).classes := c12_findCls_mem hc
    simp only [initWorld, World.init, List.mem_cons, List.not_mem_nil, or_false] at hm
    rcases hm with rfl | rfl | rfl | rfl <;> exact c16_sigFull_simple rfl rfl

theorem c16_worldSigFull_step {O : Oracles} {w : World} {s : Step} {c : ClassDef} (hw : WorldOk w)
    (hs : WorldSigOk w) (hf : WorldSigFull w) (h : stepClass O w s = .ok c) (hfresh : w.find c.name = none) :
    WorldSigFull (w.add c) where
  root := by
    cases hr : w.find "Structure" with
    | none => have := hf.root; simp [hr] at this
    | some r => rw [find_add_of_some hr]; rfl
  all := by
    intro n d hd
    rcases find_add_inv hd with h1 | ⟨_, rfl, _⟩
    · exact hf.all n d h1
    · cases s with
      | define src =>
        simp only [stepClass] at h
        rcases defineClass_ok h with ⟨hc, rfl⟩
        exact c16_build_sigFull hw hs hf hc hfresh
      | mixin m =>
        simp only [stepClass] at h
        cases h
        exact c16_sigFull_simple rfl rfl
      | derive op source newName =>
        simp only [stepClass] at h
        split at h
        · simp only [deriveClass] at h
          rcases bindE_eq_ok h with ⟨src, _, hdd⟩
          rcases defineClass_ok hdd with ⟨hc, rfl⟩
          exact c16_build_sigFull hw hs hf hc hfresh
        · cases h

/-- every class of every reachable world has a complete signature -/
theorem c16_reachable_sigFull {O : Oracles} {w : World} (h : Reachable O w) : WorldSigFull w := by
  induction h with
  | init bc bn => exact c16_worldSigFull_init bc bn
  | step hr hs hf ih => exact c16_worldSigFull_step (reachable_ok hr) (reachable_sigOk hr) ih hs hf

end Typedpy.StubD
