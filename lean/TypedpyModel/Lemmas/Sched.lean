/-
  Lemmas/Sched.lean — frame / non-interference lemmas for the interleaving semantics (C20).
-/
import TypedpyModel.Sem.Sched
namespace Typedpy.Sched

/-! ### single steps -/

theorem Nm.eval_congr (n : Nm) (sh1 sh2 : Shared) (h : ∀ c ∈ n.cells, sh1 c = sh2 c) : n.eval sh1 = n.eval sh2 := by
  cases n with
  | const s => rfl
  | cell c => exact h c (by simp [Nm.cells])
  | cellSuf c suf =>
    have := h c (by simp [Nm.cells])
    simp only [Nm.eval, this]

theorem Step.local_prog (s : Step) (sh : Shared) (rest : List Step) (t : TState) :
    (s.local sh rest t).prog = rest := by
  cases s <;> simp only [Step.local] <;> first | rfl | (split <;> rfl)

theorem Step.shared_of_not_writes {s : Step} (h : s.writesShared = false) (sh : Shared) :
    s.shared sh = sh := by
  cases s <;> first | rfl | (simp [Step.writesShared] at h)

/-- a step changes the shared store only on the cells it writes -/
theorem Step.shared_frame (s : Step) (sh : Shared) (c : Nat) (hc : c ∉ s.writeCells) :
    s.shared sh c = sh c := by
  cases s with
  | write c' n =>
    simp only [Step.writeCells, List.mem_singleton] at hc
    simp [Step.shared, Shared.set, hc]
  | _ => rfl

/-- the thread-private effect of a step depends only on the cells the step reads -/
theorem Step.local_congr (s : Step) (sh1 sh2 : Shared) (rest : List Step) (t : TState)
    (h : ∀ c ∈ s.readCells, sh1 c = sh2 c) : s.local sh1 rest t = s.local sh2 rest t := by
  cases s with
  | store n v ok =>
    have := Nm.eval_congr n sh1 sh2 (fun c hc => h c (by simpa [Step.readCells] using hc))
    simp only [Step.local, this]
  | load n =>
    have := Nm.eval_congr n sh1 sh2 (fun c hc => h c (by simpa [Step.readCells] using hc))
    simp only [Step.local, this]
  | move a b =>
    have ha := Nm.eval_congr a sh1 sh2 (fun c hc => h c (by simp [Step.readCells, hc]))
    have hb := Nm.eval_congr b sh1 sh2 (fun c hc => h c (by simp [Step.readCells, hc]))
    simp only [Step.local, ha, hb]
  | check n ok =>
    cases ok with
    | true => rfl
    | false =>
      have := Nm.eval_congr n sh1 sh2 (fun c hc => h c (by simpa [Step.readCells] using hc))
      simp only [Step.local, this]
  | _ => rfl

/-- a step performs the same write from any two stores that agree on the cells it reads -/
theorem Step.shared_congr (s : Step) (sh1 sh2 : Shared) (c : Nat) (h : sh1 c = sh2 c)
    (hr : ∀ c' ∈ s.readCells, sh1 c' = sh2 c') : s.shared sh1 c = s.shared sh2 c := by
  cases s with
  | write c' n =>
    have := Nm.eval_congr n sh1 sh2 (fun c hc => hr c (by simpa [Step.readCells] using hc))
    simp only [Step.shared, Shared.set, this]
    split <;> simp [h]
  | _ => exact h

/-! ### one step of a thread -/

theorem stepT_done {sh : Shared} {t : TState} (h : t.done = true) : stepT sh t = (sh, t) := by
  unfold stepT
  split
  · rfl
  · rfl
  · next s rest he hp =>
    simp [TState.done, he, hp] at h

/-- the remaining program after a step is a suffix of the program before -/
theorem stepT_prog_suffix (sh : Shared) (t : TState) : ∃ pre, t.prog = pre ++ (stepT sh t).2.prog := by
  unfold stepT
  split
  · exact ⟨[], rfl⟩
  · exact ⟨[], rfl⟩
  · next s rest he hp =>
    refine ⟨[s], ?_⟩
    simp [Step.local_prog, hp]

theorem stepT_prog_subset (sh : Shared) (t : TState) : ∀ s ∈ (stepT sh t).2.prog, s ∈ t.prog := by
  obtain ⟨pre, h⟩ := stepT_prog_suffix sh t
  intro s hs
  rw [h]
  exact List.mem_append_right _ hs

def readOnlyT (t : TState) : Prop := ∀ s ∈ t.prog, s.writesShared = false

theorem stepT_shared_of_readOnly {t : TState} (h : readOnlyT t) (sh : Shared) : (stepT sh t).1 = sh := by
  unfold stepT
  split
  · rfl
  · rfl
  · next s rest he hp =>
    exact Step.shared_of_not_writes (h s (by simp [hp])) sh

theorem stepT_readOnly {t : TState} (h : readOnlyT t) (sh : Shared) : readOnlyT (stepT sh t).2 :=
  fun s hs => h s (stepT_prog_subset sh t s hs)

/-- a thread step changes the store only on cells its program writes -/
theorem stepT_shared_frame (sh : Shared) (t : TState) (c : Nat) (hc : c ∉ writeCells t.prog) :
    (stepT sh t).1 c = sh c := by
  unfold stepT
  split
  · rfl
  · rfl
  · next s rest he hp =>
    apply Step.shared_frame
    intro hm
    apply hc
    simp only [writeCells, hp, List.flatMap_cons, List.mem_append]
    exact Or.inl hm

/-- thread-private frame: a step of a thread depends on the store only through the cells its program reads -/
theorem stepT_congr (sh1 sh2 : Shared) (t : TState) (h : ∀ c ∈ readCells t.prog, sh1 c = sh2 c) :
    (stepT sh1 t).2 = (stepT sh2 t).2 := by
  unfold stepT
  split
  · rfl
  · rfl
  · next s rest he hp =>
    apply Step.local_congr
    intro c hc
    apply h
    simp only [readCells, hp, List.flatMap_cons, List.mem_append]
    exact Or.inl hc

theorem stepT_shared_congr (sh1 sh2 : Shared) (t : TState) (c : Nat) (h : sh1 c = sh2 c)
    (hr : ∀ c' ∈ readCells t.prog, sh1 c' = sh2 c') : (stepT sh1 t).1 c = (stepT sh2 t).1 c := by
  unfold stepT
  split
  · exact h
  · exact h
  · next s rest he hp =>
    apply Step.shared_congr _ _ _ _ h
    intro c' hc'
    apply hr
    simp only [readCells, hp, List.flatMap_cons, List.mem_append]
    exact Or.inl hc'

theorem writeCells_suffix (sh : Shared) (t : TState) : ∀ c ∈ writeCells (stepT sh t).2.prog, c ∈ writeCells t.prog := by
  obtain ⟨pre, h⟩ := stepT_prog_suffix sh t
  intro c hc
  rw [h]
  simp only [writeCells, List.flatMap_append, List.mem_append] at *
  exact Or.inr hc

theorem readCells_suffix (sh : Shared) (t : TState) : ∀ c ∈ readCells (stepT sh t).2.prog, c ∈ readCells t.prog := by
  obtain ⟨pre, h⟩ := stepT_prog_suffix sh t
  intro c hc
  rw [h]
  simp only [readCells, List.flatMap_append, List.mem_append] at *
  exact Or.inr hc

/-! ### running alone -/

theorem alone_succ (sh : Shared) (t : TState) (n : Nat) :
    alone sh t (n + 1) = alone (stepT sh t).1 (stepT sh t).2 n := rfl

theorem alone_done {sh : Shared} {t : TState} (h : t.done = true) (n : Nat) : alone sh t n = (sh, t) := by
  induction n with
  | zero => rfl
  | succ n ih => rw [alone_succ, stepT_done h]; exact ih

/-- after `prog.length` steps a thread is finished -/
theorem alone_length_done (sh : Shared) (t : TState) : ∀ n, t.prog.length ≤ n → (alone sh t n).2.done = true := by
  intro n
  induction n generalizing sh t with
  | zero =>
    intro h
    have : t.prog = [] := List.eq_nil_of_length_eq_zero (Nat.le_zero.mp h)
    simp [alone, TState.done, this]
  | succ n ih =>
    intro h
    cases hd : t.done with
    | true => rw [alone_done hd]; exact hd
    | false =>
      rw [alone_succ]
      apply ih
      unfold stepT
      split
      · next e he => simp [TState.done, he] at hd
      · next he hp => simp [hp]
      · next s rest he hp =>
        simp only [Step.local_prog]
        simp only [hp, List.length_cons] at h
        exact Nat.le_of_succ_le_succ h

/-- once finished, more steps change nothing: the state after `m ≥ n` steps equals the state after `n` -/
theorem alone_stable (sh : Shared) (t : TState) (n m : Nat) (h : (alone sh t n).2.done = true) (hm : n ≤ m) :
    (alone sh t m).2 = (alone sh t n).2 := by
  induction n generalizing sh t m with
  | zero =>
    simp only [alone] at h
    simp [alone_done h, alone]
  | succ n ih =>
    cases m with
    | zero => exact absurd hm (Nat.not_succ_le_zero n)
    | succ m =>
      rw [alone_succ] at h ⊢
      rw [alone_succ]
      exact ih _ _ m h (Nat.le_of_succ_le_succ hm)

/-- a finished thread's result is its sequential result, however many steps it was given -/
theorem result_of_done (sh : Shared) (p : List Step) (n : Nat)
    (h : (alone sh (TState.init p) n).2.done = true) :
    (alone sh (TState.init p) n).2.result = sequentialResult sh p := by
  unfold sequentialResult
  have hl := alone_length_done sh (TState.init p) p.length (by simp [TState.init])
  rcases Nat.le_total n p.length with hle | hle
  · rw [alone_stable sh _ n p.length h hle]
  · rw [alone_stable sh _ p.length n hl hle]

/-! ### configurations -/

theorem stepAt_none {cfg : Cfg} {i : Nat} (h : cfg.threads[i]? = none) : stepAt cfg i = cfg := by
  simp [stepAt, h]

theorem stepAt_some {cfg : Cfg} {i : Nat} {t : TState} (h : cfg.threads[i]? = some t) :
    stepAt cfg i = { shared := (stepT cfg.shared t).1, threads := cfg.threads.set i (stepT cfg.shared t).2 } := by
  simp [stepAt, h]

theorem run_cons (cfg : Cfg) (j : Nat) (rest : List Nat) : run cfg (j :: rest) = run (stepAt cfg j) rest := rfl

theorem stepAt_threads_ne {cfg : Cfg} {i j : Nat} (h : j ≠ i) : (stepAt cfg j).threads[i]? = cfg.threads[i]? := by
  cases hj : cfg.threads[j]? with
  | none => rw [stepAt_none hj]
  | some t =>
    rw [stepAt_some hj]
    simp [h]

theorem stepAt_threads_self {cfg : Cfg} {i : Nat} {t : TState} (h : cfg.threads[i]? = some t) :
    (stepAt cfg i).threads[i]? = some (stepT cfg.shared t).2 := by
  rw [stepAt_some h]
  have hlt : i < cfg.threads.length := by
    rcases List.getElem?_eq_some_iff.mp h with ⟨hl, _⟩
    exact hl
  simp [hlt]

/-- every thread of the configuration after one scheduling step is a thread of the configuration before, advanced by
    at most one step -/
theorem stepAt_thread_cases (cfg : Cfg) (j k : Nat) (tk' : TState) (h : (stepAt cfg j).threads[k]? = some tk') :
    cfg.threads[k]? = some tk' ∨ ∃ tk, cfg.threads[k]? = some tk ∧ tk' = (stepT cfg.shared tk).2 := by
  by_cases hjk : j = k
  · subst hjk
    cases hj : cfg.threads[j]? with
    | none => rw [stepAt_none hj] at h; rw [hj] at h; exact absurd h (by simp)
    | some t =>
      rw [stepAt_threads_self hj] at h
      right
      exact ⟨t, rfl, (Option.some.inj h).symm⟩
  · left
    rw [stepAt_threads_ne hjk] at h
    exact h

end Typedpy.Sched

namespace Typedpy.Sched

/-! ### the general frame theorems (induction over the schedule, any number of threads) -/

theorem mem_threads_iff {cfg : Cfg} {t : TState} : t ∈ cfg.threads ↔ ∃ k : Nat, cfg.threads[k]? = some t :=
  List.mem_iff_getElem?

/-- If no remaining step of any thread writes shared state, then after EVERY schedule the shared store is unchanged and
    every thread is exactly where it would be had it run alone for as many steps as it was scheduled. -/
theorem run_readOnly (sched : List Nat) : ∀ (cfg : Cfg), (∀ t ∈ cfg.threads, readOnlyT t) →
    (run cfg sched).shared = cfg.shared ∧
    ∀ i t, cfg.threads[i]? = some t →
      (run cfg sched).threads[i]? = some (alone cfg.shared t (sched.count i)).2 := by
  induction sched with
  | nil =>
    intro cfg _
    exact ⟨rfl, fun i t ht => by simpa [run, alone] using ht⟩
  | cons j rest ih =>
    intro cfg h
    rw [run_cons]
    have hsh' : (stepAt cfg j).shared = cfg.shared := by
      cases hj : cfg.threads[j]? with
      | none => rw [stepAt_none hj]
      | some tj =>
        rw [stepAt_some hj]
        exact stepT_shared_of_readOnly (h tj (mem_threads_iff.mpr ⟨j, hj⟩)) _
    have hro' : ∀ t ∈ (stepAt cfg j).threads, readOnlyT t := by
      intro t' ht'
      obtain ⟨k, hk⟩ := mem_threads_iff.mp ht'
      rcases stepAt_thread_cases cfg j k t' hk with h1 | ⟨tk, h1, h2⟩
      · exact h t' (mem_threads_iff.mpr ⟨k, h1⟩)
      · rw [h2]
        exact stepT_readOnly (h tk (mem_threads_iff.mpr ⟨k, h1⟩)) _
    obtain ⟨ih1, ih2⟩ := ih (stepAt cfg j) hro'
    refine ⟨ih1.trans hsh', fun i t ht => ?_⟩
    by_cases hji : j = i
    · subst hji
      rw [ih2 j _ (stepAt_threads_self ht), hsh', List.count_cons_self, alone_succ,
        stepT_shared_of_readOnly (h t (mem_threads_iff.mpr ⟨j, ht⟩))]
    · have hc : (j :: rest).count i = rest.count i := by
        rw [List.count_cons]
        simp [hji]
      rw [ih2 i t (by rw [stepAt_threads_ne hji]; exact ht), hsh', hc]

/-- other threads never write a cell in `R` -/
def othersAvoid (cfg : Cfg) (i : Nat) (R : List Nat) : Prop :=
  ∀ j tj, j ≠ i → cfg.threads[j]? = some tj → ∀ c ∈ writeCells tj.prog, c ∉ R

/-- Non-interference: if the other threads write none of the cells thread `i` reads, then after EVERY schedule thread
    `i` is exactly where it would be had it run alone (from any store that agrees on those cells) for as many steps as
    it was scheduled, and the store still agrees on those cells. -/
theorem run_noninterference (R : List Nat) (i : Nat) (sched : List Nat) :
    ∀ (cfg : Cfg) (t : TState) (sha : Shared),
      cfg.threads[i]? = some t → (∀ c ∈ readCells t.prog, c ∈ R) → othersAvoid cfg i R →
      (∀ c ∈ R, cfg.shared c = sha c) →
      (run cfg sched).threads[i]? = some (alone sha t (sched.count i)).2 ∧
      (∀ c ∈ R, (run cfg sched).shared c = (alone sha t (sched.count i)).1 c) := by
  induction sched with
  | nil =>
    intro cfg t sha ht _ _ hag
    exact ⟨by simpa [run, alone] using ht, by simpa [run, alone] using hag⟩
  | cons j rest ih =>
    intro cfg t sha ht hR hav hag
    rw [run_cons]
    by_cases hji : j = i
    · subst hji
      have hloc : (stepT cfg.shared t).2 = (stepT sha t).2 :=
        stepT_congr _ _ _ (fun c hc => hag c (hR c hc))
      have hth : (stepAt cfg j).threads[j]? = some (stepT sha t).2 := by
        rw [stepAt_threads_self ht, hloc]
      have hR' : ∀ c ∈ readCells (stepT sha t).2.prog, c ∈ R :=
        fun c hc => hR c (readCells_suffix sha t c hc)
      have hav' : othersAvoid (stepAt cfg j) j R := by
        intro k tk hk hk2
        rw [stepAt_threads_ne (Ne.symm hk)] at hk2
        exact hav k tk hk hk2
      have hag' : ∀ c ∈ R, (stepAt cfg j).shared c = (stepT sha t).1 c := by
        intro c hc
        rw [stepAt_some ht]
        exact stepT_shared_congr _ _ _ _ (hag c hc) (fun c' hc' => hag c' (hR c' hc'))
      have := ih (stepAt cfg j) (stepT sha t).2 (stepT sha t).1 hth hR' hav' hag'
      rw [List.count_cons_self, alone_succ]
      exact this
    · have hc : (j :: rest).count i = rest.count i := by
        rw [List.count_cons]
        simp [hji]
      rw [hc]
      have hth : (stepAt cfg j).threads[i]? = some t := by
        rw [stepAt_threads_ne hji]; exact ht
      have hav' : othersAvoid (stepAt cfg j) i R := by
        intro k tk' hk hk2
        rcases stepAt_thread_cases cfg j k tk' hk2 with h1 | ⟨tk, h1, h2⟩
        · exact hav k tk' hk h1
        · intro c hc
          rw [h2] at hc
          exact hav k tk hk h1 c (writeCells_suffix _ _ c hc)
      have hag' : ∀ c ∈ R, (stepAt cfg j).shared c = sha c := by
        intro c hc
        cases hj : cfg.threads[j]? with
        | none => rw [stepAt_none hj]; exact hag c hc
        | some tj =>
          rw [stepAt_some hj]
          have hnw : c ∉ writeCells tj.prog := fun hw => hav j tj hji hj c hw hc
          show (stepT cfg.shared tj).1 c = sha c
          rw [stepT_shared_frame _ _ _ hnw]
          exact hag c hc
      exact ih (stepAt cfg j) t sha hth hR hav' hag'

end Typedpy.Sched

namespace Typedpy.Sched

/-! ### no foreign values: whatever the schedule, a thread only ever holds values of its own program -/

def Step.vals : Step → List Int
  | .store _ v _ => [v]
  | .emit v => [v]
  | _ => []

def progVals (p : List Step) : List Int := p.flatMap Step.vals

theorem lookup_mem {l : List (String × Int)} {k : String} {v : Int} (h : l.lookup k = some v) :
    ∃ k', (k', v) ∈ l := by
  induction l with
  | nil => simp [List.lookup] at h
  | cons a rest ih =>
    obtain ⟨k0, v0⟩ := a
    simp only [List.lookup] at h
    split at h
    · exact ⟨k0, by simp [Option.some.inj h]⟩
    · obtain ⟨k', hk⟩ := ih h
      exact ⟨k', List.mem_cons_of_mem _ hk⟩

/-- everything the thread holds (temp structure, result so far, values still to be processed) is in `V` -/
def ownOnly (V : List Int) (t : TState) : Prop :=
  (∀ kv ∈ t.temp, kv.2 ∈ V) ∧ (∀ v ∈ t.out, v ∈ V) ∧ (∀ v ∈ progVals t.prog, v ∈ V)

theorem stepT_ownOnly (V : List Int) (sh : Shared) (t : TState) (h : ownOnly V t) : ownOnly V (stepT sh t).2 := by
  unfold stepT
  split
  · exact h
  · exact h
  · next s rest he hp =>
    obtain ⟨h1, h2, h3⟩ := h
    have hrest : ∀ v ∈ progVals rest, v ∈ V := by
      intro v hv
      apply h3
      simp only [progVals, hp, List.flatMap_cons, List.mem_append]
      exact Or.inr hv
    have hs : ∀ v ∈ s.vals, v ∈ V := by
      intro v hv
      apply h3
      simp only [progVals, hp, List.flatMap_cons, List.mem_append]
      exact Or.inl hv
    cases s with
    | write c n => exact ⟨h1, h2, hrest⟩
    | newTemp => exact ⟨by simp [Step.local], h2, hrest⟩
    | check n ok =>
      simp only [Step.local]
      split <;> exact ⟨h1, h2, hrest⟩
    | move a b =>
      simp only [Step.local]
      split
      · next v hv =>
        refine ⟨?_, h2, hrest⟩
        intro kv hkv
        simp only [List.mem_cons] at hkv
        rcases hkv with rfl | hkv
        · obtain ⟨k', hk⟩ := lookup_mem hv
          exact h1 (k', v) hk
        · exact h1 kv hkv
      · exact ⟨h1, h2, hrest⟩
    | store c v ok =>
      simp only [Step.local]
      split
      · refine ⟨?_, h2, hrest⟩
        intro kv hkv
        simp only [List.mem_cons] at hkv
        rcases hkv with rfl | hkv
        · exact hs v (by simp [Step.vals])
        · exact h1 kv hkv
      · exact ⟨h1, h2, hrest⟩
    | load c =>
      simp only [Step.local]
      split
      · next v hv =>
        refine ⟨h1, ?_, hrest⟩
        intro x hx
        simp only [List.mem_append, List.mem_singleton] at hx
        rcases hx with hx | rfl
        · exact h2 x hx
        · obtain ⟨k', hk⟩ := lookup_mem hv
          exact h1 (k', x) hk
      · exact ⟨h1, h2, hrest⟩
    | emit v =>
      simp only [Step.local]
      refine ⟨h1, ?_, hrest⟩
      intro x hx
      simp only [List.mem_append, List.mem_singleton] at hx
      rcases hx with hx | rfl
      · exact h2 x hx
      · exact hs x (by simp [Step.vals])

theorem run_ownOnly (Vf : Nat → List Int) (sched : List Nat) : ∀ (cfg : Cfg),
    (∀ (i : Nat) (t : TState), cfg.threads[i]? = some t → ownOnly (Vf i) t) →
    ∀ (i : Nat) (t : TState), (run cfg sched).threads[i]? = some t → ownOnly (Vf i) t := by
  induction sched with
  | nil => intro cfg h i t ht; exact h i t ht
  | cons j rest ih =>
    intro cfg h
    rw [run_cons]
    apply ih
    intro k tk' hk
    rcases stepAt_thread_cases cfg j k tk' hk with h1 | ⟨tk, h1, h2⟩
    · exact h k tk' h1
    · rw [h2]
      exact stepT_ownOnly _ _ _ (h k tk h1)

end Typedpy.Sched

namespace Typedpy.Sched

/-! ### a call only touches the cells of its own declaration -/

/-- every cell a step of `p` writes or reads satisfies `P` -/
def cellsIn (P : Nat → Prop) (p : List Step) : Prop :=
  ∀ s ∈ p, (∀ c ∈ s.writeCells, P c) ∧ (∀ c ∈ s.readCells, P c)

theorem cellsIn_nil (P : Nat → Prop) : cellsIn P [] := fun _ h => nomatch h

theorem cellsIn_cons {P : Nat → Prop} {s : Step} {p : List Step}
    (hs : (∀ c ∈ s.writeCells, P c) ∧ (∀ c ∈ s.readCells, P c)) (hp : cellsIn P p) : cellsIn P (s :: p) := by
  intro s' hs'
  rcases List.mem_cons.mp hs' with rfl | h
  · exact hs
  · exact hp s' h

theorem cellsIn_append {P : Nat → Prop} {p q : List Step} (hp : cellsIn P p) (hq : cellsIn P q) :
    cellsIn P (p ++ q) := by
  intro s hs
  rcases List.mem_append.mp hs with h | h
  · exact hp s h
  · exact hq s h

theorem cellsIn_spec {P : Nat → Prop} {p : List Step} (h : cellsIn P p) :
    (∀ c ∈ writeCells p, P c) ∧ (∀ c ∈ readCells p, P c) := by
  constructor
  · intro c hc
    simp only [writeCells, List.mem_flatMap] at hc
    obtain ⟨s, hs, hcs⟩ := hc
    exact (h s hs).1 c hcs
  · intro c hc
    simp only [readCells, List.mem_flatMap] at hc
    obtain ⟨s, hs, hcs⟩ := hc
    exact (h s hs).2 c hcs

theorem step_write_const {P : Nat → Prop} {c : Nat} (n : String) (h : P c) :
    (∀ x ∈ (Step.write c (.const n)).writeCells, P x) ∧ (∀ x ∈ (Step.write c (.const n)).readCells, P x) := by
  simp [Step.writeCells, Step.readCells, Nm.cells, h]

theorem step_store_cell {P : Nat → Prop} {c : Nat} (v : Int) (ok : Bool) (h : P c) :
    (∀ x ∈ (Step.store (.cell c) v ok).writeCells, P x) ∧ (∀ x ∈ (Step.store (.cell c) v ok).readCells, P x) := by
  simp [Step.writeCells, Step.readCells, Nm.cells, h]

theorem step_load_cell {P : Nat → Prop} {c : Nat} (h : P c) :
    (∀ x ∈ (Step.load (.cell c)).writeCells, P x) ∧ (∀ x ∈ (Step.load (.cell c)).readCells, P x) := by
  simp [Step.writeCells, Step.readCells, Nm.cells, h]

theorem step_check_cell {P : Nat → Prop} {c : Nat} (ok : Bool) (h : P c) :
    (∀ x ∈ (Step.check (.cell c) ok).writeCells, P x) ∧ (∀ x ∈ (Step.check (.cell c) ok).readCells, P x) := by
  cases ok <;> simp [Step.writeCells, Step.readCells, Nm.cells, h]

theorem step_private {P : Nat → Prop} {s : Step} (hw : s.writeCells = []) (hr : s.readCells = []) :
    (∀ x ∈ s.writeCells, P x) ∧ (∀ x ∈ s.readCells, P x) := by
  simp [hw, hr]

theorem homogFrom_cells (cell : Nat) (name : String) : ∀ (es : List (Int × Bool)) (i : Nat),
    cellsIn (· = cell) (progHomogFrom cell name i es) := by
  intro es
  induction es with
  | nil => intro i; exact cellsIn_nil _
  | cons e rest ih =>
    intro i
    obtain ⟨v, ok⟩ := e
    exact cellsIn_cons (step_write_const _ rfl) (cellsIn_cons (step_store_cell _ _ rfl)
      (cellsIn_cons (step_load_cell rfl) (ih (i + 1))))

theorem setFrom_cells (cell : Nat) : ∀ (es : List (Int × Bool)), cellsIn (· = cell) (progSetFrom cell es) := by
  intro es
  induction es with
  | nil => exact cellsIn_nil _
  | cons e rest ih =>
    obtain ⟨v, ok⟩ := e
    exact cellsIn_cons (step_private rfl rfl) (cellsIn_cons (step_store_cell _ _ rfl)
      (cellsIn_cons (step_load_cell rfl) ih))

theorem mapFrom_cells (kc vc : Nat) : ∀ (es : List ((Int × Bool) × (Int × Bool))),
    cellsIn (fun c => c = kc ∨ c = vc) (progMapFrom kc vc es) := by
  intro es
  induction es with
  | nil => exact cellsIn_nil _
  | cons e rest ih =>
    obtain ⟨⟨k, kok⟩, ⟨v, vok⟩⟩ := e
    exact cellsIn_cons (step_private rfl rfl) (cellsIn_cons (step_store_cell _ _ (Or.inl rfl))
      (cellsIn_cons (step_store_cell _ _ (Or.inr rfl)) (cellsIn_cons (step_load_cell (Or.inr rfl))
        (cellsIn_cons (step_load_cell (Or.inl rfl)) ih))))

theorem posFrom_cells (base : Nat) (name : String) (n : Nat) : ∀ (es : List (Int × Bool)) (i : Nat),
    cellsIn (fun c => base ≤ c ∧ c < base + n) (progPosFrom base name n i es) := by
  intro es
  induction es with
  | nil => intro i; exact cellsIn_nil _
  | cons e rest ih =>
    intro i
    obtain ⟨v, ok⟩ := e
    simp only [progPosFrom]
    split
    · next hlt =>
      have hP : base ≤ base + i ∧ base + i < base + n := by omega
      exact cellsIn_cons (step_write_const _ hP) (cellsIn_cons (step_store_cell _ _ hP)
        (cellsIn_cons (step_load_cell hP) (ih (i + 1))))
    · exact cellsIn_cons (step_private rfl rfl) (ih (i + 1))

theorem cellsIn_mono {P Q : Nat → Prop} {p : List Step} (h : ∀ c, P c → Q c) (hp : cellsIn P p) : cellsIn Q p :=
  fun s hs => ⟨fun c hc => h c ((hp s hs).1 c hc), fun c hc => h c ((hp s hs).2 c hc)⟩

/-! cells of the wrapper programs for an arbitrary own name -/

theorem cellsIn_cons' {P : Nat → Prop} {s : Step} {p : List Step} (hw : ∀ c ∈ s.writeCells, P c)
    (hr : ∀ c ∈ s.readCells, P c) (hp : cellsIn P p) : cellsIn P (s :: p) := cellsIn_cons ⟨hw, hr⟩ hp

theorem cellsIn_write {P : Nat → Prop} {c : Nat} {n : Nm} {p : List Step} (hc : P c) (hn : ∀ x ∈ n.cells, P x)
    (hp : cellsIn P p) : cellsIn P (.write c n :: p) :=
  cellsIn_cons' (by simpa [Step.writeCells] using hc) (by simpa [Step.readCells] using hn) hp

theorem cellsIn_check {P : Nat → Prop} {n : Nm} {ok : Bool} {p : List Step} (hn : ∀ x ∈ n.cells, P x)
    (hp : cellsIn P p) : cellsIn P (.check n ok :: p) :=
  cellsIn_cons' (by simp [Step.writeCells]) (by cases ok <;> simpa [Step.readCells] using hn) hp

theorem cellsIn_store {P : Nat → Prop} {n : Nm} {v : Int} {ok : Bool} {p : List Step} (hn : ∀ x ∈ n.cells, P x)
    (hp : cellsIn P p) : cellsIn P (.store n v ok :: p) :=
  cellsIn_cons' (by simp [Step.writeCells]) (by simpa [Step.readCells] using hn) hp

theorem cellsIn_load {P : Nat → Prop} {n : Nm} {p : List Step} (hn : ∀ x ∈ n.cells, P x)
    (hp : cellsIn P p) : cellsIn P (.load n :: p) :=
  cellsIn_cons' (by simp [Step.writeCells]) (by simpa [Step.readCells] using hn) hp

theorem cellsIn_move {P : Nat → Prop} {a b : Nm} {p : List Step} (ha : ∀ x ∈ a.cells, P x) (hb : ∀ x ∈ b.cells, P x)
    (hp : cellsIn P p) : cellsIn P (.move a b :: p) :=
  cellsIn_cons' (by simp [Step.writeCells]) (by
    intro c hc
    simp only [Step.readCells, List.mem_append] at hc
    rcases hc with hc | hc
    · exact ha c hc
    · exact hb c hc) hp

theorem cell_cells {P : Nat → Prop} {c : Nat} (h : P c) : ∀ x ∈ (Nm.cell c).cells, P x := by
  intro x hx
  simp only [Nm.cells, List.mem_singleton] at hx
  subst hx
  exact h

theorem wrapProg_cells {P : Nat → Prop} (kind : WKind) (own : Nm) (v : Int) (hown : ∀ x ∈ own.cells, P x) :
    ∀ (os : List (Nat × Bool)), (∀ o ∈ os, P o.1) → cellsIn P (wrapProg kind own v os) := by
  have tailOk : cellsIn P [.store own v true, .load own] := cellsIn_store hown (cellsIn_load hown (cellsIn_nil _))
  have failOk : cellsIn P [.check own false] := cellsIn_check hown (cellsIn_nil _)
  have throughOk : ∀ c, P c → cellsIn P (storeThrough own v c) := fun c hc =>
    cellsIn_store (cell_cells hc) (cellsIn_move hown hown (cellsIn_load hown (cellsIn_nil _)))
  have fromOk : ∀ (os : List (Nat × Bool)), (∀ o ∈ os, P o.1) → cellsIn P (progAllOfFrom own os) := by
    intro os
    induction os with
    | nil => intro _; exact cellsIn_nil _
    | cons o rest ih =>
      intro hos
      obtain ⟨c, ok⟩ := o
      have hc : P c := hos (c, ok) (by simp)
      exact cellsIn_write hc hown (cellsIn_check (cell_cells hc) (ih (fun o ho => hos o (List.mem_cons_of_mem _ ho))))
  have oneFromOk : ∀ (os : List (Nat × Bool)), (∀ o ∈ os, P o.1) → cellsIn P (progOneOfFrom own os) := by
    intro os
    induction os with
    | nil => intro _; exact cellsIn_nil _
    | cons o rest ih =>
      intro hos
      obtain ⟨c, ok⟩ := o
      have hc : P c := hos (c, ok) (by simp)
      exact cellsIn_write hc hown (cellsIn_check (cell_cells hc) (ih (fun o ho => hos o (List.mem_cons_of_mem _ ho))))
  cases kind with
  | allOf =>
    intro os hos
    exact cellsIn_append (fromOk os hos) tailOk
  | allOfThrough =>
    intro os hos
    simp only [wrapProg, progAllOfThrough]
    refine cellsIn_append (fromOk os hos) ?_
    cases os with
    | nil => exact tailOk
    | cons o rest => exact throughOk o.1 (hos o (by simp))
  | anyOf =>
    intro os
    induction os with
    | nil => intro _; exact failOk
    | cons o rest ih =>
      intro hos
      obtain ⟨c, ok⟩ := o
      have hc : P c := hos (c, ok) (by simp)
      simp only [wrapProg, progAnyOf]
      refine cellsIn_write hc hown (cellsIn_check (cell_cells hc) ?_)
      cases ok with
      | true => exact throughOk c hc
      | false => exact ih (fun o ho => hos o (List.mem_cons_of_mem _ ho))
  | oneOf =>
    intro os hos
    simp only [wrapProg, progOneOf]
    refine cellsIn_append (oneFromOk os hos) ?_
    split
    · exact tailOk
    · exact failOk
  | oneOfThrough =>
    intro os hos
    simp only [wrapProg, progOneOfThrough]
    refine cellsIn_append (oneFromOk os hos) ?_
    split
    · next c b heq =>
      have hm : (c, b) ∈ os.filter fun o => o.2 := by rw [heq]; simp
      exact throughOk c (hos (c, b) (List.mem_filter.mp hm).1)
    · exact failOk
  | notField =>
    intro os
    induction os with
    | nil => intro _; exact tailOk
    | cons o rest ih =>
      intro hos
      obtain ⟨c, ok⟩ := o
      have hc : P c := hos (c, ok) (by simp)
      simp only [wrapProg, progNotField]
      refine cellsIn_write hc hown (cellsIn_check (cell_cells hc) ?_)
      cases ok with
      | true => exact failOk
      | false => exact ih (fun o ho => hos o (List.mem_cons_of_mem _ ho))

theorem nestFrom_cells {P : Nat → Prop} (cW : Nat) (name : String) (kind : WKind) (hW : P cW) :
    ∀ (es : List (Int × List (Nat × Bool))) (i : Nat), (∀ e ∈ es, ∀ o ∈ e.2, P o.1) →
      cellsIn P (progNestFrom cW name kind i es) := by
  intro es
  induction es with
  | nil => intro i _; exact cellsIn_nil _
  | cons e rest ih =>
    intro i hes
    obtain ⟨v, opts⟩ := e
    simp only [progNestFrom]
    refine cellsIn_write hW (fun _ h => nomatch h) (cellsIn_check (cell_cells hW) (cellsIn_append ?_ ?_))
    · exact wrapProg_cells kind (.cell cW) v (cell_cells hW) opts (fun o ho => hes (v, opts) (by simp) o ho)
    · exact ih (i + 1) (fun e he => hes e (List.mem_cons_of_mem _ he))


theorem Call.prog_cellsIn (call : Call) : cellsIn (fun c => call.usesCell c = true) call.prog := by
  cases call with
  | homog cell name w es =>
    have h := cellsIn_mono (Q := fun c => (Call.homog cell name w es).usesCell c = true)
      (fun c (hc : c = cell) => by simp [Call.usesCell, hc]) (homogFrom_cells cell name es 0)
    simp only [Call.prog, progHomog]
    apply cellsIn_append
    · cases w
      · exact cellsIn_nil _
      · exact cellsIn_cons (step_write_const _ (by simp [Call.usesCell])) (cellsIn_nil _)
    · exact cellsIn_cons (step_private rfl rfl) h
  | set cell name es =>
    have h := cellsIn_mono (Q := fun c => (Call.set cell name es).usesCell c = true)
      (fun c (hc : c = cell) => by simp [Call.usesCell, hc]) (setFrom_cells cell es)
    exact cellsIn_cons (step_write_const _ (by simp [Call.usesCell])) h
  | iset cell name es =>
    have h := cellsIn_mono (Q := fun c => (Call.iset cell name es).usesCell c = true)
      (fun c (hc : c = cell) => by simp [Call.usesCell, hc]) (setFrom_cells cell es)
    exact cellsIn_cons (step_private rfl rfl) (cellsIn_append
      (cellsIn_cons (step_write_const _ (by simp [Call.usesCell])) h)
      (cellsIn_cons (step_write_const _ (by simp [Call.usesCell])) h))
  | map kc vc name es =>
    have h := cellsIn_mono (Q := fun c => (Call.map kc vc name es).usesCell c = true)
      (fun c (hc : c = kc ∨ c = vc) => by simpa [Call.usesCell] using hc) (mapFrom_cells kc vc es)
    exact cellsIn_cons (step_write_const _ (by simp [Call.usesCell]))
      (cellsIn_cons (step_write_const _ (by simp [Call.usesCell])) h)
  | pos base name n es =>
    have h := cellsIn_mono (Q := fun c => (Call.pos base name n es).usesCell c = true)
      (fun c (hc : base ≤ c ∧ c < base + n) => by simpa [Call.usesCell] using hc) (posFrom_cells base name n es 0)
    exact cellsIn_cons (step_private rfl rfl) h
  | wrap kind name v os =>
    have hos : ∀ o ∈ os, (Call.wrap kind name v os).usesCell o.1 = true := by
      intro o ho
      simp only [Call.usesCell]
      rw [List.contains_iff_mem, List.mem_map]
      exact ⟨o, ho, rfl⟩
    have h := wrapProg_cells (P := fun c => (Call.wrap kind name v os).usesCell c = true) kind (.const name) v
      (fun _ hx => nomatch hx) os hos
    cases kind <;> exact h
  | nest cW name kind es =>
    have hW : (Call.nest cW name kind es).usesCell cW = true := by simp [Call.usesCell]
    have hes : ∀ e ∈ es, ∀ o ∈ e.2, (Call.nest cW name kind es).usesCell o.1 = true := by
      intro e he o ho
      simp only [Call.usesCell, Bool.or_eq_true, List.any_eq_true]
      right
      refine ⟨e, he, ?_⟩
      rw [List.contains_iff_mem, List.mem_map]
      exact ⟨o, ho, rfl⟩
    exact cellsIn_write hW (fun _ h => nomatch h) (cellsIn_cons (step_private rfl rfl)
      (nestFrom_cells cW name kind hW es 0 hes))

/-- a call only writes and reads the cells of its own declaration -/
theorem Call.prog_cells (call : Call) :
    (∀ c ∈ writeCells call.prog, call.usesCell c = true) ∧ (∀ c ∈ readCells call.prog, call.usesCell c = true) :=
  cellsIn_spec (Call.prog_cellsIn call)

end Typedpy.Sched

namespace Typedpy.Sched

/-! ### private copies: renaming the cells of every program apart -/

theorem Nm.rename_cells (f : Nat → Nat) (n : Nm) : (n.rename f).cells = n.cells.map f := by
  cases n <;> rfl

theorem Step.rename_writeCells (f : Nat → Nat) (s : Step) : (s.rename f).writeCells = s.writeCells.map f := by
  cases s <;> rfl

theorem Step.rename_readCells (f : Nat → Nat) (s : Step) : (s.rename f).readCells = s.readCells.map f := by
  cases s with
  | check n ok => cases ok <;> simp [Step.rename, Step.readCells, Nm.rename_cells]
  | _ => simp [Step.rename, Step.readCells, Nm.rename_cells]

theorem writeCells_rename (f : Nat → Nat) (p : List Step) : ∀ c ∈ writeCells (renameProg f p), ∃ c0, c = f c0 := by
  intro c hc
  simp only [writeCells, renameProg, List.mem_flatMap, List.mem_map] at hc
  obtain ⟨s', ⟨s, _, rfl⟩, hcs⟩ := hc
  rw [Step.rename_writeCells, List.mem_map] at hcs
  obtain ⟨c0, _, rfl⟩ := hcs
  exact ⟨c0, rfl⟩

theorem readCells_rename (f : Nat → Nat) (p : List Step) : ∀ c ∈ readCells (renameProg f p), ∃ c0, c = f c0 := by
  intro c hc
  simp only [readCells, renameProg, List.mem_flatMap, List.mem_map] at hc
  obtain ⟨s', ⟨s, _, rfl⟩, hcs⟩ := hc
  rw [Step.rename_readCells, List.mem_map] at hcs
  obtain ⟨c0, _, rfl⟩ := hcs
  exact ⟨c0, rfl⟩

theorem instFrom_get (priv : Nat → Bool) (N : Nat) : ∀ (progs : List (List Step)) (k i : Nat),
    (instFrom priv N k progs)[i]? = (progs[i]?).map (renameProg (cellMap priv N (k + i))) := by
  intro progs
  induction progs with
  | nil => intro k i; simp [instFrom]
  | cons p rest ih =>
    intro k i
    cases i with
    | zero => simp [instFrom]
    | succ i =>
      simp only [instFrom, List.getElem?_cons_succ]
      rw [ih (k + 1) i]
      have : k + 1 + i = k + (i + 1) := by omega
      rw [this]

theorem instFrom_length (priv : Nat → Bool) (N : Nat) : ∀ (progs : List (List Step)) (k : Nat),
    (instFrom priv N k progs).length = progs.length := by
  intro progs
  induction progs with
  | nil => intro k; rfl
  | cons p rest ih => intro k; simp [instFrom, ih]

/-- private copies made for different programs are different cells -/
theorem privCell_thread {N i j c c' : Nat} (hi : i < N) (hj : j < N) (h : privCell N i c = privCell N j c') : i = j := by
  unfold privCell at h
  have h1 : c * N + i = c' * N + j := by omega
  have h2 : (c * N + i) % N = (c' * N + j) % N := by rw [h1]
  rw [Nat.mul_add_mod_self_right, Nat.mul_add_mod_self_right, Nat.mod_eq_of_lt hi, Nat.mod_eq_of_lt hj] at h2
  exact h2

/-- a private copy is never a shared cell -/
theorem privCell_ne_shared (N i c c' : Nat) : privCell N i c ≠ sharedCell c' := by
  unfold privCell sharedCell
  omega

/-- renaming with an injective map can be undone: instantiated programs with all cells shared behave like the originals
    (used by `decide` examples only through evaluation) -/
theorem instFrom_congr (priv priv' : Nat → Bool) (h : ∀ c, priv c = priv' c) (N : Nat) (progs : List (List Step)) (k : Nat) :
    instFrom priv N k progs = instFrom priv' N k progs := by
  have : priv = priv' := funext h
  rw [this]

end Typedpy.Sched

namespace Typedpy.Sched

/-! ### renaming cells with an injective map does not change what a program computes -/

/-- store `sh'` holds under the renamed cell what `sh` holds under the original one -/
def StoreRel (f : Nat → Nat) (sh sh' : Shared) : Prop := ∀ c, sh' (f c) = sh c

theorem Nm.rename_eval (f : Nat → Nat) (sh sh' : Shared) (h : StoreRel f sh sh') (n : Nm) :
    (n.rename f).eval sh' = n.eval sh := by
  cases n with
  | const s => rfl
  | cell c => exact h c
  | cellSuf c suf => simp only [Nm.rename, Nm.eval, h c]

def TState.rename (f : Nat → Nat) (t : TState) : TState := { t with prog := renameProg f t.prog }

theorem Step.rename_local (f : Nat → Nat) (sh sh' : Shared) (h : StoreRel f sh sh') (s : Step) (rest : List Step)
    (t : TState) :
    (s.rename f).local sh' (renameProg f rest) (t.rename f) = (s.local sh rest t).rename f := by
  cases s with
  | write c n => rfl
  | newTemp => rfl
  | store n v ok =>
    simp only [Step.rename, Step.local, Nm.rename_eval f sh sh' h, TState.rename]
    split <;> rfl
  | load n =>
    simp only [Step.rename, Step.local, Nm.rename_eval f sh sh' h, TState.rename]
    split <;> rfl
  | move a b =>
    simp only [Step.rename, Step.local, Nm.rename_eval f sh sh' h, TState.rename]
    split <;> rfl
  | check n ok =>
    simp only [Step.rename, Step.local, Nm.rename_eval f sh sh' h, TState.rename]
    split <;> rfl
  | emit v => rfl

theorem Step.rename_shared (f : Nat → Nat) (hf : ∀ a b, f a = f b → a = b) (sh sh' : Shared) (h : StoreRel f sh sh')
    (s : Step) : StoreRel f (s.shared sh) ((s.rename f).shared sh') := by
  cases s with
  | write c n =>
    intro x
    simp only [Step.rename, Step.shared, Shared.set, Nm.rename_eval f sh sh' h]
    by_cases hx : x = c
    · simp [hx]
    · have : f x ≠ f c := fun e => hx (hf _ _ e)
      simp [hx, this, h x]
  | _ => exact h

theorem stepT_rename (f : Nat → Nat) (hf : ∀ a b, f a = f b → a = b) (sh sh' : Shared) (h : StoreRel f sh sh')
    (t : TState) :
    StoreRel f (stepT sh t).1 (stepT sh' (t.rename f)).1 ∧ (stepT sh' (t.rename f)).2 = (stepT sh t).2.rename f := by
  unfold stepT
  cases he : t.err with
  | some e => simp only [TState.rename, he]; exact ⟨h, trivial⟩
  | none =>
    cases hp : t.prog with
    | nil => simp only [TState.rename, he, hp, renameProg, List.map_nil]; exact ⟨h, by simp⟩
    | cons s rest =>
      have hpr : (t.rename f).prog = s.rename f :: renameProg f rest := by simp [TState.rename, hp, renameProg]
      have her : (t.rename f).err = none := by simp [TState.rename, he]
      simp only [hpr, her]
      exact ⟨Step.rename_shared f hf sh sh' h s, Step.rename_local f sh sh' h s rest t⟩

theorem alone_rename (f : Nat → Nat) (hf : ∀ a b, f a = f b → a = b) : ∀ (n : Nat) (sh sh' : Shared) (t : TState),
    StoreRel f sh sh' → (alone sh' (t.rename f) n).2 = (alone sh t n).2.rename f := by
  intro n
  induction n with
  | zero => intro sh sh' t _; rfl
  | succ n ih =>
    intro sh sh' t h
    obtain ⟨h1, h2⟩ := stepT_rename f hf sh sh' h t
    rw [alone_succ, alone_succ, h2]
    exact ih _ _ _ h1

/-- a program whose cells are renamed by an injective map computes, alone, exactly what the original computes -/
theorem rename_sequential (f : Nat → Nat) (hf : ∀ a b, f a = f b → a = b) (sh sh' : Shared) (h : StoreRel f sh sh')
    (p : List Step) : sequentialResult sh' (renameProg f p) = sequentialResult sh p := by
  unfold sequentialResult
  have hl : (renameProg f p).length = p.length := by simp [renameProg]
  have hi : TState.init (renameProg f p) = (TState.init p).rename f := rfl
  rw [hl, hi, alone_rename f hf p.length sh sh' _ h]
  simp [TState.result, TState.rename, renameProg]

theorem cellMap_injective (priv : Nat → Bool) {N i : Nat} (hN : i < N) : ∀ a b, cellMap priv N i a = cellMap priv N i b → a = b := by
  intro a b h
  unfold cellMap privCell sharedCell at h
  have hpos : 0 < N := by omega
  by_cases ha : priv a <;> by_cases hb : priv b <;> simp only [ha, hb, if_true, if_false, Bool.false_eq_true] at h
  · have h1 : a * N = b * N := by omega
    exact Nat.eq_of_mul_eq_mul_right hpos h1
  · omega
  · omega
  · omega


theorem instStore_shared (N : Nat) (sh : Shared) (c : Nat) : instStore N sh (sharedCell c) = sh c := by
  unfold instStore sharedCell
  have h1 : 2 * c % 2 = 0 := by omega
  have h2 : 2 * c / 2 = c := by omega
  simp [h1, h2]

theorem instStore_priv {N i : Nat} (hi : i < N) (sh : Shared) (c : Nat) : instStore N sh (privCell N i c) = sh c := by
  unfold instStore privCell
  have h1 : (2 * (c * N + i) + 1) % 2 ≠ 0 := by omega
  have h2 : (2 * (c * N + i) + 1) / 2 = c * N + i := by omega
  have hpos : 0 < N := by omega
  have h3 : (c * N + i) / N = c := by
    rw [Nat.add_comm, Nat.add_mul_div_right _ _ hpos, Nat.div_eq_of_lt hi, Nat.zero_add]
  simp [h1, h2, h3]

end Typedpy.Sched

namespace Typedpy.Sched

/-! ### flat OneOf / NotField read nothing effectively -/

theorem oneOfFrom_reads (n : String) : ∀ os : List (Nat × Bool), readCells (progOneOfFrom (.const n) os) = [] := by
  intro os
  induction os with
  | nil => rfl
  | cons o rest ih =>
    obtain ⟨c, ok⟩ := o
    simp only [readCells] at ih
    simp [readCells, progOneOfFrom, Step.readCells, Nm.cells, ih]

theorem oneOf_reads (n : String) (v : Int) (os : List (Nat × Bool)) : readCells (progOneOf (.const n) v os) = [] := by
  have h := oneOfFrom_reads n os
  simp only [readCells] at h
  simp only [progOneOf, readCells, List.flatMap_append, h, List.nil_append]
  split <;> simp [Step.readCells, Nm.cells]

theorem notField_reads (n : String) (v : Int) : ∀ os : List (Nat × Bool), readCells (progNotField (.const n) v os) = [] := by
  intro os
  induction os with
  | nil => simp [readCells, progNotField, Step.readCells, Nm.cells]
  | cons o rest ih =>
    obtain ⟨c, ok⟩ := o
    simp only [readCells] at ih
    cases ok <;> simp [readCells, progNotField, Step.readCells, Nm.cells, ih]


end Typedpy.Sched

namespace Typedpy.Sched

/-! ### same-value writes -/

theorem uniformB_tail {k : Nat → String} {s : Step} {rest : List Step} (h : uniformB k (s :: rest) = true) :
    uniformB k rest = true := by
  simp only [uniformB, List.all_cons, Bool.and_eq_true] at h
  exact h.2

theorem uniformB_head_write {k : Nat → String} {c : Nat} {n : Nm} {rest : List Step}
    (h : uniformB k (.write c n :: rest) = true) : n = .const (k c) := by
  simp only [uniformB, List.all_cons, Bool.and_eq_true] at h
  simpa using h.1

/-- one step of a thread depends on the store only through the cells its NEXT step reads -/
theorem stepT_congr_head (sh1 sh2 : Shared) (t : TState)
    (h : ∀ s rest, t.prog = s :: rest → ∀ c ∈ s.readCells, sh1 c = sh2 c) : (stepT sh1 t).2 = (stepT sh2 t).2 := by
  unfold stepT
  split
  · rfl
  · rfl
  · next s rest he hp => exact Step.local_congr s sh1 sh2 rest t (h s rest hp)

theorem stepT_uniform (k : Nat → String) (sh : Shared) (t : TState) (hu : uniformB k t.prog = true) :
    uniformB k (stepT sh t).2.prog = true ∧ ∀ c, (stepT sh t).1 c = sh c ∨ (stepT sh t).1 c = k c := by
  unfold stepT
  split
  · exact ⟨hu, fun c => Or.inl rfl⟩
  · exact ⟨hu, fun c => Or.inl rfl⟩
  · next s rest he hp =>
    rw [hp] at hu
    refine ⟨by rw [Step.local_prog]; exact uniformB_tail hu, fun c => ?_⟩
    cases s with
    | write c' n =>
      have hn := uniformB_head_write hu
      subst hn
      simp only [Step.shared, Shared.set, Nm.eval]
      by_cases hc : c = c'
      · right; simp [hc]
      · left; simp [hc]
    | _ => exact Or.inl rfl

/-- Same-value writes: if every write of every thread stores the constant `k c` into cell `c`, and thread `i` reads a cell
    only after it has itself written it, then after EVERY schedule thread `i` is exactly where it is when run alone. -/
theorem run_uniform (k : Nat → String) (i : Nat) (sched : List Nat) :
    ∀ (cfg : Cfg) (t : TState) (sha : Shared) (w : List Nat),
      cfg.threads[i]? = some t →
      (∀ (j : Nat) (tj : TState), cfg.threads[j]? = some tj → uniformB k tj.prog = true) →
      readsAfterOwnWrite w t.prog = true →
      (∀ c ∈ w, cfg.shared c = k c ∧ sha c = k c) →
      (run cfg sched).threads[i]? = some (alone sha t (sched.count i)).2 := by
  induction sched with
  | nil => intro cfg t sha w ht _ _ _; simpa [run, alone] using ht
  | cons j rest ih =>
    intro cfg t sha w ht hu hr hw
    rw [run_cons]
    have hu' : ∀ (j' : Nat) (tj : TState), (stepAt cfg j).threads[j']? = some tj → uniformB k tj.prog = true := by
      intro j' tj htj
      rcases stepAt_thread_cases cfg j j' tj htj with h1 | ⟨tk, h1, h2⟩
      · exact hu j' tj h1
      · rw [h2]; exact (stepT_uniform k cfg.shared tk (hu j' tk h1)).1
    by_cases hji : j = i
    · subst hji
      rw [List.count_cons_self, alone_succ]
      have hloc : (stepT cfg.shared t).2 = (stepT sha t).2 := by
        apply stepT_congr_head
        intro s rest' hp c hc
        rw [hp] at hr
        simp only [readsAfterOwnWrite, Bool.and_eq_true, List.all_eq_true] at hr
        have hcw : c ∈ w := by simpa using hr.1 c hc
        rw [(hw c hcw).1, (hw c hcw).2]
      have hth : (stepAt cfg j).threads[j]? = some (stepT sha t).2 := by
        rw [stepAt_threads_self ht, hloc]
      -- the written set after the step
      cases hd : t.done with
      | true =>
        have h1 : stepT sha t = (sha, t) := stepT_done hd
        have h2 : stepT cfg.shared t = (cfg.shared, t) := stepT_done hd
        have hsh : (stepAt cfg j).shared = cfg.shared := by rw [stepAt_some ht, h2]
        rw [h1] at hth ⊢
        exact ih (stepAt cfg j) t sha w hth hu' hr (fun c hc => by rw [hsh]; exact hw c hc)
      | false =>
        -- t.prog = s :: rest', no error
        have : ∃ s rest', t.prog = s :: rest' ∧ t.err = none := by
          cases he : t.err with
          | some e => simp [TState.done, he] at hd
          | none =>
            cases hp : t.prog with
            | nil => simp [TState.done, he, hp] at hd
            | cons s rest' => exact ⟨s, rest', rfl, rfl⟩
        obtain ⟨s, rest', hp, he⟩ := this
        have hst1 : stepT sha t = (s.shared sha, s.local sha rest' t) := by simp [stepT, he, hp]
        have hst2 : stepT cfg.shared t = (s.shared cfg.shared, s.local cfg.shared rest' t) := by simp [stepT, he, hp]
        have hprog : (stepT sha t).2.prog = rest' := by rw [hst1]; exact Step.local_prog _ _ _ _
        have hus : uniformB k (s :: rest') = true := by rw [← hp]; exact hu j t ht
        rw [hp] at hr
        simp only [readsAfterOwnWrite, Bool.and_eq_true] at hr
        apply ih (stepAt cfg j) (stepT sha t).2 (stepT sha t).1 (s.writeCells ++ w) hth hu'
        · rw [hprog]; exact hr.2
        · intro c hc
          rw [stepAt_some ht, hst1, hst2]
          show s.shared cfg.shared c = k c ∧ s.shared sha c = k c
          cases s with
          | write c' n =>
            have hn := uniformB_head_write hus
            subst hn
            simp only [Step.writeCells, List.cons_append, List.nil_append, List.mem_cons] at hc
            simp only [Step.shared, Shared.set, Nm.eval]
            by_cases hcc : c = c'
            · simp [hcc]
            · simp only [hcc, if_false]
              rcases hc with hc | hc
              · exact absurd hc hcc
              · exact hw c hc
          | _ =>
            simp only [Step.writeCells, List.nil_append] at hc
            exact hw c hc
    · have hc : (j :: rest).count i = rest.count i := by
        rw [List.count_cons]; simp [hji]
      rw [hc]
      have hth : (stepAt cfg j).threads[i]? = some t := by rw [stepAt_threads_ne hji]; exact ht
      apply ih (stepAt cfg j) t sha w hth hu' hr
      intro c hcw
      refine ⟨?_, (hw c hcw).2⟩
      cases hj : cfg.threads[j]? with
      | none => rw [stepAt_none hj]; exact (hw c hcw).1
      | some tj =>
        rw [stepAt_some hj]
        show (stepT cfg.shared tj).1 c = k c
        rcases (stepT_uniform k cfg.shared tj (hu j tj hj)).2 c with h | h
        · rw [h]; exact (hw c hcw).1
        · exact h


end Typedpy.Sched
