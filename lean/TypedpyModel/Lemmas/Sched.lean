/-
  Lemmas/Sched.lean — frame / non-interference lemmas for the interleaving semantics (C20).
-/
import TypedpyModel.Sem.Sched
namespace Typedpy.Sched

/-! ### single steps -/

theorem Step.local_prog (s : Step) (sh : Shared) (rest : List Step) (t : TState) :
    (s.local sh rest t).prog = rest := by
  cases s <;> simp only [Step.local] <;> split <;> rfl

theorem Step.shared_of_not_writes {s : Step} (h : s.writesShared = false) (sh : Shared) :
    s.shared sh = sh := by
  cases s <;> first | rfl | (simp [Step.writesShared] at h)

/-- a step changes the shared store only on the cells it writes -/
theorem Step.shared_frame (s : Step) (sh : Shared) (c : Nat) (hc : c ∉ s.writeCells) :
    s.shared sh c = sh c := by
  cases s with
  | writeShared c' n =>
    simp only [Step.writeCells, List.mem_singleton] at hc
    simp [Step.shared, Shared.set, hc]
  | _ => rfl

/-- the thread-private effect of a step depends only on the cells the step reads -/
theorem Step.local_congr (s : Step) (sh1 sh2 : Shared) (rest : List Step) (t : TState)
    (h : ∀ c ∈ s.readCells, sh1 c = sh2 c) : s.local sh1 rest t = s.local sh2 rest t := by
  cases s with
  | storeTemp c v ok =>
    have := h c (by simp [Step.readCells])
    simp only [Step.local, this]
  | loadTemp c =>
    have := h c (by simp [Step.readCells])
    simp only [Step.local, this]
  | _ => rfl

/-- a step performs the same write whatever the store it starts from -/
theorem Step.shared_congr (s : Step) (sh1 sh2 : Shared) (c : Nat) (h : sh1 c = sh2 c) :
    s.shared sh1 c = s.shared sh2 c := by
  cases s with
  | writeShared c' n =>
    simp only [Step.shared, Shared.set]
    split <;> simp [h]
  | _ => exact h

/-! ### one step of a thread -/

theorem stepT_done {sh : Shared} {t : TState} (h : t.done = true) : stepT sh t = (sh, t) := by
  unfold stepT
  split
  · rfl
  · rfl
  · next s rest he hp =>
    simp [TState.done, he, hp] at h

/-- the remaining program after a step is a suffix of the program before -/
theorem stepT_prog_suffix (sh : Shared) (t : TState) : ∃ pre, t.prog = pre ++ (stepT sh t).2.prog := by
  unfold stepT
  split
  · exact ⟨[], rfl⟩
  · exact ⟨[], rfl⟩
  · next s rest he hp =>
    refine ⟨[s], ?_⟩
    simp [Step.local_prog, hp]

theorem stepT_prog_subset (sh : Shared) (t : TState) : ∀ s ∈ (stepT sh t).2.prog, s ∈ t.prog := by
  obtain ⟨pre, h⟩ := stepT_prog_suffix sh t
  intro s hs
  rw [h]
  exact List.mem_append_right _ hs

def readOnlyT (t : TState) : Prop := ∀ s ∈ t.prog, s.writesShared = false

theorem stepT_shared_of_readOnly {t : TState} (h : readOnlyT t) (sh : Shared) : (stepT sh t).1 = sh := by
  unfold stepT
  split
  · rfl
  · rfl
  · next s rest he hp =>
    exact Step.shared_of_not_writes (h s (by simp [hp])) sh

theorem stepT_readOnly {t : TState} (h : readOnlyT t) (sh : Shared) : readOnlyT (stepT sh t).2 :=
  fun s hs => h s (stepT_prog_subset sh t s hs)

/-- a thread step changes the store only on cells its program writes -/
theorem stepT_shared_frame (sh : Shared) (t : TState) (c : Nat) (hc : c ∉ writeCells t.prog) :
    (stepT sh t).1 c = sh c := by
  unfold stepT
  split
  · rfl
  · rfl
  · next s rest he hp =>
    apply Step.shared_frame
    intro hm
    apply hc
    simp only [writeCells, hp, List.flatMap_cons, List.mem_append]
    exact Or.inl hm

/-- thread-private frame: a step of a thread depends on the store only through the cells its program reads -/
theorem stepT_congr (sh1 sh2 : Shared) (t : TState) (h : ∀ c ∈ readCells t.prog, sh1 c = sh2 c) :
    (stepT sh1 t).2 = (stepT sh2 t).2 := by
  unfold stepT
  split
  · rfl
  · rfl
  · next s rest he hp =>
    apply Step.local_congr
    intro c hc
    apply h
    simp only [readCells, hp, List.flatMap_cons, List.mem_append]
    exact Or.inl hc

theorem stepT_shared_congr (sh1 sh2 : Shared) (t : TState) (c : Nat) (h : sh1 c = sh2 c) :
    (stepT sh1 t).1 c = (stepT sh2 t).1 c := by
  unfold stepT
  split
  · exact h
  · exact h
  · exact Step.shared_congr _ _ _ _ h

theorem writeCells_suffix (sh : Shared) (t : TState) : ∀ c ∈ writeCells (stepT sh t).2.prog, c ∈ writeCells t.prog := by
  obtain ⟨pre, h⟩ := stepT_prog_suffix sh t
  intro c hc
  rw [h]
  simp only [writeCells, List.flatMap_append, List.mem_append] at *
  exact Or.inr hc

theorem readCells_suffix (sh : Shared) (t : TState) : ∀ c ∈ readCells (stepT sh t).2.prog, c ∈ readCells t.prog := by
  obtain ⟨pre, h⟩ := stepT_prog_suffix sh t
  intro c hc
  rw [h]
  simp only [readCells, List.flatMap_append, List.mem_append] at *
  exact Or.inr hc

/-! ### running alone -/

theorem alone_succ (sh : Shared) (t : TState) (n : Nat) :
    alone sh t (n + 1) = alone (stepT sh t).1 (stepT sh t).2 n := rfl

theorem alone_done {sh : Shared} {t : TState} (h : t.done = true) (n : Nat) : alone sh t n = (sh, t) := by
  induction n with
  | zero => rfl
  | succ n ih => rw [alone_succ, stepT_done h]; exact ih

/-- after `prog.length` steps a thread is finished -/
theorem alone_length_done (sh : Shared) (t : TState) : ∀ n, t.prog.length ≤ n → (alone sh t n).2.done = true := by
  intro n
  induction n generalizing sh t with
  | zero =>
    intro h
    have : t.prog = [] := List.eq_nil_of_length_eq_zero (Nat.le_zero.mp h)
    simp [alone, TState.done, this]
  | succ n ih =>
    intro h
    cases hd : t.done with
    | true => rw [alone_done hd]; exact hd
    | false =>
      rw [alone_succ]
      apply ih
      unfold stepT
      split
      · next e he => simp [TState.done, he] at hd
      · next he hp => simp [hp]
      · next s rest he hp =>
        simp only [Step.local_prog]
        simp only [hp, List.length_cons] at h
        exact Nat.le_of_succ_le_succ h

/-- once finished, more steps change nothing: the state after `m ≥ n` steps equals the state after `n` -/
theorem alone_stable (sh : Shared) (t : TState) (n m : Nat) (h : (alone sh t n).2.done = true) (hm : n ≤ m) :
    (alone sh t m).2 = (alone sh t n).2 := by
  induction n generalizing sh t m with
  | zero =>
    simp only [alone] at h
    simp [alone_done h, alone]
  | succ n ih =>
    cases m with
    | zero => exact absurd hm (Nat.not_succ_le_zero n)
    | succ m =>
      rw [alone_succ] at h ⊢
      rw [alone_succ]
      exact ih _ _ m h (Nat.le_of_succ_le_succ hm)

/-- a finished thread's result is its sequential result, however many steps it was given -/
theorem result_of_done (sh : Shared) (p : List Step) (n : Nat)
    (h : (alone sh (TState.init p) n).2.done = true) :
    (alone sh (TState.init p) n).2.result = sequentialResult sh p := by
  unfold sequentialResult
  have hl := alone_length_done sh (TState.init p) p.length (by simp [TState.init])
  rcases Nat.le_total n p.length with hle | hle
  · rw [alone_stable sh _ n p.length h hle]
  · rw [alone_stable sh _ p.length n hl hle]

/-! ### configurations -/

theorem stepAt_none {cfg : Cfg} {i : Nat} (h : cfg.threads[i]? = none) : stepAt cfg i = cfg := by
  simp [stepAt, h]

theorem stepAt_some {cfg : Cfg} {i : Nat} {t : TState} (h : cfg.threads[i]? = some t) :
    stepAt cfg i = { shared := (stepT cfg.shared t).1, threads := cfg.threads.set i (stepT cfg.shared t).2 } := by
  simp [stepAt, h]

theorem run_cons (cfg : Cfg) (j : Nat) (rest : List Nat) : run cfg (j :: rest) = run (stepAt cfg j) rest := rfl

theorem stepAt_threads_ne {cfg : Cfg} {i j : Nat} (h : j ≠ i) : (stepAt cfg j).threads[i]? = cfg.threads[i]? := by
  cases hj : cfg.threads[j]? with
  | none => rw [stepAt_none hj]
  | some t =>
    rw [stepAt_some hj]
    simp [h]

theorem stepAt_threads_self {cfg : Cfg} {i : Nat} {t : TState} (h : cfg.threads[i]? = some t) :
    (stepAt cfg i).threads[i]? = some (stepT cfg.shared t).2 := by
  rw [stepAt_some h]
  have hlt : i < cfg.threads.length := by
    rcases List.getElem?_eq_some_iff.mp h with ⟨hl, _⟩
    exact hl
  simp [hlt]

/-- every thread of the configuration after one scheduling step is a thread of the configuration before, advanced by
    at most one step -/
theorem stepAt_thread_cases (cfg : Cfg) (j k : Nat) (tk' : TState) (h : (stepAt cfg j).threads[k]? = some tk') :
    cfg.threads[k]? = some tk' ∨ ∃ tk, cfg.threads[k]? = some tk ∧ tk' = (stepT cfg.shared tk).2 := by
  by_cases hjk : j = k
  · subst hjk
    cases hj : cfg.threads[j]? with
    | none => rw [stepAt_none hj] at h; rw [hj] at h; exact absurd h (by simp)
    | some t =>
      rw [stepAt_threads_self hj] at h
      right
      exact ⟨t, rfl, (Option.some.inj h).symm⟩
  · left
    rw [stepAt_threads_ne hjk] at h
    exact h

end Typedpy.Sched

namespace Typedpy.Sched

/-! ### the general frame theorems (induction over the schedule, any number of threads) -/

theorem mem_threads_iff {cfg : Cfg} {t : TState} : t ∈ cfg.threads ↔ ∃ k : Nat, cfg.threads[k]? = some t :=
  List.mem_iff_getElem?

/-- If no remaining step of any thread writes shared state, then after EVERY schedule the shared store is unchanged and
    every thread is exactly where it would be had it run alone for as many steps as it was scheduled. -/
theorem run_readOnly (sched : List Nat) : ∀ (cfg : Cfg), (∀ t ∈ cfg.threads, readOnlyT t) →
    (run cfg sched).shared = cfg.shared ∧
    ∀ i t, cfg.threads[i]? = some t →
      (run cfg sched).threads[i]? = some (alone cfg.shared t (sched.count i)).2 := by
  induction sched with
  | nil =>
    intro cfg _
    exact ⟨rfl, fun i t ht => by simpa [run, alone] using ht⟩
  | cons j rest ih =>
    intro cfg h
    rw [run_cons]
    have hsh' : (stepAt cfg j).shared = cfg.shared := by
      cases hj : cfg.threads[j]? with
      | none => rw [stepAt_none hj]
      | some tj =>
        rw [stepAt_some hj]
        exact stepT_shared_of_readOnly (h tj (mem_threads_iff.mpr ⟨j, hj⟩)) _
    have hro' : ∀ t ∈ (stepAt cfg j).threads, readOnlyT t := by
      intro t' ht'
      obtain ⟨k, hk⟩ := mem_threads_iff.mp ht'
      rcases stepAt_thread_cases cfg j k t' hk with h1 | ⟨tk, h1, h2⟩
      · exact h t' (mem_threads_iff.mpr ⟨k, h1⟩)
      · rw [h2]
        exact stepT_readOnly (h tk (mem_threads_iff.mpr ⟨k, h1⟩)) _
    obtain ⟨ih1, ih2⟩ := ih (stepAt cfg j) hro'
    refine ⟨ih1.trans hsh', fun i t ht => ?_⟩
    by_cases hji : j = i
    · subst hji
      rw [ih2 j _ (stepAt_threads_self ht), hsh', List.count_cons_self, alone_succ,
        stepT_shared_of_readOnly (h t (mem_threads_iff.mpr ⟨j, ht⟩))]
    · have hc : (j :: rest).count i = rest.count i := by
        rw [List.count_cons]
        simp [hji]
      rw [ih2 i t (by rw [stepAt_threads_ne hji]; exact ht), hsh', hc]

/-- other threads never write a cell in `R` -/
def othersAvoid (cfg : Cfg) (i : Nat) (R : List Nat) : Prop :=
  ∀ j tj, j ≠ i → cfg.threads[j]? = some tj → ∀ c ∈ writeCells tj.prog, c ∉ R

/-- Non-interference: if the other threads write none of the cells thread `i` reads, then after EVERY schedule thread
    `i` is exactly where it would be had it run alone (from any store that agrees on those cells) for as many steps as
    it was scheduled, and the store still agrees on those cells. -/
theorem run_noninterference (R : List Nat) (i : Nat) (sched : List Nat) :
    ∀ (cfg : Cfg) (t : TState) (sha : Shared),
      cfg.threads[i]? = some t → (∀ c ∈ readCells t.prog, c ∈ R) → othersAvoid cfg i R →
      (∀ c ∈ R, cfg.shared c = sha c) →
      (run cfg sched).threads[i]? = some (alone sha t (sched.count i)).2 ∧
      (∀ c ∈ R, (run cfg sched).shared c = (alone sha t (sched.count i)).1 c) := by
  induction sched with
  | nil =>
    intro cfg t sha ht _ _ hag
    exact ⟨by simpa [run, alone] using ht, by simpa [run, alone] using hag⟩
  | cons j rest ih =>
    intro cfg t sha ht hR hav hag
    rw [run_cons]
    by_cases hji : j = i
    · subst hji
      have hloc : (stepT cfg.shared t).2 = (stepT sha t).2 :=
        stepT_congr _ _ _ (fun c hc => hag c (hR c hc))
      have hth : (stepAt cfg j).threads[j]? = some (stepT sha t).2 := by
        rw [stepAt_threads_self ht, hloc]
      have hR' : ∀ c ∈ readCells (stepT sha t).2.prog, c ∈ R :=
        fun c hc => hR c (readCells_suffix sha t c hc)
      have hav' : othersAvoid (stepAt cfg j) j R := by
        intro k tk hk hk2
        rw [stepAt_threads_ne (Ne.symm hk)] at hk2
        exact hav k tk hk hk2
      have hag' : ∀ c ∈ R, (stepAt cfg j).shared c = (stepT sha t).1 c := by
        intro c hc
        rw [stepAt_some ht]
        exact stepT_shared_congr _ _ _ _ (hag c hc)
      have := ih (stepAt cfg j) (stepT sha t).2 (stepT sha t).1 hth hR' hav' hag'
      rw [List.count_cons_self, alone_succ]
      exact this
    · have hc : (j :: rest).count i = rest.count i := by
        rw [List.count_cons]
        simp [hji]
      rw [hc]
      have hth : (stepAt cfg j).threads[i]? = some t := by
        rw [stepAt_threads_ne hji]; exact ht
      have hav' : othersAvoid (stepAt cfg j) i R := by
        intro k tk' hk hk2
        rcases stepAt_thread_cases cfg j k tk' hk2 with h1 | ⟨tk, h1, h2⟩
        · exact hav k tk' hk h1
        · intro c hc
          rw [h2] at hc
          exact hav k tk hk h1 c (writeCells_suffix _ _ c hc)
      have hag' : ∀ c ∈ R, (stepAt cfg j).shared c = sha c := by
        intro c hc
        cases hj : cfg.threads[j]? with
        | none => rw [stepAt_none hj]; exact hag c hc
        | some tj =>
          rw [stepAt_some hj]
          have hnw : c ∉ writeCells tj.prog := fun hw => hav j tj hji hj c hw hc
          show (stepT cfg.shared tj).1 c = sha c
          rw [stepT_shared_frame _ _ _ hnw]
          exact hag c hc
      exact ih (stepAt cfg j) t sha hth hR hav' hag'

end Typedpy.Sched

namespace Typedpy.Sched

/-! ### no foreign values: whatever the schedule, a thread only ever holds values of its own program -/

def Step.vals : Step → List Int
  | .storeTemp _ v _ => [v]
  | .emit v => [v]
  | _ => []

def progVals (p : List Step) : List Int := p.flatMap Step.vals

theorem lookup_mem {l : List (String × Int)} {k : String} {v : Int} (h : l.lookup k = some v) :
    ∃ k', (k', v) ∈ l := by
  induction l with
  | nil => simp [List.lookup] at h
  | cons a rest ih =>
    obtain ⟨k0, v0⟩ := a
    simp only [List.lookup] at h
    split at h
    · exact ⟨k0, by simp [Option.some.inj h]⟩
    · obtain ⟨k', hk⟩ := ih h
      exact ⟨k', List.mem_cons_of_mem _ hk⟩

/-- everything the thread holds (temp structure, result so far, values still to be processed) is in `V` -/
def ownOnly (V : List Int) (t : TState) : Prop :=
  (∀ kv ∈ t.temp, kv.2 ∈ V) ∧ (∀ v ∈ t.out, v ∈ V) ∧ (∀ v ∈ progVals t.prog, v ∈ V)

theorem stepT_ownOnly (V : List Int) (sh : Shared) (t : TState) (h : ownOnly V t) : ownOnly V (stepT sh t).2 := by
  unfold stepT
  split
  · exact h
  · exact h
  · next s rest he hp =>
    obtain ⟨h1, h2, h3⟩ := h
    have hrest : ∀ v ∈ progVals rest, v ∈ V := by
      intro v hv
      apply h3
      simp only [progVals, hp, List.flatMap_cons, List.mem_append]
      exact Or.inr hv
    have hs : ∀ v ∈ s.vals, v ∈ V := by
      intro v hv
      apply h3
      simp only [progVals, hp, List.flatMap_cons, List.mem_append]
      exact Or.inl hv
    cases s with
    | writeShared c n => exact ⟨h1, h2, hrest⟩
    | newTemp => exact ⟨by simp [Step.local], h2, hrest⟩
    | storeTemp c v ok =>
      simp only [Step.local]
      split
      · refine ⟨?_, h2, hrest⟩
        intro kv hkv
        simp only [List.mem_cons] at hkv
        rcases hkv with rfl | hkv
        · exact hs v (by simp [Step.vals])
        · exact h1 kv hkv
      · exact ⟨h1, h2, hrest⟩
    | loadTemp c =>
      simp only [Step.local]
      split
      · next v hv =>
        refine ⟨h1, ?_, hrest⟩
        intro x hx
        simp only [List.mem_append, List.mem_singleton] at hx
        rcases hx with hx | rfl
        · exact h2 x hx
        · obtain ⟨k', hk⟩ := lookup_mem hv
          exact h1 (k', x) hk
      · exact ⟨h1, h2, hrest⟩
    | emit v =>
      simp only [Step.local]
      refine ⟨h1, ?_, hrest⟩
      intro x hx
      simp only [List.mem_append, List.mem_singleton] at hx
      rcases hx with hx | rfl
      · exact h2 x hx
      · exact hs x (by simp [Step.vals])

theorem run_ownOnly (Vf : Nat → List Int) (sched : List Nat) : ∀ (cfg : Cfg),
    (∀ (i : Nat) (t : TState), cfg.threads[i]? = some t → ownOnly (Vf i) t) →
    ∀ (i : Nat) (t : TState), (run cfg sched).threads[i]? = some t → ownOnly (Vf i) t := by
  induction sched with
  | nil => intro cfg h i t ht; exact h i t ht
  | cons j rest ih =>
    intro cfg h
    rw [run_cons]
    apply ih
    intro k tk' hk
    rcases stepAt_thread_cases cfg j k tk' hk with h1 | ⟨tk, h1, h2⟩
    · exact h k tk' h1
    · rw [h2]
      exact stepT_ownOnly _ _ _ (h k tk h1)

end Typedpy.Sched

namespace Typedpy.Sched

/-! ### a call only touches the cells of its own declaration -/

theorem homogFrom_cells (cell : Nat) (name : String) : ∀ (es : List (Int × Bool)) (i : Nat),
    (∀ c ∈ writeCells (progHomogFrom cell name i es), c = cell) ∧
    (∀ c ∈ readCells (progHomogFrom cell name i es), c = cell) := by
  intro es
  induction es with
  | nil => intro i; simp [progHomogFrom, writeCells, readCells]
  | cons e rest ih =>
    intro i
    obtain ⟨v, ok⟩ := e
    have := ih (i + 1)
    simp only [writeCells, readCells] at this ⊢
    simp only [progHomogFrom, List.flatMap_cons, Step.writeCells, Step.readCells, List.mem_append, List.mem_singleton,
      List.nil_append]
    constructor
    · intro c hc
      rcases hc with hc | hc
      · exact hc
      · exact this.1 c hc
    · intro c hc
      rcases hc with hc | hc | hc
      · exact hc
      · exact hc
      · exact this.2 c hc

theorem setFrom_cells (cell : Nat) : ∀ (es : List (Int × Bool)),
    (∀ c ∈ writeCells (progSetFrom cell es), c = cell) ∧ (∀ c ∈ readCells (progSetFrom cell es), c = cell) := by
  intro es
  induction es with
  | nil => simp [progSetFrom, writeCells, readCells]
  | cons e rest ih =>
    obtain ⟨v, ok⟩ := e
    simp only [writeCells, readCells] at ih ⊢
    simp only [progSetFrom, List.flatMap_cons, Step.writeCells, Step.readCells, List.mem_append, List.mem_singleton,
      List.nil_append]
    constructor
    · intro c hc
      exact ih.1 c hc
    · intro c hc
      rcases hc with hc | hc | hc
      · exact hc
      · exact hc
      · exact ih.2 c hc

theorem mapFrom_cells (kc vc : Nat) : ∀ (es : List ((Int × Bool) × (Int × Bool))),
    (∀ c ∈ writeCells (progMapFrom kc vc es), c = kc ∨ c = vc) ∧
    (∀ c ∈ readCells (progMapFrom kc vc es), c = kc ∨ c = vc) := by
  intro es
  induction es with
  | nil => simp [progMapFrom, writeCells, readCells]
  | cons e rest ih =>
    obtain ⟨⟨k, kok⟩, ⟨v, vok⟩⟩ := e
    simp only [writeCells, readCells] at ih ⊢
    simp only [progMapFrom, List.flatMap_cons, Step.writeCells, Step.readCells, List.mem_append, List.mem_singleton,
      List.nil_append]
    constructor
    · intro c hc
      exact ih.1 c hc
    · intro c hc
      rcases hc with hc | hc | hc | hc | hc
      · exact Or.inl hc
      · exact Or.inr hc
      · exact Or.inr hc
      · exact Or.inl hc
      · exact ih.2 c hc

theorem posFrom_cells (base : Nat) (name : String) (n : Nat) : ∀ (es : List (Int × Bool)) (i : Nat),
    (∀ c ∈ writeCells (progPosFrom base name n i es), base ≤ c ∧ c < base + n) ∧
    (∀ c ∈ readCells (progPosFrom base name n i es), base ≤ c ∧ c < base + n) := by
  intro es
  induction es with
  | nil => intro i; simp [progPosFrom, writeCells, readCells]
  | cons e rest ih =>
    intro i
    obtain ⟨v, ok⟩ := e
    have := ih (i + 1)
    simp only [writeCells, readCells] at this ⊢
    simp only [progPosFrom]
    split
    · next hlt =>
      simp only [List.flatMap_cons, Step.writeCells, Step.readCells, List.mem_append, List.mem_singleton,
        List.nil_append]
      constructor
      · intro c hc
        rcases hc with hc | hc
        · subst hc; omega
        · exact this.1 c hc
      · intro c hc
        rcases hc with hc | hc | hc
        · subst hc; omega
        · subst hc; omega
        · exact this.2 c hc
    · simp only [List.flatMap_cons, Step.writeCells, Step.readCells, List.nil_append]
      exact this

set_option linter.unusedSimpArgs false in
/-- a call only writes and reads the cells of its own declaration -/
theorem Call.prog_cells (call : Call) :
    (∀ c ∈ writeCells call.prog, call.usesCell c = true) ∧ (∀ c ∈ readCells call.prog, call.usesCell c = true) := by
  cases call with
  | homog cell name w es =>
    have := homogFrom_cells cell name es 0
    simp only [writeCells, readCells] at this
    simp only [Call.prog, progHomog, Call.usesCell, writeCells, readCells, beq_iff_eq]
    constructor
    · intro c hc
      cases w <;>
        simp only [List.flatMap_append, List.flatMap_cons, List.flatMap_nil, Step.writeCells, List.mem_append,
          List.mem_singleton, List.nil_append, List.append_nil, List.not_mem_nil, false_or, ite_true,
          Bool.false_eq_true, ite_false, if_true, if_false] at hc
      · exact this.1 c hc
      · rcases hc with hc | hc
        · exact hc
        · exact this.1 c hc
    · intro c hc
      cases w <;>
        simp only [List.flatMap_append, List.flatMap_cons, List.flatMap_nil, Step.readCells, List.mem_append,
          List.mem_singleton, List.nil_append, List.append_nil, List.not_mem_nil, false_or, ite_true,
          Bool.false_eq_true, ite_false, if_true, if_false] at hc
      · exact this.2 c hc
      · exact this.2 c hc
  | set cell name es =>
    have := setFrom_cells cell es
    simp only [writeCells, readCells] at this
    simp only [Call.prog, progSet, Call.usesCell, writeCells, readCells, beq_iff_eq, List.flatMap_cons,
      Step.writeCells, Step.readCells, List.mem_append, List.mem_singleton, List.nil_append]
    constructor
    · intro c hc
      rcases hc with hc | hc
      · exact hc
      · exact this.1 c hc
    · intro c hc
      exact this.2 c hc
  | map kc vc name es =>
    have := mapFrom_cells kc vc es
    simp only [writeCells, readCells] at this
    simp only [Call.prog, progMap, Call.usesCell, writeCells, readCells, Bool.or_eq_true, beq_iff_eq, List.flatMap_cons,
      Step.writeCells, Step.readCells, List.mem_append, List.mem_singleton, List.nil_append]
    constructor
    · intro c hc
      rcases hc with hc | hc | hc
      · exact Or.inl hc
      · exact Or.inr hc
      · exact this.1 c hc
    · intro c hc
      exact this.2 c hc
  | pos base name n es =>
    have := posFrom_cells base name n es 0
    simp only [writeCells, readCells] at this
    simp only [Call.prog, progPos, Call.usesCell, writeCells, readCells, Bool.and_eq_true, decide_eq_true_eq,
      List.flatMap_cons, Step.writeCells, Step.readCells, List.nil_append]
    exact this

end Typedpy.Sched
