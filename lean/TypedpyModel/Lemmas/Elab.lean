/-
  Lemmas/Elab.lean — helper lemmas for C13: inside the supported region the model of typedpy's
  elaboration (`Sem/Elaborate`, instantiated with the pinned type map) sends every spelling to its
  documented meaning (`Spec/Meaning.denote`), in every position a sub-expression can be consumed in
  (`get_typing_lib_info`, `FieldMeta.__getitem__`, `_map_to_field`, `_or_fields`, typing's union
  flattening).  Structural induction over spellings; no depth bound.
-/
import TypedpyModel.Spec.Meaning
import TypedpyModel.Pinned.TypeMap
namespace Typedpy.Elab
open Typedpy

/-- the table the model is instantiated with -/
abbrev ptm : TypeMap := Pinned.typeMap

/-! ### facts read off the pinned table -/

theorem cbt_scalar (k : Scalar) : ptm.cbt k.atom = some k.head := by cases k <;> rfl
theorem generic_scalar (k : Scalar) : ptm.generic k.atom = false := by cases k <;> rfl
theorem cbt_coll (c : Coll) : ptm.cbt c.atom = some c.head := by cases c <;> rfl
theorem generic_coll (c : Coll) : ptm.generic c.atom = false := by cases c <;> rfl
theorem generic_tcoll (c : Coll) : ptm.generic c.tAtom = true := by cases c <;> rfl
theorem origin_tcoll (c : Coll) : ptm.origin c.tAtom = some c.atom := by cases c <;> rfl
theorem cbt_dict : ptm.cbt .dict = some .map := rfl
theorem generic_dict : ptm.generic .dict = false := rfl
theorem generic_tdict : ptm.generic .tDict = true := rfl
theorem origin_tdict : ptm.origin .tDict = some .dict := rfl
theorem cbt_tunion : ptm.cbt .tUnion = some .anyOf := rfl
theorem cbt_tuple : ptm.cbt .tuple = some .tuple := rfl

theorem default_scalar (k : Scalar) : defaultDecl k.head = .ok k.decl := by cases k <;> rfl
theorem default_coll (c : Coll) (h : (c != Coll.tuple) = true) : defaultDecl c.head = .ok c.anyDecl := by
  cases c <;> first | rfl | simp at h
theorem mkItems_coll (c : Coll) (d : FieldDecl) : mkItems c.head [d] = .ok (c.ofDecl d) := by cases c <;> rfl
theorem coll_head_ne_anyOf (c : Coll) : (c.head == Head.anyOf) = false := by cases c <;> rfl

/-! ### objects -/

/-- a `typing.Union` or a PEP-604 `types.UnionType` (both are flattened by an enclosing union) -/
def isTUnion : Obj → Bool
  | .tUnion _ => true
  | .uType _ => true
  | _ => false

def isNoneTy : Obj → Bool
  | .noneTy => true
  | _ => false

/-- what the induction carries about the object a supported spelling evaluates to -/
structure Good (s : Sp) (o : Obj) : Prop where
  gt : gtli ptm o = .ok (some (denote s))
  fo : isFieldObj o = isFieldExpr s
  nu : unionLike s = false → isTUnion o = false
  nn : isNoneTy o = false
  /-- a call of a Field class evaluates to an instance -/
  ki : kwAllowed s = true → o = .finst (denote s)
  /-- only the name of a Structure class evaluates to a Structure class -/
  sc : isSclsObj o = isStructSp s
  /-- only `Owner | …` evaluates to a Structure-first PEP 604 union -/
  su : structFirstUnion o = structFirstPipe s

theorem fieldExpr_not_sfp : ∀ s : Sp, isFieldExpr s = true → structFirstPipe s = false := by
  intro s
  induction s with
  | pipe x y ihx _ =>
    intro h
    have hx : isFieldExpr x = true := by simpa [isFieldExpr] using h
    have h1 : isStructSp x = false := by cases x <;> first | rfl | simp [isFieldExpr] at hx
    simp [structFirstPipe, h1, ihx hx]
  | _ => intros; rfl

theorem fieldOrScls_not_sfu {o : Obj} (h : (isFieldObj o || isSclsObj o) = true) : structFirstUnion o = false := by
  cases o <;> first | rfl | simp [isFieldObj, isSclsObj] at h

theorem fieldExpr_not_struct {s : Sp} (h : isFieldExpr s = true) : isStructSp s = false := by
  cases s <;> first | rfl | simp [isFieldExpr] at h

theorem unionLike_not_struct {s : Sp} (h : unionLike s = true) : isStructSp s = false := by
  cases s <;> first | rfl | simp [unionLike] at h

theorem fieldObj_not_scls {o : Obj} (h : isFieldObj o = true) : isSclsObj o = false := by
  cases o <;> first | rfl | simp [isFieldObj] at h

theorem someDecl_ok {r : R FieldDecl} {m : FieldDecl} (h : someDecl r = .ok (some m)) : r = .ok m := by
  cases r with
  | error e => simp [someDecl] at h
  | ok d => simp [someDecl] at h; simp [h]

/-- `FieldMeta.__getitem__` agrees with `get_typing_lib_info` whenever the latter yields a field -/
theorem getItem_of_gtli {o : Obj} {m : FieldDecl} (h : gtli ptm o = .ok (some m))
    (hu : structFirstUnion o = false) : getItem ptm o = .ok m := by
  cases o with
  | finst d => simp [gtli] at h; simp [getItem, h]
  | fcls hd => simp only [gtli] at h; simp [getItem, someDecl_ok h]
  | noneV => simp [gtli] at h
  | ty a => simp [getItem, getItemFallback, h]
  | alias t og args => simp [getItem, getItemFallback, h]
  | tUnion ms => simp [getItem, getItemFallback, h]
  | uType ms => simp [getItem, getItemFallback, h]
  | noneTy => simp [getItem, getItemFallback, h]
  | scls d => simp [gtli] at h; simp [getItem, h]

theorem getItem_of_gtli' {o : Obj} {m : FieldDecl} (h : gtli ptm o = .ok (some m)) : getItem ptm o = .ok m := by
  cases o with
  | finst d => simp [gtli] at h; simp [getItem, h]
  | fcls hd => simp only [gtli] at h; simp [getItem, someDecl_ok h]
  | noneV => simp [gtli] at h
  | ty a => simp [getItem, getItemFallback, h]
  | alias t og args => simp [getItem, getItemFallback, h]
  | tUnion ms => simp [getItem, getItemFallback, h]
  | uType ms => simp [getItem, getItemFallback, h]
  | noneTy => simp [getItem, getItemFallback, h]
  | scls d => simp [gtli] at h; simp [getItem, h]

/-- the same, through the `Good` invariant: an expression that may be an argument of a typedpy field -/
theorem getItem_good {s : Sp} {o : Obj} (g : Good s o) (_h : itemOk s = true) : getItem ptm o = .ok (denote s) :=
  getItem_of_gtli' g.gt

/-- ... a Field or a Structure class in particular -/
theorem getItem_fieldObj {o : Obj} {m : FieldDecl} (h : gtli ptm o = .ok (some m))
    (hf : (isFieldObj o || isSclsObj o) = true) : getItem ptm o = .ok m :=
  getItem_of_gtli h (fieldOrScls_not_sfu hf)

theorem mapToField_of_gtli {o : Obj} {m : FieldDecl} (h : gtli ptm o = .ok (some m)) (hf : isFieldObj o = true) :
    mapToField o = .ok (some m) := by
  cases o with
  | finst d => simp [gtli] at h; simp [mapToField, h]
  | fcls hd => simp only [gtli] at h; simpa [mapToField] using h
  | _ => simp [isFieldObj] at hf

/-- `items=` given a Field or a Structure class -/
theorem mapToField_good {s : Sp} {o : Obj} (g : Good s o) (h : isFieldOrStruct s = true) :
    mapToField o = .ok (some (denote s)) := by
  have hg := g.gt
  have hfo := g.fo
  have hsc := g.sc
  simp only [isFieldOrStruct, Bool.or_eq_true] at h
  cases o with
  | finst d => simp [gtli] at hg; simp [mapToField, hg]
  | fcls hd => simp only [gtli] at hg; simpa [mapToField] using hg
  | scls d => simp [gtli] at hg; simp [mapToField, hg]
  | _ =>
    have h1 : isFieldExpr s = false := by rw [← hfo]; rfl
    have h2 : isStructSp s = false := by rw [← hsc]; rfl
    simp [h1, h2] at h

theorem callItem_good {s : Sp} {o : Obj} (c : Coll) (g : Good s o) (h : isFieldOrStruct s = true) :
    callItem c o = .ok (some (denote s)) := by
  simp only [callItem, mapToField_good g h]

/-- one entry of `Tuple(items=[…])`: a Field or a Structure class -/
theorem tupleItem_good {s : Sp} {o : Obj} (g : Good s o) (h : isFieldOrStruct s = true) :
    tupleItem o = .ok (denote s) := by
  have hg := g.gt
  have hfo := g.fo
  have hsc := g.sc
  simp only [isFieldOrStruct, Bool.or_eq_true] at h
  cases o with
  | finst d => simp [gtli] at hg; simp [tupleItem, hg]
  | fcls hd => simp only [gtli] at hg; simpa [tupleItem] using someDecl_ok hg
  | scls d => simp [gtli] at hg; simp [tupleItem, hg]
  | _ =>
    have h1 : isFieldExpr s = false := by rw [← hfo]; rfl
    have h2 : isStructSp s = false := by rw [← hsc]; rfl
    simp [h1, h2] at h

theorem tupleItem_of_gtli {o : Obj} {m : FieldDecl} (h : gtli ptm o = .ok (some m)) (hf : isFieldObj o = true) :
    tupleItem o = .ok m := by
  cases o with
  | finst d => simp [gtli] at h; simp [tupleItem, h]
  | fcls hd => simp only [gtli] at h; simpa [tupleItem] using someDecl_ok h
  | _ => simp [isFieldObj] at hf

theorem typingArg_of_gtli {o : Obj} {m : FieldDecl} (h : gtli ptm o = .ok (some m)) : typingArg o = o := by
  cases o <;> first | rfl | simp [gtli] at h

theorem unionMembers_of_gtli {o : Obj} {m : FieldDecl} (h : gtli ptm o = .ok (some m)) (hu : isTUnion o = false) :
    unionMembers o = [o] := by
  cases o with
  | tUnion ms => simp [isTUnion] at hu
  | uType ms => simp [isTUnion] at hu
  | noneV => simp [gtli] at h
  | _ => rfl

theorem gtliArgs_one {o : Obj} {m : FieldDecl} (b : Bool) (h : gtli ptm o = .ok (some m)) :
    gtliArgs ptm b [o] = .ok [m] := by
  simp [gtliArgs, h, argOf]

theorem gtliArgs_two {o₁ o₂ : Obj} {m₁ m₂ : FieldDecl} (b : Bool) (h₁ : gtli ptm o₁ = .ok (some m₁))
    (h₂ : gtli ptm o₂ = .ok (some m₂)) : gtliArgs ptm b [o₁, o₂] = .ok [m₁, m₂] := by
  simp [gtliArgs, h₁, h₂, argOf]

theorem good_finst (s : Sp) (d : FieldDecl) (hd : denote s = d) (hf : isFieldExpr s = true) : Good s (.finst d) :=
  ⟨by simp [gtli, hd], by simp [isFieldObj, hf], fun _ => rfl, rfl, fun _ => by rw [hd],
    by rw [fieldExpr_not_struct hf]; rfl, by rw [fieldExpr_not_sfp s hf]; rfl⟩

/-- typing does not merge an object that maps to a field with `NoneType` -/
theorem objEq_noneTy {o : Obj} (h : isNoneTy o = false) : objEq o .noneTy = false := by
  cases o <;> simp [objEq, isNoneTy] at *

theorem mkUnion_pair {a b : Obj} (h : objEq a b = false) : mkUnion [a, b] = .tUnion [a, b] := by
  simp [mkUnion, dedupObj, h]

theorem gtli_tUnion_pair {a b : Obj} {ma mb : FieldDecl} (ha : gtli ptm a = .ok (some ma))
    (hb : gtli ptm b = .ok (some mb)) : gtli ptm (.tUnion [a, b]) = .ok (some (.anyOf [ma, mb])) := by
  simp [gtli, cbt_tunion, gtliArgs_two _ ha hb, mkFromArgs, someDecl]

theorem good_tUnion (s : Sp) {a b : Obj} {ma mb : FieldDecl} (ha : gtli ptm a = .ok (some ma))
    (hb : gtli ptm b = .ok (some mb)) (hd : denote s = .anyOf [ma, mb]) (hf : isFieldExpr s = false)
    (hu : unionLike s = true) (hp : structFirstPipe s = false) : Good s (.tUnion [a, b]) :=
  ⟨by rw [gtli_tUnion_pair ha hb, hd], by simp [isFieldObj, hf], fun h => by simp [hu] at h, rfl,
    fun h => by cases s <;> simp [kwAllowed, unionLike] at h hu, by rw [unionLike_not_struct hu]; rfl,
    by rw [hp]; rfl⟩


theorem mkUType_pair {a b : Obj} (h : objEq a b = false) : mkUType [a, b] = .uType [a, b] := by
  simp [mkUType, dedupObj, h]

theorem gtli_uType_pair {a b : Obj} {ma mb : FieldDecl} (ha : gtli ptm a = .ok (some ma))
    (hb : gtli ptm b = .ok (some mb)) : gtli ptm (.uType [a, b]) = .ok (some (.anyOf [ma, mb])) := by
  simp [gtli, cbt_tunion, gtliArgs_two _ ha hb, mkFromArgs, someDecl]

/-- a PEP-604 union of two plain types is consumed like `typing.Union` of them -/
theorem good_uType (s : Sp) {a b : Obj} {ma mb : FieldDecl} (ha : gtli ptm a = .ok (some ma))
    (hb : gtli ptm b = .ok (some mb)) (hd : denote s = .anyOf [ma, mb]) (hf : isFieldExpr s = false)
    (hu : unionLike s = true) (hk : kwAllowed s = false)
    (hsu : structFirstUnion (.uType [a, b]) = structFirstPipe s) : Good s (.uType [a, b]) :=
  ⟨by rw [gtli_uType_pair ha hb, hd], by simp [isFieldObj, hf], fun h => by simp [hu] at h, rfl,
    fun h => by simp [hk] at h, by rw [unionLike_not_struct hu]; rfl, hsu⟩

theorem plainSp_not_sfp {s : Sp} (h : plainSp s = true) : structFirstPipe s = false := by
  cases s <;> first | rfl | simp [plainSp] at h

theorem sfu_pair (a b : Obj) : structFirstUnion (.uType [a, b]) = isSclsObj a := by
  cases a <;> rfl

theorem plainSp_not_field {s : Sp} (h : plainSp s = true) : isFieldExpr s = false := by
  cases s <;> simp [plainSp] at h <;> rfl

theorem plainSp_plainType {s : Sp} {o : Obj} (h : plainSp s = true) (hev : ev ptm s = .ok o) :
    plainType ptm o = true := by
  cases s <;> simp [plainSp] at h
  case builtin k =>
    simp [ev] at hev; subst hev
    cases k <;> first | rfl | simp at h
  case bareBuiltin c => simp [ev] at hev; subst hev; cases c <;> rfl
  case dictBare => simp [ev] at hev; subst hev; rfl
  case pep585 c x =>
    simp only [ev] at hev
    cases hx : ev ptm x with
    | error e => simp [hx] at hev
    | ok ox => simp [hx] at hev; subst hev; rfl
  case dict585 k v =>
    simp only [ev] at hev
    cases hk : ev ptm k with
    | error e => simp [hk] at hev
    | ok ok' =>
      cases hv : ev ptm v with
      | error e => simp [hk, hv] at hev
      | ok ov => simp [hk, hv] at hev; subst hev; rfl
  case scls d n => simp [ev] at hev; subst hev; rfl
  case tup585 k v =>
    simp only [ev] at hev
    cases hk : ev ptm k with
    | error e => simp [hk] at hev
    | ok ok' =>
      cases hv : ev ptm v with
      | error e => simp [hk, hv] at hev
      | ok ov => simp [hk, hv] at hev; subst hev; rfl

theorem plainRightSp_plainRight {s : Sp} {o : Obj} (h : plainRightSp s = true) (hev : ev ptm s = .ok o) :
    plainRight ptm o = true := by
  by_cases hp : plainSp s = true
  · have := plainSp_plainType hp hev
    cases o <;> simp_all [plainRight]
  · cases s <;> simp [plainRightSp] at h <;> first | (simp [ev] at hev; subst hev; rfl) | (exact absurd h hp)

theorem isNoneLit_eq {y : Sp} (h : isNoneLit y = true) : y = .noneLit := by
  cases y <;> simp [isNoneLit] at h ⊢

theorem plainSp_not_typing {s : Sp} {o : Obj} (h : plainSp s = true) (hev : ev ptm s = .ok o) :
    typingObj ptm o = false := by
  cases s <;> simp [plainSp] at h
  case builtin k => simp [ev] at hev; subst hev; cases k <;> rfl
  case bareBuiltin c => simp [ev] at hev; subst hev; cases c <;> rfl
  case dictBare => simp [ev] at hev; subst hev; rfl
  case pep585 c x =>
    simp only [ev] at hev
    cases hx : ev ptm x with
    | error e => simp [hx] at hev
    | ok ox => simp [hx] at hev; subst hev; rfl
  case dict585 k v =>
    simp only [ev] at hev
    cases hk : ev ptm k with
    | error e => simp [hk] at hev
    | ok ok' =>
      cases hv : ev ptm v with
      | error e => simp [hk, hv] at hev
      | ok ov => simp [hk, hv] at hev; subst hev; rfl
  case scls d n => simp [ev] at hev; subst hev; rfl
  case tup585 k v =>
    simp only [ev] at hev
    cases hk : ev ptm k with
    | error e => simp [hk] at hev
    | ok ok' =>
      cases hv : ev ptm v with
      | error e => simp [hk, hv] at hev
      | ok ov => simp [hk, hv] at hev; subst hev; rfl

/-- a right operand of the plain kind is not a `typing` object, and is a plain type or a Field class -/
theorem plainRightSp_kind {s : Sp} {o : Obj} (h : plainRightSp s = true) (hev : ev ptm s = .ok o) :
    typingObj ptm o = false ∧ (plainType ptm o || isFclsObj o) = true := by
  by_cases hp : plainSp s = true
  · exact ⟨plainSp_not_typing hp hev, by simp [plainSp_plainType hp hev]⟩
  · cases s <;> simp [plainRightSp] at h <;>
      first | (simp [ev] at hev; subst hev; exact ⟨rfl, rfl⟩) | (exact absurd h hp)

theorem objEq_noneTy_left {o : Obj} (h : isNoneTy o = false) : objEq .noneTy o = false := by
  cases o <;> simp [objEq, isNoneTy] at *

/-- a member of `Union[…]` / `X | Y`: `None`, or a supported expression that is not itself a union -/
theorem member_ok {z : Sp} (ih : supported ptm z = true → ∃ o, ev ptm z = .ok o ∧ Good z o)
    (h : isNoneLit z = true ∨ (supported ptm z = true ∧ unionLike z = false)) :
    ∃ o, ev ptm z = .ok o ∧ unionMembers o = [typingArg o] ∧ gtli ptm (typingArg o) = .ok (some (denote z))
      ∧ isNoneTy (typingArg o) = isNoneLit z := by
  rcases h with h | h
  · have := isNoneLit_eq h; subst this
    exact ⟨.noneV, rfl, rfl, rfl, rfl⟩
  · obtain ⟨o, hev, g⟩ := ih h.1
    have hz : isNoneLit z = false := by
      cases z <;> first | rfl | (simp [supported] at h)
    exact ⟨o, hev, by rw [typingArg_of_gtli g.gt]; exact unionMembers_of_gtli g.gt (g.nu h.2),
      by rw [typingArg_of_gtli g.gt]; exact g.gt, by rw [typingArg_of_gtli g.gt, g.nn, hz]⟩

/-- an argument of `AnyOf[…]`: `None`, or a supported expression -/
theorem item_ok {z : Sp} (ih : supported ptm z = true → ∃ o, ev ptm z = .ok o ∧ Good z o)
    (h : isNoneLit z = true ∨ (supported ptm z = true ∧ itemOk z = true)) :
    ∃ o, ev ptm z = .ok o ∧ getItem ptm o = .ok (denote z) := by
  rcases h with h | h
  · have := isNoneLit_eq h; subst this
    exact ⟨.noneV, rfl, rfl⟩
  · obtain ⟨o, hev, g⟩ := ih h.1
    exact ⟨o, hev, getItem_good g h.2⟩

/-- `_or_fields` with a non-field right operand that `get_typing_lib_info` converts -/
theorem orFields_converted {l r : Obj} {dl dr : FieldDecl} (hl : getItem ptm l = .ok dl)
    (hr : gtli ptm r = .ok (some dr)) (hf : isFieldObj r = false) :
    orFields ptm l r = .ok (.finst (.anyOf [dl, dr])) := by
  cases r with
  | noneV => simp [gtli] at hr
  | fcls h => simp [isFieldObj] at hf
  | finst d => simp [isFieldObj] at hf
  | scls d =>
    simp [gtli] at hr
    rw [orFields, hl]
    simp [isFieldObj, isSclsObj, getItem, hr]
  | _ => simp [orFields, hl, isFieldObj, isSclsObj, orConverted, hr]


theorem unionMembers_noneV : unionMembers .noneV = [.noneTy] := rfl
theorem isFieldObj_noneV : isFieldObj .noneV = false := rfl
theorem typingObj_noneV : typingObj ptm .noneV = false := rfl
theorem plainType_noneV : plainType ptm .noneV = false := rfl
theorem plainRight_noneV : plainRight ptm .noneV = true := rfl
theorem getItem_noneV : getItem ptm .noneV = .ok .noneF := rfl
theorem isSclsObj_noneV : isSclsObj .noneV = false := rfl

/-- Main lemma: a supported spelling evaluates, and the resulting object is consumed as its documented
    meaning in every position. -/
theorem ev_good : ∀ s : Sp, supported ptm s = true → ∃ o, ev ptm s = .ok o ∧ Good s o := by
  intro s
  induction s with
  | builtin k =>
    intro _
    exact ⟨.ty k.atom, rfl,
      ⟨by simp [gtli, generic_scalar, cbt_scalar, default_scalar, someDecl, denote], rfl, fun _ => rfl, rfl, fun h => by simp [kwAllowed] at h, rfl, rfl⟩⟩
  | fcls k =>
    intro _
    exact ⟨.fcls k.head, rfl, ⟨by simp [gtli, default_scalar, someDecl, denote], rfl, fun _ => rfl, rfl, fun h => by simp [kwAllowed] at h, rfl, rfl⟩⟩
  | finst k =>
    intro _
    exact ⟨.finst k.decl, by simp [ev, default_scalar], good_finst _ _ rfl rfl⟩
  | lit d n =>
    intro _
    exact ⟨.finst d, rfl, good_finst _ _ rfl rfl⟩
  | noneLit => intro h; simp [supported] at h
  | bareBuiltin c =>
    intro h
    have hc := default_coll c (by simpa [supported] using h)
    exact ⟨.ty c.atom, rfl,
      ⟨by simp [gtli, generic_coll, cbt_coll, hc, someDecl, denote], rfl, fun _ => rfl, rfl, fun h => by simp [kwAllowed] at h, rfl, rfl⟩⟩
  | bareTyping c =>
    intro h
    have hc := default_coll c (by simpa [supported] using h)
    exact ⟨.ty c.tAtom, rfl,
      ⟨by simp [gtli, generic_tcoll, origin_tcoll, ofOrigin, cbt_coll, hc, denote], rfl, fun _ => rfl, rfl, fun h => by simp [kwAllowed] at h, rfl, rfl⟩⟩
  | bareCls c =>
    intro h
    have hc := default_coll c (by simpa [supported] using h)
    exact ⟨.fcls c.head, rfl, ⟨by simp [gtli, hc, someDecl, denote], rfl, fun _ => rfl, rfl, fun h => by simp [kwAllowed] at h, rfl, rfl⟩⟩
  | bareInst c =>
    intro h
    have hc := default_coll c (by simpa [supported] using h)
    exact ⟨.finst c.anyDecl, by simp [ev, hc], good_finst _ _ rfl rfl⟩
  | pep585 c x ih =>
    intro h
    simp only [supported] at h
    obtain ⟨ox, hev, g⟩ := ih h
    refine ⟨.alias false c.atom [ox], by simp [ev, hev], ⟨?_, rfl, fun _ => rfl, rfl, fun h => by simp [kwAllowed] at h, rfl, rfl⟩⟩
    simp [gtli, cbt_coll, gtliArgs_one _ g.gt, mkFromArgs, coll_head_ne_anyOf, mkItems_coll, someDecl, denote]
  | typingG c x ih =>
    intro h
    simp only [supported] at h
    obtain ⟨ox, hev, g⟩ := ih h
    refine ⟨.alias true c.atom [ox], by simp [ev, hev, typingArg_of_gtli g.gt], ⟨?_, rfl, fun _ => rfl, rfl, fun h => by simp [kwAllowed] at h, rfl, rfl⟩⟩
    simp [gtli, cbt_coll, gtliArgs_one _ g.gt, mkFromArgs, coll_head_ne_anyOf, mkItems_coll, someDecl, denote]
  | sub c x ih =>
    intro h
    simp only [supported, Bool.and_eq_true] at h
    obtain ⟨ox, hev, g⟩ := ih h.1
    exact ⟨.finst (c.ofDecl (denote x)), by simp [ev, hev, getItem_good g h.2, mkItems_coll],
      good_finst _ _ rfl rfl⟩
  | call c x ih =>
    intro h
    simp only [supported, Bool.and_eq_true] at h
    obtain ⟨ox, hev, g⟩ := ih h.1
    exact ⟨.finst (c.ofDecl (denote x)),
      by simp [ev, hev, callItem_good c g h.2, mkFromArgs, coll_head_ne_anyOf, mkItems_coll],
      good_finst _ _ rfl rfl⟩
  | dictBare =>
    intro _
    exact ⟨.ty .dict, rfl, ⟨by simp [gtli, generic_dict, cbt_dict, defaultDecl, someDecl, denote], rfl, fun _ => rfl, rfl, fun h => by simp [kwAllowed] at h, rfl, rfl⟩⟩
  | tDictBare =>
    intro _
    exact ⟨.ty .tDict, rfl,
      ⟨by simp [gtli, generic_tdict, origin_tdict, ofOrigin, cbt_dict, defaultDecl, denote], rfl, fun _ => rfl, rfl, fun h => by simp [kwAllowed] at h, rfl, rfl⟩⟩
  | mapBare =>
    intro _
    exact ⟨.fcls .map, rfl, ⟨by simp [gtli, defaultDecl, someDecl, denote], rfl, fun _ => rfl, rfl, fun h => by simp [kwAllowed] at h, rfl, rfl⟩⟩
  | mapInst =>
    intro _
    exact ⟨.finst (.mapAny {}), by simp [ev, defaultDecl], good_finst _ _ rfl rfl⟩
  | dict585 k v ihk ihv =>
    intro h
    simp only [supported, Bool.and_eq_true] at h
    obtain ⟨ok', hek, gk⟩ := ihk h.1
    obtain ⟨ov, hev, gv⟩ := ihv h.2
    refine ⟨.alias false .dict [ok', ov], by simp [ev, hek, hev], ⟨?_, rfl, fun _ => rfl, rfl, fun h => by simp [kwAllowed] at h, rfl, rfl⟩⟩
    simp [gtli, cbt_dict, gtliArgs_two _ gk.gt gv.gt, mkFromArgs, mkItems, someDecl, denote]
  | dictTyping k v ihk ihv =>
    intro h
    simp only [supported, Bool.and_eq_true] at h
    obtain ⟨ok', hek, gk⟩ := ihk h.1
    obtain ⟨ov, hev, gv⟩ := ihv h.2
    refine ⟨.alias true .dict [ok', ov],
      by simp [ev, hek, hev, typingArg_of_gtli gk.gt, typingArg_of_gtli gv.gt], ⟨?_, rfl, fun _ => rfl, rfl, fun h => by simp [kwAllowed] at h, rfl, rfl⟩⟩
    simp [gtli, cbt_dict, gtliArgs_two _ gk.gt gv.gt, mkFromArgs, mkItems, someDecl, denote]
  | mapSub k v ihk ihv =>
    intro h
    simp only [supported, Bool.and_eq_true] at h
    obtain ⟨ok', hek, gk⟩ := ihk h.1.1.1
    obtain ⟨ov, hev, gv⟩ := ihv h.1.1.2
    exact ⟨.finst (.mapOf (denote k) (denote v) {}),
      by simp [ev, hek, hev, getItem_good gk h.1.2, getItem_good gv h.2, mkItems],
      good_finst _ _ rfl rfl⟩
  | mapCall k v ihk ihv =>
    intro h
    simp only [supported, Bool.and_eq_true] at h
    obtain ⟨ok', hek, gk⟩ := ihk h.1.1.1
    obtain ⟨ov, hev, gv⟩ := ihv h.1.1.2
    exact ⟨.finst (.mapOf (denote k) (denote v) {}),
      by simp [ev, hek, hev, mapToField_good gk h.1.2, mapToField_good gv h.2, mapEntry, mkItems],
      good_finst _ _ rfl rfl⟩
  | optional x ih =>
    intro h
    simp only [supported, Bool.and_eq_true, Bool.not_eq_true'] at h
    obtain ⟨ox, hev, g⟩ := ih h.1
    have hm := unionMembers_of_gtli g.gt (g.nu h.2)
    refine ⟨.tUnion [ox, .noneTy], by simp [ev, hev, hm, mkUnion_pair (objEq_noneTy g.nn)], ?_⟩
    exact good_tUnion _ g.gt (by simp [gtli]) rfl rfl rfl rfl
  | union x y ihx ihy =>
    intro h
    simp only [supported, Bool.and_eq_true, Bool.not_eq_true', Bool.or_eq_true] at h
    obtain ⟨⟨hx, hy⟩, hd⟩ := h
    obtain ⟨ox, hevx, hmx, hgx, _⟩ := member_ok ihx hx
    obtain ⟨oy, hevy, hmy, hgy, _⟩ := member_ok ihy hy
    have hne : objEq (typingArg ox) (typingArg oy) = false := by
      simpa [distinctObjs, hevx, hevy] using hd
    refine ⟨.tUnion [typingArg ox, typingArg oy], by simp [ev, hevx, hevy, hmx, hmy, mkUnion_pair hne], ?_⟩
    exact good_tUnion _ hgx hgy rfl rfl rfl rfl
  | anyOf x y ihx ihy =>
    intro h
    simp only [supported, Bool.and_eq_true, Bool.or_eq_true] at h
    obtain ⟨ox, hevx, hix⟩ := item_ok ihx h.1
    obtain ⟨oy, hevy, hiy⟩ := item_ok ihy h.2
    exact ⟨.finst (.anyOf [denote x, denote y]), by simp [ev, hevx, hevy, hix, hiy], good_finst _ _ rfl rfl⟩
  | pipe x y ihx ihy =>
    intro h
    have hk : kwAllowed (Sp.pipe x y) = false := rfl
    by_cases hnx : isNoneLit x = true
    · -- `None | int`, `None | Integer`: a `types.UnionType` whose first member is `NoneType`
      have := isNoneLit_eq hnx; subst this
      simp only [supported, isNoneLit, if_true, Bool.and_eq_true, Bool.not_eq_true'] at h
      obtain ⟨⟨hsy, hpy⟩, huy⟩ := h
      obtain ⟨oy, hevy, gy⟩ := ihy hsy
      obtain ⟨hty, hpf⟩ := plainRightSp_kind hpy hevy
      have hmy := unionMembers_of_gtli gy.gt (gy.nu huy)
      refine ⟨.uType [.noneTy, oy], ?_, ?_⟩
      · have hpf' : plainType ptm oy = true ∨ isFclsObj oy = true := by simpa using hpf
        simp [ev, hevy, pipeObj, isFieldObj_noneV, typingObj_noneV, plainType_noneV, hty, hpf',
          unionMembers_noneV, hmy, mkUType_pair (objEq_noneTy_left gy.nn)]
      · exact good_uType (ma := .noneF) _ (by simp [gtli]) gy.gt (by simp [denote]) rfl rfl hk rfl
    · have hnx' : isNoneLit x = false := by simpa using hnx
      simp only [supported, hnx', Bool.false_eq_true, if_false, Bool.and_eq_true] at h
      obtain ⟨hx, hrest⟩ := h
      obtain ⟨ox, hevx, gx⟩ := ihx hx
      by_cases hfx : isFieldExpr x = true
      · -- `Field | …`: `_or_fields`
        simp only [hfx, if_true, Bool.or_eq_true] at hrest
        have hfo : isFieldObj ox = true := by rw [gx.fo]; exact hfx
        rcases hrest with hy | hy
        · have := isNoneLit_eq hy; subst this
          exact ⟨.finst (.anyOf [denote x, .noneF]),
            by simp [ev, hevx, pipeObj, hfo, orFields, isFieldObj_noneV, isSclsObj_noneV,
              getItem_fieldObj gx.gt (by simp [hfo])],
            good_finst _ _ (by simp [denote]) (by simp [isFieldExpr, hfx])⟩
        · obtain ⟨oy, hevy, gy⟩ := ihy hy
          refine ⟨.finst (.anyOf [denote x, denote y]), ?_, good_finst _ _ rfl (by simp [isFieldExpr, hfx])⟩
          by_cases hfoy : isFieldObj oy = true
          · simp [ev, hevx, hevy, pipeObj, hfo, orFields, hfoy, getItem_fieldObj gx.gt (by simp [hfo]),
              getItem_fieldObj gy.gt (by simp [hfoy])]
          · have hfoy' : isFieldObj oy = false := by simpa using hfoy
            simp [ev, hevx, hevy, pipeObj, hfo,
              orFields_converted (getItem_fieldObj gx.gt (by simp [hfo])) gy.gt hfoy']
      · -- `int | str`: a `types.UnionType`, which `get_typing_lib_info` treats like `typing.Union`
        have hfx' : isFieldExpr x = false := by simpa using hfx
        simp only [hfx', Bool.false_eq_true, if_false, Bool.and_eq_true, Bool.or_eq_true, Bool.not_eq_true'] at hrest
        obtain ⟨⟨hpx, hy⟩, hd⟩ := hrest
        have hfo : isFieldObj ox = false := by rw [gx.fo]; exact hfx'
        have hptx := plainSp_plainType hpx hevx
        have htx := plainSp_not_typing hpx hevx
        have hux : unionLike x = false := by cases x <;> simp [plainSp] at hpx <;> rfl
        have hmx := unionMembers_of_gtli gx.gt (gx.nu hux)
        rcases hy with hy | hy
        · have := isNoneLit_eq hy; subst this
          refine ⟨.uType [ox, .noneTy],
            by simp [ev, hevx, pipeObj, hfo, htx, hptx, typingObj_noneV, plainRight_noneV, hmx,
              unionMembers_noneV, mkUType_pair (objEq_noneTy gx.nn)], ?_⟩
          exact good_uType (mb := .noneF) _ gx.gt (by simp [gtli]) (by simp [denote]) (by simp [isFieldExpr, hfx'])
            (by simp [unionLike, hfx']) hk (by rw [sfu_pair, gx.sc]; simp [structFirstPipe, plainSp_not_sfp hpx])
        · obtain ⟨⟨hsy, hpy⟩, huy⟩ := hy
          obtain ⟨oy, hevy, gy⟩ := ihy hsy
          have hpry := plainRightSp_plainRight hpy hevy
          have hty := (plainRightSp_kind hpy hevy).1
          have hmy := unionMembers_of_gtli gy.gt (gy.nu huy)
          have hne : objEq ox oy = false := by
            simp [distinctObjs, hevx, hevy, typingArg_of_gtli gx.gt, typingArg_of_gtli gy.gt] at hd
            exact hd
          refine ⟨.uType [ox, oy],
            by simp [ev, hevx, hevy, pipeObj, hfo, htx, hptx, hty, hpry, hmx, hmy, mkUType_pair hne], ?_⟩
          exact good_uType _ gx.gt gy.gt rfl (by simp [isFieldExpr, hfx']) (by simp [unionLike, hfx']) hk
            (by rw [sfu_pair, gx.sc]; simp [structFirstPipe, plainSp_not_sfp hpx])
  | scls d n =>
    intro h
    have hd : isStructDecl d = true := by simpa [supported] using h
    exact ⟨.scls d, rfl, ⟨by simp [gtli, denote], rfl, fun _ => rfl, rfl, fun h => by simp [kwAllowed] at h, rfl, rfl⟩⟩
  | tup585 x y ihx ihy =>
    intro h
    simp only [supported, Bool.and_eq_true] at h
    obtain ⟨ox, hex, gx⟩ := ihx h.1
    obtain ⟨oy, hey, gy⟩ := ihy h.2
    refine ⟨.alias false .tuple [ox, oy], by simp [ev, hex, hey], ⟨?_, rfl, fun _ => rfl, rfl, fun h => by simp [kwAllowed] at h, rfl, rfl⟩⟩
    simp [gtli, cbt_tuple, gtliArgs_two _ gx.gt gy.gt, mkFromArgs, mkItems, someDecl, denote]
  | tupTyping x y ihx ihy =>
    intro h
    simp only [supported, Bool.and_eq_true] at h
    obtain ⟨ox, hex, gx⟩ := ihx h.1
    obtain ⟨oy, hey, gy⟩ := ihy h.2
    refine ⟨.alias true .tuple [ox, oy],
      by simp [ev, hex, hey, typingArg_of_gtli gx.gt, typingArg_of_gtli gy.gt], ⟨?_, rfl, fun _ => rfl, rfl, fun h => by simp [kwAllowed] at h, rfl, rfl⟩⟩
    simp [gtli, cbt_tuple, gtliArgs_two _ gx.gt gy.gt, mkFromArgs, mkItems, someDecl, denote]
  | tupSub x y ihx ihy =>
    intro h
    simp only [supported, Bool.and_eq_true] at h
    obtain ⟨ox, hex, gx⟩ := ihx h.1.1.1
    obtain ⟨oy, hey, gy⟩ := ihy h.1.1.2
    exact ⟨.finst (.tuplePos [denote x, denote y] false),
      by simp [ev, hex, hey, getItem_good gx h.1.2, getItem_good gy h.2, mkItems],
      good_finst _ _ rfl rfl⟩
  | tupCall x y ihx ihy =>
    intro h
    simp only [supported, Bool.and_eq_true] at h
    obtain ⟨ox, hex, gx⟩ := ihx h.1.1.1
    obtain ⟨oy, hey, gy⟩ := ihy h.1.1.2
    exact ⟨.finst (.tuplePos [denote x, denote y] false),
      by simp [ev, hex, hey, tupleItem_good gx h.1.2, tupleItem_good gy h.2, mkItems],
      good_finst _ _ rfl rfl⟩
  | pipeLit x v n ih =>
    intro h
    simp only [supported, Bool.and_eq_true] at h
    obtain ⟨ox, hev, g⟩ := ih h.1.1
    have hfo : isFieldObj ox = true := by rw [g.fo]; exact h.1.2
    exact ⟨.finst (.anyOf [denote x, .enumLit [v]]),
      by simp [ev, hev, hfo, getItem_fieldObj g.gt (by simp [hfo])],
      good_finst _ _ rfl (by simp [isFieldExpr, h.1.2])⟩

theorem sameMeaning_denote {s t : Sp} (h : SameMeaning s t) : denote s = denote t := by
  induction h with
  | scalar f g k => cases f <;> cases g <;> rfl
  | lit d n m => rfl
  | none => rfl
  | bare f g c => cases f <;> cases g <;> rfl
  | bareDict f g => cases f <;> cases g <;> rfl
  | coll f g c _ ih => cases f <;> cases g <;> simp [mkColl, denote, ih]
  | dict f g _ _ ihk ihv => cases f <;> cases g <;> simp [mkDict, denote, ihk, ihv]
  | optional _ ih => simp [denote, ih]
  | optionalAlt g _ ih => cases g <;> simp [mkAlt, denote, ih]
  | altOptional f _ ih => cases f <;> simp [mkAlt, denote, ih]
  | alt f g _ _ ihx ihy => cases f <;> cases g <;> simp [mkAlt, denote, ihx, ihy]
  | scls d n m => rfl
  | tup f g _ _ ihx ihy => cases f <;> cases g <;> simp [mkTup, denote, ihx, ihy]
  | pipeLit v n m _ ih => simp [denote, ih]
  | pipeLitAnyOf v n m _ ih => simp [denote, ih]
  | anyOfPipeLit v n m _ ih => simp [denote, ih]

theorem kwAllowed_fieldExpr {s : Sp} (h : kwAllowed s = true) : isFieldExpr s = true := by
  cases s <;> simp [kwAllowed] at h <;> rfl

theorem eqResult_scalar (d : FieldDecl) (opt : Bool) {v : PyVal} (h : scalarDefault v = true) :
    eqResult d opt v = .field d false (some v) := by
  cases v <;> simp [scalarDefault] at h <;> rfl

theorem tryDefault_of_ok {O : Oracles} {d : FieldDecl} {v : PyVal} (h : defaultOk O d v = true) :
    tryDefault O d v = .ok () := by
  unfold defaultOk at h
  unfold tryDefault
  cases hv : validate O d v with
  | ok y => simp
  | error e => simp [hv] at h

theorem struct_noNone {ty : Sp} (hs : supported ptm ty = true) (h : isStructSp ty = true) :
    hasNoneOpt (denote ty) = false := by
  cases ty <;> simp [isStructSp] at h
  case scls d n =>
    have hd : isStructDecl d = true := by simpa [supported] using hs
    cases d <;> first | rfl | simp [isStructDecl] at hd

/-- `add_annotations_to_class_dict` on the object a supported annotation evaluates to -/
theorem annField_eq (O : Oracles) (fs : FieldSp) {o : Obj} (hs : supported ptm fs.ty = true) (g : Good fs.ty o) :
    annField O ptm fs o
      = finishField O (denote fs.ty) (fs.inOptional || (!isFieldExpr fs.ty && hasNoneOpt (denote fs.ty))) fs.dflt := by
  unfold annField
  by_cases hf : isFieldObj o = true
  · have hfe : isFieldExpr fs.ty = true := by rw [← g.fo]; exact hf
    have hgi := getItem_fieldObj g.gt (by simp [hf])
    simp [hf, hgi, hfe]
  · have hfe : isFieldExpr fs.ty = false := by rw [← g.fo]; simpa using hf
    by_cases hsc : isSclsObj o = true
    · have hst : isStructSp fs.ty = true := by rw [← g.sc]; exact hsc
      have hn : hasNoneOpt (denote fs.ty) = false := struct_noNone hs hst
      have hgi := getItem_fieldObj g.gt (by simp [hsc])
      simp [hsc, hgi, hn]
    · simp [hf, hsc, g.gt, afterGtli, hfe, Bool.or_comm]

/-- Inside the supported region a field declaration elaborates to its documented meaning. -/
theorem elabField_meaning' (O : Oracles) (future : Bool) (fs : FieldSp)
    (h : fieldSupported O ptm future fs = true) : elabField O ptm future fs = fieldMeaning O fs := by
  obtain ⟨name, mode, ty, dflt, inOpt, quoted, unres⟩ := fs
  simp only [fieldSupported, Bool.and_eq_true] at h
  obtain ⟨⟨hs, hm⟩, hd⟩ := h
  obtain ⟨o, hev, g⟩ := ev_good ty hs
  cases mode with
  | ann =>
    simp only [elabField]
    cases dflt with
    | none =>
      simp only [evTop, hev, bindE_ok, fieldMeaning, DefaultSp.value, effOptional]
      rw [annField_eq O _ hs g]
      simp [finishField]
    | eq v n =>
      simp only [Bool.and_eq_true] at hd
      simp only [evTop, hev, bindE_ok, fieldMeaning, DefaultSp.value, effOptional]
      rw [annField_eq O _ hs g]
      simp [finishField, hd.1]
    | kw v n =>
      simp only [Bool.and_eq_true, Bool.or_eq_true] at hd
      obtain ⟨⟨hkd, hkw⟩, hok⟩ := hd
      have ho := g.ki hkw
      subst ho
      have hfe : isFieldExpr ty = true := kwAllowed_fieldExpr hkw
      by_cases hn : v.isNone = true
      · have hv : v = .none := by cases v <;> simp [PyVal.isNone] at hn ⊢
        subst hv
        simp [evTop, hev, hkw, kwDefault, PyVal.isNone, fieldMeaning, DefaultSp.value, applyKw, truthy, annField,
          isFieldObj, getItem, finishField, effOptional, hfe]
      · have hn' : v.isNone = false := by simpa using hn
        have hsc : scalarDefault v = true := by simpa [kwDefault, hn'] using hkd
        simp only [evTop, hev, bindE_ok, hkw, hkd, fieldMeaning, DefaultSp.value, applyKw, hn']
        by_cases ht : truthy v = true
        · cases htd : tryDefault O (denote ty) v with
          | error e => simp [ht, htd]
          | ok u => simp [ht, htd, annField, isFieldObj, getItem, finishField, eqResult_scalar _ _ hsc, hn']
        · have hok' : defaultOk O (denote ty) v = true := by
            rcases hok with (hok | hok) | hok
            · exact absurd hok ht
            · simp [hn'] at hok
            · exact hok
          simp [ht, tryDefault_of_ok hok', annField, isFieldObj, getItem, finishField, eqResult_scalar _ _ hsc, hn']
    | eqF p n =>
      simp only [evTop, hev, bindE_ok, fieldMeaning, DefaultSp.value, effOptional]
      have htag : ∀ opt, eqResult (denote ty) opt factoryTag = .field (denote ty) false (some factoryTag) :=
        fun _ => rfl
      rw [annField_eq O _ hs g]
      simp [finishField, htag]
    | kwF p n =>
      have hkw : kwAllowed ty = true := hd
      have ho := g.ki hkw
      subst ho
      simp only [evTop, hev, bindE_ok, hkw, fieldMeaning, DefaultSp.value, applyKwF]
      have htag : ∀ opt, eqResult (denote ty) opt factoryTag = .field (denote ty) false (some factoryTag) :=
        fun _ => rfl
      cases htd : tryDefault O (denote ty) p with
      | error e => simp
      | ok u => simp [annField, isFieldObj, getItem, finishField, htag]
  | assign =>
    simp only [elabField]
    have hf : (isFieldObj o || isSclsObj o) = true := by
      rw [g.fo, g.sc]; exact hm
    have hgi := getItem_fieldObj g.gt hf
    cases dflt with
    | none =>
      simp only [evTop, hev, bindE_ok, fieldMeaning, DefaultSp.value, effOptional]
      cases o with
      | finst d =>
        have : d = denote ty := by simpa [getItem] using hgi
        subst this
        simp [assignField, finishFieldNoCheck]
      | fcls hh =>
        have : defaultDecl hh = .ok (denote ty) := by simpa [getItem] using hgi
        simp [assignField, this, finishFieldNoCheck]
      | scls d =>
        have : d = denote ty := by simpa [getItem] using hgi
        subst this
        simp [assignField, finishFieldNoCheck]
      | _ => simp [isFieldObj, isSclsObj] at hf
    | eq v n => simp at hd
    | kw v n =>
      simp only [Bool.and_eq_true, Bool.or_eq_true] at hd
      obtain ⟨⟨hkd, hkw⟩, hok⟩ := hd
      have ho := g.ki hkw
      subst ho
      by_cases hn : v.isNone = true
      · have hv : v = .none := by cases v <;> simp [PyVal.isNone] at hn ⊢
        subst hv
        simp [evTop, hev, hkw, kwDefault, PyVal.isNone, fieldMeaning, DefaultSp.value, applyKw, truthy, assignField,
          finishFieldNoCheck, effOptional]
      · have hn' : v.isNone = false := by simpa using hn
        have hsc : scalarDefault v = true := by simpa [kwDefault, hn'] using hkd
        simp only [evTop, hev, bindE_ok, hkw, hkd, fieldMeaning, DefaultSp.value, applyKw, hn']
        by_cases ht : truthy v = true
        · cases htd : tryDefault O (denote ty) v with
          | error e => simp [ht, htd]
          | ok u => simp [ht, htd, assignField, finishFieldNoCheck, eqResult_scalar _ _ hsc, hn']
        · have hok' : defaultOk O (denote ty) v = true := by
            rcases hok with (hok | hok) | hok
            · exact absurd hok ht
            · simp [hn'] at hok
            · exact hok
          simp [ht, tryDefault_of_ok hok', assignField, finishFieldNoCheck, eqResult_scalar _ _ hsc, hn']
    | eqF p n => simp at hd
    | kwF p n =>
      have hkw : kwAllowed ty = true := hd
      have ho := g.ki hkw
      subst ho
      simp only [evTop, hev, bindE_ok, hkw, fieldMeaning, DefaultSp.value, applyKwF]
      have htag : ∀ opt, eqResult (denote ty) opt factoryTag = .field (denote ty) false (some factoryTag) :=
        fun _ => rfl
      cases htd : tryDefault O (denote ty) p with
      | error e => simp
      | ok u => simp [assignField, finishFieldNoCheck, htag]

theorem fieldMeaning_same (O : Oracles) {a b : FieldSp} (h : FieldSame a b) : fieldMeaning O a = fieldMeaning O b := by
  simp [fieldMeaning, h.dflt, h.opt, sameMeaning_denote h.ty]

/-- where string annotations are claimed to work, the scope and the quoting do not matter -/
theorem elabFieldAt_eq (sc : Scope) (O : Oracles) (future : Bool) (fs : FieldSp) (h : stringOk sc future fs = true) :
    elabFieldAt sc O ptm future fs = elabField O ptm future fs := by
  simp only [stringOk, Bool.not_eq_true'] at h
  simp [elabFieldAt, h]

theorem elabFields_same (O : Oracles) (s₁ s₂ : Scope) (f₁ f₂ : Bool) {as bs : List FieldSp} (h : ClassSame as bs)
    (ha : as.all (fieldSupportedAt O ptm s₁ f₁) = true) (hb : bs.all (fieldSupportedAt O ptm s₂ f₂) = true) :
    elabFields O ptm s₁ f₁ as = elabFields O ptm s₂ f₂ bs := by
  induction h with
  | nil => rfl
  | cons hab _ ih =>
    simp only [List.all_cons, Bool.and_eq_true, fieldSupportedAt] at ha hb
    simp only [elabFields, elabFieldAt_eq _ O _ _ ha.1.2, elabFieldAt_eq _ O _ _ hb.1.2,
      elabField_meaning' O f₁ _ ha.1.1, elabField_meaning' O f₂ _ hb.1.1,
      fieldMeaning_same O hab, hab.name]
    rw [ih (by simpa [fieldSupportedAt] using ha.2) (by simpa [fieldSupportedAt] using hb.2)]

end Typedpy.Elab
