/-
  Lemmas/Basic.lean — helper lemmas shared by the property proofs.
-/
import TypedpyModel.Spec.Conforms
namespace Typedpy

/-- a rejection with one of the documented exception classes (`InvalidStructureErr` is a
    subclass of both TypeError and ValueError) -/
def IsReject {α} (r : R α) : Prop := ∃ e, r = .error e ∧ (e = .typeErr ∨ e = .valueErr ∨ e = .both)

theorem isReject_type {α} : IsReject (.error .typeErr : R α) := ⟨_, rfl, Or.inl rfl⟩
theorem isReject_value {α} : IsReject (.error .valueErr : R α) := ⟨_, rfl, Or.inr (Or.inl rfl)⟩

theorem bindE_eq_ok {α β} {r : R α} {k : α → R β} {z : β} (h : bindE r k = .ok z) :
    ∃ y, r = .ok y ∧ k y = .ok z := by
  cases r with
  | error e => simp at h
  | ok y => exact ⟨y, rfl, by simpa using h⟩

theorem mapE_length {α β} (g : α → R β) :
    ∀ (xs : List α) (ys : List β), mapE g xs = .ok ys → ys.length = xs.length
  | [], ys, h => by simp [mapE] at h; subst h; rfl
  | x :: xs, ys, h => by
    simp only [mapE] at h
    rcases bindE_eq_ok h with ⟨y, _, h2⟩
    rcases bindE_eq_ok h2 with ⟨ys', hys, h3⟩
    cases h3
    simp [mapE_length g xs ys' hys]

theorem mapE_all {α β} (g : α → R β) (P : β → Bool) :
    ∀ (xs : List α) (ys : List β), (∀ x ∈ xs, ∀ y, g x = .ok y → P y = true) →
      mapE g xs = .ok ys → ys.all P = true
  | [], ys, _, h => by simp [mapE] at h; subst h; rfl
  | x :: xs, ys, hp, h => by
    simp only [mapE] at h
    rcases bindE_eq_ok h with ⟨y, hy, h2⟩
    rcases bindE_eq_ok h2 with ⟨ys', hys, h3⟩
    cases h3
    simp only [List.all_cons, Bool.and_eq_true]
    exact ⟨hp x (by simp) y hy, mapE_all g P xs ys' (fun z hz => hp z (by simp [hz])) hys⟩

end Typedpy
