import TypedpyModel.Lemmas.LiftIdSeq
namespace Typedpy
open PyVal (pyEq pyMem pyNodup)

/-! ### Set of strings and Map from strings inside the exact fragment of C06 -/

theorem isStringDecl_id (f : FieldDecl) (h : isStringDecl f = true) : idScalar f = true := by
  cases f <;> simp [isStringDecl] at h <;> simp [idScalar]

/-- a value a String field accepts is a `str` -/
theorem string_validate_ok (O : Oracles) (f : FieldDecl) (hs : isStringDecl f = true) (x z : PyVal)
    (h : validate O f x = .ok z) : ∃ s, x = .str s := by
  cases f <;> simp [isStringDecl] at hs
  simp only [validate] at h
  unfold vString at h
  cases x <;> simp at h
  exact ⟨_, rfl⟩

theorem pyEq_str_left (s : String) (y : PyVal) (h : pyEq (.str s) y = true) : y = .str s := by
  cases y <;> simp [pyEq] at h
  subst h; rfl

/-- what a String field accepts passes the deserializer's pre-check unchanged -/
theorem string_deser_of_validate (O : Oracles) (opts : DeserOpts) (f : FieldDecl) (hs : isStringDecl f = true)
    (x z : PyVal) (h : validate O f x = .ok z) : deser O opts false f x = .ok x := by
  cases f <;> simp [isStringDecl] at hs
  simp only [validate] at h
  simp [deser, dValidated, h]

theorem mapE_ok_mem' {α β} (g : α → R β) : ∀ (xs : List α) (ys : List β), mapE g xs = .ok ys →
    ∀ x ∈ xs, ∃ y, g x = .ok y
  | [], _, _, x, hx => by simp at hx
  | a :: as, ys, h, x, hx => by
    simp only [mapE] at h
    rcases bindE_eq_ok h with ⟨y, hy, h2⟩
    rcases bindE_eq_ok h2 with ⟨ys', hys, _⟩
    rcases List.mem_cons.mp hx with rfl | hx'
    · exact ⟨y, hy⟩
    · exact mapE_ok_mem' g as ys' hys x hx'

theorem mapE_ok_of_all' {α β} (g : α → R β) : ∀ (xs : List α), (∀ x ∈ xs, ∃ y, g x = .ok y) →
    ∃ ys, mapE g xs = .ok ys
  | [], _ => ⟨[], rfl⟩
  | a :: as, h => by
    rcases h a (by simp) with ⟨y, hy⟩
    rcases mapE_ok_of_all' g as (fun x hx => h x (by simp [hx])) with ⟨ys, hys⟩
    exact ⟨y :: ys, by simp [mapE, hy, hys]⟩

/-- if every representative kept by `set(...)` is an accepted string, every element is: an element
    equal to an accepted string is that string -/
theorem validate_all_of_dedup (O : Oracles) (f : FieldDecl) (hs : isStringDecl f = true) :
    ∀ (xs : List PyVal), (∀ r ∈ dedup xs, ∃ z, validate O f r = .ok z) →
      ∀ x ∈ xs, ∃ z, validate O f x = .ok z
  | [], _, x, hx => by simp at hx
  | a :: as, h, x, hx => by
    simp only [dedup] at h
    have ha : ∃ z, validate O f a = .ok z := h a (by simp)
    have hrest : ∀ r ∈ dedup as, ∃ z, validate O f r = .ok z := by
      intro r hr
      by_cases he : pyEq a r = true
      · rcases ha with ⟨z, hz⟩
        rcases string_validate_ok O f hs a z hz with ⟨s, rfl⟩
        have := pyEq_str_left s r he
        subst this
        exact ⟨z, hz⟩
      · exact h r (by simp [List.mem_filter, hr, he])
    rcases List.mem_cons.mp hx with rfl | hx'
    · exact ha
    · exact validate_all_of_dedup O f hs as hrest x hx'

theorem vSet_ok_items (imm : Bool) (sz : SizeOpts) (g : List PyVal → R (List PyVal)) (fr : Bool)
    (xs : List PyVal) (r : PyVal) (h : vSet imm sz g (.set fr xs) = .ok r) : ∃ zs, g xs = .ok zs := by
  unfold vSet at h
  simp only at h
  split at h
  · cases h
  · rcases bindE_eq_ok h with ⟨zs, hz, _⟩
    exact ⟨zs, hz⟩

/-- Set of strings: deserialization hands the (de-duplicated) list on unchanged, so both sides
    validate the very same value; a document one of whose elements the String field rejects is
    rejected by both -/
theorem set_str_okEq (O : Oracles) (opts : DeserOpts) (imm : Bool) (sz : SizeOpts) (f : FieldDecl)
    (hs : isStringDecl f = true) (xs : List PyVal) :
    OkEq (deserThen O opts (.setOf imm f sz) (.list xs)) (liftThen O opts (.setOf imm f sz) (.list xs)) := by
  have hid := isStringDecl_id f hs
  cases hd : mapE (deser O opts false f) xs with
  | ok ys =>
    have hyx := mapE_deser_id O opts f hid xs ys hd
    rw [hyx] at hd
    by_cases hu : xs.any unhashable = true
    · have hu' : ∃ x, x ∈ xs ∧ unhashable x = true := by simpa using hu
      apply OkEq.errors <;> intro z hz <;>
        simp [deserThen, liftThen, deser, lift, listDoc, PyVal.isNone, dSeq, docSeq, hd, toValueErr, mkSet,
          mapO_lift_id O opts f hid xs, hu', bindE] at hz
    · have hu' : ¬ ∃ x, x ∈ xs ∧ unhashable x = true := by simpa using hu
      apply OkEq.of_eq
      simp [deserThen, liftThen, deser, lift, listDoc, PyVal.isNone, dSeq, docSeq, hd, toValueErr, mkSet,
        mapO_lift_id O opts f hid xs, hu', bindE]
  | error e =>
    apply OkEq.errors
    · intro z hz
      simp [deserThen, deser, PyVal.isNone, dSeq, docSeq, hd, toValueErr, bindE] at hz
      cases e <;> simp at hz
    · intro z hz
      unfold liftThen at hz
      simp only [lift, listDoc, Option.bind_some, mapO_lift_id O opts f hid xs] at hz
      by_cases hu : xs.any unhashable = true
      · simp [hu] at hz
      · simp only [hu, Bool.false_eq_true, if_false, validate] at hz
        rcases vSet_ok_items imm sz _ false (dedup xs) z hz with ⟨zs, hzs⟩
        have hall := validate_all_of_dedup O f hs xs (mapE_ok_mem' _ _ zs hzs)
        have hd' : ∀ x ∈ xs, ∃ y, deser O opts false f x = .ok y := fun x hx => by
          rcases hall x hx with ⟨z', hz'⟩
          exact ⟨x, string_deser_of_validate O opts f hs x z' hz'⟩
        rcases mapE_ok_of_all' _ xs hd' with ⟨ys, hys⟩
        rw [hys] at hd; cases hd

/-! #### Map from strings -/

/-- one entry through `deserialize_map` (value first, then key) -/
def dPair (O : Oracles) (opts : DeserOpts) (kf vf : FieldDecl) : PyVal × PyVal → R (PyVal × PyVal) :=
  fun kv => bindE (deser O opts false vf kv.2) fun v' =>
    bindE (deser O opts false kf kv.1) fun k' => .ok (k', v')

/-- one entry read backwards from the documented form -/
def lPair (O : Oracles) (opts : DeserOpts) (kf vf : FieldDecl) : PyVal × PyVal → Option (PyVal × PyVal) :=
  fun kv => match lift O opts kf kv.1, lift O opts vf kv.2 with
    | some k', some v' => some (k', v')
    | _, _ => none

/-- one entry through `Map.__set__` (key field, then value field) -/
def vPair (O : Oracles) (kf vf : FieldDecl) : PyVal × PyVal → R (PyVal × PyVal) :=
  fun kv => bindE (validate O kf kv.1) fun k' => bindE (validate O vf kv.2) fun v' => .ok (k', v')

theorem dPair_ok (O : Oracles) (opts : DeserOpts) (kf vf : FieldDecl) (hid : idScalar kf = true)
    (kv p : PyVal × PyVal) (h : dPair O opts kf vf kv = .ok p) :
    deser O opts false vf kv.2 = .ok p.2 ∧ deser O opts false kf kv.1 = .ok kv.1 ∧ p.1 = kv.1 := by
  unfold dPair at h
  rcases bindE_eq_ok h with ⟨v', hv', h2⟩
  rcases bindE_eq_ok h2 with ⟨k', hk', h3⟩
  cases h3
  have := idScalar_deser O opts kf kv.1 k' hid hk'
  subst this
  exact ⟨hv', hk', rfl⟩

theorem lPair_str (O : Oracles) (opts : DeserOpts) (kf vf : FieldDecl) (hid : idScalar kf = true)
    (kv : PyVal × PyVal) :
    lPair O opts kf vf kv = (lift O opts vf kv.2).map fun w => (kv.1, w) := by
  unfold lPair
  rw [idScalar_lift O opts kf kv.1 hid]
  cases lift O opts vf kv.2 <;> rfl

theorem vPair_ok (O : Oracles) (kf vf : FieldDecl) (kv p : PyVal × PyVal) :
    vPair O kf vf kv = .ok p ↔ validate O kf kv.1 = .ok p.1 ∧ validate O vf kv.2 = .ok p.2 := by
  unfold vPair
  constructor
  · intro h
    rcases bindE_eq_ok h with ⟨k', hk', h2⟩
    rcases bindE_eq_ok h2 with ⟨v', hv', h3⟩
    cases h3
    exact ⟨hk', hv'⟩
  · rintro ⟨h1, h2⟩
    simp [bindE, h1, h2]

theorem dPair_keys (O : Oracles) (opts : DeserOpts) (kf vf : FieldDecl) (hs : isStringDecl kf = true) :
    ∀ (kvs r : List (PyVal × PyVal)), mapE (dPair O opts kf vf) kvs = .ok r → r.map (·.1) = kvs.map (·.1)
  | [], r, h => by simp [mapE] at h; subst h; rfl
  | kv :: kvs, r, h => by
    simp only [mapE] at h
    rcases bindE_eq_ok h with ⟨p, hp, h2⟩
    rcases bindE_eq_ok h2 with ⟨r', hr', h3⟩
    cases h3
    have := (dPair_ok O opts kf vf (isStringDecl_id kf hs) kv p hp).2.2
    simp [this, dPair_keys O opts kf vf hs kvs r' hr']

theorem lPair_keys (O : Oracles) (opts : DeserOpts) (kf vf : FieldDecl) (hs : isStringDecl kf = true) :
    ∀ (kvs r : List (PyVal × PyVal)), mapO (lPair O opts kf vf) kvs = some r → r.map (·.1) = kvs.map (·.1)
  | [], r, h => by simp [mapO] at h; subst h; rfl
  | kv :: kvs, r, h => by
    simp only [mapO, lPair_str O opts kf vf (isStringDecl_id kf hs) kv] at h
    cases hv : lift O opts vf kv.2 with
    | none => simp [hv] at h
    | some w =>
      cases hr : mapO (lPair O opts kf vf) kvs with
      | none => simp [hv, hr] at h
      | some r' =>
        simp [hv, hr] at h; subst h
        simp [lPair_keys O opts kf vf hs kvs r' hr]

/-- entry-wise: (deserialize, then validate) and (lift, then validate) produce the same validated
    entries, given that they agree on every value -/
theorem pairs_equiv (O : Oracles) (opts : DeserOpts) (kf vf : FieldDecl) (hs : isStringDecl kf = true) :
    ∀ (kvs : List (PyVal × PyVal)),
      (∀ kv ∈ kvs, OkEq (deserThen O opts vf kv.2) (liftThen O opts vf kv.2)) →
      ∀ zs, (∃ r, mapE (dPair O opts kf vf) kvs = .ok r ∧ mapE (vPair O kf vf) r = .ok zs)
          ↔ (∃ r', mapO (lPair O opts kf vf) kvs = some r' ∧ mapE (vPair O kf vf) r' = .ok zs)
  | [], _, zs => by simp [mapE, mapO]
  | kv :: kvs, h, zs => by
    have hid := isStringDecl_id kf hs
    have hx := h kv (by simp)
    have ih := pairs_equiv O opts kf vf hs kvs (fun y hy => h y (by simp [hy]))
    constructor
    · rintro ⟨r, h1, h2⟩
      simp only [mapE] at h1
      rcases bindE_eq_ok h1 with ⟨p, hp, h1'⟩
      rcases bindE_eq_ok h1' with ⟨r0, hr0, h1''⟩
      cases h1''
      obtain ⟨hv', _, hp1⟩ := dPair_ok O opts kf vf hid kv p hp
      simp only [mapE] at h2
      rcases bindE_eq_ok h2 with ⟨z, hz, h2'⟩
      rcases bindE_eq_ok h2' with ⟨zs', hzs, h2''⟩
      cases h2''
      obtain ⟨hk2, hv2⟩ := (vPair_ok O kf vf p z).mp hz
      have hd : deserThen O opts vf kv.2 = .ok z.2 := by simp [deserThen, hv', hv2]
      have hl := (hx z.2).mp hd
      unfold liftThen at hl
      cases hw : lift O opts vf kv.2 with
      | none => rw [hw] at hl; cases hl
      | some w =>
        rw [hw] at hl
        rcases (ih zs').mp ⟨r0, hr0, hzs⟩ with ⟨ws, g1, g2⟩
        refine ⟨(kv.1, w) :: ws, ?_, ?_⟩
        · simp [mapO, lPair_str O opts kf vf hid kv, hw, g1]
        · have : vPair O kf vf (kv.1, w) = .ok z := (vPair_ok O kf vf _ z).mpr ⟨by rw [← hp1]; exact hk2, hl⟩
          simp [mapE, this, g2]
    · rintro ⟨r', h1, h2⟩
      simp only [mapO, lPair_str O opts kf vf hid kv] at h1
      cases hw : lift O opts vf kv.2 with
      | none => simp [hw] at h1
      | some w =>
        cases hr : mapO (lPair O opts kf vf) kvs with
        | none => simp [hw, hr] at h1
        | some ws =>
          simp [hw, hr] at h1; subst h1
          simp only [mapE] at h2
          rcases bindE_eq_ok h2 with ⟨z, hz, h2'⟩
          rcases bindE_eq_ok h2' with ⟨zs', hzs, h2''⟩
          cases h2''
          obtain ⟨hk2, hv2⟩ := (vPair_ok O kf vf _ z).mp hz
          have hl : liftThen O opts vf kv.2 = .ok z.2 := by simp [liftThen, hw, hv2]
          have hd := (hx z.2).mpr hl
          unfold deserThen at hd
          rcases bindE_eq_ok hd with ⟨y, hy, hvy⟩
          have hdk := string_deser_of_validate O opts kf hs kv.1 z.1 hk2
          rcases (ih zs').mpr ⟨ws, hr, hzs⟩ with ⟨ys, g1, g2⟩
          refine ⟨(kv.1, y) :: ys, ?_, ?_⟩
          · have : dPair O opts kf vf kv = .ok (kv.1, y) := by simp [dPair, bindE, hy, hdk]
            simp [mapE, this, g1]
          · have : vPair O kf vf (kv.1, y) = .ok z := (vPair_ok O kf vf _ z).mpr ⟨hk2, hvy⟩
            simp [mapE, this, g2]

theorem vMap_ok (sz : SizeOpts) (g : List (PyVal × PyVal) → R (List (PyVal × PyVal)))
    (kvs : List (PyVal × PyVal)) (z : PyVal) :
    vMap sz g (.dict kvs) = .ok z
      ↔ sizeOk sz kvs.length = true ∧ ∃ zs, g kvs = .ok zs ∧
          sizeOk sz (dictOfPairs zs).length = true ∧ z = .dict (dictOfPairs zs) := by
  unfold vMap
  simp only
  constructor
  · intro h
    by_cases h1 : sizeOk sz kvs.length = true
    · simp [h1] at h
      rcases bindE_eq_ok h with ⟨zs, hz, h3⟩
      by_cases h2 : sizeOk sz (dictOfPairs zs).length = true
      · simp [h2] at h3
        exact ⟨h1, zs, hz, h2, h3.symm⟩
      · simp [h2] at h3
    · simp [h1] at h
  · rintro ⟨h1, zs, hz, h2, rfl⟩
    simp [h1, hz, h2]

/-- Map from strings: the keys pass through unchanged on both sides, the values agree entry by
    entry; a JSON object cannot hold one key twice, so no entry is overwritten -/
theorem map_str_okEq (O : Oracles) (opts : DeserOpts) (kf vf : FieldDecl) (sz : SizeOpts)
    (hs : isStringDecl kf = true) (kvs : List (PyVal × PyVal)) (hdist : strKeysDistinct kvs = true)
    (hv : ∀ kv ∈ kvs, OkEq (deserThen O opts vf kv.2)
                            (liftThen O opts vf kv.2)) :
    OkEq (deserThen O opts (.mapOf kf vf sz) (.dict kvs)) (liftThen O opts (.mapOf kf vf sz) (.dict kvs)) := by
  have heq := pairs_equiv O opts kf vf hs kvs hv
  intro z
  constructor
  · intro h
    unfold deserThen at h
    rcases bindE_eq_ok h with ⟨y, hy, hvz⟩
    simp only [deser, PyVal.isNone, Bool.false_and, Bool.false_eq_true, if_false, dMap] at hy
    rcases bindE_eq_ok hy with ⟨r, hr, h2⟩
    change mapE (dPair O opts kf vf) kvs = .ok r at hr
    have hk := dPair_keys O opts kf vf hs kvs r hr
    have hrd : strKeysDistinct r = true := by rw [strKeysDistinct_keys r kvs hk]; exact hdist
    simp only [strKeys_hashable r hrd, Bool.false_eq_true, if_false, dictOfPairs_distinct r hrd] at h2
    cases h2
    simp only [validate] at hvz
    rcases (vMap_ok sz _ r z).mp hvz with ⟨s1, zs, hz, s2, rfl⟩
    change mapE (vPair O kf vf) r = .ok zs at hz
    rcases (heq zs).mp ⟨r, hr, hz⟩ with ⟨r', g1, g2⟩
    have hk' := lPair_keys O opts kf vf hs kvs r' g1
    have hrd' : strKeysDistinct r' = true := by rw [strKeysDistinct_keys r' kvs hk']; exact hdist
    have hlen : r'.length = r.length := by
      have a := congrArg List.length hk; have b := congrArg List.length hk'
      simp only [List.length_map] at a b; omega
    have hL : lift O opts (.mapOf kf vf sz) (.dict kvs) = some (.dict r') := by
      simp only [lift]
      change (mapO (lPair O opts kf vf) kvs).bind _ = _
      rw [g1]
      simp [strKeys_hashable r' hrd', dictOfPairs_distinct r' hrd']
    unfold liftThen
    rw [hL]
    simp only [validate]
    exact (vMap_ok sz _ r' _).mpr ⟨by rw [hlen]; exact s1, zs, g2, s2, rfl⟩
  · intro h
    unfold liftThen at h
    cases hl : lift O opts (.mapOf kf vf sz) (.dict kvs) with
    | none => rw [hl] at h; cases h
    | some w =>
      rw [hl] at h
      simp only [lift] at hl
      rcases Option.bind_eq_some_iff.mp hl with ⟨r', g1, h2⟩
      change mapO (lPair O opts kf vf) kvs = some r' at g1
      have hk' := lPair_keys O opts kf vf hs kvs r' g1
      have hrd' : strKeysDistinct r' = true := by rw [strKeysDistinct_keys r' kvs hk']; exact hdist
      simp only [strKeys_hashable r' hrd', Bool.false_eq_true, if_false, dictOfPairs_distinct r' hrd',
        Option.some.injEq] at h2
      subst h2
      simp only [validate] at h
      rcases (vMap_ok sz _ r' z).mp h with ⟨s1, zs, hz, s2, rfl⟩
      change mapE (vPair O kf vf) r' = .ok zs at hz
      rcases (heq zs).mpr ⟨r', g1, hz⟩ with ⟨r, hr, g2⟩
      have hk := dPair_keys O opts kf vf hs kvs r hr
      have hrd : strKeysDistinct r = true := by rw [strKeysDistinct_keys r kvs hk]; exact hdist
      have hlen : r.length = r'.length := by
        have a := congrArg List.length hk; have b := congrArg List.length hk'
        simp only [List.length_map] at a b; omega
      have hD : deser O opts false (.mapOf kf vf sz) (.dict kvs) = .ok (.dict r) := by
        simp only [deser, PyVal.isNone, Bool.false_and, Bool.false_eq_true, if_false, dMap]
        change bindE (mapE (dPair O opts kf vf) kvs) _ = _
        rw [hr]
        simp [bindE, strKeys_hashable r hrd, dictOfPairs_distinct r hrd]
      unfold deserThen
      rw [hD]
      simp only [bindE, validate]
      exact (vMap_ok sz _ r _).mpr ⟨by rw [hlen]; exact s1, zs, g2, s2, rfl⟩

end Typedpy
