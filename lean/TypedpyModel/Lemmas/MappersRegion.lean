/-
  Lemmas/MappersRegion.lean — C07, the *deserializer's* aggregate at nested levels: inside the region
  `regionOK` it is, at every depth, literally `shapeFields L fs` for the mapper list `L` that also
  governs the serializer's level (`AgreesFs`), so `Sync` holds at every level.
-/
import TypedpyModel.Lemmas.MappersNested
namespace Typedpy.Mappers

/-! ### lists -/

theorem c07_add_append (S : StrFns) (b : Bool) (m : Mapper) :
    ∀ a c : MDict, add S b m (a ++ c) = add S b m a ++ add S b m c
  | [], c => by simp [add]
  | (k, v) :: r, c => by simp [add, c07_add_append S b m r c]

theorem c07_foldAdd_append (S : StrFns) (b : Bool) (A B : List Mapper) (d : MDict) :
    foldAdd S b (A ++ B) d = foldAdd S b B (foldAdd S b A d) := by
  simp [foldAdd, List.foldl_append]

theorem c07_foldl_dset_nodup :
    ∀ (l acc : MDict), ((acc ++ l).map (·.1)).Nodup →
      l.foldl (fun a p => dset a p.1 p.2) acc = acc ++ l
  | [], acc, _ => by simp
  | (k, v) :: r, acc, h => by
    have hk : acc.any (fun p => decide (p.1 = k)) = false := by
      rw [Bool.eq_false_iff]
      intro hany
      obtain ⟨p, hp, hpk⟩ := List.any_eq_true.mp hany
      have hpk : p.1 = k := by simpa using hpk
      simp only [List.map_append, List.map_cons] at h
      have := (List.nodup_append.mp h).2.2 p.1 (List.mem_map_of_mem hp) k (List.mem_cons_self ..)
      exact this hpk
    have hd : dset acc k v = acc ++ [(k, v)] := by simp [dset, hk]
    simp only [List.foldl_cons, hd]
    rw [c07_foldl_dset_nodup r (acc ++ [(k, v)]) (by simpa [List.append_assoc] using h)]
    simp

/-- a list with pairwise distinct keys already is the dict it denotes -/
theorem c07_norm_of_nodup (l : MDict) (h : mkeysNodup l = true) : norm l = l := by
  have h' : (l.map (·.1)).Nodup := by simpa [mkeysNodup] using h
  simpa [norm] using c07_foldl_dset_nodup l [] (by simpa using h')

theorem c07_lookupR_of_mem_nodup {α β} [DecidableEq α] (k : α) (v : β) :
    ∀ l : List (α × β), (l.map (·.1)).Nodup → (k, v) ∈ l → lookupR k l = some v
  | [], _, h => by cases h
  | (k', v') :: r, hn, h => by
    simp only [List.map_cons, List.nodup_cons] at hn
    rw [lookupR_cons]
    rcases List.mem_cons.mp h with h | h
    · rcases Prod.mk.inj h with ⟨h1, h2⟩
      subst h1; subst h2
      rw [lookupR_none_of_not_mem k r hn.1]
      simp
    · rw [c07_lookupR_of_mem_nodup k v r hn.2 h]

/-! ### what a level lets through, and one deserializer round on a nested entry -/

theorem c07_thru_append (n : String) (A B : List Mapper) : thru n (A ++ B) = thru n A ++ thru n B := by
  simp [thru, List.filterMap_append]

theorem c07_thru_single (n : String) (m : Mapper) : thru n [m] = (through n m).toList := by
  unfold thru
  simp only [List.filterMap_cons, List.filterMap_nil]
  cases through n m <;> rfl

theorem c07_thru_replicate_camel (n : String) (j : Nat) :
    thru n (List.replicate j Mapper.camel) = List.replicate j Mapper.camel := by
  induction j with
  | zero => rfl
  | succ j ih => simp only [List.replicate_succ, thru, List.filterMap_cons, through] at ih ⊢; rw [ih]

theorem c07_nk_append (S : StrFns) (L : List Mapper) (m : Mapper) (n : String) :
    nk S (L ++ [m]) n = nestName (applyKey S m (nk S L n)) := by
  simp [nk, List.foldl_append]

/-- the deserializer finds the sub-mapper the serializer uses -/
theorem c07_subAgree {m : Mapper} {mk cur n : String} (h : subAgree m mk cur n = true) :
    subOf m mk cur = through n m := by
  cases m with
  | lower => rfl
  | camel => rfl
  | dict d =>
    simp only [subAgree, and_true_iff', Bool.or_eq_true, beq_iff_eq, Option.isNone_iff_eq_none] at h
    obtain ⟨h1, h2⟩ := h
    simp only [subOf, through]
    rcases h1 with h1 | h1
    · subst h1
      cases hc : lookupR (MKey.nest mk) d with
      | some v => cases v <;> rfl
      | none =>
        rcases h2 with h2 | h2
        · subst h2; rw [hc]
        · rw [h2.1]
    · rw [h1]
      rcases h2 with h2 | h2
      · subst h2
        cases hc : lookupR (MKey.nest cur) d with
        | some v => cases v <;> rfl
        | none => rfl
      · rw [h2.1, h2.2]

/-! ### one deserializer round on a shape list -/

theorem c07_handed_step (S : StrFns) (T own : List Mapper) (fs : List Fld) (m : Mapper) :
    handed S (T ++ [m]) own fs = norm (add S false m (handed S T own fs)) := by
  unfold handed
  rw [c07_foldAdd_append]
  simp [foldAdd]

theorem c07_add_shapeFld (S : StrFns) (L : List Mapper) (m : Mapper) :
    ∀ f : Fld, stepFldOK S m L f = true → add S false m (shapeFld S L f) = shapeFld S (L ++ [m]) f
  | .scalar n o, _ => by
    simp [shapeFld, add, addKey, addVal_fld, c07_keyOf_append]
  | .mapped n o ci fs, _ => by
    simp [shapeFld, add, addKey, addVal_fld, c07_keyOf_append]
  | .nested n o sh ci fs, hm => by
    simp only [stepFldOK, stepNestOK, and_true_iff', Bool.not_eq_true'] at hm
    obtain ⟨hhit, hagree⟩ := hm
    have hsub := c07_subAgree hagree
    simp only [shapeFld, add, addVal_fld, c07_keyOf_append, c07_nk_append, c07_thru_append, c07_thru_single]
    generalize ci.desL = own at *
    have hk : addKey S false m (.nest (nk S L n)) (.sub (handed S (thru n L) own fs))
        = .nest (nestName (applyKey S m (nk S L n))) := by
      simp [addKey, hhit, newNest]
    have hv : addVal S false m (.nest (nk S L n)) (.sub (handed S (thru n L) own fs))
        = .sub (handed S (thru n L ++ (through n m).toList) own fs) := by
      simp only [addVal, hhit, Bool.false_eq_true, if_false, hsub]
      cases ht : through n m with
      | none => simp [subResult]
      | some m' => simp [subResult, c07_handed_step]
    rw [hk, hv]
    simp [addKey]

theorem c07_add_shapeFields (S : StrFns) (L : List Mapper) (m : Mapper) :
    ∀ fs : List Fld, fs.all (stepFldOK S m L) = true →
      add S false m (shapeFields S L fs) = shapeFields S (L ++ [m]) fs
  | [], _ => by simp [shapeFields, add]
  | f :: fs, h => by
    simp only [List.all_cons, and_true_iff'] at h
    simp only [shapeFields, c07_add_append, c07_add_shapeFld S L m f h.1, c07_add_shapeFields S L m fs h.2]

/-- **E2**: the rounds of a list of mappers on a shape list give the shape list of the longer list -/
theorem c07_foldAdd_shape (S : StrFns) (fs : List Fld) :
    ∀ (Ms P : List Mapper), prefixOK S fs P Ms = true →
      foldAdd S false Ms (shapeFields S P fs) = shapeFields S (P ++ Ms) fs
  | [], P, _ => by simp [foldAdd]
  | m :: Ms, P, hk => by
    simp only [prefixOK, and_true_iff'] at hk
    have h1 : norm (add S false m (shapeFields S P fs)) = shapeFields S (P ++ [m]) fs := by
      rw [c07_add_shapeFields S P m fs hk.1.2]
      exact c07_norm_of_nodup _ hk.1.1
    have := c07_foldAdd_shape S fs Ms (P ++ [m]) hk.2
    simp only [foldAdd, List.foldl_cons] at this ⊢
    rw [h1, this]
    simp [List.append_assoc]

theorem c07_shapeFld_nil (S : StrFns) : ∀ f : Fld, shapeFld S [] f = baseFld S false f
  | .scalar n o => by simp [shapeFld, baseFld, keyOf]
  | .mapped n o ci fs => by simp [shapeFld, baseFld, keyOf]
  | .nested n o sh own fs => by simp [shapeFld, baseFld, keyOf, nk, handed, thru, foldAdd, CInfo.lst]

theorem c07_shapeFields_nil (S : StrFns) : ∀ fs : List Fld, shapeFields S [] fs = baseFields S false fs
  | [] => by simp [shapeFields, baseFields]
  | f :: fs => by simp [shapeFields, baseFields, c07_shapeFld_nil, c07_shapeFields_nil S fs]

/-- the deserializer's aggregate of a class whose rounds are collision-free and stepped alike -/
theorem c07_foldAdd_base (S : StrFns) (fs : List Fld) (L : List Mapper)
    (hk : prefixOK S fs [] L = true) :
    foldAdd S false L (baseFields S false fs) = shapeFields S L fs := by
  rw [← c07_shapeFields_nil, c07_foldAdd_shape S fs L [] hk]
  simp

/-- what the parent hands down for a nested class is the shape list of `own ++ what it lets through` -/
theorem c07_handed_shape (S : StrFns) (T own : List Mapper) (fs : List Fld)
    (hk : prefixOK S fs [] (own ++ T) = true) :
    handed S T own fs = shapeFields S (own ++ T) fs := by
  unfold handed
  rw [← c07_foldAdd_append, c07_foldAdd_base S fs _ hk]

/-! ### lookups in a shape list -/

theorem c07_mem_shapeFields (S : StrFns) (L : List Mapper) (e : MKey × MV) (fl : Fld) :
    ∀ fs : List Fld, fl ∈ fs → e ∈ shapeFld S L fl → e ∈ shapeFields S L fs
  | [], h, _ => by cases h
  | g :: fs, h, he => by
    simp only [shapeFields, List.mem_append]
    rcases List.mem_cons.mp h with h | h
    · subst h; exact Or.inl he
    · exact Or.inr (c07_mem_shapeFields S L e fl fs h he)

theorem c07_lookupR_shape_fld (S : StrFns) (L : List Mapper) (fs : List Fld) (fl : Fld)
    (hn : mkeysNodup (shapeFields S L fs) = true) (hm : fl ∈ fs) :
    lookupR (.fld fl.name) (shapeFields S L fs) = some (keyOf S L fl.name) := by
  apply c07_lookupR_of_mem_nodup _ _ _ (by simpa [mkeysNodup] using hn)
  apply c07_mem_shapeFields S L _ fl fs hm
  cases fl <;> simp [shapeFld, Fld.name]

theorem c07_lookupR_shape_nest (S : StrFns) (L : List Mapper) (fs : List Fld) (n : String) (o : Bool)
    (sh : Shape) (own : CInfo) (fs' : List Fld)
    (hn : mkeysNodup (shapeFields S L fs) = true) (hm : Fld.nested n o sh own fs' ∈ fs) :
    lookupR (.nest (nk S L n)) (shapeFields S L fs) = some (.sub (handed S (thru n L) own.desL fs')) := by
  apply c07_lookupR_of_mem_nodup _ _ _ (by simpa [mkeysNodup] using hn)
  apply c07_mem_shapeFields S L _ _ fs hm
  simp [shapeFld]

/-- an entry found under a `"<k>._mapper"` key belongs to a nested field re-keyed to `k` -/
theorem c07_shape_nest_inv (S : StrFns) (L : List Mapper) (k : String) (w : MV) :
    ∀ fs : List Fld, lookupR (.nest k) (shapeFields S L fs) = some w →
      ∃ n o sh own fs', Fld.nested n o sh own fs' ∈ fs ∧ nk S L n = k ∧ w = .sub (handed S (thru n L) own.desL fs')
  | [], h => by simp [shapeFields, lookupR] at h
  | f :: fs, h => by
    have hm := mem_of_lookupR _ _ _ h
    simp only [shapeFields, List.mem_append] at hm
    rcases hm with hm | hm
    · cases f with
      | scalar n o => simp [shapeFld] at hm
      | mapped n o ci fs' => simp [shapeFld] at hm
      | nested n o sh own fs' =>
        simp only [shapeFld, List.mem_cons, List.not_mem_nil, or_false] at hm
        rcases hm with hm | hm
        · rcases Prod.mk.inj hm with ⟨h1, h2⟩
          injection h1 with h1
          exact ⟨n, o, sh, own, fs', List.mem_cons_self .., h1.symm, h2⟩
        · rcases Prod.mk.inj hm with ⟨h1, _⟩
          cases h1
    · -- the entry sits in the tail: find it there by membership (keys need not be distinct here)
      have : ∃ n o sh own fs', Fld.nested n o sh own fs' ∈ fs ∧ nk S L n = k ∧ w = .sub (handed S (thru n L) own.desL fs') := by
        clear h
        induction fs with
        | nil => simp [shapeFields] at hm
        | cons g gs ih =>
          simp only [shapeFields, List.mem_append] at hm
          rcases hm with hm | hm
          · cases g with
            | scalar n o => simp [shapeFld] at hm
            | mapped n o ci fs' => simp [shapeFld] at hm
            | nested n o sh own fs' =>
              simp only [shapeFld, List.mem_cons, List.not_mem_nil, or_false] at hm
              rcases hm with hm | hm
              · rcases Prod.mk.inj hm with ⟨h1, h2⟩
                injection h1 with h1
                exact ⟨n, o, sh, own, fs', List.mem_cons_self .., h1.symm, h2⟩
              · rcases Prod.mk.inj hm with ⟨h1, _⟩
                cases h1
          · obtain ⟨n, o, sh, own, fs', h1, h2, h3⟩ := ih hm
            exact ⟨n, o, sh, own, fs', List.mem_cons_of_mem _ h1, h2, h3⟩
      obtain ⟨n, o, sh, own, fs', h1, h2, h3⟩ := this
      exact ⟨n, o, sh, own, fs', List.mem_cons_of_mem _ h1, h2, h3⟩

/-! ### E4: a shape list that equals the base mapper as a Python dict *is* the base mapper -/

theorem c07_dSub_append : ∀ (a b c : MDict), dSub (a ++ b) c = (dSub a c && dSub b c)
  | [], b, c => by simp [dSub]
  | (k, v) :: r, b, c => by simp [dSub, c07_dSub_append r b c, Bool.and_assoc]

theorem c07_handed_nil (S : StrFns) (fs : List Fld) : handed S [] [] fs = shapeFields S [] fs := by
  simp [handed, foldAdd, c07_shapeFields_nil]

theorem c07_handed_reagg (S : StrFns) (T : List Mapper) (fs : List Fld)
    (hk : prefixOK S fs [] T = true) :
    handed S T [] fs = shapeFields S T fs := by
  have := c07_handed_shape S T [] fs (by simpa using hk)
  simpa using this

theorem c07_mvFlatEq {a b : MV} (h : mvFlatEq a b = true) : a = b := by
  cases a <;> cases b <;> simp_all [mvFlatEq]

theorem c07_reaggF_nested {S : StrFns} {B L : List Mapper} {full : List Fld} {n : String} {o : Bool}
    {sh : Shape} {own : CInfo} {fs : List Fld} (h : reaggF S B L full (.nested n o sh own fs) = true) :
    fldStepOK S B L full n = true
      ∧ (lookupR (.nest (nk S B n)) (shapeFields S L full) = none ∨ nk S L n = nk S B n)
      ∧ nestName (applyKey S (.dict (shapeFields S L full)) (nk S B n)) = nk S L n
      ∧ prefixOK S fs [] (own.desL ++ thru n B) = true ∧ prefixOK S fs [] (own.desL ++ thru n L) = true
      ∧ mkeysNodup (shapeFields S (own.desL ++ thru n L) fs) = true
      ∧ reaggFs S (own.desL ++ thru n B) (own.desL ++ thru n L) fs fs = true := by
  simp only [reaggF, and_true_iff', Bool.or_eq_true, beq_iff_eq, Option.isNone_iff_eq_none] at h
  obtain ⟨⟨⟨⟨⟨⟨h1, h2⟩, h3⟩, h4⟩, h5⟩, h6⟩, h7⟩ := h
  exact ⟨h1, h2, h3, h4, h5, h6, h7⟩

/-- a dict mapper each of whose entries is found, equal, in the current aggregate leaves it as it is -/
theorem c07_add_dict_self (S : StrFns) (b : Bool) (p : MDict) :
    ∀ a : MDict, dSub a p = true → add S b (.dict p) a = a
  | [], _ => by simp [add]
  | (k, v) :: r, h => by
    simp only [dSub, and_true_iff'] at h
    have hhit : hit (.dict p) k v = true := by
      simp only [hit]; exact h.1
    have hk : addKey S b (.dict p) k v = k := by
      unfold addKey
      cases k with
      | fld n => rfl
      | nest n => cases v <;> simp [hhit]
    have hv : addVal S b (.dict p) k v = v := by
      cases v with
      | key s => simp [addVal, hhit]
      | dns => simp [addVal]
      | sub q => simp [addVal, hhit]
    simp only [add, hk, hv, c07_add_dict_self S b p r h.2]

/-! ### E4: a shape list that equals another (of the same class) as a Python dict *is* that list -/

mutual
theorem c07_shape_eq_fs (S : StrFns) :
    ∀ (sub full : List Fld) (B L : List Mapper), (∀ f ∈ sub, f ∈ full) →
      mkeysNodup (shapeFields S L full) = true → reaggFs S B L full sub = true →
      dSub (shapeFields S B sub) (shapeFields S L full) = true →
      shapeFields S L sub = shapeFields S B sub
  | [], _, _, _, _, _, _, _ => by simp [shapeFields]
  | f :: sub, full, B, L, hs, hn, hr, hd => by
    simp only [reaggFs, and_true_iff'] at hr
    simp only [shapeFields, c07_dSub_append, and_true_iff'] at hd
    simp only [shapeFields]
    rw [c07_shape_eq_f S f full B L (hs f (List.mem_cons_self ..)) hn hr.1 hd.1,
      c07_shape_eq_fs S sub full B L (fun g hg => hs g (List.mem_cons_of_mem _ hg)) hn hr.2 hd.2]
theorem c07_shape_eq_f (S : StrFns) :
    ∀ (f : Fld) (full : List Fld) (B L : List Mapper), f ∈ full →
      mkeysNodup (shapeFields S L full) = true → reaggF S B L full f = true →
      dSub (shapeFld S B f) (shapeFields S L full) = true →
      shapeFld S L f = shapeFld S B f
  | .scalar n o, full, B, L, hm, hn, hr, hd => by
    have hl := c07_lookupR_shape_fld S L full _ hn hm
    simp only [Fld.name] at hl
    simp only [shapeFld, dSub, hl, and_true_iff'] at hd
    simp only [reaggF, fldStepOK] at hr
    have hkey : keyOf S L n = keyOf S B n := by
      cases hk : keyOf S B n with
      | key s => rw [hk] at hd; exact c07_mvEq_key hd.1
      | dns => rw [hk] at hd; exact c07_mvEq_dns hd.1
      | sub q => rw [hk] at hr; simp [stepKey, mvFlatEq] at hr
    simp only [shapeFld, hkey]
  | .mapped n o ci fs', full, B, L, hm, hn, hr, hd => by
    have hl := c07_lookupR_shape_fld S L full _ hn hm
    simp only [Fld.name] at hl
    simp only [shapeFld, dSub, hl, and_true_iff'] at hd
    simp only [reaggF, fldStepOK] at hr
    have hkey : keyOf S L n = keyOf S B n := by
      cases hk : keyOf S B n with
      | key s => rw [hk] at hd; exact c07_mvEq_key hd.1
      | dns => rw [hk] at hd; exact c07_mvEq_dns hd.1
      | sub q => rw [hk] at hr; simp [stepKey, mvFlatEq] at hr
    simp only [shapeFld, hkey]
  | .nested n o sh own fs, full, B, L, hm, hn, hr, hd => by
    obtain ⟨hstep, hcross, _, hpreB, hpreL, hnod, hrec⟩ := c07_reaggF_nested hr
    have hl := c07_lookupR_shape_fld S L full _ hn hm
    simp only [Fld.name] at hl
    simp only [shapeFld, dSub, hl, and_true_iff'] at hd
    obtain ⟨hd1, hd2, _⟩ := hd
    simp only [fldStepOK] at hstep
    have hkey : keyOf S L n = keyOf S B n := by
      cases hk : keyOf S B n with
      | key s => rw [hk] at hd2; exact c07_mvEq_key hd2
      | dns => rw [hk] at hd2; exact c07_mvEq_dns hd2
      | sub q => rw [hk] at hstep; simp [stepKey, mvFlatEq] at hstep
    cases hlk : lookupR (.nest (nk S B n)) (shapeFields S L full) with
    | none => rw [hlk] at hd1; simp at hd1
    | some w =>
      rw [hlk] at hd1
      have hnk : nk S L n = nk S B n := by
        rcases hcross with h | h
        · rw [hlk] at h; cases h
        · exact h
      have hl2 := c07_lookupR_shape_nest S L full n o sh own fs hn hm
      rw [hnk, hlk] at hl2
      injection hl2 with hl2
      subst hl2
      simp only [mvEq, and_true_iff'] at hd1
      have hA := c07_handed_shape S (thru n B) own.desL fs hpreB
      have hH := c07_handed_shape S (thru n L) own.desL fs hpreL
      rw [hA, hH] at hd1
      have ih := c07_shape_eq_fs S fs fs _ _ (fun g hg => hg) hnod hrec hd1.2
      simp only [shapeFld, hnk, hkey, hA, hH, ih]
end

/-! ### E3: re-aggregating a class under the shape list it was handed gives that shape list again -/

theorem c07_stepKey_dict_self (S : StrFns) (p : MDict) (n : String) (v : MV)
    (h : lookupR (.fld n) p = some v) : stepKey S (.dict p) n (.key n) = v := by
  simp only [stepKey, mapsTo, h, applyKey, Option.getD_some]
  cases v with
  | key t =>
    by_cases e : n = t
    · subst e; simp
    · simp [e]
  | dns => simp
  | sub q => simp

theorem c07_trackOK {S : StrFns} {L : List Mapper} {n : String} (h : trackOK S L n = true) :
    keyOf S L n = .key (nk S L n) := by
  unfold trackOK at h
  split at h
  · rename_i s hs; rw [hs]; simp at h; rw [h]
  · cases h

mutual
theorem c07_reagg_fs (S : StrFns) :
    ∀ (sub full : List Fld) (B L : List Mapper), (∀ f ∈ sub, f ∈ full) →
      mkeysNodup (shapeFields S L full) = true → reaggFs S B L full sub = true →
      add S false (.dict (shapeFields S L full)) (shapeFields S B sub) = shapeFields S L sub
  | [], _, _, _, _, _, _ => by simp [shapeFields, add]
  | f :: sub, full, B, L, hs, hn, hr => by
    simp only [reaggFs, and_true_iff'] at hr
    simp only [shapeFields, c07_add_append]
    rw [c07_reagg_f S f full B L (hs f (List.mem_cons_self ..)) hn hr.1,
      c07_reagg_fs S sub full B L (fun g hg => hs g (List.mem_cons_of_mem _ hg)) hn hr.2]
theorem c07_reagg_f (S : StrFns) :
    ∀ (f : Fld) (full : List Fld) (B L : List Mapper), f ∈ full →
      mkeysNodup (shapeFields S L full) = true → reaggF S B L full f = true →
      add S false (.dict (shapeFields S L full)) (shapeFld S B f) = shapeFld S L f
  | .scalar n o, full, B, L, _, _, hr => by
    simp only [reaggF, fldStepOK] at hr
    simp [shapeFld, add, addKey, addVal_fld, c07_mvFlatEq hr]
  | .mapped n o ci fs', full, B, L, _, _, hr => by
    simp only [reaggF, fldStepOK] at hr
    simp [shapeFld, add, addKey, addVal_fld, c07_mvFlatEq hr]
  | .nested n o sh own fs, full, B, L, hm, hn, hr => by
    obtain ⟨hstep, hcross, hrekey, hpreB, hpreL, hnod, hrec⟩ := c07_reaggF_nested hr
    have hl2 := c07_lookupR_shape_nest S L full n o sh own fs hn hm
    have hA := c07_handed_shape S (thru n B) own.desL fs hpreB
    have hH := c07_handed_shape S (thru n L) own.desL fs hpreL
    rw [hH] at hl2
    simp only [fldStepOK] at hstep
    simp only [shapeFld, add, addVal_fld, c07_mvFlatEq hstep, hA, hH]
    by_cases hhit : hit (.dict (shapeFields S L full)) (.nest (nk S B n))
        (.sub (shapeFields S (own.desL ++ thru n B) fs)) = true
    · -- the handed-down entry equals the nested class's own aggregate: kept as it is
      have hk : addKey S false (.dict (shapeFields S L full)) (.nest (nk S B n))
          (.sub (shapeFields S (own.desL ++ thru n B) fs)) = .nest (nk S B n) := by
        simp [addKey, hhit]
      have hv : addVal S false (.dict (shapeFields S L full)) (.nest (nk S B n))
          (.sub (shapeFields S (own.desL ++ thru n B) fs)) = .sub (shapeFields S (own.desL ++ thru n B) fs) := by
        simp [addVal, hhit]
      rw [hk, hv]
      simp only [hit] at hhit
      cases hlk : lookupR (.nest (nk S B n)) (shapeFields S L full) with
      | none => rw [hlk] at hhit; simp at hhit
      | some w =>
        rw [hlk] at hhit
        have hnk : nk S L n = nk S B n := by
          rcases hcross with h | h
          · rw [hlk] at h; cases h
          · exact h
        rw [hnk, hlk] at hl2
        injection hl2 with hl2
        subst hl2
        simp only [mvEq, and_true_iff'] at hhit
        have e4 := c07_shape_eq_fs S fs fs _ _ (fun g hg => hg) hnod hrec hhit.2
        rw [hnk, e4]
        simp [addKey]
    · have hhit' : hit (.dict (shapeFields S L full)) (.nest (nk S B n))
          (.sub (shapeFields S (own.desL ++ thru n B) fs)) = false := by
        simpa using hhit
      have hk : addKey S false (.dict (shapeFields S L full)) (.nest (nk S B n))
          (.sub (shapeFields S (own.desL ++ thru n B) fs)) = .nest (nk S L n) := by
        simp [addKey, hhit', newNest, hrekey]
      have hsub : subOf (.dict (shapeFields S L full)) (nk S L n) (nk S B n)
          = some (.dict (shapeFields S (own.desL ++ thru n L) fs)) := by
        simp [subOf, hl2]
      have hv : addVal S false (.dict (shapeFields S L full)) (.nest (nk S B n))
          (.sub (shapeFields S (own.desL ++ thru n B) fs))
          = .sub (shapeFields S (own.desL ++ thru n L) fs) := by
        simp only [addVal, hhit', Bool.false_eq_true, if_false, newNest, hrekey, hsub, subResult]
        rw [c07_reagg_fs S fs fs _ _ (fun g hg => hg) hnod hrec, c07_norm_of_nodup _ hnod]
      rw [hk, hv]
      simp [addKey]
end

/-- **E3** -/
theorem c07_reagg (S : StrFns) (L : List Mapper) (fs : List Fld) (h : reaggOK S L fs = true) :
    norm (add S false (.dict (shapeFields S L fs)) (baseFields S false fs)) = shapeFields S L fs := by
  simp only [reaggOK, and_true_iff'] at h
  rw [← c07_shapeFields_nil, c07_reagg_fs S fs fs [] L (fun g hg => hg) h.1 h.2, c07_norm_of_nodup _ h.1]

theorem c07_shapeFields_ne_nil (S : StrFns) (L : List Mapper) :
    ∀ fs : List Fld, fs ≠ [] → ∃ e d, shapeFields S L fs = e :: d
  | [], h => absurd rfl h
  | f :: fs, _ => by
    cases f with
    | scalar n o => exact ⟨_, _, by simp [shapeFields, shapeFld]; exact ⟨rfl, rfl⟩⟩
    | mapped n o ci fs' => exact ⟨_, _, by simp [shapeFields, shapeFld]; exact ⟨rfl, rfl⟩⟩
    | nested n o sh own fs' => exact ⟨_, _, by simp [shapeFields, shapeFld]; exact ⟨rfl, rfl⟩⟩

theorem c07_stepFldOK_camel (S : StrFns) (L : List Mapper) (f : Fld) : stepFldOK S .camel L f = true := by
  cases f <;> simp [stepFldOK, stepNestOK, hit, subAgree]

/-- the mapper the deserializer resolves for a nested class that is handed the shape list of `L`:
    the same shape list, with one more `TO_CAMELCASE` round under `camel_case_convert` -/
theorem c07_nested_aggregate (S : StrFns) (L own : List Mapper) (fs : List Fld) (camel : Bool)
    (hne : fs ≠ []) (h : reaggOK S L fs = true)
    (hc : mkeysNodup (shapeFields S (L ++ camelTail camel) fs) = true) :
    aggregate S false own fs (some (shapeFields S L fs)) camel
      = shapeFields S (L ++ camelTail camel) fs := by
  obtain ⟨e, d, hed⟩ := c07_shapeFields_ne_nil S L fs hne
  have := c07_reagg S L fs h
  rw [hed] at this
  cases camel with
  | false =>
    simp only [aggregate, hed, effList, Bool.false_eq_true, if_false, List.append_nil, foldAdd,
      List.foldl_cons, List.foldl_nil, camelTail]
    exact this
  | true =>
    simp only [aggregate, hed, effList, if_true, foldAdd, List.cons_append, List.nil_append,
      List.foldl_cons, List.foldl_nil, camelTail] at hc ⊢
    rw [this, ← hed, c07_add_shapeFields S L .camel fs
      (List.all_eq_true.mpr fun f _ => c07_stepFldOK_camel S L f)]
    exact c07_norm_of_nodup _ hc

/-! ### `Sync` at every level inside the region -/

theorem c07_rtFld_name (S : StrFns) (camel ku : Bool) (lv : LevelPred) (ms M : MDict) (f : Fld)
    (p : String × J) (h : rtFld S camel ku lv ms M f p = true) : f.name = p.1 := by
  cases f with
  | scalar n o => simp only [rtFld, and_true_iff', beq_iff_eq] at h; simp [Fld.name, h.1]
  | mapped n o ci fs' => simp [rtFld] at h
  | nested n o sh own fs => simp only [rtFld, and_true_iff', beq_iff_eq] at h; simp [Fld.name, h.1]

theorem c07_rtFields_names (S : StrFns) (camel ku : Bool) (lv : LevelPred) (ms M : MDict) :
    ∀ (fs : List Fld) (kvs : List (String × J)), rtFields S camel ku lv ms M fs kvs = true →
      ∀ p ∈ kvs, ∃ fl ∈ fs, fl.name = p.1
  | [], kvs, h, p, hp => by
    cases kvs with
    | nil => cases hp
    | cons a b => simp [rtFields] at h
  | f :: fs, kvs, h, p, hp => by
    cases kvs with
    | nil => cases hp
    | cons q rest =>
      simp only [rtFields, and_true_iff'] at h
      rcases List.mem_cons.mp hp with hp | hp
      · subst hp
        exact ⟨f, List.mem_cons_self .., c07_rtFld_name S camel ku lv ms M f p h.1⟩
      · obtain ⟨fl, hfl, hn⟩ := c07_rtFields_names S camel ku lv ms M fs rest h.2 p hp
        exact ⟨fl, List.mem_cons_of_mem _ hfl, hn⟩

theorem c07_agrees_lookup (S : StrFns) (d : MDict) (L : List Mapper) (fs : List Fld)
    (h : AgreesFs S d L fs) (fl : Fld) (hm : fl ∈ fs) :
    lookupR (.fld fl.name) d = some (keyOf S L fl.name) := by
  have := c07_agreesF_of_mem S d L fs h fl hm
  cases fl with
  | scalar n o => simpa [AgreesF, Fld.name] using this
  | mapped n o ci fs' => simpa [AgreesF, Fld.name] using this
  | nested n o sh own fs' => simp only [AgreesF] at this; simpa [Fld.name] using this.1

/-- inside the demanded domain, equal field entries on both sides give all level hypotheses -/
theorem c07_level_of_lookups (S : StrFns) (ms M : MDict) (strict : Bool) (kvs : List (String × J))
    (hd : levelDomE S ms M strict kvs = true)
    (he : ∀ p ∈ kvs, lookupR (.fld p.1) M = lookupR (.fld p.1) ms) :
    levelOK S ms M strict kvs = true := by
  simp only [levelDomE, levelDom, and_true_iff'] at hd
  obtain ⟨⟨⟨⟨_, hdot⟩, hinj⟩, habs⟩, hent⟩ := hd
  simp only [levelOK, and_true_iff']
  refine ⟨⟨⟨?_, hdot⟩, hinj⟩, habs⟩
  unfold syncOK
  rw [List.all_eq_true]
  intro p hp
  have e := he p hp
  have h1 := all_mem hent hp
  simp only [entryOKB, Bool.or_eq_true, and_true_iff'] at h1
  have hK : isKeyAt M p.1 = isKeyAt ms p.1 := by unfold isKeyAt; rw [e]
  have hD : isDnsAt M p.1 = isDnsAt ms p.1 := by unfold isDnsAt; rw [e]
  have h3 : kOf M p.1 = kOf ms p.1 := by unfold kOf; rw [e]
  rcases h1 with h1 | ⟨h1, h2⟩
  · simp [hK, h1, h3]
  · simp [hD, h1, h2]

theorem c07_nestedOK_mono (opt : Bool) (shape : Shape) (g g' : J → Bool)
    (h : ∀ y, g y = true → g' y = true) (v : J) (hv : nestedOK opt shape g v = true) :
    nestedOK opt shape g' v = true := by
  cases v with
  | null => simpa [nestedOK] using hv
  | int i => simp [nestedOK] at hv
  | str s => simp [nestedOK] at hv
  | obj kvs =>
    cases shape with
    | one => simp only [nestedOK] at hv ⊢; exact h _ hv
    | many => simp [nestedOK] at hv
  | arr xs =>
    cases shape with
    | one => simp [nestedOK] at hv
    | many =>
      simp only [nestedOK, List.all_eq_true] at hv ⊢
      exact fun y hy => h y (hv y hy)

theorem c07_subDeser_shape (S : StrFns) (L : List Mapper) (full : List Fld) (n : String) (o : Bool)
    (sh : Shape) (own : CInfo) (fs : List Fld)
    (hn : mkeysNodup (shapeFields S L full) = true) (hm : Fld.nested n o sh own fs ∈ full)
    (ht : trackOK S L n = true) :
    subDeser (shapeFields S L full) n = some (handed S (thru n L) own.desL fs) := by
  have hl := c07_lookupR_shape_fld S L full _ hn hm
  simp only [Fld.name] at hl
  have hl2 := c07_lookupR_shape_nest S L full n o sh own fs hn hm
  simp [subDeser, hl, c07_trackOK ht, nestName, hl2]

/-! ### `camel_case_convert`: the deserializer applies `TO_CAMELCASE` once more per level -/

theorem c07_stepKey_camel_idem (S : StrFns) (hc : ∀ s, S.camel (S.camel s) = S.camel s) (a : String)
    (v : MV) : stepKey S .camel a (stepKey S .camel a v) = stepKey S .camel a v := by
  cases v <;> simp [stepKey, mapsTo, applyKey, hc]

theorem c07_keyOf_replicate (S : StrFns) (hc : ∀ s, S.camel (S.camel s) = S.camel s) (X : List Mapper)
    (a : String) : ∀ j, keyOf S (X ++ List.replicate (j + 1) .camel) a = keyOf S (X ++ [.camel]) a
  | 0 => by simp
  | j + 1 => by
    have : X ++ List.replicate (j + 1 + 1) Mapper.camel = (X ++ List.replicate (j + 1) .camel) ++ [.camel] := by
      rw [List.replicate_succ' (n := j + 1), List.append_assoc]
    rw [this, c07_keyOf_append, c07_keyOf_replicate S hc X a j, c07_keyOf_append,
      c07_stepKey_camel_idem S hc]

theorem c07_camelRel_keyOf (S : StrFns) (camel : Bool) (hc : camel = true → ∀ s, S.camel (S.camel s) = S.camel s)
    (Ls Ld : List Mapper) (h : CamelRel camel Ls Ld) (a : String) : keyOf S Ld a = keyOf S Ls a := by
  unfold CamelRel at h
  cases camel with
  | false => simp at h; rw [h]
  | true =>
    simp only [if_true] at h
    obtain ⟨X, j, h1, h2⟩ := h
    rw [h1, h2, c07_keyOf_replicate S (hc rfl)]

theorem c07_camelRel_next (camel : Bool) (Ls Ld own : List Mapper) (n : String) (h : CamelRel camel Ls Ld) :
    CamelRel camel (own ++ thru n Ls) (own ++ thru n Ld ++ camelTail camel) := by
  unfold CamelRel at h ⊢
  cases camel with
  | false => simp at h ⊢; simp [camelTail, h]
  | true =>
    simp only [if_true] at h ⊢
    obtain ⟨X, j, h1, h2⟩ := h
    refine ⟨own ++ thru n X, j + 1, ?_, ?_⟩
    · rw [h1, c07_thru_append]; simp [thru, through]
    · rw [h2, c07_thru_append, c07_thru_replicate_camel, camelTail]
      simp only [if_true, List.append_assoc]
      rw [← List.replicate_succ' (n := j + 1)]

theorem c07_camelRel_top (camel : Bool) (own : List Mapper) (ov : Option MDict) :
    CamelRel camel (effList own ov camel) (effList own ov camel) := by
  unfold CamelRel
  cases camel with
  | false => simp
  | true => exact ⟨effList own ov false, 0, by simp [effList], by simp [effList]⟩

mutual
theorem c07_sync_fields (S : StrFns) (camel : Bool)
    (hc : camel = true → ∀ s, S.camel (S.camel s) = S.camel s) :
    ∀ (sub full : List Fld) (ku : Bool) (ms : MDict) (Ls Ld : List Mapper) (kvs : List (String × J)),
      CamelRel camel Ls Ld →
      mkeysNodup (shapeFields S Ld full) = true → AgreesFs S ms Ls sub →
      (∀ f ∈ sub, f ∈ full) → regionFs S camel Ld sub = true →
      rtFields S camel ku (levelDomE S) ms (shapeFields S Ld full) sub kvs = true →
      rtFields S camel ku (levelOK S) ms (shapeFields S Ld full) sub kvs = true
  | [], _, _, _, _, _, kvs, _, _, _, _, _, h => by
    cases kvs with
    | nil => simp [rtFields]
    | cons a b => simp [rtFields] at h
  | f :: sub, full, ku, ms, Ls, Ld, kvs, hrel, hn, ha, hs, hr, h => by
    cases kvs with
    | nil => simp [rtFields] at h
    | cons p rest =>
      simp only [AgreesFs] at ha
      simp only [regionFs, and_true_iff'] at hr
      simp only [rtFields, and_true_iff'] at h ⊢
      exact ⟨c07_sync_fld S camel hc f full ku ms Ls Ld p hrel hn ha.1 (hs f (List.mem_cons_self ..))
          hr.1 h.1,
        c07_sync_fields S camel hc sub full ku ms Ls Ld rest hrel hn ha.2
          (fun g hg => hs g (List.mem_cons_of_mem _ hg)) hr.2 h.2⟩
theorem c07_sync_fld (S : StrFns) (camel : Bool)
    (hc : camel = true → ∀ s, S.camel (S.camel s) = S.camel s) :
    ∀ (f : Fld) (full : List Fld) (ku : Bool) (ms : MDict) (Ls Ld : List Mapper) (p : String × J),
      CamelRel camel Ls Ld →
      mkeysNodup (shapeFields S Ld full) = true → AgreesF S ms Ls f →
      f ∈ full → regionF S camel Ld f = true →
      rtFld S camel ku (levelDomE S) ms (shapeFields S Ld full) f p = true →
      rtFld S camel ku (levelOK S) ms (shapeFields S Ld full) f p = true
  | .scalar n o, _, _, _, _, _, _, _, _, _, _, _, h => by simpa [rtFld] using h
  | .mapped n o ci fs', _, _, _, _, _, _, _, _, _, _, _, h => by simp [rtFld] at h
  | .nested n o sh ci fs, full, ku, ms, Ls, Ld, p, hrel, hn, ha, hm, hr, h => by
    simp only [regionF, and_true_iff'] at hr
    obtain ⟨⟨⟨⟨⟨⟨hdes, htrack⟩, hne⟩, hpre⟩, hreagg⟩, hprec⟩, hregion⟩ := hr
    have hdesL : ci.desL = ci.ser := by
      unfold CInfo.desL; cases hd : ci.des with
      | none => rfl
      | some l => rw [hd] at hdes; simp at hdes
    generalize hown' : ci.ser = own at *
    have hne' : fs ≠ [] := by intro e; subst e; simp at hne
    have hreagg' := hreagg
    simp only [reaggOK, and_true_iff'] at hreagg'
    have hnodc : mkeysNodup (shapeFields S (own ++ thru n Ld ++ camelTail camel) fs) = true := by
      cases camel with
      | false => simpa [camelTail] using hreagg'.1
      | true => simp only [camelTail, if_true, prefixOK, and_true_iff'] at hprec; exact hprec.1.1
    simp only [AgreesF] at ha
    obtain ⟨_, q, hq, hrec⟩ := ha
    rw [hown'] at hrec
    have hsub : subSer ms n = q := by simp [subSer, hq]
    have hLs' : nestedList own n Ls = own ++ thru n Ls := rfl
    rw [hLs'] at hrec
    have hhand := c07_handed_shape S (thru n Ld) own fs hpre
    have hM' : aggregate S false own fs (subDeser (shapeFields S Ld full) n) camel
        = shapeFields S (own ++ thru n Ld ++ camelTail camel) fs := by
      rw [c07_subDeser_shape S Ld full n o sh ci fs hn hm htrack, hdesL, hhand,
        c07_nested_aggregate S _ own fs camel hne' hreagg hnodc]
    have hrel' := c07_camelRel_next camel Ls Ld own n hrel
    simp only [rtFld, and_true_iff', hdesL] at h ⊢
    refine ⟨h.1, ?_⟩
    rw [hM', hsub] at h ⊢
    refine c07_nestedOK_mono o sh _ _ ?_ p.2 h.2
    intro y hy
    cases y with
    | obj kvs =>
      simp only [rtObj, and_true_iff'] at hy ⊢
      have hrt := c07_sync_fields S camel hc fs fs _ q _ _ kvs hrel' hnodc hrec
        (fun g hg => hg) hregion hy.2.2
      refine ⟨c07_level_of_lookups S q _ false kvs hy.1 ?_, hy.2.1, hrt⟩
      intro e he
      obtain ⟨fl, hfl, hname⟩ := c07_rtFields_names S camel _ _ _ _ fs kvs hy.2.2 e he
      rw [← hname, c07_lookupR_shape_fld S _ fs fl hnodc hfl, c07_agrees_lookup S q _ fs hrec fl hfl]
      exact congrArg some (c07_camelRel_keyOf S camel hc _ _ hrel' fl.name)
    | null => simp [rtObj] at hy
    | int i => simp [rtObj] at hy
    | str s => simp [rtObj] at hy
    | arr xs => simp [rtObj] at hy
end

/-! ### the ASCII `_convert_to_camelcase` is idempotent (its result has no underscore) -/

theorem c07_toNat_ofNat (n : Nat) (h : n < 0xd800) : (Char.ofNat n).toNat = n := by
  have hv : n.isValidChar := Or.inl h
  simp [Char.ofNat, hv, Char.ofNatAux, Char.toNat]

theorem c07_upA_ne (c : Char) : upA c = '_' → c = '_' := by
  unfold upA
  split
  · rename_i hl
    intro he
    have h1 : 97 ≤ c.toNat ∧ c.toNat ≤ 122 := by
      simp only [isLowerA, Bool.and_eq_true, decide_eq_true_eq] at hl
      exact ⟨hl.1, hl.2⟩
    have := congrArg Char.toNat he
    rw [c07_toNat_ofNat _ (by omega)] at this
    have h95 : ('_' : Char).toNat = 95 := by decide
    omega
  · exact id
theorem c07_loA_ne (c : Char) : loA c = '_' → c = '_' := by
  unfold loA
  split
  · rename_i hl
    intro he
    have h1 : 65 ≤ c.toNat ∧ c.toNat ≤ 90 := by
      simp only [isUpperA, Bool.and_eq_true, decide_eq_true_eq] at hl
      exact ⟨hl.1, hl.2⟩
    have := congrArg Char.toNat he
    rw [c07_toNat_ofNat _ (by omega)] at this
    have h95 : ('_' : Char).toNat = 95 := by decide
    omega
  · exact id

theorem c07_title_no_us : ∀ (b : Bool) (cs : List Char), '_' ∉ cs → '_' ∉ titleChars b cs
  | _, [], _ => by simp [titleChars]
  | b, c :: cs, h => by
    simp only [List.mem_cons, not_or] at h
    have hc : c ≠ '_' := fun e => h.1 e.symm
    simp only [titleChars]
    split
    · simp only [List.mem_cons, not_or]
      refine ⟨?_, c07_title_no_us true cs h.2⟩
      split
      · exact fun e => hc (c07_loA_ne c e.symm)
      · exact fun e => hc (c07_upA_ne c e.symm)
    · simp only [List.mem_cons, not_or]
      exact ⟨h.1, c07_title_no_us false cs h.2⟩

theorem c07_split_pieces (sep : Char) : ∀ (cs acc : List Char), sep ∉ acc →
    ∀ w ∈ splitOnChar sep acc cs, sep ∉ w
  | [], acc, ha, w, hw => by
    simp only [splitOnChar, List.mem_singleton] at hw
    subst hw; simpa using ha
  | c :: cs, acc, ha, w, hw => by
    simp only [splitOnChar] at hw
    split at hw
    · rcases List.mem_cons.mp hw with hw | hw
      · subst hw; simpa using ha
      · exact c07_split_pieces sep cs [] (by simp) w hw
    · rename_i hne
      refine c07_split_pieces sep cs (c :: acc) ?_ w hw
      simp only [List.mem_cons, not_or]
      exact ⟨fun e => hne (by simp [e]), ha⟩

theorem c07_split_none (sep : Char) : ∀ (cs acc : List Char), sep ∉ cs →
    splitOnChar sep acc cs = [acc.reverse ++ cs]
  | [], acc, _ => by simp [splitOnChar]
  | c :: cs, acc, h => by
    simp only [List.mem_cons, not_or] at h
    have : (c == sep) = false := by
      rw [beq_eq_false_iff_ne]; exact fun e => h.1 e.symm
    simp [splitOnChar, this, c07_split_none sep cs (c :: acc) h.2]

theorem c07_camelAscii_idem (s : String) : camelAscii (camelAscii s) = camelAscii s := by
  have hp := c07_split_pieces '_' s.toList [] (by simp)
  unfold camelAscii
  cases hs : splitOnChar '_' [] s.toList with
  | nil => simp [hs]
  | cons w ws =>
    rw [hs] at hp
    simp only
    have hno : '_' ∉ w ++ (ws.map (titleChars false)).flatten := by
      simp only [List.mem_append, List.mem_flatten, List.mem_map, not_or, not_exists, not_and]
      refine ⟨hp w (List.mem_cons_self ..), ?_⟩
      rintro l ⟨x, hx, rfl⟩
      exact c07_title_no_us false x (hp x (List.mem_cons_of_mem _ hx))
    simp [c07_split_none '_' _ [] hno]

end Typedpy.Mappers
