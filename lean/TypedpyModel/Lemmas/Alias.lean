/-
  Lemmas/Alias.lean — frame, freshness and separation lemmas for the heap model of Sem/Alias.lean (C19).
-/
import TypedpyModel.Sem.Alias
namespace Typedpy.Alias

/-! ## frame: a transformer only allocates -/

/-- `h'` extends `h`: every pre-existing cell is untouched -/
def Frame (h h' : Heap) : Prop := h.next ≤ h'.next ∧ ∀ a, a < h.next → h'.cells a = h.cells a

theorem Frame.rfl' (h : Heap) : Frame h h := ⟨Nat.le_refl _, fun _ _ => rfl⟩

theorem Frame.trans {h1 h2 h3 : Heap} (a : Frame h1 h2) (b : Frame h2 h3) : Frame h1 h3 :=
  ⟨Nat.le_trans a.1 b.1, fun x hx => by rw [b.2 x (Nat.lt_of_lt_of_le hx a.1), a.2 x hx]⟩

theorem frame_alloc (h : Heap) (c : Cell) : Frame h (h.alloc c).1 := by
  refine ⟨Nat.le_succ _, fun a ha => ?_⟩
  simp only [Heap.alloc]
  rw [if_neg (Nat.ne_of_lt ha)]

def FrameSpec (f : Heap → Item → R Item) : Prop := ∀ h i h' r, f h i = (h', r) → Frame h h'
def FrameSpecL (g : Heap → List (String × Item) → R (List (String × Item))) : Prop :=
  ∀ h its h' r, g h its = (h', r) → Frame h h'

theorem allocLike_frame (h : Heap) (tag : String) (its : List (String × Item)) (h' : Heap) (r : Option Item)
    (e : allocLike h tag its = (h', r)) : Frame h h' := by
  simp only [allocLike, Prod.mk.injEq] at e
  rw [← e.1]; exact frame_alloc _ _

theorem mapItems_frame {f : Heap → Item → R Item} (hf : FrameSpec f) : FrameSpecL (mapItems f) := by
  intro h its
  induction its generalizing h with
  | nil => intro h' r e; simp only [mapItems, Prod.mk.injEq] at e; rw [← e.1]; exact Frame.rfl' _
  | cons p rest ih =>
    intro h' r e
    obtain ⟨k, i⟩ := p
    simp only [mapItems] at e
    cases h1 : f h i with
    | mk h1' o =>
      have f1 := hf _ _ _ _ h1
      rw [h1] at e
      cases o with
      | none => simp only [Prod.mk.injEq] at e; rw [← e.1]; exact f1
      | some i' =>
        simp only at e
        cases h2 : mapItems f h1' rest with
        | mk h2' o2 =>
          have f2 := ih _ _ _ h2
          rw [h2] at e
          cases o2 with
          | none => simp only [Prod.mk.injEq] at e; rw [← e.1]; exact f1.trans f2
          | some r2 => simp only [Prod.mk.injEq] at e; rw [← e.1]; exact f1.trans f2

theorem deepCopy_frame (n : Nat) : FrameSpec (deepCopy n) := by
  induction n with
  | zero =>
    intro h i h' r e
    cases i with
    | atom v => simp only [deepCopy, Prod.mk.injEq] at e; rw [← e.1]; exact Frame.rfl' _
    | ref a => simp only [deepCopy, Prod.mk.injEq] at e; rw [← e.1]; exact Frame.rfl' _
  | succ n ih =>
    intro h i h' r e
    cases i with
    | atom v => simp only [deepCopy, Prod.mk.injEq] at e; rw [← e.1]; exact Frame.rfl' _
    | ref a =>
      simp only [deepCopy] at e
      cases h1 : mapItems (deepCopy n) h (h.cells a).items with
      | mk h1' o =>
        have f1 := mapItems_frame ih _ _ _ _ h1
        rw [h1] at e
        cases o with
        | none => simp only [Prod.mk.injEq] at e; rw [← e.1]; exact f1
        | some its => exact f1.trans (allocLike_frame _ _ _ _ _ e)

theorem shallowCopy_frame : FrameSpec shallowCopy := by
  intro h i h' r e
  cases i with
  | atom v => simp only [shallowCopy, Prod.mk.injEq] at e; rw [← e.1]; exact Frame.rfl' _
  | ref a => exact allocLike_frame _ _ _ _ _ e

theorem leafScalar_frame : FrameSpec leafScalar := by
  intro h i h' r e
  cases i <;> (simp only [leafScalar, Prod.mk.injEq] at e; rw [← e.1]; exact Frame.rfl' _)

theorem leafAny_frame (m : Mode) (fuel : Nat) : FrameSpec (leafAny m fuel) := by
  intro h i h' r e
  cases m <;> simp only [leafAny] at e
  case alias => simp only [Prod.mk.injEq] at e; rw [← e.1]; exact Frame.rfl' _
  case error => simp only [Prod.mk.injEq] at e; rw [← e.1]; exact Frame.rfl' _
  case shallow => exact shallowCopy_frame _ _ _ _ e
  case rebuild => exact deepCopy_frame _ _ _ _ _ e
  case deep => exact deepCopy_frame _ _ _ _ _ e

theorem nodeColl_frame (m : Mode) (fuel : Nat) {f : Heap → Item → R Item} (hf : FrameSpec f) :
    FrameSpec (nodeColl m fuel f) := by
  intro h i h' r e
  cases i with
  | atom v => simp only [nodeColl, Prod.mk.injEq] at e; rw [← e.1]; exact Frame.rfl' _
  | ref a =>
    cases m <;> simp only [nodeColl] at e
    case alias => simp only [Prod.mk.injEq] at e; rw [← e.1]; exact Frame.rfl' _
    case error => simp only [Prod.mk.injEq] at e; rw [← e.1]; exact Frame.rfl' _
    case shallow => exact shallowCopy_frame _ _ _ _ e
    case deep => exact deepCopy_frame _ _ _ _ _ e
    case rebuild =>
      cases h1 : mapItems f h (h.cells a).items with
      | mk h1' o =>
        have f1 := mapItems_frame hf _ _ _ _ h1
        rw [h1] at e
        cases o with
        | none => simp only [Prod.mk.injEq] at e; rw [← e.1]; exact f1
        | some its => exact f1.trans (allocLike_frame _ _ _ _ _ e)

theorem nodeRec_frame (m : Mode) (fuel : Nat) {tf : Heap → List (String × Item) → R (List (String × Item))}
    (hf : FrameSpecL tf) : FrameSpec (nodeRec m fuel tf) := by
  intro h i h' r e
  cases i with
  | atom v => simp only [nodeRec, Prod.mk.injEq] at e; rw [← e.1]; exact Frame.rfl' _
  | ref a =>
    cases m <;> simp only [nodeRec] at e
    case alias => simp only [Prod.mk.injEq] at e; rw [← e.1]; exact Frame.rfl' _
    case error => simp only [Prod.mk.injEq] at e; rw [← e.1]; exact Frame.rfl' _
    case shallow => exact shallowCopy_frame _ _ _ _ e
    case deep => exact deepCopy_frame _ _ _ _ _ e
    case rebuild =>
      cases h1 : tf h (h.cells a).items with
      | mk h1' o =>
        have f1 := hf _ _ _ _ h1
        rw [h1] at e
        cases o with
        | none => simp only [Prod.mk.injEq] at e; rw [← e.1]; exact f1
        | some its => exact f1.trans (allocLike_frame _ _ _ _ _ e)

theorem nodeWrap_frame (m : Mode) (fuel : Nat) {f : Heap → Item → R Item} (hf : FrameSpec f) :
    FrameSpec (nodeWrap m fuel f) := by
  intro h i h' r e
  cases m <;> simp only [nodeWrap] at e
  case alias => simp only [Prod.mk.injEq] at e; rw [← e.1]; exact Frame.rfl' _
  case error => simp only [Prod.mk.injEq] at e; rw [← e.1]; exact Frame.rfl' _
  case shallow => exact shallowCopy_frame _ _ _ _ e
  case deep => exact deepCopy_frame _ _ _ _ _ e
  case rebuild => exact hf _ _ _ _ e

theorem fieldStep_frame (name : String) {f : Heap → Item → R Item}
    {g : Heap → List (String × Item) → R (List (String × Item))} (hf : FrameSpec f) (hg : FrameSpecL g) :
    FrameSpecL (fieldStep name f g) := by
  intro h its h' r e
  simp only [fieldStep] at e
  cases hl : lookupItem name its with
  | none => rw [hl] at e; exact hg _ _ _ _ e
  | some it =>
    rw [hl] at e
    simp only at e
    cases h1 : f h it with
    | mk h1' o =>
      have f1 := hf _ _ _ _ h1
      rw [h1] at e
      cases o with
      | none => simp only [Prod.mk.injEq] at e; rw [← e.1]; exact f1
      | some it' =>
        simp only at e
        cases h2 : g h1' its with
        | mk h2' o2 =>
          have f2 := hg _ _ _ _ h2
          rw [h2] at e
          cases o2 with
          | none => simp only [Prod.mk.injEq] at e; rw [← e.1]; exact f1.trans f2
          | some r2 => simp only [Prod.mk.injEq] at e; rw [← e.1]; exact f1.trans f2

theorem c19_optStep_frame {f : Heap → Item → R Item} {g : Nat → Heap → Item → R Item} (hf : FrameSpec f)
    (hg : ∀ n, FrameSpec (g n)) : ∀ n, FrameSpec (optStep f g n) := by
  intro n h i h' r e
  cases n with
  | zero => simp only [optStep] at e; exact hf _ _ _ _ e
  | succ n => simp only [optStep] at e; exact hg n _ _ _ _ e

theorem c19_nodeOwned_frame (m : Mode) (fuel : Nat) {f : Heap → Item → R Item} (hf : FrameSpec f) :
    FrameSpec (nodeOwned m fuel f) := by
  intro h i h' r e
  have copyCase : (if ownerExempt h i then f h i
      else match deepCopy fuel h i with
        | (h1, none) => (h1, none)
        | (h1, some c) => f h1 c) = (h', r) → Frame h h' := by
    intro e
    cases hx : ownerExempt h i with
    | true => rw [hx] at e; exact hf _ _ _ _ e
    | false =>
      rw [hx] at e
      simp only [Bool.false_eq_true, if_false] at e
      cases hd : deepCopy fuel h i with
      | mk h1 o =>
        have f1 := deepCopy_frame fuel _ _ _ _ hd
        rw [hd] at e
        cases o with
        | none => simp only [Prod.mk.injEq] at e; rw [← e.1]; exact f1
        | some c => exact f1.trans (hf _ _ _ _ e)
  cases m <;> simp only [nodeOwned] at e
  case error => simp only [Prod.mk.injEq] at e; rw [← e.1]; exact Frame.rfl' _
  case alias => exact hf _ _ _ _ e
  all_goals exact copyCase e

mutual
theorem transfer_frame (M : Kind → Cat → Mode) (fuel : Nat) : (s : Shape) → FrameSpec (transfer M fuel s)
  | .scalar _ => by intro h i h' r e; simp only [transfer] at e; exact leafScalar_frame _ _ _ _ e
  | .any => by intro h i h' r e; simp only [transfer] at e; exact leafAny_frame _ _ _ _ _ _ e
  | .untyped => by intro h i h' r e; simp only [transfer] at e; exact leafAny_frame _ _ _ _ _ _ e
  | .coll k s => by
    intro h i h' r e; simp only [transfer] at e
    exact nodeColl_frame _ _ (transfer_frame M fuel s) _ _ _ _ e
  | .keyed k fs => by
    intro h i h' r e; simp only [transfer] at e
    exact nodeRec_frame _ _ (transferFields_frame M fuel fs) _ _ _ _ e
  | .wrap k s => by
    intro h i h' r e; simp only [transfer] at e
    exact nodeWrap_frame _ _ (transfer_frame M fuel s) _ _ _ _ e
  | .wrapN k p opts => by
    intro h i h' r e; simp only [transfer] at e
    exact transferOpts_frame M fuel k _ opts _ _ _ _ _ e
  | .owned s => by
    intro h i h' r e; simp only [transfer] at e
    exact c19_nodeOwned_frame _ _ (transfer_frame M fuel s) _ _ _ _ e
theorem transferOpts_frame (M : Kind → Cat → Mode) (fuel : Nat) (k : Kind) (fb : Mode) :
    (opts : List Shape) → ∀ n, FrameSpec (transferOpts M fuel k fb opts n)
  | [] => by intro n h i h' r e; simp only [transferOpts] at e; exact leafAny_frame _ _ _ _ _ _ e
  | s :: rest => by
    intro n h i h' r e; simp only [transferOpts] at e
    exact c19_optStep_frame (nodeWrap_frame _ _ (transfer_frame M fuel s)) (transferOpts_frame M fuel k fb rest) n _ _ _ _ e
theorem transferFields_frame (M : Kind → Cat → Mode) (fuel : Nat) :
    (fs : List (String × Shape)) → FrameSpecL (transferFields M fuel fs)
  | [] => by intro h its h' r e; simp only [transferFields, Prod.mk.injEq] at e; rw [← e.1]; exact Frame.rfl' _
  | (name, s) :: rest => by
    intro h its h' r e; simp only [transferFields] at e
    exact fieldStep_frame name (transfer_frame M fuel s) (transferFields_frame M fuel rest) _ _ _ _ e
end

/-! ## freshness: a copying transformer returns a value that lives entirely in the newly allocated region -/

/-- a reference held by the item points into the region allocated since `n0` -/
def ItemIn (n0 : Nat) (h : Heap) (i : Item) : Prop := ∀ a, i = .ref a → n0 ≤ a ∧ a < h.next

/-- the region allocated since `n0` is closed under references -/
def NewClosed (n0 : Nat) (h : Heap) : Prop :=
  ∀ a, n0 ≤ a → a < h.next → ∀ k, k ∈ (h.cells a).kids → n0 ≤ k ∧ k < h.next

def ItemsIn (n0 : Nat) (h : Heap) (its : List (String × Item)) : Prop := ∀ p, p ∈ its → ItemIn n0 h p.2

theorem ItemIn.mono {n0 : Nat} {h h' : Heap} {i : Item} (x : ItemIn n0 h i) (le : h.next ≤ h'.next) : ItemIn n0 h' i :=
  fun a e => ⟨(x a e).1, Nat.lt_of_lt_of_le (x a e).2 le⟩

theorem itemIn_atom (n0 : Nat) (h : Heap) (v : Int) : ItemIn n0 h (.atom v) := fun _ e => nomatch e

theorem mem_kids {c : Cell} {k : Nat} (hk : k ∈ c.kids) : ∃ key, (key, Item.ref k) ∈ c.items := by
  simp only [Cell.kids, List.mem_filterMap] at hk
  obtain ⟨p, hp, e⟩ := hk
  obtain ⟨key, it⟩ := p
  cases it with
  | atom v => simp [Item.addr?] at e
  | ref a => simp only [Item.addr?, Option.some.injEq] at e; subst e; exact ⟨key, hp⟩

theorem alloc_fresh {n0 : Nat} {h : Heap} (le : n0 ≤ h.next) (nc : NewClosed n0 h) (tag : String)
    {its : List (String × Item)} (hi : ItemsIn n0 h its) :
    NewClosed n0 (h.alloc ⟨tag, its⟩).1 ∧ ItemIn n0 (h.alloc ⟨tag, its⟩).1 (.ref h.next) := by
  constructor
  · intro a ha hlt k hk
    simp only [Heap.alloc] at hlt hk ⊢
    by_cases e : a = h.next
    · rw [if_pos e] at hk
      obtain ⟨key, hm⟩ := mem_kids hk
      have := hi _ hm k rfl
      exact ⟨this.1, Nat.lt_succ_of_lt this.2⟩
    · rw [if_neg e] at hk
      have hlt' : a < h.next := Nat.lt_of_le_of_ne (Nat.le_of_lt_succ hlt) e
      have := nc a ha hlt' k hk
      exact ⟨this.1, Nat.lt_succ_of_lt this.2⟩
  · intro a e
    simp only [Item.ref.injEq] at e
    subst e
    exact ⟨le, Nat.lt_succ_self _⟩

def FreshSpec (n0 : Nat) (f : Heap → Item → R Item) : Prop :=
  ∀ h i h' i', n0 ≤ h.next → NewClosed n0 h → f h i = (h', some i') → NewClosed n0 h' ∧ ItemIn n0 h' i'
def FreshSpecL (n0 : Nat) (g : Heap → List (String × Item) → R (List (String × Item))) : Prop :=
  ∀ h its h' r, n0 ≤ h.next → NewClosed n0 h → g h its = (h', some r) → NewClosed n0 h' ∧ ItemsIn n0 h' r

theorem allocLike_fresh {n0 : Nat} {h : Heap} (le : n0 ≤ h.next) (nc : NewClosed n0 h) (tag : String)
    {its : List (String × Item)} (hi : ItemsIn n0 h its) {h' : Heap} {i' : Item}
    (e : allocLike h tag its = (h', some i')) : NewClosed n0 h' ∧ ItemIn n0 h' i' := by
  simp only [allocLike, Prod.mk.injEq, Option.some.injEq] at e
  have := alloc_fresh le nc tag hi
  rw [← e.1, ← e.2]
  exact this

theorem mapItems_fresh {n0 : Nat} {f : Heap → Item → R Item} (hf : FrameSpec f) (hs : FreshSpec n0 f) :
    FreshSpecL n0 (mapItems f) := by
  intro h its
  induction its generalizing h with
  | nil =>
    intro h' r le nc e
    simp only [mapItems, Prod.mk.injEq, Option.some.injEq] at e
    rw [← e.1, ← e.2]; exact ⟨nc, fun p hp => nomatch hp⟩
  | cons p rest ih =>
    intro h' r le nc e
    obtain ⟨k, i⟩ := p
    simp only [mapItems] at e
    cases h1 : f h i with
    | mk h1' o =>
      rw [h1] at e
      cases o with
      | none => simp at e
      | some i' =>
        simp only at e
        have fr1 := hf _ _ _ _ h1
        have s1 := hs _ _ _ _ le nc h1
        cases h2 : mapItems f h1' rest with
        | mk h2' o2 =>
          rw [h2] at e
          cases o2 with
          | none => simp at e
          | some r2 =>
            simp only [Prod.mk.injEq, Option.some.injEq] at e
            have fr2 := mapItems_frame hf _ _ _ _ h2
            have s2 := ih _ _ _ (Nat.le_trans le fr1.1) s1.1 h2
            rw [← e.1, ← e.2]
            refine ⟨s2.1, ?_⟩
            intro p hp
            cases hp with
            | head => exact s1.2.mono fr2.1
            | tail _ hp' => exact s2.2 p hp'

theorem deepCopy_fresh (n0 : Nat) (n : Nat) : FreshSpec n0 (deepCopy n) := by
  induction n with
  | zero =>
    intro h i h' i' le nc e
    cases i with
    | atom v =>
      simp only [deepCopy, Prod.mk.injEq, Option.some.injEq] at e
      rw [← e.1, ← e.2]; exact ⟨nc, itemIn_atom _ _ _⟩
    | ref a => simp [deepCopy] at e
  | succ n ih =>
    intro h i h' i' le nc e
    cases i with
    | atom v =>
      simp only [deepCopy, Prod.mk.injEq, Option.some.injEq] at e
      rw [← e.1, ← e.2]; exact ⟨nc, itemIn_atom _ _ _⟩
    | ref a =>
      simp only [deepCopy] at e
      cases h1 : mapItems (deepCopy n) h (h.cells a).items with
      | mk h1' o =>
        rw [h1] at e
        cases o with
        | none => simp at e
        | some its =>
          simp only at e
          have fr := mapItems_frame (deepCopy_frame n) _ _ _ _ h1
          have s := mapItems_fresh (deepCopy_frame n) ih _ _ _ _ le nc h1
          exact allocLike_fresh (Nat.le_trans le fr.1) s.1 _ s.2 e

theorem leafScalar_fresh (n0 : Nat) : FreshSpec n0 leafScalar := by
  intro h i h' i' le nc e
  cases i with
  | atom v =>
    simp only [leafScalar, Prod.mk.injEq, Option.some.injEq] at e
    rw [← e.1, ← e.2]; exact ⟨nc, itemIn_atom _ _ _⟩
  | ref a => simp [leafScalar] at e

theorem leafAny_fresh (n0 : Nat) (m : Mode) (hm : m.copies = true) (fuel : Nat) : FreshSpec n0 (leafAny m fuel) := by
  intro h i h' i' le nc e
  cases m <;> simp only [Mode.copies] at hm <;> simp only [leafAny] at e
  case deep => exact deepCopy_fresh n0 fuel _ _ _ _ le nc e
  case rebuild => exact deepCopy_fresh n0 fuel _ _ _ _ le nc e
  case error => simp at e
  all_goals exact absurd hm (by decide)

theorem nodeColl_fresh (n0 : Nat) (m : Mode) (hm : m.copies = true) (fuel : Nat) {f : Heap → Item → R Item}
    (hf : FrameSpec f) (hs : FreshSpec n0 f) : FreshSpec n0 (nodeColl m fuel f) := by
  intro h i h' i' le nc e
  cases i with
  | atom v =>
    simp only [nodeColl, Prod.mk.injEq, Option.some.injEq] at e
    rw [← e.1, ← e.2]; exact ⟨nc, itemIn_atom _ _ _⟩
  | ref a =>
    cases m <;> simp only [Mode.copies] at hm <;> simp only [nodeColl] at e
    case deep => exact deepCopy_fresh n0 fuel _ _ _ _ le nc e
    case error => simp at e
    case rebuild =>
      cases h1 : mapItems f h (h.cells a).items with
      | mk h1' o =>
        rw [h1] at e
        cases o with
        | none => simp at e
        | some its =>
          simp only at e
          have fr := mapItems_frame hf _ _ _ _ h1
          have s := mapItems_fresh hf hs _ _ _ _ le nc h1
          exact allocLike_fresh (Nat.le_trans le fr.1) s.1 _ s.2 e
    all_goals exact absurd hm (by decide)

theorem nodeRec_fresh (n0 : Nat) (m : Mode) (hm : m.copies = true) (fuel : Nat)
    {tf : Heap → List (String × Item) → R (List (String × Item))}
    (hf : FrameSpecL tf) (hs : FreshSpecL n0 tf) : FreshSpec n0 (nodeRec m fuel tf) := by
  intro h i h' i' le nc e
  cases i with
  | atom v =>
    simp only [nodeRec, Prod.mk.injEq, Option.some.injEq] at e
    rw [← e.1, ← e.2]; exact ⟨nc, itemIn_atom _ _ _⟩
  | ref a =>
    cases m <;> simp only [Mode.copies] at hm <;> simp only [nodeRec] at e
    case deep => exact deepCopy_fresh n0 fuel _ _ _ _ le nc e
    case error => simp at e
    case rebuild =>
      cases h1 : tf h (h.cells a).items with
      | mk h1' o =>
        rw [h1] at e
        cases o with
        | none => simp at e
        | some its =>
          simp only at e
          have fr := hf _ _ _ _ h1
          have s := hs _ _ _ _ le nc h1
          exact allocLike_fresh (Nat.le_trans le fr.1) s.1 _ s.2 e
    all_goals exact absurd hm (by decide)

theorem nodeWrap_fresh (n0 : Nat) (m : Mode) (hm : m.copies = true) (fuel : Nat) {f : Heap → Item → R Item}
    (hs : FreshSpec n0 f) : FreshSpec n0 (nodeWrap m fuel f) := by
  intro h i h' i' le nc e
  cases m <;> simp only [Mode.copies] at hm <;> simp only [nodeWrap] at e
  case deep => exact deepCopy_fresh n0 fuel _ _ _ _ le nc e
  case error => simp at e
  case rebuild => exact hs _ _ _ _ le nc e
  all_goals exact absurd hm (by decide)

theorem fieldStep_fresh (n0 : Nat) (name : String) {f : Heap → Item → R Item}
    {g : Heap → List (String × Item) → R (List (String × Item))}
    (hf : FrameSpec f) (hg : FrameSpecL g) (sf : FreshSpec n0 f) (sg : FreshSpecL n0 g) :
    FreshSpecL n0 (fieldStep name f g) := by
  intro h its h' r le nc e
  simp only [fieldStep] at e
  cases hl : lookupItem name its with
  | none => rw [hl] at e; exact sg _ _ _ _ le nc e
  | some it =>
    rw [hl] at e
    simp only at e
    cases h1 : f h it with
    | mk h1' o =>
      rw [h1] at e
      cases o with
      | none => simp at e
      | some it' =>
        simp only at e
        have fr1 := hf _ _ _ _ h1
        have s1 := sf _ _ _ _ le nc h1
        cases h2 : g h1' its with
        | mk h2' o2 =>
          rw [h2] at e
          cases o2 with
          | none => simp at e
          | some r2 =>
            simp only [Prod.mk.injEq, Option.some.injEq] at e
            have fr2 := hg _ _ _ _ h2
            have s2 := sg _ _ _ _ (Nat.le_trans le fr1.1) s1.1 h2
            rw [← e.1, ← e.2]
            refine ⟨s2.1, ?_⟩
            intro p hp
            cases hp with
            | head => exact s1.2.mono fr2.1
            | tail _ hp' => exact s2.2 p hp'

theorem and_true_split {a b : Bool} (h : (a && b) = true) : a = true ∧ b = true := by
  cases a <;> cases b <;> simp_all

theorem c19_optStep_fresh (n0 : Nat) {f : Heap → Item → R Item} {g : Nat → Heap → Item → R Item} (hf : FreshSpec n0 f)
    (hg : ∀ n, FreshSpec n0 (g n)) : ∀ n, FreshSpec n0 (optStep f g n) := by
  intro n h i h' i' le nc e
  cases n with
  | zero => simp only [optStep] at e; exact hf _ _ _ _ le nc e
  | succ n => simp only [optStep] at e; exact hg n _ _ _ _ le nc e

/-- whatever the owner does (copy or not), a field that copies yields a fresh value -/
theorem c19_nodeOwned_fresh (n0 : Nat) (m : Mode) (fuel : Nat) {f : Heap → Item → R Item}
    (hs : FreshSpec n0 f) : FreshSpec n0 (nodeOwned m fuel f) := by
  intro h i h' i' le nc e
  have copyCase : (if ownerExempt h i then f h i
      else match deepCopy fuel h i with
        | (h1, none) => (h1, none)
        | (h1, some c) => f h1 c) = (h', some i') → NewClosed n0 h' ∧ ItemIn n0 h' i' := by
    intro e
    cases hx : ownerExempt h i with
    | true => rw [hx] at e; exact hs _ _ _ _ le nc e
    | false =>
      rw [hx] at e
      simp only [Bool.false_eq_true, if_false] at e
      cases hd : deepCopy fuel h i with
      | mk h1 o =>
        rw [hd] at e
        cases o with
        | none => simp at e
        | some c =>
          have f1 := deepCopy_frame fuel _ _ _ _ hd
          have s1 := deepCopy_fresh n0 fuel _ _ _ _ le nc hd
          exact hs _ _ _ _ (Nat.le_trans le f1.1) s1.1 e
  cases m <;> simp only [nodeOwned] at e
  case error => simp at e
  case alias => exact hs _ _ _ _ le nc e
  all_goals exact copyCase e

mutual
theorem transfer_fresh (n0 : Nat) (M : Kind → Cat → Mode) (fuel : Nat) :
    (s : Shape) → safeShape M s = true → FreshSpec n0 (transfer M fuel s)
  | .scalar _, _ => by
    intro h i h' i' le nc e; simp only [transfer] at e; exact leafScalar_fresh n0 _ _ _ _ le nc e
  | .any, hs => by
    intro h i h' i' le nc e
    simp only [transfer] at e
    simp only [safeShape] at hs
    exact leafAny_fresh n0 _ hs fuel _ _ _ _ le nc e
  | .untyped, hs => by
    intro h i h' i' le nc e
    simp only [transfer] at e
    simp only [safeShape] at hs
    exact leafAny_fresh n0 _ hs fuel _ _ _ _ le nc e
  | .coll k s, hs => by
    intro h i h' i' le nc e
    simp only [transfer] at e
    simp only [safeShape] at hs
    have hs' := and_true_split hs
    exact nodeColl_fresh n0 _ hs'.1 fuel (transfer_frame M fuel s) (transfer_fresh n0 M fuel s hs'.2) _ _ _ _ le nc e
  | .keyed k fs, hs => by
    intro h i h' i' le nc e
    simp only [transfer] at e
    simp only [safeShape] at hs
    have hs' := and_true_split hs
    exact nodeRec_fresh n0 _ hs'.1 fuel (transferFields_frame M fuel fs) (transferFields_fresh n0 M fuel fs hs'.2)
      _ _ _ _ le nc e
  | .wrap k s, hs => by
    intro h i h' i' le nc e
    simp only [transfer] at e
    simp only [safeShape] at hs
    have hs' := and_true_split hs
    exact nodeWrap_fresh n0 _ hs'.1 fuel (transfer_fresh n0 M fuel s hs'.2) _ _ _ _ le nc e
  | .wrapN k p opts, hs => by
    intro h i h' i' le nc e
    simp only [transfer] at e
    simp only [safeShape] at hs
    have hs' := and_true_split hs
    exact transferOpts_fresh n0 M fuel k _ opts hs'.1 hs'.2 _ _ _ _ _ le nc e
  | .owned s, hs => by
    intro h i h' i' le nc e
    simp only [transfer] at e
    simp only [safeShape] at hs
    exact c19_nodeOwned_fresh n0 _ fuel (transfer_fresh n0 M fuel s hs) _ _ _ _ le nc e
theorem transferOpts_fresh (n0 : Nat) (M : Kind → Cat → Mode) (fuel : Nat) (k : Kind) (fb : Mode) :
    (opts : List Shape) → fb.copies = true → safeOpts M k opts = true →
      ∀ n, FreshSpec n0 (transferOpts M fuel k fb opts n)
  | [], hu, _ => by
    intro n h i h' i' le nc e
    simp only [transferOpts] at e
    exact leafAny_fresh n0 _ hu fuel _ _ _ _ le nc e
  | s :: rest, hu, hs => by
    intro n h i h' i' le nc e
    simp only [transferOpts] at e
    simp only [safeOpts] at hs
    have hs' := and_true_split hs
    have hs'' := and_true_split hs'.1
    exact c19_optStep_fresh n0 (nodeWrap_fresh n0 _ hs''.1 fuel (transfer_fresh n0 M fuel s hs''.2))
      (transferOpts_fresh n0 M fuel k fb rest hu hs'.2) n _ _ _ _ le nc e
theorem transferFields_fresh (n0 : Nat) (M : Kind → Cat → Mode) (fuel : Nat) :
    (fs : List (String × Shape)) → safeFields M fs = true → FreshSpecL n0 (transferFields M fuel fs)
  | [], _ => by
    intro h its h' r le nc e
    simp only [transferFields, Prod.mk.injEq, Option.some.injEq] at e
    rw [← e.1, ← e.2]; exact ⟨nc, fun p hp => nomatch hp⟩
  | (name, s) :: rest, hs => by
    intro h its h' r le nc e
    simp only [transferFields] at e
    simp only [safeFields] at hs
    have hs' := and_true_split hs
    exact fieldStep_fresh n0 name (transfer_frame M fuel s) (transferFields_frame M fuel rest)
      (transfer_fresh n0 M fuel s hs'.1) (transferFields_fresh n0 M fuel rest hs'.2) _ _ _ _ le nc e
end

/-! ## whatever the table says, a walk over a value that already lives in the fresh region stays there
    (what an immutable owner's defensive deep copy buys: the field only ever sees the copy) -/

def KeepSpec (n0 : Nat) (f : Heap → Item → R Item) : Prop :=
  ∀ h i h' i', n0 ≤ h.next → NewClosed n0 h → ItemIn n0 h i → f h i = (h', some i') → NewClosed n0 h' ∧ ItemIn n0 h' i'
def KeepSpecL (n0 : Nat) (g : Heap → List (String × Item) → R (List (String × Item))) : Prop :=
  ∀ h its h' r, n0 ≤ h.next → NewClosed n0 h → ItemsIn n0 h its → g h its = (h', some r) →
    NewClosed n0 h' ∧ ItemsIn n0 h' r

theorem c19_keep_of_fresh {n0 : Nat} {f : Heap → Item → R Item} (hs : FreshSpec n0 f) : KeepSpec n0 f :=
  fun h i h' i' le nc _ e => hs h i h' i' le nc e

theorem ItemsIn.mono {n0 : Nat} {h h' : Heap} {its : List (String × Item)} (x : ItemsIn n0 h its)
    (le : h.next ≤ h'.next) : ItemsIn n0 h' its := fun p hp => (x p hp).mono le

/-- the content of a cell of the closed fresh region only refers into that region -/
theorem c19_cell_items_in {n0 : Nat} {h : Heap} (nc : NewClosed n0 h) {a : Nat} (ha : n0 ≤ a ∧ a < h.next) :
    ItemsIn n0 h (h.cells a).items := by
  intro p hp b e
  apply nc a ha.1 ha.2 b
  simp only [Cell.kids, List.mem_filterMap]
  exact ⟨p, hp, by rw [e]; rfl⟩

theorem c19_lookupItem_mem {name : String} : ∀ {its : List (String × Item)} {it : Item},
    lookupItem name its = some it → ∃ k, (k, it) ∈ its
  | [], _, e => by simp [lookupItem] at e
  | (k, v) :: rest, it, e => by
    simp only [lookupItem] at e
    by_cases hk : k = name
    · rw [if_pos hk] at e
      simp only [Option.some.injEq] at e
      exact ⟨k, by rw [← e]; exact List.mem_cons_self⟩
    · rw [if_neg hk] at e
      obtain ⟨k', hm⟩ := c19_lookupItem_mem e
      exact ⟨k', List.mem_cons_of_mem _ hm⟩

theorem c19_mapItems_keep {n0 : Nat} {f : Heap → Item → R Item} (hf : FrameSpec f) (hs : KeepSpec n0 f) :
    KeepSpecL n0 (mapItems f) := by
  intro h its
  induction its generalizing h with
  | nil =>
    intro h' r le nc _ e
    simp only [mapItems, Prod.mk.injEq, Option.some.injEq] at e
    rw [← e.1, ← e.2]; exact ⟨nc, fun p hp => nomatch hp⟩
  | cons p rest ih =>
    intro h' r le nc hin e
    obtain ⟨k, i⟩ := p
    simp only [mapItems] at e
    cases h1 : f h i with
    | mk h1' o =>
      rw [h1] at e
      cases o with
      | none => simp at e
      | some i' =>
        simp only at e
        have fr1 := hf _ _ _ _ h1
        have s1 := hs _ _ _ _ le nc (hin (k, i) List.mem_cons_self) h1
        have hin' : ItemsIn n0 h1' rest := fun q hq => (hin q (List.mem_cons_of_mem _ hq)).mono fr1.1
        cases h2 : mapItems f h1' rest with
        | mk h2' o2 =>
          rw [h2] at e
          cases o2 with
          | none => simp at e
          | some r2 =>
            simp only [Prod.mk.injEq, Option.some.injEq] at e
            have fr2 := mapItems_frame hf _ _ _ _ h2
            have s2 := ih _ _ _ (Nat.le_trans le fr1.1) s1.1 hin' h2
            rw [← e.1, ← e.2]
            refine ⟨s2.1, ?_⟩
            intro p hp
            cases hp with
            | head => exact s1.2.mono fr2.1
            | tail _ hp' => exact s2.2 p hp'

theorem c19_shallowCopy_keep (n0 : Nat) : KeepSpec n0 shallowCopy := by
  intro h i h' i' le nc hin e
  cases i with
  | atom v =>
    simp only [shallowCopy, Prod.mk.injEq, Option.some.injEq] at e
    rw [← e.1, ← e.2]; exact ⟨nc, itemIn_atom _ _ _⟩
  | ref a =>
    simp only [shallowCopy] at e
    exact allocLike_fresh le nc _ (c19_cell_items_in nc (hin a rfl)) e

theorem c19_leafAny_keep (n0 : Nat) (m : Mode) (fuel : Nat) : KeepSpec n0 (leafAny m fuel) := by
  intro h i h' i' le nc hin e
  cases m <;> simp only [leafAny] at e
  case alias =>
    simp only [Prod.mk.injEq, Option.some.injEq] at e
    rw [← e.1, ← e.2]; exact ⟨nc, hin⟩
  case shallow => exact c19_shallowCopy_keep n0 _ _ _ _ le nc hin e
  case error => simp at e
  case rebuild => exact deepCopy_fresh n0 fuel _ _ _ _ le nc e
  case deep => exact deepCopy_fresh n0 fuel _ _ _ _ le nc e

theorem c19_nodeColl_keep (n0 : Nat) (m : Mode) (fuel : Nat) {f : Heap → Item → R Item}
    (hf : FrameSpec f) (hs : KeepSpec n0 f) : KeepSpec n0 (nodeColl m fuel f) := by
  intro h i h' i' le nc hin e
  cases i with
  | atom v =>
    simp only [nodeColl, Prod.mk.injEq, Option.some.injEq] at e
    rw [← e.1, ← e.2]; exact ⟨nc, itemIn_atom _ _ _⟩
  | ref a =>
    cases m <;> simp only [nodeColl] at e
    case alias =>
      simp only [Prod.mk.injEq, Option.some.injEq] at e
      rw [← e.1, ← e.2]; exact ⟨nc, hin⟩
    case shallow => exact c19_shallowCopy_keep n0 _ _ _ _ le nc hin e
    case deep => exact deepCopy_fresh n0 fuel _ _ _ _ le nc e
    case error => simp at e
    case rebuild =>
      cases h1 : mapItems f h (h.cells a).items with
      | mk h1' o =>
        rw [h1] at e
        cases o with
        | none => simp at e
        | some its =>
          simp only at e
          have fr := mapItems_frame hf _ _ _ _ h1
          have s := c19_mapItems_keep hf hs _ _ _ _ le nc (c19_cell_items_in nc (hin a rfl)) h1
          exact allocLike_fresh (Nat.le_trans le fr.1) s.1 _ s.2 e

theorem c19_nodeRec_keep (n0 : Nat) (m : Mode) (fuel : Nat)
    {tf : Heap → List (String × Item) → R (List (String × Item))}
    (hf : FrameSpecL tf) (hs : KeepSpecL n0 tf) : KeepSpec n0 (nodeRec m fuel tf) := by
  intro h i h' i' le nc hin e
  cases i with
  | atom v =>
    simp only [nodeRec, Prod.mk.injEq, Option.some.injEq] at e
    rw [← e.1, ← e.2]; exact ⟨nc, itemIn_atom _ _ _⟩
  | ref a =>
    cases m <;> simp only [nodeRec] at e
    case alias =>
      simp only [Prod.mk.injEq, Option.some.injEq] at e
      rw [← e.1, ← e.2]; exact ⟨nc, hin⟩
    case shallow => exact c19_shallowCopy_keep n0 _ _ _ _ le nc hin e
    case deep => exact deepCopy_fresh n0 fuel _ _ _ _ le nc e
    case error => simp at e
    case rebuild =>
      cases h1 : tf h (h.cells a).items with
      | mk h1' o =>
        rw [h1] at e
        cases o with
        | none => simp at e
        | some its =>
          simp only at e
          have fr := hf _ _ _ _ h1
          have s := hs _ _ _ _ le nc (c19_cell_items_in nc (hin a rfl)) h1
          exact allocLike_fresh (Nat.le_trans le fr.1) s.1 _ s.2 e

theorem c19_nodeWrap_keep (n0 : Nat) (m : Mode) (fuel : Nat) {f : Heap → Item → R Item}
    (hs : KeepSpec n0 f) : KeepSpec n0 (nodeWrap m fuel f) := by
  intro h i h' i' le nc hin e
  cases m <;> simp only [nodeWrap] at e
  case alias =>
    simp only [Prod.mk.injEq, Option.some.injEq] at e
    rw [← e.1, ← e.2]; exact ⟨nc, hin⟩
  case shallow => exact c19_shallowCopy_keep n0 _ _ _ _ le nc hin e
  case deep => exact deepCopy_fresh n0 fuel _ _ _ _ le nc e
  case error => simp at e
  case rebuild => exact hs _ _ _ _ le nc hin e

theorem c19_optStep_keep (n0 : Nat) {f : Heap → Item → R Item} {g : Nat → Heap → Item → R Item} (hf : KeepSpec n0 f)
    (hg : ∀ n, KeepSpec n0 (g n)) : ∀ n, KeepSpec n0 (optStep f g n) := by
  intro n h i h' i' le nc hin e
  cases n with
  | zero => simp only [optStep] at e; exact hf _ _ _ _ le nc hin e
  | succ n => simp only [optStep] at e; exact hg n _ _ _ _ le nc hin e

theorem c19_nodeOwned_keep (n0 : Nat) (m : Mode) (fuel : Nat) {f : Heap → Item → R Item}
    (hs : KeepSpec n0 f) : KeepSpec n0 (nodeOwned m fuel f) := by
  intro h i h' i' le nc hin e
  have copyCase : (if ownerExempt h i then f h i
      else match deepCopy fuel h i with
        | (h1, none) => (h1, none)
        | (h1, some c) => f h1 c) = (h', some i') → NewClosed n0 h' ∧ ItemIn n0 h' i' := by
    intro e
    cases hx : ownerExempt h i with
    | true => rw [hx] at e; exact hs _ _ _ _ le nc hin e
    | false =>
      rw [hx] at e
      simp only [Bool.false_eq_true, if_false] at e
      cases hd : deepCopy fuel h i with
      | mk h1 o =>
        rw [hd] at e
        cases o with
        | none => simp at e
        | some c =>
          have f1 := deepCopy_frame fuel _ _ _ _ hd
          have s1 := deepCopy_fresh n0 fuel _ _ _ _ le nc hd
          exact hs _ _ _ _ (Nat.le_trans le f1.1) s1.1 s1.2 e
  cases m <;> simp only [nodeOwned] at e
  case error => simp at e
  case alias => exact hs _ _ _ _ le nc hin e
  all_goals exact copyCase e

theorem c19_fieldStep_keep (n0 : Nat) (name : String) {f : Heap → Item → R Item}
    {g : Heap → List (String × Item) → R (List (String × Item))}
    (hf : FrameSpec f) (hg : FrameSpecL g) (sf : KeepSpec n0 f) (sg : KeepSpecL n0 g) :
    KeepSpecL n0 (fieldStep name f g) := by
  intro h its h' r le nc hin e
  simp only [fieldStep] at e
  cases hl : lookupItem name its with
  | none => rw [hl] at e; exact sg _ _ _ _ le nc hin e
  | some it =>
    rw [hl] at e
    simp only at e
    obtain ⟨k0, hmem⟩ := c19_lookupItem_mem hl
    cases h1 : f h it with
    | mk h1' o =>
      rw [h1] at e
      cases o with
      | none => simp at e
      | some it' =>
        simp only at e
        have fr1 := hf _ _ _ _ h1
        have s1 := sf _ _ _ _ le nc (hin (k0, it) hmem) h1
        cases h2 : g h1' its with
        | mk h2' o2 =>
          rw [h2] at e
          cases o2 with
          | none => simp at e
          | some r2 =>
            simp only [Prod.mk.injEq, Option.some.injEq] at e
            have fr2 := hg _ _ _ _ h2
            have s2 := sg _ _ _ _ (Nat.le_trans le fr1.1) s1.1 (hin.mono fr1.1) h2
            rw [← e.1, ← e.2]
            refine ⟨s2.1, ?_⟩
            intro p hp
            cases hp with
            | head => exact s1.2.mono fr2.1
            | tail _ hp' => exact s2.2 p hp'

mutual
/-- under ANY table: what the walk returns for a value of the fresh region lies in the fresh region -/
theorem transfer_keep (n0 : Nat) (M : Kind → Cat → Mode) (fuel : Nat) : (s : Shape) → KeepSpec n0 (transfer M fuel s)
  | .scalar _ => by
    intro h i h' i' le nc _ e; simp only [transfer] at e; exact leafScalar_fresh n0 _ _ _ _ le nc e
  | .any => by
    intro h i h' i' le nc hin e; simp only [transfer] at e; exact c19_leafAny_keep n0 _ fuel _ _ _ _ le nc hin e
  | .untyped => by
    intro h i h' i' le nc hin e; simp only [transfer] at e; exact c19_leafAny_keep n0 _ fuel _ _ _ _ le nc hin e
  | .coll k s => by
    intro h i h' i' le nc hin e; simp only [transfer] at e
    exact c19_nodeColl_keep n0 _ fuel (transfer_frame M fuel s) (transfer_keep n0 M fuel s) _ _ _ _ le nc hin e
  | .keyed k fs => by
    intro h i h' i' le nc hin e; simp only [transfer] at e
    exact c19_nodeRec_keep n0 _ fuel (transferFields_frame M fuel fs) (transferFields_keep n0 M fuel fs) _ _ _ _ le nc hin e
  | .wrap k s => by
    intro h i h' i' le nc hin e; simp only [transfer] at e
    exact c19_nodeWrap_keep n0 _ fuel (transfer_keep n0 M fuel s) _ _ _ _ le nc hin e
  | .wrapN k p opts => by
    intro h i h' i' le nc hin e; simp only [transfer] at e
    exact transferOpts_keep n0 M fuel k _ opts _ _ _ _ _ le nc hin e
  | .owned s => by
    intro h i h' i' le nc hin e; simp only [transfer] at e
    exact c19_nodeOwned_keep n0 _ fuel (transfer_keep n0 M fuel s) _ _ _ _ le nc hin e
theorem transferOpts_keep (n0 : Nat) (M : Kind → Cat → Mode) (fuel : Nat) (k : Kind) (fb : Mode) :
    (opts : List Shape) → ∀ n, KeepSpec n0 (transferOpts M fuel k fb opts n)
  | [] => by
    intro n h i h' i' le nc hin e; simp only [transferOpts] at e
    exact c19_leafAny_keep n0 _ fuel _ _ _ _ le nc hin e
  | s :: rest => by
    intro n h i h' i' le nc hin e; simp only [transferOpts] at e
    exact c19_optStep_keep n0 (c19_nodeWrap_keep n0 _ fuel (transfer_keep n0 M fuel s))
      (transferOpts_keep n0 M fuel k fb rest) n _ _ _ _ le nc hin e
theorem transferFields_keep (n0 : Nat) (M : Kind → Cat → Mode) (fuel : Nat) :
    (fs : List (String × Shape)) → KeepSpecL n0 (transferFields M fuel fs)
  | [] => by
    intro h its h' r le nc _ e
    simp only [transferFields, Prod.mk.injEq, Option.some.injEq] at e
    rw [← e.1, ← e.2]; exact ⟨nc, fun p hp => nomatch hp⟩
  | (name, s) :: rest => by
    intro h its h' r le nc hin e
    simp only [transferFields] at e
    exact c19_fieldStep_keep n0 name (transfer_frame M fuel s) (transferFields_frame M fuel rest)
      (transfer_keep n0 M fuel s) (transferFields_keep n0 M fuel rest) _ _ _ _ le nc hin e
end

/-- does the owner row make the owner copy? (`alias` = the owner stores / hands out what it has) -/
def Mode.ownerCopies : Mode → Bool
  | .alias => false
  | _ => true

/-- **the immutable owner's defensive copy**: under ANY table (the field below may alias whatever it likes), when
    the owner copies and the value is not one of the exempt immutable kinds, what the field ends up with lies
    entirely in the freshly allocated region -/
theorem owned_fresh (n0 : Nat) (M : Kind → Cat → Mode) (fuel : Nat) (s : Shape)
    (hm : (M .owner .none).ownerCopies = true) (h : Heap) (i : Item) (hx : ownerExempt h i = false)
    (h' : Heap) (i' : Item) (le : n0 ≤ h.next) (nc : NewClosed n0 h)
    (e : transfer M fuel (.owned s) h i = (h', some i')) : NewClosed n0 h' ∧ ItemIn n0 h' i' := by
  simp only [transfer] at e
  have copyCase : (if ownerExempt h i then transfer M fuel s h i
      else match deepCopy fuel h i with
        | (h1, none) => (h1, none)
        | (h1, some c) => transfer M fuel s h1 c) = (h', some i') → NewClosed n0 h' ∧ ItemIn n0 h' i' := by
    intro e
    rw [hx] at e
    simp only [Bool.false_eq_true, if_false] at e
    cases hd : deepCopy fuel h i with
    | mk h1 o =>
      rw [hd] at e
      cases o with
      | none => simp at e
      | some c =>
        have f1 := deepCopy_frame fuel _ _ _ _ hd
        have s1 := deepCopy_fresh n0 fuel _ _ _ _ le nc hd
        exact transfer_keep n0 M fuel s _ _ _ _ (Nat.le_trans le f1.1) s1.1 s1.2 e
  cases hmm : M .owner .none <;> rw [hmm] at hm e <;> simp only [nodeOwned] at e
  case error => simp at e
  case alias => simp [Mode.ownerCopies] at hm
  all_goals exact copyCase e

/-! ## reachability inside closed regions -/

theorem reach_new {n0 : Nat} {h : Heap} (nc : NewClosed n0 h) {a b : Nat} (ha : n0 ≤ a ∧ a < h.next)
    (r : Reach h a b) : n0 ≤ b ∧ b < h.next := by
  induction r with
  | refl => exact ha
  | step _ hk ih => exact nc _ ih.1 ih.2 _ hk

/-- everything allocated so far only refers to allocated cells -/
def ClosedBelow (n : Nat) (h : Heap) : Prop := ∀ a, a < n → ∀ k, k ∈ (h.cells a).kids → k < n

theorem reach_below {n : Nat} {h : Heap} (cb : ClosedBelow n h) {a b : Nat} (ha : a < n) (r : Reach h a b) : b < n := by
  induction r with
  | refl => exact ha
  | step _ hk ih => exact cb _ ih _ hk

theorem closedBelow_frame {h h' : Heap} (cb : ClosedBelow h.next h) (fr : Frame h h') : ClosedBelow h.next h' := by
  intro a ha k hk
  rw [fr.2 a ha] at hk
  exact cb a ha k hk

/-! ## the caller's script cannot touch a region it does not reach -/

theorem held_write {h : Heap} {K : List Nat} {a : Nat} {c : Cell} (hc : ∀ k, k ∈ c.kids → Held h K k)
    {b : Nat} (hb : Held (h.write a c) K b) : Held h K b := by
  obtain ⟨r, hr, rb⟩ := hb
  induction rb with
  | refl => exact ⟨r, hr, Reach.refl _⟩
  | @step b' c' _ hk ih =>
    simp only [Heap.write] at hk
    by_cases e : b' = a
    · rw [if_pos e] at hk; exact hc _ hk
    · rw [if_neg e] at hk
      obtain ⟨r', hr', rb'⟩ := ih
      exact ⟨r', hr', Reach.step rb' hk⟩

theorem held_alloc {h : Heap} {K : List Nat} {c : Cell} (hc : ∀ k, k ∈ c.kids → Held h K k)
    {b : Nat} (hb : Held (h.alloc c).1 (h.next :: K) b) : Held h K b ∨ b = h.next := by
  obtain ⟨r, hr, rb⟩ := hb
  induction rb with
  | refl =>
    cases hr with
    | head => exact Or.inr rfl
    | tail _ hr' => exact Or.inl ⟨r, hr', Reach.refl _⟩
  | @step b' c' _ hk ih =>
    simp only [Heap.alloc] at hk
    by_cases e : b' = h.next
    · rw [if_pos e] at hk; exact Or.inl (hc _ hk)
    · rw [if_neg e] at hk
      cases ih with
      | inl hh =>
        obtain ⟨r', hr', rb'⟩ := hh
        exact Or.inl ⟨r', hr', Reach.step rb' hk⟩
      | inr e' => exact absurd e' e

/-- **separation is preserved by every admissible script**: if the caller holds nothing inside the
    protected region `P` (all of it allocated), no sequence of native mutations changes a cell of `P`,
    and the caller still holds nothing inside `P` afterwards. -/
theorem script_protects (P : Nat → Prop) (acts : List Act) :
    ∀ (h : Heap) (K : List Nat), (∀ a, Held h K a → ¬ P a) → (∀ a, P a → a < h.next) → AdmissibleAll h K acts →
      (∀ a, P a → (runScript h K acts).1.cells a = h.cells a) ∧
      (∀ a, Held (runScript h K acts).1 (runScript h K acts).2 a → ¬ P a) := by
  induction acts with
  | nil => intro h K sep _ _; exact ⟨fun _ _ => rfl, sep⟩
  | cons act rest ih =>
    intro h K sep alloc adm
    simp only [AdmissibleAll] at adm
    simp only [runScript]
    cases act with
    | write a c =>
      simp only [Admissible] at adm
      have sep' : ∀ b, Held (h.write a c) K b → ¬ P b := fun b hb => sep b (held_write adm.1.2 hb)
      have := ih (h.write a c) K sep' alloc adm.2
      refine ⟨fun x hx => ?_, this.2⟩
      simp only [stepAct]
      rw [this.1 x hx]
      simp only [Heap.write]
      by_cases e : x = a
      · subst e; exact absurd hx (sep x adm.1.1)
      · rw [if_neg e]
    | alloc c =>
      simp only [Admissible] at adm
      have sep' : ∀ b, Held (h.alloc c).1 (h.next :: K) b → ¬ P b := by
        intro b hb
        cases held_alloc adm.1 hb with
        | inl hh => exact sep b hh
        | inr e => intro hp; have := alloc b hp; rw [e] at this; exact Nat.lt_irrefl _ this
      have alloc' : ∀ a, P a → a < (h.alloc c).1.next := fun a hp => Nat.lt_succ_of_lt (alloc a hp)
      have := ih (h.alloc c).1 (h.next :: K) sep' alloc' adm.2
      refine ⟨fun x hx => ?_, this.2⟩
      simp only [stepAct]
      rw [this.1 x hx]
      simp only [Heap.alloc]
      rw [if_neg (Nat.ne_of_lt (alloc x hx))]

/-! ## observation depends only on the reachable cells -/

theorem observe_agree (P : Nat → Prop) {h h' : Heap} (agree : ∀ a, P a → h'.cells a = h.cells a)
    (closed : ∀ a, P a → ∀ k, k ∈ (h.cells a).kids → P k) :
    ∀ (n : Nat) (i : Item), (∀ a, i = .ref a → P a) → observeN n h' i = observeN n h i := by
  intro n
  induction n with
  | zero => intro i _; cases i <;> simp [observeN]
  | succ n ih =>
    intro i hi
    cases i with
    | atom v => simp [observeN]
    | ref a =>
      simp only [observeN]
      have pa := hi a rfl
      rw [agree a pa]
      congr 1
      apply List.map_congr_left
      intro p hp
      have : ∀ b, p.2 = .ref b → P b := by
        intro b e
        apply closed a pa
        simp only [Cell.kids, List.mem_filterMap]
        exact ⟨p, hp, by rw [e]; rfl⟩
      rw [ih p.2 this]

/-! ## the walk consults the table exactly at the declared sites of the declaration -/

theorem c19_mapItems_congr {f g : Heap → Item → R Item} (hfg : ∀ h i, f h i = g h i) :
    ∀ (its : List (String × Item)) (h : Heap), mapItems f h its = mapItems g h its
  | [], h => rfl
  | (k, i) :: rest, h => by
    simp only [mapItems, hfg h i]
    cases g h i with
    | mk h1 o =>
      cases o with
      | none => rfl
      | some i' => simp only [c19_mapItems_congr hfg rest h1]

theorem c19_nodeColl_congr (m : Mode) (fuel : Nat) {f g : Heap → Item → R Item} (hfg : ∀ h i, f h i = g h i)
    (h : Heap) (i : Item) : nodeColl m fuel f h i = nodeColl m fuel g h i := by
  cases i with
  | atom v => rfl
  | ref a => cases m <;> simp only [nodeColl, c19_mapItems_congr hfg]

theorem c19_nodeRec_congr (m : Mode) (fuel : Nat) {f g : Heap → List (String × Item) → R (List (String × Item))}
    (hfg : ∀ h its, f h its = g h its) (h : Heap) (i : Item) : nodeRec m fuel f h i = nodeRec m fuel g h i := by
  cases i with
  | atom v => rfl
  | ref a => cases m <;> simp only [nodeRec, hfg]

theorem c19_nodeWrap_congr (m : Mode) (fuel : Nat) {f g : Heap → Item → R Item} (hfg : ∀ h i, f h i = g h i)
    (h : Heap) (i : Item) : nodeWrap m fuel f h i = nodeWrap m fuel g h i := by
  cases m <;> simp only [nodeWrap, hfg]

theorem c19_nodeOwned_congr (m : Mode) (fuel : Nat) {f g : Heap → Item → R Item} (hfg : ∀ h i, f h i = g h i)
    (h : Heap) (i : Item) : nodeOwned m fuel f h i = nodeOwned m fuel g h i := by
  cases m <;> simp only [nodeOwned, hfg]

theorem c19_optStep_congr {f g : Heap → Item → R Item} {f' g' : Nat → Heap → Item → R Item}
    (hfg : ∀ h i, f h i = g h i) (hfg' : ∀ n h i, f' n h i = g' n h i) (n : Nat) (h : Heap) (i : Item) :
    optStep f f' n h i = optStep g g' n h i := by
  cases n with
  | zero => simp only [optStep, hfg]
  | succ n => simp only [optStep, hfg']

theorem c19_fieldStep_congr (name : String) {f g : Heap → Item → R Item}
    {f' g' : Heap → List (String × Item) → R (List (String × Item))}
    (hfg : ∀ h i, f h i = g h i) (hfg' : ∀ h its, f' h its = g' h its) (h : Heap) (its : List (String × Item)) :
    fieldStep name f f' h its = fieldStep name g g' h its := by
  simp only [fieldStep, hfg, hfg']

/-- two tables agree on every site of a list -/
def AgreeOn (M M' : Kind → Cat → Mode) (sites : List (Kind × Cat)) : Prop := ∀ kc, kc ∈ sites → M kc.1 kc.2 = M' kc.1 kc.2

theorem AgreeOn.head {M M' : Kind → Cat → Mode} {kc : Kind × Cat} {l : List (Kind × Cat)} (h : AgreeOn M M' (kc :: l)) :
    M kc.1 kc.2 = M' kc.1 kc.2 := h kc List.mem_cons_self
theorem AgreeOn.tail {M M' : Kind → Cat → Mode} {kc : Kind × Cat} {l : List (Kind × Cat)} (h : AgreeOn M M' (kc :: l)) :
    AgreeOn M M' l := fun x hx => h x (List.mem_cons_of_mem _ hx)
theorem AgreeOn.left {M M' : Kind → Cat → Mode} {l1 l2 : List (Kind × Cat)} (h : AgreeOn M M' (l1 ++ l2)) :
    AgreeOn M M' l1 := fun x hx => h x (List.mem_append_left _ hx)
theorem AgreeOn.right {M M' : Kind → Cat → Mode} {l1 l2 : List (Kind × Cat)} (h : AgreeOn M M' (l1 ++ l2)) :
    AgreeOn M M' l2 := fun x hx => h x (List.mem_append_right _ hx)

mutual
/-- **the table matters only at the declared sites**: two tables that agree on `sitesOf s` drive the very same walk of
    `s` — on every heap, for every value (so `admitted`, which looks at exactly these sites, looks at everything the
    operation can do with the declaration) -/
theorem transfer_sites (M M' : Kind → Cat → Mode) (fuel : Nat) :
    (s : Shape) → AgreeOn M M' (sitesOf s) → ∀ h i, transfer M fuel s h i = transfer M' fuel s h i
  | .scalar _, _ => by intro h i; simp only [transfer]
  | .any, ag => by
    intro h i
    simp only [sitesOf] at ag
    simp only [transfer, show M .any .none = M' .any .none from ag.head]
  | .untyped, ag => by
    intro h i
    simp only [sitesOf] at ag
    simp only [transfer, show M .any .none = M' .any .none from ag.head]
  | .coll k s, ag => by
    intro h i
    simp only [sitesOf] at ag
    simp only [transfer, show M k s.cat = M' k s.cat from ag.head]
    exact c19_nodeColl_congr _ _ (transfer_sites M M' fuel s ag.tail) h i
  | .keyed k fs, ag => by
    intro h i
    simp only [sitesOf] at ag
    simp only [transfer, show M k .none = M' k .none from ag.head]
    exact c19_nodeRec_congr _ _ (transferFields_sites M M' fuel fs ag.tail) h i
  | .wrap k s, ag => by
    intro h i
    simp only [sitesOf] at ag
    simp only [transfer, show M k s.wcat = M' k s.wcat from ag.head]
    exact c19_nodeWrap_congr _ _ (transfer_sites M M' fuel s ag.tail) h i
  | .wrapN k p opts, ag => by
    intro h i
    simp only [sitesOf] at ag
    simp only [transfer, show M (fallbackSite k p opts).1 (fallbackSite k p opts).2 = M' (fallbackSite k p opts).1 (fallbackSite k p opts).2 from ag.head]
    exact transferOpts_sites M M' fuel k _ opts ag.tail _ h i
  | .owned s, ag => by
    intro h i
    simp only [sitesOf] at ag
    -- the owner row is consulted too: it is part of every owned site list (see `sitesOf`)
    simp only [transfer, show M .owner .none = M' .owner .none from ag.head]
    exact c19_nodeOwned_congr _ _ (transfer_sites M M' fuel s ag.tail) h i
theorem transferOpts_sites (M M' : Kind → Cat → Mode) (fuel : Nat) (k : Kind) (fb : Mode) :
    (opts : List Shape) → AgreeOn M M' (sitesOfOpts k opts) →
      ∀ n h i, transferOpts M fuel k fb opts n h i = transferOpts M' fuel k fb opts n h i
  | [], _ => by intro n h i; simp only [transferOpts]
  | s :: rest, ag => by
    intro n h i
    simp only [sitesOfOpts] at ag
    simp only [transferOpts, show M k s.wcat = M' k s.wcat from ag.head]
    exact c19_optStep_congr (c19_nodeWrap_congr _ _ (transfer_sites M M' fuel s ag.tail.left))
      (transferOpts_sites M M' fuel k fb rest ag.tail.right) n h i
theorem transferFields_sites (M M' : Kind → Cat → Mode) (fuel : Nat) :
    (fs : List (String × Shape)) → AgreeOn M M' (sitesOfFields fs) →
      ∀ h its, transferFields M fuel fs h its = transferFields M' fuel fs h its
  | [], _ => by intro h its; simp only [transferFields]
  | (name, s) :: rest, ag => by
    intro h its
    simp only [sitesOfFields] at ag
    simp only [transferFields]
    exact c19_fieldStep_congr name (transfer_sites M M' fuel s ag.left) (transferFields_sites M M' fuel rest ag.right) h its
end

/-! ## a whole immutable class: every field behind the owner's copy -/

def allOwned : List (String × Shape) → Bool
  | [] => true
  | (_, .owned _) :: rest => allOwned rest
  | _ => false

/-- plain caller data: every value is a scalar or a non-exempt object that exists already -/
def PlainItems (h : Heap) (its : List (String × Item)) : Prop :=
  ∀ p, p ∈ its → (∃ v, p.2 = .atom v) ∨ (∃ a, p.2 = .ref a ∧ a < h.next ∧ ownerExempt h p.2 = false)

theorem PlainItems.frame {h h' : Heap} {its : List (String × Item)} (pl : PlainItems h its) (fr : Frame h h') :
    PlainItems h' its := by
  intro p hp
  cases pl p hp with
  | inl hv => exact Or.inl hv
  | inr hr =>
    obtain ⟨a, e, ha, hx⟩ := hr
    refine Or.inr ⟨a, e, Nat.lt_of_lt_of_le ha fr.1, ?_⟩
    rw [e] at hx ⊢
    simp only [ownerExempt] at hx ⊢
    rw [fr.2 a ha]; exact hx

theorem c19_ownedFields_fresh (n0 : Nat) (M : Kind → Cat → Mode) (fuel : Nat)
    (hm : (M .owner .none).ownerCopies = true) :
    (fs : List (String × Shape)) → allOwned fs = true →
      ∀ h its h' r, n0 ≤ h.next → NewClosed n0 h → PlainItems h its →
        transferFields M fuel fs h its = (h', some r) → NewClosed n0 h' ∧ ItemsIn n0 h' r
  | [], _ => by
    intro h its h' r le nc _ e
    simp only [transferFields, Prod.mk.injEq, Option.some.injEq] at e
    rw [← e.1, ← e.2]; exact ⟨nc, fun p hp => nomatch hp⟩
  | (name, .owned s) :: rest, ho => by
    intro h its h' r le nc pl e
    simp only [allOwned] at ho
    simp only [transferFields, fieldStep] at e
    cases hl : lookupItem name its with
    | none =>
      rw [hl] at e
      exact c19_ownedFields_fresh n0 M fuel hm rest ho h its h' r le nc pl e
    | some it =>
      rw [hl] at e
      simp only at e
      obtain ⟨k0, hmem⟩ := c19_lookupItem_mem hl
      cases h1 : transfer M fuel (.owned s) h it with
      | mk h1' o =>
        rw [h1] at e
        cases o with
        | none => simp at e
        | some it' =>
          simp only at e
          have fr1 := transfer_frame M fuel (.owned s) h it h1' _ h1
          have s1 : NewClosed n0 h1' ∧ ItemIn n0 h1' it' := by
            cases pl (k0, it) hmem with
            | inl hv =>
              obtain ⟨v, ev⟩ := hv
              simp only at ev
              exact transfer_keep n0 M fuel (.owned s) h it h1' it' le nc (by rw [ev]; exact itemIn_atom _ _ _) h1
            | inr hr =>
              obtain ⟨a, _, _, hx⟩ := hr
              exact owned_fresh n0 M fuel s hm h it hx h1' it' le nc h1
          cases h2 : transferFields M fuel rest h1' its with
          | mk h2' o2 =>
            rw [h2] at e
            cases o2 with
            | none => simp at e
            | some r2 =>
              simp only [Prod.mk.injEq, Option.some.injEq] at e
              have fr2 := transferFields_frame M fuel rest _ _ _ _ h2
              have s2 := c19_ownedFields_fresh n0 M fuel hm rest ho h1' its h2' r2 (Nat.le_trans le fr1.1) s1.1
                (pl.frame fr1) h2
              rw [← e.1, ← e.2]
              refine ⟨s2.1, ?_⟩
              intro p hp
              cases hp with
              | head => exact s1.2.mono fr2.1
              | tail _ hp' => exact s2.2 p hp'
  | (_, .scalar _) :: _, ho => by simp [allOwned] at ho
  | (_, .any) :: _, ho => by simp [allOwned] at ho
  | (_, .untyped) :: _, ho => by simp [allOwned] at ho
  | (_, .coll _ _) :: _, ho => by simp [allOwned] at ho
  | (_, .keyed _ _) :: _, ho => by simp [allOwned] at ho
  | (_, .wrap _ _) :: _, ho => by simp [allOwned] at ho
  | (_, .wrapN _ _ _) :: _, ho => by simp [allOwned] at ho

/-- **a whole immutable class**: the class's fields all sit behind the owner's copy, the owner row copies, the
    top-level container (kwargs / document) is rebuilt — then, for ANY rows of the fields below and plain caller data,
    the instance lies entirely in the freshly allocated region -/
theorem immutable_class_fresh (M : Kind → Cat → Mode) (fuel : Nat) (fs : List (String × Shape))
    (ho : allOwned fs = true) (hm : (M .owner .none).ownerCopies = true) (hroot : M .root .none = .rebuild)
    (h : Heap) (a : Nat) (pl : PlainItems h (h.cells a).items) (h' : Heap) (inst : Item)
    (e : transfer M fuel (.keyed .root fs) h (.ref a) = (h', some inst)) :
    NewClosed h.next h' ∧ ItemIn h.next h' inst := by
  simp only [transfer, hroot, nodeRec] at e
  cases h1 : transferFields M fuel fs h (h.cells a).items with
  | mk h1' o =>
    rw [h1] at e
    cases o with
    | none => simp at e
    | some its =>
      simp only at e
      have fr := transferFields_frame M fuel fs _ _ _ _ h1
      have nc0 : NewClosed h.next h := fun _ ha hlt => absurd (Nat.lt_of_lt_of_le hlt ha) (Nat.lt_irrefl _)
      have s := c19_ownedFields_fresh h.next M fuel hm fs ho h _ h1' its (Nat.le_refl _) nc0 pl h1
      exact allocLike_fresh fr.1 s.1 _ s.2 e

/-! ## helpers for `setattr` -/

theorem c19_kids_setItem (t : String) (name : String) (v : Item) :
    ∀ (its : List (String × Item)) (k : Nat), k ∈ (Cell.mk t (setItem name v its)).kids →
      k ∈ (Cell.mk t its).kids ∨ v = .ref k
  | [], k, hk => by
    simp only [setItem, Cell.kids, List.filterMap_cons, List.filterMap_nil] at hk
    cases v with
    | atom x => simp [Item.addr?] at hk
    | ref a =>
      simp only [Item.addr?, List.mem_singleton] at hk
      exact Or.inr (by rw [hk])
  | (key, x) :: rest, k, hk => by
    simp only [setItem] at hk
    by_cases e : key = name
    · rw [if_pos e] at hk
      simp only [Cell.kids, List.filterMap_cons] at hk ⊢
      cases v with
      | atom a =>
        simp only [Item.addr?] at hk
        cases x with
        | atom b => simp only [Item.addr?]; exact Or.inl hk
        | ref b => simp only [Item.addr?]; exact Or.inl (List.mem_cons_of_mem _ hk)
      | ref a =>
        simp only [Item.addr?, List.mem_cons] at hk
        cases hk with
        | inl h1 => exact Or.inr (by rw [h1])
        | inr h2 =>
          cases x with
          | atom b => simp only [Item.addr?]; exact Or.inl h2
          | ref b => simp only [Item.addr?]; exact Or.inl (List.mem_cons_of_mem _ h2)
    · rw [if_neg e] at hk
      simp only [Cell.kids, List.filterMap_cons] at hk ⊢
      cases x with
      | atom b =>
        simp only [Item.addr?] at hk ⊢
        exact c19_kids_setItem t name v rest k hk
      | ref b =>
        simp only [Item.addr?, List.mem_cons] at hk ⊢
        cases hk with
        | inl h1 => exact Or.inl (Or.inl h1)
        | inr h2 =>
          cases c19_kids_setItem t name v rest k h2 with
          | inl h3 => exact Or.inl (Or.inr h3)
          | inr h3 => exact Or.inr h3

/-- reachability is the same in a heap that agrees on everything reachable -/
theorem c19_reach_transport {h h2 : Heap} {r : Nat} (same : ∀ b, Reach h r b → h2.cells b = h.cells b) :
    ∀ {a : Nat}, Reach h2 r a → Reach h r a := by
  intro a ra
  induction ra with
  | refl => exact Reach.refl _
  | step _ hk ih =>
    rw [same _ ih] at hk
    exact Reach.step ih hk

end Typedpy.Alias
