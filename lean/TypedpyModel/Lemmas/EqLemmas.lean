/-
  Lemmas/EqLemmas.lean — Python `==` on the value fragment (`PyVal.pyEq`) is an equivalence on
  values that satisfy the representation invariants `okVal` (non-zero denominators, dict keys
  pairwise `!=`, distinct attribute names); a structural induction principle for `PyVal`.
  Reflexivity holds unconditionally, transitivity needs `okVal` of the middle value only
  (numbers), symmetry needs `okVal` of both (dict comparison is "same length and every left entry
  has a right partner": the converse is a pigeonhole argument).  Both side conditions
  are necessary: `pyEq_symm_needs_ok`, `pyEq_trans_needs_ok`.
  Instance comparison mirrors `Structure.__eq__` over the merged `__dict__`s: an attribute holding
  `None` reads like an absent one (`pyEq_inst_iff`); it is two-sided, so needs no pigeonhole.
-/
import TypedpyModel.Sem.EqHash
set_option linter.unusedSectionVars false
set_option linter.unusedVariables false
namespace Typedpy
open PyVal (pyEq pyEqList subsetBy anyEqL dictSub attrsSubN anyAttr asNum pyNodup pyMem)

/-- values without sub-values -/
def PyVal.isAtom : PyVal → Bool
  | .list _ | .tuple _ | .deque _ | .set _ _ | .dict _ | .inst _ _ => false
  | _ => true

section Induct
variable (P : PyVal → Prop)
  (atom : ∀ v, v.isAtom = true → P v)
  (list : ∀ xs, (∀ x ∈ xs, P x) → P (.list xs))
  (tuple : ∀ xs, (∀ x ∈ xs, P x) → P (.tuple xs))
  (deque : ∀ xs, (∀ x ∈ xs, P x) → P (.deque xs))
  (set : ∀ f xs, (∀ x ∈ xs, P x) → P (.set f xs))
  (dict : ∀ kvs, (∀ p ∈ kvs, P p.1 ∧ P p.2) → P (.dict kvs))
  (inst : ∀ c attrs, (∀ p ∈ attrs, P p.2) → P (.inst c attrs))
include atom list tuple deque set dict inst

mutual
theorem PyVal.induct : ∀ v, P v
  | .none => atom _ rfl
  | .bool _ => atom _ rfl
  | .int _ => atom _ rfl
  | .float _ => atom _ rfl
  | .dec _ => atom _ rfl
  | .str _ => atom _ rfl
  | .enumv _ _ => atom _ rfl
  | .opaque _ => atom _ rfl
  | .list xs => list xs (PyVal.inductL xs)
  | .tuple xs => tuple xs (PyVal.inductL xs)
  | .deque xs => deque xs (PyVal.inductL xs)
  | .set f xs => set f xs (PyVal.inductL xs)
  | .dict kvs => dict kvs (PyVal.inductD kvs)
  | .inst c attrs => inst c attrs (PyVal.inductA attrs)
termination_by structural v => v
theorem PyVal.inductL : ∀ xs : List PyVal, ∀ x ∈ xs, P x
  | [], _, h => nomatch h
  | y :: ys, x, h => by
    rcases List.mem_cons.mp h with h | h
    · rw [h]; exact PyVal.induct y
    · exact PyVal.inductL ys x h
termination_by structural xs => xs
theorem PyVal.inductD : ∀ kvs : List (PyVal × PyVal), ∀ p ∈ kvs, P p.1 ∧ P p.2
  | [], _, h => nomatch h
  | (k, v) :: rest, p, h => by
    rcases List.mem_cons.mp h with h | h
    · rw [h]; exact ⟨PyVal.induct k, PyVal.induct v⟩
    · exact PyVal.inductD rest p h
termination_by structural kvs => kvs
theorem PyVal.inductA : ∀ attrs : List (String × PyVal), ∀ p ∈ attrs, P p.2
  | [], _, h => nomatch h
  | (k, v) :: rest, p, h => by
    rcases List.mem_cons.mp h with h | h
    · rw [h]; exact PyVal.induct v
    · exact PyVal.inductA rest p h
termination_by structural attrs => attrs
end
end Induct


def keysDistinct : List String → Bool
  | [] => true
  | k :: ks => !ks.contains k && keysDistinct ks

mutual
/-- representation invariants of values read back from Python: denominators are non-zero, the keys
    of a dict are pairwise `!=`, the attribute names of an instance are distinct -/
def okVal : PyVal → Bool
  | .float q => q.den != 0
  | .dec q => q.den != 0
  | .list xs => okVals xs
  | .tuple xs => okVals xs
  | .deque xs => okVals xs
  | .set _ xs => okVals xs
  | .dict kvs => okKvs kvs && pyNodup (kvs.map (·.1))
  | .inst _ attrs => okAttrs attrs && keysDistinct (attrs.map (·.1))
  | .none => true
  | .bool _ => true
  | .int _ => true
  | .str _ => true
  | .enumv _ _ => true
  | .opaque _ => true
termination_by structural v => v
def okVals : List PyVal → Bool
  | [] => true
  | x :: xs => okVal x && okVals xs
termination_by structural xs => xs
def okKvs : List (PyVal × PyVal) → Bool
  | [] => true
  | (k, v) :: rest => okVal k && okVal v && okKvs rest
termination_by structural kvs => kvs
def okAttrs : List (String × PyVal) → Bool
  | [] => true
  | (_, v) :: rest => okVal v && okAttrs rest
termination_by structural kvs => kvs
end

theorem okVals_iff (xs : List PyVal) : okVals xs = true ↔ ∀ x ∈ xs, okVal x = true := by
  induction xs with
  | nil => simp [okVals]
  | cons h t ih => simp [okVals, ih]

theorem okKvs_iff (kvs : List (PyVal × PyVal)) :
    okKvs kvs = true ↔ ∀ p ∈ kvs, okVal p.1 = true ∧ okVal p.2 = true := by
  induction kvs with
  | nil => simp [okKvs]
  | cons h t ih => obtain ⟨k, v⟩ := h; simp [okKvs, ih, and_assoc]

theorem okAttrs_iff (kvs : List (String × PyVal)) :
    okAttrs kvs = true ↔ ∀ p ∈ kvs, okVal p.2 = true := by
  induction kvs with
  | nil => simp [okAttrs]
  | cons h t ih => obtain ⟨k, v⟩ := h; simp [okAttrs, ih]

/-! ### numbers -/

theorem Q.eq_refl (a : Q) : Q.eq a a = true := by simp [Q.eq]
theorem Q.eq_symm (a b : Q) : Q.eq a b = Q.eq b a := by
  simp only [Q.eq]; exact decide_eq_decide.mpr ⟨fun h => h.symm, fun h => h.symm⟩
theorem Q.eq_trans (a b c : Q) (hb : b.den ≠ 0) (h1 : Q.eq a b = true) (h2 : Q.eq b c = true) :
    Q.eq a c = true := by
  simp only [Q.eq, decide_eq_true_eq] at *
  have hb' : (b.den : Int) ≠ 0 := by exact_mod_cast hb
  apply Int.eq_of_mul_eq_mul_right hb'
  calc a.num * ↑c.den * ↑b.den = (a.num * ↑b.den) * ↑c.den := by
        rw [Int.mul_assoc, Int.mul_comm (↑c.den) (↑b.den), ← Int.mul_assoc]
    _ = (b.num * ↑a.den) * ↑c.den := by rw [h1]
    _ = (b.num * ↑c.den) * ↑a.den := by
        rw [Int.mul_assoc, Int.mul_comm (↑a.den) (↑c.den), ← Int.mul_assoc]
    _ = (c.num * ↑b.den) * ↑a.den := by rw [h2]
    _ = c.num * ↑a.den * ↑b.den := by
        rw [Int.mul_assoc, Int.mul_comm (↑b.den) (↑a.den), ← Int.mul_assoc]

/-- `==` with a number on the left -/
theorem pyEq_num {v : PyVal} {p : Q} (hv : v.asNum = some p) (w : PyVal) :
    pyEq v w = (match w.asNum with | some q => Q.eq p q | Option.none => false) := by
  cases v <;> simp [asNum] at hv <;> subst hv <;> simp only [pyEq] <;> cases w.asNum <;> rfl

/-- an atom that is not a number is `==` only to itself -/
theorem pyEq_atom {v w : PyVal} (ha : v.isAtom = true) (hn : v.asNum = Option.none)
    (h : pyEq v w = true) : w = v := by
  cases v <;> simp [PyVal.isAtom, asNum] at ha hn <;> cases w <;> simp_all [pyEq]

theorem asNum_isAtom {v : PyVal} {p : Q} (hv : v.asNum = some p) : v.isAtom = true := by
  cases v <;> simp [asNum] at hv <;> rfl

theorem okVal_num {v : PyVal} {p : Q} (hv : v.asNum = some p) (ok : okVal v = true) : p.den ≠ 0 := by
  cases v <;> simp [asNum] at hv <;> subst hv <;> simp_all [okVal, Q.ofInt]

theorem anyEqL_iff (a : List PyVal) (y : PyVal) : anyEqL a y = true ↔ ∃ x ∈ a, pyEq x y = true := by
  induction a with
  | nil => simp [anyEqL]
  | cons h t ih => simp [anyEqL, ih]

theorem subsetBy_iff (a b : List PyVal) :
    subsetBy a b = true ↔ ∀ x ∈ a, ∃ y ∈ b, pyEq x y = true := by
  induction a with
  | nil => simp [subsetBy]
  | cons h t ih => simp [subsetBy, ih, List.any_eq_true]

theorem dictSub_iff (a b : List (PyVal × PyVal)) :
    dictSub a b = true ↔ ∀ p ∈ a, ∃ q ∈ b, pyEq p.1 q.1 = true ∧ pyEq p.2 q.2 = true := by
  induction a with
  | nil => simp [dictSub]
  | cons h t ih => obtain ⟨k, v⟩ := h; simp [dictSub, ih, List.any_eq_true]

theorem attrsSubN_iff (a b : List (String × PyVal)) :
    attrsSubN a b = true ↔
      ∀ p ∈ a, p.2.isNone = true ∨ ∃ q ∈ b, p.1 = q.1 ∧ pyEq p.2 q.2 = true := by
  induction a with
  | nil => simp [attrsSubN]
  | cons h t ih => obtain ⟨k, v⟩ := h; simp [attrsSubN, ih, List.any_eq_true]

theorem anyAttr_iff (a : List (String × PyVal)) (q : String × PyVal) :
    anyAttr a q = true ↔ ∃ p ∈ a, p.1 = q.1 ∧ pyEq p.2 q.2 = true := by
  induction a with
  | nil => simp [anyAttr]
  | cons h t ih => obtain ⟨k, v⟩ := h; simp [anyAttr, ih]

/-- `Structure.__eq__` on two instance values, in logical form: same class, and every attribute of
    either side is `None` or has an `==` partner of the same name on the other side -/
theorem pyEq_inst_iff (c c' : String) (a b : List (String × PyVal)) :
    pyEq (.inst c a) (.inst c' b) = true ↔
      c = c' ∧ (∀ p ∈ a, p.2.isNone = true ∨ ∃ q ∈ b, p.1 = q.1 ∧ pyEq p.2 q.2 = true)
        ∧ (∀ q ∈ b, q.2.isNone = true ∨ ∃ p ∈ a, p.1 = q.1 ∧ pyEq p.2 q.2 = true) := by
  simp only [pyEq, Bool.and_eq_true, beq_iff_eq, attrsSubN_iff, List.all_eq_true, Bool.or_eq_true,
    anyAttr_iff, and_assoc]

/-- only `None` is `==` to `None` -/
theorem pyEq_none_right {v : PyVal} (h : pyEq v .none = true) : v = .none := by
  cases v <;> simp_all [pyEq, asNum]

theorem pyEq_none_left {v : PyVal} (h : pyEq .none v = true) : v = .none := by
  cases v <;> simp_all [pyEq]

theorem isNone_iff {v : PyVal} : v.isNone = true ↔ v = .none := by
  cases v <;> simp [PyVal.isNone]


/-! ### lists -/

theorem pyEqList_refl (xs : List PyVal) (h : ∀ x ∈ xs, pyEq x x = true) : pyEqList xs xs = true := by
  induction xs with
  | nil => rfl
  | cons a t ih =>
    simp only [pyEqList, h a (by simp), ih (fun x hx => h x (by simp [hx])), Bool.and_self]

theorem pyEqList_trans : ∀ (a b c : List PyVal),
    (∀ x ∈ a, ∀ y z, y ∈ b → pyEq x y = true → pyEq y z = true → pyEq x z = true) →
    pyEqList a b = true → pyEqList b c = true → pyEqList a c = true
  | [], b, c, _, h1, h2 => by
    cases b with
    | nil => exact h2
    | cons _ _ => simp [pyEqList] at h1
  | x :: a, b, c, h, h1, h2 => by
    cases b with
    | nil => simp [pyEqList] at h1
    | cons y b =>
      cases c with
      | nil => simp [pyEqList] at h2
      | cons z c =>
        simp only [pyEqList, Bool.and_eq_true] at h1 h2 ⊢
        exact ⟨h x (by simp) y z (by simp) h1.1 h2.1,
          pyEqList_trans a b c (fun x' hx' y' z' hy' => h x' (by simp [hx']) y' z' (by simp [hy'])) h1.2 h2.2⟩

theorem pyEqList_symm : ∀ (a b : List PyVal),
    (∀ x ∈ a, ∀ y ∈ b, pyEq x y = true → pyEq y x = true) →
    pyEqList a b = true → pyEqList b a = true
  | [], b, _, h1 => by
    cases b with
    | nil => rfl
    | cons _ _ => simp [pyEqList] at h1
  | x :: a, b, h, h1 => by
    cases b with
    | nil => simp [pyEqList] at h1
    | cons y b =>
      simp only [pyEqList, Bool.and_eq_true] at h1 ⊢
      exact ⟨h x (by simp) y (by simp) h1.1,
        pyEqList_symm a b (fun x' hx' y' hy' => h x' (by simp [hx']) y' (by simp [hy'])) h1.2⟩

theorem pyEqList_map (f : PyVal → PyVal) : ∀ (a : List PyVal),
    (∀ x ∈ a, pyEq x (f x) = true) → pyEqList a (a.map f) = true
  | [], _ => rfl
  | x :: a, h => by
    simp only [List.map, pyEqList, Bool.and_eq_true]
    exact ⟨h x (by simp), pyEqList_map f a (fun x' hx' => h x' (by simp [hx']))⟩

/-! ### reflexivity -/

theorem pyEq_refl : ∀ v : PyVal, pyEq v v = true := by
  apply PyVal.induct
  · intro v ha
    cases v <;> simp [PyVal.isAtom] at ha <;> simp [pyEq, asNum, Q.eq]
  · intro xs ih; simp only [pyEq]; exact pyEqList_refl xs ih
  · intro xs ih; simp only [pyEq]; exact pyEqList_refl xs ih
  · intro xs ih; simp only [pyEq]; exact pyEqList_refl xs ih
  · intro f xs ih
    simp only [pyEq, Bool.and_eq_true, List.all_eq_true]
    exact ⟨(subsetBy_iff _ _).2 (fun x hx => ⟨x, hx, ih x hx⟩),
           fun y hy => (anyEqL_iff _ _).2 ⟨y, hy, ih y hy⟩⟩
  · intro kvs ih
    simp only [pyEq, Bool.and_eq_true, beq_self_eq_true, true_and]
    exact (dictSub_iff _ _).2 (fun p hp => ⟨p, hp, (ih p hp).1, (ih p hp).2⟩)
  · intro c attrs ih
    exact (pyEq_inst_iff _ _ _ _).2 ⟨rfl, fun p hp => Or.inr ⟨p, hp, rfl, ih p hp⟩,
      fun p hp => Or.inr ⟨p, hp, rfl, ih p hp⟩⟩

/-! ### transitivity -/

theorem okVal_list_mem {xs : List PyVal} (h : okVals xs = true) {y : PyVal} (hy : y ∈ xs) :
    okVal y = true := (okVals_iff xs).1 h y hy

theorem pyEq_trans : ∀ v w u : PyVal, okVal w = true → pyEq v w = true → pyEq w u = true →
    pyEq v u = true := by
  intro v
  refine PyVal.induct (fun v => ∀ w u, okVal w = true → pyEq v w = true → pyEq w u = true →
    pyEq v u = true) ?_ ?_ ?_ ?_ ?_ ?_ ?_ v
  · -- atoms
    intro v ha w u ok h1 h2
    cases hv : v.asNum with
    | none => rw [pyEq_atom ha hv h1] at h2; exact h2
    | some p =>
      rw [pyEq_num hv] at h1
      cases hw : w.asNum with
      | none => simp [hw] at h1
      | some q =>
        simp only [hw] at h1
        rw [pyEq_num hw] at h2
        rw [pyEq_num hv]
        cases hu : u.asNum with
        | none => simp [hu] at h2
        | some r =>
          simp only [hu] at h2 ⊢
          exact Q.eq_trans p q r (okVal_num hw ok) h1 h2
  · intro a ih w u ok h1 h2
    cases w with
    | list b =>
      simp only [pyEq] at h1
      cases u with
      | list c =>
        simp only [pyEq] at h2 ⊢
        simp only [okVal] at ok
        exact pyEqList_trans a b c (fun x hx y z hy => ih x hx y z (okVal_list_mem ok hy)) h1 h2
      | _ => simp [pyEq] at h2
    | _ => simp [pyEq] at h1
  · intro a ih w u ok h1 h2
    cases w with
    | tuple b =>
      simp only [pyEq] at h1
      cases u with
      | tuple c =>
        simp only [pyEq] at h2 ⊢
        simp only [okVal] at ok
        exact pyEqList_trans a b c (fun x hx y z hy => ih x hx y z (okVal_list_mem ok hy)) h1 h2
      | _ => simp [pyEq] at h2
    | _ => simp [pyEq] at h1
  · intro a ih w u ok h1 h2
    cases w with
    | deque b =>
      simp only [pyEq] at h1
      cases u with
      | deque c =>
        simp only [pyEq] at h2 ⊢
        simp only [okVal] at ok
        exact pyEqList_trans a b c (fun x hx y z hy => ih x hx y z (okVal_list_mem ok hy)) h1 h2
      | _ => simp [pyEq] at h2
    | _ => simp [pyEq] at h1
  · intro f a ih w u ok h1 h2
    cases w with
    | set f' b =>
      simp only [pyEq] at h1
      cases u with
      | set f'' c =>
        simp only [pyEq] at h2 ⊢
        simp only [okVal] at ok
        simp only [Bool.and_eq_true, List.all_eq_true, subsetBy_iff, anyEqL_iff] at h1 h2 ⊢
        refine ⟨fun x hx => ?_, fun z hz => ?_⟩
        · obtain ⟨y, hy, hxy⟩ := h1.1 x hx
          obtain ⟨z, hz, hyz⟩ := h2.1 y hy
          exact ⟨z, hz, ih x hx y z (okVal_list_mem ok hy) hxy hyz⟩
        · obtain ⟨y, hy, hyz⟩ := h2.2 z hz
          obtain ⟨x, hx, hxy⟩ := h1.2 y hy
          exact ⟨x, hx, ih x hx y z (okVal_list_mem ok hy) hxy hyz⟩
      | _ => simp [pyEq] at h2
    | _ => simp [pyEq] at h1
  · intro a ih w u ok h1 h2
    cases w with
    | dict b =>
      simp only [pyEq] at h1
      cases u with
      | dict c =>
        simp only [pyEq] at h2 ⊢
        simp only [okVal, Bool.and_eq_true, okKvs_iff] at ok
        simp only [Bool.and_eq_true, beq_iff_eq, dictSub_iff] at h1 h2 ⊢
        refine ⟨h1.1.trans h2.1, fun p hp => ?_⟩
        obtain ⟨q, hq, hk, hv⟩ := h1.2 p hp
        obtain ⟨r, hr, hk', hv'⟩ := h2.2 q hq
        exact ⟨r, hr, (ih p hp).1 q.1 r.1 (ok.1 q hq).1 hk hk', (ih p hp).2 q.2 r.2 (ok.1 q hq).2 hv hv'⟩
      | _ => simp [pyEq] at h2
    | _ => simp [pyEq] at h1
  · intro cn a ih w u ok h1 h2
    cases w with
    | inst cn' b =>
      cases u with
      | inst cn'' c =>
        simp only [okVal, Bool.and_eq_true, okAttrs_iff] at ok
        rw [pyEq_inst_iff] at h1 h2 ⊢
        refine ⟨h1.1.trans h2.1, fun p hp => ?_, fun r hr => ?_⟩
        · rcases h1.2.1 p hp with hn | ⟨q, hq, hk, hv⟩
          · exact Or.inl hn
          · rcases h2.2.1 q hq with hn | ⟨r, hr, hk', hv'⟩
            · rw [isNone_iff.1 hn] at hv
              exact Or.inl (isNone_iff.2 (pyEq_none_right hv))
            · exact Or.inr ⟨r, hr, hk.trans hk', ih p hp q.2 r.2 (ok.1 q hq) hv hv'⟩
        · rcases h2.2.2 r hr with hn | ⟨q, hq, hk', hv'⟩
          · exact Or.inl hn
          · rcases h1.2.2 q hq with hn | ⟨p, hp, hk, hv⟩
            · rw [isNone_iff.1 hn] at hv'
              exact Or.inl (isNone_iff.2 (pyEq_none_left hv'))
            · exact Or.inr ⟨p, hp, hk.trans hk', ih p hp q.2 r.2 (ok.1 q hq) hv hv'⟩
      | _ => simp [pyEq] at h2
    | _ => simp [pyEq] at h1

/-! ### symmetry (dict / instance comparison is one-directional: pigeonhole) -/

/-- a total relation from `a` into `b` in which two different positions of `a` never share a
    partner hits every element of `b`, when `b` is not longer than `a` -/
theorem surj_of_total_inj {α β : Type} (R : α → β → Prop) :
    ∀ (a : List α) (b : List β), b.length ≤ a.length →
      (∀ x ∈ a, ∃ y ∈ b, R x y) →
      a.Pairwise (fun x x' => ∀ y, R x y → R x' y → False) →
      ∀ y ∈ b, ∃ x ∈ a, R x y
  | [], b, hl, _, _, y, hy => by
    cases b with
    | nil => cases hy
    | cons _ _ => simp at hl
  | x :: a, b, hl, htot, hinj, y, hy => by
    obtain ⟨y0, hy0, hxy0⟩ := htot x (by simp)
    obtain ⟨s, t, rfl⟩ := List.append_of_mem hy0
    have hp := List.pairwise_cons.1 hinj
    have htot' : ∀ x' ∈ a, ∃ y' ∈ s ++ t, R x' y' := by
      intro x' hx'
      obtain ⟨y', hy', hr⟩ := htot x' (by simp [hx'])
      simp only [List.mem_append, List.mem_cons] at hy'
      rcases hy' with h | h | h
      · exact ⟨y', by simp [h], hr⟩
      · subst h; exact absurd hr (fun hr => hp.1 x' hx' y' hxy0 hr)
      · exact ⟨y', by simp [h], hr⟩
    have hl' : (s ++ t).length ≤ a.length := by
      simp only [List.length_append, List.length_cons] at hl ⊢; omega
    have ih := surj_of_total_inj R a (s ++ t) hl' htot' hp.2
    simp only [List.mem_append, List.mem_cons] at hy
    rcases hy with h | h | h
    · obtain ⟨x', hx', hr⟩ := ih y (by simp [h]); exact ⟨x', by simp [hx'], hr⟩
    · subst h; exact ⟨x, by simp, hxy0⟩
    · obtain ⟨x', hx', hr⟩ := ih y (by simp [h]); exact ⟨x', by simp [hx'], hr⟩

theorem pyNodup_pairwise : ∀ xs : List PyVal, pyNodup xs = true →
    xs.Pairwise (fun x x' => pyEq x x' = false)
  | [], _ => List.Pairwise.nil
  | x :: xs, h => by
    simp only [pyNodup, pyMem, Bool.and_eq_true, Bool.not_eq_true', List.any_eq_false] at h
    exact List.pairwise_cons.2 ⟨fun x' hx' => by simpa using h.1 x' hx', pyNodup_pairwise xs h.2⟩

theorem keysDistinct_pairwise : ∀ ks : List String, keysDistinct ks = true →
    ks.Pairwise (fun k k' => k ≠ k')
  | [], _ => List.Pairwise.nil
  | k :: ks, h => by
    simp only [keysDistinct, Bool.and_eq_true, Bool.not_eq_true', List.contains_eq_mem,
      decide_eq_false_iff_not] at h
    exact List.pairwise_cons.2 ⟨fun k' hk' he => h.1 (he ▸ hk'), keysDistinct_pairwise ks h.2⟩

theorem pyEq_symm : ∀ v : PyVal, okVal v = true → ∀ w, okVal w = true → pyEq v w = true →
    pyEq w v = true := by
  intro v
  refine PyVal.induct (fun v => okVal v = true → ∀ w, okVal w = true → pyEq v w = true →
    pyEq w v = true) ?_ ?_ ?_ ?_ ?_ ?_ ?_ v
  · intro v ha okv w okw h
    cases hv : v.asNum with
    | none => rw [pyEq_atom ha hv h]; exact pyEq_refl v
    | some p =>
      rw [pyEq_num hv] at h
      cases hw : w.asNum with
      | none => simp [hw] at h
      | some q =>
        simp only [hw] at h
        rw [pyEq_num hw, hv]
        simp only
        rw [Q.eq_symm]; exact h
  · intro a ih okv w okw h
    cases w with
    | list b =>
      simp only [pyEq, okVal] at h okv okw ⊢
      exact pyEqList_symm a b (fun x hx y hy => ih x hx (okVal_list_mem okv hx) y (okVal_list_mem okw hy)) h
    | _ => simp [pyEq] at h
  · intro a ih okv w okw h
    cases w with
    | tuple b =>
      simp only [pyEq, okVal] at h okv okw ⊢
      exact pyEqList_symm a b (fun x hx y hy => ih x hx (okVal_list_mem okv hx) y (okVal_list_mem okw hy)) h
    | _ => simp [pyEq] at h
  · intro a ih okv w okw h
    cases w with
    | deque b =>
      simp only [pyEq, okVal] at h okv okw ⊢
      exact pyEqList_symm a b (fun x hx y hy => ih x hx (okVal_list_mem okv hx) y (okVal_list_mem okw hy)) h
    | _ => simp [pyEq] at h
  · intro f a ih okv w okw h
    cases w with
    | set f' b =>
      simp only [pyEq, okVal] at h okv okw ⊢
      simp only [Bool.and_eq_true, List.all_eq_true, subsetBy_iff, anyEqL_iff] at h ⊢
      refine ⟨fun y hy => ?_, fun x hx => ?_⟩
      · obtain ⟨x, hx, hxy⟩ := h.2 y hy
        exact ⟨x, hx, ih x hx (okVal_list_mem okv hx) y (okVal_list_mem okw hy) hxy⟩
      · obtain ⟨y, hy, hxy⟩ := h.1 x hx
        exact ⟨y, hy, ih x hx (okVal_list_mem okv hx) y (okVal_list_mem okw hy) hxy⟩
    | _ => simp [pyEq] at h
  · intro a ih okv w okw h
    cases w with
    | dict b =>
      simp only [pyEq, okVal, Bool.and_eq_true, okKvs_iff] at h okv okw ⊢
      simp only [beq_iff_eq, dictSub_iff] at h ⊢
      refine ⟨h.1.symm, ?_⟩
      have hs := surj_of_total_inj
        (fun (p q : PyVal × PyVal) => q ∈ b ∧ pyEq p.1 q.1 = true ∧ pyEq p.2 q.2 = true) a b
        (by omega)
        (fun p hp => by
          obtain ⟨q, hq, h1, h2⟩ := h.2 p hp
          exact ⟨q, hq, hq, h1, h2⟩)
        (by
          have hpw := pyNodup_pairwise _ okv.2
          rw [List.pairwise_map] at hpw
          refine hpw.imp_of_mem ?_
          intro p p' hp hp' hne q hR hR'
          have hq := okw.1 q hR.1
          have h1 : pyEq q.1 p'.1 = true :=
            (ih p' hp').1 (okv.1 p' hp').1 q.1 hq.1 hR'.2.1
          have h2 := pyEq_trans p.1 q.1 p'.1 hq.1 hR.2.1 h1
          rw [hne] at h2; cases h2)
      intro q hq
      obtain ⟨p, hp, _, h1, h2⟩ := hs q hq
      exact ⟨p, hp, (ih p hp).1 (okv.1 p hp).1 q.1 (okw.1 q hq).1 h1,
        (ih p hp).2 (okv.1 p hp).2 q.2 (okw.1 q hq).2 h2⟩
    | _ => simp [pyEq] at h
  · intro cn a ih okv w okw h
    cases w with
    | inst cn' b =>
      simp only [okVal, Bool.and_eq_true, okAttrs_iff] at okv okw
      rw [pyEq_inst_iff] at h ⊢
      refine ⟨h.1.symm, fun q hq => ?_, fun p hp => ?_⟩
      · rcases h.2.2 q hq with hn | ⟨p, hp, hk, hv⟩
        · exact Or.inl hn
        · exact Or.inr ⟨p, hp, hk.symm, ih p hp (okv.1 p hp) q.2 (okw.1 q hq) hv⟩
      · rcases h.2.1 p hp with hn | ⟨q, hq, hk, hv⟩
        · exact Or.inl hn
        · exact Or.inr ⟨q, hq, hk.symm, ih p hp (okv.1 p hp) q.2 (okw.1 q hq) hv⟩
    | _ => simp [pyEq] at h

/-- without the invariant `==` on the model's dicts is not symmetric (duplicate keys) -/
theorem pyEq_symm_needs_ok :
    pyEq (.dict [(.int 1, .int 1), (.int 1, .int 1)]) (.dict [(.int 1, .int 1), (.int 2, .int 2)]) = true
    ∧ pyEq (.dict [(.int 1, .int 1), (.int 2, .int 2)]) (.dict [(.int 1, .int 1), (.int 1, .int 1)]) = false := by
  decide

/-- without non-zero denominators `==` is not transitive (`0/0` equals every number) -/
theorem pyEq_trans_needs_ok :
    pyEq (.int 1) (.float ⟨0, 0⟩) = true ∧ pyEq (.float ⟨0, 0⟩) (.int 2) = true
    ∧ pyEq (.int 1) (.int 2) = false := by
  decide

end Typedpy
