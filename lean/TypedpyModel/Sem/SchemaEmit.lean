/-
  Sem/SchemaEmit.lean — the TEXT that typedpy's schema→code generator emits, as a function of the
  schema AST: `convert_to_field_code` / `_convert_field_to_schema_code_internal` / every mapper's
  `get_paramlist_from_schema` / `_handle_schema_default_to_code` (`schemaExpr`),
  `schema_to_struct_code` (`classItems`, `classText`), `schema_definitions_to_code` and the module
  assembled by `write_code_from_schema` (`moduleText`).

  Two layers: the schema is mapped to a small Python expression tree (`PyExpr`: names, constants,
  numbers, unary minus, `repr` string literals, calls with keyword arguments, list and dict
  displays, `lambda:`) and class items (`Item`); `render` prints them with the generator's
  separators (`", "`, `k=v`, `": "`, four-space indentation).  `toks` is the token sequence of the
  same tree (what `PyGram.lex` must produce from the rendered text).

  Oracles (`EOra`): `pr` = `str.isprintable` on non-ASCII characters (as in `PyLex.pyRepr`), `fl` =
  `repr(float)` of a finite non-integral float given as an exact rational (shortest round-trip
  digits are not modelled; the driver checks every oracle answer with `isNumText`).
-/
import TypedpyModel.Sem.SchemaToCode
import TypedpyModel.Sem.PyGram
namespace Typedpy.Emit
open Typedpy Typedpy.PyLex Typedpy.PyGram

structure EOra where
  pr : Char → Bool
  fl : Q → List Char

inductive PyExpr where
  | name (n : List Char)
  /-- `True` / `False` / `None` -/
  | const (w : List Char)
  /-- an unsigned decimal literal -/
  | num (text : List Char)
  /-- `-` followed by an unsigned decimal literal -/
  | negNum (text : List Char)
  /-- `repr(s)` -/
  | strLit (cs : List Char)
  | call (f : List Char) (kws : List (List Char × PyExpr))
  | list (xs : List PyExpr)
  | dict (kvs : List (PyExpr × PyExpr))
  | lam (b : PyExpr)
  /-- something the generator cannot print as Python (non-JSON value, unsupported schema) -/
  | bad
deriving Repr, Inhabited

def cTrue : List Char := ['T', 'r', 'u', 'e']
def cFalse : List Char := ['F', 'a', 'l', 's', 'e']
def cNone : List Char := ['N', 'o', 'n', 'e']
def kwLambda : List Char := ['l', 'a', 'm', 'b', 'd', 'a']
def kwClass : List Char := ['c', 'l', 'a', 's', 's']
def kwPass : List Char := ['p', 'a', 's', 's']
def kwFrom : List Char := ['f', 'r', 'o', 'm']
def kwImport : List Char := ['i', 'm', 'p', 'o', 'r', 't']
def nStructure : List Char := chars!"Structure"
def nTypedpy : List Char := chars!"typedpy"
def sep : List Char := [',', ' ']

mutual
def render (pr : Char → Bool) : PyExpr → List Char
  | .name n => n
  | .const w => w
  | .num t => t
  | .negNum t => '-' :: t
  | .strLit cs => pyReprL pr cs
  | .call f kws => f ++ '(' :: (renderKws pr true kws ++ [')'])
  | .list xs => '[' :: (renderL pr true xs ++ [']'])
  | .dict kvs => '{' :: (renderKVs pr true kvs ++ ['}'])
  | .lam b => kwLambda ++ ':' :: ' ' :: render pr b
  | .bad => ['?']
termination_by structural e => e
def renderL (pr : Char → Bool) (first : Bool) : List PyExpr → List Char
  | [] => []
  | x :: xs => (if first then [] else sep) ++ (render pr x ++ renderL pr false xs)
termination_by structural xs => xs
def renderKws (pr : Char → Bool) (first : Bool) : List (List Char × PyExpr) → List Char
  | [] => []
  | (k, v) :: r => (if first then [] else sep) ++ (k ++ '=' :: (render pr v ++ renderKws pr false r))
termination_by structural kws => kws
def renderKVs (pr : Char → Bool) (first : Bool) : List (PyExpr × PyExpr) → List Char
  | [] => []
  | (k, v) :: r =>
    (if first then [] else sep) ++ (render pr k ++ ':' :: ' ' :: (render pr v ++ renderKVs pr false r))
termination_by structural kvs => kvs
end

mutual
/-- the tokens of the rendered expression -/
def toks : PyExpr → List Tok
  | .name n => [.name n]
  | .const w => [.kw w]
  | .num _ => [.num]
  | .negNum _ => [.op '-', .num]
  | .strLit _ => [.str]
  | .call f kws => .name f :: .op '(' :: (toksKws true kws ++ [.op ')'])
  | .list xs => .op '[' :: (toksL true xs ++ [.op ']'])
  | .dict kvs => .op '{' :: (toksKVs true kvs ++ [.op '}'])
  | .lam b => .kw kwLambda :: .op ':' :: toks b
  | .bad => []
termination_by structural e => e
def toksL (first : Bool) : List PyExpr → List Tok
  | [] => []
  | x :: xs => (if first then [] else [.op ',']) ++ (toks x ++ toksL false xs)
termination_by structural xs => xs
def toksKws (first : Bool) : List (List Char × PyExpr) → List Tok
  | [] => []
  | (k, v) :: r => (if first then [] else [.op ',']) ++ (.name k :: .op '=' :: (toks v ++ toksKws false r))
termination_by structural kws => kws
def toksKVs (first : Bool) : List (PyExpr × PyExpr) → List Tok
  | [] => []
  | (k, v) :: r => (if first then [] else [.op ',']) ++ (toks k ++ .op ':' :: (toks v ++ toksKVs false r))
termination_by structural kvs => kvs
end

/-! ### well-formed expression trees (what the acceptance theorem needs) -/

/-- an ASCII identifier that is not a keyword (decidable without the oracle: the generator's own names) -/
def asciiIdent (n : List Char) : Bool :=
  match n with
  | [] => false
  | c :: r => idStartA c && r.all idContA && (c :: r).all (fun x => x.toNat < 128) && !keywords.contains (c :: r)

/-- an identifier that is not a keyword: ASCII letters / digits / `_`, and the non-ASCII characters for
    which the oracle `X` (`str.isidentifier`) says so -/
def identOk (X : Ora) (n : List Char) : Bool :=
  match n with
  | [] => false
  | c :: r => idStart X c && r.all (idCont X) && !keywords.contains (c :: r)

/-- a name that may be assigned / used as a keyword argument -/
def targetName (X : Ora) (n : List Char) : Bool := identOk X n && !forbiddenTarget n

def nodupL : List (List Char) → Bool
  | [] => true
  | x :: xs => !xs.contains x && nodupL xs

mutual
def wf (X : Ora) : PyExpr → Bool
  | .name n => identOk X n
  | .const w => constKw w && keywords.contains w
  | .num t => isNumText t
  | .negNum t => isNumText t
  | .strLit _ => true
  | .call f kws => identOk X f && nodupL (kws.map (·.1)) && wfKws X kws
  | .list xs => wfL X xs
  | .dict kvs => wfKVs X kvs
  | .lam b => wf X b
  | .bad => false
termination_by structural e => e
def wfL (X : Ora) : List PyExpr → Bool
  | [] => true
  | x :: xs => wf X x && wfL X xs
termination_by structural xs => xs
def wfKws (X : Ora) : List (List Char × PyExpr) → Bool
  | [] => true
  | (k, v) :: r => targetName X k && wf X v && wfKws X r
termination_by structural kws => kws
def wfKVs (X : Ora) : List (PyExpr × PyExpr) → Bool
  | [] => true
  | (k, v) :: r => wf X k && wf X v && wfKVs X r
termination_by structural kvs => kvs
end

/-! ### values and numbers -/

def natText (n : Nat) : List Char := Nat.toDigits 10 n

def intExpr (i : Int) : PyExpr :=
  if i < 0 then .negNum (natText i.natAbs) else .num (natText i.toNat)

/-- `repr(float)` supplied by the oracle, split into sign and unsigned literal -/
def floatExpr (text : List Char) : PyExpr :=
  match text with
  | '-' :: r => .negNum r
  | t => .num t

/-- a schema number (`minimum`, `maximum`): an int when integral, else a float -/
def qExpr (O : EOra) (q : Q) : PyExpr := if q.den = 1 then intExpr q.num else floatExpr (O.fl q)

def boolExpr (b : Bool) : PyExpr := .const (if b then cTrue else cFalse)

mutual
/-- `repr` of a JSON value (`f"{a_list}"`, `f"{val}"`) -/
def valExpr (O : EOra) : PyVal → PyExpr
  | .none => .const cNone
  | .bool b => boolExpr b
  | .int i => intExpr i
  | .float q => floatExpr (O.fl q)
  | .str s => .strLit s.toList
  | .list xs => .list (valExprL O xs)
  | .dict kvs => .dict (valExprKV O kvs)
  | _ => .bad
termination_by structural v => v
def valExprL (O : EOra) : List PyVal → List PyExpr
  | [] => []
  | x :: xs => valExpr O x :: valExprL O xs
termination_by structural xs => xs
def valExprKV (O : EOra) : List (PyVal × PyVal) → List (PyExpr × PyExpr)
  | [] => []
  | (k, v) :: r => (valExpr O k, valExpr O v) :: valExprKV O r
termination_by structural kvs => kvs
end

/-- `_handle_schema_default_to_code`: list / dict defaults are wrapped in a `lambda:` -/
def defaultExpr (O : EOra) (v : PyVal) : PyExpr :=
  match v with
  | .list _ => .lam (valExpr O v)
  | .dict _ => .lam (valExpr O v)
  | _ => valExpr O v

/-! ### schema → expression (`convert_to_field_code`) -/

def kw (k : List Char) (e : PyExpr) : List (List Char × PyExpr) := [(k, e)]
def optKw {α} (k : List Char) (f : α → PyExpr) : Option α → List (List Char × PyExpr)
  | none => []
  | some x => [(k, f x)]
def natExpr (n : Nat) : PyExpr := .num (natText n)
def withDefault (O : EOra) (d : Option PyVal) (kws : List (List Char × PyExpr)) : List (List Char × PyExpr) :=
  kws ++ optKw chars!"default" (defaultExpr O) d

def strList (xs : List String) : PyExpr := .list (xs.map fun s => .strLit s.toList)

/-- `ArrayMapper.get_paramlist_from_schema`: uniqueItems, additionalItems, minItems, maxItems (then items) -/
def arrKws (sz : SizeOpts) (addl : Bool) : List (List Char × PyExpr) :=
  (if sz.uniq then kw chars!"uniqueItems" (.const cTrue) else [])
  ++ (if addl then [] else kw chars!"additionalItems" (.const cFalse))
  ++ optKw chars!"minItems" natExpr sz.min ++ optKw chars!"maxItems" natExpr sz.max

def callS (f : List Char) (kws : List (List Char × PyExpr)) : PyExpr := .call f kws

mutual
/-- the expression emitted for a (sub)schema; `d` = the `default` of the property it stands for -/
def schemaExpr (O : EOra) : Schema → Option PyVal → PyExpr
  | .ref n, _ => .name n.toList
  | .num i mult mn mx ex, d =>
    callS (if i then chars!"Integer" else chars!"Number") (withDefault O d
      (optKw chars!"multiplesOf" intExpr mult ++ optKw chars!"minimum" (qExpr O) mn ++ optKw chars!"maximum" (qExpr O) mx
        ++ (if ex then kw chars!"exclusiveMaximum" (.const cTrue) else [])))
  | .str lo hi p, d =>
    callS chars!"String" (withDefault O d
      (optKw chars!"minLength" natExpr lo ++ optKw chars!"maxLength" natExpr hi
        ++ optKw chars!"pattern" (fun (s : String) => PyExpr.strLit s.toList) p))
  | .bool, d => callS chars!"Boolean" (withDefault O d [])
  | .enum vs, d => callS chars!"Enum" (withDefault O d (kw chars!"values" (.list (valExprL O vs))))
  | .arrAny sz, d => callS chars!"Array" (withDefault O d (arrKws sz true))
  | .arrOf s sz, d => callS chars!"Array" (withDefault O d (arrKws sz true ++ kw chars!"items" (schemaExpr O s none)))
  | .arrPos ss addl sz, d =>
    callS chars!"Array" (withDefault O d (arrKws sz addl ++ kw chars!"items" (.list (schemaExprL O ss))))
  | .mapAny _ mn mx, d =>
    callS chars!"Map" (withDefault O d (optKw chars!"maxItems" natExpr mx ++ optKw chars!"minItems" natExpr mn))
  | .mapOf v mn mx, d =>
    callS chars!"Map" (withDefault O d
      (kw chars!"items" (.list [callS chars!"String" [], schemaExpr O v none])
        ++ optKw chars!"maxItems" natExpr mx ++ optKw chars!"minItems" natExpr mn))
  | .obj props defaults required addl, d =>
    callS chars!"StructureReference" (withDefault O d
      ((if addl then [] else kw chars!"_additional_properties" (.const cFalse))
        ++ optKw chars!"_required" strList required ++ schemaKws O defaults props))
  | .allOf ss, d => callS chars!"AllOf" (withDefault O d (kw chars!"fields" (.list (schemaExprL O ss))))
  | .anyOf ss, d => callS chars!"AnyOf" (withDefault O d (kw chars!"fields" (.list (schemaExprL O ss))))
  | .oneOf ss, d => callS chars!"OneOf" (withDefault O d (kw chars!"fields" (.list (schemaExprL O ss))))
  | .notS ss, d => callS chars!"NotField" (withDefault O d (kw chars!"fields" (.list (schemaExprL O ss))))
  | .unsupported _, _ => .bad
termination_by structural s => s
def schemaExprL (O : EOra) : List Schema → List PyExpr
  | [] => []
  | s :: ss => schemaExpr O s none :: schemaExprL O ss
termination_by structural ss => ss
def schemaKws (O : EOra) (defaults : List (String × PyVal)) : List (String × Schema) → List (List Char × PyExpr)
  | [] => []
  | (n, s) :: ps => (n.toList, schemaExpr O s (lookup n defaults)) :: schemaKws O defaults ps
termination_by structural ps => ps
end

/-! ### class statements (`schema_to_struct_code`) -/

inductive Item where
  /-- the docstring item `"""\n    {text}\n    """\n` (its trailing newline yields a blank line) -/
  | doc (d : List Char)
  | ann (n : List Char) (e : PyExpr)
  | assign (n : List Char) (e : PyExpr)
  | blank
  | pass
deriving Repr, Inhabited

def renderItem (pr : Char → Bool) : Item → List Char
  | .doc d => indent4 ++ (docWrapL d ++ [cLF])
  | .ann n e => indent4 ++ (n ++ ':' :: ' ' :: render pr e)
  | .assign n e => indent4 ++ (n ++ ' ' :: '=' :: ' ' :: render pr e)
  | .blank => []
  | .pass => indent4 ++ kwPass

def itemToks : Item → List Tok
  | .doc _ => [.str, .newline]
  | .ann n e => .name n :: .op ':' :: (toks e ++ [.newline])
  | .assign n e => .name n :: .op '=' :: (toks e ++ [.newline])
  | .blank => []
  | .pass => [.kw kwPass, .newline]

/-- `"\n".join(body)` after the header line -/
def renderItems (pr : Char → Bool) : List Item → List Char
  | [] => []
  | it :: rest => cLF :: (renderItem pr it ++ renderItems pr rest)

def headerText (name : List Char) : List Char := kwClass ++ ' ' :: (name ++ '(' :: (nStructure ++ [')', ':']))

def classRender (pr : Char → Bool) (name : List Char) (items : List Item) : List Char :=
  headerText name ++ renderItems pr items

def propItems (O : EOra) (defaults : List (String × PyVal)) : List (String × Schema) → List Item
  | [] => []
  | (n, s) :: ps => .ann n.toList (schemaExpr O s (lookup n defaults)) :: propItems O defaults ps

def nWrapped : List Char := chars!"wrapped"
def nRequired : List Char := chars!"_required"
def nAddl : List Char := chars!"_additional_properties"

def docItems : Option String → List Item
  | none => []
  | some d => [.doc d.toList]

def reqItems : Option (List String) → List Item
  | none => []
  | some r => [.blank, .assign nRequired (strList r)]

/-- is the schema's `type` keyword present (and not `object`)?  Decides `required = ["wrapped"]` -/
def typedWrapped : Schema → Bool
  | .num _ _ _ _ _ | .str _ _ _ | .bool | .arrAny _ | .arrOf _ _ | .arrPos _ _ _ => true
  | _ => false

/-- the body of `class name(Structure):` for a top-level schema with optional description -/
def classItems (O : EOra) (desc : Option String) (s : Schema) : List Item :=
  let body : List Item :=
    match s with
    | .obj props defaults required addl =>
      (if addl then [] else [.assign nAddl (.const cFalse)])
        ++ propItems O defaults props
        ++ reqItems (emittedRequired (.obj props defaults required addl))
    | .mapAny a _ _ => if a = some false then [.assign nAddl (.const cFalse)] else []
    | .mapOf _ _ _ => []
    | s =>
      .assign nWrapped (schemaExpr O s none)
        :: (if typedWrapped s then reqItems (some ["wrapped"]) else [])
  let all := docItems desc ++ body
  if all.isEmpty then [.pass] else all

def classText (O : EOra) (name : String) (desc : Option String) (s : Schema) : List Char :=
  classRender O.pr name.toList (classItems O desc s)

/-! ### modules -/

def importLine : List Char := kwFrom ++ ' ' :: (nTypedpy ++ ' ' :: (kwImport ++ [' ', '*']))
def nl3 : List Char := [cLF, cLF, cLF]
def starLine : List Char := chars!"# ********************"

structure ClassSrc where
  name : String
  desc : Option String
  schema : Schema

/-- `"\n\n\n".join(classes)` -/
def joinClasses (O : EOra) : List ClassSrc → List Char
  | [] => []
  | [c] => classText O c.name c.desc c.schema
  | c :: rest => classText O c.name c.desc c.schema ++ (nl3 ++ joinClasses O rest)

/-- the module the harness assembles from `schema_definitions_to_code` + `schema_to_struct_code`
    (`write = false`) / the file `write_code_from_schema` writes (`write = true`) -/
def moduleText (O : EOra) (write : Bool) (defs : List ClassSrc) (main : ClassSrc) : List Char :=
  importLine ++ (nl3 ++
    ((if defs.isEmpty then []
      else joinClasses O defs ++ (if write then cLF :: cLF :: (starLine ++ nl3) else nl3))
     ++ (classText O main.name main.desc main.schema ++ [cLF])))

/-! ### schema-level side conditions of the acceptance theorem (`Lemmas/SchemaEmit.lean`, `Props/C09.lean`) -/

mutual
/-- JSON values (what `repr` prints as a Python literal of the subset) -/
def jsonVal : PyVal → Bool
  | .none => true
  | .bool _ => true
  | .int _ => true
  | .float _ => true
  | .str _ => true
  | .list xs => jsonValL xs
  | .dict kvs => jsonValKV kvs
  | _ => false
termination_by structural v => v
def jsonValL : List PyVal → Bool
  | [] => true
  | x :: xs => jsonVal x && jsonValL xs
termination_by structural xs => xs
def jsonValKV : List (PyVal × PyVal) → Bool
  | [] => true
  | (k, v) :: r => jsonVal k && jsonVal v && jsonValKV r
termination_by structural kvs => kvs
end


def dOk : Option PyVal → Bool
  | none => true
  | some v => jsonVal v

def dName (d : Option PyVal) : List (List Char) := if d.isSome then [chars!"default"] else []

/-- the keyword-argument names of the `StructureReference(...)` call of a nested object -/
def objKwNames (addl : Bool) (req : Option (List String)) (names : List String) (d : Option PyVal) :
    List (List Char) :=
  (if addl then [] else [chars!"_additional_properties"]) ++ ((if req.isSome then [chars!"_required"] else [])
    ++ (names.map String.toList ++ dName d))

mutual
/-- the schema is printed as a well-formed expression: `$ref` names are identifiers, property names
    are assignable identifiers and distinct as keyword arguments, values are JSON values -/
def emitOk (X : Ora) : Schema → Option PyVal → Bool
  | .ref n, _ => identOk X n.toList
  | .num _ _ _ _ _, d => dOk d
  | .str _ _ _, d => dOk d
  | .bool, d => dOk d
  | .enum vs, d => jsonValL vs && dOk d
  | .arrAny _, d => dOk d
  | .arrOf s _, d => emitOk X s none && dOk d
  | .arrPos ss _ _, d => emitOkL X ss && dOk d
  | .mapAny _ _ _, d => dOk d
  | .mapOf v _ _, d => emitOk X v none && dOk d
  | .obj props defaults req addl, d =>
    (props.all fun p => targetName X p.1.toList) && nodupL (objKwNames addl req (props.map (·.1)) d)
      && emitOkP X defaults props && dOk d
  | .allOf ss, d => emitOkL X ss && dOk d
  | .anyOf ss, d => emitOkL X ss && dOk d
  | .oneOf ss, d => emitOkL X ss && dOk d
  | .notS ss, d => emitOkL X ss && dOk d
  | .unsupported _, _ => false
termination_by structural s => s
def emitOkL (X : Ora) : List Schema → Bool
  | [] => true
  | s :: ss => emitOk X s none && emitOkL X ss
termination_by structural ss => ss
def emitOkP (X : Ora) (defaults : List (String × PyVal)) : List (String × Schema) → Bool
  | [] => true
  | (n, s) :: ps => emitOk X s (lookup n defaults) && emitOkP X defaults ps
termination_by structural ps => ps
end


/-- every description is fine since the repair of `unescaped:description-nul` (NUL is written `\x00`);
    kept as a named side condition -/
def descOk : Option String → Bool
  | _ => true

/-- the schema of a class statement (top level: `schema_to_struct_code`) is printed well-formed -/
def classSchemaOk (X : Ora) (s : Schema) : Bool :=
  match s with
  | .obj props defaults _ _ => (props.all fun p => targetName X p.1.toList) && emitOkP X defaults props
  | .mapAny _ _ _ => true
  | .mapOf _ _ _ => true
  | s => emitOk X s none


/-- schema-level conditions under which a class is printed well-formed -/
def classSrcOk (X : Ora) (c : ClassSrc) : Bool :=
  identOk X c.name.toList && descOk c.desc && classSchemaOk X c.schema


/-! ### bracket nesting, read off the expression trees -/

mutual
/-- bracket nesting of a printed expression -/
def edepth : PyExpr → Nat
  | .call _ kws => 1 + kwsDepth kws
  | .list xs => 1 + listDepth xs
  | .dict kvs => 1 + kvsDepth kvs
  | .lam b => edepth b
  | .name _ => 0
  | .const _ => 0
  | .num _ => 0
  | .negNum _ => 0
  | .strLit _ => 0
  | .bad => 0
termination_by structural e => e
def listDepth : List PyExpr → Nat
  | [] => 0
  | x :: xs => max (edepth x) (listDepth xs)
termination_by structural xs => xs
def kwsDepth : List (List Char × PyExpr) → Nat
  | [] => 0
  | (_, v) :: r => max (edepth v) (kwsDepth r)
termination_by structural kws => kws
def kvsDepth : List (PyExpr × PyExpr) → Nat
  | [] => 0
  | (k, v) :: r => max (edepth k) (max (edepth v) (kvsDepth r))
termination_by structural kvs => kvs
end


def itemDepth : Item → Nat
  | .ann _ e => edepth e
  | .assign _ e => edepth e
  | _ => 0

def itemsDepth : List Item → Nat
  | [] => 0
  | it :: r => max (itemDepth it) (itemsDepth r)


/-- bracket nesting of a class statement: the header's parenthesis, then the body -/
def classDepth (O : EOra) (c : ClassSrc) : Nat := max 1 (itemsDepth (classItems O c.desc c.schema))

def modDepth (O : EOra) : List ClassSrc → Nat
  | [] => 0
  | c :: r => max (classDepth O c) (modDepth O r)


/-- the bracket nesting of the emitted module, read off the expression trees: within CPython's limit -/
def depthOk (O : EOra) (defs : List ClassSrc) (main : ClassSrc) : Bool :=
  decide (modDepth O (defs ++ [main]) ≤ maxLevel)


/-! ### nesting of the schema (an upper bound of the nesting of the printed trees) -/

mutual
/-- list / dict nesting of a JSON value -/
def vdepth : PyVal → Nat
  | .list xs => 1 + vdepthL xs
  | .dict kvs => 1 + vdepthKV kvs
  | _ => 0
termination_by structural v => v
def vdepthL : List PyVal → Nat
  | [] => 0
  | x :: xs => max (vdepth x) (vdepthL xs)
termination_by structural xs => xs
def vdepthKV : List (PyVal × PyVal) → Nat
  | [] => 0
  | (k, v) :: r => max (vdepth k) (max (vdepth v) (vdepthKV r))
termination_by structural kvs => kvs
end

def ddepth : Option PyVal → Nat
  | none => 0
  | some v => vdepth v

mutual
/-- an upper bound of the bracket nesting of the expression printed for a schema with default `d` -/
def sdepth : Schema → Option PyVal → Nat
  | .ref _, _ => 0
  | .enum vs, d => 1 + max (1 + vdepthL vs) (ddepth d)
  | .arrOf s _, d => 1 + max (sdepth s none) (ddepth d)
  | .arrPos ss _ _, d => 1 + max (1 + sdepthL ss) (ddepth d)
  | .mapOf v _ _, d => 1 + max (1 + max 1 (sdepth v none)) (ddepth d)
  | .obj props defaults _ _, d => 1 + max 1 (max (sdepthP defaults props) (ddepth d))
  | .allOf ss, d => 1 + max (1 + sdepthL ss) (ddepth d)
  | .anyOf ss, d => 1 + max (1 + sdepthL ss) (ddepth d)
  | .oneOf ss, d => 1 + max (1 + sdepthL ss) (ddepth d)
  | .notS ss, d => 1 + max (1 + sdepthL ss) (ddepth d)
  | .unsupported _, _ => 0
  | .num _ _ _ _ _, d => 1 + ddepth d
  | .str _ _ _, d => 1 + ddepth d
  | .bool, d => 1 + ddepth d
  | .arrAny _, d => 1 + ddepth d
  | .mapAny _ _ _, d => 1 + ddepth d
termination_by structural s => s
def sdepthL : List Schema → Nat
  | [] => 0
  | s :: ss => max (sdepth s none) (sdepthL ss)
termination_by structural ss => ss
def sdepthP (defaults : List (String × PyVal)) : List (String × Schema) → Nat
  | [] => 0
  | (n, s) :: ps => max (sdepth s (lookup n defaults)) (sdepthP defaults ps)
termination_by structural ps => ps
end


/-- an upper bound of the bracket nesting of the class statement printed for a (top-level) schema -/
def classNest (c : ClassSrc) : Nat :=
  match c.schema with
  | .obj props defaults _ _ => max 1 (sdepthP defaults props)
  | .mapAny _ _ _ => 1
  | .mapOf _ _ _ => 1
  | s => max 1 (sdepth s none)

/-- the schemas nest shallowly enough for CPython's 200-bracket limit -/
def schemaDepthOk (defs : List ClassSrc) (main : ClassSrc) : Bool :=
  (defs ++ [main]).all (fun c => decide (classNest c ≤ maxLevel))


end Typedpy.Emit
