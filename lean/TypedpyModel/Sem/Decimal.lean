/-
  Sem/Decimal.lean — executable model of `DecimalNumber` (fields/decimal_number.py): `value = Decimal(value)`
  (TypeError for a type Decimal cannot be built from, ValueError for an ill-formed string or sequence), then the
  `Number` checks on the converted value (multiplesOf / minimum / maximum / exclusiveMaximum), which is what is stored.

  `Decimal(str)` is an oracle of the model (`parse : String → Option Q`, universally quantified in the theorems, answered
  per case by Python's `decimal` module - the documentation says "anything that can be converted to a Decimal"), like
  `re` is for patterns.  Values are finite: NaN / Infinity have no `PyVal` (oracle-only stream of the harness).

  A class with DecimalNumber fields is the class with `number` declarations in their place, constructed from the
  CONVERTED keyword arguments (`constructD`): Number's `__set__` stores a Decimal it is handed unchanged.
-/
import TypedpyModel.Sem.Entry
namespace Typedpy

/-- the rational `Decimal(v)` denotes, if `Decimal(v)` succeeds (finite values) -/
def decValue (parse : String → Option Q) : PyVal → Option Q
  | .bool b => some (Q.ofInt (if b then 1 else 0))
  | .int i => some (Q.ofInt i)
  | .float q => some q
  | .dec q => some q
  | .str s => parse s
  | _ => none

/-- the exception class of a failing `Decimal(v)`: an ill-formed string or sequence is a ValueError
    (`InvalidOperation` is translated), any other type a TypeError -/
def decErr : PyVal → ErrCls
  | .str _ => .valueErr
  | .list _ => .valueErr
  | .tuple _ => .valueErr
  | _ => .typeErr

/-- `Decimal(v)` -/
def toDecimal (parse : String → Option Q) (v : PyVal) : R PyVal :=
  match decValue parse v with
  | some q => .ok (.dec q)
  | none => .error (decErr v)

/-- `DecimalNumber(**o).__set__`: convert, then the Number checks; the Decimal is stored -/
def vDecimal (parse : String → Option Q) (o : NumOpts) (v : PyVal) : R PyVal :=
  bindE (toDecimal parse v) (vNumber o)

/-- where a class holds DecimalNumber fields: the field itself, the items of an `Array[DecimalNumber]` / `Deque[DecimalNumber]`, the
    values of a `Map[_, DecimalNumber]`, `Optional[DecimalNumber]` -/
inductive DecPos where
  | bare | items | values
  /-- `AnyOf[DecimalNumber, NoneField]` (Optional): a value Decimal cannot be built from is left to the AnyOf, which
      refuses it with its own ValueError -/
  | optional
deriving Repr, DecidableEq, Inhabited

/-- conversion of one keyword argument at a DecimalNumber position (a container of the wrong type is left to the
    container field's own type check) -/
def convertArg (parse : String → Option Q) (pos : DecPos) (v : PyVal) : R PyVal :=
  match pos, v with
  | .bare, v => toDecimal parse v
  | .items, .list xs => bindE (mapE (toDecimal parse) xs) fun ys => .ok (.list ys)
  | .items, .deque xs => bindE (mapE (toDecimal parse) xs) fun ys => .ok (.deque ys)
  | .optional, v => (match toDecimal parse v with | .ok d => .ok d | .error _ => .ok v)
  | .values, .dict kvs =>
    bindE (mapE (fun (kv : PyVal × PyVal) => bindE (toDecimal parse kv.2) fun y => .ok (kv.1, y)) kvs) fun r => .ok (.dict r)
  | _, v => .ok v

/-- the argument `name = v` as the constructor's field receives it (a `None` is left to the constructor: it may be
    dropped by `_ignore_none`) -/
def convertAt (parse : String → Option Q) (decs : List (String × DecPos)) (name : String) (v : PyVal) : R PyVal :=
  match lookup name decs with
  | some pos => if v.isNone then .ok v else convertArg parse pos v
  | none => .ok v

def convertKw (parse : String → Option Q) (decs : List (String × DecPos)) :
    List (String × PyVal) → R (List (String × PyVal))
  | [] => .ok []
  | (name, v) :: rest =>
    bindE (convertAt parse decs name v) fun y =>
    bindE (convertKw parse decs rest) fun ys => .ok ((name, y) :: ys)

/-- keyword construction of a class with DecimalNumber fields at `decs` -/
def constructD (parse : String → Option Q) (O : Oracles) (cls : FieldDecl) (decs : List (String × DecPos))
    (kw : List (String × PyVal)) : R PyVal :=
  bindE (convertKw parse decs kw) (constructH O cls)

end Typedpy
