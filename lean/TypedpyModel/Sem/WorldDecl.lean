/-
  Sem/WorldDecl.lean — the bridge from the abstract field vocabulary of the `World` model (C15) to concrete
  declarations: what a class "does per its own definition" as a statement about `Sem/Validate` results.

  `DeclEnv` interprets a self-contained field tag as a `FieldDecl` (and its default value); implicit wrappers
  and class references are `isinstance` checks (`ClassReference` semantics of `Sem/Validate`: a non-inline
  `struct` declaration accepts instances whose class is listed in `accepts`).  `classDeclOf` assembles, from
  the BEHAVIOUR VIEW of a class in a world (`view cfg w c`), the class declaration `Sem/Validate.construct`
  runs on: the fields in order (each with the check the view says is applied — for an implicit wrapper the class
  the registry resolved it to), the constructor's required parameters, whether undeclared keywords are taken,
  the defaults.  `constructVal` is then the `Sem/Validate` result of `cls(**kw)` on concrete values.

  Because it is a function of the view alone, the frame theorem transfers to it verbatim (Props/C15.lean:
  `construct_result_frame`): for every interpretation of the tags, every regex / hook oracle and every concrete
  keyword arguments, the `Sem/Validate` result after ANY history is the result after the class's own sub-history.
  The correspondence run evaluates `constructVal` on the probe arguments of the fingerprint and compares the
  accept / reject decision and the exception class with the real constructor (world suite, "decl" block).
-/
import TypedpyModel.Sem.World
import TypedpyModel.Sem.Validate
namespace Typedpy.World

structure DeclEnv where
  prim : Nat → Option FieldDecl      -- declaration of a self-contained field tag (`none`: outside Sem/Validate)
  dflt : Nat → Option PyVal          -- the default value the tag is declared with, when a field has one

def refName (c : ClassId) : String := "#" ++ toString c
def tyName (t : TypeId) : String := "U#" ++ toString t

/-- `isinstance(v, cls)` -/
def isInstanceDecl (n : String) : FieldDecl := .struct { name := n, required := [], accepts := [n] } [] []

def arrOf (arr : Bool) (d : FieldDecl) : FieldDecl := if arr then .seqOf .list d {} else d

/-- the check a field applies, as a declaration -/
def declOfField (env : DeclEnv) (f : FieldSpec) : Option FieldDecl :=
  match f.kind with
  | .prim t => env.prim t
  | .wrap _ t => some (arrOf f.arr (isInstanceDecl (tyName t)))
  | .ref c => some (arrOf f.arr (isInstanceDecl (refName c)))
  | .refs cs => some (.seqPos .list (cs.map fun c => isInstanceDecl (refName c)) true {})

def fieldDecls (env : DeclEnv) : List FieldSpec → Option (List (String × FieldDecl))
  | [] => some []
  | f :: fs => match declOfField env f, fieldDecls env fs with
    | some d, some ds => some ((f.name, d) :: ds)
    | _, _ => none

def defaultsOf (env : DeclEnv) (fs : List FieldSpec) : List (String × PyVal) :=
  fs.filterMap fun f =>
    if f.hasDefault then (match f.kind with
      | .prim t => (env.dflt t).map fun v => (f.name, v)
      | _ => none)
    else none

/-- the class declaration a behaviour view amounts to (`none` when a field is outside Sem/Validate) -/
def classDeclOf (env : DeclEnv) (b : Behaviour) : Option FieldDecl :=
  (fieldDecls env b.fields).map fun fs =>
    .struct { name := "C", required := b.sigRequired, addl := b.kwargs, defOrder := fnames b.fields }
      fs (defaultsOf env b.fields)

/-- what follows a successful `Structure.__init__` of the declared part: an undeclared keyword that the signature
    took (`**kwargs`, fixed at definition) is assigned as an attribute, which the class refuses (ValueError) when
    additional properties are off at USE time (`extras`: own / inherited `_additionalProperties`, else the current
    global default); then `FastSerializable.__init__` generates the serializer and raises TypeError if it cannot -/
def afterInit (b : Behaviour) (kw : List (String × PyVal)) (v : PyVal) : R PyVal :=
  if kw.any (fun a => !(fnames b.fields).contains a.1) && !b.extras then .error .valueErr
  else if !b.instantiable then .error .typeErr
  else .ok v

/-- `cls(**kw)` on concrete values, per the view: the `Sem/Validate` constructor of the assembled declaration,
    then `afterInit` -/
def constructVal (O : Oracles) (env : DeclEnv) (b : Behaviour) (kw : List (String × PyVal)) : Option (R PyVal) :=
  (classDeclOf env b).map fun d => bindE (construct O d kw) (afterInit b kw)

end Typedpy.World
