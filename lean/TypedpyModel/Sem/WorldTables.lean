/-
  Sem/WorldTables.lean — row type of the generated table of process-wide mutable state
  (`Generated/Registries.lean`, regenerated from /repo by `extract/registries.py` on every check)
  and the projection `configOf` of that table onto the switches the `World` model is parametric in.

  A row describes one piece of state that outlives a single operation: a module- or class-level
  mutable object, an `lru_cache`, a global configuration attribute, or a write onto a user class
  after its definition.  `key` says what the state is indexed by; only identity-indexed state
  (or state no class behaviour reads) is `safe`.
-/
namespace Typedpy.World

inductive KeyKind
  | classIdentity   -- keyed by the class object (dict key / lru_cache argument / the class written is the subject itself)
  | className       -- keyed by `cls.__name__`
  | fieldIdentity   -- keyed by a Field object
  | none            -- not keyed (counter, plain list …)
  | globalConfig    -- process-wide configuration attribute (written only by explicit setters)
  | otherClass      -- a write onto a class other than the subject of the operation (base, field owner …)
  | partialArgs     -- the key omits an argument the memoised value depends on (e.g. a flag of the call)
  | useValue        -- state kept on a Field object (shared by every class that inherits the field) whose
                    -- content depends on the values / instances the field was USED with
  | unknown         -- key expression the extractor cannot classify
  deriving DecidableEq, Repr, Inhabited

inductive RegKind
  | dict | list | set | counter | lruCache | config
  | classAttrWrite      -- `cls.x = …` / `setattr(cls, x, …)` after definition
  | inPlaceClassAttr    -- in-place mutation of a list/dict read from the class without copying
  | inPlaceCacheEntry   -- in-place mutation of an object handed out by a cache (the entry itself changes)
  | sharedReturnMutated -- a function returns a module- or class-level mutable object itself and a caller mutates it
  | earlyBoundClassAttr -- an attribute written onto classes after definition is read from another class once
                        -- and captured by a generated closure (frozen at generation time)
  | fieldAttrWrite      -- an attribute written onto a Field object by a method other than its constructor
  | defaultArg          -- a mutable default argument that the function mutates, returns or stores
  | closureCell         -- a mutable local of a function written by a nested function that outlives the call
                        -- (hand-written memo decorator), or a `nonlocal` rebinding
  | inheritedMemo       -- a memo kept as a class attribute and read through the MRO (`getattr(cls, X)`): a subclass
                        -- hits the entry stored on its base class
  | mroRead             -- an attribute installed on classes after definition with a computed value is read from a class
                        -- through the MRO to DECIDE something (`getattr(X, "serialize") is placeholder`): what a base
                        -- class of X got earlier answers for X
  | configCapture       -- global configuration read while generating something that is installed on a class /
                        -- put into a registry: the value in effect at generation time is frozen per class
  deriving DecidableEq, Repr, Inhabited

structure RegistryRec where
  file : String
  name : String
  site : String          -- function in which the (first) write occurs
  kind : RegKind
  key : KeyKind
  writtenAfterDef : Bool -- written by operations other than class definition
  deriving DecidableEq, Repr, Inhabited

/-- unkeyed process-wide state that has been reviewed: it is threaded through the `World` model and no
    class's `view` reads it (`StructureReference.counter` only numbers the names of inline classes) -/
def reviewedUnkeyed : List String := ["StructureReference.counter"]

/-- process-wide state that is history-dependent BY DESIGN and documented as such, outside the claim: the instance
    hashes the uniqueness feature (`@unique`, off by default) collects per class -/
def reviewedOutsideClaim : List String := ["cls._ALL_INSTANCES"]

/-- a row is safe when the state cannot carry information from one class to another: keyed by the identity
    of the class (or Field) it belongs to, or explicit global configuration; an UNKEYED registry (one slot for
    all classes) is safe only when it is on the reviewed list -/
def RegistryRec.safe (r : RegistryRec) : Bool :=
  reviewedOutsideClaim.contains r.name ||
  (r.key != .className) && (r.key != .otherClass) && (r.key != .unknown || reviewedOutsideClaim.contains r.name) &&
  (r.key != .partialArgs) &&
  (r.key != .useValue) && (r.key != .none || reviewedUnkeyed.contains r.name) &&
  (r.kind != .inPlaceClassAttr) && (r.kind != .inPlaceCacheEntry) && (r.kind != .earlyBoundClassAttr) &&
  (r.kind != .sharedReturnMutated) && (r.kind != .configCapture) && (r.kind != .defaultArg) &&
  (r.kind != .inheritedMemo) && (r.kind != .mroRead)

/-- stable finding key of an unsafe row (same strings as in known_findings.json) -/
def RegistryRec.findingKey (r : RegistryRec) : String :=
  if r.kind == .inPlaceClassAttr then "mutates-" ++ r.name ++ ":" ++ r.site
  else if r.kind == .inPlaceCacheEntry then "mutates-cache-entry:" ++ r.name ++ ":" ++ r.site
  else if r.kind == .earlyBoundClassAttr then "early-bound:" ++ r.name ++ ":" ++ r.site
  else if r.kind == .sharedReturnMutated then "mutates-shared-return:" ++ r.name ++ ":" ++ r.site
  else if r.kind == .configCapture then "config-captured-at-use:" ++ r.name ++ ":" ++ r.site
  else if r.kind == .mroRead then "mro-read:" ++ r.name ++ ":" ++ r.site
  else if r.kind == .inheritedMemo then "inherited-memo:" ++ r.name ++ ":" ++ r.site
  else if r.kind == .defaultArg then "mutable-default-argument:" ++ r.name
  else match r.key with
    | .partialArgs => "key-drops-argument:" ++ r.name
    | .className => "name-keyed:" ++ r.name
    | .otherClass => "foreign-class-write:" ++ r.name ++ ":" ++ r.site
    | .unknown => "unclassified-key:" ++ r.name
    | .useValue => "use-dependent-field-state:" ++ r.name ++ ":" ++ r.site
    | .none => "unkeyed-registry:" ++ r.name
    | _ => "safe:" ++ r.name

/-- what the `World` model needs to know about the code; every switch is read off the table -/
structure Config where
  wrapperByName : Bool        -- `FieldMeta._registry` is keyed by the bare `__name__` of the wrapped class
  mapperByName : Bool         -- `aggregated_mapper_by_class` keyed by class name (not by class)
  mapperDropsCamel : Bool     -- its key omits the `camel_case_convert` argument of the call
  simplicityByName : Bool     -- `_structure_simplicity_level` memo keyed by class name
  schemaWritesRequired : Bool -- `structure_to_schema` mutates the list held in `cls._required`
  serializerOnBase : Bool     -- `create_serializer` installs `serialize` on another class than `cls`
  serializerViaMro : Bool     -- `_verify_is_fast_serializable` decides with `getattr(B, "serialize")` (MRO lookup) whether
                              -- the referenced class B still needs its serializer generated
  deriving DecidableEq, Repr

def hasRow (rows : List RegistryRec) (p : RegistryRec → Bool) : Bool := rows.any p

/-- every switch is "the table has an UNSAFE row for that registry" -/
def configOf (rows : List RegistryRec) : Config where
  wrapperByName := hasRow rows fun r => r.name == "FieldMeta._registry" && !r.safe
  mapperByName := hasRow rows fun r => (r.name == "aggregated_mapper_by_class" && r.kind == .dict && r.key != .partialArgs) && !r.safe
  mapperDropsCamel := hasRow rows fun r => (r.name == "aggregated_mapper_by_class" && r.kind == .dict && r.key == .partialArgs) && !r.safe
  simplicityByName := hasRow rows fun r => (r.name == "_structure_simplicity_level" && r.kind != .inPlaceCacheEntry) && !r.safe
  schemaWritesRequired := hasRow rows fun r => (r.name == "cls._required" && r.site == "structure_to_schema") && !r.safe
  serializerOnBase := hasRow rows fun r => (r.name == "cls.serialize" && r.kind == .classAttrWrite) && !r.safe
  serializerViaMro := hasRow rows fun r => (r.name == "cls.serialize" && r.kind == .mroRead) && !r.safe

/-- the configuration under which the frame property holds without exclusions -/
def Config.safe (c : Config) : Bool :=
  !c.wrapperByName && !c.mapperByName && !c.mapperDropsCamel && !c.simplicityByName &&
  !c.schemaWritesRequired && !c.serializerOnBase && !c.serializerViaMro

/-- the part of safety that the current code has (identity-keyed caches, serializer on the class itself) -/
def Config.cachesById (c : Config) : Bool :=
  !c.mapperByName && !c.mapperDropsCamel && !c.simplicityByName && !c.serializerOnBase

def safeConfig : Config := ⟨false, false, false, false, false, false, false⟩

end Typedpy.World
