/-
  Sem/Trusted.lean — executable model of typedpy's *trusted* shortcut paths (property C10):

    * the eligibility classifier `_structure_simplicity_level` / `_is_mapper_simple` /
      `_is_optional_anyof` / `_valid_classes_for_trusted_deserialization`
      (serialization.py:522-617)                                   → `verdictOf`, `effOf`, `fieldsV`;
    * the trusted branch of `deserialize_structure_internal` (serialization.py:776-820):
      `get_flat_resolved_mapper` + key translation (`flatMap`, `remapDoc`), `_get_enum_mapping`
      (`enumPre`), `_remap_input` (`tVal`, `tFields`),
      `_extract_non_nonefield_from_optional` (`optPick`, `tHead`)
      and `Structure.from_trusted_data` of a mapping (`tFields` keeps only declared fields, in
      field order)                                                 → `deserializeTrusted`;
    * `Structure.from_trusted_data(None, **kw)` / `trust_supplied_values()` + constructor
      (structures.py:1049-1063, 1581-1639)                         → `fromTrustedKw`, `fromTrustedMap`.

  The model mirrors what the code does today, defects included (they are the known findings of
  Props/C10.lean).  Deviations, all outside the property's domain ("documents the regular path
  accepts"): when several entries of a garbage document would raise, the real code raises for the
  first one in *document* order (after mapping every enum field first), the model in *field* order;
  a nested document that is not a dict is `outside-model:non-dict`.
  Mapper-free regular path: Sem/Deser.lean.  The mapper of a class is looked up by class name in
  `Mp` (`ClassOpts` has no mapper slot; the `shortcut` suite generates unique class names).
-/
import TypedpyModel.Sem.Deser
import TypedpyModel.Sem.Mappers
namespace Typedpy
open PyVal (pyEq)

/-! ### mappers, as far as the trusted path looks at them -/

/-- the `_serialization_mapper` / `_deserialization_mapper` attribute of a class -/
inductive TMapper where
  /-- no mapper, `{}` or `mappers.NO_MAPPER` -/
  | none
  /-- `mappers.TO_CAMELCASE` -/
  | camel
  /-- `mappers.TO_LOWERCASE` (which upper-cases) -/
  | lower
  /-- a flat `{field: key}` dict of strings -/
  | rename (d : List (String × String))
  /-- anything `_is_mapper_simple` refuses: a list of mappers (`list = true`), a `"x._mapper"`
      key, a FunctionCall / DoNotSerialize / Constant value -/
  | complex (list : Bool := false)
deriving Repr, Inhabited

abbrev MapEnv := String → TMapper

def noMappers : MapEnv := fun _ => .none

/-- the mapper attributes a class statement and its parent classes declare (`none` = the
    attribute is not declared there; a declared `{}` is `some (.rename [])`) -/
structure MapperDecl where
  ser : Option TMapper := none          -- `_serialization_mapper` in the class body
  deser : Option TMapper := none        -- `_deserialization_mapper` in the class body
  baseSer : Option TMapper := none      -- `_serialization_mapper` of a parent class (an inherited attribute)
  baseDeser : Option TMapper := none    -- `_deserialization_mapper` of a parent class

/-- `getattr(cls, "_deserialization_mapper", getattr(cls, "_serialization_mapper", {}))`, the one
    expression `_is_mapper_simple` (eligibility) and `get_flat_resolved_mapper` (the key table of
    the trusted path) both evaluate: the deserialization mapper when one is declared (the class's
    own shadows a parent's, as attribute lookup does), else the serialization mapper, else nothing.
    The regular path takes the same slot per class (`deserialization_mapper if … is not None else
    serialization_mapper`) but CHAINS the parents' mappers with the class's own. -/
def MapperDecl.resolved (d : MapperDecl) : TMapper :=
  match d.deser <|> d.baseDeser with
  | some m => m
  | none => (d.ser <|> d.baseSer).getD .none

/-- the parent classes' mapper is shadowed for the trusted path and chained by the regular path -/
def MapperDecl.chained (d : MapperDecl) : Bool :=
  (d.ser.isSome || d.deser.isSome) && (d.baseSer.isSome || d.baseDeser.isSome)

def mapEnvOf (tbl : List (String × MapperDecl)) : MapEnv :=
  fun n => match tbl.find? (fun p => p.1 == n) with
    | some p => p.2.resolved
    | none => .none

def TMapper.isComplex : TMapper → Bool
  | .complex _ => true
  | _ => false

/-- `get_flat_resolved_mapper` calls `mapper.get`: a list of mappers has no `get` -/
def TMapper.isList : TMapper → Bool
  | .complex l => l
  | _ => false

def TMapper.isNone : TMapper → Bool
  | .none => true
  | _ => false

/-- dict lookup, last binding wins (`{k: v for …}` built in order) -/
def lookupLast {α} (k : String) : List (String × α) → Option α
  | [] => none
  | (k', v) :: r => match lookupLast k r with
    | some x => some x
    | none => if k == k' then some v else none

/-- the key a field is read from / written to under a simple mapper -/
def mapKey (m : TMapper) (n : String) : String :=
  match m with
  | .camel => Mappers.camelAscii n
  | .lower => Mappers.upperAscii n
  | .rename d => (lookupLast n d).getD n
  | _ => n

/-- `get_flat_resolved_mapper(cls)`: `{mapped key: field}` over the fields in order -/
def flatMap (m : TMapper) (names : List String) : List (String × String) :=
  names.map fun n => (mapKey m n, n)

/-- `{flat.get(k, k): doc[k] for k in doc}` (a key assigned twice keeps its first position and
    its last value); without a mapper the translation is the identity -/
def remapDoc (m : TMapper) (names : List String) (doc : List (String × PyVal)) :
    List (String × PyVal) :=
  if m.isNone then doc
  else doc.foldl (fun acc kv => assocSet ((lookupLast kv.1 (flatMap m names)).getD kv.1) kv.2 acc) []

/-! ### the classifier -/

def isNoneF : FieldDecl → Bool
  | .noneF => true
  | _ => false

/-- `isinstance(f, _valid_classes_for_trusted_deserialization)`:
    Integer, String, Float, Boolean, NoneField, Enum, SerializableField, Number -/
def isValidCls : FieldDecl → Bool
  | .integer _ | .string _ _ _ | .float _ | .boolean | .noneF | .enumLit _ | .enumCls _ _
  | .number _ => true
  | _ => false

/-- `isinstance(f, SerializableField)` on the modelled vocabulary: only `Enum` -/
def isEnumDecl : FieldDecl → Bool
  | .enumLit _ | .enumCls _ _ => true
  | _ => false

/-- a ClassReference field (a nested Structure class, not an inline StructureReference) -/
def isClassRef : FieldDecl → Bool
  | .struct c _ _ => !c.inline
  | _ => false

/-- `_is_optional_anyof`: exactly two options, one of them `NoneField` -/
def isOptAnyOf (fs : List FieldDecl) : Bool := fs.length == 2 && fs.any isNoneF

inductive Lvl where | flat | nested
deriving Repr, DecidableEq, Inhabited

/-- result of `_structure_simplicity_level(cls)`: raises ValueError (unsupported mapper),
    `False`, or `_ClsSimplicity.not_nested` / `.nested` -/
inductive Verdict where
  | raises | no | lvl (l : Lvl)
deriving Repr, DecidableEq, Inhabited

/-- what one field does to the classifier's loop -/
inductive FEff where
  | raises | reject | nested | keep
deriving Repr, DecidableEq, Inhabited

def refEff : Verdict → FEff
  | .raises => .raises
  | .no => .reject
  | .lvl _ => .nested

/-- an optional field is as simple as its non-None option, and makes the class `nested` -/
def optEff : FEff → FEff
  | .raises => .raises
  | .reject => .reject
  | _ => .nested

mutual
/-- the body of the `for v in fields` loop for one field; `opt` = the replacement of an optional
    `AnyOf` by its non-None option may still happen (it happens once, at the top of the body) -/
def effOf (Mp : MapEnv) (opt : Bool) : FieldDecl → FEff
  | .integer _ => .keep
  | .string _ _ _ => .keep
  | .float _ => .keep
  | .boolean => .keep
  | .noneF => .keep
  | .number _ => .keep
  | .enumLit _ => .nested               -- a SerializableField
  | .enumCls _ _ => .nested
  | .anyOf fs =>
    if opt && isOptAnyOf fs then optEff (effOpt Mp fs)
    else if fs.all isValidCls then .keep else .reject
  | .seqOf .list item _ =>
    if isEnumDecl item then .nested            -- Serializable items
    else if isValidCls item then .keep
    else if isClassRef item then effOf Mp false item else .reject
  | .seqOf .deque _ _ => .reject
  | .setOf _ item _ =>
    if isValidCls item then .nested else if isClassRef item then effOf Mp false item else .reject
  | .struct c fields _ =>
    if c.inline then .reject
    else refEff (if (Mp c.name).isComplex then .raises else fieldsV Mp fields .flat)
  | .seqAny _ _ => .reject
  | .seqPos _ _ _ _ => .reject
  | .setAny _ _ => .reject
  | .tupleOf _ _ => .reject
  | .tuplePos _ _ => .reject
  | .mapAny _ => .reject
  | .mapOf _ _ _ => .reject
  | .oneOf _ => .reject
  | .allOf _ => .reject
  | .notF _ => .reject
  | .anything => .reject
termination_by structural f => f

/-- `_extract_non_nonefield_from_optional`: `fields[0]` if `fields[1]` is `NoneField`, else
    `fields[1]` -/
def effOpt (Mp : MapEnv) : List FieldDecl → FEff
  | [] => .reject
  | x :: rest =>
    (match rest with
      | [y] => if isNoneF y then effOf Mp false x else effOf Mp false y
      | _ => .reject)
termination_by structural fs => fs

def fieldsV (Mp : MapEnv) : List (String × FieldDecl) → Lvl → Verdict
  | [], l => .lvl l
  | (_, f) :: rest, l =>
    match effOf Mp true f with
    | .raises => .raises
    | .reject => .no
    | .nested => fieldsV Mp rest .nested
    | .keep => fieldsV Mp rest l
termination_by structural fs _ => fs
end

/-- `_structure_simplicity_level(cls)` -/
def verdictOf (Mp : MapEnv) (cls : FieldDecl) : Verdict :=
  match cls with
  | .struct c fields _ => if (Mp c.name).isComplex then .raises else fieldsV Mp fields .flat
  | _ => .no

/-- typedpy classifies the class as eligible for trusted deserialization -/
def eligible (Mp : MapEnv) (cls : FieldDecl) : Bool :=
  match verdictOf Mp cls with
  | .lvl _ => true
  | _ => false

/-! ### the trusted branch -/

/-- `mapping[doc[k]]` = `EnumClass[name]` -/
def enumByName (cls : String) (names : List String) (v : PyVal) : R PyVal :=
  match v with
  | .str n => if names.contains n then .ok (.enumv cls n) else .error (.other "KeyError")
  | _ => .error (.other "KeyError")

/-- the non-None option of an optional `AnyOf` (`fields[0]` if `fields[1]` is `NoneField`, else
    `fields[1]`) -/
def optPick (fs : List FieldDecl) : FieldDecl :=
  match fs with
  | [x, y] => if isNoneF y then x else y
  | _ => .noneF

def enumPreD (f : FieldDecl) (v : PyVal) : R PyVal :=
  match f with
  | .enumCls cls names => if truthy v then enumByName cls names v else .ok v
  | _ => .ok v

/-- the enum-mapping step (`_get_enum_mapping`) for the entry of field `f`: an enum-class field,
    or an optional `AnyOf` whose non-None option is one, has a truthy value replaced by the
    member of that name -/
def enumPre (f : FieldDecl) (v : PyVal) : R PyVal :=
  match f with
  | .anyOf fs => if isOptAnyOf fs then enumPreD (optPick fs) v else .ok v
  | g => enumPreD g v

/-- `Enum.deserialize(x)` -/
def enumDeser (item : FieldDecl) (x : PyVal) : R PyVal :=
  match item with
  | .enumCls cls names => dEnumCls cls names x
  | .enumLit vals => dValidated (vEnumLit vals x) x
  | _ => .ok x

/-- `set(v)` / `{… for x in v}` of a JSON array -/
def pySet (v : PyVal) (g : List PyVal → R (List PyVal)) : R PyVal :=
  match v with
  | .list xs => bindE (g xs) fun ys =>
      if ys.any unhashable then .error .typeErr else .ok (.set false (dedup ys))
  | _ => .error (.other "outside-model:non-list")

/-- `[… for x in v]` of a JSON array -/
def pyList (v : PyVal) (g : List PyVal → R (List PyVal)) : R PyVal :=
  match v with
  | .list xs => bindE (g xs) fun ys => .ok (.list ys)
  | _ => .error (.other "outside-model:non-list")

/-- the nested `deserialize_structure_internal(…, direct_trusted_mapping=True,
    simple_structure_verified=…)` for a dict document: key translation, `_get_enum_mapping`,
    then the entries `k` computes, as `cls.from_trusted_data(mapping)` -/
def tInst (m : TMapper) (cname : String) (names : List String) (v : PyVal)
    (k : List (String × PyVal) → R (List (String × PyVal))) : R PyVal :=
  match v with
  | .dict kvs => (match kwOfDict kvs with
    | none => .error (.other "outside-model:non-str-key")
    | some doc =>
      -- (reachable only for a class the classifier never looked at: behind an Optional)
      if m.isList then .error (.other "AttributeError")
      else bindE (k (remapDoc m names doc)) fun attrs => .ok (.inst cname attrs))
  | _ => .error (.other "outside-model:non-dict")

mutual
/-- the value `_remap_input` stores for a non-None entry whose field is `f`; `opt` = the
    optional-`AnyOf` replacement by `fields[0]` may still happen (it happens once) -/
def tVal (Mp : MapEnv) (opt : Bool) : FieldDecl → PyVal → R PyVal
  | .anyOf fs, v => if opt && isOptAnyOf fs then tHead Mp fs v else .ok v
  | .struct c fields _, v =>
    if c.inline then .ok v
    else tInst (Mp c.name) c.name (fields.map (·.1)) v
          (fun doc => tFields Mp false c.ignoreNone doc fields)
  | .enumLit _, v => .ok v
  | .enumCls _ _, v => .ok v
  | .seqOf .list item _, v =>
    if isClassRef item then pyList v (mapE (tVal Mp false item))
    else if isEnumDecl item then pyList v (mapE (enumDeser item))    -- Serializable items, element by element
    else .ok v
  | .setOf _ item _, v =>
    if isEnumDecl item then pySet v (mapE (enumDeser item))
    else if isClassRef item then pySet v (mapE (tVal Mp false item))
    else pySet v (fun xs => .ok xs)                     -- every other admitted item type: `set(v)`
  | .integer _, v => .ok v
  | .number _, v => .ok v
  | .float _, v => .ok v
  | .string _ _ _, v => .ok v
  | .boolean, v => .ok v
  | .noneF, v => .ok v
  | .seqOf .deque _ _, v => .ok v
  | .seqAny _ _, v => .ok v
  | .seqPos _ _ _ _, v => .ok v
  | .setAny _ _, v => pySet v (fun xs => .ok xs)
  | .tupleOf _ _, v => .ok v
  | .tuplePos _ _, v => .ok v
  | .mapAny _, v => .ok v
  | .mapOf _ _ _, v => .ok v
  | .oneOf _, v => .ok v
  | .allOf _, v => .ok v
  | .notF _, v => .ok v
  | .anything, v => .ok v
termination_by structural f _ => f

/-- through `_extract_non_nonefield_from_optional` -/
def tHead (Mp : MapEnv) : List FieldDecl → PyVal → R PyVal
  | [], v => .ok v
  | x :: rest, v =>
    (match rest with
      | [y] => if isNoneF y then tVal Mp false x v else tVal Mp false y v
      | _ => .ok v)
termination_by structural fs _ => fs

/-- the attributes of the trusted instance, field by field: `raw` = the class is `not_nested`
    (the document is used as it is, after the enum mapping); else `_remap_input`.  A null is kept
    as an attribute holding None, except that `_remap_input` drops it when the class ignores None -/
def tFields (Mp : MapEnv) (raw ign : Bool) (doc : List (String × PyVal)) :
    List (String × FieldDecl) → R (List (String × PyVal))
  | [] => .ok []
  | (n, f) :: rest =>
    match lookup n doc with
    | none => tFields Mp raw ign doc rest
    | some v =>
      if v.isNone then
        (if !raw && ign then tFields Mp raw ign doc rest
         else bindE (tFields Mp raw ign doc rest) fun ws => .ok ((n, PyVal.none) :: ws))
      else
        bindE (bindE (enumPre f v) fun v' => if raw then .ok v' else tVal Mp true f v') fun w =>
        bindE (tFields Mp raw ign doc rest) fun ws => .ok ((n, w) :: ws)
termination_by structural fs => fs
end

/-- `Deserializer(cls).deserialize(doc, direct_trusted_mapping=True)` (no explicit mapper, no
    camel_case_convert).  The regular path of an ineligible class is the mapper-free
    `deserialize`, so this function is the real code's only when no class in `cls` has a mapper
    or the class is eligible. -/
def deserializeTrusted (Mp : MapEnv) (O : Oracles) (opts : DeserOpts) (cls : FieldDecl)
    (d : PyVal) : R PyVal :=
  match cls with
  | .struct c fields _ =>
    (match verdictOf Mp cls with
      | .raises => .error .valueErr
      | .no => deserialize O opts cls d
      | .lvl l =>
        tInst (Mp c.name) c.name (fields.map (·.1)) d
          (fun doc => tFields Mp (l == .flat) c.ignoreNone doc fields))
  | _ => .error (.other "not-a-class")

/-- the statement's `deserialize(..., direct_trusted_mapping=flag)` -/
def deserializeWithFlag (Mp : MapEnv) (O : Oracles) (opts : DeserOpts) (flag : Bool)
    (cls : FieldDecl) (d : PyVal) : R PyVal :=
  if flag then deserializeTrusted Mp O opts cls d else deserialize O opts cls d

/-! ### trusted construction -/

/-- `cls.from_trusted_data(None, **kw)`, and `cls(**kw)` after `cls.trust_supplied_values()`:
    every keyword becomes a `__dict__` entry as it is -/
def fromTrustedKw (cls : FieldDecl) (kw : List (String × PyVal)) : R PyVal :=
  match cls with
  | .struct c _ _ => .ok (.inst c.name kw)
  | _ => .error (.other "not-a-class")

/-- `cls.from_trusted_data(mapping)`: the declared fields present in the mapping, in field order
    (an empty mapping is falsy: no attributes at all) -/
def fromTrustedMap (cls : FieldDecl) (src : List (String × PyVal)) : R PyVal :=
  match cls with
  | .struct c fields _ =>
    .ok (.inst c.name (fields.filterMap fun p => (lookup p.1 src).map fun v => (p.1, v)))
  | _ => .error (.other "not-a-class")

/-! ### equality of instances as `Structure.__eq__` sees it -/

mutual
/-- normal form under which two values are `==` for `Structure.__eq__` whenever no field default
    is involved: an attribute holding None reads like an unset one, a frozenset equals the set of
    the same elements -/
def tnorm : PyVal → PyVal
  | .inst c attrs => .inst c (tnormAttrs attrs)
  | .list xs => .list (tnormList xs)
  | .tuple xs => .tuple (tnormList xs)
  | .deque xs => .deque (tnormList xs)
  | .set _ xs => .set false (tnormList xs)
  | .dict kvs => .dict (tnormPairs kvs)
  | .none => .none
  | .bool b => .bool b
  | .int i => .int i
  | .float q => .float q
  | .dec q => .dec q
  | .str s => .str s
  | .enumv c n => .enumv c n
  | .opaque t => .opaque t
termination_by structural v => v
def tnormList : List PyVal → List PyVal
  | [] => []
  | x :: xs => tnorm x :: tnormList xs
termination_by structural xs => xs
def tnormPairs : List (PyVal × PyVal) → List (PyVal × PyVal)
  | [] => []
  | (k, v) :: rest => (tnorm k, tnorm v) :: tnormPairs rest
termination_by structural xs => xs
def tnormAttrs : List (String × PyVal) → List (String × PyVal)
  | [] => []
  | (k, v) :: rest => if v.isNone then tnormAttrs rest else (k, tnorm v) :: tnormAttrs rest
termination_by structural xs => xs
end

/-- `x == y` of two Structure instances (unset ≡ None, set ≡ frozenset, otherwise `pyEq`) -/
def eqv (x y : PyVal) : Bool := pyEq (tnorm x) (tnorm y)

end Typedpy
