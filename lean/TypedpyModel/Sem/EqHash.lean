/-
  Sem/EqHash.lean — value-level model of `Structure.__eq__`, `__str__` / `__hash__`,
  `__copy__`, `__deepcopy__`, pickling (`__getstate__` + default `__setstate__`) and of the mutation
  machine on an instance that carries its `_instantiated` flag (structures.py).

  * `instEq`   mirrors `Structure.__eq__`: same class; for every key of the merged `__dict__`s the
    values read back (`getattr` for fields: the field default / `None` when unset; `__dict__.get` for
    extras) are compared with Python `==` (`PyVal.pyEq`); `_none_fields` clause.
  * `hashKey`  is `str(self)`, the string `Structure.__hash__` hashes: class name (`Structure` for
    inline classes), attributes sorted by name, `str` values quoted at top level only, list / tuple /
    set / dict rendered by typedpy's own `to_str` in *iteration order* with `,` and ` = `, everything
    else through Python's `str()`.  Python's `str()` of a float and of the objects typedpy does not
    render itself (Decimal, enum member, deque, frozenset, foreign objects) is a parameter
    (`Render`); whatever is assumed about it is an explicit hypothesis of the theorem using it.
  * `copyI`, `deepcopyI`, `pickleI` act on the instance state (`__dict__` minus internals,
    `_instantiated`, `_none_fields`).  With value semantics sharing is invisible: that a deep /
    unpickled copy shares no mutable object with the original is checked on the real code by the
    harness (suite `pairs`), not by this model.
-/
import TypedpyModel.Sem.Mutate
namespace Typedpy
open PyVal (pyEq)

/-- Python's `str()` where typedpy's `__str__` delegates to it -/
structure Render where
  /-- `str(x)` of a finite float -/
  float : Q → String
  /-- `str(v)` of a Decimal, enum member, deque (`_DequeStruct`), frozenset or foreign object -/
  other : PyVal → String
  /-- class names rendered as `Structure` (`StructureReference_n` inline classes) -/
  inlineCls : String → Bool

/-- state of a Structure instance: `__dict__` without the internal entries, plus those entries -/
structure Inst where
  cls : String
  attrs : Attrs
  /-- `_instantiated` is in `__dict__` (set last by `__init__`; restored by `__setstate__`) -/
  instantiated : Bool := true
  /-- `_none_fields` (`None`/absent and the empty set are indistinguishable for `__eq__`/`__str__`):
      the fields explicitly assigned `None` on a class with `_enable_undefined_value` -/
  nones : List String := []
  /-- the class has `_enable_undefined_value = True` (read through the instance, as the code does) -/
  undef : Bool := false
deriving Repr, Inhabited

/-- what `__eq__` needs to know of the class: field defaults and the names of the declared fields -/
structure EqCtx where
  defaults : Attrs := []
  fields : List String := []
deriving Repr, Inhabited

/-- the `Undefined` marker an unset field of an `_enable_undefined_value` class reads as -/
def undefinedV : PyVal := .opaque "Undefined"

/-! ### `Structure.__eq__` -/

/-- value read back for key `k`: `getattr(x, k)` for a field — when unset: on an
    `_enable_undefined_value` class `None` if the field was explicitly assigned `None`
    (`_none_fields`; since 11aa0bc, before that the default) and `Undefined` otherwise; on any other
    class its default, else `None` — and `x.__dict__.get(k)` for an extra attribute (`d.defaults`
    mentions fields only) -/
def getA (d : EqCtx) (x : Inst) (k : String) : PyVal :=
  match lookup k x.attrs with
  | some v => v
  | none =>
    if x.undef && d.fields.contains k then
      (if x.nones.contains k then .none else undefinedV)
    else match lookup k d.defaults with
      | some dv => dv
      | none => .none

/-- `set(a) == set(b)` on name lists -/
def namesEq (a b : List String) : Bool := a.all b.contains && b.all a.contains

def instEq (defaults : EqCtx) (a b : Inst) : Bool :=
  a.cls == b.cls && a.undef == b.undef
  && (a.attrs ++ b.attrs).all (fun kv => pyEq (getA defaults a kv.1) (getA defaults b kv.1))
  && namesEq a.nones b.nones

/-- the statement's "field-wise equality of the values read back", over *all* names -/
def FieldwiseEq (defaults : EqCtx) (a b : Inst) : Prop :=
  a.cls = b.cls ∧ a.undef = b.undef ∧ (∀ k, pyEq (getA defaults a k) (getA defaults b k) = true)
  ∧ namesEq a.nones b.nones = true

/-! ### `Structure.__str__` / `__hash__` -/

def insertKey (kv : String × String) : List (String × String) → List (String × String)
  | [] => [kv]
  | h :: t => if kv.1 ≤ h.1 then kv :: h :: t else h :: insertKey kv t

/-- `sorted(d.items())` for distinct keys (insertion sort by key) -/
def sortKeys : List (String × String) → List (String × String)
  | [] => []
  | h :: t => insertKey h (sortKeys t)

/-- `<Instance of NAME. Properties: k = v, …>` from already rendered attribute values -/
def instFrame (R : Render) (cls : String) (rendered : List (String × String)) (nones : List String) :
    String :=
  "<Instance of " ++ (if R.inlineCls cls then "Structure" else cls) ++ ". Properties: "
    ++ ", ".intercalate ((sortKeys rendered).map (fun kv => kv.1 ++ " = " ++ kv.2)
        ++ (sortKeys (nones.map (fun n => (n, "None")))).map (fun kv => kv.1 ++ " = " ++ kv.2))
    ++ ">"

mutual
/-- `to_str(v)` of `Structure.__str__` -/
def toStr (R : Render) : PyVal → String
  | .list xs => "[" ++ ",".intercalate (toStrs R xs) ++ "]"
  | .tuple xs => "(" ++ ",".intercalate (toStrs R xs) ++ ")"
  | .set false xs => "{" ++ ",".intercalate (toStrs R xs) ++ "}"
  | .dict kvs => "{" ++ ",".intercalate (toStrKvs R kvs) ++ "}"
  | .none => "None"
  | .bool b => if b then "True" else "False"
  | .int i => toString i
  | .float q => R.float q
  | .str s => s
  | .inst c attrs => instFrame R c (toStrAttrs R attrs) []
  | .dec q => R.other (.dec q)
  | .enumv c n => R.other (.enumv c n)
  | .deque xs => R.other (.deque xs)
  | .set true xs => R.other (.set true xs)
  | .opaque t => R.other (.opaque t)
termination_by structural v => v
def toStrs (R : Render) : List PyVal → List String
  | [] => []
  | x :: xs => toStr R x :: toStrs R xs
termination_by structural xs => xs
def toStrKvs (R : Render) : List (PyVal × PyVal) → List String
  | [] => []
  | (k, v) :: rest => (toStr R k ++ " = " ++ toStr R v) :: toStrKvs R rest
termination_by structural kvs => kvs
/-- attribute values as `__str__` renders them at the top level of an instance: a `str` quoted -/
def toStrAttrs (R : Render) : List (String × PyVal) → List (String × String)
  | [] => []
  | (k, v) :: rest =>
    (k, match v with | .str s => "'" ++ s ++ "'" | w => toStr R w) :: toStrAttrs R rest
termination_by structural kvs => kvs
end

/-- `str(x)`: what `Structure.__hash__` hashes -/
def hashKey (R : Render) (x : Inst) : String :=
  instFrame R x.cls (toStrAttrs R x.attrs) x.nones

/-! ### copy, deepcopy, pickle -/

/-- `__copy__`: a new object with the same `__dict__` entries (internal ones included) -/
def copyI (x : Inst) : Inst := x

/-- CPython's iteration order of a set rebuilt from the listed elements.  `copy.deepcopy` and
    `pickle` rebuild every set by inserting its elements in iteration order; the resulting order is
    a matter of the hash-table layout (colliding elements can swap) and is outside the model: it is
    a parameter, and what a theorem assumes about it is a hypothesis. -/
abbrev SetOrder := List PyVal → List PyVal

mutual
/-- a value rebuilt by `copy.deepcopy` or by a pickle round trip: containers are rebuilt element by
    element, sets in the order `S` gives; a Structure inside keeps every `__dict__` entry
    (`__getstate__` returns the set fields *and* the additional properties, since 4ede29b) -/
def rebuildV (S : SetOrder) : PyVal → PyVal
  | .list xs => .list (rebuildVs S xs)
  | .tuple xs => .tuple (rebuildVs S xs)
  | .deque xs => .deque (rebuildVs S xs)
  | .set f xs => .set f (S (rebuildVs S xs))
  | .dict kvs => .dict (rebuildKvs S kvs)
  | .inst c attrs => .inst c (rebuildAttrs S attrs)
  | .none => .none
  | .bool b => .bool b
  | .int i => .int i
  | .float q => .float q
  | .dec q => .dec q
  | .str s => .str s
  | .enumv c n => .enumv c n
  | .opaque t => .opaque t
termination_by structural v => v
def rebuildVs (S : SetOrder) : List PyVal → List PyVal
  | [] => []
  | x :: xs => rebuildV S x :: rebuildVs S xs
termination_by structural xs => xs
def rebuildKvs (S : SetOrder) : List (PyVal × PyVal) → List (PyVal × PyVal)
  | [] => []
  | (k, v) :: rest => (rebuildV S k, rebuildV S v) :: rebuildKvs S rest
termination_by structural kvs => kvs
def rebuildAttrs (S : SetOrder) : List (String × PyVal) → List (String × PyVal)
  | [] => []
  | (k, v) :: rest => (k, rebuildV S v) :: rebuildAttrs S rest
termination_by structural kvs => kvs
end

/-- pickle round trip of an instance: `__getstate__` (set fields and additional properties), then
    `__setstate__` = `__dict__.update(state)` on a bare `cls.__new__(cls)` plus the bookkeeping
    entries `__init__` creates: `_instantiated = True` and `_none_fields` (carried by the state
    when non-empty, since 7925862; an empty set otherwise).  (`__getstate__` lists the fields in class-body order, then the extras; the
    order of `__dict__` is not observable through `==`, `str` or `hash`: `pickleOrdI` below adds it.) -/
def pickleI (S : SetOrder) (x : Inst) : Inst :=
  { cls := x.cls, attrs := rebuildAttrs S x.attrs, instantiated := true, nones := x.nones, undef := x.undef }

/-- the order of the unpickled `__dict__`: `__getstate__` lists the declared fields that are set in
    class-body order, then the additional properties in `__dict__` order; `__setstate__` is
    `__dict__.update(state)` on a bare object -/
def stateOrder (fields : List String) (attrs : Attrs) : Attrs :=
  fields.filterMap (fun f => (lookup f attrs).map (fun v => (f, v)))
    ++ attrs.filter (fun kv => !fields.contains kv.1)

/-- the pickle round trip with the order of the new `__dict__` -/
def pickleOrdI (fields : List String) (S : SetOrder) (x : Inst) : Inst :=
  { pickleI S x with attrs := stateOrder fields (pickleI S x).attrs }

/-- `__deepcopy__`: an immutable structure is returned as is; otherwise every `__dict__` entry is
    deep-copied and re-assigned through `__setattr__` under `_skip_validation`, which drops a
    `None` for a non-required name when the class ignores `None` -/
def deepcopyI (c : ClassOpts) (S : SetOrder) (x : Inst) : Inst :=
  if c.immutable then x
  else { x with attrs := (rebuildAttrs S x.attrs).filter
                  (fun kv => !(kv.2.isNone && (c.ignoreNone || x.undef) && !c.required.contains kv.1)) }

/-! ### mutation of an instance that knows whether it is `_instantiated` -/

/-- `_none_fields.add(f)` -/
def addName (f : String) (ns : List String) : List String := if ns.contains f then ns else ns ++ [f]

/-- `Structure.__setattr__` on a class with `_enable_undefined_value`: after the immutability and
    the non-field checks, `None` for a non-required name is never stored — a field is recorded in
    `_none_fields` and whatever `__dict__` held for it is removed (since ed6dbae), except that an
    immutable field which is already set refuses it with ValueError (since f1caf24) — and a
    non-`None` value for a field
    discards the name from `_none_fields` and goes through the validated assignment; if that is
    rejected the name is recorded again (failure-atomic since 810b853) -/
def setattrUndef (O : Oracles) (c : ClassOpts) (fields : List (String × FieldDecl)) (x : Inst)
    (f : String) (v : PyVal) : Inst × Outcome :=
  if c.immutable then (x, .err .valueErr)
  else
    let isField := (lookup f fields).isSome
    if !isField && !c.addl then (x, .err .valueErr)
    else if v.isNone && !c.required.contains f then
      if !isField then (x, .ok)
      -- an immutable field that is already set refuses every assignment, `None` included (f1caf24)
      else if c.immFields.contains f && (lookup f x.attrs).isSome then (x, .err .valueErr)
      else ({ x with nones := addName f x.nones, attrs := assocDel f x.attrs }, .ok)
    else
      let r := setattrStep O c fields x.attrs f v
      let ns := match r.2 with
        | .ok => if isField && !v.isNone then x.nones.filter (fun n => n != f) else x.nones
        | .err _ => x.nones       -- a rejected assignment restores `_none_fields` (810b853)
      ({ x with attrs := r.1, nones := ns }, r.2)

/-- the table row of mutator `m` on the wrapper the current value of field `f` is stored in
    re-assigns the field -/
def callReassigns (tbl : List MethodRec) (O : Oracles) (fields : List (String × FieldDecl)) (attrs : Attrs)
    (f : String) (m : NOp) : Bool :=
  match lookup f fields, lookup f attrs with
  | some fd, some cur => match wrapperKindAt O fd cur with
    | none => false
    | some kind => match findRec tbl kind m.name with
      | none => false
      | some r => r.validated
  | _, _ => false

/-- `Structure.__setattr__` refuses an immutable structure only once `_instantiated` is set;
    `__delitem__` and the wrappers' guards look at the class alone -/
def stepI (bound dh : Bool) (tbl : List MethodRec) (O : Oracles) (c : ClassOpts) (fields : List (String × FieldDecl))
    (x : Inst) (op : Op) : Inst × Outcome :=
  match op with
  | .setattr f v =>
    if x.undef then
      setattrUndef O { c with immutable := c.immutable && x.instantiated } fields x f v
    else
      let r := setattrStep O { c with immutable := c.immutable && x.instantiated } fields x.attrs f v
      ({ x with attrs := r.1 }, r.2)
  | .call f m =>
    let r := step tbl O c fields x.attrs (.call f m)
    -- a wrapper mutator that re-assigns the mutated copy goes through `Structure.__setattr__`, which
    -- on an `_enable_undefined_value` class un-records an explicit `None` of that field on success
    let ns := if x.undef && r.2 == .ok && callReassigns tbl O fields x.attrs f m
              then x.nones.filter (fun n => n != f) else x.nones
    ({ x with attrs := r.1, nones := ns }, r.2)
  | op =>
    -- `bound` / `dh`: which nested-wrapper model applies and whether `del x[k]` runs the `__validate__` hook
    -- (`Generated.nestedBound`, `Generated.delitemHook`, read off the code)
    -- (the delete-runs-the-hook flag is irrelevant here: the pairs suite installs no __validate__ hook)
    let r := stepB bound dh tbl O c fields x.attrs op
    ({ x with attrs := r.1 }, r.2)

def runI (bound dh : Bool) (tbl : List MethodRec) (O : Oracles) (c : ClassOpts) (fields : List (String × FieldDecl)) :
    Inst → List Op → Inst × List Outcome
  | x, [] => (x, [])
  | x, op :: rest =>
    let r := stepI bound dh tbl O c fields x op
    let t := runI bound dh tbl O c fields r.1 rest
    (t.1, r.2 :: t.2)

/-- which of the two instances an operation is applied to -/
inductive Side where | orig | copy
deriving Repr, DecidableEq, Inhabited

/-- an interleaved history on a pair (original, copy); every outcome is tagged with its side -/
def run2 (bound dh : Bool) (tbl : List MethodRec) (O : Oracles) (c : ClassOpts) (fields : List (String × FieldDecl)) :
    Inst × Inst → List (Side × Op) → (Inst × Inst) × List (Side × Outcome)
  | p, [] => (p, [])
  | p, (.orig, op) :: rest =>
    let r := stepI bound dh tbl O c fields p.1 op
    let t := run2 bound dh tbl O c fields (r.1, p.2) rest
    (t.1, (.orig, r.2) :: t.2)
  | p, (.copy, op) :: rest =>
    let r := stepI bound dh tbl O c fields p.2 op
    let t := run2 bound dh tbl O c fields (p.1, r.1) rest
    (t.1, (.copy, r.2) :: t.2)

/-- the part of a tagged list that belongs to one side -/
def sideOf {α} (s : Side) (h : List (Side × α)) : List α :=
  (h.filter (fun so => so.1 == s)).map (·.2)

end Typedpy
