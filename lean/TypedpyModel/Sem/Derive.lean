/-
  Sem/Derive.lean — the class-derivation operators, exactly as the code does them today.
  Mirrors structures_reuse.py (`Partial[...]`, `AllFieldsRequired[...]`, `Extend[...]`,
  `Omit[...]`, `Pick[...]`) and structures.py (`Structure.omit`, `Structure.pick`,
  `_init_class_dict`).  Every operator builds a fresh class dict from the source class —
  `_fields` from the source's own `__dict__`, `_ignore_none` as `getattr` sees it, the source's Field
  objects (shared, not copied), a new `_required` — and calls `type(name, (Structure,), dict)`,
  i.e. `defineClass` of Sem/Define.lean.
-/
import TypedpyModel.Sem.Define
namespace Typedpy

inductive DeriveOp where
  | partialOf
  | allRequired
  | extend
  | omit (names : List String)
  | pick (names : List String)
deriving Repr, Inhabited

/-- `_init_class_dict`: `_fields` (always in a Structure class's own dict); `_ignore_none` from
    the class's own dict, else whatever `getattr` finds along the MRO (see `derivedSrc`) -/
def initEntries (_c : ClassDef) : List (String × SrcEntry) := [("_fields", .attr .list)]

def objEntries (fs : List (String × Member)) : List (String × SrcEntry) :=
  fs.map fun p => (p.1, .obj p.2)

/-- fields picked in the order given (a repeated name keeps its first position) -/
def pickFields (all : List (String × Member)) : List String → List (String × Member)
  | [] => []
  | n :: ns =>
    match lookup n all with
    | some m => (n, m) :: (pickFields all ns).filter (fun q => q.1 != n)
    | none => pickFields all ns

def derivedSrc (c : ClassDef) (newName : String) (fields : List (String × Member))
    (required : List String) : ClassSrc :=
  { name := newName, bases := ["Structure"], entries := initEntries c ++ objEntries fields,
    required := some required, ignoreNone := c.ignoreNoneAttr }

/-- the class dict an operator assembles, or the exception it raises while doing so -/
def deriveSrc (c : ClassDef) (newName : String) : DeriveOp → R ClassSrc
  | .partialOf => .ok (derivedSrc c newName c.allFields [])
  | .allRequired =>
    -- only Field objects without a default become required; Constants are carried over
    .ok (derivedSrc c newName c.allFields ((c.allFields.filter fun p => p.2.needsValue).map (·.1)))
  | .extend => .ok (derivedSrc c newName c.allFields c.required)
  | .omit names =>
    if names.all (fun k => c.fieldNames.contains k) then
      .ok (derivedSrc c newName (c.allFields.filter fun p => !names.contains p.1)
            (c.required.filter fun x => !names.contains x))
    else .error .typeErr
  | .pick names =>
    if names.all (fun k => c.fieldNames.contains k) then
      .ok (derivedSrc c newName (pickFields c.allFields names)
            (c.required.filter fun x => names.contains x))
    else .error .typeErr

/-- apply an operator: assemble the dict, then run the class statement -/
def deriveClass (O : Oracles) (w : World) (c : ClassDef) (newName : String) (op : DeriveOp) :
    R ClassDef :=
  bindE (deriveSrc c newName op) fun src => defineClass O w src

/-! ### histories of definitions -/

inductive Step where
  | define (src : ClassSrc)
  | mixin (name : String)
  | derive (op : DeriveOp) (source newName : String)
deriving Repr, Inhabited

/-- one class-creating statement: the class it yields, or the exception -/
def stepClass (O : Oracles) (w : World) : Step → R ClassDef
  | .define src => defineClass O w src
  | .mixin name => .ok (mixinDef name)
  | .derive op source newName =>
    match w.find source with
    | some c => deriveClass O w c newName op
    | none => .error (.other "model-domain: unknown source class")

/-- the world after a statement: a failed statement yields no class -/
def stepWorld (O : Oracles) (w : World) (s : Step) : World :=
  match stepClass O w s with
  | .ok c => w.add c
  | .error _ => w

def runSteps (O : Oracles) : World → List Step → World
  | w, [] => w
  | w, s :: rest => runSteps O (stepWorld O w s) rest

/-- compose operators: each applies to the class the previous one produced -/
def deriveMany (O : Oracles) : World → ClassDef → List (DeriveOp × String) → R (World × ClassDef)
  | w, c, [] => .ok (w, c)
  | w, c, (op, nm) :: rest =>
    bindE (deriveClass O w c nm op) fun d => deriveMany O (w.add d) d rest

end Typedpy
