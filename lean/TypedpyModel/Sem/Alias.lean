/-
  Sem/Alias.lean — heap / ownership model for C19 (operations never mutate caller data and never
  hand out live internal state).

  * A `Heap` is a total store `Nat → Cell` with an allocation pointer `next`.  A `Cell` is a container
    (list, dict, set, deque, tuple, structure instance, class object …): a tag and a list of keyed
    `Item`s; an item is an immutable atom (int/str/bool/None/enum member/date … all collapsed) or a
    reference to another cell.  Identity = address.
  * Every operation of the statement is a heap transformer `transfer M fuel shape h item` that walks the
    value *along the declared type* (`Shape`, the abstraction of a typedpy field declaration) exactly the
    way the typedpy code does (`Array.__set__` → `_ListStruct(...)`, `serialize_val`, `Array.serialize`,
    `deserialize_single_field` … are all type-directed), and at every node does what the regenerated
    table (`Generated/Aliasing.lean`, from `extract/aliasing.py`) says the code does there:
      `rebuild` — allocate a new container and recurse into the children,
      `alias`   — hand on the very same reference (the `return value` short cuts, `OneOf` storing the original),
      `shallow` — new container, same children,
      `deep`    — `copy.deepcopy` / JSON round trip of untyped content (fuel = recursion limit),
      `error`   — the operation raises at this node.
    `M : Kind → Cat → Mode` is the per-operation projection of that table.
  * `mutateArg` is the only transformer that writes into a pre-existing cell of the caller (what
    `schema_to_struct_code` did with `schema['required'].remove(...)`); `setattrOp` writes the instance cell.
  * The caller afterwards runs an arbitrary *script* of native mutations (`Act.write`: replace the content
    of a cell it holds by anything built from references it holds; `Act.alloc`: create a new object).
  * `observeN` reads a value back as a tree (what fingerprints / `==` / serialization can see).
-/
namespace Typedpy.Alias

/-! ## vocabulary shared with the generated table -/

inductive OpK
  | construct | setattr | deserialize            -- input side: the instance keeps (a copy of) the argument
  | serialize | fieldSerialize | fastSerialize   -- output side: a document is built from the instance
  | convert                                      -- convert_dict (Versioned)
  | derive                                       -- Extend / Omit / Pick / Partial / AllFieldsRequired
  | toSchema | schemaToCode
  deriving DecidableEq, Repr, Inhabited

inductive Kind
  | root                                   -- the operation's top-level container (kwargs / document / instance)
  | array | deque | set | immSet | tuple | map   -- homogeneous typed collections (`Shape.coll`)
  | arrayPos | dequePos | tuplePos         -- positional items (`Shape.keyed` by index)
  | struct | inline                        -- ClassReference / StructureReference (`Shape.keyed`)
  | anyOf | oneOf | allOf | notF           -- multi-field wrappers (`Shape.wrap`)
  | any                                    -- Anything / untyped content / additional properties
  | owner                                  -- the defensive deep copy of an immutable owner (ImmutableStructure / immutable=True field)
  | misfit                                 -- `<Wrapper>.serialize` handing a value to its fixed option although it does not fit it
  | document | mapping | names | required | enumValues | default | schema | fieldState   -- class-level / document-level sites
  deriving DecidableEq, Repr, Inhabited

/-- what the element declaration of a collection looks like (the code branches on it) -/
inductive Cat
  | none | number | string | scalar | any | untyped | coll | struct | inline | wrap
  | enum        -- an Enum option of a delegating wrapper (`Enum.serialize` returns whatever it is given)
  | tupl        -- a Tuple option of a multi-field wrapper (its values are tuples: code that copies "the mutable kinds" skips them)
  deriving DecidableEq, Repr, Inhabited

inductive Mode
  | rebuild | alias | shallow | deep | error
  deriving DecidableEq, Repr, Inhabited

inductive Ret
  | fresh | aliasInternal | aliasArg | scalar | raises
  deriving DecidableEq, Repr, Inhabited

/-- one row of the generated table -/
structure AliasRow where
  op : OpK
  kind : Kind
  cat : Cat
  argMutated : Bool      -- the operation writes into an object of the caller at this site
  returns : Ret          -- output side: what the result holds at this site
  retainsArg : Bool      -- input side: the instance keeps the caller's object itself
  shallow : Bool         -- the copy made at this site is one level deep only (untyped content)
  deep : Bool            -- the copy made at this site is generic (not by the declared element type)
  astMode : String       -- what the AST idiom matcher read off the source ("" = no recognisable idiom)
  agree : Bool           -- AST reading and dynamic probe agree (true when there is no idiom)
  deriving DecidableEq, Repr, Inhabited

def OpK.isInput : OpK → Bool
  | .construct | .setattr | .deserialize | .derive => true
  | _ => false

/-- sites whose content has no declared type: a copy there is a generic deep copy -/
def Kind.isLeafSite : Kind → Bool
  | .any | .owner | .misfit | .document | .mapping | .names | .required | .enumValues | .default | .schema | .fieldState => true
  | _ => false

/-- behaviour of the code at a node, read off a table row -/
def AliasRow.mode (r : AliasRow) : Mode :=
  if r.returns == .raises then .error
  else if r.op.isInput then
    (if r.retainsArg then .alias else if r.shallow then .shallow
     else if r.kind.isLeafSite || r.deep then .deep else .rebuild)
  else match r.returns with
    | .fresh => if r.shallow then .shallow else if r.kind.isLeafSite || r.deep then .deep else .rebuild
    | .scalar => if r.kind.isLeafSite then .deep else .rebuild
    | _ => .alias

def lookupRow (tbl : List AliasRow) (op : OpK) (k : Kind) (c : Cat) : Option AliasRow :=
  tbl.find? fun r => r.op == op && r.kind == k && r.cat == c

/-- per-operation projection of the table; a site the table does not know is treated as `alias`
    (the unsafe answer), so a missing row can never make a theorem's hypothesis true -/
def modeOf (tbl : List AliasRow) (op : OpK) (k : Kind) (c : Cat) : Mode :=
  match lookupRow tbl op k c with
  | some r => r.mode
  | none => .alias

/-! ## heap -/

inductive Item
  | atom (v : Int)
  | ref (a : Nat)
  deriving DecidableEq, Repr, Inhabited

structure Cell where
  tag : String
  items : List (String × Item)
  deriving DecidableEq, Repr, Inhabited

def Item.addr? : Item → Option Nat
  | .ref a => some a
  | .atom _ => none

def Cell.kids (c : Cell) : List Nat := c.items.filterMap fun p => p.2.addr?

structure Heap where
  cells : Nat → Cell
  next : Nat

def Heap.write (h : Heap) (a : Nat) (c : Cell) : Heap :=
  { h with cells := fun x => if x = a then c else h.cells x }

def Heap.alloc (h : Heap) (c : Cell) : Heap × Nat :=
  ({ cells := fun x => if x = h.next then c else h.cells x, next := h.next + 1 }, h.next)

/-- `Reach h a b`: `b` can be reached from `a` by following references -/
inductive Reach (h : Heap) : Nat → Nat → Prop
  | refl (a : Nat) : Reach h a a
  | step {a b c : Nat} : Reach h a b → c ∈ (h.cells b).kids → Reach h a c

/-- the caller holds `a` if it can reach it from one of its roots -/
def Held (h : Heap) (K : List Nat) (a : Nat) : Prop := ∃ r, r ∈ K ∧ Reach h r a

/-! ## declared types -/

/-- which option of a multi-field wrapper takes the value: the first one the value fits (`AnyOf.__set__`,
    `deserialize_multifield_wrapper`, `serialize_multifield_wrapper`), or a fixed one whatever the value is
    (`AnyOf.serialize` → its last non-None option, `AllOf.serialize` → its first option) -/
inductive Pick
  | firstFit
  | fixed (i : Nat)
  deriving DecidableEq, Repr, Inhabited

inductive Shape
  | scalar (c : Cat)                                   -- Integer, String, Boolean, Enum, NoneField …
  | any                                                -- an `Anything` field
  | untyped                                            -- implicit: elements of an untyped collection, undeclared keys
  | coll (k : Kind) (item : Shape)                     -- Array[T], Deque[T], Set[T], Tuple[T], Map[K, V]
  | keyed (k : Kind) (fields : List (String × Shape))  -- structure / positional items, by key
  | wrap (k : Kind) (inner : Shape)                    -- a wrapper with one inner declaration (NotField; class-level sites)
  | wrapN (k : Kind) (pick : Pick) (opts : List Shape) -- AnyOf / OneOf / AllOf with ALL their options: the value decides
  | owned (inner : Shape)                              -- a field of an immutable owner: defensive deep copy, then the field
  deriving Repr, Inhabited

def Shape.cat : Shape → Cat
  | .scalar c => c
  | .any => .any
  | .untyped => .untyped
  | .coll _ _ => .coll
  | .keyed .struct _ => .struct
  | .keyed .root _ => .struct
  | .keyed .inline _ => .inline
  | .keyed _ _ => .coll
  | .wrap _ _ => .wrap
  | .wrapN _ _ _ => .wrap
  | .owned s => s.cat

/-- the category under which a multi-field WRAPPER's row is looked up: as `cat`, with the Tuple declarations split off
    (a tuple is an immutable container: what a wrapper does with "the mutable kinds" need not happen to it) -/
def Shape.wcat : Shape → Cat
  | .coll .tuple _ => .tupl
  | .keyed .tuplePos _ => .tupl
  | .owned s => s.wcat
  | s => s.cat

/-! ## transformers -/

abbrev R (α : Type) := Heap × Option α

def lookupItem (name : String) : List (String × Item) → Option Item
  | [] => none
  | (k, v) :: rest => if k = name then some v else lookupItem name rest

/-- thread a transformer over the items of a cell -/
def mapItems (f : Heap → Item → R Item) : Heap → List (String × Item) → R (List (String × Item))
  | h, [] => (h, some [])
  | h, (k, i) :: rest =>
    match f h i with
    | (h1, none) => (h1, none)
    | (h1, some i') =>
      match mapItems f h1 rest with
      | (h2, none) => (h2, none)
      | (h2, some r) => (h2, some ((k, i') :: r))

def allocLike (h : Heap) (tag : String) (its : List (String × Item)) : R Item :=
  let p := h.alloc ⟨tag, its⟩
  (p.1, some (.ref p.2))

/-- `copy.deepcopy` / JSON round trip of untyped content; `fuel` = Python's recursion limit -/
def deepCopy : Nat → Heap → Item → R Item
  | _, h, .atom v => (h, some (.atom v))
  | 0, h, .ref _ => (h, none)
  | n + 1, h, .ref a =>
    match mapItems (deepCopy n) h (h.cells a).items with
    | (h1, none) => (h1, none)
    | (h1, some its) => allocLike h1 (h.cells a).tag its

def shallowCopy (h : Heap) : Item → R Item
  | .atom v => (h, some (.atom v))
  | .ref a => allocLike h (h.cells a).tag (h.cells a).items

def leafScalar (h : Heap) : Item → R Item
  | .atom v => (h, some (.atom v))
  | .ref _ => (h, none)          -- a container where a scalar is declared: validation rejects

def leafAny (m : Mode) (fuel : Nat) (h : Heap) (i : Item) : R Item :=
  match m with
  | .alias => (h, some i)
  | .shallow => shallowCopy h i
  | .error => (h, none)
  | _ => deepCopy fuel h i

/-- a homogeneous collection node; `f` = the transformer of the element declaration -/
def nodeColl (m : Mode) (fuel : Nat) (f : Heap → Item → R Item) (h : Heap) : Item → R Item
  | .atom v => (h, some (.atom v))
  | .ref a =>
    match m with
    | .alias => (h, some (.ref a))
    | .shallow => shallowCopy h (.ref a)
    | .deep => deepCopy fuel h (.ref a)
    | .error => (h, none)
    | .rebuild =>
      match mapItems f h (h.cells a).items with
      | (h1, none) => (h1, none)
      | (h1, some its) => allocLike h1 (h.cells a).tag its

/-- a keyed node (structure / positional); `tf` = the transformer of the declared fields -/
def nodeRec (m : Mode) (fuel : Nat) (tf : Heap → List (String × Item) → R (List (String × Item)))
    (h : Heap) : Item → R Item
  | .atom v => (h, some (.atom v))
  | .ref a =>
    match m with
    | .alias => (h, some (.ref a))
    | .shallow => shallowCopy h (.ref a)
    | .deep => deepCopy fuel h (.ref a)
    | .error => (h, none)
    | .rebuild =>
      match tf h (h.cells a).items with
      | (h1, none) => (h1, none)
      | (h1, some its) => allocLike h1 (h.cells a).tag its

def nodeWrap (m : Mode) (fuel : Nat) (f : Heap → Item → R Item) (h : Heap) (i : Item) : R Item :=
  match m with
  | .alias => (h, some i)
  | .shallow => shallowCopy h i
  | .deep => deepCopy fuel h i
  | .error => (h, none)
  | .rebuild => f h i

/-- one declared field: absent keys are skipped -/
def fieldStep (name : String) (f : Heap → Item → R Item)
    (g : Heap → List (String × Item) → R (List (String × Item)))
    (h : Heap) (items : List (String × Item)) : R (List (String × Item)) :=
  match lookupItem name items with
  | none => g h items
  | some it =>
    match f h it with
    | (h1, none) => (h1, none)
    | (h1, some it') =>
      match g h1 items with
      | (h2, none) => (h2, none)
      | (h2, some r) => (h2, some ((name, it') :: r))

/-! ### which option of a multi-field wrapper a value fits (by its shape: Python type of the value) -/

/-- atoms carry the Python class of the scalar: 0 None, 1 bool, 2 int, 3 float, 4 str, 5 anything else -/
def atomFits (c : Cat) : Item → Bool
  | .ref _ => false
  | .atom v => match c with
    | .number => v == 2 || v == 3
    | .string => v == 4
    | _ => true

/-- Python container classes a collection / structure declaration takes (`isinstance` tests of the fields) -/
def tagFits (k : Kind) (t : String) : Bool :=
  match k with
  | .array | .deque | .arrayPos | .dequePos => t == "list" || t == "deque" || t == "wlist" || t == "wdeque"
  | .set | .immSet => t == "set" || t == "frozenset" || t == "list" || t == "wlist"
  | .tuple | .tuplePos => t == "tuple" || t == "list" || t == "wlist"
  | .map => t == "dict" || t == "wdict"
  | .struct | .inline | .root => t == "inst" || t == "iinst" || t == "dict" || t == "wdict"
  | _ => true

def refFits (k : Kind) (h : Heap) : Item → Bool
  | .atom _ => false
  | .ref a => tagFits k (h.cells a).tag

mutual
def fits : Shape → Heap → Item → Bool
  | .scalar c, _, i => atomFits c i
  | .any, _, _ => true
  | .untyped, _, _ => true
  | .coll k _, h, i => refFits k h i
  | .keyed k _, h, i => refFits k h i
  | .wrap _ _, _, _ => true
  | .wrapN k p opts, h, i =>
    match p with
    | .fixed _ => true            -- a delegating `<Wrapper>.serialize` takes whatever it is handed and decides inside
    | .firstFit => fitsOpts (k == .allOf) opts h i
  | .owned s, h, i => fits s h i
termination_by structural s => s
/-- `all = false`: some option fits (AnyOf / OneOf); `all = true`: every option fits (AllOf) -/
def fitsOpts (all : Bool) : List Shape → Heap → Item → Bool
  | [], _, _ => all
  | s :: rest, h, i => if all then fits s h i && fitsOpts all rest h i else fits s h i || fitsOpts all rest h i
termination_by structural opts => opts
end

/-- index of the first option the value fits (`opts.length` if none does) -/
def firstFitIdx (h : Heap) (i : Item) : List Shape → Nat
  | [] => 0
  | s :: rest => if fits s h i then 0 else firstFitIdx h i rest + 1

/-- the option a wrapper hands the value to; an index past the end = no option takes it (generic fallback / raises) -/
def pickIdx (p : Pick) (opts : List Shape) (h : Heap) (i : Item) : Nat :=
  match p with
  | .firstFit => firstFitIdx h i opts
  | .fixed n => match opts[n]? with
    | some s => if fits s h i then n else opts.length
    | none => opts.length

/-- the table site of a value that no option takes: with first-fit choice the wrapper's own `(k, untyped)` site
    (raises on input); with a FIXED delegation the value is handed to that option all the same — what
    `<option>.serialize` does with a value it was not made for is the site `(misfit, <the option's category>)` -/
def fallbackSite (k : Kind) (p : Pick) (opts : List Shape) : Kind × Cat :=
  match p with
  | .firstFit => (k, .untyped)
  | .fixed n => match opts[n]? with
    | some s => (.misfit, s.wcat)
    | none => (k, .untyped)

/-- one step through the option list: option 0 is the chosen one, otherwise look further -/
def optStep (f : Heap → Item → R Item) (g : Nat → Heap → Item → R Item) : Nat → Heap → Item → R Item
  | 0, h, i => f h i
  | n + 1, h, i => g n h i

/-- objects an immutable owner stores / hands out WITHOUT its defensive deep copy: scalars, the typed collection
    wrappers (`ImmutableMixin`) and ImmutableStructure instances (the `isinstance` tuples of
    `Structure.__setattr__`, `Field.__set__`, `Field.__get__`) -/
def exemptTag (t : String) : Bool := t == "wlist" || t == "wdict" || t == "wdeque" || t == "iinst"

def ownerExempt (h : Heap) : Item → Bool
  | .atom _ => true
  | .ref a => exemptTag (h.cells a).tag

/-- a field of an immutable owner: unless the table says the owner does not copy (`alias`), a value that is not
    exempt is deep-copied first and the field (`f`) only ever sees the copy -/
def nodeOwned (m : Mode) (fuel : Nat) (f : Heap → Item → R Item) (h : Heap) (i : Item) : R Item :=
  match m with
  | .error => (h, none)
  | .alias => f h i
  | _ =>
    if ownerExempt h i then f h i
    else match deepCopy fuel h i with
      | (h1, none) => (h1, none)
      | (h1, some c) => f h1 c

mutual
/-- the type-directed walk shared by every operation of the statement -/
def transfer (M : Kind → Cat → Mode) (fuel : Nat) : Shape → Heap → Item → R Item
  | .scalar _, h, i => leafScalar h i
  | .any, h, i => leafAny (M .any .none) fuel h i
  | .untyped, h, i => leafAny (M .any .none) fuel h i
  | .coll k s, h, i => nodeColl (M k s.cat) fuel (fun h' i' => transfer M fuel s h' i') h i
  | .keyed k fs, h, i => nodeRec (M k .none) fuel (fun h' its => transferFields M fuel fs h' its) h i
  | .wrap k s, h, i => nodeWrap (M k s.wcat) fuel (fun h' i' => transfer M fuel s h' i') h i
  | .wrapN k p opts, h, i =>
    transferOpts M fuel k (M (fallbackSite k p opts).1 (fallbackSite k p opts).2) opts (pickIdx p opts h i) h i
  | .owned s, h, i => nodeOwned (M .owner .none) fuel (fun h' i' => transfer M fuel s h' i') h i
termination_by structural s => s
/-- walk to the chosen option; past the end: no option takes the value — the wrapper's generic path (site `(k, untyped)`) -/
def transferOpts (M : Kind → Cat → Mode) (fuel : Nat) (k : Kind) (fb : Mode) : List Shape → Nat → Heap → Item → R Item
  | [], _, h, i => leafAny fb fuel h i
  | s :: rest, n, h, i =>
    optStep (nodeWrap (M k s.wcat) fuel (fun h' i' => transfer M fuel s h' i'))
      (fun n' h' i' => transferOpts M fuel k fb rest n' h' i') n h i
termination_by structural opts => opts
def transferFields (M : Kind → Cat → Mode) (fuel : Nat) :
    List (String × Shape) → Heap → List (String × Item) → R (List (String × Item))
  | [], h, _ => (h, some [])
  | (name, s) :: rest, h, items =>
    fieldStep name (fun h' i' => transfer M fuel s h' i') (fun h' its => transferFields M fuel rest h' its) h items
termination_by structural fs => fs
end


/-! ## the decidable "no aliasing at any node" predicate -/

/-- the node never hands on the reference it was given (a node that raises hands on nothing) -/
def Mode.copies : Mode → Bool
  | .rebuild | .deep | .error => true
  | _ => false

mutual
/-- every node of the declaration is copied by the operation (`rebuild`/`deep`); untyped leaves are deep-copied -/
def safeShape (M : Kind → Cat → Mode) : Shape → Bool
  | .scalar _ => true
  | .any => (M .any .none).copies
  | .untyped => (M .any .none).copies
  | .coll k s => (M k s.cat).copies && safeShape M s
  | .keyed k fs => (M k .none).copies && safeFields M fs
  | .wrap k s => (M k s.wcat).copies && safeShape M s
  | .wrapN k p opts => (M (fallbackSite k p opts).1 (fallbackSite k p opts).2).copies && safeOpts M k opts
  | .owned s => safeShape M s
termination_by structural s => s
/-- whichever option takes the value, it copies -/
def safeOpts (M : Kind → Cat → Mode) (k : Kind) : List Shape → Bool
  | [] => true
  | s :: rest => (M k s.wcat).copies && safeShape M s && safeOpts M k rest
termination_by structural opts => opts
def safeFields (M : Kind → Cat → Mode) : List (String × Shape) → Bool
  | [] => true
  | (_, s) :: rest => safeShape M s && safeFields M rest
termination_by structural fs => fs
end

mutual
/-- the table sites a declaration touches under an operation -/
def sitesOf : Shape → List (Kind × Cat)
  | .scalar _ => []
  | .any => [(.any, .none)]
  | .untyped => [(.any, .none)]
  | .coll k s => (k, s.cat) :: sitesOf s
  | .keyed k fs => (k, .none) :: sitesOfFields fs
  | .wrap k s => (k, s.wcat) :: sitesOf s
  | .wrapN k p opts => fallbackSite k p opts :: sitesOfOpts k opts
  | .owned s => (.owner, .none) :: sitesOf s
termination_by structural s => s
def sitesOfOpts (k : Kind) : List Shape → List (Kind × Cat)
  | [] => []
  | s :: rest => (k, s.wcat) :: (sitesOf s ++ sitesOfOpts k rest)
termination_by structural opts => opts
def sitesOfFields : List (String × Shape) → List (Kind × Cat)
  | [] => []
  | (_, s) :: rest => sitesOf s ++ sitesOfFields rest
termination_by structural fs => fs
end

/-- in-place edit of a caller object (drop its first element) — what an `argMutated` site does -/
def mutateArg (h : Heap) : Item → Heap
  | .atom _ => h
  | .ref a => h.write a ⟨(h.cells a).tag, (h.cells a).items.drop 1⟩

def setItem (name : String) (v : Item) : List (String × Item) → List (String × Item)
  | [] => [(name, v)]
  | (k, x) :: rest => if k = name then (k, v) :: rest else (k, x) :: setItem name v rest

/-- `setattr(inst, name, value)`: transfer the value along the field's declaration, then store it -/
def setattrOp (M : Kind → Cat → Mode) (fuel : Nat) (s : Shape) (h : Heap) (inst : Nat) (name : String)
    (v : Item) : R Unit :=
  match transfer M fuel s h v with
  | (h1, none) => (h1, none)
  | (h1, some v') => (h1.write inst ⟨(h1.cells inst).tag, setItem name v' (h1.cells inst).items⟩, some ())

/-- an operation as the table describes it: walk, then (if the row of the top-level site says so) edit the argument -/
def execOp (tbl : List AliasRow) (op : OpK) (topKind : Kind) (fuel : Nat) (s : Shape) (h : Heap) (arg : Item) : R Item :=
  let r := transfer (modeOf tbl op) fuel s h arg
  match lookupRow tbl op topKind .none with
  | some row => if row.argMutated then (mutateArg r.1 arg, r.2) else r
  | none => r

/-! ## the caller's script of native mutations -/

inductive Act
  | write (a : Nat) (c : Cell)     -- append / clear / __setitem__ / update / pop … : any new content
  | alloc (c : Cell)               -- create a new object (to be stored somewhere later)
  deriving Repr, Inhabited

def Act.kids : Act → List Nat
  | .write _ c => c.kids
  | .alloc c => c.kids

def stepAct (h : Heap) (K : List Nat) : Act → Heap × List Nat
  | .write a c => (h.write a c, K)
  | .alloc c => ((h.alloc c).1, h.next :: K)

def runScript : Heap → List Nat → List Act → Heap × List Nat
  | h, K, [] => (h, K)
  | h, K, a :: rest => runScript (stepAct h K a).1 (stepAct h K a).2 rest

/-- the capability discipline of native mutation: a caller can only write into objects it can reach and
    can only store references it can reach -/
def Admissible (h : Heap) (K : List Nat) : Act → Prop
  | .write a c => Held h K a ∧ ∀ k, k ∈ c.kids → Held h K k
  | .alloc c => ∀ k, k ∈ c.kids → Held h K k

def AdmissibleAll : Heap → List Nat → List Act → Prop
  | _, _, [] => True
  | h, K, a :: rest => Admissible h K a ∧ AdmissibleAll (stepAct h K a).1 (stepAct h K a).2 rest

/-! ## observation -/

inductive Tree
  | atom (v : Int)
  | node (tag : String) (kids : List (String × Tree))
  | cut
  deriving Repr, Inhabited

mutual
def Tree.beq : Tree → Tree → Bool
  | .atom a, .atom b => a == b
  | .node t ks, .node t' ks' => t == t' && Tree.beqList ks ks'
  | .cut, .cut => true
  | _, _ => false
termination_by structural t => t
def Tree.beqList : List (String × Tree) → List (String × Tree) → Bool
  | [], [] => true
  | (k, t) :: r, (k', t') :: r' => k == k' && Tree.beq t t' && Tree.beqList r r'
  | _, _ => false
termination_by structural l => l
end

/-- read a value back to depth `n` (everything `==`, `str`, serialization and field reads can see) -/
def observeN : Nat → Heap → Item → Tree
  | _, _, .atom v => .atom v
  | 0, _, .ref _ => .cut
  | n + 1, h, .ref a => .node (h.cells a).tag ((h.cells a).items.map fun p => (p.1, observeN n h p.2))

/-! ## executable alias report (driver / `decide` examples) -/

/-- addresses reachable from an item, to depth `n` (with repetitions) -/
def reachList : Nat → Heap → Item → List Nat
  | _, _, .atom _ => []
  | 0, _, .ref a => [a]
  | n + 1, h, .ref a => a :: ((h.cells a).items.map fun p => reachList n h p.2).flatten

/-- key paths (from `i`) of the cells that are also in `shared` -/
def sharedPaths : Nat → Heap → List Nat → List String → Item → List (List String)
  | _, _, _, _, .atom _ => []
  | 0, _, shared, path, .ref a => if shared.contains a then [path.reverse] else []
  | n + 1, h, shared, path, .ref a =>
    (if shared.contains a then [path.reverse] else []) ++
      ((h.cells a).items.map fun p => sharedPaths n h shared (p.1 :: path) p.2).flatten

/-- a heap given by a finite list of cells (address = position) -/
def Heap.ofList (cs : List Cell) : Heap :=
  { cells := fun a => cs.getD a ⟨"", []⟩, next := cs.length }

/-- the cells below `n` are the same in both heaps -/
def sameBelow (n : Nat) (h h' : Heap) : Bool :=
  (List.range n).all fun a => h.cells a == h'.cells a

end Typedpy.Alias
