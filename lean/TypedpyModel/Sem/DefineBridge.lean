/-
  Sem/DefineBridge.lean — bridge from the class records of the class-definition model
  (`ClassDef`, Sem/Define.lean: what `StructMeta.__new__` leaves on the class object) to the class
  declarations the value-level models work on (`FieldDecl.struct`, Core/Field.lean; consumed by
  `construct` / `validate` of Sem/Validate.lean, Sem/Serde, Sem/Deser, Sem/Trusted, Sem/Stub …).

  Small API (everything total and computable; no proofs in this file):

  * `Bridge.fieldDecls c`        — the Field members of `_field_by_name`, definition order
                                    (`get_all_fields_by_name()` without the Constants)
  * `Bridge.defaults c`          — `(name, default value)` of every Field member that has one
  * `Bridge.defOrder c`          — field names in definition order (deserialization order)
  * `Bridge.sigOrder c ord`      — field names in constructor-signature order; `ord` is the order
                                    of the *required* parameters, an ORACLE: they come from a Python
                                    `set` (`make_signature`), so the order depends on PYTHONHASHSEED.
                                    Any list may be given; names of `ord` that are fields come first,
                                    then `sig.opt`, then every remaining field in definition order.
  * `Bridge.immFields c`         — names whose Field object is an ImmutableField (in the model's
                                    vocabulary: ImmutableSet)
  * `ClassDef.toStruct c ord accepts` — the `FieldDecl.struct`: `required` = the parameters the
                                    constructor signature demands (= `_required` minus Constants for
                                    classes without the known findings), `addl` = the signature has
                                    `**kwargs`, `ignoreNone` / `immutable` as `getattr` finds them along
                                    the MRO, `fields` in `sigOrder`, `defaults`, `immFields`, `defOrder`
  * `ClassDef.toDecl c`          — `toStruct` with the model's own order of `sig.req` and
                                    `accepts = [c.name]`
  * `World.subclassNames w n`    — names of the classes of `w` that have `n` in their MRO
  * `World.structOf w n ord`     — `toStruct` of class `n` with `accepts` computed from the world
  * `instantiateOrd O c ord kw`, `instantiate O c kw` — `cls(**kw)`: AbstractStructure refusal,
                                    `Signature.bind`, undeclared keywords against the *inherited*
                                    `_additional_properties`, Constants, then `construct` of
                                    Sem/Validate.lean on `toStruct`
  * `Entry`, `instantiateVia O c ord e kw` — every class-level way of obtaining an instance
                                    (constructor, from_other_class, cast_to, trust flag,
                                    from_trusted_data, trusted deserialization): all of them refuse
                                    an abstract class
  * `assignField O c name v`     — `inst.name = v` on a fresh instance

  Nested Structure-class fields are `FieldDecl.struct` trees already (the wire form inlines the
  referenced class): the bridge does not re-resolve them through the world.
-/
import TypedpyModel.Sem.Define
namespace Typedpy

def memberDecls : List (String × Member) → List (String × FieldDecl)
  | [] => []
  | (n, .field d _) :: rest => (n, d) :: memberDecls rest
  | (_, .const _) :: rest => memberDecls rest

def memberDefaults : List (String × Member) → List (String × PyVal)
  | [] => []
  | (n, .field _ (some d)) :: rest => (n, d.value) :: memberDefaults rest
  | _ :: rest => memberDefaults rest

namespace Bridge

/-- the Field object is an `ImmutableField` instance -/
def isImmFieldDecl : FieldDecl → Bool
  | .setAny imm _ => imm
  | .setOf imm _ _ => imm
  | _ => false

def fieldDecls (c : ClassDef) : List (String × FieldDecl) := memberDecls c.allFields
def defaults (c : ClassDef) : List (String × PyVal) := memberDefaults c.allFields
def defOrder (c : ClassDef) : List String := (fieldDecls c).map (·.1)
def immFields (c : ClassDef) : List String :=
  ((fieldDecls c).filter fun p => isImmFieldDecl p.2).map (·.1)

/-- the pairs of `fs` named by `names`, in the order of `names` -/
def orderBy (names : List String) (fs : List (String × FieldDecl)) : List (String × FieldDecl) :=
  names.filterMap fun n => (lookup n fs).map fun d => (n, d)

/-- constructor-signature order of the declared fields, given the order of the required ones -/
def sigOrder (c : ClassDef) (reqOrder : List String) : List String :=
  let sig := (dedupStr (reqOrder ++ c.sig.opt)).filter fun n => (defOrder c).contains n
  sig ++ (defOrder c).filter fun n => !sig.contains n

end Bridge

/-- the class as a declaration for `construct` (Sem/Validate.lean) and the other value-level
    models; `reqOrder` = order of the required parameters (oracle), `accepts` = names of the
    class and its subclasses -/
def ClassDef.toStruct (c : ClassDef) (reqOrder accepts : List String) : FieldDecl :=
  .struct { name := c.name, required := c.sig.req, addl := c.sig.kwargs, ignoreNone := c.ignoreNone,
            immutable := c.immutable, accepts := accepts, immFields := Bridge.immFields c,
            defOrder := Bridge.defOrder c }
    (Bridge.orderBy (Bridge.sigOrder c reqOrder) (Bridge.fieldDecls c)) (Bridge.defaults c)

def ClassDef.toDecl (c : ClassDef) : FieldDecl := c.toStruct c.sig.req [c.name]

namespace World
/-- names of the classes that have `n` in their MRO (`issubclass(d, n)`) -/
def subclassNames (w : World) (n : String) : List String :=
  (w.classes.filter fun d => d.mro.contains n).map (·.name)

def structOf (w : World) (n : String) (reqOrder : Option (List String) := none) : Option FieldDecl :=
  (w.find n).map fun c => c.toStruct (reqOrder.getD c.sig.req) (w.subclassNames n)
end World

def addConstants (consts : List (String × PyVal)) : PyVal → PyVal
  | .inst n attrs => .inst n (consts ++ attrs)
  | v => v

/-- `AbstractStructure.__init__`: the class is AbstractStructure itself or lists it as a direct base -/
def ClassDef.isAbstract (c : ClassDef) : Bool :=
  c.name == "AbstractStructure" || c.bases.contains "AbstractStructure"

/-- the class options and parameter names of `toStruct` (independent of the orders) -/
def ClassDef.opts (c : ClassDef) : ClassOpts :=
  { name := c.name, required := c.sig.req, addl := c.sig.kwargs, ignoreNone := c.ignoreNone,
    immutable := c.immutable }

/-- a keyword that is neither a field nor a Constant of the class -/
def undeclaredKw (c : ClassDef) (kw : List (String × PyVal)) : Bool :=
  kw.any fun a => !c.fieldNames.contains a.1

/-- keyword arguments restricted to the declared fields of class `b` -/
def restrictKw (b : ClassDef) (kw : List (String × PyVal)) : List (String × PyVal) :=
  kw.filter fun a => (Bridge.defOrder b).contains a.1

/-- the two views of a class agree: every parameter the signature demands is a declared field and
    no declared field is among `_constants`.  Until /repo f0f7ce1 the views could disagree in a diamond
    where one branch declares a name as Constant and another as Field (`getattr` inside
    `StructMeta.__new__`); now it is an invariant of every history (`reachable_bridge_wf`,
    Lemmas/DefineSig.lean) -/
def Bridge.wf (c : ClassDef) : Bool :=
  c.sig.req.all (fun n => (Bridge.defOrder c).contains n)
  && (Bridge.defOrder c).all (fun n => (lookup n c.constants).isNone)

/-- `cls(**kw)`, in the code's order: `AbstractStructure.__init__` refuses; `Signature.bind`
    (missing required parameter, unknown keyword without `**kwargs`: TypeError); every keyword
    collected by `**kwargs` is `setattr`ed, which refuses a non-field when the `_additional_properties`
    the *instance* sees (through the MRO) is off (ValueError); a keyword naming a Constant is refused
    (ValueError); then the declared fields (`construct` of Sem/Validate.lean). -/
def instantiateOrd (O : Oracles) (c : ClassDef) (reqOrder : List String) (kw : List (String × PyVal)) :
    R PyVal :=
  if c.isAbstract then .error .typeErr
  else if !bindOk c.opts (Bridge.defOrder c) kw then .error .typeErr
  else if !c.addl && undeclaredKw c kw then .error .valueErr
  else if kw.any (fun a => (lookup a.1 c.constants).isSome) then .error .valueErr
  else bindE (construct O (c.toStruct reqOrder [c.name]) kw) fun x => .ok (addConstants c.constants x)

def instantiate (O : Oracles) (c : ClassDef) (kw : List (String × PyVal)) : R PyVal :=
  instantiateOrd O c c.sig.req kw

/-- the class-level ways of obtaining an instance of a class -/
inductive Entry where
  /-- `cls(**kw)` -/
  | ctor
  /-- `cls.from_other_class(mapping)` -/
  | fromOther
  /-- `instance_of_a_subclass.cast_to(cls)` -/
  | castTo
  /-- `cls.trust_supplied_values(True); cls(**kw)` -/
  | trustFlag
  /-- `cls.from_trusted_data(**kw)` -/
  | trustedKw
  /-- `cls.from_trusted_data(mapping)` -/
  | trustedMap
  /-- `Deserializer(cls).deserialize(mapping, direct_trusted_mapping=True)` -/
  | deserTrusted
deriving Repr, DecidableEq, Inhabited

namespace Entry
def all : List Entry := [.ctor, .fromOther, .castTo, .trustFlag, .trustedKw, .trustedMap, .deserTrusted]
/-- the entry validates the values (the others store them as supplied) -/
def validates : Entry → Bool
  | .ctor => true
  | .fromOther => true
  | .castTo => true
  | _ => false
def name : Entry → String
  | .ctor => "ctor" | .fromOther => "fromOther" | .castTo => "castTo" | .trustFlag => "trustFlag"
  | .trustedKw => "trustedKw" | .trustedMap => "trustedMap" | .deserTrusted => "deserTrusted"
end Entry

/-- the arguments `cast_to` hands to the constructor: the attributes that are field names, not
    Constants and not None -/
def fieldArgs (c : ClassDef) (kw : List (String × PyVal)) : List (String × PyVal) :=
  kw.filter fun a => c.fieldNames.contains a.1 && (lookup a.1 c.constants).isNone && !a.2.isNone

/-- the arguments `from_other_class(mapping)` hands to the constructor: EVERY field name that is
    not a Constant, with `mapping.get(name)` — `None` for an absent key -/
def mappingArgs (c : ClassDef) (kw : List (String × PyVal)) : List (String × PyVal) :=
  (c.fieldNames.filter fun n => (lookup n c.constants).isNone).map fun n => (n, (lookup n kw).getD .none)

/-- an instance of the class through any entry point.  Every one of them runs
    `AbstractStructure.__init__` first (the trusted ones through `obj.__init__(**kwargs)` with the
    trust flag set), so an abstract class is refused everywhere; the trusted entries then store the
    values as supplied. -/
def instantiateVia (O : Oracles) (c : ClassDef) (reqOrder : List String) (e : Entry)
    (kw : List (String × PyVal)) : R PyVal :=
  if c.isAbstract then .error .typeErr
  else match e with
    | .ctor => instantiateOrd O c reqOrder kw
    | .fromOther => instantiateOrd O c reqOrder (mappingArgs c kw)
    | .castTo => instantiateOrd O c reqOrder (fieldArgs c kw)
    | _ => .ok (.inst c.name kw)

/-- `inst.name = v` on a fresh instance: class-level None handling, then the field's validation -/
def assignField (O : Oracles) (c : ClassDef) (name : String) (v : PyVal) : R (Option PyVal) :=
  match lookup name c.allFields with
  | some (.field d _) =>
    if v.isNone && c.ignoreNone && !c.required.contains name then .ok none
    else bindE (validate O d v) fun y => .ok (some y)
  | _ => .error (.other "not-a-field")

end Typedpy
