/-
  Sem/StubDefine.lean — the stub generator's field → parameter derivation over the CLASS OBJECTS of Sem/Define.lean
  (the model of `StructMeta.__new__` / `get_base_info` / `make_signature` / C3 linearisation that C12/C14 prove
  things about and that the `define` suite corresponds with the code).  Here the runtime side is not re-modelled:
  `(build w src).sig` IS Define's `make_signature`, `(build w src).required` its `_required`, `.constants` its
  `_constants`, `.allFields` its `_field_by_name` — for every world (any hierarchy shape: several bases, shared
  ancestors / diamonds, C3 order).

  Stub side (typedpy/stubs), reading the class object exactly as the generator does:
    * `get_all_type_info`:  `cls.get_all_fields_by_name()` minus `cls._constants`, `= None` iff not in `cls._required`
    * `_get_ordered_args`:  mandatory first
    * `get_init`:           `**kw` iff `getattr(cls, "_additional_properties", additional_properties_default)`
-/
import TypedpyModel.Sem.Define
import TypedpyModel.Sem.Stub
namespace Typedpy.StubD
open Typedpy.Stub (Param orderedArgs mandatoryFirst)

/-- `get_all_type_info` reduced to (name, annotation ends with `= None`) -/
def typeInfoD (c : ClassDef) : List Param :=
  (c.allFields.filter (fun p => (lookup p.1 c.constants).isNone)).map
    (fun p => ⟨p.1, !c.required.contains p.1⟩)

def stubArgsD (c : ClassDef) : List Param := orderedArgs (typeInfoD c)

/-- `getattr(cls, "_additional_properties", <absent>)` of the class being defined: own dict, else the first class of
    the MRO that sets it -/
def addlAttr (w : World) (src : ClassSrc) : Option Bool :=
  src.addl.orElse fun _ => inheritedOpt w (·.ownAddl) (mroTail w src)

def stubKwD (apd : Bool) (w : World) (src : ClassSrc) : Bool := (addlAttr w src).getD apd

/-- the generated `__init__` of the class that `class src.name(src.bases): …` creates in world `w` -/
def stubInitD (apd : Bool) (w : World) (src : ClassSrc) : Stub.Sig := ⟨stubArgsD (build w src), stubKwD apd w src⟩

/-- `**kwargs` of `__signature__` under the runtime default `dflt`: the inherited `getattr` since the repair of the
    findings "inherited-additional-properties*" -/
def sigKwD (dflt : Bool) (w : World) (src : ClassSrc) : Bool := (addlAttr w src).getD dflt

/-- the constructor takes an unknown keyword: `__signature__.bind` needs `**kwargs`, the `__setattr__` guard the
    inherited flag -/
def admitsD (dflt : Bool) (w : World) (src : ClassSrc) : Bool := sigKwD dflt w src && (addlAttr w src).getD dflt

/-- Define's `Sig` as a parameter table -/
def sigParamsD (s : Typedpy.Sig) : List Param := s.req.map (fun n => ⟨n, false⟩) ++ s.opt.map (fun n => ⟨n, true⟩)

/-- the names `make_signature` draws from: the class's own fields and the parameters of the bases' signatures -/
def covered (w : World) (src : ClassSrc) (n : String) : Bool :=
  ((ownMembers src.entries).map (·.1)).contains n || ((basesParams w src).map (·.1)).contains n

def constNamesD (w : World) (src : ClassSrc) : List String := (constantsOf (resolvedFields w src)).map (·.1)

/-- every non-constant name of `_field_by_name` is one `make_signature` draws from, and conversely: holds for tree
    shaped hierarchies; fails when a base's signature dropped a name as its constant while the subclass resolves the
    name to a Field of another branch (see Props/C16.lean `diamond_names_counterexample`) -/
def namesCovered (w : World) (src : ClassSrc) : Bool :=
  ((allFieldsOf w src).map (·.1)).all (fun n => (constNamesD w src).contains n || covered w src n) &&
  (((ownMembers src.entries).map (·.1)) ++ ((basesParams w src).map (·.1))).all
    (fun n => ((allFieldsOf w src).map (·.1)).contains n)

/-- known-finding regions of the `**` clause, as in Props/C16.lean, over Define's world -/
def inheritedOnD (dflt : Bool) (w : World) (src : ClassSrc) : Bool :=
  !dflt && src.addl.isNone && (addlAttr w src == some true)

def inheritedOffD (dflt : Bool) (w : World) (src : ClassSrc) : Bool :=
  dflt && src.addl.isNone && (addlAttr w src == some false)

end Typedpy.StubD
