/-
  Sem/SerdeX.lean — the EXTENSION kinds of (de)serialization: fields with a custom `serialize` /
  `deserialize` pair (SerializableField): `DecimalNumber`, `Enum(..., serialization_by_value=True)`,
  `DateField` / `DateTime`, held bare or inside Optional / Array / Deque / Set / Map / Tuple / nested
  classes.  `FieldDecl` (Core/Field.lean, shared by every property) has no constructor for them, so
  they live in a declaration type of their own, `XDecl`, which embeds every core declaration
  (`XDecl.base`) and re-uses the SAME non-recursive shape functions as the core model (`vSeq`, `sSeq`,
  `dSeq`, `vSet`, `mkSet`, `vMap`, `sMap`, `dMap`, `vTuple`, `sInst`, `dClassRef`, `vConstruct`) — only
  the thin recursive dispatchers are new.

  Mirrors: fields/decimal_number.py, fields/enum.py (serialization_by_value), extfields.py (DateField,
  DateTime), serialization.py (serialize_val / deserialize_single_field: the SerializableField
  branches, serialize_multifield_wrapper / deserialize_multifield_wrapper for `AnyOf[X, NoneField]`).

  What the model is parametric in (`XOracles`, universally quantified in the theorems, supplied per
  case by the harness): `float(Decimal)`, `strptime` and `strftime`.
-/
import TypedpyModel.Sem.Deser
namespace Typedpy
open PyVal (pyEq)

structure XOracles where
  base : Oracles
  /-- `float(d)` of a Decimal: the nearest double, as an exact rational -/
  toFloat : Q → Q
  /-- `datetime.strptime(s, fmt)` (`.date()` for DateField) for value type `ty`: the tag of the value -/
  parse : String → String → String → Option String
  /-- `value.strftime(fmt)` for value type `ty` -/
  format : String → String → String → String
  /-- `type(v).__name__` of the opaque value with the given tag -/
  typeOf : String → String
  /-- the format test a formatted-string field runs on a str (`strptime` succeeds, IPv4 syntax, host name syntax) -/
  fmtOk : String → String → Bool := fun _ _ => true
  /-- `Decimal(s)` of a str: `none` = not modelled (NaN / Infinity), `some none` = not a number
      (InvalidOperation, re-raised as ValueError), `some (some q)` = the finite value -/
  decOfStr : String → Option (Option Q) := fun _ => none

inductive XDecl where
  /-- any core declaration -/
  | base (f : FieldDecl)
  /-- `DecimalNumber(minimum=…, maximum=…, …)` -/
  | decimal (o : NumOpts)
  /-- `Enum(values=cls, serialization_by_value=True)`: member name ↦ member value, in iteration order
      (aliases and the zero member of a Flag are not iterated); `mixin` = the members compare equal to
      their values (IntEnum), so that the constructor's `value in members` accepts the raw value -/
  | enumVal (cls : String) (members : List (String × PyVal)) (mixin : Bool)
  /-- `DateField(date_format=fmt)` (`ty = "date"`, `ints = false`) / `DateTime(datetime_format=fmt)`
      (`ty = "datetime"`, `ints = true`: an int argument passes the type test) -/
  | temporal (ty fmt : String) (ints : Bool)
  /-- `Enum[cls]` (serialized by NAME) over an enum class whose members compare equal to their values
      (`mixin`, e.g. IntEnum): the constructor's `value in members` then also accepts the raw value -/
  | enumName (cls : String) (members : List (String × PyVal)) (mixin : Bool)
  /-- a formatted string: DateString / TimeString / IPV4 / HostName — a `str` that passes the field's
      format test; `strict` = the deserializer only checks the type (String subclasses), else it also tries
      `str(*list)` / `str(**dict)` on an array / object document (TimeString, a TypedField: outside the model) -/
  | fmtStr (kind : String) (strict : Bool)
  /-- `AnyOf[X, NoneField]` -/
  | opt (x : XDecl)
  /-- `AnyOf[X₁, …, Xₙ]` (NoneField = `base .noneF`): the first option that accepts wins, in the constructor, in the
      serializer (after the option's `_validate`, where it has one) and in the deserializer alike -/
  | anyOf (xs : List XDecl)
  | seqOf (k : SeqKind) (x : XDecl)
  | setOf (x : XDecl)
  /-- `Map[String(), X]` -/
  | mapStr (x : XDecl)
  /-- `Tuple[X, Y, …]` (two or more) -/
  | tuplePos (xs : List XDecl)
  /-- a Structure class (ClassReference when nested) -/
  | struct (c : ClassOpts) (fields : List (String × XDecl))
  /-- a Structure class with `_enable_undefined_value = True`: an attribute explicitly set to None is not the same
      as one left out (Undefined): it is serialized as null, and a null in a document is handed to the field -/
  | structU (c : ClassOpts) (fields : List (String × XDecl))
deriving Inhabited

/-! ### shape functions of the extension leaves -/

/-- an error that is not an exception class of the real code but the model's "not modelled here" marker -/
def xOutsideMarkers : List String :=
  ["outside-model:decimal-str", "outside-model:decimal-seq", "outside-model:decimal-ser",
   "outside-model:foreign-member", "outside-model:timestamp", "outside-model:temporal-conversion",
   "outside-model:typedfield-from-list", "outside-model:typedfield-from-dict", "outside-model:mixin-raw-value",
   "outside-model:untyped-structure", "outside-model:float-key", "outside-model:foreign-instance"]

def xOutside : ErrCls → Bool
  | .other n => xOutsideMarkers.contains n     -- (every "outside-model:…" marker the models use; `==` on strings reduces in the kernel)
  | _ => false

/-- `Decimal(value)`: numbers (bool included) convert exactly; None / dict raise TypeError; a str goes
    through Decimal's own parser (an oracle of the model); sequences through its (sign, digits, exponent)
    reading, which the model does not carry -/
def xConvDecimal (XO : XOracles) (v : PyVal) : R Q :=
  match v with
  | .str s => (match XO.decOfStr s with
      | none => .error (.other "outside-model:decimal-str")
      | some none => .error .valueErr
      | some (some q) => .ok q)
  | .list _ => .error (.other "outside-model:decimal-seq")
  | .tuple _ => .error (.other "outside-model:decimal-seq")
  | w => match w.asNum with
    | some q => .ok q
    | none => .error .typeErr

/-- `DecimalNumber.__set__`: convert, then the Number checks on the Decimal -/
def sxDecimal (XO : XOracles) (o : NumOpts) (v : PyVal) : R PyVal :=
  bindE (xConvDecimal XO v) fun q => if numOk o q then .ok (.dec q) else .error .valueErr

/-- `DecimalNumber.deserialize`: convert only (the bounds are the constructor's business) -/
def dDecimal (XO : XOracles) (v : PyVal) : R PyVal :=
  bindE (xConvDecimal XO v) fun q => .ok (.dec q)

/-- `DecimalNumber.serialize`: `float(value)` -/
def sDecimal (XO : XOracles) (v : PyVal) : R PyVal :=
  match v with
  | .dec q => .ok (.float (XO.toFloat q))
  | _ => .error (.other "outside-model:decimal-ser")

/-- the member whose value is `==` to `v` (`value in self._enum_by_value`, a dict lookup) -/
def xFindByValue (ms : List (String × PyVal)) (v : PyVal) : Option String :=
  match ms.find? (fun m => pyEq v m.2) with
  | some m => some m.1
  | none => none

/-- `Enum.deserialize` with serialization_by_value: TypeError for an unhashable document value
    (the dict lookup hashes it), ValueError for a value of no member, else the member -/
def dEnumVal (cls : String) (ms : List (String × PyVal)) (v : PyVal) : R PyVal :=
  if unhashable v then .error .typeErr
  else match xFindByValue ms v with
    | some n => .ok (.enumv cls n)
    | none => .error .valueErr

/-- `Enum.__set__` (by value or not): a member, a member NAME (converted); for a mixin enum anything `==` to
    a member is accepted too and kept as it is (marked outside the model, see below) -/
def vEnumVal (cls : String) (ms : List (String × PyVal)) (mixin : Bool) (v : PyVal) : R PyVal :=
  match v with
  | .str n => if (ms.map (·.1)).contains n then .ok (.enumv cls n) else .error .valueErr
  | .enumv c n => if c == cls && (ms.map (·.1)).contains n then .ok v else .error .valueErr
  | w =>
    -- kept as it is by the real code; the raw value is `==` to the member (True == Level.LOW), which the
    -- model's `pyEq` does not know (a set or a uniqueItems scan holding both would collapse): not modelled
    if mixin && ms.any (fun m => pyEq w m.2) then .error (.other "outside-model:mixin-raw-value") else .error .valueErr

/-- the member values `Enum.serialize` lets through: bool / str / int / float -/
def xScalarJson : PyVal → Bool
  | .bool _ | .str _ | .int _ | .float _ => true
  | _ => false

/-- `Enum.serialize` with serialization_by_value: the member's value (TypeError unless it is a JSON scalar) -/
def sEnumVal (ms : List (String × PyVal)) (v : PyVal) : R PyVal :=
  match v with
  | .enumv _ n => (match lookup n ms with
      | some val => if xScalarJson val then .ok val else .error .typeErr
      | none => .error (.other "outside-model:foreign-member"))
  | _ => .error (.other "AttributeError")

/-- `Enum.serialize` by name: `value.name` -/
def sEnumName (v : PyVal) : R PyVal :=
  match v with
  | .enumv _ n => .ok (.str n)
  | _ => .error (.other "AttributeError")

/-- `Enum.deserialize` by name: a str must be a member name (converted); anything else goes through
    `_validate` and is handed on as it is -/
def dEnumName (cls : String) (ms : List (String × PyVal)) (mixin : Bool) (v : PyVal) : R PyVal :=
  match v with
  | .str n => if (ms.map (·.1)).contains n then .ok (.enumv cls n) else .error .valueErr
  | w => dValidated (vEnumVal cls ms mixin w) w

/-- formatted-string fields: TypeError unless a str, ValueError unless the format test passes -/
def vFmtStr (XO : XOracles) (kind : String) (v : PyVal) : R PyVal :=
  match v with
  | .str s => if XO.fmtOk kind s then .ok v else .error .valueErr
  | _ => .error .typeErr

/-- their deserialization checks the type only (the format is the constructor's business) -/
def dFmtStr (strict : Bool) (v : PyVal) : R PyVal :=
  match v with
  | .str _ => .ok v
  | .list _ => if strict then .error .typeErr else .error (.other "outside-model:typedfield-from-list")
  | .dict _ => if strict then .error .typeErr else .error (.other "outside-model:typedfield-from-dict")
  | _ => .error .typeErr

/-- a temporal value is `.opaque tag` whose Python type is `ty` (`isinstance(value, date)` …) -/
def xIsKind (XO : XOracles) (ty tag : String) : Bool := XO.typeOf tag == ty

/-- `DateField.deserialize` / `DateTime.deserialize`: `strptime` of a str (ValueError when it does not
    parse), TypeError for anything else; DateTime reads an int between 1e9 and 2e9 as a timestamp
    (`fromtimestamp` depends on the local time zone: outside the model) -/
def dTemporal (XO : XOracles) (ty fmt : String) (ints : Bool) (v : PyVal) : R PyVal :=
  match v with
  | .str s => (match XO.parse ty fmt s with
      | some t => .ok (.opaque t)
      | none => .error .valueErr)
  | .int i =>
    if ints && decide (1000000000 < i) && decide (i < 2000000000) then .error (.other "outside-model:timestamp")
    else .error .typeErr
  | _ => .error .typeErr

/-- `DateField.__set__` / `DateTime.__set__`: a value of the kind is kept, a str (an int for DateTime)
    goes through `deserialize`, anything else is a TypeError (a datetime given to a DateField is cut to
    its date: outside the model) -/
def vTemporal (XO : XOracles) (ty fmt : String) (ints : Bool) (v : PyVal) : R PyVal :=
  match v with
  | .opaque t => if xIsKind XO ty t then .ok v else .error (.other "outside-model:temporal-conversion")
  | w => dTemporal XO ty fmt ints w

/-- `value.strftime(format)` -/
def sTemporal (XO : XOracles) (ty fmt : String) (v : PyVal) : R PyVal :=
  match v with
  | .opaque t => .ok (.str (XO.format ty fmt t))
  | _ => .error (.other "AttributeError")

/-- `AnyOf[X, NoneField]` (constructor and deserialization alike): the result of `X` if it accepts,
    else None for None, else ValueError (no option matched) -/
def xOptOf (r : R PyVal) (v : PyVal) : R PyVal :=
  match r with
  | .ok y => .ok y
  | .error e => if xOutside e then .error e else if v.isNone then .ok .none else .error .valueErr

/-- one step of a first-match scan over options: the option's result if it accepts, the model's "not modelled"
    marker at once, else the rest -/
def xFirst (r : R PyVal) (rest : R PyVal) : R PyVal :=
  match r with
  | .ok y => .ok y
  | .error e => if xOutside e then .error e else rest

/-- the `_validate` that serialize_multifield_wrapper runs before it tries an option (`true` where the field has
    none: DateField / DateTime; the collections only look at the container type) -/
def shallowOkX (XO : XOracles) : XDecl → PyVal → Bool
  | .base f, v => shallowOk XO.base f v
  | .decimal o, v => (match v.asNum with | some q => numOk { o with sign := .any } q | none => false)
  | .enumVal cls ms mx, v => (vEnumVal cls ms mx v).toBool
  | .enumName cls ms mx, v => (vEnumVal cls ms mx v).toBool
  | .temporal _ _ _, _ => true
  | .fmtStr _ _, v => (match v with | .str _ => true | _ => false)
  | .opt _, _ => true
  | .anyOf _, _ => true
  | .seqOf k _, v => (seqElems k v).isSome
  | .setOf _, v => (match v with | .set _ _ => true | _ => false)
  | .mapStr _, v => (match v with | .dict _ => true | _ => false)
  | .tuplePos _, v => (match v with | .tuple _ => true | _ => false)
  | .struct c _, v => (vClassRef c v).toBool
  | .structU c _, v => (vClassRef c v).toBool

/-- `serialize_internal` of an instance of an `_enable_undefined_value` class: attributes holding None are written (as null) -/
def sInstU (c : ClassOpts) (v : PyVal) (g : List (String × PyVal) → R (List (PyVal × PyVal))) : R PyVal :=
  match v with
  | .none => .ok .none
  | .inst cn attrs =>
    if !(cn == c.name || c.accepts.contains cn) then .error (.other "outside-model:foreign-instance")
    else bindE (g attrs) fun r => .ok (.dict r)
  | _ => .error (.other "AttributeError")

/-! ### the recursive dispatchers -/

mutual
/-- `field.__set__(fresh_instance, v)` -/
def validateX (XO : XOracles) : XDecl → PyVal → R PyVal
  | .base f, v => validate XO.base f v
  | .decimal o, v => sxDecimal XO o v
  | .enumVal cls ms mx, v => vEnumVal cls ms mx v
  | .temporal ty fmt ints, v => vTemporal XO ty fmt ints v
  | .enumName cls ms mx, v => vEnumVal cls ms mx v
  | .fmtStr kind _, v => vFmtStr XO kind v
  | .opt x, v => xOptOf (validateX XO x v) v
  | .anyOf xs, v => validateAnyX XO xs v
  | .seqOf k x, v => vSeq k {} (fun _ => true) (mapE (validateX XO x)) v
  | .setOf x, v => vSet false {} (mapE (validateX XO x)) v
  | .mapStr x, v =>
    vMap {} (mapE (fun (kv : PyVal × PyVal) =>
      bindE (vString XO.base none none none kv.1) fun k' =>
      bindE (validateX XO x kv.2) fun v' => .ok (k', v'))) v
  | .tuplePos xs, v => vTuple false (fun ys => xs.length == ys.length) (validateZipX XO xs) v
  | .struct c _, v => vClassRef c v
  | .structU c _, v => vClassRef c v
termination_by structural x _ => x
def validateZipX (XO : XOracles) : List XDecl → List PyVal → R (List PyVal)
  | [], ys => .ok ys
  | _ :: _, [] => .ok []
  | x :: xs, y :: ys =>
    bindE (validateX XO x y) fun z => bindE (validateZipX XO xs ys) fun zs => .ok (z :: zs)
termination_by structural xs _ => xs
/-- AnyOf: the first accepting option wins and its stored value is kept -/
def validateAnyX (XO : XOracles) : List XDecl → PyVal → R PyVal
  | [], _ => .error .valueErr
  | x :: xs, v => xFirst (validateX XO x v) (validateAnyX XO xs v)
termination_by structural xs _ => xs
end

/-- the declared-field part of `Structure.__init__` (no defaults in this fragment) -/
def validateFieldsX (XO : XOracles) (c : ClassOpts) (kw : List (String × PyVal)) :
    List (String × XDecl) → R (List (String × PyVal))
  | [] => .ok []
  | (name, x) :: rest =>
    match argFor c [] kw name with
    | none => validateFieldsX XO c kw rest
    | some v =>
      bindE (validateX XO x v) fun y =>
      bindE (validateFieldsX XO c kw rest) fun ys => .ok ((name, y) :: ys)

/-- keyword construction `cls(**kw)` -/
def constructX (XO : XOracles) (cls : XDecl) (kw : List (String × PyVal)) : R PyVal :=
  match cls with
  | .struct c fields => vConstruct c (fields.map (·.1)) kw (validateFieldsX XO c kw fields)
  | .structU c fields => vConstruct c (fields.map (·.1)) kw (validateFieldsX XO c kw fields)
  | _ => .error (.other "not-a-class")

mutual
/-- `serialize_val(field, name, v)` -/
def serX (XO : XOracles) : XDecl → PyVal → R PyVal
  | .base f, v => ser XO.base f v
  | .decimal _, v => sDecimal XO v
  | .enumVal _ ms _, v => sEnumVal ms v
  | .temporal ty fmt _, v => sTemporal XO ty fmt v
  | .enumName _ _ _, v => sEnumName v
  | .fmtStr _ _, v => sScalar v
  | .opt x, v => if v.isNone then .ok .none else serX XO x v
  | .anyOf xs, v => serAnyX XO xs v
  | .seqOf _ x, v => sSeq (mapE (serX XO x)) v
  | .setOf x, v => sSeq (mapE (serX XO x)) v
  | .mapStr x, v =>
    sMap (mapE (fun (kv : PyVal × PyVal) =>
      bindE (sScalar kv.1) fun k' => bindE (serX XO x kv.2) fun v' => .ok (k', v'))) v
  | .tuplePos xs, v => sSeq (serZipX XO xs) v
  | .struct c fields, v =>
    sInst c v (mapE (fun (a : String × PyVal) =>
      bindE (serFieldX XO fields a.1 a.2) fun j => .ok (PyVal.str a.1, j)))
  | .structU c fields, v =>
    sInstU c v (mapE (fun (a : String × PyVal) =>
      bindE (serFieldX XO fields a.1 a.2) fun j => .ok (PyVal.str a.1, j)))
termination_by structural x _ => x
def serZipX (XO : XOracles) : List XDecl → List PyVal → R (List PyVal)
  | [], ys => serAnyList ys
  | _ :: _, [] => .ok []
  | x :: xs, y :: ys => bindE (serX XO x y) fun z => bindE (serZipX XO xs ys) fun zs => .ok (z :: zs)
termination_by structural xs _ => xs
/-- `serialize_multifield_wrapper`: the first option whose `_validate` and serialization succeed -/
def serAnyX (XO : XOracles) : List XDecl → PyVal → R PyVal
  | [], _ => .error .valueErr
  | x :: xs, v => if shallowOkX XO x v then xFirst (serX XO x v) (serAnyX XO xs v) else serAnyX XO xs v
termination_by structural xs _ => xs
def serFieldX (XO : XOracles) : List (String × XDecl) → String → PyVal → R PyVal
  | [], _, v => serAny v
  | (n, x) :: rest, k, v => if k == n then serX XO x v else serFieldX XO rest k v
termination_by structural fields _ _ => fields
end

mutual
/-- `deserialize_single_field(field, v, ignore_none=ign)` -/
def deserX (XO : XOracles) (opts : DeserOpts) (ign : Bool) : XDecl → PyVal → R PyVal
  | .base f, v => deser XO.base opts ign f v
  | .decimal _, v => if v.isNone && ign then .ok v else dDecimal XO v
  | .enumVal cls ms _, v => if v.isNone && ign then .ok v else dEnumVal cls ms v
  | .temporal ty fmt ints, v => if v.isNone && ign then .ok v else dTemporal XO ty fmt ints v
  | .enumName cls ms mx, v => if v.isNone && ign then .ok v else dEnumName cls ms mx v
  | .fmtStr _ strict, v => if v.isNone && ign then .ok v else dFmtStr strict v
  | .opt x, v => if v.isNone && ign then .ok v else xOptOf (deserX XO opts false x v) v
  | .anyOf xs, v => if v.isNone && ign then .ok v else deserAnyX XO opts xs v
  | .seqOf k x, v =>
    if v.isNone && ign then .ok v
    else dSeq (fun ys => .ok (mkSeq k ys)) (fun ys => toValueErr (mapE (deserX XO opts false x) ys)) v
  | .setOf x, v =>
    if v.isNone && ign then .ok v
    else dSeq mkSet (fun ys => toValueErr (mapE (deserX XO opts false x) ys)) v
  | .mapStr x, v =>
    if v.isNone && ign then .ok v
    else dMap (mapE (fun (kv : PyVal × PyVal) =>
      bindE (deserX XO opts false x kv.2) fun v' =>
      bindE (dValidated (vString XO.base none none none kv.1) kv.1) fun k' => .ok (k', v'))) v
  | .tuplePos xs, v =>
    if v.isNone && ign then .ok v
    else dSeq (fun ys => .ok (.tuple ys)) (fun ys => toValueErr (deserZipX XO opts xs ys)) v
  | .struct c fields, v =>
    if v.isNone && ign then .ok v
    else dClassRef v (!keepsExtras opts c)
      (fun kw => bindE (deserFieldsX XO opts c kw fields) fun _ => .ok ()) fun kw =>
      bindE (bindE (deserFieldsX XO opts c kw fields)
        (fun args => .ok (deserExtras opts c (fields.map (·.1)) kw ++ args))) fun args =>
      vConstruct c (fields.map (·.1)) args (validateFieldsX XO c args fields)
  | .structU c fields, v =>
    if v.isNone && ign then .ok v
    else dClassRef v (!keepsExtras opts c)
      (fun kw => bindE (deserFieldsXU XO opts c kw fields) fun _ => .ok ()) fun kw =>
      bindE (bindE (deserFieldsXU XO opts c kw fields)
        (fun args => .ok (deserExtras opts c (fields.map (·.1)) kw ++ args))) fun args =>
      vConstruct c (fields.map (·.1)) args (validateFieldsX XO c args fields)
termination_by structural x _ => x
def deserZipX (XO : XOracles) (opts : DeserOpts) : List XDecl → List PyVal → R (List PyVal)
  | [], ys => .ok ys
  | _ :: _, [] => .error .valueErr
  | x :: xs, y :: ys =>
    bindE (deserX XO opts false x y) fun z => bindE (deserZipX XO opts xs ys) fun zs => .ok (z :: zs)
termination_by structural xs _ => xs
/-- AnyOf: the first option that deserializes -/
def deserAnyX (XO : XOracles) (opts : DeserOpts) : List XDecl → PyVal → R PyVal
  | [], _ => .error .valueErr
  | x :: xs, v => xFirst (deserX XO opts false x v) (deserAnyX XO opts xs v)
termination_by structural xs _ => xs
/-- `construct_fields_map` over the declared fields: a null is the same as an absent key -/
def deserFieldsX (XO : XOracles) (opts : DeserOpts) (c : ClassOpts) (doc : List (String × PyVal)) :
    List (String × XDecl) → R (List (String × PyVal))
  | [] => .ok []
  | (name, x) :: rest =>
    match lookup name doc with
    | none => deserFieldsX XO opts c doc rest
    | some v =>
      if v.isNone then deserFieldsX XO opts c doc rest else
      match deserX XO opts c.ignoreNone x v with
      | .ok y => bindE (deserFieldsX XO opts c doc rest) fun ys => .ok ((name, y) :: ys)
      | .error e => .error e
termination_by structural fs => fs
/-- the same for an `_enable_undefined_value` class: a null is processed like any other value -/
def deserFieldsXU (XO : XOracles) (opts : DeserOpts) (c : ClassOpts) (doc : List (String × PyVal)) :
    List (String × XDecl) → R (List (String × PyVal))
  | [] => .ok []
  | (name, x) :: rest =>
    match lookup name doc with
    | none => deserFieldsXU XO opts c doc rest
    | some v =>
      match deserX XO opts c.ignoreNone x v with
      | .ok y => bindE (deserFieldsXU XO opts c doc rest) fun ys => .ok ((name, y) :: ys)
      | .error e => .error e
termination_by structural fs => fs
end

/-- `Deserializer(cls).deserialize(doc)` -/
def deserializeX (XO : XOracles) (opts : DeserOpts) (cls : XDecl) (doc : PyVal) : R PyVal :=
  match cls, doc with
  | .struct c fields, .dict kvs => deserX XO opts false (.struct c fields) (.dict kvs)
  | .struct _ _, _ => .error .typeErr
  | .structU c fields, .dict kvs => deserX XO opts false (.structU c fields) (.dict kvs)
  | .structU _ _, _ => .error .typeErr
  | _, _ => .error (.other "not-a-class")

/-- `Serializer(x).serialize()` -/
def serializeX (XO : XOracles) (cls : XDecl) (x : PyVal) : R PyVal := serX XO cls x

/-! ### compact single-field wrappers -/

/-- the single field of a compact wrapper class: exactly one field, required, additional properties off -/
def xCompactField : XDecl → Option (String × XDecl)
  | .struct c [(n, x)] => if c.required == [n] && !c.addl then some (n, x) else none
  | _ => none

/-- `Serializer(x).serialize(compact=True)`: a compact wrapper serializes to the serialized form of its field -/
def serializeCompactX (XO : XOracles) (cls : XDecl) (v : PyVal) : R PyVal :=
  match xCompactField cls, v with
  | some (n, x), .inst _ attrs =>
    (match lookup n attrs with
      | some w => serX XO x w
      | none => .error (.other "AttributeError"))
  | _, _ => serializeX XO cls v

/-- `Deserializer(cls).deserialize(d)` with compact deserialization on: a document that is not an object is
    read by the single field of a compact wrapper and handed to the constructor -/
def deserializeCompactX (XO : XOracles) (opts : DeserOpts) (cls : XDecl) (d : PyVal) : R PyVal :=
  match cls, d with
  | .struct _ _, .dict _ => deserializeX XO opts cls d
  | .struct c fields, d' =>
    (match xCompactField (.struct c fields) with
      | some (n, x) => bindE (deserX XO opts c.ignoreNone x d') fun y => constructX XO (.struct c fields) [(n, y)]
      | none => deserializeX XO opts cls d')
  | _, _ => deserializeX XO opts cls d

end Typedpy
