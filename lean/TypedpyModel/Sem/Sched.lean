/-
  Sem/Sched.lean — small-step interleaving semantics of N thread programs over a shared store of
  scratch cells (C20).

  What is modelled (read off typedpy/fields/array.py extract_field_value / Array.__set__, set_field.py Set.__set__ /
  ImmutableSet.__set__, map_field.py Map.__set__, tuple_field.py Tuple.__set__, deque_field.py Deque.__set__,
  multified_wrappers.py AllOf / AnyOf / OneOf / NotField.__set__):

  * a *cell* is one attribute of one Field object that is reachable from a class and therefore shared by
    every instance and every thread (the `_name` attribute of an item / key / value / option field);
  * a *name expression* `Nm` is what the code uses as a key / in a message: a constant (the owner field's own,
    never rewritten, name), the current content of a cell, or that content with a suffix (`self._name + "_3"` where
    `self` is itself a nested item whose `_name` is scratch);
  * validating a value is a straight-line *program* of steps, each with at most ONE shared access (the granularity at
    which CPython can pre-empt: between the load of `x._name` and whatever uses it):
        `setattr(cell, "_name", n)`                              ↦ `write cell n`
        `temp_st = Structure()`                                  ↦ `newTemp`
        `item.__set__(temp_st, v)`   (validate, then `temp_st.__dict__[item._name] = v`, or raise
                                      an error whose message starts with `item._name`)
                                                                 ↦ `store n v valid`
        `res.append(getattr(temp_st, getattr(item, "_name")))`   ↦ `load n`
        `option.__set__(scratch, v)` (the stored value is dropped; only the error, named by `option._name`, counts)
                                                                 ↦ `check n ok`
        `super().__set__(inst, inst.__dict__[self._name])`       ↦ `move src dst`
    where `n` is evaluated against the shared store *at that moment*;
  * the thread-private part of a thread is its remaining program, its temp structure, the result built so far
    and the exception that ended it (if any);
  * a schedule is a list of thread ids; scheduling a finished (or non-existent) thread is a no-op;
  * `instFrom` gives every program its cells: a cell of a site that the generated shared-write table lists as unsafe
    is the shared Field object of the class definition; a cell of a site without such a row is a thread-private copy
    (the validator works on its own renamed copy of the Field object).

  Nothing here knows about locks: there are none in the code.
-/
import TypedpyModel.Sem.SharedWrite
namespace Typedpy.Sched

/-- how a thread program can end abnormally -/
inductive Err where
  /-- the element was rejected; the message names the field `name` (TypeError / ValueError) -/
  | invalid (name : String)
  /-- `getattr(temp_st, name)` / `inst.__dict__[name]` failed: AttributeError / KeyError naming `name` -/
  | missing (name : String)
  deriving DecidableEq, Repr

/-- what a thread's operation returned or raised -/
inductive Outcome where
  | ok (out : List Int)
  | raised (e : Err)
  deriving DecidableEq, Repr

/-- the shared store: cell ↦ current content of the scratch attribute -/
abbrev Shared := Nat → String

def Shared.set (sh : Shared) (c : Nat) (n : String) : Shared := fun c' => if c' = c then n else sh c'

def Shared.ofList (l : List (Nat × String)) : Shared := fun c =>
  match l.lookup c with
  | some n => n
  | none => ""

/-- a name as the code computes it at some point -/
inductive Nm where
  /-- a name that no thread rewrites (the `_name` of a field of the class itself) -/
  | const (s : String)
  /-- the current content of a shared cell -/
  | cell (c : Nat)
  /-- the current content of a shared cell, with a suffix appended -/
  | cellSuf (c : Nat) (suffix : String)
  deriving DecidableEq, Repr

def Nm.eval (sh : Shared) : Nm → String
  | .const s => s
  | .cell c => sh c
  | .cellSuf c suf => sh c ++ suf

/-- cells a name expression reads -/
def Nm.cells : Nm → List Nat
  | .const _ => []
  | .cell c => [c]
  | .cellSuf c _ => [c]

inductive Step where
  | write (dst : Nat) (n : Nm)
  | newTemp
  | store (n : Nm) (v : Int) (valid : Bool)
  | load (n : Nm)
  /-- `temp[dst] := temp[src]` (KeyError naming `src` when absent) -/
  | move (src dst : Nm)
  /-- a validation whose stored value is dropped: nothing when `ok`, else an error named `n` -/
  | check (n : Nm) (ok : Bool)
  /-- thread-private step (surplus positional items are appended unvalidated) -/
  | emit (v : Int)
  deriving DecidableEq, Repr

/-- the three step forms of the collection validators (constant written name, plain cell reads) -/
abbrev Step.writeShared (cell : Nat) (name : String) : Step := .write cell (.const name)
abbrev Step.storeTemp (cell : Nat) (v : Int) (valid : Bool) : Step := .store (.cell cell) v valid
abbrev Step.loadTemp (cell : Nat) : Step := .load (.cell cell)

def Step.writesShared : Step → Bool
  | .write _ _ => true
  | _ => false

/-- cells a step writes -/
def Step.writeCells : Step → List Nat
  | .write c _ => [c]
  | _ => []

/-- cells a step reads -/
def Step.readCells : Step → List Nat
  | .write _ n => n.cells
  | .store n _ _ => n.cells
  | .load n => n.cells
  | .move a b => a.cells ++ b.cells
  | .check n ok => if ok then [] else n.cells   -- an accepted scratch validation leaves no trace of the name it ran under
  | _ => []

def writeCells (p : List Step) : List Nat := p.flatMap Step.writeCells
def readCells (p : List Step) : List Nat := p.flatMap Step.readCells

/-- thread-private state -/
structure TState where
  prog : List Step
  temp : List (String × Int) := []
  out : List Int := []
  err : Option Err := none
  deriving DecidableEq, Repr

def TState.init (p : List Step) : TState := { prog := p }

def TState.done (t : TState) : Bool := t.err.isSome || t.prog.isEmpty

/-- what the thread's operation returned / raised, once it has finished -/
def TState.result (t : TState) : Option Outcome :=
  match t.err with
  | some e => some (.raised e)
  | none => if t.prog.isEmpty then some (.ok t.out) else none

/-- effect of one step on the shared store -/
def Step.shared (s : Step) (sh : Shared) : Shared :=
  match s with
  | .write c n => sh.set c (n.eval sh)
  | _ => sh

/-- effect of one step on the thread-private state, given the shared store it runs against -/
def Step.local (s : Step) (sh : Shared) (rest : List Step) (t : TState) : TState :=
  match s with
  | .write _ _ => { t with prog := rest }
  | .newTemp => { t with prog := rest, temp := [] }
  | .store n v valid =>
    if valid then { t with prog := rest, temp := (n.eval sh, v) :: t.temp }
    else { t with prog := rest, err := some (.invalid (n.eval sh)) }
  | .load n =>
    match t.temp.lookup (n.eval sh) with
    | some v => { t with prog := rest, out := t.out ++ [v] }
    | none => { t with prog := rest, err := some (.missing (n.eval sh)) }
  | .move a b =>
    match t.temp.lookup (a.eval sh) with
    | some v => { t with prog := rest, temp := (b.eval sh, v) :: t.temp }
    | none => { t with prog := rest, err := some (.missing (a.eval sh)) }
  | .check n ok =>
    if ok then { t with prog := rest } else { t with prog := rest, err := some (.invalid (n.eval sh)) }
  | .emit v => { t with prog := rest, out := t.out ++ [v] }

/-- one step of one thread -/
def stepT (sh : Shared) (t : TState) : Shared × TState :=
  match t.err, t.prog with
  | some _, _ => (sh, t)
  | none, [] => (sh, t)
  | none, s :: rest => (s.shared sh, s.local sh rest t)

structure Cfg where
  shared : Shared
  threads : List TState

/-- schedule thread `i` for one step -/
def stepAt (cfg : Cfg) (i : Nat) : Cfg :=
  match cfg.threads[i]? with
  | none => cfg
  | some t =>
    let r := stepT cfg.shared t
    { shared := r.1, threads := cfg.threads.set i r.2 }

def run (cfg : Cfg) (sched : List Nat) : Cfg := sched.foldl stepAt cfg

/-- thread `t` running alone for `n` steps from store `sh` -/
def alone (sh : Shared) (t : TState) : Nat → Shared × TState
  | 0 => (sh, t)
  | n + 1 => let r := stepT sh t; alone r.1 r.2 n

/-- the result of the program when nothing else runs -/
def sequentialResult (sh : Shared) (p : List Step) : Option Outcome :=
  (alone sh (TState.init p) p.length).2.result

def Cfg.init (sh : Shared) (progs : List (List Step)) : Cfg :=
  { shared := sh, threads := progs.map TState.init }

/-- result of thread `i` after the schedule (none: not finished yet) -/
def resultAt (cfg : Cfg) (i : Nat) : Option Outcome :=
  match cfg.threads[i]? with
  | none => none
  | some t => t.result

/-! ### programs of the collection validators, instantiated per site kind -/

def elemName (name : String) (i : Nat) : String := name ++ "_" ++ toString i

/-- `extract_field_value` (Array[X], Deque[X]; `initW = true`) and homogeneous `Tuple[X]` (`initW = false`):
    one shared item field, one temp structure (created after the optional first write) for the whole value -/
def progHomogFrom (cell : Nat) (name : String) : Nat → List (Int × Bool) → List Step
  | _, [] => []
  | i, (v, ok) :: rest =>
    .writeShared cell (elemName name i) :: .storeTemp cell v ok :: .loadTemp cell :: progHomogFrom cell name (i + 1) rest

def progHomog (cell : Nat) (name : String) (initW : Bool) (elems : List (Int × Bool)) : List Step :=
  (if initW then [.writeShared cell name] else []) ++ .newTemp :: progHomogFrom cell name 0 elems

/-- `Set.__set__`: the name is written once, a fresh temp structure per element -/
def progSetFrom (cell : Nat) : List (Int × Bool) → List Step
  | [] => []
  | (v, ok) :: rest => .newTemp :: .storeTemp cell v ok :: .loadTemp cell :: progSetFrom cell rest

def progSet (cell : Nat) (name : String) (elems : List (Int × Bool)) : List Step :=
  .writeShared cell name :: progSetFrom cell elems

/-- `Map.__set__`: key cell `kc`, value cell `vc`; the read-back statement evaluates the value side first -/
def progMapFrom (kc vc : Nat) : List ((Int × Bool) × (Int × Bool)) → List Step
  | [] => []
  | ((k, kok), (v, vok)) :: rest =>
    .newTemp :: .storeTemp kc k kok :: .storeTemp vc v vok :: .loadTemp vc :: .loadTemp kc :: progMapFrom kc vc rest

def progMap (kc vc : Nat) (name : String) (entries : List ((Int × Bool) × (Int × Bool))) : List Step :=
  .writeShared kc (name ++ "_key") :: .writeShared vc (name ++ "_value") :: progMapFrom kc vc entries

/-- positional items (`Array(items=[..])`, `Deque(items=[..])`, `Tuple[A, B, ..]`): cell `base + i` per index;
    elements beyond `n` declared items are appended unvalidated -/
def progPosFrom (base : Nat) (name : String) (n : Nat) : Nat → List (Int × Bool) → List Step
  | _, [] => []
  | i, (v, ok) :: rest =>
    if i < n then
      .writeShared (base + i) (elemName name i) :: .storeTemp (base + i) v ok :: .loadTemp (base + i)
        :: progPosFrom base name n (i + 1) rest
    else .emit v :: progPosFrom base name n (i + 1) rest

def progPos (base : Nat) (name : String) (n : Nat) (elems : List (Int × Bool)) : List Step :=
  .newTemp :: progPosFrom base name n 0 elems

/-- `ImmutableSet.__set__`: like `Set.__set__` with one more (unused) temp structure before the name is written; it then
    hands the frozenset to `Set.__set__` (`super().__set__`), which validates every element once more -/
def progISet (cell : Nat) (name : String) (elems : List (Int × Bool)) : List Step :=
  .newTemp :: progSet cell name elems ++ progSet cell name elems

/-! ### programs of the multi-field wrappers (multified_wrappers.py); `own` is the wrapper's own name, `opts` the option
    Field objects (cell, does the option accept the value) in declaration order.  An option validates on a scratch
    structure (`check`); only its error - named by the option's `_name` AT THAT MOMENT - can be observed. -/

/-- what a wrapper does once an option (cell `c`) is to store the value (`AnyOf`; in tree b6495fe also `AllOf` / `OneOf`): `option.__set__(instance, value)` stores on the real instance UNDER THE OPTION's `_name`, the wrapper
    reads it back under its own name (`instance.__dict__[self._name]`) and stores that -/
def storeThrough (own : Nm) (v : Int) (c : Nat) : List Step :=
  [.store (.cell c) v true, .move own own, .load own]

/-- `AllOf.__set__`: every option must accept (scratch validation); then the value is stored under the wrapper's own name -/
def progAllOfFrom (own : Nm) : List (Nat × Bool) → List Step
  | [] => []
  | (c, ok) :: rest => .write c own :: .check (.cell c) ok :: progAllOfFrom own rest

def progAllOf (own : Nm) (v : Int) (opts : List (Nat × Bool)) : List Step :=
  progAllOfFrom own opts ++ [.store own v true, .load own]

/-- the `AllOf.__set__` of tree b6495fe (fix 95931f6, replaced by 89fd84a): the FIRST option stores the value on the real
    instance.  Kept as a model variant: the harness selects it when the translator finds such a call in the site function. -/
def progAllOfThrough (own : Nm) (v : Int) (opts : List (Nat × Bool)) : List Step :=
  progAllOfFrom own opts ++
    (match opts with
     | [] => [.store own v true, .load own]
     | (c, _) :: _ => storeThrough own v c)

/-- `AnyOf.__set__`: options are tried in order (errors swallowed); the first that accepts then stores the value on the
    real instance UNDER ITS OWN `_name` (`matched.__set__(instance, value)`), and the wrapper reads it back under the
    wrapper's name (`instance.__dict__[self._name]`) -/
def progAnyOf (own : Nm) (v : Int) : List (Nat × Bool) → List Step
  | [] => [.check own false]
  | (c, ok) :: rest =>
    .write c own :: .check (.cell c) true ::
      (if ok then storeThrough own v c else progAnyOf own v rest)

/-- `OneOf.__set__`: every option is tried (errors swallowed); exactly one must accept -/
def progOneOfFrom (own : Nm) : List (Nat × Bool) → List Step
  | [] => []
  | (c, _) :: rest => .write c own :: .check (.cell c) true :: progOneOfFrom own rest

def progOneOf (own : Nm) (v : Int) (opts : List (Nat × Bool)) : List Step :=
  progOneOfFrom own opts ++
    (if (opts.filter fun o => o.2).length == 1 then [.store own v true, .load own] else [.check own false])

/-- the `OneOf.__set__` of tree b6495fe: the one option that accepted stores the value (model variant, see progAllOfThrough) -/
def progOneOfThrough (own : Nm) (v : Int) (opts : List (Nat × Bool)) : List Step :=
  progOneOfFrom own opts ++
    (match opts.filter fun o => o.2 with
     | [(c, _)] => storeThrough own v c
     | _ => [.check own false])

/-- `NotField.__set__`: no option may accept -/
def progNotField (own : Nm) (v : Int) : List (Nat × Bool) → List Step
  | [] => [.store own v true, .load own]
  | (c, ok) :: rest =>
    .write c own :: .check (.cell c) true :: (if ok then [.check own false] else progNotField own v rest)

inductive WKind where
  | allOf | anyOf | oneOf | notField
  /-- variants in which the accepting option stores the value on the real instance (tree b6495fe) -/
  | allOfThrough | oneOfThrough
  deriving DecidableEq, Repr

/-- the program of a multi-field wrapper whose own name is `own` -/
def wrapProg (kind : WKind) (own : Nm) (v : Int) (opts : List (Nat × Bool)) : List Step :=
  match kind with
  | .allOf => progAllOf own v opts
  | .anyOf => progAnyOf own v opts
  | .oneOf => progOneOf own v opts
  | .notField => progNotField own v opts
  | .allOfThrough => progAllOfThrough own v opts
  | .oneOfThrough => progOneOfThrough own v opts

/-- `Array[W[...]]` / `Deque[W[...]]` (extract_field_value) whose single items object is a multi-field wrapper `W` (cell
    `cW`): the wrapper's OWN name is the scratch cell of the outer loop; per element the outer writes `name_i` into it,
    calls `W.__set__(temp_st, v)` - which renames its options after the CURRENT content of `cW`, reports errors under it and
    stores the value under it - and reads the element back under it (the wrapper program's final `load own`). -/
def progNestFrom (cW : Nat) (name : String) (kind : WKind) : Nat → List (Int × List (Nat × Bool)) → List Step
  | _, [] => []
  | i, (v, opts) :: rest =>
    .write cW (.const (elemName name i)) :: .check (.cell cW) true ::
      (wrapProg kind (.cell cW) v opts ++ progNestFrom cW name kind (i + 1) rest)

def progNest (cW : Nat) (name : String) (kind : WKind) (elems : List (Int × List (Nat × Bool))) : List Step :=
  .write cW (.const name) :: .newTemp :: progNestFrom cW name kind 0 elems

end Typedpy.Sched

namespace Typedpy.Sched

/-- one validation call of a collection / multi-field wrapper field, as the harness describes it on the wire -/
inductive Call where
  | homog (cell : Nat) (name : String) (initW : Bool) (elems : List (Int × Bool))
  | set (cell : Nat) (name : String) (elems : List (Int × Bool))
  | iset (cell : Nat) (name : String) (elems : List (Int × Bool))
  | map (kc vc : Nat) (name : String) (entries : List ((Int × Bool) × (Int × Bool)))
  | pos (base : Nat) (name : String) (n : Nat) (elems : List (Int × Bool))
  | wrap (kind : WKind) (name : String) (v : Int) (opts : List (Nat × Bool))
  /-- `Array[W[..]]` / `Deque[W[..]]` with a multi-field wrapper as the single items object (cell `cW`); per element the
      value and, per option, (cell, accepted) -/
  | nest (cW : Nat) (name : String) (kind : WKind) (elems : List (Int × List (Nat × Bool)))
  deriving Repr

def Call.prog : Call → List Step
  | .homog c n w es => progHomog c n w es
  | .set c n es => progSet c n es
  | .iset c n es => progISet c n es
  | .map kc vc n es => progMap kc vc n es
  | .pos b n k es => progPos b n k es
  | .wrap .allOf n v os => progAllOf (.const n) v os
  | .wrap .anyOf n v os => progAnyOf (.const n) v os
  | .wrap .oneOf n v os => progOneOf (.const n) v os
  | .wrap .notField n v os => progNotField (.const n) v os
  | .wrap .allOfThrough n v os => progAllOfThrough (.const n) v os
  | .wrap .oneOfThrough n v os => progOneOfThrough (.const n) v os
  | .nest cW n k es => progNest cW n k es

/-- decidable conflict freedom: no program writes a cell that another program reads -/
def disjointB (ws rs : List Nat) : Bool := ws.all fun c => !rs.contains c

def conflictFreeB (progs : List (List Step)) : Bool :=
  (List.range progs.length).all fun i => (List.range progs.length).all fun j =>
    i == j || disjointB (writeCells (progs.getD j [])) (readCells (progs.getD i []))

/-- the scratch cells (Field objects) a validation call goes through -/
def Call.usesCell (c : Nat) : Call → Bool
  | .homog cell _ _ _ => c == cell
  | .set cell _ _ => c == cell
  | .iset cell _ _ => c == cell
  | .map kc vc _ _ => c == kc || c == vc
  | .pos base _ n _ => decide (base ≤ c) && decide (c < base + n)
  | .wrap _ _ _ opts => (opts.map fun o => o.1).contains c
  | .nest cW _ _ elems => c == cW || elems.any fun e => (e.2.map fun o => o.1).contains c

/-! ### same-value writes (threads on the SAME field write the same name) -/

/-- every read of a cell in the program comes after a write of that cell by the same program (`w`: cells written so far) -/
def readsAfterOwnWrite : List Nat → List Step → Bool
  | _, [] => true
  | w, s :: rest => s.readCells.all (fun c => w.contains c) && readsAfterOwnWrite (s.writeCells ++ w) rest

/-- every write of the program stores the constant `k c` into cell `c` -/
def uniformB (k : Nat → String) (p : List Step) : Bool :=
  p.all fun s => match s with
    | .write c n => n == .const (k c)
    | _ => true


/-! ### which Field objects are shared: follow the generated shared-write table

  A validator site that the table lists with an unsafe value that is READ BACK works on the Field object of the class
  definition: one cell for all threads.  A site without such a row works on a private renamed copy of the Field object
  (`_named_copy`): every call gets its own cell.  `instFrom` renames the cells of the i-th program accordingly
  (shared cell `c` ↦ `2c`, private copy of `c` in program `i` of `N` ↦ `2(cN+i)+1`). -/

def Nm.rename (f : Nat → Nat) : Nm → Nm
  | .const s => .const s
  | .cell c => .cell (f c)
  | .cellSuf c suf => .cellSuf (f c) suf

def Step.rename (f : Nat → Nat) : Step → Step
  | .write c n => .write (f c) (n.rename f)
  | .newTemp => .newTemp
  | .store n v ok => .store (n.rename f) v ok
  | .load n => .load (n.rename f)
  | .move a b => .move (a.rename f) (b.rename f)
  | .check n ok => .check (n.rename f) ok
  | .emit v => .emit v

def renameProg (f : Nat → Nat) (p : List Step) : List Step := p.map (Step.rename f)

def sharedCell (c : Nat) : Nat := 2 * c
def privCell (N i c : Nat) : Nat := 2 * (c * N + i) + 1

def cellMap (priv : Nat → Bool) (N i c : Nat) : Nat := if priv c then privCell N i c else sharedCell c

def instFrom (priv : Nat → Bool) (N : Nat) : Nat → List (List Step) → List (List Step)
  | _, [] => []
  | i, p :: rest => renameProg (cellMap priv N i) p :: instFrom priv N (i + 1) rest

/-- the initial store of instantiated programs: the shared cell and every private copy of `c` start with what the
    Field object `c` holds (a copy is made from the object of the class definition) -/
def instStore (N : Nat) (sh : Shared) : Shared := fun x => if x % 2 = 0 then sh (x / 2) else sh ((x / 2) / N)

/-- the table has a row for site `key` whose written value differs between threads and is read back -/
def siteRacy (tbl : List SharedWrite) (key : String) : Bool :=
  tbl.any fun r => r.key == key && !r.safe && r.readBack

/-- `sites`: which validator sites write which cell (supplied with the calls; the driver rejects calls that use a cell
    without a site); a cell is private iff none of its sites is racy -/
def tablePriv (tbl : List SharedWrite) (sites : List (Nat × String)) (c : Nat) : Bool :=
  sites.all fun p => p.1 != c || !siteRacy tbl p.2

/-- the thread programs of concurrent calls on a tree whose shared-write table is `tbl` -/
def modelProgs (tbl : List SharedWrite) (sites : List (Nat × String)) (calls : List Call) : List (List Step) :=
  instFrom (tablePriv tbl sites) calls.length 0 (calls.map Call.prog)

/-- a step that touches a cell shared between threads, or starts a new temp structure: what the harness can observe as
    an event of the real code (private cells have odd numbers) -/
def Nm.sharedB : Nm → Bool
  | .const _ => false
  | .cell c => c % 2 == 0
  | .cellSuf c _ => c % 2 == 0

def Step.isEvent : Step → Bool
  | .write c _ => c % 2 == 0
  | .newTemp => true
  | .store n _ _ => n.sharedB
  | .load n => n.sharedB
  | .move a b => a.sharedB || b.sharedB
  | .check n _ => n.sharedB
  | .emit _ => false

end Typedpy.Sched
