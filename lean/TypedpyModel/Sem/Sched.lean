/-
  Sem/Sched.lean — small-step interleaving semantics of N thread programs over a shared store of
  scratch cells (C20).

  What is modelled (read off typedpy/fields/array.py:22-31, set_field.py:78-84, map_field.py:70-83,
  tuple_field.py:101-109, array.py:153-159, deque_field.py:93-99):

  * a *cell* is one attribute of one Field object that is reachable from a class and therefore shared by
    every instance and every thread (the `_name` attribute of an item / key / value / option field);
  * validating a collection value is a straight-line *program* of steps
        `setattr(cell, "_name", n)`                              ↦ `writeShared cell n`
        `temp_st = Structure()`                                  ↦ `newTemp`
        `item.__set__(temp_st, v)`   (validate, then `temp_st.__dict__[item._name] = v`, or raise
                                      an error whose message starts with `item._name`)
                                                                 ↦ `storeTemp cell v valid`
        `res.append(getattr(temp_st, getattr(item, "_name")))`   ↦ `loadTemp cell`
    where store and load use the name that is in the shared cell *at that moment*;
  * the thread-private part of a thread is its remaining program, its temp structure, the result built so far
    and the exception that ended it (if any);
  * a schedule is a list of thread ids; scheduling a finished (or non-existent) thread is a no-op.

  Nothing here knows about locks: there are none in the code.
-/
namespace Typedpy.Sched

/-- how a thread program can end abnormally -/
inductive Err where
  /-- the element was rejected; the message names the field `name` (TypeError / ValueError) -/
  | invalid (name : String)
  /-- `getattr(temp_st, name)` failed: AttributeError naming `name` -/
  | missing (name : String)
  deriving DecidableEq, Repr

/-- what a thread's operation returned or raised -/
inductive Outcome where
  | ok (out : List Int)
  | raised (e : Err)
  deriving DecidableEq, Repr

inductive Step where
  | writeShared (cell : Nat) (name : String)
  | newTemp
  | storeTemp (cell : Nat) (v : Int) (valid : Bool)
  | loadTemp (cell : Nat)
  /-- thread-private step (surplus positional items are appended unvalidated) -/
  | emit (v : Int)
  deriving DecidableEq, Repr

def Step.writesShared : Step → Bool
  | .writeShared _ _ => true
  | _ => false

/-- cells a step writes -/
def Step.writeCells : Step → List Nat
  | .writeShared c _ => [c]
  | _ => []

/-- cells a step reads -/
def Step.readCells : Step → List Nat
  | .storeTemp c _ _ => [c]
  | .loadTemp c => [c]
  | _ => []

def writeCells (p : List Step) : List Nat := p.flatMap Step.writeCells
def readCells (p : List Step) : List Nat := p.flatMap Step.readCells

/-- the shared store: cell ↦ current content of the scratch attribute -/
abbrev Shared := Nat → String

def Shared.set (sh : Shared) (c : Nat) (n : String) : Shared := fun c' => if c' = c then n else sh c'

def Shared.ofList (l : List (Nat × String)) : Shared := fun c =>
  match l.lookup c with
  | some n => n
  | none => ""

/-- thread-private state -/
structure TState where
  prog : List Step
  temp : List (String × Int) := []
  out : List Int := []
  err : Option Err := none
  deriving DecidableEq, Repr

def TState.init (p : List Step) : TState := { prog := p }

def TState.done (t : TState) : Bool := t.err.isSome || t.prog.isEmpty

/-- what the thread's operation returned / raised, once it has finished -/
def TState.result (t : TState) : Option Outcome :=
  match t.err with
  | some e => some (.raised e)
  | none => if t.prog.isEmpty then some (.ok t.out) else none

/-- effect of one step on the shared store -/
def Step.shared (s : Step) (sh : Shared) : Shared :=
  match s with
  | .writeShared c n => sh.set c n
  | _ => sh

/-- effect of one step on the thread-private state, given the shared store it runs against -/
def Step.local (s : Step) (sh : Shared) (rest : List Step) (t : TState) : TState :=
  match s with
  | .writeShared _ _ => { t with prog := rest }
  | .newTemp => { t with prog := rest, temp := [] }
  | .storeTemp c v valid =>
    if valid then { t with prog := rest, temp := (sh c, v) :: t.temp }
    else { t with prog := rest, err := some (.invalid (sh c)) }
  | .loadTemp c =>
    match t.temp.lookup (sh c) with
    | some v => { t with prog := rest, out := t.out ++ [v] }
    | none => { t with prog := rest, err := some (.missing (sh c)) }
  | .emit v => { t with prog := rest, out := t.out ++ [v] }

/-- one step of one thread -/
def stepT (sh : Shared) (t : TState) : Shared × TState :=
  match t.err, t.prog with
  | some _, _ => (sh, t)
  | none, [] => (sh, t)
  | none, s :: rest => (s.shared sh, s.local sh rest t)

structure Cfg where
  shared : Shared
  threads : List TState

/-- schedule thread `i` for one step -/
def stepAt (cfg : Cfg) (i : Nat) : Cfg :=
  match cfg.threads[i]? with
  | none => cfg
  | some t =>
    let r := stepT cfg.shared t
    { shared := r.1, threads := cfg.threads.set i r.2 }

def run (cfg : Cfg) (sched : List Nat) : Cfg := sched.foldl stepAt cfg

/-- thread `t` running alone for `n` steps from store `sh` -/
def alone (sh : Shared) (t : TState) : Nat → Shared × TState
  | 0 => (sh, t)
  | n + 1 => let r := stepT sh t; alone r.1 r.2 n

/-- the result of the program when nothing else runs -/
def sequentialResult (sh : Shared) (p : List Step) : Option Outcome :=
  (alone sh (TState.init p) p.length).2.result

def Cfg.init (sh : Shared) (progs : List (List Step)) : Cfg :=
  { shared := sh, threads := progs.map TState.init }

/-- result of thread `i` after the schedule (none: not finished yet) -/
def resultAt (cfg : Cfg) (i : Nat) : Option Outcome :=
  match cfg.threads[i]? with
  | none => none
  | some t => t.result

/-! ### programs of the collection validators, instantiated per site kind -/

def elemName (name : String) (i : Nat) : String := name ++ "_" ++ toString i

/-- `extract_field_value` (Array[X], Deque[X]; `initW = true`) and homogeneous `Tuple[X]` (`initW = false`):
    one shared item field, one temp structure (created after the optional first write) for the whole value -/
def progHomogFrom (cell : Nat) (name : String) : Nat → List (Int × Bool) → List Step
  | _, [] => []
  | i, (v, ok) :: rest =>
    .writeShared cell (elemName name i) :: .storeTemp cell v ok :: .loadTemp cell :: progHomogFrom cell name (i + 1) rest

def progHomog (cell : Nat) (name : String) (initW : Bool) (elems : List (Int × Bool)) : List Step :=
  (if initW then [.writeShared cell name] else []) ++ .newTemp :: progHomogFrom cell name 0 elems

/-- `Set.__set__`: the name is written once, a fresh temp structure per element -/
def progSetFrom (cell : Nat) : List (Int × Bool) → List Step
  | [] => []
  | (v, ok) :: rest => .newTemp :: .storeTemp cell v ok :: .loadTemp cell :: progSetFrom cell rest

def progSet (cell : Nat) (name : String) (elems : List (Int × Bool)) : List Step :=
  .writeShared cell name :: progSetFrom cell elems

/-- `Map.__set__`: key cell `kc`, value cell `vc`; the read-back statement evaluates the value side first -/
def progMapFrom (kc vc : Nat) : List ((Int × Bool) × (Int × Bool)) → List Step
  | [] => []
  | ((k, kok), (v, vok)) :: rest =>
    .newTemp :: .storeTemp kc k kok :: .storeTemp vc v vok :: .loadTemp vc :: .loadTemp kc :: progMapFrom kc vc rest

def progMap (kc vc : Nat) (name : String) (entries : List ((Int × Bool) × (Int × Bool))) : List Step :=
  .writeShared kc (name ++ "_key") :: .writeShared vc (name ++ "_value") :: progMapFrom kc vc entries

/-- positional items (`Array(items=[..])`, `Deque(items=[..])`, `Tuple[A, B, ..]`): cell `base + i` per index;
    elements beyond `n` declared items are appended unvalidated -/
def progPosFrom (base : Nat) (name : String) (n : Nat) : Nat → List (Int × Bool) → List Step
  | _, [] => []
  | i, (v, ok) :: rest =>
    if i < n then
      .writeShared (base + i) (elemName name i) :: .storeTemp (base + i) v ok :: .loadTemp (base + i)
        :: progPosFrom base name n (i + 1) rest
    else .emit v :: progPosFrom base name n (i + 1) rest

def progPos (base : Nat) (name : String) (n : Nat) (elems : List (Int × Bool)) : List Step :=
  .newTemp :: progPosFrom base name n 0 elems

end Typedpy.Sched

namespace Typedpy.Sched

/-- one validation call of a collection field, as the harness describes it on the wire -/
inductive Call where
  | homog (cell : Nat) (name : String) (initW : Bool) (elems : List (Int × Bool))
  | set (cell : Nat) (name : String) (elems : List (Int × Bool))
  | map (kc vc : Nat) (name : String) (entries : List ((Int × Bool) × (Int × Bool)))
  | pos (base : Nat) (name : String) (n : Nat) (elems : List (Int × Bool))
  deriving Repr

def Call.prog : Call → List Step
  | .homog c n w es => progHomog c n w es
  | .set c n es => progSet c n es
  | .map kc vc n es => progMap kc vc n es
  | .pos b n k es => progPos b n k es

/-- decidable conflict freedom: no program writes a cell that another program reads -/
def disjointB (ws rs : List Nat) : Bool := ws.all fun c => !rs.contains c

def conflictFreeB (progs : List (List Step)) : Bool :=
  (List.range progs.length).all fun i => (List.range progs.length).all fun j =>
    i == j || disjointB (writeCells (progs.getD j [])) (readCells (progs.getD i []))

/-- the scratch cells (Field objects) a validation call goes through -/
def Call.usesCell (c : Nat) : Call → Bool
  | .homog cell _ _ _ => c == cell
  | .set cell _ _ => c == cell
  | .map kc vc _ _ => c == kc || c == vc
  | .pos base _ n _ => decide (base ≤ c) && decide (c < base + n)

end Typedpy.Sched
