/-
  Sem/AliasC04.lean — C04, accessor side, on the heap / ownership model of Sem/Alias.lean (C19).

  The protected objects (`P`: everything an ImmutableStructure instance reaches, or everything the
  value of an immutable field reaches) live in the heap together with the caller's objects.  Some
  protected objects are *sealed* (`S`): the immutable instance itself and the typed wrappers bound to
  it — every native mutator of a sealed object raises, and the caller can look inside one only
  through its accessors.  Unsealed objects (plain lists / dicts / sets, mutable structures) can be read
  and written natively by whoever holds a reference.

  An accessor call is a heap transformer that hands items to the caller, in one of the modes the
  regenerated table (`Generated/AliasingC04.lean`, from extract/aliasing_c04.py) records per
  (owner, wrapper kind, accessor):
    `noRef`       — len / count / index / contains: no reference,
    `guardedCopy` — `_get_defensive_copy_if_needed` per element: a scalar or a sealed object is handed
                    out as it is, anything else as a deep copy (`__getitem__`, iteration, `get`,
                    `items()`, `values()`, `keys()`, the field read itself),
    `deepAll`     — a deep copy of the whole container (`copy()`, `+`, `*`, `reversed`, `|`),
    `raw`         — the stored references themselves (an un-overridden accessor: the leak),
    `raises`.
  The caller interleaves accessor calls with native mutations (`Alias.Act`) of what it holds.
-/
import TypedpyModel.Sem.Alias
namespace Typedpy.AliasC04
open Typedpy.Alias

inductive AMode
  | noRef | guardedCopy | deepAll | raw | raises
  deriving DecidableEq, Repr, Inhabited

/-- one row of the generated accessor table -/
structure AccRow where
  /-- "immutable-structure" | "immutable-field" -/
  owner : String
  /-- "list" | "dict" | "deque" | "instance" -/
  wrapper : String
  accessor : String
  /-- what the witness probe saw on the real code -/
  mode : AMode
  /-- what the AST idiom matcher read off the source (`raw` = not overridden / no recognised idiom) -/
  astMode : AMode
  /-- the wrapper class defines the member itself -/
  overridden : Bool
  deriving DecidableEq, Repr, Inhabited

/-- one row of the constructor-retention table: does an instance built from a caller-owned argument of
    this kind keep (anywhere in its object graph) an object of the caller? -/
structure CtorRow where
  owner : String
  kind : String
  retains : Bool
  deriving DecidableEq, Repr, Inhabited

def AMode.safe : AMode → Bool
  | .raw => false
  | _ => true

/-- `copy.deepcopy`; when it fails (recursion limit) the call raises and whatever it had allocated is
    unreachable garbage: the heap is taken as it was -/
def copyOrRaise (fuel : Nat) (h : Heap) (i : Item) : R Item :=
  match deepCopy fuel h i with
  | (h1, some i') => (h1, some i')
  | (_, none) => (h, none)

/-- `_get_defensive_copy_if_needed` on one element -/
def guardItem (S : Nat → Bool) (fuel : Nat) (h : Heap) : Item → R Item
  | .atom v => (h, some (.atom v))
  | .ref c => if S c then (h, some (.ref c)) else copyOrRaise fuel h (.ref c)

/-- … threaded over the elements; a copy that fails (recursion limit) hands out nothing -/
def handItems (S : Nat → Bool) (fuel : Nat) : Heap → List (String × Item) → Heap × List Item
  | h, [] => (h, [])
  | h, (_, i) :: rest =>
    match guardItem S fuel h i with
    | (h1, none) => handItems S fuel h1 rest
    | (h1, some i') => ((handItems S fuel h1 rest).1, i' :: (handItems S fuel h1 rest).2)

/-- what one accessor call on object `a` hands to the caller -/
def handOut (S : Nat → Bool) (fuel : Nat) (h : Heap) (a : Nat) : AMode → Heap × List Item
  | .noRef => (h, [])
  | .raises => (h, [])
  | .raw => (h, (h.cells a).items.map (·.2))
  | .deepAll =>
    match copyOrRaise fuel h (.ref a) with
    | (h1, some i) => (h1, [i])
    | (h1, none) => (h1, [])
  | .guardedCopy => handItems S fuel h (h.cells a).items

def addrs (its : List Item) : List Nat := its.filterMap Item.addr?

/-- what the caller does: call an accessor of an object it holds, or mutate / create natively -/
inductive Ev
  | read (a : Nat) (m : AMode)
  | act (x : Act)
  deriving Repr, Inhabited

def stepEv (S : Nat → Bool) (fuel : Nat) (h : Heap) (K : List Nat) : Ev → Heap × List Nat
  | .read a m => ((handOut S fuel h a m).1, addrs (handOut S fuel h a m).2 ++ K)
  | .act x => stepAct h K x

def runEvs (S : Nat → Bool) (fuel : Nat) : Heap → List Nat → List Ev → Heap × List Nat
  | h, K, [] => (h, K)
  | h, K, e :: rest => runEvs S fuel (stepEv S fuel h K e).1 (stepEv S fuel h K e).2 rest

/-- what the caller can get at natively: its roots, and whatever an UNSEALED object it can get at
    refers to (a sealed object is opaque: only its accessors look inside) -/
inductive Can (S : Nat → Bool) (h : Heap) (K : List Nat) : Nat → Prop
  | root {a : Nat} : a ∈ K → Can S h K a
  | step {a b : Nat} : Can S h K b → S b = false → a ∈ (h.cells b).kids → Can S h K a

/-- the capability discipline: accessors are called on objects the caller can get at; native writes go
    into unsealed objects it can get at (a mutator of a sealed object raises) and store only
    references it can get at -/
def AdmEv (S : Nat → Bool) (h : Heap) (K : List Nat) : Ev → Prop
  | .read a _ => Can S h K a
  | .act (.write a c) => Can S h K a ∧ S a = false ∧ ∀ k, k ∈ c.kids → Can S h K k
  | .act (.alloc c) => ∀ k, k ∈ c.kids → Can S h K k

def AdmEvs (S : Nat → Bool) (fuel : Nat) : Heap → List Nat → List Ev → Prop
  | _, _, [] => True
  | h, K, e :: rest => AdmEv S h K e ∧ AdmEvs S fuel (stepEv S fuel h K e).1 (stepEv S fuel h K e).2 rest

def readsSafe : List Ev → Bool
  | [] => true
  | .read _ m :: rest => m.safe && readsSafe rest
  | .act _ :: rest => readsSafe rest

/-- the constructor of an immutable owner as the retention table describes it: every argument is
    deep-copied (`Structure.__setattr__` / `Field.__set__` deep-copy what is not a scalar), the
    instance cell holds the copies -/
def constructImm (fuel : Nat) (h : Heap) (args : List (String × Item)) : R Nat :=
  match mapItems (deepCopy fuel) h args with
  | (h1, none) => (h1, none)
  | (h1, some its) => ((h1.alloc ⟨"instance", its⟩).1, some h1.next)

end Typedpy.AliasC04
