/-
  Sem/SchemaToCode.lean — model of `typedpy/json_schema/json_schema_mapping.py`, schema → code
  direction, as it is today (including its defects).

  * `Schema`: typed AST of the supported draft-4 fragment in typedpy's dialect (`multiplesOf`,
    `not: [..]`).  JSON ↔ AST lives in `Drive/SchemaCode.lean` (`Schema.ofJson` / `Schema.toJson`).
    Keywords whose absence equals a draft-4 default are normalised by the AST
    (`exclusiveMaximum`/`uniqueItems` absent ≡ false, `additionalItems` absent ≡ true).
  * `schemaToDecl` / `schemaToClass`: the *semantic* result of `convert_to_field_code` /
    `schema_to_struct_code` + `exec` — the declaration of the generated field / class (mirrors
    `_convert_field_to_schema_code_internal` and `get_paramlist_from_schema` of every mapper,
    and what `StructMeta` does with `_required` of fields that have defaults).
  * `toSchemaF` / `toSchemaClass`: the way back, `convert_to_schema` / `structure_to_schema`
    with the per-field mappers' `to_schema`.
  * `issues` / `inCodeFragment`: the explicit, decidable list of the regions where the round trip
    is *not* the identity today; each issue key is a known-finding key `roundtrip:<issue>`.
  * `runRequired` / `requiredAfter`: the post-state of the caller's `required` list (the generator
    `remove`s from a private copy).
  * `crashes` / `refsOrdered`: when generation raises or emits a forward reference.
  The text of the string-bearing parts is produced by `Sem/PyLex.lean` (`docWrap`, `pyRepr`);
  `stringSites` lists them for a schema.
-/
import TypedpyModel.Core.Field
import TypedpyModel.Sem.PyLex
namespace Typedpy

inductive Schema where
  /-- `type: integer | number` with `multiplesOf minimum maximum exclusiveMaximum` -/
  | num (integer : Bool) (mult : Option Int) (min max : Option Q) (exclMax : Bool)
  | str (minLen maxLen : Option Nat) (pattern : Option String)
  | bool
  | enum (vals : List PyVal)
  /-- `type: array` without `items` -/
  | arrAny (sz : SizeOpts)
  /-- `items` is a schema -/
  | arrOf (item : Schema) (sz : SizeOpts)
  /-- `items` is a list; `addl = false` is `additionalItems: false` -/
  | arrPos (items : List Schema) (addl : Bool) (sz : SizeOpts)
  /-- `type: object` without `properties`; `addlKw` = a boolean `additionalProperties` if present -/
  | mapAny (addlKw : Option Bool) (minItems maxItems : Option Nat)
  /-- `type: object` without `properties`, `additionalProperties` is a schema -/
  | mapOf (val : Schema) (minItems maxItems : Option Nat)
  /-- `properties` (in document order), the `default` of each property, `required`,
      `additionalProperties` (absent ≡ true) -/
  | obj (props : List (String × Schema)) (defaults : List (String × PyVal))
        (required : Option (List String)) (addl : Bool)
  /-- `$ref: #/definitions/<name>` -/
  | ref (name : String)
  | allOf (ss : List Schema)
  | anyOf (ss : List Schema)
  | oneOf (ss : List Schema)
  /-- typedpy's dialect: `not: [a, b, …]` -/
  | notS (ss : List Schema)
  /-- the mapping raises (`NotImplementedError` / `TypeError`) -/
  | unsupported (why : String)
deriving Repr, Inhabited

/-! ### `$ref` strings ↔ class names -/

def refPrefix : String := "#/definitions/"
/-- `convert_to_field_code`: `schema["$ref"][len("#/definitions/"):]` — the class name a `$ref` is
    emitted as (a slice by length, whatever characters the name starts with) -/
def refName (r : String) : String := String.ofList (r.toList.drop refPrefix.toList.length)
/-- `_map_class_reference`: `f"#/definitions/{name}"` — the `$ref` emitted for a class -/
def refOf (n : String) : String := refPrefix ++ n

/-! ### schema → declaration (what the generated code evaluates to) -/

/-- `MapMapper.get_paramlist_from_schema` passes `minItems` / `maxItems` -/
def mapSize (mn mx : Option Nat) : SizeOpts := { min := mn, max := mx, uniq := false }

def numDecl (integer : Bool) (mult : Option Int) (mn mx : Option Q) (ex : Bool) : FieldDecl :=
  let o : NumOpts := { mult := mult, min := mn, max := mx, exclMax := ex, sign := .any }
  if integer then .integer o else .number o

/-- `_required` of the generated class: the schema's list (all properties when absent) minus the
    properties that have a default (removed by `schema_to_struct_code` at top level and by
    `StructMeta` in every case) -/
def declRequired (names : List String) (defaultNames : List String) (required : Option (List String)) :
    List String :=
  (required.getD names).filter (fun n => !defaultNames.contains n)

def inlineOpts (required : List String) (addl : Bool) : ClassOpts :=
  { name := "StructureReference", required := required, addl := addl, inline := true }

mutual
/-- `convert_to_field_code` followed by evaluation of the emitted expression; `ρ` resolves a
    `$ref` name to the class generated for that definition -/
def schemaToDecl (ρ : String → FieldDecl) : Schema → FieldDecl
  | .num i mult mn mx ex => numDecl i mult mn mx ex
  | .str lo hi p => .string lo hi p
  | .bool => .boolean
  | .enum vs => .enumLit vs
  | .arrAny sz => .seqAny .list sz
  | .arrOf s sz => .seqOf .list (schemaToDecl ρ s) sz
  | .arrPos ss addl sz => .seqPos .list (schemaToDeclL ρ ss) addl sz
  -- no value schema (also: a boolean `additionalProperties`): `Map(maxItems=…, minItems=…)`
  | .mapAny _ mn mx => .mapAny (mapSize mn mx)
  | .mapOf v mn mx => .mapOf (.string none none none) (schemaToDecl ρ v) (mapSize mn mx)
  | .obj props defaults required addl =>
    .struct (inlineOpts (declRequired (props.map (·.1)) (defaults.map (·.1)) required) addl)
      (schemaToDeclP ρ props) defaults
  | .ref n => ρ n
  | .allOf ss => .allOf (schemaToDeclL ρ ss)
  | .anyOf ss => .anyOf (schemaToDeclL ρ ss)
  | .oneOf ss => .oneOf (schemaToDeclL ρ ss)
  | .notS ss => .notF (schemaToDeclL ρ ss)
  | .unsupported _ => .anything
termination_by structural s => s
def schemaToDeclL (ρ : String → FieldDecl) : List Schema → List FieldDecl
  | [] => []
  | s :: ss => schemaToDecl ρ s :: schemaToDeclL ρ ss
termination_by structural ss => ss
def schemaToDeclP (ρ : String → FieldDecl) : List (String × Schema) → List (String × FieldDecl)
  | [] => []
  | (n, s) :: ps => (n, schemaToDecl ρ s) :: schemaToDeclP ρ ps
termination_by structural ps => ps
end

/-- `schema_to_struct_code name schema` + `exec`: the generated class.  An object schema with
    `properties` becomes the class itself; anything else is wrapped in a field named `wrapped`. -/
def schemaToClass (ρ : String → FieldDecl) (name : String) (s : Schema) : FieldDecl :=
  match s with
  | .obj props defaults required addl =>
    .struct { name := name, addl := addl, accepts := [name],
              required := declRequired (props.map (·.1)) (defaults.map (·.1)) required }
      (schemaToDeclP ρ props) defaults
  | .mapAny addlKw _ _ =>
    -- `type: object` without properties at top level: a class without fields
    .struct { name := name, required := [], addl := addlKw.getD true, accepts := [name] } [] []
  | .mapOf _ _ _ => .struct { name := name, required := [], addl := true, accepts := [name] } [] []
  | s => .struct { name := name, required := ["wrapped"], addl := true, accepts := [name] }
      [("wrapped", schemaToDecl ρ s)] []

/-! ### declaration → schema (`structure_to_schema`, `convert_to_schema`, mappers' `to_schema`) -/

/-- `NumberMapper.to_schema`: `minimum`/`maximum` fall back to the sign of the class -/
def signMin (integer : Bool) : Sign → Option Q
  | .nonneg => some (Q.ofInt 0)
  | .pos => some (if integer then Q.ofInt 1 else ⟨1, 1000000⟩)
  | _ => none
def signMax (integer : Bool) : Sign → Option Q
  | .nonpos => some (Q.ofInt 0)
  | .neg => some (if integer then Q.ofInt (-1) else ⟨-1, 1000000⟩)
  | _ => none

def numSchema (integer : Bool) (o : NumOpts) : Schema :=
  .num integer o.mult (match o.min with | some m => some m | none => signMin integer o.sign)
    (match o.max with | some m => some m | none => signMax integer o.sign) o.exclMax

/-- `EnumMapper.to_schema` raises TypeError unless every value is an int, float or str -/
def enumValOk : PyVal → Bool
  | .str _ | .int _ | .float _ | .bool _ | .none => true
  | _ => false

def sameSet (a b : List String) : Bool := a.all b.contains && b.all a.contains

/-- `len(fields) == 1 and set(required) == set(fields) and additional_props is False` -/
def collapses (required names : List String) (addl : Bool) : Bool :=
  names.length == 1 && sameSet required names && !addl

/-- the `required` list `structure_to_schema` emits: `_required` with every field that has a
    default appended (before sorting, which the comparison abstracts from) -/
def schemaRequired (required defaultNames : List String) : List String :=
  required ++ defaultNames.filter (fun n => !required.contains n)

/-- `structure_to_schema` on a class given the schemas of its fields.  With `allow_field_wrapper`
    (top-level call only) a class with exactly one field, all required, without additional
    properties is replaced by the schema of that field; `_map_class_reference` and
    `StructureReferenceMapper.to_schema` pass `allow_field_wrapper=False`, so nested classes and
    definitions are always object schemas. -/
def structShape (wrapper : Bool) (c : ClassOpts) (fields : List (String × Schema))
    (defaults : List (String × PyVal)) : Schema :=
  if wrapper && collapses c.required (fields.map (·.1)) c.addl then
    (match fields with
     | [(_, s)] => s
     | _ => .unsupported "unreachable")
  else .obj fields defaults (some (schemaRequired c.required (defaults.map (·.1)))) c.addl

/-- `AnyOfMapper.to_schema`: `AnyOf[X, None]` is mapped to the schema of `X` -/
def anyOfShape (fs : List FieldDecl) (ss : List Schema) : Schema :=
  match fs, ss with
  | [_, .noneF], [s, _] => s
  | _, _ => .anyOf ss

/-- `MapMapper.to_schema` emits a value schema under `additionalProperties` only when the key is
    an unconstrained `String` -/
def plainStringKey : FieldDecl → Bool
  | .string none none none => true
  | _ => false

mutual
/-- `convert_to_schema field` -/
def toSchemaF : FieldDecl → Schema
  | .number o => numSchema false o
  | .integer o => numSchema true o
  | .float o => numSchema false o
  | .string lo hi p => .str lo hi p
  | .boolean => .bool
  | .enumLit vs => if vs.all enumValOk then .enum vs else .unsupported "enum value"
  | .enumCls _ names => .enum (names.map .str)
  | .seqAny k sz => (match k with | .list => .arrAny sz | .deque => .unsupported "Deque")
  | .seqOf k f sz =>
    (match k with | .list => .arrOf (toSchemaF f) sz | .deque => .unsupported "Deque")
  | .seqPos k fs addl sz =>
    (match k with | .list => .arrPos (toSchemaL fs) addl sz | .deque => .unsupported "Deque")
  | .setAny _ sz => .arrAny { sz with uniq := true }
  | .setOf _ f sz => .arrOf (toSchemaF f) { sz with uniq := true }
  | .tupleOf f u => .arrPos [toSchemaF f] false { uniq := u }
  | .tuplePos fs u => .arrPos (toSchemaL fs) false { uniq := u }
  | .mapAny sz => .mapAny none sz.min sz.max
  | .mapOf k v sz =>
    if plainStringKey k then .mapOf (toSchemaF v) sz.min sz.max else .unsupported "patternProperties"
  | .struct c fields defaults =>
    if c.inline then structShape false c (toSchemaP fields) defaults else .ref c.name
  | .anyOf fs => anyOfShape fs (toSchemaL fs)
  | .oneOf fs => .oneOf (toSchemaL fs)
  | .allOf fs => .allOf (toSchemaL fs)
  | .notF fs => .notS (toSchemaL fs)
  | .noneF => .unsupported "NoneField"
  | .anything => .unsupported "Anything"
termination_by structural f => f
def toSchemaL : List FieldDecl → List Schema
  | [] => []
  | f :: fs => toSchemaF f :: toSchemaL fs
termination_by structural fs => fs
def toSchemaP : List (String × FieldDecl) → List (String × Schema)
  | [] => []
  | (n, f) :: ps => (n, toSchemaF f) :: toSchemaP ps
termination_by structural ps => ps
end

/-- `structure_to_schema cls` -/
def toSchemaClass : FieldDecl → Schema
  | .struct c fields defaults => structShape true c (toSchemaP fields) defaults
  | _ => .unsupported "not a class"

/-- what `_map_class_reference` stores under `definitions[name]` for a referenced class -/
def toSchemaDef : FieldDecl → Schema
  | .struct c fields defaults => structShape false c (toSchemaP fields) defaults
  | _ => .unsupported "not a class"

/-! ### where the round trip is not the identity today -/

def nodupB : List String → Bool
  | [] => true
  | x :: xs => !xs.contains x && nodupB xs

/-- the object-level conditions -/
def objIssues (names defaultNames : List String) (required : Option (List String)) (addl : Bool) :
    List String :=
  match required with
  | none => ["required-absent"]
  | some req =>
    (if req.all names.contains && nodupB req then [] else ["required-not-properties"])
    ++ (if defaultNames.all req.contains then [] else ["default-forces-required"])

mutual
/-- reasons why `toSchema (schemaToDecl s)` differs from `s` (empty = in the fragment) -/
def issues : Schema → List String
  | .num _ _ _ _ _ => []
  | .str _ _ _ => []
  | .bool => []
  | .enum vs => if vs.all enumValOk then [] else ["enum-value-type"]
  | .arrAny _ => []
  | .arrOf s _ => issues s
  | .arrPos ss _ _ => issuesL ss
  | .mapAny addlKw _ _ =>
    (if addlKw.isSome then ["map-additionalProperties-bool"] else [])
  | .mapOf v _ _ => issues v
  | .obj props defaults required addl =>
    objIssues (props.map (·.1)) (defaults.map (·.1)) required addl ++ issuesP props
  | .ref _ => []
  | .allOf ss => issuesL ss
  | .anyOf ss => issuesL ss
  | .oneOf ss => issuesL ss
  | .notS ss => issuesL ss
  | .unsupported _ => ["not-a-source-schema"]
termination_by structural s => s
def issuesL : List Schema → List String
  | [] => []
  | s :: ss => issues s ++ issuesL ss
termination_by structural ss => ss
def issuesP : List (String × Schema) → List String
  | [] => []
  | (_, s) :: ps => issues s ++ issuesP ps
termination_by structural ps => ps
end

/-- the fragment on which schema → code → schema is the identity up to `required` order -/
def inCodeFragment (s : Schema) : Bool := (issues s).isEmpty
def inCodeFragmentL (ss : List Schema) : Bool := (issuesL ss).isEmpty
def inCodeFragmentP (ps : List (String × Schema)) : Bool := (issuesP ps).isEmpty

/-- top level: additionally the schema must be an object with `properties` (anything else is
    generated as a wrapper class with a single field `wrapped`) -/
def topIssues : Schema → List String
  | .obj props defaults required addl =>
    -- the field-wrapper form exists for the top-level class only
    (if collapses (declRequired (props.map (·.1)) (defaults.map (·.1)) required) (props.map (·.1)) addl
     then ["single-field-collapse"] else [])
    ++ issues (.obj props defaults required addl)
  | .mapAny a mn mx => "top-level-map-ignored" :: issues (.mapAny a mn mx)
  | .mapOf v mn mx => "top-level-map-ignored" :: issues (.mapOf v mn mx)
  | s => "top-level-wrapped" :: issues s

/-- a definition (mapped back through `_map_class_reference`: never the field-wrapper form) -/
def defIssues : Schema → List String
  | .obj props defaults required addl => issues (.obj props defaults required addl)
  | s => topIssues s

/-! ### `required` order: the comparison is up to the order of every `required` list -/

/-- canonical order of a `required` list: the order of the properties -/
def canonReq (names req : List String) : List String := names.filter (fun n => req.contains n)

mutual
def normReq : Schema → Schema
  | .arrOf s sz => .arrOf (normReq s) sz
  | .arrPos ss addl sz => .arrPos (normReqL ss) addl sz
  | .mapOf v mn mx => .mapOf (normReq v) mn mx
  | .obj props defaults required addl =>
    .obj (normReqP props) defaults
      (match required with
       | none => none
       | some req => some (canonReq (props.map (·.1)) req)) addl
  | .allOf ss => .allOf (normReqL ss)
  | .anyOf ss => .anyOf (normReqL ss)
  | .oneOf ss => .oneOf (normReqL ss)
  | .notS ss => .notS (normReqL ss)
  | .num i m a b e => .num i m a b e
  | .str a b p => .str a b p
  | .bool => .bool
  | .enum vs => .enum vs
  | .arrAny sz => .arrAny sz
  | .mapAny a mn mx => .mapAny a mn mx
  | .ref n => .ref n
  | .unsupported w => .unsupported w
termination_by structural s => s
def normReqL : List Schema → List Schema
  | [] => []
  | s :: ss => normReq s :: normReqL ss
termination_by structural ss => ss
def normReqP : List (String × Schema) → List (String × Schema)
  | [] => []
  | (n, s) :: ps => (n, normReq s) :: normReqP ps
termination_by structural ps => ps
end

/-! ### side effect on the caller's schema, crashes, empty bodies, forward references -/

/-- `required = list(required)` then, on that private copy,
    `for name, sch in properties.items(): if "default" in sch and name in required:
    required.remove(name)` — the list that is emitted as `_required` -/
def requiredLocal (defaultNames : List String) (required : List String) : List String :=
  defaultNames.foldl (fun acc n => acc.erase n) required

/-- the `_required = [...]` list emitted at top level -/
def emittedRequired : Schema → Option (List String)
  | .obj props defaults (some req) _ =>
    some (requiredLocal ((props.map (·.1)).filter (fun n => (defaults.map (·.1)).contains n)) req)
  | _ => none

/-- effect of `schema_to_struct_code` on the heap cell holding the caller's `required` list
    (Aeneas style: the function returns the post-state of what it can reach).  All `remove`s go
    to the private copy, no statement writes through the caller's reference. -/
structure ReqState where
  /-- the caller's list -/
  caller : Option (List String)
  /-- the function's working list -/
  «local» : Option (List String)

def runRequired (s : Schema) (callerReq : Option (List String)) : ReqState :=
  -- `required = list(required) if required is not None else None`
  let st : ReqState := { caller := callerReq, «local» := callerReq }
  -- the loop mutates `local` only
  match s, st.local with
  | .obj props defaults _ _, some req =>
    { st with «local» := some (requiredLocal
        ((props.map (·.1)).filter (fun n => (defaults.map (·.1)).contains n)) req) }
  | _, _ => st

def requiredBefore : Schema → Option (List String)
  | .obj _ _ req _ => req
  | _ => none
/-- post-state of the `required` entry of the schema handed to `schema_to_struct_code` -/
def requiredAfter (s : Schema) : Option (List String) := (runRequired s (requiredBefore s)).caller

mutual
/-- generation raises: `additionalProperties: true|false` … on a property-less object is handed to
    `convert_to_field_code` (`"$ref" in True` → TypeError) when true -/
def crashes : Schema → List String
  | .arrOf s _ => crashes s
  | .arrPos ss _ _ => crashesL ss
  | .mapOf v _ _ => crashes v
  | .obj props _ _ _ => crashesP props
  | .allOf ss => crashesL ss
  | .anyOf ss => crashesL ss
  | .oneOf ss => crashesL ss
  | .notS ss => crashesL ss
  | _ => []
termination_by structural s => s
def crashesL : List Schema → List String
  | [] => []
  | s :: ss => crashes s ++ crashesL ss
termination_by structural ss => ss
def crashesP : List (String × Schema) → List String
  | [] => []
  | (_, s) :: ps => crashes s ++ crashesP ps
termination_by structural ps => ps
end

/-- crashes of `schema_to_struct_code` on a top-level schema -/
def topCrashes : Schema → List String
  -- a top-level object without properties generates a class without fields: nothing is converted
  | .mapAny _ _ _ => []
  | .mapOf _ _ _ => []
  | s => crashes s

mutual
/-- names of the definitions a schema refers to -/
def refsOf : Schema → List String
  | .ref n => [n]
  | .arrOf s _ => refsOf s
  | .arrPos ss _ _ => refsOfL ss
  | .mapOf v _ _ => refsOf v
  | .obj props _ _ _ => refsOfP props
  | .allOf ss => refsOfL ss
  | .anyOf ss => refsOfL ss
  | .oneOf ss => refsOfL ss
  | .notS ss => refsOfL ss
  | _ => []
termination_by structural s => s
def refsOfL : List Schema → List String
  | [] => []
  | s :: ss => refsOf s ++ refsOfL ss
termination_by structural ss => ss
def refsOfP : List (String × Schema) → List String
  | [] => []
  | (_, s) :: ps => refsOf s ++ refsOfP ps
termination_by structural ps => ps
end

/-- `schema_definitions_to_code` emits the classes in the order of the `definitions` dict; a class
    body is evaluated when the class statement runs, so every `$ref` must point to an *earlier*
    definition (otherwise NameError) -/
def refsOrdered : List String → List (String × Schema) → Bool
  | _, [] => true
  | seen, (n, s) :: rest => (refsOf s).all seen.contains && refsOrdered (n :: seen) rest

/-- the classes of the definitions, each resolved against the earlier ones -/
def defsEnv : List (String × FieldDecl) → List (String × Schema) → List (String × FieldDecl)
  | env, [] => env
  | env, (n, s) :: rest =>
    let ρ := fun r => (lookup r env).getD (.struct { name := r, required := [], accepts := [r] } [] [])
    defsEnv (env ++ [(n, schemaToClass ρ n s)]) rest

def envResolver (env : List (String × FieldDecl)) : String → FieldDecl :=
  fun r => (lookup r env).getD (.struct { name := r, required := [], accepts := [r] } [] [])

/-! ### order of the definitions: depth-first, referenced definitions first -/

abbrev Defs := List (String × Schema)

/-- `_definitions_in_dependency_order`, one root: the definitions `n` refers to (transitively, in
    order of appearance, skipping unknown names and names already started), then `n`;
    state = (started, ordered) -/
def visitDef (defs : Defs) : Nat → String → List String × List String → List String × List String
  | 0, _, st => st
  | fuel + 1, n, st =>
    if st.1.contains n then st
    else match lookup n defs with
      | none => st
      | some s =>
        let st' := (refsOf s).foldl (fun acc r => visitDef defs fuel r acc) (n :: st.1, st.2)
        (st'.1, st'.2 ++ [n])

/-- the emission order of the definitions' names -/
def topoOrder (defs : Defs) : List String :=
  ((defs.map (·.1)).foldl (fun acc n => visitDef defs (defs.length + 1) n acc) ([], [])).2

def knownDef (defs : Defs) (r : String) : Bool := (lookup r defs).isSome

/-- on the reversed emission order (latest first): every definition comes after all the
    definitions it refers to -/
def definedBeforeUse (defs : Defs) : List String → Prop
  | [] => True
  | n :: earlier =>
    (∀ s, lookup n defs = some s → ∀ r ∈ refsOf s, knownDef defs r = true → r ∈ earlier)
      ∧ definedBeforeUse defs earlier

/-- the references between definitions have no cycle: a rank decreases along every reference -/
def Acyclic (defs : Defs) : Prop :=
  ∃ rk : String → Nat, (∀ n, rk n ≤ defs.length) ∧
    ∀ n s, lookup n defs = some s → ∀ r ∈ refsOf s, knownDef defs r = true → rk r < rk n

/-! ### string-bearing parts of the emitted text -/

/-- a string literal the generator emits: where, its source text, the string it should denote -/
structure StringSite where
  site : String
  source : String
  intended : String
deriving Repr

mutual
/-- strings nested in a value that is emitted through `repr` (`f"{a_list}"`) -/
def reprSites (pr : Char → Bool) (site : String) : PyVal → List StringSite
  | .str s => [⟨site, PyLex.pyRepr pr s, s⟩]
  | .list xs => reprSitesL pr site xs
  | .dict kvs => reprSitesKV pr site kvs
  | _ => []
termination_by structural v => v
def reprSitesL (pr : Char → Bool) (site : String) : List PyVal → List StringSite
  | [] => []
  | x :: xs => reprSites pr site x ++ reprSitesL pr site xs
termination_by structural xs => xs
def reprSitesKV (pr : Char → Bool) (site : String) : List (PyVal × PyVal) → List StringSite
  | [] => []
  | (k, v) :: kvs => reprSites pr site k ++ reprSites pr site v ++ reprSitesKV pr site kvs
termination_by structural kvs => kvs
end

/-- `_handle_schema_default_to_code`: list/dict defaults go through `repr` (inside a lambda),
    a `str` default through `_str_literal` = `repr` -/
def defaultSites (pr : Char → Bool) : PyVal → List StringSite
  | .str s => [⟨"default", PyLex.pyRepr pr s, s⟩]
  | v => reprSites pr "default-repr" v

def defaultsSites (pr : Char → Bool) : List (String × PyVal) → List StringSite
  | [] => []
  | (_, v) :: rest => defaultSites pr v ++ defaultsSites pr rest

def namesSites (pr : Char → Bool) : List String → List StringSite
  | [] => []
  | n :: rest => ⟨"required", PyLex.pyRepr pr n, n⟩ :: namesSites pr rest

mutual
def stringSites (pr : Char → Bool) : Schema → List StringSite
  | .str _ _ (some p) => [⟨"pattern", PyLex.pyRepr pr p, p⟩]
  | .enum vs => reprSitesL pr "enum" vs
  | .arrOf s _ => stringSites pr s
  | .arrPos ss _ _ => stringSitesL pr ss
  | .mapOf v _ _ => stringSites pr v
  | .obj props defaults required _ =>
    namesSites pr (required.getD []) ++ defaultsSites pr defaults ++ stringSitesP pr props
  | .allOf ss => stringSitesL pr ss
  | .anyOf ss => stringSitesL pr ss
  | .oneOf ss => stringSitesL pr ss
  | .notS ss => stringSitesL pr ss
  | _ => []
termination_by structural s => s
def stringSitesL (pr : Char → Bool) : List Schema → List StringSite
  | [] => []
  | s :: ss => stringSites pr s ++ stringSitesL pr ss
termination_by structural ss => ss
def stringSitesP (pr : Char → Bool) : List (String × Schema) → List StringSite
  | [] => []
  | (_, s) :: ps => stringSites pr s ++ stringSitesP pr ps
termination_by structural ps => ps
end

def descriptionSite (d : String) : StringSite := ⟨"description", PyLex.docWrap d, PyLex.docValue d⟩

/-- the literal denotes exactly the intended string -/
def StringSite.faithful (s : StringSite) : Bool :=
  match PyLex.pyLexStr s.source with
  | some v => v == s.intended
  | none => false

end Typedpy
