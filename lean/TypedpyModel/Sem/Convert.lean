/-
  Sem/Convert.lean — executable model of `typedpy/serialization/versioned_mapping.py`
  (`_convert`, `convert_dict`, `Versioned.__init__`) and of the `Versioned` prologue of
  `deserialize_structure_internal` (`serialization.py:741-747`).  Core Lean only.

  The model mirrors what the code does today, in the code's order:

  * `_convert(mapped_dict, mapping)`:
      `out_dict = deepcopy(mapped_dict)`;
      loop 1 over `mapping.items()`: `Constant` → `out[k] = deepcopy(v())` (a copy: values only, no sharing with
      the mapping); key `f._mapper` → content is read from the
      *input* `mapped_dict` (not from `out`), `None`/absent is skipped, a list is converted element-wise, anything
      else is converted as a document, the result is stored at `out[f]`; `FunctionCall` → arguments are read
      from `out` (`v.args`, or `[k]` when `args` is empty/None), `out[k] = func(*args)` — `func` is an arbitrary
      function carried by the entry (`UserFn`), whatever it raises propagates;
      loop 2: string values → `out[k] = deep_get(out, v)`;
      loop 3: `Deleted` → `del out[k]` when present.
    On a non-dict content (reachable through `._mapper` entries) the exceptions Python raises are modelled
    with their class (`TypeError` / `AttributeError`).
  * `convert_dict(d, ms)`: `start = d.get("version", 1)`; an int (bool included) below 1 is rejected with ValueError;
    `for offset, m in enumerate(ms[start-1:])`: `x = _convert(x, m)`; `x["version"] = start + offset + 1` — the version is
    counted by `convert_dict` itself, whatever the mapping did to the `version` key (typedpy commit f017e49).

  Documents are JSON values (floats as exact ratios); objects are association lists in Python's insertion order (`set` replaces in
  place or appends, `erase` removes), so equality of model results is at least as fine as Python's `==`.
-/
namespace Typedpy.Convert

/-- JSON documents (the domain of `convert_dict`) -/
inductive Json where
  | null
  | bool (b : Bool)
  | int (i : Int)
  | str (s : String)
  | float (num : Int) (den : Nat)   -- a finite float as the exact ratio `as_integer_ratio()` gives (lowest terms, den > 0)
  | list (xs : List Json)
  | obj (kvs : List (String × Json))
  deriving Repr, Inhabited

abbrev Obj := List (String × Json)

/-- the exception classes `convert_dict` can raise on JSON input; `other` = whatever a user function of a
    `FunctionCall` raises (by class name) -/
inductive Err where
  | typeErr
  | attrErr
  | other (name : String)
  deriving DecidableEq, Repr

abbrev R (α : Type) := Except Err α

def bindE {α β} (r : R α) (k : α → R β) : R β :=
  match r with
  | .error e => .error e
  | .ok y => k y

@[simp] theorem bindE_ok {α β} (y : α) (k : α → R β) : bindE (.ok y) k = k y := rfl
@[simp] theorem bindE_error {α β} (e : Err) (k : α → R β) : bindE (.error e) k = .error e := rfl

def mapE {α β} (g : α → R β) : List α → R (List β)
  | [] => .ok []
  | x :: xs => bindE (g x) fun y => bindE (mapE g xs) fun ys => .ok (y :: ys)

/-! ### structural equality as a `Bool` (no `DecidableEq` for the nested inductive) -/

mutual
def Json.beq : Json → Json → Bool
  | .null, .null => true
  | .bool a, .bool b => a == b
  | .int a, .int b => a == b
  | .str a, .str b => a == b
  | .float a b, .float c d => a == c && b == d
  | .list xs, .list ys => Json.beqList xs ys
  | .obj xs, .obj ys => Json.beqObj xs ys
  | _, _ => false
termination_by structural x => x
def Json.beqList : List Json → List Json → Bool
  | [], [] => true
  | x :: xs, y :: ys => Json.beq x y && Json.beqList xs ys
  | _, _ => false
termination_by structural x => x
def Json.beqObj : List (String × Json) → List (String × Json) → Bool
  | [], [] => true
  | (k, x) :: xs, (k', y) :: ys => k == k' && Json.beq x y && Json.beqObj xs ys
  | _, _ => false
termination_by structural x => x
end

/-! ### Python dict operations on association lists -/

/-- `d.get(k)` (`none` = key absent) -/
def get (k : String) : Obj → Option Json
  | [] => none
  | (k', v) :: r => if k' = k then some v else get k r

/-- `d[k] = v`: replaces in place, appends a new key at the end (insertion order) -/
def set (k : String) (v : Json) : Obj → Obj
  | [] => [(k, v)]
  | (k', v') :: r => if k' = k then (k, v) :: r else (k', v') :: set k v r

/-- `del d[k]` guarded by `k in d` (a Python dict holds a key at most once; on such lists this removes the one
    entry, and it is total on all association lists) -/
def erase (k : String) (o : Obj) : Obj := o.filter fun p => p.1 != k

/-- `d.get(k)` with Python's `None` default -/
def getD (k : String) (o : Obj) : Json := (get k o).getD .null

/-! ### `deep_get` (typedpy/commons.py) with `default=None`, `do_flatten=False` -/

/-- Python truthiness of a JSON value (`if d else default` in the `reduce`) -/
def truthy : Json → Bool
  | .null => false
  | .bool b => b
  | .int i => i != 0
  | .str s => s != ""
  | .float n _ => n != 0
  | .list xs => !xs.isEmpty
  | .obj kvs => !kvs.isEmpty

mutual
/-- `_get_next_level(d, key, None)`: mapping → `.get`; list → element-wise over the non-`None` elements
    (recursively, without the truthiness test); anything else → `None` -/
def getNext (key : String) : Json → Json
  | .obj kvs => getD key kvs
  | .list xs => .list (getNextList key xs)
  | _ => .null
termination_by structural x => x
def getNextList (key : String) : List Json → List Json
  | [] => []
  | .null :: r => getNextList key r
  | x :: r => getNext key x :: getNextList key r
termination_by structural x => x
end

/-- `deep_get(d, "k1.k2…")` on the already split key list -/
def deepGet (d : Json) (keys : List String) : Json :=
  keys.foldl (fun acc k => if truthy acc then getNext k acc else .null) d

/-- `deep_key.split(".")` -/
def splitPath (s : String) : List String := s.splitOn "."

/-! ### `FunctionCall(func=…, args=…)`: the user function is an ARBITRARY function `List Json → R Json` carried
    by the mapping entry (`Entry.fn`), so every theorem about "all mappings" is a theorem about all user functions
    (pure, possibly raising, of any arity — a wrong number of positional arguments is the function answering
    `TypeError`).  On a correspondence run the driver builds the function from the table of calls the harness
    observed on the real code (`Drive/Convert.lean`).  The named family below only serves the kernel-evaluated
    examples. -/

abbrev UserFn := List Json → R Json

inductive FnName where
  | ident    -- lambda x: x
  | addOne   -- x + 1 on ints (not bools), else x
  | upper    -- ASCII upper-casing of strings, else x
  | wrap     -- lambda x: [x]
  | concat   -- two arguments: str+str, list+list, else None
  | pair     -- lambda x, y: [x, y]
  deriving DecidableEq, Repr

def applyFn (f : FnName) (args : List Json) : R Json :=
  match f, args with
  | .ident, [x] => .ok x
  | .addOne, [.int i] => .ok (.int (i + 1))
  | .addOne, [x] => .ok x
  | .upper, [.str s] => .ok (.str (s.map Char.toUpper))
  | .upper, [x] => .ok x
  | .wrap, [x] => .ok (.list [x])
  | .concat, [.str a, .str b] => .ok (.str (a ++ b))
  | .concat, [.list a, .list b] => .ok (.list (a ++ b))
  | .concat, [_, _] => .ok .null
  | .pair, [x, y] => .ok (.list [x, y])
  | _, _ => .error .typeErr   -- wrong number of positional arguments

/-! ### mappings -/

/-- one value of a version mapping.  A `sub` entry stands for the key `"<field>._mapper"` and is keyed by
    `<field>`; `move` carries the already split source path.  (Keys of non-`sub` entries are assumed not to end in
    `._mapper`, except for `const`, which the code tests first.) -/
inductive Entry where
  | const (v : Json)
  | deleted
  | move (path : List String)
  | sub (m : List (String × Entry))
  | fn (f : UserFn) (args : List String)

abbrev Mapping := List (String × Entry)

/-- a mapping whose nested mappings have been turned into the functions they denote -/
inductive CEntry where
  | const (v : Json)
  | deleted
  | move (path : List String)
  | sub (f : Json → R Json)
  | fn (f : UserFn) (args : List String)

abbrev CMapping := List (String × CEntry)

/-- loop 1, one entry, on a dict -/
def step1 (k : String) (e : CEntry) (inp out : Obj) : R Obj :=
  match e with
  | .const v => .ok (set k v out)
  | .sub f =>
    match get k inp with
    | none => .ok out
    | some .null => .ok out
    | some (.list xs) => bindE (mapE f xs) fun ys => .ok (set k (.list ys) out)
    | some c => bindE (f c) fun c' => .ok (set k c' out)
  | .fn g args =>
    bindE (g ((if args.isEmpty then [k] else args).map fun a => getD a out)) fun r =>
      .ok (set k r out)
  | .move _ => .ok out
  | .deleted => .ok out

def loop1 : CMapping → Obj → Obj → R Obj
  | [], _, out => .ok out
  | (k, e) :: r, inp, out => bindE (step1 k e inp out) fun out' => loop1 r inp out'

/-- loop 2: renames / moves, reading the *current* `out` -/
def loop2 : CMapping → Obj → Obj
  | [], out => out
  | (k, .move p) :: r, out => loop2 r (set k (deepGet (.obj out) p) out)
  | _ :: r, out => loop2 r out

/-- loop 3: deletions -/
def loop3 : CMapping → Obj → Obj
  | [], out => out
  | (k, .deleted) :: r, out => loop3 r (erase k out)
  | _ :: r, out => loop3 r out

/-! `_convert` applied to something that is not a dict: which exception comes first -/

def nonObj1 : CMapping → R Unit
  | [] => .ok ()
  | (_, .const _) :: _ => .error .typeErr      -- `out[k] = …` on int/str/list/None
  | (_, .sub _) :: _ => .error .attrErr        -- `mapped_dict.get`
  | (_, .fn _ _) :: _ => .error .attrErr       -- `out_dict.get`
  | _ :: r => nonObj1 r

def nonObj2 : CMapping → R Unit
  | [] => .ok ()
  | (_, .move _) :: _ => .error .typeErr       -- `deep_get` never raises, the assignment does
  | _ :: r => nonObj2 r

def isPrefixC : List Char → List Char → Bool
  | [], _ => true
  | _ :: _, [] => false
  | a :: as, b :: bs => a == b && isPrefixC as bs

def isInfixC (p : List Char) : List Char → Bool
  | [] => p.isEmpty
  | c :: cs => isPrefixC p (c :: cs) || isInfixC p cs

def hasStr (k : String) : List Json → Bool
  | [] => false
  | .str s :: r => s == k || hasStr k r
  | _ :: r => hasStr k r

/-- `k in x` for a non-dict `x`: `none` = the test itself raises TypeError -/
def nonObjContains (k : String) : Json → Option Bool
  | .str s => some (isInfixC k.toList s.toList)
  | .list xs => some (hasStr k xs)
  | _ => none

def nonObj3 (j : Json) : CMapping → R Unit
  | [] => .ok ()
  | (k, .deleted) :: r =>
    match nonObjContains k j with
    | some false => nonObj3 j r
    | _ => .error .typeErr                      -- `in` on a non-iterable, or `del` on str / list[str]
  | _ :: r => nonObj3 j r

/-- `_convert(mapped_dict, mapping)` for a mapping with resolved nested converters -/
def convShape (m : CMapping) (inp : Json) : R Json :=
  match inp with
  | .obj kvs => bindE (loop1 m kvs kvs) fun o1 => .ok (.obj (loop3 m (loop2 m o1)))
  | j => bindE (nonObj1 m) fun _ => bindE (nonObj2 m) fun _ => bindE (nonObj3 j m) fun _ => .ok j

mutual
def Entry.compile : Entry → CEntry
  | .const v => .const v
  | .deleted => .deleted
  | .move p => .move p
  | .fn g a => .fn g a
  | .sub m => .sub (convShape (compileMap m))
termination_by structural x => x
def compileMap : List (String × Entry) → CMapping
  | [] => []
  | (k, e) :: r => (k, e.compile) :: compileMap r
termination_by structural x => x
end

/-- `_convert(mapped_dict, mapping)` -/
def convert (m : Mapping) (d : Json) : R Json := convShape (compileMap m) d

/-! ### `convert_dict` -/

/-- the values Python's `- 1` / `+ 1` accept among JSON values (`bool` is an `int`) -/
def versionInt : Json → Option Int
  | .int i => some i
  | .bool b => some (if b then 1 else 0)
  | _ => none

/-- `the_dict.get("version", 1)` followed by `start_version - 1` -/
def startVersion (kvs : Obj) : R Int :=
  match get "version" kvs with
  | none => .ok 1
  | some v => match versionInt v with
    | some i => .ok i
    | none => .error .typeErr

/-- Python's `l[i:]` -/
def pySliceFrom {α} (i : Int) (l : List α) : List α :=
  if 0 ≤ i then l.drop i.toNat else l.drop (l.length - (-i).toNat)

/-- `mapped_dict["version"] = start_version + offset + 1` (`v` = the value assigned) -/
def setVersion (v : Int) (j : Json) : R Json :=
  match j with
  | .obj kvs => .ok (.obj (set "version" (.int v) kvs))
  | _ => .error .typeErr

/-- the loop of `convert_dict` over the selected mappings; `v` = version of the document the next mapping is
    applied to (`start_version + offset`) -/
def runSteps : List Mapping → Int → Json → R Json
  | [], _, d => .ok d
  | m :: ms, v, d =>
    bindE (convert m d) fun d' => bindE (setVersion (v + 1) d') fun d'' => runSteps ms (v + 1) d''

/-- `convert_dict(the_dict, versions_mapping)` -/
def convertDict (d : Json) (ms : List Mapping) : R Json :=
  match d with
  | .obj kvs => bindE (startVersion kvs) fun v =>
      if v < 1 then .error (.other "ValueError") else runSteps (pySliceFrom (v - 1) ms) v d
  | _ => .error .attrErr

/-- Aeneas-style view: the result together with the post-states of both arguments.  `convert_dict` works on
    `copy.deepcopy(the_dict)`, `_convert` on `copy.deepcopy(mapped_dict)` and a `Constant` hands out
    `copy.deepcopy` of its value; no statement writes through `the_dict`, a mapping, a `Constant` or a
    `FunctionCall`, so the post-states are the arguments. -/
def convertDictSt (d : Json) (ms : List Mapping) : R Json × Json × List Mapping :=
  (convertDict d ms, d, ms)

/-! ### `Versioned` glue -/

/-- `Versioned.__init__`: `kwargs["version"] = len(getattr(self, "_versions_mapping", [])) + 1`
    (`none` = the class does not define `_versions_mapping`) -/
def versionedInitKw (ms : Option (List Mapping)) (kw : Obj) : Obj :=
  set "version" (.int ((ms.getD []).length + 1)) kw

/-- `isinstance(v, int) and v < 1` (a bool is an int) -/
def nonPositiveVersion (x : Json) : Bool :=
  match versionInt x with
  | some v => decide (v < 1)
  | none => false

/-- prologue of `deserialize_structure_internal` for `issubclass(cls, Versioned)`; `rest` is the remainder of
    deserialization (a function of `input_dict` for a fixed class and fixed flags).
    an int `version` below 1 is rejected with ValueError (also with an empty history);
    `getattr(cls, "_versions_mapping", None)`: a class without the attribute (`none`) behaves like one with the
    empty history — falsy, no conversion. -/
def deserVersioned {α} (rest : Json → α) (ms : Option (List Mapping)) (d : Json) : R α :=
  match d with
  | .obj kvs =>
    match get "version" kvs with
    | none => .error .typeErr
    | some x =>
      if nonPositiveVersion x then .error (.other "ValueError") else
      match ms with
      | none => .ok (rest d)
      | some [] => .ok (rest d)
      | some (m :: r) => bindE (convertDict d (m :: r)) fun d' => .ok (rest d')
  | _ => .error .typeErr

/-- `Deserializer.deserialize`: an explicit `keep_undefined` is passed on; `None` stays falsy when the class allows
    additional properties and otherwise becomes `not ignore_invalid_additional_properties_in_deserialization`, i.e.
    `False` with the global flag at its default (typedpy commit 005d815; before it became `True`, which nested
    classes then inherited) -/
def adjustedKeep (keep : Option Bool) (_addl : Bool) : Bool :=
  match keep with
  | some b => b
  | none => false

/-- the undeclared keys `deserialize_structure_internal` hands to the constructor (`kwargs = {k: v for k, v in
    input_dict.items() if k not in field_by_name and keep_undefined and (additional_props is True or not
    ignore_invalid_additional_properties_in_deserialization)}`; non-trusted path, class without serialization
    mappers or `_constants`, the global flag at its default `True`).  They are taken from `input_dict`, i.e.
    from the version-converted document, never from the caller's document. -/
def undeclaredKept (fields : List String) (keep : Option Bool) (addl : Bool) (input : Json) : Obj :=
  match input with
  | .obj kvs => if adjustedKeep keep addl && addl then kvs.filter (fun p => !fields.contains p.1) else []
  | _ => []

/-- the undeclared keys a `Versioned` class keeps when deserializing `d` -/
def deserExtras (fields : List String) (keep : Option Bool) (addl : Bool) (ms : Option (List Mapping))
    (d : Json) : R Obj :=
  deserVersioned (undeclaredKept fields keep addl) ms d

end Typedpy.Convert
