/-
  Sem/EntryD.lean — the Deserializer as one more validating entry point of a chain (Sem/Entry.lean has the ones that
  start from an instance): `Deserializer(cls).deserialize(doc, keep_undefined=…)` builds a fresh instance from a
  document (Sem/Deser.lean: field-by-field pre-processing, then the constructor, whose `__init__` runs the class's
  `__validate__` hook), and the round trip `deserialize(Serializer(x).serialize())` rebuilds the current one.
-/
import TypedpyModel.Sem.Entry
import TypedpyModel.Sem.Deser
namespace Typedpy

inductive EntryOpD where
  /-- copy / deepcopy / pickle / shallow_clone_with_overrides / from_other_class / cast_to -/
  | plain (op : EntryOp)
  /-- `Deserializer(cls).deserialize(doc, …)`: the instance so far is dropped, a new one is built from `doc` -/
  | deser (opts : DeserOpts) (doc : PyVal)
  /-- `Deserializer(cls).deserialize(Serializer(x).serialize(), …)` -/
  | reser (opts : DeserOpts)
deriving Inhabited

/-- the class's `__validate__` hook on a freshly built instance -/
def hookCheck (O : Oracles) (y : PyVal) : R PyVal :=
  if O.hookOk (instAttrs y) then .ok y else .error .valueErr

def applyEntryD (O : Oracles) (cls : FieldDecl) (x : PyVal) : EntryOpD → R PyVal
  | .plain op => applyEntryH O cls x op
  | .deser opts doc => bindE (deserialize O opts cls doc) (hookCheck O)
  | .reser opts => bindE (serialize O cls x) fun d => bindE (deserialize O opts cls d) (hookCheck O)

def runChainD (O : Oracles) (cls : FieldDecl) : PyVal → List EntryOpD → R PyVal
  | x, [] => .ok x
  | x, op :: rest => bindE (applyEntryD O cls x op) fun y => runChainD O cls y rest

/-- a chain of plain entry points is the chain of Sem/Entry.lean -/
theorem runChainD_plain (O : Oracles) (cls : FieldDecl) :
    ∀ (x : PyVal) (ops : List EntryOp), runChainD O cls x (ops.map .plain) = runChainH O cls x ops
  | _, [] => rfl
  | x, op :: rest => by
    simp only [List.map, runChainD, runChainH, applyEntryD]
    cases applyEntryH O cls x op with
    | error e => rfl
    | ok y => simp only [bindE_ok]; exact runChainD_plain O cls y rest

end Typedpy
