/-
  Sem/CanonHash.lean — model of the REPAIRED `Structure.__hash__`
  (proposed_fixes/C11-canonical-hash.diff): instead of `str(self)` it hashes a canonical form of
  exactly what `__eq__` compares —

      hash((cls.__name__,
            frozenset((k, canonical(v)) for k in set(__dict__) | set(fields) if (v := value read back) is not None),
            frozenset(_none_fields)))

  with `canonical` = frozenset of canonical pairs for a dict, frozenset of canonical members for a
  set / frozenset, `(len, *canonical items)` for a list / tuple / deque and Python's own `hash(v)`
  for everything else (numbers: `hash(1) == hash(1.0) == hash(True) == hash(Decimal(1))`; a nested
  Structure: its own `__hash__`).

  Python's built-in `hash` of tuples / frozensets / strings / numbers is a parameter (`HashO`);
  what is assumed about it (`HashO.Respects`: equal numbers hash alike, a frozenset's hash does not
  depend on the order its members are listed in) is Python's documented contract and an explicit
  hypothesis of every theorem using it.
-/
import TypedpyModel.Sem.EqHash
namespace Typedpy
open PyVal (pyEq)

/-- Python's built-in `hash` on the canonical forms -/
structure HashO where
  noneH : Nat
  num : Q → Nat
  str : String → Nat
  enumv : String → String → Nat
  foreign : String → Nat
  /-- `hash((len, *items))` from the hashes of the items -/
  seq : List Nat → Nat
  /-- `hash((a, b))` -/
  pair : Nat → Nat → Nat
  /-- `hash(frozenset(members))` from the hashes of the (distinct) members -/
  frozen : List Nat → Nat
  /-- `hash((name, attrs, none_fields))` -/
  inst : Nat → Nat → Nat → Nat

/-- Python's contract for the built-in hashes -/
structure HashO.Respects (H : HashO) : Prop where
  num_eq : ∀ p q : Q, p.den ≠ 0 → q.den ≠ 0 → Q.eq p q = true → H.num p = H.num q
  frozen_perm : ∀ l l' : List Nat, l.Perm l' → H.frozen l = H.frozen l'

mutual
/-- `hash(canonical(v))` -/
def cHash (H : HashO) : PyVal → Nat
  | .none => H.noneH
  | .bool b => H.num (Q.ofInt (if b then 1 else 0))
  | .int i => H.num (Q.ofInt i)
  | .float q => H.num q
  | .dec q => H.num q
  | .str s => H.str s
  | .enumv c n => H.enumv c n
  | .opaque t => H.foreign t
  | .list xs => H.seq (cHashs H xs)
  | .tuple xs => H.seq (cHashs H xs)
  | .deque xs => H.seq (cHashs H xs)
  | .set _ xs => H.frozen (cHashs H xs)
  | .dict kvs => H.frozen (cHashKvs H kvs)
  | .inst c attrs => H.inst (H.str c) (H.frozen (cHashAttrs H attrs)) (H.frozen [])
termination_by structural v => v
def cHashs (H : HashO) : List PyVal → List Nat
  | [] => []
  | x :: xs => cHash H x :: cHashs H xs
termination_by structural xs => xs
def cHashKvs (H : HashO) : List (PyVal × PyVal) → List Nat
  | [] => []
  | (k, v) :: rest => H.pair (cHash H k) (cHash H v) :: cHashKvs H rest
termination_by structural kvs => kvs
/-- a nested instance: the attributes that do not hold `None` -/
def cHashAttrs (H : HashO) : List (String × PyVal) → List Nat
  | [] => []
  | (k, v) :: rest =>
    if v.isNone then cHashAttrs H rest else H.pair (H.str k) (cHash H v) :: cHashAttrs H rest
termination_by structural kvs => kvs
end

/-- `set(names)`: the names without repetitions -/
def dedupS : List String → List String
  | [] => []
  | k :: ks => if ks.contains k then dedupS ks else k :: dedupS ks

/-- `set(self.__dict__) | set(fields)` (the defaults name fields) -/
def instNames (d : EqCtx) (x : Inst) : List String :=
  dedupS (x.attrs.map (·.1) ++ d.fields ++ d.defaults.map (·.1))

/-- the `(k, canonical(value read back))` entry of name `k`, if the value is not `None` -/
def canonEntry (H : HashO) (d : EqCtx) (x : Inst) (k : String) : Option Nat :=
  if (getA d x k).isNone then none else some (H.pair (H.str k) (cHash H (getA d x k)))

/-- the repaired `hash(x)` -/
def canonHashI (H : HashO) (d : EqCtx) (x : Inst) : Nat :=
  H.inst (H.str x.cls) (H.frozen ((instNames d x).filterMap (canonEntry H d x)))
    (H.frozen (x.nones.map H.str))

end Typedpy
