/-
  Sem/Stub.lean — model of the field → parameter derivation of the `.pyi` stub generator and of the
  runtime constructor signature, over an abstract class hierarchy.

  Stub side (typedpy/stubs):
    * `type_info_getter.get_all_type_info`      → `allTypeInfo`
    * `type_helpers._get_ordered_args`           → `orderedArgs`
    * `methods_info_getter.get_init`             → `stubInit`
    * `methods_info_getter.get_additional_structure_methods` → `stubHelper`
  Runtime side (typedpy/structures/structures.py):
    * `_get_all_fields_by_name`                  → `fieldsByName` (over the MRO)
    * `_apply_default_and_update_required_not_to_include_fields_with_defaults` → `ownRequired`
    * `get_base_info`                            → `baseInfoOf`
    * `make_signature`                           → `makeSignature`
    * `StructMeta.__new__` (the part that computes `_required`, `_constants`, `__signature__`; `**kwargs` from the
      inherited `getattr` since the repair of "inherited-additional-properties*") → `runtimeSig`, `clsRequired`
    * `Structure.__init__` binding + `Structure.__setattr__` non-field guard → `runtimeAdmitsExtra`

  Abstractions (made by `harness/suites/stub.py:dump_classinfo`, checked per case):
    * a field is `(name, isConst, hasDefault, optShape)`:
        isConst    — the class attribute is a `Constant`
        hasDefault — `field._default is not None` after class creation
        optShape   — the field is `AnyOf/OneOf/AllOf` with exactly two options, the second a `NoneField`
                     (the shape `_get_anyof_typing` renders as `Optional[X]`)
    * the rendered annotation string of a field matters only through two tests the generator makes on it:
      `startswith("Optional[")` (true exactly for `optShape` fields; it only selects between two renderings that
      both end with `= None`) and `endswith("= None")` (in `_get_ordered_args` / the helper methods).
    * the hierarchy is a tree (`ClassInfo.mk d bases`); the MRO of a tree-shaped hierarchy is the
      depth-first pre-order (C3 on disjoint lists), `mro`.
    * sets (`set(required)`, `set(names) | set(bases_params)`) are lists whose order is unspecified;
      everything observable about them here is membership.
    * a signature is `params` (name, has-default) plus a separate `kw` flag for `**kwargs`; `get_base_info`
      deletes the base's `kwargs` entry exactly when the base has one (same expression at both sites), so
      the inherited parameter table never contains it.
-/
namespace Typedpy.Stub

structure FieldInfo where
  name : String
  isConst : Bool := false
  hasDefault : Bool := false
  optShape : Bool := false
deriving Repr, DecidableEq, Inhabited

/-- what one class statement declares itself -/
structure Decl where
  name : String
  /-- own `_fields`, in class-dict order (Constants included) -/
  fields : List FieldInfo
  /-- `_required` as written in the class body (`none` = not written) -/
  requiredDecl : Option (List String) := none
  /-- `_optional` as seen by `_apply_default…` (written or added for `typing.Optional` annotations) -/
  optionalDecl : List String := []
  /-- own `_additional_properties` (`none` = not written) -/
  addl : Option Bool := none
deriving Repr, Inhabited

inductive ClassInfo where
  | mk (d : Decl) (bases : List ClassInfo)
deriving Repr, Inhabited

structure Param where
  name : String
  hasDefault : Bool
deriving Repr, DecidableEq, Inhabited

structure Sig where
  params : List Param
  /-- `**kwargs` / `**kw` present -/
  kw : Bool
deriving Repr, DecidableEq, Inhabited

def ClassInfo.decl : ClassInfo → Decl
  | .mk d _ => d

/-! ### name-keyed dictionaries as association lists (insertion order kept, update in place) -/

/-- `d[f.name] = f` -/
def upsert : List FieldInfo → FieldInfo → List FieldInfo
  | [], f => [f]
  | g :: rest, f => if g.name = f.name then f :: rest else g :: upsert rest f

def lookupF (fs : List FieldInfo) (n : String) : Option FieldInfo := fs.find? (fun f => f.name = n)

/-- `d.update({f.name: f for f in fs})` -/
def overlay (acc fs : List FieldInfo) : List FieldInfo := fs.foldl upsert acc

/-- `_get_all_fields_by_name`: iterate the reversed MRO, `update` with every class's own fields;
    the argument is the MRO (most derived class first). -/
def fieldsByName : List Decl → List FieldInfo
  | [] => []
  | d :: rest => overlay (fieldsByName rest) d.fields

mutual
/-- MRO of a tree-shaped hierarchy (the `StructMeta` classes of it) -/
def mro : ClassInfo → List Decl
  | .mk d bases => d :: mroL bases
termination_by structural c => c
def mroL : List ClassInfo → List Decl
  | [] => []
  | b :: bs => mro b ++ mroL bs
termination_by structural bs => bs
end

/-- `cls.get_all_fields_by_name()` -/
def allFields (c : ClassInfo) : List FieldInfo := fieldsByName (mro c)

/-- keys of `cls._constants` -/
def constNames (allF : List FieldInfo) : List String := (allF.filter (·.isConst)).map (·.name)

/-- `set(xs)` as a duplicate-free list (order unspecified in Python; membership is what matters) -/
def dedupS : List String → List String
  | [] => []
  | x :: xs => if xs.contains x then dedupS xs else x :: dedupS xs

/-! ### `_required` -/

/-- one iteration of the loop of `_apply_default_and_update_required_not_to_include_fields_with_defaults` -/
def reqStep (predefined : Bool) (optional : List String) (req : List String) (f : FieldInfo) : List String :=
  if f.hasDefault then req.filter (· ≠ f.name)
  else if !predefined && !optional.contains f.name && !req.contains f.name then req ++ [f.name]
  else req

/-- `cls_dict["_required"]` after `_apply_default…` (a set: order unspecified) -/
def ownRequired (d : Decl) : List String :=
  d.fields.foldl (reqStep d.requiredDecl.isSome d.optionalDecl) (dedupS (d.requiredDecl.getD []))

/-! ### runtime signature -/

/-- `getattr(cls, "_additional_properties", default)`: first class of the MRO that declares it -/
def addlLookup : List Decl → Option Bool
  | [] => none
  | d :: rest => match d.addl with
    | some b => some b
    | none => addlLookup rest


/-- `bases_params[k] = param` for a key that is already there (the position is kept) -/
def replaceP (ps : List Param) (p : Param) : List Param := ps.map (fun q => if q.name = p.name then p else q)

/-- inner loop of `get_base_info`: `if k not in bases_params: (required if no default); bases_params[k] = param`;
    since fix d18be04 `elif k not in bases_required and <param has no default>: bases_required.append(k);
    bases_params[k] = param` — a later base that requires what an earlier base declares optional wins -/
def bpStep (acc : List Param × List String) (p : Param) : List Param × List String :=
  if acc.1.any (fun q => q.name = p.name) then
    (if !acc.2.contains p.name && !p.hasDefault then (replaceP acc.1 p, acc.2 ++ [p.name]) else acc)
  else (acc.1 ++ [p], if p.hasDefault then acc.2 else acc.2 ++ [p.name])

/-- `get_base_info` on the signatures of the base classes -/
def baseInfoOf (sigs : List Sig) : List Param × List String :=
  sigs.foldl (fun acc s => s.params.foldl bpStep acc) ([], [])

/-- `{**xs, **ys}.values()` for name-keyed parameter dictionaries -/
def dictMerge (xs ys : List Param) : List Param :=
  xs.map (fun p => (ys.find? (fun q => q.name = p.name)).getD p) ++
    ys.filter (fun q => !xs.any (fun p => p.name = q.name))

/-- `make_signature` -/
def makeSignature (own : List String) (required : List String) (addl : Bool)
    (bp : List Param) (breq : List String) (consts : List String) : Sig :=
  let allNames := dedupS (own ++ bp.map (·.name))
  let nonDefaultClass : List Param :=
    ((allNames.filter (fun n => !consts.contains n)).filter (fun n => required.contains n)).map
      (fun n => ⟨n, false⟩)
  let nonDefaultBases := bp.filter (fun p => (required.contains p.name || breq.contains p.name) && !consts.contains p.name)
  let defaultClass : List Param :=
    (own.filter (fun n => !required.contains n && !consts.contains n)).map (fun n => ⟨n, true⟩)
  let defaultBases := bp.filter (fun p => !required.contains p.name && !breq.contains p.name && !consts.contains p.name)
  ⟨dictMerge nonDefaultBases nonDefaultClass ++ dictMerge defaultBases defaultClass, addl⟩

/-- since fix 1cc748e: `cls_dict["_required"] = [r for r in cls_dict["_required"] if <the field r finally denotes,
    inherited ones included, has no default>]` -/
def ownRequiredF (d : Decl) (allF : List FieldInfo) : List String :=
  (ownRequired d).filter (fun n => !(((lookupF allF n).map (·.hasDefault)).getD false))

/-- the non-recursive part of `StructMeta.__new__`: signature of a class from its own declaration, its
    complete field table and the signatures of its bases -/
def sigOf (addl : Bool) (d : Decl) (allF : List FieldInfo) (baseSigs : List Sig) : Sig :=
  makeSignature (d.fields.map (·.name)) (ownRequiredF d allF) addl
    (baseInfoOf baseSigs).1 (baseInfoOf baseSigs).2 (constNames allF)

mutual
/-- `cls.__signature__`; `dflt` is `TypedPyDefaults.additional_properties_default`.  Since the repair of the
    findings "inherited-additional-properties*" `StructMeta.__new__` reads the flag with `getattr` on the new class
    (first class of the MRO that declares it), as `Structure.__setattr__` and the stub generator always did. -/
def runtimeSig (dflt : Bool) : ClassInfo → Sig
  | .mk d bases => sigOf ((addlLookup (d :: mroL bases)).getD dflt) d (fieldsByName (d :: mroL bases))
      (runtimeSigs dflt bases)
termination_by structural c => c
def runtimeSigs (dflt : Bool) : List ClassInfo → List Sig
  | [] => []
  | b :: bs => runtimeSig dflt b :: runtimeSigs dflt bs
termination_by structural bs => bs
end

mutual
/-- `cls._required = list(set(bases_required + required + inherited_required_constants))` (order unspecified);
    the third part since fix 82de3b9: a name that is a Constant of the class and is listed in the `_required` of one
    of its direct bases -/
def clsRequired (dflt : Bool) : ClassInfo → List String
  | .mk d bases =>
    (baseInfoOf (runtimeSigs dflt bases)).2 ++ ownRequiredF d (fieldsByName (d :: mroL bases)) ++
      (constNames (fieldsByName (d :: mroL bases))).filter (fun n => anyBaseRequires dflt bases n)
termination_by structural c => c
def anyBaseRequires (dflt : Bool) : List ClassInfo → String → Bool
  | [], _ => false
  | b :: bs, n => (clsRequired dflt b).contains n || anyBaseRequires dflt bs n
termination_by structural bs => bs
end

/-- the guard of `Structure.__setattr__` lets a non-field name through -/
def setattrAllows (dflt : Bool) (c : ClassInfo) : Bool := (addlLookup (mro c)).getD dflt

/-- an unknown keyword is accepted by the constructor: `__signature__.bind` needs `**kwargs`, then
    `setattr` of the extra name must pass the `__setattr__` guard -/
def runtimeAdmitsExtra (dflt : Bool) (c : ClassInfo) : Bool := (runtimeSig dflt c).kw && setattrAllows dflt c

/-- a field is required at run time: the signature has a parameter of that name without default -/
def runtimeRequired (dflt : Bool) (c : ClassInfo) (n : String) : Bool :=
  (runtimeSig dflt c).params.contains ⟨n, false⟩

/-! ### stub side -/

/-- does the annotation string stored by `get_all_type_info` end with `= None`?  `get_type_info` itself never
    renders a trailing `= None` (since fix 08ea09e `_get_anyof_typing` gives the bare `Optional[X]`); the default
    is appended by `get_all_type_info` exactly for names not in `_required`: `Optional[X] = None` for the
    optional shape, the wrapper `Optional[T] = None` otherwise. -/
def annEndsNone (required : List String) (f : FieldInfo) : Bool :=
  if !required.contains f.name then
    (if f.optShape then true    -- `f"{type_info_str} = None"`
     else true)                 -- `f"Optional[{type_info_str}] = None"`
  else false                    -- as rendered by `get_type_info`

/-- `get_all_type_info`: name ↦ annotation, reduced to (name, annotation ends with `= None`) -/
def allTypeInfo (allF : List FieldInfo) (required : List String) : List Param :=
  (allF.filter (fun f => !f.isConst)).map (fun f => ⟨f.name, annEndsNone required f⟩)

/-- `_get_ordered_args`: mandatory first, then the `= None` ones, each group in dictionary order -/
def orderedArgs (ps : List Param) : List Param :=
  ps.filter (fun p => !p.hasDefault) ++ ps.filter (fun p => p.hasDefault)

/-- `getattr(cls, ADDITIONAL_PROPERTIES, additional_properties_default)` as used by `get_init` -/
def stubKw (apd : Bool) (c : ClassInfo) : Bool := (addlLookup (mro c)).getD apd

/-- the ordered field arguments of a class as the stub generator sees them -/
def stubArgs (dflt : Bool) (c : ClassInfo) : List Param :=
  orderedArgs (allTypeInfo (allFields c) (clsRequired dflt c))

/-- `get_init`: keyword parameters of the generated `__init__` (after `self`) -/
def stubInit (dflt apd : Bool) (c : ClassInfo) : Sig := ⟨stubArgs dflt c, stubKw apd c⟩

inductive Helper where | shallowClone | fromOtherClass | fromTrustedData
deriving Repr, DecidableEq, Inhabited

/-- fixed leading parameters of the three helper methods (after `self`/`cls`) -/
def helperPrefix : Helper → List Param
  | .shallowClone => []
  | .fromOtherClass => [⟨"source_object", false⟩, ⟨"ignore_props", true⟩]
  | .fromTrustedData => [⟨"source_object", true⟩, ⟨"ignore_props", true⟩]

/-- `get_additional_structure_methods`: every field keyword gets `= None` appended unless it already ends so -/
def stubHelperFields (dflt : Bool) (c : ClassInfo) : List Param :=
  (stubArgs dflt c).map (fun p => ⟨p.name, if p.hasDefault then p.hasDefault else true⟩)

/-- the fixed parameters of the two classmethods that a field keyword may not repeat -/
def reservedHelper : List String := ["source_object", "ignore_props"]

/-- since the repair of "uncompilable-stub:parameter-name-clash": a field called like one of the fixed parameters of
    `from_other_class` / `from_trusted_data` is left out of those two stubs (at run time the name binds to the fixed
    parameter, it cannot be passed as an override) -/
def helperKeep : Helper → List Param → List Param
  | .shallowClone, ps => ps
  | _, ps => ps.filter (fun p => !reservedHelper.contains p.name)

def stubHelper (dflt apd : Bool) (h : Helper) (c : ClassInfo) : Sig :=
  ⟨helperPrefix h ++ helperKeep h (stubHelperFields dflt c), stubKw apd c⟩

/-- a valid Python parameter list: no parameter without default after one with default -/
def mandatoryFirst : List Param → Bool
  | [] => true
  | p :: ps => if p.hasDefault then ps.all (·.hasDefault) else mandatoryFirst ps

/-! ### the import section (`type_helpers.add_imports`) — the one place a `set` is iterated -/

/-- insert into a strictly sorted list, dropping duplicates -/
def insertU (x : String) : List String → List String
  | [] => [x]
  | y :: ys => if x < y then x :: y :: ys else if x = y then y :: ys else y :: insertU x ys

/-- `sorted(set_of_strings)`: insertion sort with duplicate removal -/
def sortU (xs : List String) : List String := xs.foldr insertU []

/-- `f"from {module} import {name}"` -/
def importLine (kv : String × String) : String := "from " ++ kv.2 ++ " import " ++ kv.1

/-- `sorted({f"from {v} import {k}" for k, v in extra_imports_by_name.items() …})`; the argument is the
    (name, module) items in whatever order the `set`/`dict` iteration produced them -/
def renderImports (extra : List (String × String)) : List String := sortU (extra.map importLine)

end Typedpy.Stub
