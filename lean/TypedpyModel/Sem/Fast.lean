/-
  Sem/Fast.lean — executable model of typedpy's fast serialization (property C10):

    * `create_serializer(cls, compact, serialize_none)` (fast_serialization.py:88-151):
      success / failure (`createOk`: `_verify_is_fast_serializable`, `_get_serialize`), the
      per-field getters (`_get_value` for Number / String / Boolean fields, `field.serialize`
      behind a None test for the others), mapped keys, `serialize_none`, `set_compact_wrapper`
      → `fastSerialize`;
    * the per-field `serialize(value)` methods the getters call: `Field.serialize` (`fDefault`),
      Array / Deque / Set / Tuple / Map / Enum / AnyOf / MultiFieldWrapper / NoneField /
      StructureReference / ClassReference `.serialize` → `fser`;
    * the regular counterpart with the `compact` flag of `serialize_internal` → `serializeCompact`
      (non-compact: `Sem/Serde.serialize`).

  `json.dumps(value)` inside `Field.serialize` returns the JSON *text* of a dict / tuple; the
  model has no JSON printer: `outside-model:json-dumps` (the harness names the defect instead).
  Keys are mapped through the class's own simple mapper (`Sem/Trusted.mapKey`); nested classes use
  their own serializer, i.e. their own mapper only.
-/
import TypedpyModel.Sem.Trusted
namespace Typedpy
open PyVal (pyEq)

/-- `isinstance(field, (Number, String, Boolean))`: served by `_get_value` -/
def isNSB : FieldDecl → Bool
  | .number _ | .integer _ | .float _ | .string _ _ _ | .boolean => true
  | _ => false

/-- Array.serialize copies the list without converting the elements for `Number` items and for
    items of class `String` -/
def isNumOrStr : FieldDecl → Bool
  | .number _ | .integer _ | .float _ | .string _ _ _ => true
  | _ => false

mutual
/-- `Field.serialize(value)` (the base-class default).  `JK` lists the enum classes whose members
    are themselves `int` / `float` / `str` instances (IntEnum, IntFlag, `class E(str, Enum)`, …):
    the `isinstance(value, (int, float, str, bool))` test returns such a member unchanged, a plain
    member goes to `json.dumps` and raises TypeError. -/
def fDefault (JK : List String) : PyVal → R PyVal
  | .none => .ok .none
  | .bool b => .ok (.bool b)
  | .int i => .ok (.int i)
  | .float q => .ok (.float q)
  | .str s => .ok (.str s)
  | .list xs => bindE (fDefaultList JK xs) fun ys => .ok (.list ys)
  | .tuple _ => .error (.other "outside-model:json-dumps")
  | .dict _ => .error (.other "outside-model:json-dumps")
  | .dec _ => .error .typeErr
  | .set _ _ => .error .typeErr
  | .deque _ => .error .typeErr
  | .enumv c n => if JK.contains c then .ok (.enumv c n) else .error .typeErr   -- a mixin member is an int / float / str
  | .inst _ _ => .error .typeErr
  | .opaque _ => .error .typeErr
termination_by structural v => v
def fDefaultList (JK : List String) : List PyVal → R (List PyVal)
  | [] => .ok []
  | x :: xs => bindE (fDefault JK x) fun y => bindE (fDefaultList JK xs) fun ys => .ok (y :: ys)
termination_by structural xs => xs
end

/-- iteration of `[… for x in value]` -/
def iterElems : PyVal → Option (List PyVal)
  | .list xs | .tuple xs | .deque xs | .set _ xs => some xs
  | _ => none

/-- `[g(x) for x in value]` -/
def fList (g : List PyVal → R (List PyVal)) (v : PyVal) : R PyVal :=
  match iterElems v with
  | some xs => bindE (g xs) fun ys => .ok (.list ys)
  | none => .error .typeErr

def fEnumName (v : PyVal) : R PyVal :=
  match v with
  | .enumv _ n => .ok (.str n)
  | _ => .error (.other "AttributeError")

/-- `{ks(k): vs(v) for k, v in value.items()}` -/
def fMap (g : List (PyVal × PyVal) → R (List (PyVal × PyVal))) (v : PyVal) : R PyVal :=
  match v with
  | .dict kvs => bindE (g kvs) fun r =>
      if r.any (fun kv => unhashable kv.1) then .error .typeErr else .ok (.dict (dictOfPairs r))
  | _ => .error (.other "AttributeError")

/-- `field.__get__(instance)`: the attribute, else the field's default, else None -/
def getAttr (defaults attrs : List (String × PyVal)) (n : String) : PyVal :=
  match lookup n attrs with
  | some v => v
  | none => (lookup n defaults).getD .none

/-- `processed_mapper[mapped_key] = getter`: two fields mapped to one key share one entry (the
    later field's).  Without a mapper the keys are the distinct field names. -/
def keyDedupe (m : TMapper) (r : List (PyVal × PyVal)) : List (PyVal × PyVal) :=
  if m.isNone then r else dictOfPairs r

/-- a ClassReference to a class without an installed `serialize` (not FastSerializable) -/
def nonFastRef (NF : List String) : FieldDecl → Bool
  | .struct c _ _ => !c.inline && NF.contains c.name
  | _ => false

/-- `[item_class.serialize(x) for x in value]` for an item class without a `serialize` attribute
    (since 1424460 the attribute is looked up at every call): AttributeError at the first element,
    nothing happens for an empty collection -/
def lateLookup (xs : List PyVal) : R (List PyVal) :=
  if xs.isEmpty then .ok [] else .error (.other "AttributeError")

def nonNoneCount (fs : List FieldDecl) : Nat := (fs.filter fun f => !isNoneF f).length

/-- an `AnyOf` with several non-None options: since /repo ab026bd `AnyOf.serialize` hands the value to
    the first option whose `__set__` takes it (full validation, regex included) — outside this model;
    `create_serializer` refuses such a field at class level, it only occurs nested -/
def anyOfMulti (fs : List FieldDecl) : Bool := decide (1 < nonNoneCount fs)

def attrsOf : PyVal → List (String × PyVal)
  | .inst _ attrs => attrs
  | _ => []

mutual
/-- `field.serialize(value)` -/
def fser (Mp : MapEnv) (NF JK : List String) : FieldDecl → PyVal → R PyVal
  | .number _, v => fDefault JK v
  | .integer _, v => fDefault JK v
  | .float _, v => fDefault JK v
  | .string _ _ _, v => fDefault JK v
  | .boolean, v => .ok v
  | .noneF, _ => .ok .none
  | .enumLit _, v => .ok v
  | .enumCls _ _, v => fEnumName v
  | .seqOf .list item _, v =>
    if isNumOrStr item then fList (fun xs => .ok xs) v       -- `list(value)`: a copy, same elements
    else if nonFastRef NF item then fList lateLookup v     -- `item_class.serialize(x)`, looked up per element
    else fList (mapE (fser Mp NF JK item)) v
  | .seqOf .deque item _, v => fList (mapE (fser Mp NF JK item)) v
  | .seqPos .list items _ _, v => fList (fserZipRaw Mp NF JK items) v    -- surplus elements: `deepcopy(x)`
  | .seqPos .deque items _ _, v => fList (fserZipRaw Mp NF JK items) v   -- surplus elements passed through (like Array)
  | .seqAny _ _, v => fList (fun xs => .ok xs) v              -- `deepcopy(list(value))`
  | .setOf _ item _, v =>
    if nonFastRef NF item then fList lateLookup v
    else fList (mapE (fser Mp NF JK item)) v
  | .setAny _ _, v => fList (fun xs => .ok xs) v
  | .tupleOf item _, v => fList (mapE (fser Mp NF JK item)) v       -- `Tuple[X]`: all elements through X
  | .tuplePos items _, v => fList (fserZip Mp NF JK items) v
  | .mapOf kf vf _, v =>
    fMap (mapE (fun (kv : PyVal × PyVal) =>
      bindE (fser Mp NF JK kf kv.1) fun k' => bindE (fser Mp NF JK vf kv.2) fun v' => .ok (k', v'))) v
  | .mapAny _, v => (match v with | .dict kvs => .ok (.dict kvs) | _ => .error .typeErr)  -- `deepcopy(dict(value))`
  | .struct c fields defaults, v =>
    if c.inline then
      -- StructureReference.serialize: every field, unset ones included (None): `getattr(value, name, None)`
      -- reads the field's default from a Structure instance, and None from anything else (a trusted
      -- instance holds the raw dict it was given)
      bindE (fInline Mp NF JK (match v with | .inst _ _ => defaults | _ => []) (attrsOf v) fields) fun r => .ok (.dict r)
    else if NF.contains c.name then .error .typeErr        -- `getattr(cls, "serialize", None)(value)`
    else (match v with
      | .inst _ attrs =>
        bindE (fFields Mp NF JK false (Mp c.name) defaults attrs fields) fun r =>
          .ok (.dict (keyDedupe (Mp c.name) r))
      | _ => .error (.other "AttributeError"))
  | .anyOf fs, v =>
    if v.isNone then .ok .none
    else if anyOfMulti fs then .error (.other "outside-model:anyof-serialize-by-validation")
    else fserLast Mp NF JK fs v
  | .allOf fs, v => fserHead Mp NF JK fs v
  | .notF fs, v => fserHead Mp NF JK fs v
  | .oneOf _, _ => .error .typeErr
  | .anything, v => fDefault JK v
termination_by structural f _ => f

/-- `[items[i].serialize(x) for i, x in enumerate(value)]` -/
def fserZip (Mp : MapEnv) (NF JK : List String) : List FieldDecl → List PyVal → R (List PyVal)
  | _, [] => .ok []
  | [], _ :: _ => .error (.other "IndexError")
  | f :: fs, x :: xs =>
    bindE (fser Mp NF JK f x) fun y => bindE (fserZip Mp NF JK fs xs) fun ys => .ok (y :: ys)
termination_by structural fs _ => fs

/-- Array.serialize with positional items: elements beyond the item fields are passed through -/
def fserZipRaw (Mp : MapEnv) (NF JK : List String) : List FieldDecl → List PyVal → R (List PyVal)
  | _, [] => .ok []
  | [], x :: xs => .ok (x :: xs)
  | f :: fs, x :: xs =>
    bindE (fser Mp NF JK f x) fun y => bindE (fserZipRaw Mp NF JK fs xs) fun ys => .ok (y :: ys)
termination_by structural fs _ => fs

/-- `AnyOf.serialize`: through `_not_nonefield`, the LAST option that is not `NoneField` -/
def fserLast (Mp : MapEnv) (NF JK : List String) : List FieldDecl → PyVal → R PyVal
  | [], _ => .error (.other "AttributeError")
  | f :: rest, v => if rest.all isNoneF && !isNoneF f then fser Mp NF JK f v else fserLast Mp NF JK rest v
termination_by structural fs _ => fs

/-- `MultiFieldWrapper.serialize`: through the first option -/
def fserHead (Mp : MapEnv) (NF JK : List String) : List FieldDecl → PyVal → R PyVal
  | [], _ => .error (.other "IndexError")
  | f :: _, v => fser Mp NF JK f v
termination_by structural fs _ => fs

/-- `StructureReference.serialize` -/
def fInline (Mp : MapEnv) (NF JK : List String) (defaults attrs : List (String × PyVal)) :
    List (String × FieldDecl) → R (List (PyVal × PyVal))
  | [] => .ok []
  | (n, f) :: rest =>
    bindE (fser Mp NF JK f (getAttr defaults attrs n)) fun j =>
    bindE (fInline Mp NF JK defaults attrs rest) fun r => .ok ((PyVal.str n, j) :: r)
termination_by structural fs => fs

/-- the serializer `create_serializer` installs: one getter per field, in field order; None
    results are dropped unless `serialize_none` -/
def fFields (Mp : MapEnv) (NF JK : List String) (sn : Bool) (m : TMapper)
    (defaults attrs : List (String × PyVal)) : List (String × FieldDecl) → R (List (PyVal × PyVal))
  | [] => .ok []
  | (n, f) :: rest =>
    bindE (if isNSB f then .ok (getAttr defaults attrs n)
           else if (getAttr defaults attrs n).isNone then .ok .none
           else fser Mp NF JK f (getAttr defaults attrs n)) fun j =>
    bindE (fFields Mp NF JK sn m defaults attrs rest) fun r =>
      .ok (if j.isNone && !sn then r else (PyVal.str (mapKey m n), j) :: r)
termination_by structural fs => fs
end

/-! ### create_serializer: success or failure -/

mutual
/-- `_verify_is_fast_serializable(field)` does not raise: every field whose `serialize` the field's
    own `serialize` calls is verified too (`_nested_fields`: the item field(s) of a collection, the
    options of an `AnyOf`) -/
def verifyOk (Mp : MapEnv) (NF : List String) : FieldDecl → Bool
  | .seqOf _ item _ => verifyOk Mp NF item
  | .setOf _ item _ => verifyOk Mp NF item
  | .tupleOf item _ => verifyOk Mp NF item
  | .tuplePos items _ => verifyL Mp NF items
  | .seqPos _ items _ _ => verifyL Mp NF items
  | .mapOf kf vf _ => verifyOk Mp NF kf && verifyOk Mp NF vf
  | .anyOf fs => verifyL Mp NF fs
  | .struct c fields _ =>
    if c.inline then true
    else !NF.contains c.name && !(Mp c.name).isComplex && createFields Mp NF fields
  | .number _ => true
  | .integer _ => true
  | .float _ => true
  | .string _ _ _ => true
  | .boolean => true
  | .noneF => true
  | .enumLit _ => true
  | .enumCls _ _ => true
  | .seqAny _ _ => true
  | .setAny _ _ => true
  | .mapAny _ => true
  | .oneOf _ => true
  | .allOf _ => true
  | .notF _ => true
  | .anything => true
termination_by structural f => f

def verifyL (Mp : MapEnv) (NF : List String) : List FieldDecl → Bool
  | [] => true
  | f :: fs => verifyOk Mp NF f && verifyL Mp NF fs
termination_by structural fs => fs

/-- every field's getter can be built -/
def createFields (Mp : MapEnv) (NF : List String) : List (String × FieldDecl) → Bool
  | [] => true
  | (_, f) :: rest =>
    (isNSB f ||
      (verifyOk Mp NF f
        && (match f with
            | .oneOf _ => false
            | .anyOf fs => decide (nonNoneCount fs ≤ 1)
            | _ => true)))
    && createFields Mp NF rest
termination_by structural fs => fs
end

/-- `create_serializer(cls)` succeeds (a `complex` mapper stands for a FunctionCall value here) -/
def createOk (Mp : MapEnv) (NF : List String) (cls : FieldDecl) : Bool :=
  match cls with
  | .struct c fields _ => !(Mp c.name).isComplex && createFields Mp NF fields
  | _ => false

/-- `x.serialize()` of an instance of a class whose serializer was created with the given flags -/
def fastSerialize (Mp : MapEnv) (NF JK : List String) (sn compact : Bool) (cls : FieldDecl)
    (x : PyVal) : R PyVal :=
  match cls with
  | .struct c fields defaults =>
    bindE (bindE (fFields Mp NF JK sn (Mp c.name) defaults (attrsOf x) fields) fun r =>
            .ok (keyDedupe (Mp c.name) r)) fun r =>
      if compact && fields.length == 1 && r.length == 1 then
        (match r with | kv :: _ => .ok kv.2 | [] => .ok (.dict r))
      else .ok (.dict r)
  | _ => .error (.other "not-a-class")

/-- `Serializer(x).serialize(compact=…)` without mappers: the compact form applies to a class with
    exactly one field, which is required, and no additional properties -/
def serializeCompact (O : Oracles) (compact : Bool) (cls : FieldDecl) (x : PyVal) : R PyVal :=
  match cls with
  | .struct c fields defaults =>
    if compact && !c.addl then
      (match fields with
        | [(n, f)] => if c.required == [n] then ser O f (getAttr defaults (attrsOf x) n)
                      else serialize O cls x
        | _ => serialize O cls x)
    else serialize O cls x
  | _ => .error (.other "not-a-class")

/-! ### order of first use: when does the class get its serializer -/

/-- `FastSerializable.__init__` installs the class's serializer (when it has none); the validating
    constructor reaches it once, and so does the trusted branch of `Structure.__init__` (one
    `super().__init__()` per instance — before the repair of `first-use-order:no-values` it sat
    inside the loop over the supplied keywords, so an instance made from no values never reached
    it).  `had` = the class already has its serializer. -/
def installedAfterTrustedInit (_had : Bool) (_kw : List (String × PyVal)) : Bool := true

/-- `x.serialize()` of an instance the trusted constructor built from the keywords `attrsOf x`
    (trusted deserialization, `from_trusted_data`, `trust_supplied_values()` + constructor), on a
    class created without an explicit `create_serializer` call -/
def fastSerializeFirst (Mp : MapEnv) (NF JK : List String) (had : Bool) (cls : FieldDecl)
    (x : PyVal) : R PyVal :=
  if installedAfterTrustedInit had (attrsOf x) then fastSerialize Mp NF JK false false cls x
  else .error (.other "NotImplementedError")

end Typedpy
