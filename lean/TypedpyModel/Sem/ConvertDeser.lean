/-
  Sem/ConvertDeser.lean — the WHOLE path of `Deserializer(VersionedCls).deserialize(document)`: the `Versioned`
  prologue of `deserialize_structure_internal` (Sem/Convert.lean `deserVersioned`: require the `version` key, run
  `convert_dict` with the class's history) composed with the model of the remainder of deserialization
  (Sem/Deser.lean: per-field pass `deserFields`, undeclared keys `deserExtras`, the constructor `vConstruct` with
  validation — nested classes and their undeclared keys included) and with `Versioned.__init__`, which overwrites the
  `version` keyword with `len(_versions_mapping) + 1` before the constructor validates it.
  Classes without mappers; regular path (`deserializeVersioned`) and `direct_trusted_mapping=True`
  (`deserializeVersionedTrusted`, Sem/Trusted.lean).
-/
import TypedpyModel.Sem.Convert
import TypedpyModel.Sem.Deser
import TypedpyModel.Sem.Trusted
namespace Typedpy.ConvertDeser
open Typedpy

mutual
/-- a JSON document as the Python value the deserializer sees -/
def toPy : Convert.Json → PyVal
  | .null => .none
  | .bool b => .bool b
  | .int i => .int i
  | .str s => .str s
  | .float n d => .float ⟨n, d⟩
  | .list xs => .list (toPyList xs)
  | .obj kvs => .dict (toPyObj kvs)
termination_by structural x => x
def toPyList : List Convert.Json → List PyVal
  | [] => []
  | x :: r => toPy x :: toPyList r
termination_by structural x => x
def toPyObj : List (String × Convert.Json) → List (PyVal × PyVal)
  | [] => []
  | (k, v) :: r => (.str k, toPy v) :: toPyObj r
termination_by structural x => x
end

/-- `kwargs["version"] = default_version` in `Versioned.__init__` -/
def setKw (k : String) (v : PyVal) : List (String × PyVal) → List (String × PyVal)
  | [] => [(k, v)]
  | (k', v') :: r => if k' = k then (k, v) :: r else (k', v') :: setKw k v r

/-- the remainder of `deserialize_structure_internal` on `input_dict` for a `Versioned` class whose latest version
    is `latest`: `Typedpy.deserialize` (Sem/Deser.lean) with the constructor's `version` keyword forced -/
def versionedRest (O : Oracles) (opts : DeserOpts) (cls : FieldDecl) (latest : Int) (d : Convert.Json) : R PyVal :=
  match cls with
  | .struct c fields defaults =>
    (match toPy d with
      | .dict kvs =>
        dClassRef (.dict kvs) (!keepsExtras opts c)
          (fun kw => bindE (deserFields O opts c kw fields false) fun _ => .ok ()) fun kw =>
          bindE (bindE (deserFields O opts c kw fields false)
              (fun args => .ok (deserExtras opts c (fields.map (·.1)) kw ++ args))) fun args =>
            vConstruct c (fields.map (·.1)) (setKw "version" (.int latest) args)
              (validateFields O c defaults (setKw "version" (.int latest) args) fields)
      | _ => .error .typeErr)
  | _ => .error (.other "not-a-class")

/-- `Deserializer(cls).deserialize(d)` for `issubclass(cls, Versioned)`: outer result = what the prologue does
    (the exceptions of `convert_dict`), inner result = what the remainder does with the converted document -/
def deserializeVersioned (O : Oracles) (opts : DeserOpts) (cls : FieldDecl) (ms : Option (List Convert.Mapping))
    (d : Convert.Json) : Convert.R (R PyVal) :=
  Convert.deserVersioned (versionedRest O opts cls (((ms.getD []).length : Int) + 1)) ms d

/-- the remainder with `direct_trusted_mapping=True` (class without mappers): an eligible class
    (`_structure_simplicity_level`, Sem/Trusted.lean `verdictOf`) is built by `from_trusted_data`, which still calls
    `__init__` on the unvalidated keywords: `Versioned.__init__` forces `version` here too (every keyword becomes an
    attribute as it is); an ineligible class takes the regular remainder -/
def versionedRestTrusted (O : Oracles) (opts : DeserOpts) (cls : FieldDecl) (latest : Int) (d : Convert.Json) :
    R PyVal :=
  match verdictOf noMappers cls with
  | .no => versionedRest O opts cls latest d
  | _ =>
    match deserializeTrusted noMappers O opts cls (toPy d) with
    | .ok (.inst n attrs) => .ok (.inst n (setKw "version" (.int latest) attrs))
    | other => other

/-- `Deserializer(cls).deserialize(d, direct_trusted_mapping=True)` for a `Versioned` class -/
def deserializeVersionedTrusted (O : Oracles) (opts : DeserOpts) (cls : FieldDecl)
    (ms : Option (List Convert.Mapping)) (d : Convert.Json) : Convert.R (R PyVal) :=
  Convert.deserVersioned (versionedRestTrusted O opts cls (((ms.getD []).length : Int) + 1)) ms d

/-- the latest (non-`Versioned`) class on a document: plain `Typedpy.deserialize` -/
def deserializePlain (O : Oracles) (opts : DeserOpts) (cls : FieldDecl) (d : Convert.Json) : R PyVal :=
  deserialize O opts cls (toPy d)

end Typedpy.ConvertDeser
